import BurrowVerif.Model.Basic
import BurrowVerif.Model.Eval
