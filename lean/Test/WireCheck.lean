import BurrowVerif.Spec.Wire
open Burrow Burrow.Decode Burrow.Spec.Wire

def s (x : String) : Option Bytes := some x.toUTF8.toList

def fixture : OffsetCommit :=
  { keyVersion := 1, group := s "testgroup", topic := s "testtopic", partition := 11,
    valueVersion := 1, offset := 8372, leaderEpoch := 0, metadata := s "",
    timestamp := 1477092910123, expireTimestamp := 1477179310123 }
#eval fixture.encKey
#eval fixture.encValue
#eval (processMessage (fun _ => true) 8372 fixture.encKey fixture.encValue)
#eval (processMessage (fun _ => true) 5 ({fixture with valueVersion := 3, group := none, offset := -1, partition := -5}.encKey ++ [1,2]) ({fixture with valueVersion := 3, metadata := none, offset := -1}.encValue ++ [9]))

def gm : GroupMetadata :=
  { group := s "g", version := 3, protocolType := s "consumer", generation := 1, protocol := s "range", leader := none,
    stateTimestamp := 77, members := [
      { memberID := s "m1", groupInstanceID := none, clientID := s "cid", clientHost := s "/1.2.3.4", rebalanceTimeout := 5, sessionTimeout := 6,
        subscription := [1,2,3], assignment := some { version := 0, topics := [(s "t1", [0,1]), (s "t2", [])], userData := none } },
      { memberID := s "m2", groupInstanceID := s "inst", clientID := s "cid2", clientHost := s "h2", rebalanceTimeout := 5, sessionTimeout := 6,
        subscription := [], assignment := none },
      { memberID := s "m3", groupInstanceID := s "inst", clientID := s "cid3", clientHost := s "h3", rebalanceTimeout := 5, sessionTimeout := 6,
        subscription := [], assignment := some { version := 1, topics := [(s "t1", [2])], userData := some [7,7] } } ] }
#eval (processMessage (fun _ => true) 5 gm.encKey gm.encValue)
#eval (processMessage (fun _ => true) 5 gm.encKey gm.encValue).reqs == gm.members.flatMap (MemberMsg.owners (strVal gm.group))
#eval [0,1,2,3].map fun v => (processMessage (fun _ => true) 5 {gm with version := v}.encKey ({gm with version := v}.encValue ++ [1])).reqs == gm.members.flatMap (MemberMsg.owners (strVal gm.group))
#eval (processMessage (fun _ => true) 5 gm.encKey ({gm with members := []}.encValue)).reqs
#eval (processMessage (fun _ => true) 5 gm.encKey []).reqs
#eval processMessage (fun _ => true) 0 [0, 0, 0xFF, 0xFE] [0, 0]
#eval (processMessage (fun _ => true) 0 [0, 2, 0, 1, 0x67]
      ([0, 0, 0, 8] ++ "consumer".toUTF8.toList ++ [0, 0, 0, 1, 0xFF, 0xFF, 0xFF, 0xFF, 0, 0, 0, 1,
        0, 0, 0, 0, 0, 0, 0, 0, 0, 0, 0, 0, 0, 0, 0, 0, 0, 6, 0, 0, 1, 0, 0, 0]))
