import BurrowVerif.Spec.Notifier
open Burrow Burrow.Notifier Burrow.Spec.Notifier
instance : Inhabited Ev := ⟨{ status := .ok, now := 0, acc := fun _ => true, freshId := 0 }⟩

def allSeqs {α} (alpha : List α) : Nat → List (List α)
  | 0 => [[]]
  | n+1 => (allSeqs alpha n) ++ ((allSeqs alpha n).filter (·.length = n)).flatMap (fun s => alpha.map (fun a => s ++ [a]))

def sts : List Status := [.ok, .warn, .err, .notFound]
def cfgsList : List (List ModuleCfg) :=
  [[{name:="a",threshold:=2,sendInterval:=5,sendOnce:=false,sendClose:=true},{name:="b",threshold:=3,sendInterval:=0,sendOnce:=true,sendClose:=false}],
   [{name:="a",threshold:=1,sendInterval:=5,sendOnce:=true,sendClose:=true}],
   [{name:="a",threshold:=3,sendInterval:=11,sendOnce:=false,sendClose:=false}]]

def mkEvs (ss : List (Status × Nat)) : List Ev := Id.run do
  let mut t : Int := 0
  let mut out := []
  let mut i := 0
  for (s, dt) in ss do
    t := t + dt * 4000
    out := out ++ [({ status := s, now := t, acc := fun m => !(m == "b" && i % 3 == 2), freshId := i } : Ev)]
    i := i + 1
  return out

def allBadB (evs : List Ev) (i j : Nat) : Bool := (List.range j).all fun k => k < i || (match evs[k]? with | some e => decide (e.status > .ok) | none => true)
def opensB (evs : List Ev) (i : Nat) : Bool :=
  (match evs[i]? with | some e => decide (e.status > .ok) | none => false) && (i == 0 || match evs[i-1]? with | some e => e.status == .ok | none => false)

def check (cfgs : List ModuleCfg) (evs : List Ev) : List String := Id.run do
  let mut errs := []
  let n := evs.length
  let notes := fun i => notesAt cfgs evs i
  for i in List.range n do
    for j in List.range n do
      let ei := evs[i]!
      let ej := evs[j]!
      if i ≤ j && decide (ei.status > .ok) && allBadB evs i j then
        for ni in notes i do for nj in notes j do
          if !(ni.id == nj.id && ni.start == nj.start && ni.id.isSome && ni.start.isSome) then errs := errs ++ ["identity"]
      -- distinct
      for k in List.range n do
        if i ≤ k && k < j && evs[k]!.status == .ok then
          for ni in notes i do for nj in notes j do
            match ni.id, nj.id with
            | some a, some b => if a == b then errs := errs ++ ["distinct"]
            | _, _ => pure ()
      -- rate limit / send once
      if i < j && allBadB evs i (j+1) then
        for cfg in cfgs do
          for ni in notes i do for nj in notes j do
            if ni.module == cfg.name && nj.module == cfg.name && !ni.close && !nj.close then
              if !(decide (ej.now - ei.now > cfg.sendInterval * 1000)) then errs := errs ++ ["rate"]
              if cfg.sendOnce then errs := errs ++ ["once"]
      -- announced
      if opensB evs i && i ≤ j && allBadB evs i (j+1) then
        for cfg in cfgs do
          if ej.acc cfg.name && decide (cfg.threshold ≤ (ej.status.toNat : Int)) then
            let noneBefore := (List.range j).all fun k => k < i || (notes k).all fun n => !(n.module == cfg.name) || n.close
            if noneBefore && !((notes j).any fun n => n.module == cfg.name && !n.close) then errs := errs ++ [s!"announced {i} {j} {cfg.name}"]
  -- close
  for j in List.range n do
    for nn in notes j do
      if nn.close then
        let ej := evs[j]!
        let c1 := ej.status == .ok && cfgs.any fun cfg => cfg.name == nn.module && cfg.sendClose && ej.acc cfg.name
        let c2 := (List.range j).any fun i => decide (evs[i]!.status > .ok) && ((List.range j).all fun k => k < i || !(evs[k]!.status == .ok))
        if !(c1 && c2) then errs := errs ++ ["noclose"]
      else
        let ej := evs[j]!
        if !(cfgs.any fun cfg => cfg.name == nn.module && ej.acc cfg.name && decide (cfg.threshold ≤ (ej.status.toNat : Int)) && nn.status == ej.status) then errs := errs ++ ["open"]
    if j + 1 < n then
      let ej := evs[j+1]!
      let ep := evs[j]!
      if ej.status == .ok && decide (ep.status > .ok) then
        for cfg in cfgs do
          if ej.acc cfg.name && cfg.sendClose then
            match (notes (j+1)).filter (fun n => n.module == cfg.name) with
            | [x] => if !(x.close && x.status == .ok) then errs := errs ++ ["oneclose-kind"]
            | _ => errs := errs ++ ["oneclose-count"]
  return errs

#eval (cfgsList.flatMap fun cfgs => ((allSeqs (sts.flatMap fun s => [(s,0),(s,1),(s,2)]) 4).flatMap fun ss => check cfgs (mkEvs ss))).eraseDups
