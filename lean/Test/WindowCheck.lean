import BurrowVerif.Spec.Window
open Burrow Burrow.Storage Burrow.Spec.Window

def allSeqs {α} (alpha : List α) : Nat → List (List α)
  | 0 => [[]]
  | n+1 => (allSeqs alpha n) ++ ((allSeqs alpha n).filter (·.length = n)).flatMap (fun s => alpha.map (fun a => s ++ [a]))

def wfB (N : Nat) (w : List (Option Commit)) : Bool :=
  let cs := stored w
  let k := w.length - cs.length
  w == List.replicate k none ++ cs.map some && w.length == N &&
  (List.range cs.length).all fun i => (List.range cs.length).all fun j => i < j → (cs[i]!.order < cs[j]!.order)

def isTopNB (N : Nat) (seen : List In) (st : List Commit) : Bool :=
  (List.range st.length).all (fun i => (List.range st.length).all fun j => i < j → (st[i]!.order < st[j]!.order)) &&
  st.length ≤ N &&
  st.all (fun c => seen.any fun s => s.key == key c) &&
  seen.all (fun s => st.any (fun c => c.order == s.order) || (st.length == N && st.all fun c => s.order < c.order))

-- alphabet: orders 0..4; ts mono: ts = order*1000 ; offset = order*10
def mkIn (o : Nat) : In := { broker := 100, offset := o * 10, order := o, ts := o * 1000 }

def testTopN : Bool :=
  [1,2,3,4].all fun N =>
    (allSeqs [0,1,2,3,4] 6).all fun s =>
      let seen := s.map mkIn
      match runRing N 0 seen with
      | none => false
      | some r => wfB N r.readout && isTopNB N seen (stored r.readout) && r.len == N

#eval testTopN

-- general invariant with arbitrary ts and minDistance
def mkIn2 (p : Nat × Nat) : In := { broker := 100, offset := p.1 * 10 + p.2, order := p.1, ts := p.2 * 700 }
def testInv : Bool :=
  [1,2,3].all fun N => [0,1,2].all fun md =>
    (allSeqs [(0,0),(0,2),(1,1),(1,0),(2,2),(2,0),(3,1)] 5).all fun s =>
      let seen := s.map mkIn2
      match runRing N md seen with
      | none => false
      | some r => wfB N r.readout && r.len == N &&
          (seen == [] || match (stored r.readout).getLast? with
             | none => false
             | some last => seen.all (fun c => c.order ≤ last.order) && seen.any (fun c => c.order == last.order))
#eval testInv

-- merge step
def mergePredB (w : List (Option Commit)) (order : Int) (p : Commit) : Bool :=
  (stored w).contains p && p.order < order && (stored w).all (fun q => q.order < order → q.order ≤ p.order) &&
  !(w.head?.join == some p && (stored w).any (fun q => order < q.order))
def droppedB (w : List (Option Commit)) (order : Int) : Bool :=
  (stored w).any (fun q => q.order == order) || (match w.head?.join with | some o => order ≤ o.order | none => false)

/-- expected outcome of one step at the window level -/
def testMerge : Bool :=
  [1,2,3].all fun N => [0,1,2].all fun md =>
    (allSeqs [(0,0),(0,2),(1,1),(1,0),(2,2),(2,0),(3,1)] 4).all fun s =>
      let seen := s.map mkIn2
      match runRing N md seen with
      | none => false
      | some r =>
        [(0,1),(1,2),(2,1),(3,0),(3,3),(1,3)].all fun pc =>
          let c := mkIn2 pc
          let w := r.readout
          match stepRing md r c with
          | none => false
          | some r' =>
            let w' := r'.readout
            if droppedB w c.order then w' == w
            else
              match (stored w).find? (fun p => mergePredB w c.order p) with
              | some p =>
                if c.ts - p.ts < md * 1000 then
                  -- merged: p's slot now holds c's offset/order with p's timestamp; same number of commits
                  (stored w').length == (stored w).length &&
                  (stored w').map key == (stored w).map (fun q => if q == p then (c.offset, c.order, p.ts) else key q)
                else
                  (stored w').any (fun q => key q == c.key) &&
                  (stored w).all (fun q => (stored w').contains q || w.head?.join == some q)
              | none =>
                  (stored w').any (fun q => key q == c.key) &&
                  (stored w).all (fun q => (stored w').contains q || w.head?.join == some q)
#eval testMerge

def findMergeCex : List String := Id.run do
  let mut out := []
  for N in [1,2,3] do
    for md in [0,1,2] do
      for s in allSeqs [(0,0),(0,2),(1,1),(1,0),(2,2),(2,0),(3,1)] 4 do
        let seen := s.map mkIn2
        match runRing N md seen with
        | none => out := out ++ ["fuel"]
        | some r =>
          for pc in [(0,1),(1,2),(2,1),(3,0),(3,3),(1,3)] do
            let c := mkIn2 pc
            let w := r.readout
            match stepRing md r c with
            | none => out := out ++ ["fuel2"]
            | some r' =>
              let w' := r'.readout
              let ok :=
                if droppedB w c.order then w' == w
                else
                  match (stored w).find? (fun p => mergePredB w c.order p) with
                  | some p =>
                    if c.ts - p.ts < md * 1000 then
                      (stored w').length == (stored w).length &&
                      (stored w').map key == (stored w).map (fun q => if q == p then (c.offset, c.order, p.ts) else key q)
                    else
                      (stored w').any (fun q => key q == c.key) &&
                      (stored w).all (fun q => (stored w').contains q || w.head?.join == some q)
                  | none =>
                      (stored w').any (fun q => key q == c.key) &&
                      (stored w).all (fun q => (stored w').contains q || w.head?.join == some q)
              if !ok && out.length < 3 then
                out := out ++ [s!"N={N} md={md} seq={s} c={pc} w={repr (w.map (Option.map key))} w'={repr (w'.map (Option.map key))}"]
  return out
#eval findMergeCex
