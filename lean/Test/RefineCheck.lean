import BurrowVerif.Spec.Window
open Burrow Burrow.Storage Burrow.Spec.Window

def allSeqs {α} (alpha : List α) : Nat → List (List α)
  | 0 => [[]]
  | n+1 => (allSeqs alpha n) ++ ((allSeqs alpha n).filter (·.length = n)).flatMap (fun s => alpha.map (fun a => s ++ [a]))

def mkIn2 (p : Nat × Nat) : In := { broker := 25, offset := p.1 * 10 + p.2, order := p.1, ts := p.2 * 700 }

def findCex : List String := Id.run do
  let mut out := []
  let mut n := 0
  for N in [1,2,3,4] do
    for md in [0,1,2] do
      for s in allSeqs [(0,0),(0,2),(1,1),(1,0),(2,2),(2,0),(3,1),(4,1)] 5 do
        let seen := s.map mkIn2
        match runRing N md seen with
        | none => out := out ++ ["fuel"]
        | some r =>
          let w := seen.foldl (specStep md) (List.replicate N none)
          n := n + 1
          if r.readout != w && out.length < 3 then
            out := out ++ [s!"N={N} md={md} seq={s} ring={repr (r.readout.map (Option.map key))} spec={repr (w.map (Option.map key))}"]
          if r.readout.map (Option.map (·.lag)) != w.map (Option.map (·.lag)) && out.length < 3 then
            out := out ++ [s!"LAG N={N} md={md} seq={s}"]
  return out ++ [toString n]
#eval findCex
