import Driver.Util
import Driver.EvalD
import Driver.StorageD
import Driver.DecodeD
import Driver.NotifierD
import Driver.ClusterD
import Driver.TmplD
import Driver.ConfigD
import Driver.ZkLoopD
import Driver.ZkReaderD
import Driver.ConsumeD

/-!
  Line-protocol driver.  One operation per input line, one canonical output line per operation.
  First token selects the domain; lines starting with `#` are echoed (case separators).
-/
namespace Driver

structure State where
  storage : StorageD.CSt := {}
  notifier : NotifierD.St := {}
  cluster : ClusterD.St := none
  zkreader : Burrow.ZkReader.St := {}
  consume : ConsumeD.St := {}

def step (st : State) (line : String) : State × String :=
  let line := line.trimAscii.toString
  if line.startsWith "#" then (st, line) else
  match line.splitOn " " with
  | "E" :: args => (st, EvalD.step args)
  | ["D", "kconf", allow, deny, am, dm] =>
    -- the Kafka consumer module's Configure: its lists are its own table's, the empty string sets none
    match StorageD.listKey? allow am, StorageD.listKey? deny dm with
    | some allow, some deny =>
      let spec : Burrow.StorageConf.Spec := { intervals := none, expireGroup := none, minDistance := none, workers := none, queueDepth := none, allow, deny }
      (st, "kconf acc=" ++ String.join (StorageD.sconfSamples.map fun g => if spec.accepts g then "1" else "0"))
    | _, _ => (st, "bad-op")
  | "D" :: args => (st, DecodeD.step args)
  | "T" :: args => (st, TmplD.step args)
  | "C" :: args => (st, ConfigD.step args)
  | "Z" :: args => (st, ZkLoopD.step args)
  | "K" :: args =>
    let (s', out) := ClusterD.step st.cluster args
    ({ st with cluster := s' }, out)
  | "P" :: args =>
    let (s', out) := ConsumeD.step st.consume args
    ({ st with consume := s' }, out)
  | "R" :: args =>
    let (s', out) := ZkReaderD.step st.zkreader args
    ({ st with zkreader := s' }, out)
  | "N" :: args =>
    let (s', out) := NotifierD.step st.notifier args
    ({ st with notifier := s' }, out)
  | "S" :: args =>
    let (s', out) := StorageD.stepC st.storage args
    ({ st with storage := s' }, out)
  | _ => (st, "bad-op")

partial def loop (hin : IO.FS.Stream) (hout : IO.FS.Stream) (st : State) : IO Unit := do
  let line ← hin.getLine
  if line.isEmpty then return ()
  let (st', out) := step st line
  hout.putStrLn out
  loop hin hout st'

end Driver

def main : IO Unit := do
  let hin ← IO.getStdin
  let hout ← IO.getStdout
  Driver.loop hin hout {}
  hout.flush
