import BurrowVerif.Model.Tmpl
import BurrowVerif.Model.Json
import BurrowVerif.Model.TmplFlow
import BurrowVerif.Model.TmplHelpers
import BurrowVerif.Spec.Tmpl
import BurrowVerif.Generated.Templates
import Driver.Util

/-! Driver for stream `tmpl` (C20): executes the serialised parse tree of a template on the data of
    the op line with `Burrow.Tmpl.exec`; library renderings come from the op line. -/
namespace Driver.TmplD
open Burrow.Tmpl Driver

def unhex? (s : String) : Option String :=
  if s == "-" then some "" else do
    let bs ← hexBytes? s
    String.fromUTF8? (ByteArray.mk bs.toArray)

def hexOfString (s : String) : String :=
  if s.isEmpty then "-" else toHex s.toUTF8.toList

/-! token-stream parser of the serialised tree -/

abbrev Toks := List String

def pStrs : Nat → Toks → Option (List String × Toks)
  | 0, ts => some ([], ts)
  | n + 1, t :: ts => do
    let s ← unhex? t
    let (rest, ts') ← pStrs n ts
    pure (s :: rest, ts')
  | _, [] => none

def pArg : Toks → Option (Arg × Toks)
  | "d" :: ts => some (.dot, ts)
  | "f" :: n :: ts => do
    let n ← n.toNat?
    let (ids, ts') ← pStrs n ts
    pure (.field ids, ts')
  | "s" :: h :: ts => do pure (.str (← unhex? h), ts)
  | "n" :: i :: ts => do pure (.num (← i.toInt?), ts)
  | "u" :: h :: ts => do pure (.unsupported (← unhex? h), ts)
  | _ => none

def pArgs : Nat → Toks → Option (List Arg × Toks)
  | 0, ts => some ([], ts)
  | n + 1, ts => do
    let (a, ts1) ← pArg ts
    let (as, ts2) ← pArgs n ts1
    pure (a :: as, ts2)

def pCmd : Toks → Option (Cmd × Toks)
  | "D" :: ts => some (.dot, ts)
  | "F" :: n :: ts => do
    let n ← n.toNat?
    let (pre, ts1) ← pStrs n ts
    match ts1 with
    | name :: k :: ts2 =>
      let name ← unhex? name
      let k ← k.toNat?
      let (args, ts3) ← pArgs k ts2
      pure (.field pre name args, ts3)
    | _ => none
  | "C" :: fn :: k :: ts => do
    let fn ← unhex? fn
    let k ← k.toNat?
    let (args, ts1) ← pArgs k ts
    pure (.call fn args, ts1)
  | "L" :: ts => do
    let (a, ts1) ← pArg ts
    pure (.lit a, ts1)
  | "U" :: h :: ts => do pure (.unsupported (← unhex? h), ts)
  | _ => none

def pCmds : Nat → Toks → Option (List Cmd × Toks)
  | 0, ts => some ([], ts)
  | n + 1, ts => do
    let (c, ts1) ← pCmd ts
    let (cs, ts2) ← pCmds n ts1
    pure (c :: cs, ts2)

def pPipe : Toks → Option (Pipe × Toks)
  | "P" :: n :: ts => do pCmds (← n.toNat?) ts
  | _ => none

partial def pT : Toks → Option (T × Toks)
  | "N" :: ts => some (.done, ts)
  | "X" :: h :: ts => do
    let s ← unhex? h
    let (rest, ts1) ← pT ts
    pure (.text s rest, ts1)
  | "A" :: ts => do
    let (p, ts1) ← pPipe ts
    let (rest, ts2) ← pT ts1
    pure (.action p rest, ts2)
  | "I" :: ts => do
    let (p, ts1) ← pPipe ts
    let (a, ts2) ← pT ts1
    let (b, ts3) ← pT ts2
    let (rest, ts4) ← pT ts3
    pure (.ite p a b rest, ts4)
  | "R" :: ts => do
    let (p, ts1) ← pPipe ts
    let (a, ts2) ← pT ts1
    let (b, ts3) ← pT ts2
    let (rest, ts4) ← pT ts3
    pure (.range p a b rest, ts4)
  | "U" :: h :: ts => do
    let w ← unhex? h
    let (rest, ts1) ← pT ts
    pure (.unsupported w rest, ts1)
  | _ => none

def parseTemplate? (s : String) : Option T :=
  match pT (s.splitOn ",") with
  | some (t, []) => some t
  | _ => none

/-! data -/

def kv (args : List String) (k : String) : Option String :=
  args.findSome? fun a =>
    match a.splitOn "=" with
    | [k', v] => if k' == k then some v else none
    | _ => none

def offsetVal? (s : String) : Option Val :=
  if s == "nil" then some .nil else
  match s.splitOn "/" with
  | [off, order, ts, obs, lag] => do
    let off ← off.toInt?; let order ← order.toInt?; let ts ← ts.toInt?; let obs ← obs.toInt?
    let lagV ← if lag == "-" then some Val.nil else (do pure (Val.ref (.obj "Lag" [("Value", .uint (← lag.toNat?))])))
    pure (.ref (.obj "ConsumerOffset" [("Offset", .int 64 off), ("Order", .int 64 order), ("Timestamp", .int 64 ts),
      ("ObservedTimestamp", .int 64 obs), ("Lag", lagV)]))
  | _ => none

def partVal? (s : String) : Option Val :=
  if s == "nil" then some .nil else
  match s.splitOn ":" with
  | [topic, part, owner, client, status, start, «end», curlag, complete] => do
    let topic ← unhex? topic; let owner ← unhex? owner; let client ← unhex? client
    let part ← part.toInt?; let status ← status.toInt?
    let start ← offsetVal? start; let e ← offsetVal? «end»
    let curlag ← curlag.toNat?; let complete ← hexNat? complete
    pure (.ref (.obj "PartitionStatus" [("Topic", .str topic), ("Partition", .int 32 part), ("Owner", .str owner),
      ("ClientID", .str client), ("Status", .status status), ("Start", start), ("End", e), ("CurrentLag", .uint curlag),
      ("Complete", .float complete)]))
  | _ => none

def extras? (s : String) : Option (List (String × String)) :=
  parseList? s ";" fun kvs =>
    match kvs.splitOn ":" with
    | [k, v] => do pure (← unhex? k, ← unhex? v)
    | _ => none

def dataVal? (args : List String) : Option Val := do
  let cluster ← unhex? (← kv args "cluster"); let group ← unhex? (← kv args "group"); let id ← unhex? (← kv args "id")
  let start ← (← kv args "start").toInt?
  let extras ← extras? (← kv args "extras")
  let st ← (← kv args "st").toInt?
  let complete ← hexNat? (← kv args "complete")
  let total ← (← kv args "total").toInt?
  let lag ← (← kv args "lag").toNat?
  let maxlag ← partVal? (← kv args "maxlag")
  let parts ← parseList? (← kv args "parts") ";" partVal?
  let result := Val.obj "ConsumerGroupStatus" [("Cluster", .str cluster), ("Group", .str group), ("Status", .status st),
    ("Complete", .float complete), ("Partitions", .list parts), ("TotalPartitions", .int 0 total), ("Maxlag", maxlag),
    ("TotalLag", .uint lag)]
  pure (.obj "Data" [("Cluster", .str cluster), ("Group", .str group), ("ID", .str id), ("Start", .time start),
    ("Extras", .map extras), ("Result", result)])

/-! the partition helpers (`topicsbystatus`, `partitioncounts`) on the partition list of the case:
    `hlp=<status:topic,topic;…>|<name:count,…>`, everything sorted, topics hex-encoded; `hlp=err` when
    a listed partition is nil (the helpers dereference every element) -/

def hpart? (s : String) : Option (Option HPart) :=
  if s == "nil" then some none else
  match s.splitOn ":" with
  | [topic, _, _, _, status, _, _, _, _] => do
    pure (some { topic := (← unhex? topic), status := (← status.toInt?) })
  | _ => none

def sortS (l : List String) : List String := l.mergeSort fun a b => !(decide (b < a))

def helpersOut (args : List String) : String :=
  match (kv args "parts").bind fun p => parseList? p ";" hpart? with
  | none => "bad"
  | some ps =>
    if ps.any Option.isNone then "err" else
    let hs := ps.filterMap id
    let tbs := (topicsByStatus hs).map fun kv => kv.1 ++ ":" ++ ",".intercalate (sortS (kv.2.map hexOfString))
    let pc := (partitionCounts hs).map fun kv => s!"{kv.1}:{kv.2}"
    (if tbs.isEmpty then "-" else ";".intercalate (sortS tbs)) ++ "|" ++ ",".intercalate pc

def table? (s : String) : Option (List (String × String)) :=
  parseList? s ";" fun e =>
    match e.splitOn ":" with
    | [k, v] => do pure (k, ← unhex? v)
    | _ => none

def isJsonTemplate (name : String) : Bool :=
  (name.splitOn "http").length > 1 || (name.splitOn "slack").length > 1

def step (args : List String) : String :=
  match args with
  | "x" :: rest =>
    match kv rest "tmpl", kv rest "ser", dataVal? rest, (kv rest "fmt").bind table?, (kv rest "f32").bind table?,
          (kv rest "pjson").bind unhex? with
    | some tmpl, some ser, some data, some fmtT, some f32T, some pjson =>
      if ser == "-" then "r=parse-error gen=" ++ (if tmpl.startsWith "@" then "same" else "na") else
      match parseTemplate? ser with
      | none => "bad-op"
      | some t =>
        let shipped := tmpl.startsWith "@"
        let name := (tmpl.drop 1).toString
        let gen :=
          if shipped then
            (match Burrow.Generated.shippedTemplates.lookup name with
             | some g => if g == t then "same" else "differs"
             | none => "missing")
          else "na"
        let env : Env := {
          fmtTime := fun _ layout => (fmtT.lookup (hexOfString layout)).getD "?"
          fmtFloat := fun bits => (f32T.lookup (hexOfNat bits 8)).getD "?"
          partsJson := pjson }
        let inv := kv rest "inv" == some "1"
        let safe := kv rest "safe" == some "1"
        -- the assumptions of the JSON theorem about Go's own renderers, on the renderings of this case
        let envok := fmtT.all (fun e => timeRenderingOk e.2) &&
          f32T.all (fun e => match hexNat? e.1 with | some b => floatRenderingOk b e.2 | none => false) &&
          (!safe || partsRenderingOk pjson)   -- json.Marshal refuses non-finite floats: only for JSON-safe data
        let envViol := if envok then "" else " ~specviol=envok"
        let flowS :=
          if shipped && isJsonTemplate name then
            (if jsonOk (Burrow.Spec.Tmpl.refine Burrow.Generated.dataSchema) t Burrow.Generated.dataType then " ~flow=ok" else " ~flow=refused")
          else ""
        match exec Burrow.Generated.dataSchema env t data with
        | .ok out =>
          let jv := Burrow.Json.valid out
          let viol := if shipped && safe && isJsonTemplate name && !jv then " ~specviol=json" else ""
          -- `exec` is a function of the data: renderings made at the same time are what they are alone
          let par := if kv rest "par" == some "1" then " par=same" else ""
          s!"r=ok out={hexOfString out} json={if jv then "valid" else "invalid"} gen={gen}{par} hlp={helpersOut rest} fts=same{flowS}{viol}{envViol}"
        | .err _ => s!"r=err gen={gen} hlp={helpersOut rest} fts=same" ++ (if shipped && inv then " ~specviol=render" else "")
        | .unsup w => s!"r=unsup gen={gen} ~why={hexOfString w}"
    | _, _, _, _, _, _ => "bad-op"
  | _ => "bad-op"

end Driver.TmplD
