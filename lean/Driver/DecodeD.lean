import BurrowVerif.Spec.Wire
import Driver.Util

namespace Driver.DecodeD
open Burrow Burrow.Decode Driver

def hexOrDash (b : Bytes) : String := if b.isEmpty then "-" else toHex b

def showReq : Req → String
  | .offset g t p o ts ord => s!"O:{hexOrDash g}:{hexOrDash t}:{p}:{o}:{ts}:{ord}"
  | .owner g t p h c => s!"W:{hexOrDash g}:{hexOrDash t}:{p}:{hexOrDash h}:{hexOrDash c}"
  | .clear g => s!"C:{hexOrDash g}"
  | .deleteGroup g => s!"X:{hexOrDash g}"

def insertSorted (x : String) : List String → List String
  | [] => [x]
  | y :: ys => if x < y then x :: y :: ys else y :: insertSorted x ys

def bytesArg? (s : String) : Option Bytes := if s == "-" then some [] else hexBytes? s

def step (args : List String) : String :=
  match args with
  | ["cfg"] => "ok"
  | ["msg", order, key, value, acc] =>
    match parseInt? order, bytesArg? key, bytesArg? value with
    | some order, some key, some value =>
      let out := processMessage (fun _ => acc == "1") order key value
      let reqs := (out.reqs.map showReq).foldl (fun acc x => insertSorted x acc) []
      let rs := if reqs.isEmpty then "-" else ",".intercalate reqs
      let bound := Spec.Wire.allocA * (key.length + value.length) + Spec.Wire.allocB
      let verdict := if out.alloc ≤ bound then "ok" else "balloon"
      s!"reqs={rs} alloc={verdict} ~alloc={out.alloc} ~n={out.reqs.length}" ++ (if out.panicked then " panic" else "")
    | _, _, _ => "bad-op"
  | _ => "bad-op"

end Driver.DecodeD
