import BurrowVerif.Model.Storage
import BurrowVerif.Model.Reaper
import BurrowVerif.Model.StorageConf
import BurrowVerif.Model.Group
import BurrowVerif.Model.Float32
import BurrowVerif.Model.EvalCache
import BurrowVerif.Model.Http
import BurrowVerif.Generated.Http
import Driver.Util

namespace Driver.StorageD
open Burrow Burrow.Storage Driver

/-- names stay hex text inside the model (hex encoding is injective); only the empty name matters
    to the code (`request.Topic != ""`), so `-` becomes `""`. -/
def name (s : String) : String := if s == "-" then "" else s
def unname (s : String) : String := if s == "" then "-" else s

/-- insertion sort on strings (canonical order for everything that came out of a Go map) -/
def insertSorted (x : String) : List String → List String
  | [] => [x]
  | y :: ys => if x < y then x :: y :: ys else y :: insertSorted x ys

def sortStrings (l : List String) : List String := l.foldl (fun acc x => insertSorted x acc) []

def showList (l : List String) : String :=
  if l.isEmpty then "-" else ",".intercalate (sortStrings (l.map unname))

def showInts (l : List Int) : String :=
  if l.isEmpty then "-" else ",".intercalate (l.map toString)

def showOptList : Option (List String) → String
  | none => "nil"
  | some l => "list=" ++ showList l

def insertSortedBy {α} (key : α → String) (x : α) : List α → List α
  | [] => [x]
  | y :: ys => if key x < key y then x :: y :: ys else y :: insertSortedBy key x ys

def renderTopics (topics : ConsumerTopics) : String :=
  let sorted := topics.foldl (fun acc x => insertSortedBy (fun (p : String × List Eval.Partition) => unname p.1) x acc) []
  let per (f : Eval.Partition → String) : String :=
    if sorted.isEmpty then "-" else
    ",".intercalate (sorted.map fun (t, parts) => unname t ++ "[" ++ "|".intercalate (parts.map f) ++ "]")
  let win := per fun p =>
    if p.offsets.isEmpty then "-" else
    ";".intercalate (p.offsets.map fun
      | none => "nil"
      | some c => s!"{c.offset}:{c.order}:{c.ts}")
  let lag := per fun p =>
    s!"{p.currentLag}/" ++ ";".intercalate (p.offsets.map fun
      | none => "x"
      | some c => match c.lag with | none => "-" | some l => toString l)
  let own := per fun p => unname p.owner ++ "/" ++ unname p.clientID
  let bro := per fun p => showInts p.brokerOffsets
  s!"win={win} lag={lag} own={own} bro={bro}"

def showStatusOffset : Option Commit → String
  | none => "nil"
  | some c => s!"{c.offset}:{c.ts}:{match c.lag with | none => "-" | some l => toString l}"

def renderGroupStatus (g : Group.GroupStatus) : String :=
  let parts := g.partitions.map fun p =>
    s!"{unname p.topic}/{p.partition}/{p.st.status.toNat}/{p.st.currentLag}/{hexOfNat (F32.divBits p.st.complete.1 p.st.complete.2) 8}/{showStatusOffset p.st.start}/{showStatusOffset p.st.«end»}/{unname p.owner}/{unname p.clientID}"
  let sorted := sortStrings parts
  let ps := if sorted.isEmpty then "-" else ",".intercalate sorted
  let maxlag := match g.maxlag with | none => "-" | some m => toString m.st.currentLag
  s!"gs={g.status.toNat} complete={hexOfNat (F32.divBits g.complete.1 g.complete.2) 8} count={g.totalPartitions} total={g.totalLag} maxlag={maxlag} parts={ps}"

def showOutcome : Outcome → String
  | .ok => "ok"
  | .panic => "panic"

def showPlacement : Placement → String
  | .append => "append" | .appendMerged => "appendMerged" | .insertBlank => "insertBlank"
  | .replaceOldest => "replaceOldest" | .shift => "shift" | .insertMerged => "insertMerged"
  | .dropFull => "dropFull" | .dropDup => "dropDup"

abbrev St := Option Store

def bit? (s : String) : Option Bool := if s == "1" then some true else if s == "0" then some false else none

def sconfSamples : List String := ["g0", "g1", "x1", "", "team-a", "g 3"]

/-- a list key of an `sconf` op: `-` absent, `E` empty string, else a pattern whose matches on the samples are the bits -/
def listKey? (key bits : String) : Option StorageConf.ListKey :=
  if key == "-" then some .absent
  else if key == "E" then some .empty
  else if bits.length == sconfSamples.length then
    some (.pattern fun g => match sconfSamples.findIdx? (· == g) with
      | some i => bits.toList[i]? == some '1'
      | none => false)
  else none

def optI? (s : String) : Option (Option Int) := if s == "-" then some none else (parseInt? s).map some

def sconf (args : List String) : String :=
  match args with
  | [iv, exp, md, wk, qd, allow, deny, am, dm] =>
    match optI? iv, optI? exp, optI? md, optI? wk, optI? qd, listKey? allow am, listKey? deny dm with
    | some iv, some exp, some md, some wk, some qd, some allow, some deny =>
      let spec : StorageConf.Spec := { intervals := iv, expireGroup := exp, minDistance := md, workers := wk, queueDepth := qd, allow, deny }
      let s := spec.settings
      let acc := String.join (sconfSamples.map fun g => if spec.accepts g then "1" else "0")
      s!"sconf iv={s.intervals} exp={s.expireGroup} md={s.minDistance} wk={s.workers} qd={s.queueDepth} acc={acc}"
    | _, _, _, _, _, _, _ => "bad-op"
  | _ => "bad-op"

def step (st : St) (args : List String) : St × String :=
  match args with
  | "sconf" :: rest => (st, sconf rest)
  | ["init", intervals, expire, minDist, allowSet, denySet, clusters] =>
    match parseNat? intervals, parseInt? expire, parseInt? minDist, bit? allowSet, bit? denySet with
    | some intervals, some expireGroup, some minDistance, some allowSet, some denySet =>
      (some (Store.init { intervals, expireGroup, minDistance, allowSet, denySet } ((clusters.splitOn ",").map name)), "ok")
    | _, _, _, _, _ => (st, "bad-op")
  | cmd :: rest =>
    match st with
    | none => (st, "bad-op")
    | some s =>
      match cmd, rest with
      | "broker", [c, t, p, cnt, off, ts] =>
        match parseInt? p, parseInt? cnt, parseInt? off, parseInt? ts with
        | some p, some cnt, some off, some ts =>
          let (s', o) := addBrokerOffset s { cluster := name c, topic := name t, partition := p, topicPartitionCount := cnt, offset := off, ts }
          (some s', showOutcome o)
        | _, _, _, _ => (st, "bad-op")
      | "commit", [now, c, g, t, p, off, order, ts, am, dm] =>
        match parseInt? now, parseInt? p, parseInt? off, parseInt? order, parseInt? ts, bit? am, bit? dm with
        | some now, some p, some off, some order, some ts, some am, some dm =>
          let (s', o, pl) := addConsumerOffset s now { cluster := name c, group := name g, topic := name t, partition := p, offset := off, order, ts, allowMatch := am, denyMatch := dm }
          (some s', showOutcome o ++ (match pl with | some pl => " ~place=" ++ showPlacement pl | none => " ~place=none"))
        | _, _, _, _, _, _, _ => (st, "bad-op")
      | "owner", [c, g, t, p, owner, client, am, dm] =>
        match parseInt? p, bit? am, bit? dm with
        | some p, some am, some dm =>
          let (s', o) := addConsumerOwner s { cluster := name c, group := name g, topic := name t, partition := p, owner := name owner, clientID := name client, allowMatch := am, denyMatch := dm }
          (some s', showOutcome o)
        | _, _, _ => (st, "bad-op")
      | "clear", [c, g, am, dm] =>
        match bit? am, bit? dm with
        | some am, some dm =>
          let (s', o) := clearConsumerOwners s { cluster := name c, group := name g, allowMatch := am, denyMatch := dm }
          (some s', showOutcome o)
        | _, _ => (st, "bad-op")
      | "deltopic", [c, t] =>
        let (s', o) := deleteTopic s { cluster := name c, topic := name t }
        (some s', showOutcome o)
      | "delgroup", [c, g, t] =>
        let (s', o, _) := deleteGroup s { cluster := name c, group := name g, topic := name t }
        (some s', showOutcome o)
      | "shift", [d] =>
        match parseInt? d with
        | some d => (some (shiftTimes s d), "ok")
        | none => (st, "bad-op")
      | "reap", [c, kg] =>
        -- the cluster module's groups reaper against this storage: Kafka lists `kg` ("!" = the listing fails)
        let kafka : Option (List String) := if kg == "!" then none else if kg == "-" then some [] else some ((kg.splitOn ",").map name)
        -- names travel hex-encoded and the model keeps them so: the spared group burrow-<cluster> is hex("burrow-") ++ <cluster>
        let s' := Burrow.Reaper.runIgnoring s (name c) ("627572726f772d" ++ name c) kafka
        (some s', "reaped " ++ showOptList (fetchConsumerList s' (name c)))
      | "clusters", [] => (st, "list=" ++ showList (fetchClusterList s))
      | "consumers", [c] => (st, showOptList (fetchConsumerList s (name c)))
      | "topics", [c] => (st, showOptList (fetchTopicList s (name c)))
      | "fortopic", [c, t] => (st, showOptList (fetchConsumersForTopic s (name c) (name t)))
      | "topic", [c, t] =>
        match fetchTopic s (name c) (name t) with
        | none => (st, "nil")
        | some l => (st, "offs=" ++ showInts l)
      | "status", [now, c, g, minBits, allowed, showAll] =>
        match parseInt? now, hexNat? minBits, parseNat? allowed with
        | some now, some minBits, some allowed =>
          let (s', r) := fetchConsumer s now (name c) (name g)
          (some s', match r with
            | .notFound => "gs=0 complete=3f800000 count=0 total=0 maxlag=- parts=-"
            | .panic => "panic"
            | .found topics =>
              match Group.evaluateGroup (F32.meets minBits) now allowed topics with
              | none => "panic"
              | some gs => renderGroupStatus (if showAll == "1" then gs else Group.filterView gs))
        | _, _, _ => (st, "bad-op")
      | "consumer", [now, c, g] =>
        match parseInt? now with
        | some now =>
          let (s', r) := fetchConsumer s now (name c) (name g)
          (some s', match r with
            | .notFound => "nil"
            | .panic => "panic"
            | .found topics => renderTopics topics)
        | none => (st, "bad-op")
      -- replies are values: what was handed out earlier is not changed by anything that happens later
      | "kept", [] => (some s, "kept=same")
      | _, _ => (st, "bad-op")
  | _ => (st, "bad-op")

/-! ### persistent evaluator with cache (C05) on top of the storage model -/

structure CSt where
  store  : St := none
  ccfg   : Option (Int × Nat × Nat) := none          -- expire (s), minimum-complete bits, allowed lag
  cache  : EvalCache.Cache Group.GroupStatus := []
  cfg    : Http.Cfg := []
  secrets : List String := []                       -- the configured password values of this case (C18)

def unhexStr? (s : String) : Option String :=
  if s == "-" then some "" else do
    let bs ← hexBytes? s
    String.fromUTF8? (ByteArray.mk bs.toArray)

def hexOfStr (s : String) : String := if s.isEmpty then "-" else toHex s.toUTF8.toList

/-- one status request through the cache model (shared by `cq`, the HTTP status routes and the scrape);
    returns the new state, the result, the cache path taken and a fresh evaluation for the Spec oracle -/
def statusQuery (st : CSt) (now : Int) (c g : String) : CSt × Option Group.GroupStatus × EvalCache.Path × Option Group.GroupStatus :=
  match st.ccfg, st.store with
  | some (expire, minBits, allowed), some s =>
    let cfg : EvalCache.Cfg := { expire }
    let key := EvalCache.mkKey c.toList g.toList
    -- the cache clock is frozen at 0 by the harness (expiries are relative to the query instant)
    let p := EvalCache.path st.cache key 0
    let (s', looked) : Store × Option (Option Group.GroupStatus) :=
      if p == .hit then (s, none) else
        let (s', r) := fetchConsumer s now (name c) (name g)
        (s', some (match r with
          | .found topics => Group.evaluateGroup (F32.meets minBits) now allowed topics
          | _ => none))
    let (cache', result) := EvalCache.query cfg st.cache key 0 (fun _ => looked.join)
    let freshNow : Option Group.GroupStatus :=
      match (fetchConsumer s now (name c) (name g)).2 with
      | .found topics => Group.evaluateGroup (F32.meets minBits) now allowed topics
      | _ => none
    ({ st with store := some s', cache := cache' }, result, p, freshNow)
  | _, _ => (st, none, .miss, none)

/-- the HTTP backend over the driver state at clock value `now`; path parameters arrive as plain
    text and are hex-encoded to address the store -/
def backend (now : Int) : Http.Backend CSt where
  clusters st := match st.store with | some s => fetchClusterList s | none => []
  topics st c := st.store.bind fun s => fetchTopicList s (hexOfStr c)
  topicDetail st c t := st.store.bind fun s => fetchTopic s (hexOfStr c) (hexOfStr t)
  topicConsumers st c t := st.store.bind fun s => fetchConsumersForTopic s (hexOfStr c) (hexOfStr t)
  consumers st c := st.store.bind fun s => fetchConsumerList s (hexOfStr c)
  consumerDetail st c g :=
    match st.store with
    | some s =>
      let (s', r) := fetchConsumer s now (name (hexOfStr c)) (name (hexOfStr g))
      ({ st with store := some s' }, match r with | .found t => some t | _ => none)
    | none => (st, none)
  status st c g _ :=
    let (st', r, _, _) := statusQuery st now (hexOfStr c) (hexOfStr g)
    (st', r)
  deleteGroup st c g t :=
    match st.store with
    | some s => { st with store := some (deleteGroup s { cluster := name (hexOfStr c), group := name (hexOfStr g), topic := name (hexOfStr t) }).1 }
    | none => st
  cfg st := st.cfg

/-- the scrape addresses the store with the names the listings return (already hex) -/
def scrapeBackend (now : Int) : Http.Backend CSt :=
  { backend now with
    topics := fun st c => st.store.bind fun s => fetchTopicList s c
    topicDetail := fun st c t => st.store.bind fun s => fetchTopic s c t
    consumers := fun st c => st.store.bind fun s => fetchConsumerList s c
    status := fun st c g _ => let (st', r, _, _) := statusQuery st now c g; (st', r) }

def parseCfgVal? (s : String) : Option Http.CfgVal :=
  match s.splitOn ":" with
  | ["s", v] => (unhexStr? v).map .str
  | ["i", v] => v.toInt?.map .int
  | ["b", v] => some (.bool (v == "true"))
  | ["l", v] => (parseList? v "," unhexStr?).map .list
  | ["m", _] => some .table
  | _ => none

def parseCfg? (s : String) : Option Http.Cfg :=
  parseList? s ";" fun e =>
    match e.splitOn "=" with
    | [p, v] => do
      let path ← (p.splitOn ".").mapM unhexStr?
      let v ← parseCfgVal? v
      pure (path, v)
    | _ => none

def showFieldVal : Http.FieldVal → String
  | .s v => "s:" ++ hexOfStr v
  | .i v => "i:" ++ toString v
  | .b v => "b:" ++ (if v then "true" else "false")
  | .l v => "l:" ++ (if v.isEmpty then "-" else ",".intercalate (v.map hexOfStr))
  | .m v => "m:" ++ (if v.isEmpty then "-" else ",".intercalate (sortStrings (v.map fun (k, x) => hexOfStr k ++ ":" ++ hexOfStr x)))
  | .null => "null"

def showJOffset : Option Commit → String
  | none => "nil"
  | some c => s!"{c.offset}:{c.ts}:{match c.lag with | none => "-" | some l => toString l}"

def renderJTopics (topics : ConsumerTopics) : String :=
  let sorted := topics.foldl (fun acc x => insertSortedBy (fun (p : String × List Eval.Partition) => unname p.1) x acc) []
  if sorted.isEmpty then "-" else
  ",".intercalate (sorted.map fun (t, parts) =>
    unname t ++ "[" ++ "|".intercalate (parts.map fun p =>
      s!"{p.currentLag}/{unname p.owner}/{unname p.clientID}/" ++
        (if p.offsets.isEmpty then "-" else ";".intercalate (p.offsets.map showJOffset))) ++ "]")

def containsSub (s sub : String) : Bool := !sub.isEmpty && (s.splitOn sub).length > 1

def fieldStrings : Http.FieldVal → List String
  | .s v => [v]
  | .l v => v
  | .m v => v.flatMap fun (k, x) => [k, x]
  | _ => []

/-- does the response carry one of the configured password values? (the containment test of C18) -/
def respLeaks (r : Http.Resp) (secrets : List String) : Bool :=
  let strs : List String := match r.payload with
    | .module fs => fs.flatMap fun (_, v) => fieldStrings v
    | .moduleList _ l => l
    | .names _ l => l
    | _ => []
  secrets.any fun sec => strs.any fun s => containsSub s sec

def showResp (r : Http.Resp) : String :=
  let ct := match r.ctype with | .json => "json" | .text => "text" | .none => "none"
  let err := match r.err with | some true => "true" | some false => "false" | none => "-"
  let hdr := hexOfStr r.header
  let body := match r.payload with
    | .none => "kind=plain"
    | .names key l => s!"kind=names key={key} list={showList l}"
    | .offsets l => "kind=offsets offs=" ++ showInts l
    | .topics t => "kind=topics t=" ++ renderJTopics t
    | .status c g none => s!"kind=status rc={hexOfStr c} rg={hexOfStr g} gs=0 complete=3f800000 count=0 total=0 maxlag=- parts=-"
    | .status c g (some gs) => s!"kind=status rc={hexOfStr c} rg={hexOfStr g} " ++ renderGroupStatus gs
    | .module fs => "kind=module mod=" ++ ";".intercalate (sortStrings (fs.map fun (k, v) => k ++ "=" ++ showFieldVal v))
    | .moduleList coord l => s!"kind=modlist coord={coord} list={showList (l.map hexOfStr)}"
    | .other w => if w == "empty" then "kind=empty" else "kind=plain"
  s!"code={r.code} ct={ct} err={err} hdr={hdr} {body}"

def showSeries (l : List Http.Series) : String :=
  -- a later write to the same series replaces the earlier one (a gauge)
  let dedup := l.foldl (fun (acc : List (String × Int)) s =>
    let k := s.name ++ "{" ++ "|".intercalate s.labels ++ "}"
    (acc.filter (·.1 != k)) ++ [(k, s.value)]) []
  if dedup.isEmpty then "-" else ";".intercalate (sortStrings (dedup.map fun (k, v) => k ++ "=" ++ toString v))

def stepC (st : CSt) (args : List String) : CSt × String :=
  match args with
  | ["cacheinit", expire, minBits, allowed] =>
    match parseInt? expire, hexNat? minBits, parseNat? allowed with
    | some e, some m, some a => ({ st with ccfg := some (e, m, a), cache := [] }, "ok")
    | _, _, _ => (st, "bad-op")
  | ["cage", d] =>
    match parseInt? d with
    | some d => ({ st with cache := EvalCache.age d st.cache }, "ok")
    | none => (st, "bad-op")
  | ["cq", now, c, g, showAll] =>
    match parseInt? now, st.ccfg, st.store with
    | some now, some (expire, _, _), some _ =>
      let (st', result, p, freshNow) := statusQuery st now c g
      -- Spec oracle (C05 freshness with lifetime 0): a hit must equal a fresh evaluation
      let viol := expire == 0 && p == .hit && result != freshNow
      let out := match result with
        | none => "gs=0 complete=3f800000 count=0 total=0 maxlag=- parts=-"
        | some gs => renderGroupStatus (if showAll == "1" then gs else Group.filterView gs)
      (st', s!"rc={c} rg={g} {out} ~path={repr p}" ++ (if viol then " ~specviol=D16" else ""))
    | _, _, _ => (st, "bad-op")
  | "cqdup" :: now :: c :: g :: showAll :: more =>
    let showAll2 := more.head?.getD showAll
    -- two requests for one group at the same time: the second is answered like the first (from the evaluation the
    -- first one caused, or from one of its own on the same storage state)
    match parseInt? now, st.ccfg, st.store with
    | some now, some _, some _ =>
      let (st', result, p, _) := statusQuery st now c g
      let out := match result with
        | none => "gs=0 complete=3f800000 count=0 total=0 maxlag=- parts=-"
        | some gs => renderGroupStatus (if showAll == "1" then gs else Group.filterView gs)
      let out2 := match result with
        | none => "gs=0 complete=3f800000 count=0 total=0 maxlag=- parts=-"
        | some gs => renderGroupStatus (if showAll2 == "1" then gs else Group.filterView gs)
      (st', s!"rc={c} rg={g} {out} second={out2.replace " " "~"} ~path={repr p}")
    | _, _, _ => (st, "bad-op")
  | ["cburst", n, _, _] =>
    -- n concurrent requests through the real coordinator: one reply each, rightly named (what they say is judged by cq)
    match parseNat? n with
    | some n => (st, s!"burst={n}/{n} named=ok extra=0 view=ok")
    | none => (st, "bad-op")
  | ["cbarrier"] => (st, "ok")
  | ["cstop"] => (st, "ok")
  | ["cbatch", kind, now, lanes] =>
    match parseInt? now, st.store with
    | some now, some s0 =>
      if kind == "chaos" then
        -- the outcome of a chaos batch is not determined; the real module is stopped and started afterwards,
        -- which leaves every configured cluster empty
        ({ st with store := some (Store.init s0.cfg (fetchClusterList s0)) }, "ok")
      else
        -- ordered batch: every group belongs to one lane and no lane writes what another reads, so the lanes
        -- commute: run them one after another
        let (s', outs) := (lanes.splitOn "|").zipIdx.foldl (fun (acc : Store × List String) (lane, li) =>
          (lane.splitOn ",").zipIdx.foldl (fun (acc : Store × List String) (rs, idx) =>
            let s := acc.1
            match rs.splitOn "/" with
            | ["commit", c, g, t, p, off, order, ts] =>
              (match parseInt? p, parseInt? off, parseInt? order, parseInt? ts with
               | some p, some off, some order, some ts =>
                 ((addConsumerOffset s now { cluster := name c, group := name g, topic := name t, partition := p, offset := off, order, ts := now * 1000 + ts, allowMatch := true, denyMatch := false }).1, acc.2)
               | _, _, _, _ => acc)
            | ["owner", c, g, t, p, o, cl] =>
              (match parseInt? p with
               | some p => ((addConsumerOwner s { cluster := name c, group := name g, topic := name t, partition := p, owner := name o, clientID := name cl, allowMatch := true, denyMatch := false }).1, acc.2)
               | none => acc)
            | ["clear", c, g] => ((clearConsumerOwners s { cluster := name c, group := name g, allowMatch := true, denyMatch := false }).1, acc.2)
            | ["delgroup", c, g, t] => ((deleteGroup s { cluster := name c, group := name g, topic := name t }).1, acc.2)
            | ["broker", c, t, p, cnt, off] =>
              (match parseInt? p, parseInt? cnt, parseInt? off with
               | some p, some cnt, some off => ((addBrokerOffset s { cluster := name c, topic := name t, partition := p, topicPartitionCount := cnt, offset := off, ts := 1 }).1, acc.2)
               | _, _, _ => acc)
            | ["deltopic", c, t] => ((deleteTopic s { cluster := name c, topic := name t }).1, acc.2)
            | ["consumer", c, g] =>
              let (s', r) := fetchConsumer s now (name c) (name g)
              let out := match r with
                | .notFound => "nil" | .panic => "panic"
                | .found topics => (renderTopics topics).replace " " "~"
              (s', acc.2 ++ [s!"f{li}.{idx}={out}"])
            | _ => acc) acc) (s0, [])
        ({ st with store := some s' }, " ".intercalate ("ok" :: outs))
    | _, _ => (st, "bad-op")
  | ["secrets", l] =>
    match parseList? l "," unhexStr? with
    | some secrets => ({ st with secrets }, "ok")
    | none => (st, "bad-op")
  | ["httpinit", leaves] =>
    match parseCfg? leaves with
    | some cfg => ({ st with cfg }, "ok")
    | none => (st, "bad-op")
  | ["http", _, _, "invalid"] => (st, "code=400 ct=none err=- hdr=- kind=invalid-url")
  | ["http", now, method, path] =>
    match parseInt? now, unhexStr? path with
    | some now, some path =>
      let (st', r) := Http.respond Burrow.Generated.routes (backend now) st method path
      -- the status routes answer with the view asked for
      let r := match r.payload with
        | .status c g (some gs) =>
          if (Http.route Burrow.Generated.routes method path matches .handler "handleConsumerStatus" _) then
            { r with payload := .status c g (some (Group.filterView gs)) } else r
        | _ => r
      let r : Http.Resp := if r.code == 307 then { r with ctype := .none, payload := .other "empty" } else
        match Http.route Burrow.Generated.routes method path with
        | .options _ => { r with payload := .other "empty" }
        | _ => r
      -- httprouter's trailing-slash recommendation depends on the shape of its radix tree: for a path
      -- ending in "/" that matches no pattern, "redirect" and "not found" are both admitted (DESIGN 4.16)
      -- Spec oracles for the listed known findings (the model reproduces the code's behaviour there)
      let viol : String :=
        match Http.route Burrow.Generated.routes method path, st.store with
        | .handler h ps, some s =>
          let c := hexOfStr (Http.param ps "cluster"); let g := hexOfStr (Http.param ps "consumer")
          if h == "handleTopicDetail" && r.code == 200 &&
             (match topicOffsetsByPartition s c (hexOfStr (Http.param ps "topic")) with
              | some l => positionsShifted l | none => false) then " ~specviol=D8"
          else if h == "handleConsumerDelete" && r.code == 200 &&
             (match fetchConsumerList s c with | some l => !l.contains (name g) | none => true) then " ~specviol=D18"
          else if r.code == 200 && (h == "handleClusterDetail" || h == "configStorageDetail" || h == "configEvaluatorDetail" ||
              h == "configConsumerDetail" || h == "configNotifierDetail") then
            let kind := if h == "handleClusterDetail" then "cluster" else ((h.drop 6).dropEnd 6).toString.toLower
            let nm := if h == "handleClusterDetail" then Http.param ps "cluster" else Http.param ps "name"
            if (st.cfg.vChildren [kind]).contains nm.toLower then "" else " ~specviol=D15"
          else ""
        | _, _ => ""
      let tsr := path.length > 1 && path.endsWith "/" &&
        (match Http.route Burrow.Generated.routes method path with
         | .redirect _ _ => true | .notFound => true | _ => false)
      -- D20: a configured password value in a response (dotted module names; the model reproduces viper)
      let leak := if respLeaks r st.secrets then " leak=1 ~specviol=D20" else ""
      (st', if tsr then "code=tsr" else showResp r ++ (if leak.isEmpty then viol else leak))
    | _, _ => (st, "bad-op")
  | ["scrape", now] =>
    match parseInt? now with
    | some now =>
      let (st', series) := Http.scrapeWrites (scrapeBackend now) st
      let series := series.map fun s =>
        { s with labels := s.labels.zipIdx.map fun (l, i) => if i == 3 || (s.name == "burrow_kafka_topic_partition_offset" && i == 2) then hexOfStr l else l }
      let shifted := match st'.store with
        | some s => (fetchClusterList s).any fun c => ((fetchTopicList s c).getD []).any fun t =>
            (match topicOffsetsByPartition s c t with | some l => positionsShifted l | none => false)
        | none => false
      (st', "code=200 series=" ++ showSeries series ++ (if shifted then " ~specviol=D8" else ""))
    | none => (st, "bad-op")
  | _ =>
    let (s', out) := step st.store args
    ({ st with store := s' }, out)

end Driver.StorageD
