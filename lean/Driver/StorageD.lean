import BurrowVerif.Model.Storage
import BurrowVerif.Model.Group
import BurrowVerif.Model.Float32
import BurrowVerif.Model.EvalCache
import Driver.Util

namespace Driver.StorageD
open Burrow Burrow.Storage Driver

/-- names stay hex text inside the model (hex encoding is injective); only the empty name matters
    to the code (`request.Topic != ""`), so `-` becomes `""`. -/
def name (s : String) : String := if s == "-" then "" else s
def unname (s : String) : String := if s == "" then "-" else s

/-- insertion sort on strings (canonical order for everything that came out of a Go map) -/
def insertSorted (x : String) : List String → List String
  | [] => [x]
  | y :: ys => if x < y then x :: y :: ys else y :: insertSorted x ys

def sortStrings (l : List String) : List String := l.foldl (fun acc x => insertSorted x acc) []

def showList (l : List String) : String :=
  if l.isEmpty then "-" else ",".intercalate (sortStrings (l.map unname))

def showInts (l : List Int) : String :=
  if l.isEmpty then "-" else ",".intercalate (l.map toString)

def showOptList : Option (List String) → String
  | none => "nil"
  | some l => "list=" ++ showList l

def insertSortedBy {α} (key : α → String) (x : α) : List α → List α
  | [] => [x]
  | y :: ys => if key x < key y then x :: y :: ys else y :: insertSortedBy key x ys

def renderTopics (topics : ConsumerTopics) : String :=
  let sorted := topics.foldl (fun acc x => insertSortedBy (fun (p : String × List Eval.Partition) => unname p.1) x acc) []
  let per (f : Eval.Partition → String) : String :=
    if sorted.isEmpty then "-" else
    ",".intercalate (sorted.map fun (t, parts) => unname t ++ "[" ++ "|".intercalate (parts.map f) ++ "]")
  let win := per fun p =>
    if p.offsets.isEmpty then "-" else
    ";".intercalate (p.offsets.map fun
      | none => "nil"
      | some c => s!"{c.offset}:{c.order}:{c.ts}")
  let lag := per fun p =>
    s!"{p.currentLag}/" ++ ";".intercalate (p.offsets.map fun
      | none => "x"
      | some c => match c.lag with | none => "-" | some l => toString l)
  let own := per fun p => unname p.owner ++ "/" ++ unname p.clientID
  let bro := per fun p => showInts p.brokerOffsets
  s!"win={win} lag={lag} own={own} bro={bro}"

def showStatusOffset : Option Commit → String
  | none => "nil"
  | some c => s!"{c.offset}:{c.ts}:{match c.lag with | none => "-" | some l => toString l}"

def renderGroupStatus (g : Group.GroupStatus) : String :=
  let parts := g.partitions.map fun p =>
    s!"{unname p.topic}/{p.partition}/{p.st.status.toNat}/{p.st.currentLag}/{hexOfNat (F32.divBits p.st.complete.1 p.st.complete.2) 8}/{showStatusOffset p.st.start}/{showStatusOffset p.st.«end»}/{unname p.owner}/{unname p.clientID}"
  let sorted := sortStrings parts
  let ps := if sorted.isEmpty then "-" else ",".intercalate sorted
  let maxlag := match g.maxlag with | none => "-" | some m => toString m.st.currentLag
  s!"gs={g.status.toNat} complete={hexOfNat (F32.divBits g.complete.1 g.complete.2) 8} count={g.totalPartitions} total={g.totalLag} maxlag={maxlag} parts={ps}"

def showOutcome : Outcome → String
  | .ok => "ok"
  | .panic => "panic"

def showPlacement : Placement → String
  | .append => "append" | .appendMerged => "appendMerged" | .insertBlank => "insertBlank"
  | .replaceOldest => "replaceOldest" | .shift => "shift" | .insertMerged => "insertMerged"
  | .dropFull => "dropFull" | .dropDup => "dropDup"

abbrev St := Option Store

def bit? (s : String) : Option Bool := if s == "1" then some true else if s == "0" then some false else none

def step (st : St) (args : List String) : St × String :=
  match args with
  | ["init", intervals, expire, minDist, allowSet, denySet, clusters] =>
    match parseNat? intervals, parseInt? expire, parseInt? minDist, bit? allowSet, bit? denySet with
    | some intervals, some expireGroup, some minDistance, some allowSet, some denySet =>
      (some (Store.init { intervals, expireGroup, minDistance, allowSet, denySet } ((clusters.splitOn ",").map name)), "ok")
    | _, _, _, _, _ => (st, "bad-op")
  | cmd :: rest =>
    match st with
    | none => (st, "bad-op")
    | some s =>
      match cmd, rest with
      | "broker", [c, t, p, cnt, off, ts] =>
        match parseInt? p, parseInt? cnt, parseInt? off, parseInt? ts with
        | some p, some cnt, some off, some ts =>
          let (s', o) := addBrokerOffset s { cluster := name c, topic := name t, partition := p, topicPartitionCount := cnt, offset := off, ts }
          (some s', showOutcome o)
        | _, _, _, _ => (st, "bad-op")
      | "commit", [now, c, g, t, p, off, order, ts, am, dm] =>
        match parseInt? now, parseInt? p, parseInt? off, parseInt? order, parseInt? ts, bit? am, bit? dm with
        | some now, some p, some off, some order, some ts, some am, some dm =>
          let (s', o, pl) := addConsumerOffset s now { cluster := name c, group := name g, topic := name t, partition := p, offset := off, order, ts, allowMatch := am, denyMatch := dm }
          (some s', showOutcome o ++ (match pl with | some pl => " ~place=" ++ showPlacement pl | none => " ~place=none"))
        | _, _, _, _, _, _, _ => (st, "bad-op")
      | "owner", [c, g, t, p, owner, client, am, dm] =>
        match parseInt? p, bit? am, bit? dm with
        | some p, some am, some dm =>
          let (s', o) := addConsumerOwner s { cluster := name c, group := name g, topic := name t, partition := p, owner := name owner, clientID := name client, allowMatch := am, denyMatch := dm }
          (some s', showOutcome o)
        | _, _, _ => (st, "bad-op")
      | "clear", [c, g, am, dm] =>
        match bit? am, bit? dm with
        | some am, some dm =>
          let (s', o) := clearConsumerOwners s { cluster := name c, group := name g, allowMatch := am, denyMatch := dm }
          (some s', showOutcome o)
        | _, _ => (st, "bad-op")
      | "deltopic", [c, t] =>
        let (s', o) := deleteTopic s { cluster := name c, topic := name t }
        (some s', showOutcome o)
      | "delgroup", [c, g, t] =>
        let (s', o, _) := deleteGroup s { cluster := name c, group := name g, topic := name t }
        (some s', showOutcome o)
      | "shift", [d] =>
        match parseInt? d with
        | some d => (some (shiftTimes s d), "ok")
        | none => (st, "bad-op")
      | "clusters", [] => (st, "list=" ++ showList (fetchClusterList s))
      | "consumers", [c] => (st, showOptList (fetchConsumerList s (name c)))
      | "topics", [c] => (st, showOptList (fetchTopicList s (name c)))
      | "fortopic", [c, t] => (st, showOptList (fetchConsumersForTopic s (name c) (name t)))
      | "topic", [c, t] =>
        match fetchTopic s (name c) (name t) with
        | none => (st, "nil")
        | some l => (st, "offs=" ++ showInts l)
      | "status", [now, c, g, minBits, allowed, showAll] =>
        match parseInt? now, hexNat? minBits, parseNat? allowed with
        | some now, some minBits, some allowed =>
          let (s', r) := fetchConsumer s now (name c) (name g)
          (some s', match r with
            | .notFound => "gs=0 complete=3f800000 count=0 total=0 maxlag=- parts=-"
            | .panic => "panic"
            | .found topics =>
              match Group.evaluateGroup (F32.meets minBits) now allowed topics with
              | none => "panic"
              | some gs => renderGroupStatus (if showAll == "1" then gs else Group.filterView gs))
        | _, _, _ => (st, "bad-op")
      | "consumer", [now, c, g] =>
        match parseInt? now with
        | some now =>
          let (s', r) := fetchConsumer s now (name c) (name g)
          (some s', match r with
            | .notFound => "nil"
            | .panic => "panic"
            | .found topics => renderTopics topics)
        | none => (st, "bad-op")
      | _, _ => (st, "bad-op")
  | _ => (st, "bad-op")

/-! ### persistent evaluator with cache (C05) on top of the storage model -/

structure CSt where
  store  : St := none
  ccfg   : Option (Int × Nat × Nat) := none          -- expire (s), minimum-complete bits, allowed lag
  cache  : EvalCache.Cache Group.GroupStatus := []

def stepC (st : CSt) (args : List String) : CSt × String :=
  match args with
  | ["cacheinit", expire, minBits, allowed] =>
    match parseInt? expire, hexNat? minBits, parseNat? allowed with
    | some e, some m, some a => ({ st with ccfg := some (e, m, a), cache := [] }, "ok")
    | _, _, _ => (st, "bad-op")
  | ["cage", d] =>
    match parseInt? d with
    | some d => ({ st with cache := EvalCache.age d st.cache }, "ok")
    | none => (st, "bad-op")
  | ["cq", now, c, g, showAll] =>
    match parseInt? now, st.ccfg, st.store with
    | some now, some (expire, minBits, allowed), some s =>
      let cfg : EvalCache.Cfg := { expire }
      let key := EvalCache.mkKey c.toList g.toList
      -- the cache clock is frozen at 0 by the harness (expiries are relative to the query instant)
      let p := EvalCache.path st.cache key 0
      let (s', looked) : Store × Option (Option Group.GroupStatus) :=
        if p == .hit then (s, none) else
          let (s', r) := fetchConsumer s now (name c) (name g)
          (s', some (match r with
            | .found topics => Group.evaluateGroup (F32.meets minBits) now allowed topics
            | _ => none))
      let (cache', result) := EvalCache.query cfg st.cache key 0 (fun _ => looked.join)
      -- Spec oracle (C05 freshness with lifetime 0): a hit must equal a fresh evaluation
      let freshNow : Option Group.GroupStatus :=
        match (fetchConsumer s now (name c) (name g)).2 with
        | .found topics => Group.evaluateGroup (F32.meets minBits) now allowed topics
        | _ => none
      let viol := expire == 0 && p == .hit && result != freshNow
      let out := match result with
        | none => "gs=0 complete=3f800000 count=0 total=0 maxlag=- parts=-"
        | some gs => renderGroupStatus (if showAll == "1" then gs else Group.filterView gs)
      ({ st with store := some s', cache := cache' }, s!"rc={c} rg={g} {out} ~path={repr p}" ++ (if viol then " ~specviol=D16" else ""))
    | _, _, _ => (st, "bad-op")
  | _ =>
    let (s', out) := step st.store args
    ({ st with store := s' }, out)

end Driver.StorageD
