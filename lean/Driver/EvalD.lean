import BurrowVerif.Model.Eval
import BurrowVerif.Model.Float32
import Driver.Util

namespace Driver.EvalD
open Burrow Burrow.Eval Driver

/-- `off:ts:lag` with lag `-` for nil; order is not part of the evaluator's input -/
def parseCommit? (s : String) : Option Commit :=
  match s.splitOn ":" with
  | [o, t, l] => do
    let o ← parseInt? o; let t ← parseInt? t
    let l ← if l == "-" then some none else (parseNat? l).map some
    pure { offset := o, order := 0, ts := t, lag := l }
  | _ => none

def parseOptCommit? (s : String) : Option (Option Commit) :=
  if s == "nil" then some none else (parseCommit? s).map some

def showCommit (c : Commit) : String :=
  s!"{c.offset}:{c.ts}:{match c.lag with | none => "-" | some l => toString l}"

def step (args : List String) : String :=
  match args with
  | ["calc", now, allowed, cur, w, bo] =>
    match parseInt? now, parseNat? allowed, parseNat? cur,
          parseList? w ";" parseCommit?, parseList? bo "," parseInt? with
    | some now, some allowed, some cur, some w, some bo =>
      match calculate w bo cur now allowed with
      | some st => s!"status={st.toNat}"
      | none => "panic"
    | _, _, _, _, _ => "bad-op"
  | ["part", now, minBits, allowed, cur, offs, bo] =>
    match parseInt? now, hexNat? minBits, parseNat? allowed, parseNat? cur,
          parseList? offs ";" parseOptCommit?, parseList? bo "," parseInt? with
    | some now, some minBits, some allowed, some cur, some offs, some bo =>
      let p : Partition := { offsets := offs, brokerOffsets := bo, owner := "", clientID := "", currentLag := cur }
      match evaluatePartition p (F32.meets minBits) now allowed with
      | some st =>
        s!"status={st.status.toNat} cur={st.currentLag} complete={hexOfNat (F32.divBits st.complete.1 st.complete.2) 8} start={optStr showCommit st.start} end={optStr showCommit st.«end»}"
      | none => "panic"
    | _, _, _, _, _, _ => "bad-op"
  | _ => "bad-op"

end Driver.EvalD
