import BurrowVerif.Model.Config
import Driver.Util

/-! Driver for stream `config` (C19): facts line → `Config.start` with the repaired handler. -/
namespace Driver.ConfigD
open Burrow.Config Driver

def unhex (s : String) : String :=
  if s == "-" then "" else
  match hexBytes? s with
  | some bs => (String.fromUTF8? (ByteArray.mk bs.toArray)).getD "?"
  | none => "?"

def b (s : String) : Bool := s == "1"

def kv (args : List String) (k : String) : Option String :=
  args.findSome? fun a =>
    match a.splitOn "=" with
    | [k', v] => if k' == k then some v else none
    | _ => none

def items (s : String) : List String := if s == "-" then [] else s.splitOn ";"

def tls? (s : String) (sep : String) : Option (Option Tls) :=
  if s == "-" then some none else
  match s.splitOn sep with
  | [a, r, c, p] => some (some { caSet := b a, caReadable := b r, certKeySet := b c, pairLoads := b p })
  | _ => none

def profile? (s : String) : Option Profile :=
  match s.splitOn "," with
  | [n, k, v, t] => do
    let t ← tls? t "/"
    pure { named := b n, known := b k, versionOk := b v, tls := t }
  | _ => none

def parse? (args : List String) : Option (Config × Bool) := do
  let hn ← kv args "hn"
  let zk ← match (← kv args "zk").splitOn ":" with
    | [n, ok, r] => some { serversN := n.toNat?.getD 0, serversOk := b ok, rootOk := b r : Zk }
    | _ => none
  let storage ← (items (← kv args "st")).mapM fun s =>
    match s.splitOn ":" with
    | [c, q, l, a, d] => some { cls := unhex c, queueDepthOk := b q, legacy := b l, allowOk := b a, denyOk := b d : Storage }
    | _ => none
  let evaluator ← (items (← kv args "ev")).mapM fun s =>
    match s.splitOn ":" with
    | [c, x] => some { cls := unhex c, expireOk := b x : Evaluator }
    | _ => none
  let listeners ← (items (← kv args "hs")).mapM fun s =>
    match s.splitOn ":" with
    | [a, t] => do pure { addrOk := b a, tls := ← tls? t "," : Listener }
    | _ => none
  let notifiers ← (items (← kv args "nt")).mapM fun s =>
    match s.splitOn ":" with
    | [l, a, d, to, sc, tc, c, uo, uc, ca, sv, fr, t, au] =>
      some { legacy := b l, allowOk := b a, denyOk := b d, tmplOpenOk := b to, sendClose := b sc, tmplCloseOk := b tc, cls := unhex c,
             urlOpen := b uo, urlClose := b uc, extraCaOk := b ca, serverOk := b sv, fromSet := b fr, toSet := b t, authOk := b au : Notifier }
    | _ => none
  let clusters ← (items (← kv args "cl")).mapM fun s =>
    match s.splitOn ":" with
    | [c, p, n, ok] => do pure { cls := unhex c, profile := ← profile? p, serversN := n.toNat?.getD 0, serversOk := b ok : Cluster }
    | _ => none
  let consumers ← (items (← kv args "co")).mapM fun s =>
    match s.splitOn ":" with
    | [k, c, p, n, ok, z, l, a, d] => do
      pure { clusterKnown := b k, cls := unhex c, profile := ← profile? p, serversN := n.toNat?.getD 0, serversOk := b ok,
             zkPathOk := b z, legacy := b l, allowOk := b a, denyOk := b d : Consumer }
    | _ => none
  let loc ← kv args "local"
  pure ({ haveNotifiers := b hn, zk, storage, evaluator, listeners, notifiers, clusters, consumers }, b loc)

/-- the class of message a site panics with (several sites share one text) -/
def siteClass : Check → String
  | .S4 | .N1 | .KC5 | .KZ4 => "LEGACY"
  | .S5 | .N2 | .KC6 | .KZ5 => "ALLOW"
  | .S6 | .N3 | .KC7 | .KZ6 => "DENY"
  | .H2 | .P3 => "TLSCA"
  | .H4 | .P4 => "TLSPAIR"
  | .NH3 | .NE5 => "EXTRACA"
  | .KC4 | .KZ2 => "CONSSERVERS"
  | c => toString (repr c) |>.splitOn "." |>.getLast!

def step (args : List String) : String :=
  match args with
  | "start" :: rest =>
    match parse? rest with
    | none => "bad-op"
    | some (c, loc) =>
      -- Spec (C19): a configuration that violates a requirement must make Start return non-zero
      -- without a crash; one that satisfies all must be accepted.
      let o := start handlerNew c 0 none
      match configure c with
      | some site =>
        let st := match o.result with | .returned n => s!"ret{n}" | .crashed => "crash"
        s!"valid=0 site={siteClass site} start={st}"
      | none => s!"valid=1 site=- start={if loc then "ret0" else "skipped"}"
  | _ => "bad-op"

end Driver.ConfigD
