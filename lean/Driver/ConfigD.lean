import BurrowVerif.Model.Config
import BurrowVerif.Model.Validate
import Driver.Util

/-! Driver for stream `config` (C19): facts line → `Config.start` with the repaired handler. -/
namespace Driver.ConfigD
open Burrow.Config Burrow.Validate Driver

def unhex (s : String) : String :=
  if s == "-" then "" else
  match hexBytes? s with
  | some bs => (String.fromUTF8? (ByteArray.mk bs.toArray)).getD "?"
  | none => "?"

def b (s : String) : Bool := s == "1"

def kv (args : List String) (k : String) : Option String :=
  args.findSome? fun a =>
    match a.splitOn "=" with
    | [k', v] => if k' == k then some v else none
    | _ => none

def items (s : String) : List String := if s == "-" then [] else s.splitOn ";"

def tls? (s : String) (sep : String) : Option (Option Tls) :=
  if s == "-" then some none else
  match s.splitOn sep with
  | [a, r, c, p] => some (some { caSet := b a, caReadable := b r, certKeySet := b c, pairLoads := b p })
  | _ => none

def addr? (s : String) : Option AddrFacts :=
  match s.splitOn "," with
  | [sp, h, p, ip, an] => some { splitOk := b sp, host := unhex h, portOk := b p, ipOk := b ip, allNumeric := b an }
  | _ => none

def addrs? (s : String) : Option (List AddrFacts) := if s == "-" then some [] else (s.splitOn "+").mapM addr?

def profile? (s : String) : Option Profile :=
  match s.splitOn "~" with
  | [n, k, v, t] => do
    let t ← tls? t "/"
    let vOk ← match v.splitOn "/" with
      | [sar, ver] => some (kafkaVersionOk (b sar) (unhex ver))
      | _ => none
    pure { named := b n, known := b k, versionOk := vOk, tls := t }
  | _ => none

def parse? (args : List String) : Option (Config × Bool) := do
  let hn ← kv args "hn"
  let zk ← match (← kv args "zk").splitOn ":" with
    | [srv, r] => do
      let l ← addrs? srv
      pure { serversN := l.length, serversOk := validHostList l, rootOk := validZkPath (unhex r) : Zk }
    | _ => none
  let storage ← (items (← kv args "st")).mapM fun s =>
    match s.splitOn ":" with
    | [c, q, l, a, d] => some { cls := unhex c, queueDepthOk := b q, legacy := b l, allowOk := b a, denyOk := b d : Storage }
    | _ => none
  let evaluator ← (items (← kv args "ev")).mapM fun s =>
    match s.splitOn ":" with
    | [c, x] => some { cls := unhex c, expireOk := b x : Evaluator }
    | _ => none
  let listeners ← (items (← kv args "hs")).mapM fun s =>
    match s.splitOn ":" with
    | [a, t] => do pure { addrOk := validHostPort true (← addr? a), tls := ← tls? t "," : Listener }
    | _ => none
  let notifiers ← (items (← kv args "nt")).mapM fun s =>
    match s.splitOn ":" with
    | [l, a, d, to, sc, tc, c, uo, uc, ca, sv, fr, t, au] =>
      some { legacy := b l, allowOk := b a, denyOk := b d, tmplOpenOk := b to, sendClose := b sc, tmplCloseOk := b tc, cls := unhex c,
             urlOpen := b uo, urlClose := b uc, extraCaOk := b ca, serverOk := (addr? sv).map (validHostPort false) |>.getD false,
             fromSet := b fr, toSet := b t, authOk := b au : Notifier }
    | _ => none
  let clusters ← (items (← kv args "cl")).mapM fun s =>
    match s.splitOn ":" with
    | [c, p, srv] => do
      let l ← addrs? srv
      pure { cls := unhex c, profile := ← profile? p, serversN := l.length, serversOk := validHostList l : Cluster }
    | _ => none
  let consumers ← (items (← kv args "co")).mapM fun s =>
    match s.splitOn ":" with
    | [k, c, p, srv, z, l, a, d] => do
      let sl ← addrs? srv
      pure { clusterKnown := b k, cls := unhex c, profile := ← profile? p, serversN := sl.length, serversOk := validHostList sl,
             zkPathOk := validZkPath (unhex z), legacy := b l, allowOk := b a, denyOk := b d : Consumer }
    | _ => none
  let loc ← kv args "local"
  pure ({ haveNotifiers := b hn, zk, storage, evaluator, listeners, notifiers, clusters, consumers }, b loc)

/-- the class of message a site panics with (several sites share one text) -/
def siteClass : Check → String
  | .S4 | .N1 | .KC5 | .KZ4 => "LEGACY"
  | .S5 | .N2 | .KC6 | .KZ5 => "ALLOW"
  | .S6 | .N3 | .KC7 | .KZ6 => "DENY"
  | .H2 | .P3 => "TLSCA"
  | .H4 | .P4 => "TLSPAIR"
  | .NH3 | .NE5 => "EXTRACA"
  | .KC4 | .KZ2 => "CONSSERVERS"
  | c => toString (repr c) |>.splitOn "." |>.getLast!

def insertSorted (x : String) : List String → List String
  | [] => [x]
  | y :: ys => if x < y then x :: y :: ys else y :: insertSorted x ys

def sortStrings (l : List String) : List String := l.foldl (fun acc x => insertSorted x acc) []

def step (args : List String) : String :=
  match args with
  | "start" :: rest =>
    match parse? rest with
    | none => "bad-op"
    | some (c, loc) =>
      -- Spec (C19): a configuration that violates a requirement must make Start return non-zero
      -- without a crash; one that satisfies all must be accepted.
      let o := start handlerNew c 0 none
      match configure c with
      | some _ =>
        let st := match o.result with | .returned n => s!"ret{n}" | .crashed => "crash"
        -- the modules of one kind are configured in Go map order: any failing module's first site may be named
        let classes := (configureSites c).map siteClass
        let classes := classes.foldl (fun acc x => if acc.contains x then acc else acc ++ [x]) []
        let shown := match sortStrings classes with
          | [x] => x
          | xs => "(" ++ "|".intercalate xs ++ ")"
        -- `restart`: the same Start on an application context that an earlier, valid run has left marked valid
        s!"valid=0 site={shown} start={st} restart={st}"
      | none => s!"valid=1 site=- start={if loc then "ret0" else "skipped"} restart=-"
  | _ => "bad-op"

end Driver.ConfigD
