import BurrowVerif.Model.ZkLoop
import Driver.Util

/-! Driver for stream `zkloop` (C15): the scripted scenario as an event trace of `ZkLoop.step`. -/
namespace Driver.ZkLoopD
open Burrow.ZkLoop Driver

def kv (args : List String) (k : String) : Option String :=
  args.findSome? fun a =>
    match a.splitOn "=" with
    | [k', v] => if k' == k then some v else none
    | _ => none

def ints (s : String) : List Nat := if s == "-" || s == "" then [] else (s.splitOn ",").filterMap String.toNat?

/-- the trace of one scripted scenario -/
def trace (fails : List Nat) (early : Bool) : List Ev :=
  let cycle (k : Nat) : List Ev :=
    (List.replicate k [Ev.wake, Ev.lockFail]).flatten ++ [.wake, .lockOk]
  if early then
    -- the expiry strikes inside the successful Lock(): the manager sees the changed expiration count, does not
    -- wait, clears the flag, and goes through the whole resume protocol
    (cycle (fails.headD 0)) ++ [.expire, .setFlag, .enterWait, .clearFlag, .loopExit, .reconnect, .seeConnected, .unlockOk, .wake]
  else
    (fails.flatMap fun k => cycle k ++ [.setFlag, .enterWait, .sweep, .expire, .clearFlag, .loopExit, .reconnect, .seeConnected, .unlockOk])
    ++ [.wake]

def step (args : List String) : String :=
  match args with
  | "run" :: rest =>
    match kv rest "fails", kv rest "early" with
    | some fails, some early =>
      let tr := trace (ints fails) (early == "1")
      match run {} tr with
      | none => "model-trace-not-enabled"
      | some s =>
        let locks := (tr.filter (· == .wake)).length
        let unlocks := (tr.filter (· == .unlockOk)).length
        let stuck := s.badSweeps > 0
        -- the first owned window contains an evaluation (every group is due), except in the lost wake-up scenario
        let live := if early == "1" then 0 else 1
        -- the incident group g0 was put into before the loops started is the one its next result belongs to
        -- (manageEvalLoop and the request loop read the group records' LastEval and nothing else: no event of this
        -- model is an operation of the incident model)
        let inc := if (kv rest "groups").getD "0" == "0" then "-" else "same"
        s!"locks={locks} unlocks={unlocks} gap={if stuck then "stuck" else "0"} live={live} pace=ok prelock=0 burst=ok inc={inc}" ++
          (if stuck then " ~specviol=D12" else "")
    | _, _ => "bad-op"
  | _ => "bad-op"

end Driver.ZkLoopD
