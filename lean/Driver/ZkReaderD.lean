import BurrowVerif.Model.ZkReader
import Driver.Util

/-! Driver for stream `zkreader` (C10): the Zookeeper offsets reader's forwarded requests. -/
namespace Driver.ZkReaderD
open Burrow.ZkReader Driver

def insertSorted (x : String) : List String → List String
  | [] => [x]
  | y :: ys => if x < y then x :: y :: ys else y :: insertSorted x ys

def sortStrings (l : List String) : List String := l.foldl (fun acc x => insertSorted x acc) []

def kv (args : List String) (k : String) : Option String :=
  args.findSome? fun a => if a.startsWith (k ++ "=") then some (a.drop (k.length + 1)).toString else none

def showFw : Fw → String
  | .offset g t p off ord ts => s!"o/{g}/{t}/{p}/{off}/{ord}/{ts}"
  | .owner g t p o => s!"w/{g}/{t}/{p}/{o}"

def render (l : List Fw) : String :=
  if l.isEmpty then "fw=-" else "fw=" ++ ";".intercalate (sortStrings (l.map showFw))

def step (st : St) (args : List String) : St × String :=
  match args with
  | ["cfg"] => ({}, "ok")
  | "set" :: g :: t :: p :: owner :: rest =>
    match p.toNat?, kv rest "acc", kv rest "parse", (kv rest "zxid").bind String.toInt? with
    | some p, some acc, some parse, some zxid =>
      let e : Entry := { group := g, topic := t, partition := p, parsed := if parse == "-" then none else parse.toInt?,
                         owner, zxid, acc := acc == "1" }
      let (st', out) := Burrow.ZkReader.step st (.set e)
      (st', render out)
    | _, _, _, _ => (st, "bad-op")
  | ["start"] => if st.started then (st, "bad-op") else let (st', out) := Burrow.ZkReader.step st .start; (st', render out)
  | ["expire"] => if !st.started then (st, "bad-op") else let (st', out) := Burrow.ZkReader.step st .expire; (st', render out)
  | _ => (st, "bad-op")

end Driver.ZkReaderD
