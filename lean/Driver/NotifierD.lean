import BurrowVerif.Model.Notifier
import Driver.Util

namespace Driver.NotifierD
open Burrow Burrow.Notifier Driver

structure St where
  cfgs     : List ModuleCfg := []
  state    : NState := []
  cumShift : Int := 0
  counter  : Nat := 0               -- supply of fresh ids
  ids      : List Nat := []         -- ids in order of first appearance in a notification

def parseMod? (s : String) : Option ModuleCfg :=
  match s.splitOn ":" with
  | [name, thr, iv, once, close] => do
    let thr ← parseInt? thr; let iv ← parseInt? iv
    pure { name, threshold := thr, sendInterval := iv, sendOnce := once == "1", sendClose := close == "1" }
  | _ => none

def optInt? (s : String) : Option (Option Int) := if s == "-" then some none else (parseInt? s).map some
def optBool? (s : String) : Option (Option Bool) :=
  if s == "-" then some none else if s == "1" then some (some true) else if s == "0" then some (some false) else none
def optStr (s : String) : Option String := if s == "-" then none else some s

def parseSpec? (s : String) : Option ModSpec :=
  match s.splitOn ":" with
  | [name, thr, iv, siv, once, close, allow, deny] => do
    pure { name, threshold := (← optInt? thr), interval := (← optInt? iv), sendInterval := (← optInt? siv),
           sendOnce := (← optBool? once), sendClose := (← optBool? close), allow := optStr allow, deny := optStr deny }
  | _ => none

def bitS (b : Bool) : String := if b then "1" else "0"

def insertSorted (x : String) : List String → List String
  | [] => [x]
  | y :: ys => if x < y then x :: y :: ys else y :: insertSorted x ys

def idIndex (ids : List Nat) (id : Nat) : List Nat × Nat :=
  match ids.findIdx? (· == id) with
  | some i => (ids, i)
  | none => (ids ++ [id], ids.length)

def step (st : St) (args : List String) : St × String :=
  match args with
  | ["cfg", mods] =>
    match (mods.splitOn ";").mapM parseMod? with
    | some cfgs => ({ cfgs }, "ok")
    | none => (st, "bad-op")
  | ["conf", mods] =>
    match (mods.splitOn ";").mapM parseSpec? with
    | none => (st, "bad-op")
    | some specs =>
      let one (m : ModSpec) : String :=
        let c := m.cfg
        s!"{m.name}:{c.threshold}/{c.sendInterval}/{bitS c.sendOnce}/{bitS c.sendClose}"
      let lst (m : ModSpec) : String := s!"{m.name}:{m.lists.1.getD "-"}/{m.lists.2.getD "-"}"
      let sorted (l : List String) := l.foldl (fun acc x => insertSorted x acc) []
      (st, s!"conf min={minIntervalOf specs} mods=" ++ ";".intercalate (sorted (specs.map one)) ++ " lists=" ++
        ";".intercalate (sorted (specs.map lst)) ++ " ex=ok")
  | ["group", c, g] => ({ st with state := setG (c, g) GroupRec.fresh st.state }, "ok")
  | ["delgroup", c, g] => ({ st with state := eraseG (c, g) st.state }, "ok")
  | ["refresh", spec, stall] =>
    let listing? : Option (List (String × List String)) :=
      if spec == "-" then some [] else
      (spec.splitOn ";").mapM fun e =>
        match e.splitOn "=" with
        | [c, gs] => some (c, if gs.isEmpty then [] else gs.splitOn ",")
        | [c] => some (c, [])
        | _ => none
    match listing? with
    | some listing => ({ st with state := refresh listing (fun _ => stall != "1") st.state }, "ok")
    | none => (st, "bad-op")
  | ["shift", d] =>
    match parseInt? d with
    | some d => ({ st with state := shiftTimes d st.state, cumShift := st.cumShift + d }, "ok")
    | none => (st, "bad-op")
  | ["eval", c, g, status, bits] =>
    match Notifier.resultOf status with
    | .skipped => (st, "notes=-")     -- responseLoop: a nil answer or NOTFOUND never reaches the incident logic
    | .bad => (st, "bad-op")
    | .evaluated statusV =>
    match some statusV with
    | none => (st, "bad-op")
    | some status =>
      let accOf (m : String) : Bool :=
        match st.cfgs.findIdx? (·.name == m) with
        | some i => bits.toList[i]? == some '1'
        | none => false
      let ev : Ev := { status, now := 0, acc := accOf, freshId := st.counter }
      let (state, notes) := Notifier.step st.cfgs st.state (c, g) ev
      -- canonical rendering in module order of emission, then sorted
      let (ids, rendered) := notes.foldl (fun (acc : List Nat × List String) n =>
        let (ids, out) := acc
        let (ids, idStr) := match n.id with
          | none => (ids, "-")
          | some id => let (ids', i) := idIndex ids id; (ids', s!"i{i}")
        let startStr := match n.start with
          | none => "-"
          | some t => toString (t + st.cumShift)
        (ids, out ++ [s!"{n.module}/{n.status.toNat}/{idStr}/{startStr}/{if n.close then 1 else 0}"])) (st.ids, [])
      let sorted := rendered.foldl (fun acc x => insertSorted x acc) []
      ({ st with state, counter := st.counter + 1, ids },
       "notes=" ++ (if sorted.isEmpty then "-" else ",".intercalate sorted))
  | _ => (st, "bad-op")

end Driver.NotifierD
