/- Parsing / printing helpers for the line-protocol driver.  Core Lean only. -/
namespace Driver

def hexVal (c : Char) : Option Nat :=
  if '0' ≤ c ∧ c ≤ '9' then some (c.toNat - '0'.toNat)
  else if 'a' ≤ c ∧ c ≤ 'f' then some (c.toNat - 'a'.toNat + 10)
  else if 'A' ≤ c ∧ c ≤ 'F' then some (c.toNat - 'A'.toNat + 10)
  else none

def hexNat? (s : String) : Option Nat :=
  if s.isEmpty then none else
  s.toList.foldl (fun acc c => do let a ← acc; let v ← hexVal c; pure (a * 16 + v)) (some 0)

/-- decode a hex string into bytes -/
def hexBytes? (s : String) : Option (List UInt8) :=
  let rec go : List Char → List UInt8 → Option (List UInt8)
    | [], acc => some acc.reverse
    | [_], _ => none
    | a :: b :: rest, acc => do
      let x ← hexVal a; let y ← hexVal b
      go rest (UInt8.ofNat (x * 16 + y) :: acc)
  go s.toList []

/-- Names travel as `-` (empty) or hex of their UTF-8 bytes; the driver keeps them as the hex text
    itself whenever the model treats names as opaque. -/
def hexDigit (n : Nat) : Char := if n < 10 then Char.ofNat (n + 48) else Char.ofNat (n - 10 + 97)

def toHex (bs : List UInt8) : String :=
  String.ofList (bs.flatMap fun b => [hexDigit (b.toNat / 16), hexDigit (b.toNat % 16)])

def hexOfNat (n : Nat) (width : Nat) : String :=
  let rec go (n : Nat) (k : Nat) (acc : List Char) : List Char :=
    match k with
    | 0 => acc
    | k + 1 => go (n / 16) k (hexDigit (n % 16) :: acc)
  String.ofList (go n width [])

def splitOn (s : String) (sep : String) : List String := s.splitOn sep

def parseInt? (s : String) : Option Int := s.toInt?
def parseNat? (s : String) : Option Nat := s.toNat?

/-- `-` is the empty list; otherwise `sep`-separated items -/
def parseList? {α} (s : String) (sep : String) (f : String → Option α) : Option (List α) :=
  if s == "-" then some [] else (s.splitOn sep).mapM f

def optStr {α} (f : α → String) : Option α → String
  | none => "nil"
  | some a => f a

def joinWith (sep : String) (l : List String) : String := sep.intercalate l

end Driver
