import BurrowVerif.Model.Cluster
import Driver.Util

namespace Driver.ClusterD
open Burrow Burrow.Cluster Driver

abbrev St := Option CState

def kvOf (args : List String) (k : String) : String :=
  match args.find? (fun a => a.startsWith (k ++ "=")) with
  | some a => (a.drop (k.length + 1)).toString
  | none => "-"

/-- topic → partitions with refresh-time leader -/
def parseMeta (s : String) : List (String × List (Int × Option Nat)) :=
  if s == "-" then [] else
  (s.splitOn ";").filterMap fun ts =>
    match ts.splitOn ":" with
    | [t, ps] =>
      let parts := if ps == "" then [] else (ps.splitOn ",").filterMap fun p =>
        match p.splitOn "." with
        | [id, l] => (parseInt? id).map fun id => (id, if l == "-" then none else parseNat? l)
        | _ => none
      some (t, parts)
    | _ => none

def topicNames : List String := ["t0", "t1", "t2", "t3"]
def topicIndex (t : String) : Int := match topicNames.findIdx? (· == t) with | some i => i | none => 9

def insertSorted (x : String) : List String → List String
  | [] => [x]
  | y :: ys => if x < y then x :: y :: ys else y :: insertSorted x ys
def sortS (l : List String) : List String := l.foldl (fun acc x => insertSorted x acc) []
def joinOr (sep : String) (l : List String) : String := if l.isEmpty then "-" else sep.intercalate l

def insertSortedNat (x : Nat × String) : List (Nat × String) → List (Nat × String)
  | [] => [x]
  | y :: ys => if x.1 < y.1 then x :: y :: ys else y :: insertSortedNat x ys

def envOf (rest : List String) : Env :=
  let layout := parseMeta (kvOf rest "meta")
  let terr := kvOf rest "terr" == "1"
  let perr := kvOf rest "perr"
  let lq : List (String × Option Nat) :=
    let v := kvOf rest "lq"
    if v == "-" then [] else (v.splitOn ",").filterMap fun x =>
      match x.splitOn ":" with
      | [tp, l] => some (tp, if l == "-" then none else parseNat? l)
      | _ => none
  let bf : List Nat := let v := kvOf rest "bf"; if v == "-" then [] else (v.splitOn ",").filterMap parseNat?
  let pe : List String := let v := kvOf rest "pe"; if v == "-" then [] else v.splitOn ","
  let base : Int := (parseInt? (kvOf rest "off")).getD 0
  let leaderRefresh (t : String) (p : Int) : Option Nat :=
    match layout.find? (·.1 == t) with
    | some (_, ps) => match ps.find? (·.1 == p) with
      | some (_, l) => l
      | none => none
    | none => none
  { topics := if terr then none else some (layout.map (·.1)),
    partitions := fun t => if perr == t then none else
      match layout.find? (·.1 == t) with
      | some (_, ps) => some (ps.map (·.1))
      | none => some [],
    leaderRefresh,
    leaderRequest := fun t p =>
      match lq.reverse.find? (·.1 == s!"{t}.{p}") with
      | some (_, l) => l
      | none => leaderRefresh t p,
    answer := fun b reqs =>
      if bf.contains b then none else
      some (reqs.map fun (t, p) =>
        (t, p, if pe.contains s!"{t}.{p}" then none else some (base * 1000 + 10 * topicIndex t + p))) }

def showCycle (s' : CState) (out : CycleOut) : String :=
  let asked := (out.asked.foldl (fun acc (b, l) =>
    insertSortedNat (b, s!"{b}:" ++ "+".intercalate (sortS (l.map fun (t, p) => s!"{t}.{p}"))) acc) []).map (·.2)
  let updates := sortS (out.updates.map fun (t, p, o, c) => s!"{t}.{p}.{o}.{c}")
  s!"refresh={if out.refreshed then 1 else 0} deletes={joinOr "," (sortS out.deletes)} asked={joinOr ";" asked} updates={joinOr "," updates} fm={if s'.fetchMetadata then 1 else 0}"

/-- `!` = the call failed / a nil reply; `-` = an empty listing -/
def groupsOf (v : String) : Option (List String) :=
  if v == "!" then none else if v == "-" then some [] else some (v.splitOn ",")

def showLoopOut (s' : CState) : LoopOut → String
  | .cycled o => showCycle s' o
  | .flagged => "ok"
  | .reaped a d => s!"asked={if a then 1 else 0} del={joinOr "," d}"

def step (st : St) (args : List String) : St × String :=
  match args with
  | ["init"] => (some CState.init, "ok")
  | ["init", _] => (some CState.init, "ok")
  | ["move", _] => (st, if st.isSome then "ok" else "bad-op")
  | ["startskipped"] => (st, "start=skipped")
  | "conf" :: rest =>
    -- kafka_cluster.go:58 `Configure`: each refresh interval as set, else its documented default
    let v (k : String) (d : Int) : Int := (parseInt? (kvOf rest k)).getD d
    let c := Cluster.settings (parseInt? (kvOf rest "or")) (parseInt? (kvOf rest "tr")) (parseInt? (kvOf rest "gr"))
    let _ := v
    (st, s!"conf or={c.1} tr={c.2.1} gr={c.2.2}")
  | "start" :: rest =>
    -- the whole module: Start fetches once with fetchMetadata set, then the first offset tick runs one more cycle
    let env := envOf (rest ++ ["terr=0", "perr=-", "lq=-", "bf=-"])
    let outs := runLoop "c0" CState.init [.offset env, .offset env]
    let sEnd := loopState "c0" CState.init [.offset env, .offset env]
    let strip (x : String) : String := ((x.splitOn " fm=").headD x).replace " " "~"
    match outs with
    | [.cycled o1, .cycled o2] =>
      (st, s!"start=ok c1={strip (showCycle sEnd o1)} c2={strip (showCycle sEnd o2)} fm={if sEnd.fetchMetadata then 1 else 0}")
    | _ => (st, "bad-op")
  | ["loop"] => (st, if st.isSome then "ok" else "bad-op")
  | ["stop"] => (st, if st.isSome then "stopped" else "bad-op")
  | "cycle" :: rest =>
    match st with
    | none => (st, "bad-op")
    | some s =>
      let env := envOf rest
      let s := if kvOf rest "tick" == "1" then { s with fetchMetadata := true } else s
      let (s', out) := cycle s env
      (some s', showCycle s' out)
  | "tick" :: kind :: rest =>
    match st with
    | none => (st, "bad-op")
    | some s =>
      let t? : Option Tick := match kind with
        | "offset" => some (.offset (envOf rest))
        | "meta" => some .metadata
        | "reap" => some (.reaper (groupsOf (kvOf rest "kg")) (groupsOf (kvOf rest "sg")))
        | _ => none
      match t? with
      | none => (st, "bad-op")
      | some t =>
        let (s', o) := loopStep "c0" s t
        (some s', showLoopOut s' o)
  | _ => (st, "bad-op")

end Driver.ClusterD
