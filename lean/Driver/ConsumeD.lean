import BurrowVerif.Model.Consume
import Driver.DecodeD

namespace Driver.ConsumeD
open Burrow Burrow.Decode Burrow.Consume Driver

structure St where
  started  : Bool := false
  reported : Option Bytes := none
  cons     : List PC := []

def kvOf (args : List String) (k : String) : String :=
  match args.find? (fun a => a.startsWith (k ++ "=")) with
  | some a => (a.drop (k.length + 1)).toString
  | none => "-"

def pairsOf (v : String) : List (Int × Int) :=
  if v == "-" then [] else (v.splitOn ",").filterMap fun x =>
    match x.splitOn ":" with
    | [p, o] => match parseInt? p, parseInt? o with
      | some p, some o => some (p, o)
      | _, _ => none
    | _ => none

def insertSorted (x : String) : List String → List String
  | [] => [x]
  | y :: ys => if x < y then x :: y :: ys else y :: insertSorted x ys
def sortS (l : List String) : List String := l.foldl (fun acc x => insertSorted x acc) []
def joinOr (l : List String) : String := if l.isEmpty then "-" else ",".intercalate l

def showCons (cs : List PC) : String :=
  joinOr (sortS (cs.map fun c => s!"{c.inst}.{c.partition}.{c.startFrom}.{if c.closed then 1 else 0}"))

def offsetsTopic : Bytes := "__consumer_offsets".toUTF8.toList

def step (st : St) (args : List String) : St × String :=
  match args with
  | "start" :: rest =>
    let parts := kvOf rest "parts"
    let old := pairsOf (kvOf rest "old")
    let nw := pairsOf (kvOf rest "new")
    let fo := parseInt? (kvOf rest "fo")
    let fn := parseInt? (kvOf rest "fn")
    let fp : Nat × Int := match (kvOf rest "fp").splitOn "." with
      | [i, p] => ((parseNat? i).getD 0, (parseInt? p).getD 0)
      | _ => (0, 0)
    let cfg : Cfg := {
      startLatest := kvOf rest "lat" == "1",
      backfill := kvOf rest "bf" == "1",
      partitions := if parts == "!" then none else if parts == "-" then some [] else some ((parts.splitOn ",").filterMap parseInt?),
      oldest := fun p => if fo == some p then none else some ((old.find? (·.1 == p)).map (·.2) |>.getD 0),
      newest := fun p => if fn == some p then none else some ((nw.find? (·.1 == p)).map (·.2) |>.getD 0),
      failConsumer := (parseNat? (kvOf rest "fc")).getD 0,
      failConsume := fp }
    let out := start cfg
    ({ started := true, reported := if kvOf rest "rep" == "1" then some "burrow-kc0".toUTF8.toList else none, cons := out.opened },
     s!"rc={if out.ok then "ok" else "err"} closes={out.closes} cons={showCons out.opened}")
  | "msg" :: rest =>
    if !st.started then (st, "bad-op") else
    match (kvOf rest "c").splitOn "." with
    | [i, p] =>
      match parseNat? i, parseInt? p with
      | some i, some p =>
        match st.cons.find? (fun c => c.inst == i && c.partition == p) with
        | none => (st, "d=nocons")
        | some pc =>
          if !pc.running then (st, "d=blocked") else
          let kind := kvOf rest "kind"
          if kind == "nil" || kind == "err" then (st, "d=sent rep=- reqs=- term=0") else
          match parseInt? (kvOf rest "off"), DecodeD.bytesArg? (kvOf rest "key"), DecodeD.bytesArg? (kvOf rest "val") with
          | some off, some key, some value =>
            let h := handle (fun _ => true) st.reported pc.stopAt { topic := offsetsTopic, partition := p, offset := off, key, value }
            let rep := match h.progress with
              | some (.offset g t pp o _ ord) => s!"O:{DecodeD.hexOrDash g}:{DecodeD.hexOrDash t}:{pp}:{o}:{ord}"
              | _ => "-"
            let reqs := sortS (h.decoded.reqs.map DecodeD.showReq)
            let cons := if h.ends then st.cons.map (fun c => if c.inst == i && c.partition == p then { c with running := false, closed := true } else c) else st.cons
            ({ st with cons }, s!"d=sent rep={rep} reqs={joinOr reqs} term={if h.ends then 1 else 0}" ++ (if h.decoded.panicked then " panic" else ""))
          | _, _, _ => (st, "bad-op")
      | _, _ => (st, "bad-op")
    | _ => (st, "bad-op")
  | ["stop"] =>
    if !st.started then (st, "bad-op") else
    let cons := st.cons.map fun c => if c.running then { c with running := false, closed := true } else c
    ({ st with started := false, cons }, "stopped cons=" ++ showCons cons)
  | _ => (st, "bad-op")

end Driver.ConsumeD
