/-
  C02 — specification vocabulary for the per-partition commit window.
  The *model* of the Go code is `Storage.placeCommit` on `Ring Commit`; here are the incoming-commit
  type, the run function over arrival sequences, and the declarative predicates the theorems use.
-/
import BurrowVerif.Model.Storage

namespace Burrow.Spec.Window
open Burrow Burrow.Storage

/-- an incoming commit, as `addConsumerOffset` hands it to the ring code -/
structure In where
  broker : Int     -- broker end offset known when the commit arrives (only the lag depends on it)
  offset : Int
  order  : Int     -- position in the offsets log
  ts     : Int
  deriving Repr, DecidableEq, Inhabited

/-- what must not depend on arrival order: offset, position, timestamp -/
def In.key (c : In) : Int × Int × Int := (c.offset, c.order, c.ts)
def key (c : Commit) : Int × Int × Int := (c.offset, c.order, c.ts)

/-- one arrival; `none` = the model ran out of fuel (theorem `window_inv`: never) -/
def stepRing (minDistance : Int) (r : Ring Commit) (c : In) : Option (Ring Commit) :=
  (placeCommit r minDistance c.broker c.offset c.order c.ts).map (·.1)

/-- a whole arrival sequence into a fresh ring of `N` slots -/
def runRing (N : Nat) (minDistance : Int) (cs : List In) : Option (Ring Commit) :=
  cs.foldlM (stepRing minDistance) (Ring.new N)

/-- the commits held by a window, oldest first -/
def stored (w : List (Option Commit)) : List Commit := w.filterMap id

/-- the window shape promised by C02: unfilled slots only at the front, then commits strictly
    increasing in log position (hence no duplicates, newest last), `N` slots in all -/
def WF (N : Nat) (w : List (Option Commit)) : Prop :=
  ∃ (k : Nat) (cs : List Commit), w = List.replicate k none ++ cs.map some ∧ k + cs.length = N ∧
    cs.Pairwise (fun a b => a.order < b.order)

/-- a log position identifies a record -/
def Functional (cs : List In) : Prop :=
  ∀ a ∈ cs, ∀ b ∈ cs, a.order = b.order → a.offset = b.offset ∧ a.ts = b.ts

/-- commit timestamps do not decrease along the log -/
def TsMono (cs : List In) : Prop :=
  ∀ a ∈ cs, ∀ b ∈ cs, a.order < b.order → a.ts ≤ b.ts

/-- `st` is exactly the newest (at most `N`) of the commits seen, ranked by log position -/
def IsTopN (N : Nat) (seen : List In) (st : List Commit) : Prop :=
  st.Pairwise (fun a b => a.order < b.order) ∧
  st.length ≤ N ∧
  (∀ c ∈ st, ∃ s ∈ seen, s.key = key c) ∧
  (∀ s ∈ seen, (∃ c ∈ st, c.order = s.order) ∨ (st.length = N ∧ ∀ c ∈ st, s.order < c.order))

/-- The stored commit a newcomer may merge into: its predecessor, i.e. the nearest older stored
    commit — with one exception the code makes and the theorem states: a newcomer that is *not* the
    newest and whose predecessor is the oldest entry of a *full* window replaces that entry outright
    (there is no slot to save: the oldest entry leaves the window either way).
    `w` is a read-out, oldest first; its head is `some _` exactly when the window is full. -/
def MergePred (w : List (Option Commit)) (order : Int) (p : Commit) : Prop :=
  p ∈ stored w ∧ p.order < order ∧ (∀ q ∈ stored w, q.order < order → q.order ≤ p.order) ∧
  ¬ (w.head?.join = some p ∧ ∃ q ∈ stored w, order < q.order)

/-- the newcomer is dropped: already stored, or older than everything in a full window -/
def Dropped (w : List (Option Commit)) (order : Int) : Prop :=
  (∃ q ∈ stored w, q.order = order) ∨ (∃ o, w.head?.join = some o ∧ order ≤ o.order)

/-! ### The abstract step: what one arriving commit does to a window, as a function on plain
    oldest-first lists (no ring, no pointer).  `Proofs/Ring.lean` proves that the pointer-level model
    of the Go code refines it (`refine_step`); every C01/C02 property is then a fact about lists. -/

/-- the stored form of an arriving commit; it carries a lag only when it arrives as the newest -/
def mkCommit (c : In) (ts : Int) (isNewest : Bool) : Commit :=
  { offset := c.offset, order := c.order, ts, lag := if isNewest then some (lagAt c.broker c.offset) else none }

def specStep (md : Int) (w : List (Option Commit)) (c : In) : List (Option Commit) :=
  let st := stored w
  let k := w.length - st.length
  let dup := st.any fun q => q.order == c.order
  let tooOld : Bool := match w.head?.join with
    | some o => decide (c.order ≤ o.order)
    | none => false
  if dup || tooOld then w
  else
    let older := st.filter fun q => q.order < c.order
    let newer := st.filter fun q => c.order < q.order
    let isNewest := newer.isEmpty
    let insert : List (Option Commit) :=
      let st' := older ++ [mkCommit c c.ts isNewest] ++ newer
      if k > 0 then List.replicate (k - 1) none ++ st'.map some else (st'.drop 1).map some
    match older.getLast? with
    | none => insert
    | some p =>
      let evictedAnyway : Bool := k == 0 && older.length == 1 && !isNewest
      if !evictedAnyway && decide (c.ts - p.ts < md * 1000) then
        List.replicate k none ++ (older.dropLast ++ [mkCommit c p.ts isNewest] ++ newer).map some
      else insert

/-- the refinement statement proved in `Proofs/Ring.lean` (`refine_step`); the list-level
    development in `Proofs/Window.lean` / `Proofs/Lag.lean` is parameterised by it -/
def RefineStep : Prop :=
  ∀ (N : Nat), 1 ≤ N → ∀ (md : Int) (r : Ring Commit) (c : In), r.len = N → WF N r.readout →
    ∃ r', stepRing md r c = some r' ∧ r'.len = N ∧ r'.readout = specStep md r.readout c

end Burrow.Spec.Window
