/-
  C09 / C10 — vocabulary for statements about storage states and histories.
-/
import BurrowVerif.Model.Storage

namespace Burrow.Spec.Storage
open Burrow Burrow.Storage

/-- a Go map has one value per key -/
def KeysNodup {β : Type} (l : List (String × β)) : Prop := (l.map (·.1)).Nodup

/-- every map of the store has one value per key (holds initially, preserved by every request) -/
def WF (s : Store) : Prop :=
  KeysNodup s.clusters ∧
  ∀ cn cm, (cn, cm) ∈ s.clusters →
    KeysNodup cm.broker ∧ KeysNodup cm.consumer ∧
    ∀ gn g, (gn, g) ∈ cm.consumer → KeysNodup g.topics

/-- the state-changing requests (fetches other than the consumer detail are pure functions) -/
inductive Op where
  | broker (r : Request)
  | commit (now : Int) (r : Request)
  | owner (r : Request)
  | clear (r : Request)
  | deleteTopic (r : Request)
  | deleteGroup (r : Request)
  | fetchConsumer (now : Int) (cluster group : String)
  deriving Repr, Inhabited

def apply (s : Store) : Op → Store
  | .broker r => (addBrokerOffset s r).1
  | .commit now r => (addConsumerOffset s now r).1
  | .owner r => (addConsumerOwner s r).1
  | .clear r => (clearConsumerOwners s r).1
  | .deleteTopic r => (deleteTopic s r).1
  | .deleteGroup r => (deleteGroup s r).1
  | .fetchConsumer now c g => (fetchConsumer s now c g).1

def run (s : Store) (ops : List Op) : Store := ops.foldl apply s

/-- the consumer groups storage tracks, per cluster -/
def groupsOf (s : Store) (cluster : String) : List String := (fetchConsumerList s cluster).getD []

/-- the consumer detail a client sees (second component of `fetchConsumer`) -/
def detail (s : Store) (now : Int) (cluster group : String) : FetchResult := (fetchConsumer s now cluster group).2

/-- a detail reply with one topic removed -/
def _root_.Burrow.Storage.FetchResult.eraseTopic (t : String) : FetchResult → FetchResult
  | .found topics => .found (aerase t topics)
  | r => r

/-- does a detail reply mention topic `t`? -/
def _root_.Burrow.Storage.FetchResult.hasTopic (t : String) : FetchResult → Bool
  | .found topics => (alookup t topics).isSome
  | _ => false

/-- an op that can create the group `(cluster, group)`: a commit or an ownership update naming it -/
def Op.creates (cluster group : String) : Op → Bool
  | .commit _ r => r.cluster == cluster && r.group == group
  | .owner r => r.cluster == cluster && r.group == group
  | _ => false

def Op.request? : Op → Option Request
  | .broker r | .commit _ r | .owner r | .clear r | .deleteTopic r | .deleteGroup r => some r
  | .fetchConsumer .. => none

end Burrow.Spec.Storage
