/-
  C11 / C12 — vocabulary for statements about refresh cycles of the cluster module.
-/
import BurrowVerif.Model.Cluster

namespace Burrow.Spec.Cluster
open Burrow Burrow.Cluster

/-- a broker that answers, answers exactly the partitions it was asked, each once, in order -/
def Faithful (env : Env) : Prop :=
  ∀ (b : Nat) (reqs : List (String × Int)) (resp : List (String × Int × Option Int)),
    env.answer b reqs = some resp → resp.map (fun x => (x.1, x.2.1)) = reqs

/-- one entry per topic, each partition listed once -/
def SnapNodup (snap : Snapshot) : Prop :=
  (snap.map (·.1)).Nodup ∧ ∀ e ∈ snap, e.2.1.Nodup

/-- the snapshot the offset requests of this cycle are built from -/
def snapUsed (s : CState) (env : Env) : Snapshot := ((maybeUpdate s env).1.snapshot).getD []

/-- partitions asked of broker `b` in this cycle -/
def askedOf (out : CycleOut) (b : Nat) : List (String × Int) :=
  (out.asked.filter (·.1 == b)).flatMap (·.2)

/-- this cycle re-reads metadata and the re-read completes: the topic list and every partition list
    are answered -/
def CompleteRefresh (s : CState) (env : Env) (ts : List String) : Prop :=
  s.fetchMetadata = true ∧ env.topics = some ts ∧ ∀ t ∈ ts, (env.partitions t).isSome

/-- state before cycle `k` of a run, metadata tick of that cycle applied -/
def stateBefore : CState → List (Bool × Env) → Nat → CState
  | s, [], _ => s
  | s, (tick, _) :: _, 0 => if tick then { s with fetchMetadata := true } else s
  | s, (tick, env) :: rest, k + 1 =>
    let s := if tick then { s with fetchMetadata := true } else s
    stateBefore (cycle s env).1 rest k

end Burrow.Spec.Cluster
