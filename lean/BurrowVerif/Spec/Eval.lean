/-
  C03 — the documented lag rules, stated declaratively (quantifiers over window indices instead of
  loops).  This file is the *specification*; `Model/Eval.lean` is the model of the Go code;
  `Props/C03.lean` proves that they agree on every input.
-/
import BurrowVerif.Model.Basic

namespace Burrow.Spec.Eval
open Burrow

/-- "the time since the last commit exceeds the time spanned by the window" -/
def Stopped (w : List Commit) (now : Int) : Prop :=
  ∃ first last, w.head? = some first ∧ w.getLast? = some last ∧
    now * 1000 - last.ts > last.ts - first.ts

/-- "a recent broker offset was at or below the last commit" -/
def RecentZero (w : List Commit) (brokerOffsets : List Int) : Prop :=
  ∃ last, w.getLast? = some last ∧ ∃ b ∈ brokerOffsets, b ≤ last.offset

/-- `i` is a backwards step of the window. -/
def BackwardsAt (w : List Commit) (i : Nat) : Prop :=
  ∃ a b, 1 ≤ i ∧ w[i - 1]? = some a ∧ w[i]? = some b ∧ b.offset < a.offset

/-- "a backwards commit not yet recovered": the *first* backwards step `i` of the window, and no
    later commit has come back to the offset held just before it. -/
def FirstRewindUnrecovered (w : List Commit) : Prop :=
  ∃ i a, BackwardsAt w i ∧ (∀ j, j < i → ¬ BackwardsAt w j) ∧ w[i - 1]? = some a ∧
    ∀ j c, i ≤ j → w[j]? = some c → c.offset < a.offset

/-- "any stored commit had lag within the allowed lag" -/
def SomeLagWithin (w : List Commit) (allowed : Nat) : Prop :=
  ∃ c ∈ w, ∃ l, c.lag = some l ∧ l ≤ allowed

/-- "the offset never changed" -/
def NeverChanged (w : List Commit) : Prop :=
  ∀ i a b, 1 ≤ i → w[i - 1]? = some a → w[i]? = some b → b.offset = a.offset

/-- "lag never decreased": consecutive *present* lag values are non-decreasing. -/
def LagNeverDecreased (w : List Commit) : Prop :=
  let ls := w.filterMap (·.lag)
  ∀ i a b, ls[i]? = some a → ls[i + 1]? = some b → a ≤ b

open Classical in
/-- The documented procedure (C03 statement), rule by rule, in order. -/
noncomputable def status (w : List Commit) (brokerOffsets : List Int) (currentLag allowedLag : Nat)
    (now : Int) : Status :=
  if currentLag ≤ allowedLag then .ok
  else if Stopped w now ∧ ¬ RecentZero w brokerOffsets then .stop
  else if FirstRewindUnrecovered w then .rewind
  else if SomeLagWithin w allowedLag then .ok
  else if NeverChanged w then .stall
  else if LagNeverDecreased w then .warn
  else .ok

/-- shifting all commit offsets by a constant -/
def shiftOffsets (k : Int) (w : List Commit) : List Commit :=
  w.map fun c => { c with offset := c.offset + k }

/-- shifting all commit timestamps by a constant (milliseconds) -/
def shiftTimes (d : Int) (w : List Commit) : List Commit :=
  w.map fun c => { c with ts := c.ts + d }

end Burrow.Spec.Eval
