/-
  C07 — the Kafka `__consumer_offsets` record formats Burrow supports, written as *encoders* from
  structured messages (transcribed from the Kafka protocol definitions: OffsetCommitKey v0/v1,
  OffsetCommitValue v0/v1/v3, GroupMetadataKey v2, GroupMetadataValue v0–v3, ConsumerProtocol
  assignment v0+).  The theorems in `Props/C07.lean` are round trips: decode (model of the Go code)
  after encode (this file) yields exactly the storage requests the property promises.
-/
import BurrowVerif.Model.Decode

namespace Burrow.Spec.Wire
open Burrow Burrow.Decode

/-- fixed-width big-endian encoding of a natural number -/
def encNat : Nat → Nat → Bytes
  | 0, _ => []
  | w + 1, n => UInt8.ofNat (n / 256 ^ w % 256) :: encNat w n

/-- two's-complement big-endian encoding of an integer in `8*w` bits -/
def encInt (w : Nat) (x : Int) : Bytes := encNat w (x % (2 : Int) ^ (8 * w)).toNat

def encI16 := encInt 2
def encI32 := encInt 4
def encI64 := encInt 8

def InRange (w : Nat) (x : Int) : Prop := -(2 : Int) ^ (8 * w - 1) ≤ x ∧ x < (2 : Int) ^ (8 * w - 1)

/-- Kafka nullable string: length -1 for null -/
def encString : Option Bytes → Bytes
  | none => encI16 (-1)
  | some b => encI16 b.length ++ b

/-- Kafka bytes field: int32 length + data -/
def encBytes (b : Bytes) : Bytes := encI32 b.length ++ b

def strOK (s : Option Bytes) : Prop := match s with | none => True | some b => b.length < 2 ^ 15

/-- what Burrow makes of a nullable string -/
def strVal (s : Option Bytes) : Bytes := s.getD []

/-! ### offset commit -/

structure OffsetCommit where
  keyVersion   : Int            -- 0 or 1
  group        : Option Bytes
  topic        : Option Bytes
  partition    : Int
  valueVersion : Int            -- 0, 1 or 3
  offset       : Int
  leaderEpoch  : Int            -- v3 only
  metadata     : Option Bytes
  timestamp    : Int
  -- value v1 carries an expire timestamp after the commit timestamp; Burrow never reads it, so it
  -- is part of the "trailing bytes" the round-trip theorems quantify over (`rest₂`)
  deriving Repr, DecidableEq, Inhabited

def OffsetCommit.WF (m : OffsetCommit) : Prop :=
  (m.keyVersion = 0 ∨ m.keyVersion = 1) ∧ (m.valueVersion = 0 ∨ m.valueVersion = 1 ∨ m.valueVersion = 3) ∧
  strOK m.group ∧ strOK m.topic ∧ strOK m.metadata ∧
  InRange 4 m.partition ∧ InRange 8 m.offset ∧ InRange 4 m.leaderEpoch ∧ InRange 8 m.timestamp

def OffsetCommit.encKey (m : OffsetCommit) : Bytes :=
  encI16 m.keyVersion ++ encString m.group ++ encString m.topic ++ encI32 m.partition

def OffsetCommit.encValue (m : OffsetCommit) : Bytes :=
  encI16 m.valueVersion ++ encI64 m.offset ++
  (if m.valueVersion = 3 then encI32 m.leaderEpoch else []) ++
  encString m.metadata ++ encI64 m.timestamp

/-! ### group metadata -/

structure Assignment where
  version  : Int                               -- consumer protocol version, ≥ 0
  topics   : List (Option Bytes × List Int)
  userData : Option Bytes                      -- null = length -1
  deriving Repr, DecidableEq, Inhabited

def Assignment.enc (a : Assignment) : Bytes :=
  encI16 a.version ++ encI32 a.topics.length ++
  (a.topics.flatMap fun (t, ps) => encString t ++ encI32 ps.length ++ ps.flatMap encI32) ++
  (match a.userData with | none => encI32 (-1) | some d => encBytes d)

structure MemberMsg where
  memberID         : Option Bytes
  groupInstanceID  : Option Bytes              -- value version 3 only
  clientID         : Option Bytes
  clientHost       : Option Bytes
  rebalanceTimeout : Int                       -- value version ≥ 1 only
  sessionTimeout   : Int
  subscription     : Bytes
  assignment       : Option Assignment         -- none = zero-length assignment bytes
  deriving Repr, DecidableEq, Inhabited

def MemberMsg.enc (version : Int) (m : MemberMsg) : Bytes :=
  encString m.memberID ++
  (if version = 3 then encString m.groupInstanceID else []) ++
  encString m.clientID ++ encString m.clientHost ++
  (if version ≥ 1 then encI32 m.rebalanceTimeout else []) ++
  encI32 m.sessionTimeout ++ encBytes m.subscription ++
  (match m.assignment with | none => encI32 0 | some a => encBytes a.enc)

structure GroupMetadata where
  group        : Option Bytes
  version      : Int                           -- value version 0..3
  protocolType : Option Bytes
  generation   : Int
  protocol     : Option Bytes
  leader       : Option Bytes
  stateTimestamp : Int                         -- value version ≥ 2 only
  members      : List MemberMsg
  deriving Repr, DecidableEq, Inhabited

def GroupMetadata.encKey (m : GroupMetadata) : Bytes := encI16 2 ++ encString m.group

def GroupMetadata.encValue (m : GroupMetadata) : Bytes :=
  encI16 m.version ++ encString m.protocolType ++ encI32 m.generation ++ encString m.protocol ++
  encString m.leader ++ (if m.version ≥ 2 then encI64 m.stateTimestamp else []) ++
  encI32 m.members.length ++ m.members.flatMap (MemberMsg.enc m.version)

def Assignment.WF (a : Assignment) : Prop :=
  0 ≤ a.version ∧ a.version < 2 ^ 15 ∧ a.topics.length < 2 ^ 31 ∧
  (∀ tp ∈ a.topics, strOK tp.1 ∧ tp.2.length < 2 ^ 31 ∧ ∀ p ∈ tp.2, InRange 4 p) ∧
  (a.topics.map (fun tp => strVal tp.1)).Nodup ∧
  (match a.userData with | none => True | some d => d.length < 2 ^ 31) ∧
  a.enc.length < 2 ^ 31

def MemberMsg.WF (m : MemberMsg) : Prop :=
  strOK m.memberID ∧ strOK m.groupInstanceID ∧ strOK m.clientID ∧ strOK m.clientHost ∧
  InRange 4 m.rebalanceTimeout ∧ InRange 4 m.sessionTimeout ∧ m.subscription.length < 2 ^ 31 ∧
  (match m.assignment with | none => True | some a => a.WF)

def GroupMetadata.WF (m : GroupMetadata) : Prop :=
  (m.version = 0 ∨ m.version = 1 ∨ m.version = 2 ∨ m.version = 3) ∧
  strOK m.group ∧ strOK m.protocolType ∧ strOK m.protocol ∧ strOK m.leader ∧
  InRange 4 m.generation ∧ InRange 8 m.stateTimestamp ∧ m.members.length < 2 ^ 31 ∧
  ∀ mm ∈ m.members, mm.WF

/-- the owner updates the property promises for one member: one per assigned topic-partition -/
def MemberMsg.owners (group : Bytes) (m : MemberMsg) : List Req :=
  match m.assignment with
  | none => []
  | some a => a.topics.flatMap fun (t, ps) =>
      ps.map fun p => Req.owner group (strVal t) p (strVal m.clientHost) (strVal m.clientID)

/-- bound on requested allocation (C06): proportional to the message, plus one maximal string -/
def allocA : Nat := 100
def allocB : Nat := 65536

end Burrow.Spec.Wire
