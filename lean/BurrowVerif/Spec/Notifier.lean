/-
  C13 / C14 — vocabulary for statements about evaluation histories of one group.
-/
import BurrowVerif.Model.Notifier

namespace Burrow.Spec.Notifier
open Burrow Burrow.Notifier

/-- notifications emitted at evaluation `i` of the history -/
def notesAt (cfgs : List ModuleCfg) (evs : List Ev) (i : Nat) : List Notification :=
  ((runG cfgs GroupRec.fresh evs)[i]?).getD []

/-- every evaluation at positions `i ≤ k < j` is worse than OK -/
def AllBad (evs : List Ev) (i j : Nat) : Prop :=
  ∀ (k : Nat) (e : Ev), i ≤ k → k < j → evs[k]? = some e → e.status > .ok

/-- no evaluation at positions `i ≤ k < j` is OK (evaluations that found nothing — NOTFOUND — are
    dropped by the response loop before they reach the incident logic; the model tolerates them) -/
def NoOk (evs : List Ev) (i j : Nat) : Prop :=
  ∀ (k : Nat) (e : Ev), i ≤ k → k < j → evs[k]? = some e → e.status ≠ .ok

/-- evaluation `i` opens an incident: worse than OK, and the first evaluation or right after an OK -/
def Opens (evs : List Ev) (i : Nat) : Prop :=
  (∃ e, evs[i]? = some e ∧ e.status > .ok) ∧
  (i = 0 ∨ ∃ e, evs[i - 1]? = some e ∧ e.status = .ok)

/-- the clock does not run backwards along the history -/
def TimeMono (evs : List Ev) : Prop :=
  ∀ (a b : Nat) (ea eb : Ev), a ≤ b → evs[a]? = some ea → evs[b]? = some eb → ea.now ≤ eb.now

/-- the environment never hands out the same event id twice (random v4 UUIDs: assumption) -/
def FreshIds (evs : List Ev) : Prop := (evs.map (·.freshId)).Nodup

def NamesNodup (cfgs : List ModuleCfg) : Prop := (cfgs.map (·.name)).Nodup

/-! several groups interleaved -/

/-- a mixed history: which group each evaluation result is about -/
abbrev Hist := List ((String × String) × Ev)

def run (cfgs : List ModuleCfg) : NState → Hist → List (List Notification)
  | _, [] => []
  | s, (k, e) :: rest => let (s', ns) := step cfgs s k e; ns :: run cfgs s' rest

/-- the outputs of a mixed run at the positions that concern group `k` -/
def project (k : String × String) : Hist → List (List Notification) → List (List Notification)
  | (k', _) :: h, ns :: out => if k' = k then ns :: project k h out else project k h out
  | _, _ => []

def eventsOf (k : String × String) (h : Hist) : List Ev := (h.filter (·.1 = k)).map (·.2)

end Burrow.Spec.Notifier
