/-
  C20 — what the property says about the data handed to notification templates, and the status
  invariant under which "every shipped template renders for every status" is claimed.
-/
import BurrowVerif.Model.Tmpl
import BurrowVerif.Model.Group

namespace Burrow.Spec.Tmpl
open Burrow Burrow.Tmpl

/-- the fields the property promises on the template data -/
def documentedFields : List String := ["Cluster", "Group", "ID", "Start", "Extras", "Result"]

/-- the helper functions Burrow documents for templates (sorted) -/
def documentedHelpers : List String :=
  ["add", "divide", "formattimestamp", "jsonencoder", "maxlag", "minus", "multiply", "partitioncounts", "topicsbystatus"]

def nonNil : Ty → Ty
  | .ptr t => .ref t
  | t => t

/-- **The status invariant**, as a refinement of the schema generated from the Go types: the entries of
    `Result.Partitions` (the partitions that are not OK — the notifier asks for the problems-only
    view) are non-nil and carry non-nil `Start` and `End`; `Maxlag` stays an ordinary nullable
    partition whose `Start`/`End` may be nil.  Everything else is the Go type. -/
def refine (σ : Schema) : Schema :=
  match σ.lookup "PartitionStatus" with
  | none => σ
  | some d =>
    ("ProblemPartition",
      { d with fields := d.fields.map fun ft => if ft.1 = "Start" ∨ ft.1 = "End" then (ft.1, nonNil ft.2) else ft }) ::
    σ.map fun nd =>
      if nd.1 = "ConsumerGroupStatus" then
        (nd.1, { nd.2 with fields := nd.2.fields.map fun ft =>
          if ft.1 = "Partitions" then (ft.1, .slice (.ref (.named "ProblemPartition"))) else ft })
      else nd

/-! ### embedding of the evaluator model's results into the template universe -/

/-- what `executeTemplate` receives besides the status -/
structure Notification where
  id     : String
  start  : Int
  extras : List (String × String)
  cluster : String
  group   : String
  result : Group.GroupStatus

/-- renderings the model does not fix: float32 bit patterns of completeness values and the
    `ObservedTimestamp` of a commit (no property constrains either) -/
structure Opaque where
  f32 : Nat × Nat → Nat
  obs : Commit → Int

def commitVal (o : Opaque) : Option Commit → Val
  | none => .nil
  | some c =>
    .ref (.obj "ConsumerOffset" [("Offset", .int 64 c.offset), ("Order", .int 64 c.order), ("Timestamp", .int 64 c.ts),
      ("ObservedTimestamp", .int 64 (o.obs c)),
      ("Lag", match c.lag with | none => .nil | some l => .ref (.obj "Lag" [("Value", .uint l)]))])

def partVal (o : Opaque) (p : Group.PStat) : Val :=
  .ref (.obj "PartitionStatus" [("Topic", .str p.topic), ("Partition", .int 32 p.partition), ("Owner", .str p.owner),
    ("ClientID", .str p.clientID), ("Status", .status p.st.status.toNat), ("Start", commitVal o p.st.start),
    ("End", commitVal o p.st.end), ("CurrentLag", .uint p.st.currentLag), ("Complete", .float (o.f32 p.st.complete))])

def resultVal (o : Opaque) (cluster group : String) (g : Group.GroupStatus) : Val :=
  .obj "ConsumerGroupStatus" [("Cluster", .str cluster), ("Group", .str group), ("Status", .status g.status.toNat),
    ("Complete", .float (o.f32 g.complete)), ("Partitions", .list (g.partitions.map (partVal o))),
    ("TotalPartitions", .int 0 g.totalPartitions),
    ("Maxlag", match g.maxlag with | none => .nil | some p => partVal o p), ("TotalLag", .uint g.totalLag)]

def dataVal (o : Opaque) (n : Notification) : Val :=
  .obj "Data" [("Cluster", .str n.cluster), ("Group", .str n.group), ("ID", .str n.id), ("Start", .time n.start),
    ("Extras", .map n.extras), ("Result", resultVal o n.cluster n.group n.result)]

/-- the invariant on the evaluator's side: a listed partition that is not OK has a first and a last commit -/
def ProblemsHaveEnds (g : Group.GroupStatus) : Prop :=
  ∀ p ∈ g.partitions, p.st.start.isSome ∧ p.st.end.isSome

end Burrow.Spec.Tmpl
