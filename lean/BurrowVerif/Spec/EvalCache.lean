/-
  C05 — vocabulary: histories of status requests against a storage that changes over time.
-/
import BurrowVerif.Model.EvalCache

namespace Burrow.Spec.EvalCache
open Burrow Burrow.EvalCache

variable {R : Type}

/-- a status request: when, for which cluster and group -/
structure Req where
  now     : Int
  cluster : Name
  group   : Name

/-- replies to a sequence of requests; `eval t cluster group` is what evaluating storage at time `t`
    yields for that group (`none` = no live data: unknown cluster, unknown or expired group) -/
def runQ (cfg : Cfg) (eval : Int → Name → Name → Option R) : Cache R → List Req → List (Reply R)
  | _, [] => []
  | c, q :: rest =>
    let (c', rep) := getConsumerStatus cfg c q.now q.cluster q.group (eval q.now) id
    rep :: runQ cfg eval c' rest

/-- requests arrive in time order -/
def TimeMono (qs : List Req) : Prop :=
  ∀ (a b : Nat) (qa qb : Req), a ≤ b → qs[a]? = some qa → qs[b]? = some qb → qa.now ≤ qb.now

end Burrow.Spec.EvalCache
