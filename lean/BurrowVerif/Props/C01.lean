/-
  C01 — Reported lag is exact and never negative.  Property theorems only.
-/
import BurrowVerif.Proofs.Lag
import BurrowVerif.Proofs.Ring

namespace Burrow.Props.C01
open Burrow Burrow.Storage Burrow.Spec.Window

/-- The clamp-and-subtract of the Go code is the mathematical `max 0 (broker - offset)` and never the
    wrapped value, for non-negative int64 offsets (what Kafka can produce). -/
theorem lagAt_exact (b o : Int) (hb : 0 ≤ b) (ho : 0 ≤ o) (hb64 : I64 b) (ho64 : I64 o) :
    lagAt b o = (b - o).toNat ∧ lagAt b o < 2 ^ 63 :=
  Proofs.Lag.lagAt_exact b o hb ho hb64 ho64

/-- Why the non-negativity hypothesis is there: the subtraction wraps outside it. -/
theorem wrap_witness : lagAt (2 ^ 63 - 1) (-1) = 2 ^ 63 := by decide

/-- Fetch time (inmemory.go:858-881), any storage state whatsoever: a listed partition whose window
    has a newest commit `c`, on a topic whose broker ring for that partition has newest value `b`,
    is reported with current lag `max 0 (b - c.offset)`, never wrapped. -/
theorem currentLag_exact (topicMap : List (Ring BrokerOffset)) (p : Nat) (part part' : Eval.Partition)
    (bring : Ring BrokerOffset) (b : BrokerOffset) (c : Commit)
    (hring : topicMap[p]? = some bring) (hlen : 0 < bring.len) (hb : bring.get 0 = some b)
    (hc : part.offsets.getLast? = some (some c))
    (hb0 : 0 ≤ b.offset) (hc0 : 0 ≤ c.offset) (hb64 : I64 b.offset) (hc64 : I64 c.offset)
    (hpass : lagPass topicMap p part = some part') :
    part'.currentLag = (b.offset - c.offset).toNat ∧ part'.currentLag < 2 ^ 63 ∧
    part'.offsets = part.offsets :=
  Proofs.Lag.currentLag_exact topicMap p part part' bring b c hring hlen hb hc hb0 hc0 hb64 hc64 hpass

/-- A listed partition without any commit (no window, or a window with no newest entry) has
    current lag 0 — never a guessed value. -/
theorem no_commit_zero (topicMap : List (Ring BrokerOffset)) (p : Nat) (part part' : Eval.Partition)
    (h0 : part.currentLag = 0) (hc : part.offsets.getLast?.join = none)
    (hpass : lagPass topicMap p part = some part') : part'.currentLag = 0 :=
  Proofs.Lag.no_commit_zero topicMap p part part' h0 hc hpass

/-- One arrival (any ring size, any minimum distance): every stored commit afterwards is either a
    commit that was stored before, untouched (lag included), or the arriving commit — and that one
    carries a lag exactly when it arrived as the newest in the log, computed against the broker end
    offset known at that moment; a commit that arrived out of order carries none. -/
theorem commitLag_at_arrival (N : Nat) (hN : 1 ≤ N) (md : Int) (r r' : Ring Commit) (c : In)
    (hlen : r.len = N) (hwf : WF N r.readout) (hstep : stepRing md r c = some r') :
    ∀ q ∈ stored r'.readout, q ∈ stored r.readout ∨
      (q.order = c.order ∧ q.offset = c.offset ∧
        q.lag = if (∀ o ∈ stored r.readout, o.order < c.order) then some (lagAt c.broker c.offset) else none) :=
  Proofs.Lag.commitLag_at_arrival Proofs.Ring.refine_step N hN md r r' c hlen hwf hstep

/-- Whole histories: every lag value in the window is the clamp-and-subtract of some arrival of that
    very commit (same position, same offset) against the broker offset known at that arrival. -/
theorem storedLag_has_origin (N : Nat) (hN : 1 ≤ N) (md : Int) (cs : List In) (r : Ring Commit)
    (hr : runRing N md cs = some r) :
    ∀ q ∈ stored r.readout, ∀ l, q.lag = some l →
      ∃ c ∈ cs, c.order = q.order ∧ c.offset = q.offset ∧ l = lagAt c.broker c.offset :=
  Proofs.Lag.storedLag_has_origin Proofs.Ring.refine_step N hN md cs r hr

/-- The commit-time broker lookup returns the newest recorded broker value (inmemory.go:317-343). -/
theorem getBrokerOffset_newest (cm : Cluster) (topic : String) (partition : Int) (off : Int) (n : Nat)
    (h : getBrokerOffset cm topic partition = (off, n)) (hn : n ≠ 0) :
    ∃ l ring b, alookup topic cm.broker = some l ∧ 0 ≤ partition ∧ l[partition.toNat]? = some ring ∧
      ring.get 0 = some b ∧ off = b.offset ∧ n = l.length :=
  Proofs.Lag.getBrokerOffset_newest cm topic partition off n h hn

/-! ### Non-vacuity -/

-- three commits (one out of order) and two broker updates: lags 9000 / none (out of order) / 7000
example :
    (runRing 4 0 [⟨10000, 1000, 10, 100⟩, ⟨10000, 3000, 30, 300⟩, ⟨10500, 2000, 20, 200⟩]).map
      (fun r => (stored r.readout).map (·.lag)) = some [some 9000, none, some 7000] := by decide

-- consumer ahead of the broker: zero, not 2^64 - 50
example : lagAt 100 150 = 0 := by decide

end Burrow.Props.C01
