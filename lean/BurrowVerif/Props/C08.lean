/-
  C08 — Storage stays safe, ordered and snapshot-consistent under concurrency.  Property theorems only.

  Three layers (DESIGN 4.8):
  1. a generic lock-discipline theorem over an abstract machine of workers executing handler paths
     (`Proofs/Locks.lean`): excluded accesses are never simultaneous;
  2. the discipline, balance and acquisition order are CHECKED (`decide`) on the lock skeleton of the
     storage handlers REGENERATED from inmemory.go on every run (every control-flow path of every
     handler, helpers inlined), together with the routing table of mainLoop;
  3. the read path is total: the lag pass of fetchConsumer succeeds on EVERY pair of consumer snapshot
     and broker state, so no interleaving of topic deletion, re-creation, commits and reads between
     its two critical sections makes a read fail.
-/
import BurrowVerif.Generated.NotifierLoop
import BurrowVerif.Proofs.Locks
import BurrowVerif.Proofs.LocksProgress
import BurrowVerif.Generated.StorageLocks
import BurrowVerif.Model.Storage

namespace Burrow.Props.C08
open Burrow Burrow.Locks Burrow.Generated Burrow.Storage

/-- **the handlers follow the lock discipline**: over the generated skeleton, every two conflicting
    accesses to the broker map, the group map, a group's topics or its last-commit time hold a common
    lock with one side writing it, or concern one group's state from handlers serialised on that group's
    worker.  (On the tree before the repairs this was refuted: deleteTopic walked the group map with no
    lock, and deleteGroup wrote a group's topics under the map lock while deleteTopic wrote them under
    the group lock.) -/
theorem handlers_disciplined : disciplined storageHandlers = true := by decide

/-- every path releases what it acquires, never locks a lock it holds, never unlocks one it does not -/
theorem paths_balanced : allBalanced storageHandlers = true := by decide

/-- nested acquisition is always consumer-map lock before group lock; the broker lock is taken with
    nothing else held: the acquisition order is acyclic (no deadlock by lock ordering) -/
theorem acquisition_ordered : allOrdered storageHandlers = true := by decide

/-- every control-flow path of every storage handler, as generated -/
def storagePaths : List (List Ev) := storageHandlers.flatMap (·.2.2.2)

theorem storage_paths_good : ∀ p ∈ storagePaths, balancedFrom [] p = true ∧ ordBy rank [] p = true := by
  intro p hp
  simp only [storagePaths, List.mem_flatMap] at hp
  obtain ⟨h, hh, hp⟩ := hp
  have hb := List.all_eq_true.mp (List.all_eq_true.mp paths_balanced h hh) p hp
  have ho := List.all_eq_true.mp (List.all_eq_true.mp acquisition_ordered h hh) p hp
  exact ⟨hb, ordBy_of_orderedFrom p [] ho⟩

/-- **no deadlock**: in the machine whose workers run the generated handler paths — any number of
    workers, any assignment of requests, locks granted with Go's writer preference — whenever some
    worker has something left to do, some worker can take its next step.  (Mechanised from the
    balance and acquisition-order checks above; lock instances of one class are conflated in the
    skeleton, and the same theorem — `Locks.deadlock_free`, for an arbitrary rank function — covers
    instances ranked by their class.) -/
theorem no_deadlock {c : Conf} (hr : ReachableWP storagePaths c) {i : Nat} (hi : (c i).todo ≠ []) :
    ∃ j, enabledWP c j :=
  deadlock_free rank 3 (by intro l; unfold rank; split <;> (try split) <;> omega) c
    (reachableWP_good rank storage_paths_good hr) hi

/-- … and that machine's configurations are configurations of the machine of `no_data_race` -/
theorem wp_machine_is_a_restriction {c : Conf} (hr : ReachableWP storagePaths c) : Reachable c := hr.reachable

/-- non-vacuity: a worker in the middle of a generated path that nests two locks is reachable -/
example : storagePaths.any (fun p => p.any fun e => e == .acq "group" .w) = true := by decide

/-- **no data race**: in every reachable configuration of the worker machine, two different workers
    are never both about to perform accesses whose lock sets share a lock one of them writes -/
theorem no_data_race {c : Conf} (hr : Reachable c) {i j : Nat} (hij : i ≠ j)
    {loc : String} {w1 w2 h1 h2 : Bool} {r1 r2 : List Ev}
    (hi : (c i).todo = .acc loc w1 :: r1) (hj : (c j).todo = .acc loc w2 :: r2)
    (hcl : commonLock ⟨loc, w1, (c i).held, h1⟩ ⟨loc, w2, (c j).held, h2⟩ = true) : False :=
  no_simultaneous_access hr hij hi hj hcl

/-- the routing table of mainLoop: exactly the five group-keyed request types are hashed on
    cluster+group, every other type goes to any worker -/
theorem group_requests_are_hashed :
    (storageHandlers.map fun h => (h.1, h.2.2.1)) =
      [("StorageClearConsumerOwners", "hashed"), ("StorageFetchClusters", "any"), ("StorageFetchConsumer", "hashed"),
       ("StorageFetchConsumers", "any"), ("StorageFetchConsumersForTopic", "any"), ("StorageFetchTopic", "any"),
       ("StorageFetchTopics", "any"), ("StorageSetBrokerOffset", "any"), ("StorageSetConsumerOffset", "hashed"),
       ("StorageSetConsumerOwner", "hashed"), ("StorageSetDeleteGroup", "hashed"), ("StorageSetDeleteTopic", "any")] := by
  decide

/-- **requests concerning the same group take effect in submission order**: they are assigned to the
    same worker, whose queue holds the arrivals assigned to it in arrival order, and a worker runs one
    handler at a time -/
theorem same_group_in_order (n : Nat) (hash : String → Nat) (pick : Nat → Nat) (arrivals : List Req) (r1 r2 : Req)
    (h1 : r1.hashed = true) (h2 : r2.hashed = true) (hk : r1.key = r2.key) :
    assign n hash pick r1 = assign n hash pick r2 ∧
    (queueOf n hash pick arrivals (assign n hash pick r1)).Sublist arrivals ∧
    (r1 ∈ arrivals → r1 ∈ queueOf n hash pick arrivals (assign n hash pick r1)) ∧
    (r2 ∈ arrivals → r2 ∈ queueOf n hash pick arrivals (assign n hash pick r1)) := by
  have hs := same_key_same_worker n hash pick r1 r2 h1 h2 hk
  refine ⟨hs, queue_is_sublist _ _ _ _ _, fun h => (mem_queue_iff _ _ _ _ _ _).mpr ⟨h, rfl⟩,
    fun h => (mem_queue_iff _ _ _ _ _ _).mpr ⟨h, hs.symm⟩⟩

/-! ### no interleaving makes a read fail -/

theorem lagPass_total (topicMap : List (Ring BrokerOffset)) (hsz : ∀ r ∈ topicMap, r.len ≠ 0) (p : Nat) (part : Eval.Partition) :
    (lagPass topicMap p part).isSome = true := by
  unfold lagPass
  cases hp : topicMap[p]? with
  | none => rfl
  | some bring =>
    have : bring.len ≠ 0 := hsz bring (List.mem_of_getElem? hp)
    simp only [this, if_false]
    split
    · split
      · rfl
      · split <;> rfl
    · rfl

theorem lagPassTopic_total (topicMap : List (Ring BrokerOffset)) (hsz : ∀ r ∈ topicMap, r.len ≠ 0) :
    ∀ (parts : List Eval.Partition) (p : Nat), (lagPassTopic topicMap p parts).isSome = true := by
  intro parts
  induction parts with
  | nil => intro p; rfl
  | cons part rest ih =>
    intro p
    have h1 := lagPass_total topicMap hsz p part
    have h2 := ih (p + 1)
    cases ha : lagPass topicMap p part with
    | none => simp [ha] at h1
    | some a =>
      cases hb : lagPassTopic topicMap (p + 1) rest with
      | none => simp [hb] at h2
      | some b => simp [lagPassTopic, ha, hb]

/-- every broker ring of the cluster has the configured (non-zero) size -/
def RingsSized (cm : Cluster) : Prop := ∀ t rings, alookup t cm.broker = some rings → ∀ r ∈ rings, r.len ≠ 0

/-- **the lag pass is total on every pair of states**: whatever the consumer data copied in the first
    critical section (any topics, any number of partitions, any windows) and whatever the broker map
    looks like when the second critical section runs (topic missing, re-created with fewer
    partitions, partitions without offsets), the lag pass completes -/
theorem lag_pass_total_on_any_states (brokerStateLater : Cluster) (hsz : RingsSized brokerStateLater) :
    ∀ snapshot : ConsumerTopics, (lagPassAll brokerStateLater snapshot).isSome = true := by
  intro snapshot
  induction snapshot with
  | nil => rfl
  | cons tp rest ih =>
    obtain ⟨t, parts⟩ := tp
    simp only [lagPassAll]
    cases hl : alookup t brokerStateLater.broker with
    | none =>
      cases hr : lagPassAll brokerStateLater rest with
      | none => simp [hr] at ih
      | some r => simp [hr]
    | some topicMap =>
      have h1 := lagPassTopic_total topicMap (hsz t topicMap hl) parts 0
      cases ha : lagPassTopic topicMap 0 parts with
      | none => simp [ha] at h1
      | some a =>
        cases hr : lagPassAll brokerStateLater rest with
        | none => simp [hr] at ih
        | some r => simp [hr, ha]

/-- in particular the sequential read never fails -/
theorem read_never_fails (s : Store) (now : Int) (c g : String)
    (hsz : ∀ cm, alookup c s.clusters = some cm → RingsSized cm) :
    (fetchConsumer s now c g).2 ≠ .panic := by
  unfold fetchConsumer
  cases hc : alookup c s.clusters with
  | none => simp
  | some cm =>
    dsimp only
    cases hg : alookup g cm.consumer with
    | none => simp
    | some gr =>
      dsimp only
      split
      · simp
      · have := lag_pass_total_on_any_states cm (hsz cm hc) (getConsumerTopicList gr)
        cases hl : lagPassAll cm (getConsumerTopicList gr) with
        | none => simp [hl] at this
        | some t => simp

/-- **a reply is a snapshot**: the consumer part of a found reply is the group's stored state at one
    instant (one critical section), passed through the lag pass against one broker state -/
theorem reply_is_snapshot (s : Store) (now : Int) (c g : String) (t : ConsumerTopics)
    (h : (fetchConsumer s now c g).2 = .found t) :
    ∃ cm gr, alookup c s.clusters = some cm ∧ alookup g cm.consumer = some gr ∧
      lagPassAll cm (getConsumerTopicList gr) = some t := by
  unfold fetchConsumer at h
  cases hc : alookup c s.clusters with
  | none => simp [hc] at h
  | some cm =>
    simp only [hc] at h
    cases hg : alookup g cm.consumer with
    | none => simp [hg] at h
    | some gr =>
      simp only [hg] at h
      split at h
      · simp at h
      · cases hl : lagPassAll cm (getConsumerTopicList gr) with
        | none => simp [hl] at h
        | some t' =>
          simp only [hl, FetchResult.found.injEq] at h
          exact ⟨cm, gr, rfl, hg, by rw [hl, h]⟩

/-- non-vacuity: the generated skeleton is not empty and contains the accesses the discipline is about -/
example : (allAccesses storageHandlers).length = 18 := by decide
example : (allAccesses storageHandlers).any (fun a => a.loc == "cmap" && a.write) = true := by decide


/-! ### between the senders and the storage module

`same_group_in_order` is about the module's main loop and workers.  Requests reach the module through
the storage coordinator's forwarder; its control skeleton is regenerated from the source on every run. -/

/-- **requests reach the module in the order they were accepted from the application's channel, each
    exactly once**: the forwarder is one loop that takes a request and sends it on the module's channel
    before it takes the next — no other branch, goroutine or hand-over (a forwarder that spawned a
    goroutine per request would let a group's deletion overtake its commits) -/
theorem storage_forwarder_keeps_arrival_order :
    Burrow.Generated.storageForwarderSkeleton =
      ["call sc.running.Add(1)", "defer sc.running.Done()", "decl var channel chan *protocol.StorageRequest",
       "loop", "assign channel = module.(Module).GetCommunicationChannel()", "loop",
       "case request := <-sc.App.StorageChannel", "assign request := <-sc.App.StorageChannel",
       "send channel <- request", "case <-sc.quitChannel", "return"] := by decide

end Burrow.Props.C08
