/-
  C16 — The HTTP API answers every request with the documented envelope.  Property theorems only.

  `Http.respond routes be w method path` models httprouter + the handlers of kafka.go / config.go over
  a backend `be` (storage, evaluator, configuration); the route table `Generated.routes` is
  regenerated from coordinator.go on every run.  Theorems are stated for EVERY backend and world.
-/
import BurrowVerif.Proofs.Http
import BurrowVerif.Proofs.HttpViper
import BurrowVerif.Generated.Http

namespace Burrow.Props.C16
open Burrow Burrow.Http Burrow.Generated

variable {W : Type} (be : Backend W) (w : W)

/-- every handler registered on a `/v3` route is one the model knows, and none is registered twice
    for the same method and pattern -/
theorem routes_are_modelled :
    (routes.all fun r => H.ofName r.handler != .unknown) = true ∧
    (routes.map fun r => (r.method, r.pattern)).Nodup := by decide

/-- a request that matches a registered pattern reaches that pattern's handler with the path
    parameters bound to the matching segments -/
theorem matched_is_handled {m : String} {segs : List String} {r : Route} {ps : Params}
    (h : lookupRoute routes m segs = some (r, ps)) : routeSegs routes m segs = .handler r.handler ps :=
  route_matched h

/-- **every request is answered**: whatever the method, the path, the stored state and the
    configuration, a request routed to any handler other than the two whose status code reflects
    process state (POST loglevel, readiness) is answered 200 or 404 — never a failure -/
theorem every_routed_request_answered (ps : Params) (r : Route) (hr : r ∈ routes)
    (h1 : r.handler ≠ "setLogLevel") (h2 : r.handler ≠ "handleReady") :
    (handle be w r.handler ps).2.code = 200 ∨ (handle be w r.handler ps).2.code = 404 := by
  have hk : H.ofName r.handler ≠ .unknown := by
    have := (List.all_eq_true.mp routes_are_modelled.1) r hr
    simpa using this
  have hs : H.ofName r.handler ≠ .setLogLevel ∧ H.ofName r.handler ≠ .ready := by
    have hall : (routes.all fun r => (r.handler == "setLogLevel" || H.ofName r.handler != .setLogLevel) &&
        (r.handler == "handleReady" || H.ofName r.handler != .ready)) = true := by decide
    have := (List.all_eq_true.mp hall) r hr
    simp [h1, h2] at this
    exact this
  exact handleH_code be w ps _ hs.1 hs.2 hk

/-- **unrouted paths get 404**: a path that matches no registered pattern of any method — as it is,
    without its trailing slash, or after httprouter's cleaning and case folding — is answered 404 -/
theorem unrouted_is_404 {m : String} {segs : List String}
    (h1 : ∀ m', lookupRoute routes m' segs = none) (h2 : lookupRoute routes m segs.dropLast = none)
    (h3 : lookupCI routes m (cleanSegs segs) = none) (h4 : lookupCI routes m (cleanSegs segs).dropLast = none) :
    routeSegs routes m segs = .notFound := route_unrouted h1 h2 h3 h4

/-! **existing resources get 200 with `error=false` and the stored data; unknown ones get 404 with
    `error=true`** — one pair per storage-backed route -/

theorem topic_list (ps : Params) :
    (∀ l, be.topics w (param ps "cluster") = some l → handle be w "handleTopicList" ps = (w, ok (.names "topics" l))) ∧
    (be.topics w (param ps "cluster") = none → handle be w "handleTopicList" ps = (w, notFoundErr)) :=
  ⟨fun _ h => topicList_found be w ps h, topicList_unknown be w ps⟩

theorem topic_detail (ps : Params) :
    (∀ l, be.topicDetail w (param ps "cluster") (param ps "topic") = some l →
      handle be w "handleTopicDetail" ps = (w, ok (.offsets l))) ∧
    (be.topicDetail w (param ps "cluster") (param ps "topic") = none → handle be w "handleTopicDetail" ps = (w, notFoundErr)) :=
  ⟨fun _ h => topicDetail_found be w ps h, topicDetail_unknown be w ps⟩

theorem topic_consumers (ps : Params) :
    (∀ l, be.topicConsumers w (param ps "cluster") (param ps "topic") = some l →
      handle be w "handleTopicConsumerList" ps = (w, ok (.names "consumers" l))) ∧
    (be.topicConsumers w (param ps "cluster") (param ps "topic") = none →
      handle be w "handleTopicConsumerList" ps = (w, notFoundErr)) :=
  ⟨fun _ h => topicConsumers_found be w ps h, topicConsumers_unknown be w ps⟩

theorem consumer_list (ps : Params) :
    (∀ l, be.consumers w (param ps "cluster") = some l → handle be w "handleConsumerList" ps = (w, ok (.names "consumers" l))) ∧
    (be.consumers w (param ps "cluster") = none → handle be w "handleConsumerList" ps = (w, notFoundErr)) :=
  ⟨fun _ h => consumerList_found be w ps h, consumerList_unknown be w ps⟩

theorem consumer_detail (ps : Params) :
    (∀ w' t, be.consumerDetail w (param ps "cluster") (param ps "consumer") = (w', some t) →
      handle be w "handleConsumerDetail" ps = (w', ok (.topics t))) ∧
    (∀ w', be.consumerDetail w (param ps "cluster") (param ps "consumer") = (w', none) →
      handle be w "handleConsumerDetail" ps = (w', notFoundErr)) :=
  ⟨fun _ _ h => consumerDetail_found be w ps h, fun _ h => consumerDetail_unknown be w ps h⟩

/-- the status routes answer 200 with the evaluation, or 404 with status NOTFOUND (and `error=false`) -/
theorem consumer_status (ps : Params) (full : Bool) :
    (∀ w' g, be.status w (param ps "cluster") (param ps "consumer") full = (w', some g) →
      (handle be w (if full then "handleConsumerStatusComplete" else "handleConsumerStatus") ps).2.code = 200) ∧
    (∀ w', be.status w (param ps "cluster") (param ps "consumer") full = (w', none) →
      handle be w (if full then "handleConsumerStatusComplete" else "handleConsumerStatus") ps =
        (w', { code := 404, ctype := .json, err := some false,
               payload := .status (param ps "cluster") (param ps "consumer") none })) :=
  ⟨fun _ _ h => by rw [consumerStatus_found be w ps full h], fun _ h => consumerStatus_notfound be w ps full h⟩

/-- config-backed routes: a name that is not one of the configured modules of that kind gets 404 with
    `error=true` — for EVERY name (dots, list indexes, anything) and every configuration, since the
    repair (`moduleConfigured`: the request name is looked up among the keys of the kind's table and
    never handed to viper as a key path before that) -/
theorem unknown_config_is_404 (c : Cfg) (kind name : String) (fs : List (String × String × Getter)) (b : Bool)
    (hunknown : name.toLower ∉ c.vChildren [kind]) :
    moduleDetail c kind name fs b = notFoundErr := by
  simp [moduleDetail, moduleConfigured, hunknown]

theorem known_config_is_200 (c : Cfg) (kind name : String) (fs : List (String × String × Getter)) (b : Bool)
    (hknown : name.toLower ∈ c.vChildren [kind]) :
    (moduleDetail c kind name fs b).code = 200 ∧ (moduleDetail c kind name fs b).err = some false := by
  simp [moduleDetail, moduleConfigured, moduleDetailAt, hknown, ok]

/-- the same for the notifier detail route (whose handler dispatches on the module's class) -/
theorem unknown_notifier_is_404 (c : Cfg) (name : String) (hunknown : name.toLower ∉ c.vChildren ["notifier"]) :
    notifierDetailResp c name = notFoundErr := by
  simp [notifierDetailResp, moduleConfigured, hunknown]

/-- on a configuration without dotted keys the configured modules of a kind are the keys directly
    under it (`viper.GetStringMap(kind)`) -/
theorem configured_modules_plain (c : Cfg) (hpl : c.Plain) (kind : String) : c.vChildren [kind] = c.children [kind] :=
  vChildren_plain hpl [kind]

/-- **reads are pure**: no handler other than DELETE changes the world, except that a consumer
    detail / status read leaves it as the backend's lookup does … -/
theorem gets_are_pure (h : String) (ps : Params) (hd : H.ofName h ≠ .consumerDelete) :
    (handle be w h ps).1 = w ∨
    (handle be w h ps).1 = (be.consumerDetail w (param ps "cluster") (param ps "consumer")).1 ∨
    ∃ b, (handle be w h ps).1 = (be.status w (param ps "cluster") (param ps "consumer") b).1 :=
  handleH_world be w ps _ hd

/-- … and for storage that lookup changes nothing but dropping a group that had already expired. -/
theorem storage_lookup_only_drops_expired (s : Storage.Store) (now : Int) (c g : String) :
    (Storage.fetchConsumer s now c g).1 = s ∨
    ∃ cm gr, Storage.alookup c s.clusters = some cm ∧ Storage.alookup g cm.consumer = some gr ∧
      (now - s.cfg.expireGroup) * 1000 > gr.lastCommit ∧
      (Storage.fetchConsumer s now c g).1 =
        { s with clusters := Storage.ainsert c { cm with consumer := Storage.aerase g cm.consumer } s.clusters } :=
  fetchConsumer_store s now c g

/-! ### known findings (the statement is false of the code at these points; witnesses) -/

/-- D15 (repaired): a dotted name no longer reaches into the configuration — with `cluster.c0.servers`
    set, a request for the cluster named "c0.servers" is answered 404 (it was 200: `viper.IsSet`
    follows the dots; "c0.servers.-1" made viper index a list out of range) -/
theorem dotted_name_is_404 (name : String) (hname : name.toLower ≠ "c0") (fs : List (String × String × Getter)) (b : Bool) :
    moduleDetail [(["cluster", "c0", "servers"], .list ["k:9092"])] "cluster" name fs b = notFoundErr := by
  apply unknown_config_is_404
  rw [show Cfg.vChildren [(["cluster", "c0", "servers"], .list ["k:9092"])] ["cluster"] = ["c0"] from by decide]
  simpa using hname

/-- D18: DELETE answers 200 whatever the backend knows about the cluster or group -/
theorem delete_unknown_witness (ps : Params) : (handle be w "handleConsumerDelete" ps).2 = ok .none := by
  rw [consumerDelete]

/-- non-vacuity: a concrete request of each kind is routed as expected over the generated table -/
example : routeSegs routes "GET" ["v3", "kafka", "c0", "consumer", "g", "lag"] =
    .handler "handleConsumerStatusComplete" [("cluster", "c0"), ("consumer", "g")] := by decide
example : routeSegs routes "DELETE" ["v3", "kafka", "c0", "consumer", "g", "topic", "t"] =
    .handler "handleConsumerDelete" [("cluster", "c0"), ("consumer", "g"), ("topic", "t")] := by decide
example : ∀ m ∈ ["GET", "POST", "DELETE"], lookupRoute routes m ["v3", "nothing"] = none := by decide

end Burrow.Props.C16
