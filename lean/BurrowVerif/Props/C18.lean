/-
  C18 — No HTTP response reveals a configured password.  Property theorems only.

  "Contains the value" is not a well-formed property (a password equal to the word "kafka" occurs in
  many responses); the property is stated as it must be: NON-INTERFERENCE — no response depends on the
  value of any password key (`sasl.<profile>.password`, `notifier.<module>.password`: SASL profiles,
  HTTP basic-auth and SMTP credentials of notifier modules).
-/
import BurrowVerif.Proofs.HttpSecrets
import BurrowVerif.Proofs.HttpViperSound
import BurrowVerif.Generated.Http

namespace Burrow.Props.C18
open Burrow Burrow.Http Burrow.Generated

/-- **Non-interference, per handler**: replace the configuration by one with the same keys that
    differs only in password values — every handler returns the same response and the same world,
    for every backend, world, handler and path parameters (incl. dotted REQUEST names that reach into
    other parts of the configuration).  `Plain`: no configured key (module or profile name) itself
    contains a dot (the one way in which the statement was false of the code without it, D20, is repaired:
    `dotted_module_no_longer_leaks`; the scalar settings are still read through dotted keys, and the
    general statement for configurations with dotted names is not proved). -/
theorem handler_independent_of_passwords_partial {W : Type} (be : Backend W) (cfg' : W → Cfg) (w : W)
    (hpl : (be.cfg w).Plain)
    (h : SameExceptPasswords (be.cfg w) (cfg' w)) (ps : Params) (hh : H) :
    handleH { be with cfg := cfg' } w ps hh = handleH be w ps hh :=
  handleH_same be cfg' w hpl h ps hh

/-- **Non-interference, whole server**: for every method and path the response is the same. -/
theorem responses_independent_of_passwords_partial {W : Type} (be : Backend W) (cfg' : W → Cfg) (w : W)
    (hpl : (be.cfg w).Plain)
    (h : SameExceptPasswords (be.cfg w) (cfg' w)) (routes : List Route) (method path : String) :
    respond routes { be with cfg := cfg' } w method path = respond routes be w method path := by
  unfold respond
  cases route routes method path with
  | handler hn ps => exact handleH_same be cfg' w hpl h ps (H.ofName hn)
  | redirect _ _ => rfl
  | options _ => rfl
  | notAllowed _ => rfl
  | notFound => rfl

/-- every key suffix a handler reads through viper: the field tables and the client-profile / TLS / SASL
    sub-objects -/
def keyedSuffixes : List String :=
  (storageFields ++ evaluatorFields ++ clusterFields ++ consumerFields ++ notifierHTTP ++ notifierSlack ++ notifierEmail).map (·.2.1) ++
  ["client-profile", "class-name", "tls", "sasl", "client-id", "kafka-version", "certfile", "keyfile", "cafile", "noverify",
   "handshake-first", "username"]

/-- **For EVERY configuration — dotted module and profile names included — no setting that a handler
    reads by key ever resolves to a password**: viper's resolution (modelled exactly, `Cfg.search`) takes
    a key only to a node whose raw keys, joined by dots, spell the key (`resolve_sound`), and none of
    the suffixes the handlers ask for is "password" or contains a dot.  (What remains outside this
    general statement is the VALUES of table-valued reads: the extras of a notifier, read from the
    module's own table since the repair of D20 and compared entry by entry in the differential run.) -/
theorem no_keyed_read_lands_on_a_password (c : Cfg) (root : List String) (hroot : root ≠ []) (suffix : String)
    (hs : suffix ∈ keyedSuffixes) (R : List String) (h : c.resolve (root ++ [suffix]) = some R) :
    R.getLast? ≠ some "password" := by
  have hall : (keyedSuffixes.all fun s => s != "password" && !s.toList.contains '.') = true := by decide
  have := List.all_eq_true.mp hall suffix hs
  simp only [Bool.and_eq_true, bne_iff_ne, ne_eq, Bool.not_eq_true', List.contains_eq_mem, decide_eq_false_iff_not] at this
  exact resolve_avoids_password c root suffix hroot this.1 this.2 R h

/-- the configuration of the finding D20: notifier modules `a` and `"a.extras"`; the second one's
    password is the parameter -/
def leakCfg (pw : String) : Cfg :=
  [(["notifier", "a", "class-name"], .str "http"), (["notifier", "a", "url-open"], .str "http://h/"),
   (["notifier", "a.extras", "class-name"], .str "email"), (["notifier", "a.extras", "password"], .str pw)]

/-- the `extra` map of a module detail response -/
def extraOf (r : Resp) : Option FieldVal :=
  match r.payload with
  | .module fs => fs.lookup "extra"
  | _ => none

/-- **D20 (repaired).**  With notifier modules `a` and `"a.extras"`, viper resolves the key
    `notifier.a.extras` to the longest matching key, i.e. to the MODULE named `"a.extras"`; the handler
    used to show that module's whole table — password included — as the `extra` map of module `a`.
    The extras are now read from the module's own table: for both passwords the `extra` map of `a` is
    empty and the two responses agree.  (`notifierDetailAt c ["notifier", "a"] ["notifier", "a"]` is what
    `GET /v3/config/notifier/a` answers; the old behaviour is pinned by the corpus case `D20-…`, which
    now has to answer without the password.) -/
theorem dotted_module_no_longer_leaks :
    SameExceptPasswords (leakCfg "hunter2") (leakCfg "correct horse") ∧
    extraOf (notifierDetailAt (leakCfg "hunter2") ["notifier", "a"] ["notifier", "a"]) = some (.m []) ∧
    extraOf (notifierDetailAt (leakCfg "correct horse") ["notifier", "a"] ["notifier", "a"]) = some (.m []) ∧
    -- the key-based lookup would still resolve to the other module: that is what the repair avoids
    (leakCfg "hunter2").vLeaves ["notifier", "a", "extras"] = [("class-name", "email"), ("password", "hunter2")] := by
  refine ⟨⟨rfl, ?_⟩, by decide, by decide, by decide⟩
  intro p hp
  simp only [Cfg.get, leakCfg, List.lookup]
  by_cases h1 : p = ["notifier", "a.extras", "password"]
  · subst h1; simp [isPasswordPath] at hp
  · have e1 : (p == ["notifier", "a.extras", "password"]) = false := by simpa using h1
    simp [e1]

/-- `Plain` is what that configuration lacks (the non-interference theorems above still carry it: the
    scalar settings are read through dotted keys) -/
example : (leakCfg "x").plain = false := by decide

/-- the scrape does not read the configuration at all -/
theorem scrape_independent_of_configuration {W : Type} (be : Backend W) (cfg' : W → Cfg) (w : W) :
    scrapeWrites { be with cfg := cfg' } w = scrapeWrites be w := rfl

/-- no configuration key literal that package httpserver hands to viper (regenerated from the source
    on every run) names a password, secret or token -/
theorem no_password_key_read :
    (viperKeyLiterals.all fun k => k != ".password" && k != "password" && k != ".secret" && k != ".token" &&
      k != ".sasl-password" && k != ".api-key") = true := by decide

/-- the only reads of package httpserver that return a whole TABLE (regenerated from the source on every
    run, each with its enclosing function and the number of such calls there): the six kind tables, of which only the keys are shown (module lists) or tested
    (`moduleConfigured`), and — from the notifier table — the `extras` map of the requested module
    (`notifierExtras`, since the repair of D20; the model carries it as `Cfg.leavesUnder` of the
    module's own table and the differential run compares it entry by entry).  A handler that starts
    returning another table (a new map-valued setting, a module's raw section) breaks this. -/
theorem table_reads_are_the_modelled_ones :
    viperTableReads = ["Configure: GetStringMap \"httpserver\" x2", "configClusterList: GetStringMap \"cluster\" x1",
      "configConsumerList: GetStringMap \"consumer\" x1", "configEvaluatorList: GetStringMap \"evaluator\" x1",
      "configMain: GetStringMap \"httpserver\" x1", "configNotifierList: GetStringMap \"notifier\" x1",
      "configStorageList: GetStringMap \"storage\" x1", "moduleConfigured: GetStringMap _ x1",
      "notifierExtras: GetStringMap \"notifier\" x1"] := by decide

/-- the field tables of the model read no key suffix that the source does not contain: every suffix
    the model's handlers read is one of the generated literals (a handler that starts reading a new
    key makes the differential disagree; a literal that disappears breaks this) -/
theorem model_reads_only_source_literals :
    (((storageFields ++ evaluatorFields ++ clusterFields ++ consumerFields ++ notifierHTTP ++ notifierSlack ++ notifierEmail).filter
        fun f => f.2.2 != .mapSS).all   -- the extras table is indexed out of the notifier table, not asked of viper by key
      fun f => viperKeyLiterals.contains ("." ++ f.2.1)) = true := by decide

/-- non-vacuity: two configurations that differ in a SASL and a notifier password are related, and a
    password path is recognised as such while its neighbours are not -/
example : SameExceptPasswords
    [(["sasl", "p", "password"], .str "hunter2"), (["sasl", "p", "username"], .str "u"), (["notifier", "n", "password"], .str "a")]
    [(["sasl", "p", "password"], .str "correct horse"), (["sasl", "p", "username"], .str "u"), (["notifier", "n", "password"], .str "b")] := by
  refine ⟨rfl, ?_⟩
  intro p hp
  simp only [Cfg.get, List.lookup]
  by_cases h1 : p = ["sasl", "p", "password"]
  · subst h1; simp [isPasswordPath] at hp
  · by_cases h2 : p = ["notifier", "n", "password"]
    · subst h2; simp [isPasswordPath] at hp
    · have e1 : (p == ["sasl", "p", "password"]) = false := by simpa using h1
      have e2 : (p == ["notifier", "n", "password"]) = false := by simpa using h2
      simp [e1, e2]

example : isPasswordPath ["sasl", "p", "password"] = true ∧ isPasswordPath ["sasl", "p", "username"] = false ∧
    isPasswordPath ["notifier", "n", "extras", "password"] = false := by decide

end Burrow.Props.C18
