/-
  C06 — Offsets-topic decoding never crashes or balloons on any bytes.  Property theorems only.
-/
import BurrowVerif.Proofs.DecodeSafe

namespace Burrow.Props.C06
open Burrow Burrow.Decode Burrow.Spec.Wire

/-- For every key and value byte string, every allow/deny decision and every log position the
    decoder finishes without a run-time panic. -/
theorem process_never_panics (accept : Accept) (order : Int) (k v : Bytes) :
    (processMessage accept order k v).panicked = false :=
  Proofs.DecodeSafe.process_never_panics accept order k v

/-- … and requests only a bounded amount of member: proportional to the message, plus one maximal
    (32 KiB) string — never an amount chosen by a length or count field on the wire. -/
theorem process_alloc_bounded (accept : Accept) (order : Int) (k v : Bytes) :
    (processMessage accept order k v).alloc ≤ allocA * (k.length + v.length) + allocB :=
  Proofs.DecodeSafe.process_alloc_bounded accept order k v

/-- An offset commit (key version 0/1) produces a storage update only if every field Burrow reads is
    fully present with a sane length: key and value are then encodings of a well-formed commit
    (possibly followed by trailing bytes). -/
theorem malformed_commit_skipped (accept : Accept) (order : Int) (k v : Bytes) (kv : Int)
    (krest : Bytes) (hk : k = encI16 kv ++ krest) (hkv : kv = 0 ∨ kv = 1)
    (hreq : (processMessage accept order k v).reqs ≠ []) :
    ∃ (m : OffsetCommit) (rest₁ rest₂ : Bytes), m.WF ∧ k = m.encKey ++ rest₁ ∧ v = m.encValue ++ rest₂ ∧
      (processMessage accept order k v).reqs =
        [.offset (strVal m.group) (strVal m.topic) m.partition m.offset m.timestamp order] :=
  Proofs.DecodeSafe.malformed_commit_skipped accept order k v kv krest hk hkv hreq

/-! ### Non-vacuity / the repaired defects as concrete inputs -/

-- a string length of -2 (0xFFFE) in the key: skipped, no panic (was: makeslice panic)
example : processMessage (fun _ => true) 0 [0, 0, 0xFF, 0xFE] [0, 0] = { reqs := [], alloc := 0, panicked := false } := by
  decide

-- a 4-byte assignment claiming 2^24 topics: skipped, nothing allocated for it (was: 1.6 GB)
example :
    (processMessage (fun _ => true) 0 [0, 2, 0, 1, 0x67]
      ([0, 0, 0, 8] ++ "consumer".toUTF8.toList ++ [0, 0, 0, 1, 0xFF, 0xFF, 0xFF, 0xFF, 0, 0, 0, 1,
        0, 0, 0, 0, 0, 0, 0, 0, 0, 0, 0, 0, 0, 0, 0, 0, 0, 6, 0, 0, 1, 0, 0, 0])).alloc ≤ 100 := by
  decide +kernel

end Burrow.Props.C06
