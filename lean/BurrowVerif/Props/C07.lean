/-
  C07 — Well-formed commit and group-metadata messages are decoded exactly.  Property theorems only.
  `Decode.processMessage` is the model of the Go decoder; `Spec.Wire` are the Kafka formats.
-/
import BurrowVerif.Proofs.Wire

namespace Burrow.Props.C07
open Burrow Burrow.Decode Burrow.Spec.Wire

/-- Every well-formed offset commit (key v0/v1, value v0/v1/v3, any strings incl. empty and null,
    any integers, trailing bytes allowed) of an accepted group yields exactly one consumer-offset
    update with the message's group, topic, partition, offset and commit timestamp, ordered by the
    message's own position in the offsets log. -/
theorem offset_commit_roundtrip (m : OffsetCommit) (hwf : m.WF) (accept : Accept)
    (hacc : accept (strVal m.group) = true) (order : Int) (rest₁ rest₂ : Bytes) :
    let out := processMessage accept order (m.encKey ++ rest₁) (m.encValue ++ rest₂)
    out.reqs = [.offset (strVal m.group) (strVal m.topic) m.partition m.offset m.timestamp order] ∧
    out.panicked = false :=
  Proofs.Wire.offset_commit_roundtrip m hwf accept hacc order rest₁ rest₂

/-- An offset tombstone (empty value) yields nothing. -/
theorem offset_tombstone_nothing (m : OffsetCommit) (hwf : m.WF) (accept : Accept) (order : Int)
    (rest₁ : Bytes) :
    (processMessage accept order (m.encKey ++ rest₁) []).reqs = [] :=
  Proofs.Wire.offset_tombstone_nothing m hwf accept order rest₁

/-- Every well-formed group-metadata message of protocol type `consumer` with at least one member
    yields, member by member, one owner update per assigned topic-partition with that member's host
    and client id — nothing else. -/
theorem metadata_roundtrip (m : GroupMetadata) (hwf : m.WF) (accept : Accept)
    (hacc : accept (strVal m.group) = true) (order : Int) (rest₁ rest₂ : Bytes)
    (hpt : m.protocolType = some consumerBytes) (hne : m.members ≠ []) :
    let out := processMessage accept order (m.encKey ++ rest₁) (m.encValue ++ rest₂)
    out.reqs = m.members.flatMap (MemberMsg.owners (strVal m.group)) ∧ out.panicked = false :=
  Proofs.Wire.metadata_roundtrip m hwf accept hacc order rest₁ rest₂ hpt hne

/-- An empty member list clears the group's owners. -/
theorem empty_members_clear (m : GroupMetadata) (hwf : m.WF) (accept : Accept)
    (hacc : accept (strVal m.group) = true) (order : Int) (rest₁ rest₂ : Bytes)
    (hpt : m.protocolType = some consumerBytes) (hnil : m.members = []) :
    (processMessage accept order (m.encKey ++ rest₁) (m.encValue ++ rest₂)).reqs = [.clear (strVal m.group)] :=
  Proofs.Wire.empty_members_clear m hwf accept hacc order rest₁ rest₂ hpt hnil

/-- A metadata tombstone deletes the group. -/
theorem metadata_tombstone_deletes (group : Option Bytes) (hg : strOK group) (accept : Accept)
    (hacc : accept (strVal group) = true) (order : Int) (rest₁ : Bytes) :
    (processMessage accept order (encI16 2 ++ encString group ++ rest₁) []).reqs = [.deleteGroup (strVal group)] :=
  Proofs.Wire.metadata_tombstone_deletes group hg accept hacc order rest₁

/-- Other protocol types yield nothing. -/
theorem other_protocol_nothing (m : GroupMetadata) (hwf : m.WF) (accept : Accept) (order : Int)
    (rest₁ rest₂ : Bytes) (hpt : strVal m.protocolType ≠ consumerBytes) :
    (processMessage accept order (m.encKey ++ rest₁) (m.encValue ++ rest₂)).reqs = [] :=
  Proofs.Wire.other_protocol_nothing m hwf accept order rest₁ rest₂ hpt

/-! ### Non-vacuity: the literal fixture of the repository's own decoder tests
    (kafka_client_test.go:516-517: key "\x00\x09testgroup\x00\x09testtopic\x00\x00\x00\x0b",
    value "\x00\x00" ++ offset 0x20b4 ++ "\x00\x08testdata" ++ timestamp 0x0665) is an encoding in
    the sense of `Spec.Wire`, byte for byte. -/

private def s (x : String) : Option Bytes := some x.toUTF8.toList

private def fixture : OffsetCommit :=
  { keyVersion := 1, group := s "testgroup", topic := s "testtopic", partition := 11,
    valueVersion := 0, offset := 8372, leaderEpoch := 0, metadata := s "testdata",
    timestamp := 1637 }

example : fixture.WF := by
  simp only [OffsetCommit.WF, fixture, s, strOK, InRange]
  decide +kernel

example : fixture.encKey = [0, 1, 0, 9] ++ "testgroup".toUTF8.toList ++ [0, 9] ++ "testtopic".toUTF8.toList ++ [0, 0, 0, 0x0b] := by
  decide +kernel

example : fixture.encValue = [0, 0, 0, 0, 0, 0, 0, 0, 0x20, 0xb4, 0, 8] ++ "testdata".toUTF8.toList ++ [0, 0, 0, 0, 0, 0, 0x06, 0x65] := by
  decide +kernel

example : (processMessage (fun _ => true) 42 fixture.encKey fixture.encValue).reqs
    = [.offset "testgroup".toUTF8.toList "testtopic".toUTF8.toList 11 8372 1637 42] := by
  decide +kernel

end Burrow.Props.C07
