/-
  C07 — Well-formed commit and group-metadata messages are decoded exactly.  Property theorems only.
  `Decode.processMessage` is the model of the Go decoder; `Spec.Wire` are the Kafka formats.
-/
import BurrowVerif.Proofs.Wire
import BurrowVerif.Proofs.Consume

namespace Burrow.Props.C07
open Burrow Burrow.Decode Burrow.Spec.Wire

/-- Every well-formed offset commit (key v0/v1, value v0/v1/v3, any strings incl. empty and null,
    any integers, trailing bytes allowed) of an accepted group yields exactly one consumer-offset
    update with the message's group, topic, partition, offset and commit timestamp, ordered by the
    message's own position in the offsets log. -/
theorem offset_commit_roundtrip (m : OffsetCommit) (hwf : m.WF) (accept : Accept)
    (hacc : accept (strVal m.group) = true) (order : Int) (rest₁ rest₂ : Bytes) :
    let out := processMessage accept order (m.encKey ++ rest₁) (m.encValue ++ rest₂)
    out.reqs = [.offset (strVal m.group) (strVal m.topic) m.partition m.offset m.timestamp order] ∧
    out.panicked = false :=
  Proofs.Wire.offset_commit_roundtrip m hwf accept hacc order rest₁ rest₂

/-- An offset tombstone (empty value) yields nothing. -/
theorem offset_tombstone_nothing (m : OffsetCommit) (hwf : m.WF) (accept : Accept) (order : Int)
    (rest₁ : Bytes) :
    (processMessage accept order (m.encKey ++ rest₁) []).reqs = [] :=
  Proofs.Wire.offset_tombstone_nothing m hwf accept order rest₁

/-- Every well-formed group-metadata message of protocol type `consumer` with at least one member
    yields, member by member, one owner update per assigned topic-partition with that member's host
    and client id — nothing else. -/
theorem metadata_roundtrip (m : GroupMetadata) (hwf : m.WF) (accept : Accept)
    (hacc : accept (strVal m.group) = true) (order : Int) (rest₁ rest₂ : Bytes)
    (hpt : m.protocolType = some consumerBytes) (hne : m.members ≠ []) :
    let out := processMessage accept order (m.encKey ++ rest₁) (m.encValue ++ rest₂)
    out.reqs = m.members.flatMap (MemberMsg.owners (strVal m.group)) ∧ out.panicked = false :=
  Proofs.Wire.metadata_roundtrip m hwf accept hacc order rest₁ rest₂ hpt hne

/-- An empty member list clears the group's owners. -/
theorem empty_members_clear (m : GroupMetadata) (hwf : m.WF) (accept : Accept)
    (hacc : accept (strVal m.group) = true) (order : Int) (rest₁ rest₂ : Bytes)
    (hpt : m.protocolType = some consumerBytes) (hnil : m.members = []) :
    (processMessage accept order (m.encKey ++ rest₁) (m.encValue ++ rest₂)).reqs = [.clear (strVal m.group)] :=
  Proofs.Wire.empty_members_clear m hwf accept hacc order rest₁ rest₂ hpt hnil

/-- A metadata tombstone deletes the group. -/
theorem metadata_tombstone_deletes (group : Option Bytes) (hg : strOK group) (accept : Accept)
    (hacc : accept (strVal group) = true) (order : Int) (rest₁ : Bytes) :
    (processMessage accept order (encI16 2 ++ encString group ++ rest₁) []).reqs = [.deleteGroup (strVal group)] :=
  Proofs.Wire.metadata_tombstone_deletes group hg accept hacc order rest₁

/-- Other protocol types yield nothing. -/
theorem other_protocol_nothing (m : GroupMetadata) (hwf : m.WF) (accept : Accept) (order : Int)
    (rest₁ rest₂ : Bytes) (hpt : strVal m.protocolType ≠ consumerBytes) :
    (processMessage accept order (m.encKey ++ rest₁) (m.encValue ++ rest₂)).reqs = [] :=
  Proofs.Wire.other_protocol_nothing m hwf accept order rest₁ rest₂ hpt

/-! ### Non-vacuity: the literal fixture of the repository's own decoder tests
    (kafka_client_test.go:516-517: key "\x00\x09testgroup\x00\x09testtopic\x00\x00\x00\x0b",
    value "\x00\x00" ++ offset 0x20b4 ++ "\x00\x08testdata" ++ timestamp 0x0665) is an encoding in
    the sense of `Spec.Wire`, byte for byte. -/

private def s (x : String) : Option Bytes := some x.toUTF8.toList

private def fixture : OffsetCommit :=
  { keyVersion := 1, group := s "testgroup", topic := s "testtopic", partition := 11,
    valueVersion := 0, offset := 8372, leaderEpoch := 0, metadata := s "testdata",
    timestamp := 1637 }

example : fixture.WF := by
  simp only [OffsetCommit.WF, fixture, s, strOK, InRange]
  decide +kernel

example : fixture.encKey = [0, 1, 0, 9] ++ "testgroup".toUTF8.toList ++ [0, 9] ++ "testtopic".toUTF8.toList ++ [0, 0, 0, 0x0b] := by
  decide +kernel

example : fixture.encValue = [0, 0, 0, 0, 0, 0, 0, 0, 0x20, 0xb4, 0, 8] ++ "testdata".toUTF8.toList ++ [0, 0, 0, 0, 0, 0, 0x06, 0x65] := by
  decide +kernel

example : (processMessage (fun _ => true) 42 fixture.encKey fixture.encValue).reqs
    = [.offset "testgroup".toUTF8.toList "testtopic".toUTF8.toList 11 8372 1637 42] := by
  decide +kernel

/-! ### From the offsets topic to the decoder: the partition consumers (`startKafkaConsumer`,
    `startBackfillPartitionConsumer`, `partitionConsumer` — run for real by the `consume` stream) -/

open Burrow.Consume in
/-- A live consumer hands EVERY message it receives to the decoder, once, in order, and never stops of
    its own accord: what it forwards over any message sequence (nil messages and consume errors in
    between) is the concatenation of what each message yields — so the round-trip theorems above hold
    of every message of every partition. -/
theorem every_message_reaches_the_decoder (accept : Accept) (reported : Option Bytes) (msgs : List (Option Msg)) :
    consume accept reported none msgs =
      ((msgs.filterMap id).flatMap (Proofs.Consume.forwarded accept reported), false) :=
  Proofs.Consume.live_consume accept reported msgs

open Burrow.Consume in
/-- A backfill consumer handles every message up to AND INCLUDING the first one at or beyond its end
    offset — the last record published before start-up, which the live consumer (started at the next
    offset) never sees — and ends there. -/
theorem backfill_handles_the_end_offset_then_stops (accept : Accept) (reported : Option Bytes) (e : Int)
    (pre post : List (Option Msg)) (m : Msg) (h : ∀ x, some x ∈ pre → x.offset < e) (hm : m.offset ≥ e) :
    consume accept reported (some e) (pre ++ some m :: post) =
      (((pre.filterMap id).flatMap (Proofs.Consume.forwarded accept reported)) ++
        Proofs.Consume.forwarded accept reported m, true) :=
  Proofs.Consume.backfill_consume accept reported e pre post m h hm

open Burrow.Consume in
/-- … and does not end before. -/
theorem backfill_runs_until_the_end_offset (accept : Accept) (reported : Option Bytes) (e : Int)
    (msgs : List (Option Msg)) (h : ∀ x, some x ∈ msgs → x.offset < e) :
    consume accept reported (some e) msgs =
      ((msgs.filterMap id).flatMap (Proofs.Consume.forwarded accept reported), false) :=
  Proofs.Consume.backfill_not_ended accept reported e msgs h

open Burrow.Consume in
/-- The end offset of a backfill is the last PUBLISHED offset (`newest − 1`), and a backfill runs
    exactly when the partition holds something older than that; an empty partition's consumer is
    closed at once. -/
theorem backfill_end_is_last_published (c : Cfg) (p o n : Int) (hf : c.failConsume ≠ (2, p))
    (ho : c.oldest p = some o) (hn : c.newest p = some n) (hpos : n > 0) :
    startBackfill c p =
      if o ≥ n - 1 then
        (some { inst := 2, partition := p, startFrom := offsetOldest, stopAt := none, running := false, closed := true }, true)
      else
        (some { inst := 2, partition := p, startFrom := offsetOldest, stopAt := some (n - 1), running := true, closed := false }, true) := by
  simp [startBackfill, hf, ho, hn, hpos]

open Burrow.Consume in
/-- A start whose calls all succeed opens one live consumer per partition of the offsets topic — from
    the newest offset iff `start-latest` — and, with `backfill-earliest`, one backfill attempt per
    partition. -/
theorem start_covers_every_partition (c : Cfg) (ps : List Int) (hp : c.partitions = some ps)
    (hc : c.failConsumer = 0) (hl : ∀ p ∈ ps, c.failConsume ≠ (1, p)) :
    (start c).opened =
      (ps.map fun p => { inst := 1, partition := p, startFrom := if c.startLatest then offsetNewest else offsetOldest,
                         stopAt := none, running := true, closed := false : PC }) ++
      (if c.backfill then (ps.map (startBackfill c)).filterMap (·.1) else []) := by
  unfold start
  rw [hc, hp]
  simp only [Nat.zero_ne_one, if_false]
  rw [Proofs.Consume.startLive_all c _ ps hl]
  cases hb : c.backfill <;> simp

/-! non-vacuity: offsets 0..4 published (newest = 5), backfill from 0 ends at 4 and handles it -/
private def cfgEx : Consume.Cfg :=
  { startLatest := true, backfill := true, partitions := some [0, 1], oldest := fun _ => some 0,
    newest := fun p => if p = 0 then some 5 else some 0, failConsumer := 0, failConsume := (0, 0) }
example : (Consume.start cfgEx).opened.map (fun c => (c.inst, c.partition, c.stopAt, c.running)) =
    [(1, 0, none, true), (1, 1, none, true), (2, 0, some 4, true), (2, 1, none, false)] := by decide

end Burrow.Props.C07
