/-
  C19 — Invalid configuration is refused cleanly; valid configuration is accepted.  Property theorems only.

  `Config.configure` models newCoordinators + every Configure as the ordered chain of its validation
  sites over the facts they test; `Config.start` models the recover handler and Start.  The list of
  panic sites reachable from a Configure is REGENERATED from the source on every run and pinned here.
-/
import BurrowVerif.Proofs.Config
import BurrowVerif.Generated.ConfigPanics

namespace Burrow.Props.C19
open Burrow.Config

/-- **the configuration phase passes iff every documented requirement holds** (`Valid` is the
    catalogue: server lists present and well-formed, referenced clusters and profiles exist, known class
    names, at most one storage and one evaluator module, no legacy whitelist/blacklist keys, patterns
    compile, templates parse, URLs and addresses present, TLS files load, …) -/
theorem configure_passes_iff_valid (c : Config) : configure c = none ↔ Valid c := configure_none_iff_valid c

/-- **invalid configuration is refused cleanly**: Start returns 1 to its caller, no coordinator has
    been started, nothing crashes — for every configuration violating any requirement, whatever the
    site and the dynamic type of the value it panics with -/
theorem invalid_refused (c : Config) (n : Nat) (sf : Option Nat) (h : ¬ Valid c) :
    start handlerNew c n sf = { result := .returned 1, started := 0 } := by
  have : configure c ≠ none := fun hc => h ((configure_none_iff_valid c).mp hc)
  unfold start
  cases hc : configure c with
  | none => exact absurd hc this
  | some site => simp [handlerNew]

/-- **valid configuration is accepted**: the configuration phase passes and Start goes on to start the
    coordinators (returning 0 when they all start and the exit signal arrives) -/
theorem valid_accepted (c : Config) (n : Nat) (h : Valid c) :
    configure c = none ∧ start handlerNew c n none = { result := .returned 0, started := n } := by
  have hc := (configure_none_iff_valid c).mpr h
  exact ⟨hc, by simp [start, hc]⟩

/-- Start never lets a configuration panic escape into its caller -/
theorem never_crashes (c : Config) (n : Nat) (sf : Option Nat) : (start handlerNew c n sf).result ≠ .crashed := by
  unfold start
  cases configure c with
  | none => cases sf <;> simp
  | some site => simp [handlerNew]

/-- a refusal always names a requirement that the configuration violates -/
theorem refusal_names_a_violation (c : Config) (site : Check) (h : configure c = some site) : (true, site) ∈ chain c :=
  firstFail_some_mem h

/-- Each coordinator takes its modules in Go map order, i.e. in an arbitrary order.  Whether the
    configuration is refused does not depend on that order (`configureSites` is the set of sites a
    refusal may name over all orders: empty exactly when the listed order passes) … -/
theorem refusal_independent_of_module_order (c : Config) : configureSites c = [] ↔ Valid c :=
  (configureSites_nil_iff c).trans (configure_none_iff_valid c)

/-- … and the site named for the listed order is one of them (the correspondence run accepts any of
    them from the real code). -/
theorem refusal_site_is_possible (c : Config) (site : Check) (h : configure c = some site) : site ∈ configureSites c :=
  configure_mem_sites h

/-- the defect that was repaired (D13): with the original handler — `Logger.Panic(r.(string))` — EVERY
    invalid configuration made Start panic into its caller instead of returning 1 -/
theorem original_handler_crashed (c : Config) (n : Nat) (sf : Option Nat) (h : ¬ Valid c) :
    (start handlerOld c n sf).result = .crashed := by
  have : configure c ≠ none := fun hc => h ((configure_none_iff_valid c).mp hc)
  unfold start
  cases hc : configure c with
  | none => exact absurd hc this
  | some site => simp [handlerOld]

/-- **catalogue completeness**: the panic sites reachable from the Configure methods, regenerated from
    the source on every run, are exactly the ones the model's chains were written from (a validation
    added to, removed from or reworded in the code breaks this obligation) -/
theorem catalogue_is_the_sources : Burrow.Generated.configPanicSites = [
"cluster/Configure/panic: Cluster '",
  "cluster/Configure/panic: No Kafka brokers specified for cluster ",
  "cluster/getModuleForClass/panic: Unknown cluster className provided: ",
  "consumer/Configure/logpanic: Failed to compile group allowlist",
  "consumer/Configure/logpanic: Failed to compile group allowlist",
  "consumer/Configure/logpanic: Failed to compile group denylist",
  "consumer/Configure/logpanic: Failed to compile group denylist",
  "consumer/Configure/logpanic: Please change configurations to allowlist and denylist",
  "consumer/Configure/logpanic: Please change configurations to allowlist and denylist",
  "consumer/Configure/panic: <err>",
  "consumer/Configure/panic: <err>",
  "consumer/Configure/panic: <err>",
  "consumer/Configure/panic: <err>",
  "consumer/Configure/panic: Consumer '",
  "consumer/Configure/panic: Consumer '",
  "consumer/Configure/panic: Consumer '",
  "consumer/Configure/panic: Consumer '",
  "consumer/Configure/panic: Consumer '",
  "consumer/Configure/panic: No Kafka brokers specified for consumer ",
  "consumer/Configure/panic: No Zookeeper servers specified for consumer ",
  "consumer/Configure/panic: Please change configurations to allowlist and denylist",
  "consumer/Configure/panic: Please change configurations to allowlist and denylist",
  "consumer/getModuleForClass/panic: Unknown consumer className provided: ",
  "evaluator/Configure/logpanic: Failed to start cache",
  "evaluator/Configure/panic: <err>",
  "evaluator/Configure/panic: Only one evaluator module must be configured",
  "evaluator/getModuleForClass/panic: Unknown evaluator className provided: ",
  "helpers/GetSaramaConfigFromClientProfile/panic: cannot read TLS CA file: ",
  "helpers/GetSaramaConfigFromClientProfile/panic: cannot read TLS certificate or key file: ",
  "helpers/GetSaramaConfigFromClientProfile/panic: unknown client-profile '",
  "helpers/parseKafkaVersion/panic: Unknown Kafka Version: ",
  "httpserver/Configure/panic: TLS HTTP server specified with missing certificate or key",
  "httpserver/Configure/panic: cannot read TLS CA file: ",
  "httpserver/Configure/panic: cannot read TLS certificate or key file: ",
  "httpserver/Configure/panic: invalid HTTP server listener address",
  "notifier/Configure/logpanic: Failed to compile TemplateClose",
  "notifier/Configure/logpanic: Failed to compile TemplateOpen",
  "notifier/Configure/logpanic: Failed to compile group allowlist",
  "notifier/Configure/logpanic: Failed to compile group denylist",
  "notifier/Configure/logpanic: Please change configurations to allowlist and denylist",
  "notifier/Configure/logpanic: bad server or port",
  "notifier/Configure/logpanic: missing \tfrom address",
  "notifier/Configure/logpanic: missing to address",
  "notifier/Configure/logpanic: no url-close specified",
  "notifier/Configure/logpanic: no url-open specified",
  "notifier/Configure/panic: <err>",
  "notifier/Configure/panic: <err>",
  "notifier/Configure/panic: <err>",
  "notifier/Configure/panic: <err>",
  "notifier/Configure/panic: Please change configurations to allowlist and denylist",
  "notifier/Configure/panic: configuration error",
  "notifier/Configure/panic: configuration error",
  "notifier/Configure/panic: configuration error",
  "notifier/Configure/panic: configuration error",
  "notifier/Configure/panic: configuration error",
  "notifier/buildRootCAs/stdlogpanic: Failed to append %q to RootCAs: %v",
  "notifier/getModuleForClass/panic: Unknown notifier className provided: ",
  "notifier/getSMTPAuth/logpanic: unknown auth type",
  "notifier/getSMTPAuth/panic: configuration error",
  "storage/Configure/logpanic: Failed to compile group allowlist",
  "storage/Configure/logpanic: Failed to compile group denylist",
  "storage/Configure/logpanic: Please change configurations to allowlist and denylist",
  "storage/Configure/panic: <err>",
  "storage/Configure/panic: <err>",
  "storage/Configure/panic: Only one storage module must be configured",
  "storage/Configure/panic: Please change configurations to allowlist and denylist",
  "storage/getModuleForClass/panic: Unknown storage className provided: ",
  "zookeeper/Configure/panic: Failed to validate Zookeeper servers",
  "zookeeper/Configure/panic: No Zookeeper servers specified",
  "zookeeper/Configure/panic: Zookeeper root path is not valid"
] := by decide

def emptyConfig : Config where
  haveNotifiers := false
  zk := ⟨0, true, true⟩
  storage := []
  evaluator := []
  listeners := []
  notifiers := []
  clusters := []
  consumers := []

/-- the empty configuration is valid (Burrow starts with defaults) … -/
example : Valid emptyConfig := by
  refine ⟨by simp [emptyConfig], by simp [emptyConfig], by simp [emptyConfig], by simp [emptyConfig], by simp [emptyConfig],
    by simp [emptyConfig], by simp [emptyConfig], by simp [emptyConfig], by simp [emptyConfig]⟩

def unknownProfileConfig : Config where
  haveNotifiers := true
  zk := ⟨1, true, true⟩
  storage := [⟨"inmemory", true, false, true, true⟩]
  evaluator := []
  listeners := []
  notifiers := []
  clusters := [⟨"kafka", ⟨true, false, true, none⟩, 2, true⟩]
  consumers := []

/-- … and a concrete invalid one is refused at the expected site -/
example : configure unknownProfileConfig = some .P1 := by decide

/-- The verdict of a run owes nothing to earlier runs: whatever `ConfigurationValid` the application
    context carried into `Start` (set by an earlier, valid run, say), afterwards it says whether THIS
    configuration passed (checked on the real `Start` by the `restart=` observation of the config stream). -/
theorem verdict_ignores_earlier_runs (prior : Bool) (c : Config) :
    flagAfter prior c = (configure c).isNone := by
  unfold flagAfter
  cases configure c <;> rfl

end Burrow.Props.C19
