/-
  C14 — Notifications obey threshold / interval / send-once; every incident is announced.
  Property theorems only.
-/
import BurrowVerif.Proofs.Notifier
import BurrowVerif.Proofs.NotifierReminder
import BurrowVerif.Proofs.NotifierConf
import BurrowVerif.Generated.NotifierLoop

namespace Burrow.Props.C14
open Burrow Burrow.Notifier Burrow.Spec.Notifier

/-- An open notification goes only to a module that accepts the group, for a status at or above
    that module's threshold. -/
theorem open_only_at_threshold_and_accepted (cfgs : List ModuleCfg) (evs : List Ev) (j : Nat)
    (n : Notification) (hn : n ∈ notesAt cfgs evs j) (hopen : n.close = false) :
    ∃ ej, evs[j]? = some ej ∧ ∃ cfg ∈ cfgs, cfg.name = n.module ∧ ej.acc cfg.name = true ∧
      cfg.threshold ≤ (ej.status.toNat : Int) ∧ n.status = ej.status :=
  Proofs.Notifier.open_only_at_threshold_and_accepted cfgs evs j n hn hopen

/-- Within an incident, two open notifications to the same module are more than its send interval
    apart. -/
theorem rate_limited_within_incident (cfgs : List ModuleCfg) (hn : NamesNodup cfgs) (evs : List Ev)
    (hmono : TimeMono evs) (i j : Nat) (hij : i < j) (hbad : AllBad evs i (j + 1))
    (ei ej : Ev) (hei : evs[i]? = some ei) (hej : evs[j]? = some ej)
    (cfg : ModuleCfg) (hc : cfg ∈ cfgs) (ni nj : Notification)
    (hi : ni ∈ notesAt cfgs evs i) (hj : nj ∈ notesAt cfgs evs j)
    (hmi : ni.module = cfg.name) (hmj : nj.module = cfg.name)
    (hoi : ni.close = false) (hoj : nj.close = false) :
    ej.now - ei.now > cfg.sendInterval * 1000 :=
  Proofs.Notifier.rate_limited_within_incident cfgs hn evs hmono i j hij hbad ei ej hei hej cfg hc ni nj hi hj hmi hmj hoi hoj

/-- With send-once, at most one open notification per incident and module. -/
theorem send_once_once_per_incident (cfgs : List ModuleCfg) (hn : NamesNodup cfgs) (evs : List Ev)
    (i j : Nat) (hij : i < j) (hbad : AllBad evs i (j + 1))
    (cfg : ModuleCfg) (hc : cfg ∈ cfgs) (honce : cfg.sendOnce = true) (ni nj : Notification)
    (hi : ni ∈ notesAt cfgs evs i) (hj : nj ∈ notesAt cfgs evs j)
    (hmi : ni.module = cfg.name) (hmj : nj.module = cfg.name)
    (hoi : ni.close = false) (hoj : nj.close = false) : False :=
  Proofs.Notifier.send_once_once_per_incident cfgs hn evs i j hij hbad cfg hc honce ni nj hi hj hmi hmj hoi hoj

/-- Every incident is announced — the first, the second and every later one: at the first
    evaluation of an incident at which the status reaches an accepting module's threshold, that
    module is sent an open notification. -/
theorem every_incident_announced (cfgs : List ModuleCfg) (hn : NamesNodup cfgs) (evs : List Ev)
    (i j : Nat) (hopens : Opens evs i) (hij : i ≤ j) (hbad : AllBad evs i (j + 1))
    (ej : Ev) (hej : evs[j]? = some ej) (cfg : ModuleCfg) (hc : cfg ∈ cfgs)
    (hacc : ej.acc cfg.name = true) (hthr : cfg.threshold ≤ (ej.status.toNat : Int))
    (hnone : ∀ k, i ≤ k → k < j → ∀ n ∈ notesAt cfgs evs k, n.module = cfg.name → n.close = true) :
    ∃ n ∈ notesAt cfgs evs j, n.module = cfg.name ∧ n.close = false :=
  Proofs.Notifier.every_incident_announced cfgs hn evs i j hopens hij hbad ej hej cfg hc hacc hthr hnone

/-! ### Non-vacuity: the history on which the unrepaired code failed (send-once, no send-close):
    OK ERR ERR OK OK ERR ERR OK — the second incident is announced too, each exactly once. -/

private def ev (st : Status) (t : Int) (id : Nat) : Ev := { status := st, now := t, acc := fun _ => true, freshId := id }
private def hist : List Ev :=
  [ev .ok 0 0, ev .err 10000 1, ev .err 20000 2, ev .ok 30000 3, ev .ok 40000 4, ev .err 50000 5, ev .err 60000 6, ev .ok 70000 7]
private def m : ModuleCfg := { name := "m", threshold := 2, sendInterval := 5, sendOnce := true, sendClose := false }

example : (runG [m] GroupRec.fresh hist).map (fun ns => ns.map fun n => (n.id, n.close)) =
    [[], [(some 1, false)], [], [], [], [(some 5, false)], [], []] := by decide

example : Opens hist 5 := by
  refine ⟨⟨ev .err 50000 5, rfl, by decide⟩, Or.inr ⟨ev .ok 40000 4, rfl, by decide⟩⟩


/-- The interval limits, it does not swallow: inside an incident a module that is not send-once, last
    notified at evaluation `i` and not since, is notified again by the first evaluation that comes more
    than its send interval later with the status at or above its threshold (and the group accepted). -/
theorem reminder_when_interval_elapsed (cfgs : List ModuleCfg) (hn : NamesNodup cfgs) (evs : List Ev)
    (i j : Nat) (hij : i < j) (hbad : AllBad evs i (j + 1))
    (ei ej : Ev) (hei : evs[i]? = some ei) (hej : evs[j]? = some ej)
    (cfg : ModuleCfg) (hc : cfg ∈ cfgs) (honce : cfg.sendOnce = false) (ni : Notification)
    (hi : ni ∈ notesAt cfgs evs i) (hmi : ni.module = cfg.name) (hoi : ni.close = false)
    (hnone : ∀ k, i < k → k < j → ∀ n ∈ notesAt cfgs evs k, n.module ≠ cfg.name)
    (hacc : ej.acc cfg.name = true) (hthr : cfg.threshold ≤ (ej.status.toNat : Int))
    (hdue : ej.now - ei.now > cfg.sendInterval * 1000) :
    ∃ n ∈ notesAt cfgs evs j, n.module = cfg.name ∧ n.close = false ∧ n.status = ej.status :=
  Proofs.Notifier.reminder_when_interval_elapsed cfgs hn evs i j hij hbad ei ej hei hej cfg hc honce ni hi hmi hoi
    hnone hacc hthr hdue


/-- a reminder: interval 5 s, evaluations 2 s and 6 s after the first notification -/
private def m2 : ModuleCfg := { name := "m", threshold := 2, sendInterval := 5, sendOnce := false, sendClose := false }
example : (runG [m2] GroupRec.fresh [ev .err 10000 1, ev .err 12000 2, ev .err 16000 3]).map (·.length) = [1, 0, 1] := by
  decide


/-! ### the configuration phase: which settings the theorems above are about

`ModSpec` is a `[notifier.<name>]` table as the operator wrote it, `ModSpec.cfg` what `notifyModule` reads
after the real `Configure` (tied by the `N conf` ops of the notifier stream, which run it).  The model
of the phase is a map over the tables: a module's settings and lists are a function of its own table,
whatever other modules are configured and in whatever order Go walks them. -/

/-- a module that sets no `send-interval` is limited by its own `interval` (60 s when that is not set
    either); its threshold is 2 unless set; send-once and send-close are off unless set -/
theorem defaults_are_the_documented_ones (m : ModSpec) :
    (m.sendInterval = none → m.cfg.sendInterval = m.interval.getD 60) ∧
    (m.threshold = none → m.cfg.threshold = 2) ∧
    (m.sendOnce = none → m.cfg.sendOnce = false) ∧ (m.sendClose = none → m.cfg.sendClose = false) ∧
    (∀ v, m.sendInterval = some v → m.cfg.sendInterval = v) ∧ (∀ v, m.threshold = some v → m.cfg.threshold = v) := by
  refine ⟨?_, ?_, ?_, ?_, ?_, ?_⟩
  · intro h; simp [ModSpec.cfg, ModSpec.intervalEff, h]
  · intro h; simp [ModSpec.cfg, h]
  · intro h; simp [ModSpec.cfg, h]
  · intro h; simp [ModSpec.cfg, h]
  · intro v h; simp [ModSpec.cfg, h]
  · intro v h; simp [ModSpec.cfg, h]

/-- evaluation requests are paced by the shortest module interval: no longer than any module's, and
    the interval of one of the modules -/
theorem pace_is_the_shortest_interval (ms : List ModSpec) (hne : ms ≠ []) :
    (∀ m ∈ ms, minIntervalOf ms ≤ m.intervalEff) ∧ ∃ m ∈ ms, minIntervalOf ms = m.intervalEff :=
  ⟨fun m hm => minIntervalOf_le ms m hm, minIntervalOf_mem ms hne⟩

example : minIntervalOf [⟨"a", none, some 30, none, none, none, none, none⟩, ⟨"b", none, none, some 5, none, none, none, none⟩] = 30 ∧
    (⟨"b", none, none, some 5, none, none, none, none⟩ : ModSpec).cfg = ⟨"b", 2, 5, false, false⟩ ∧
    (⟨"a", none, some 30, none, none, none, none, none⟩ : ModSpec).cfg = ⟨"a", 2, 30, false, false⟩ := by decide


/-! ### between the evaluator and the incident logic

The theorems above are about `checkAndSendResponseToModules` (the stream calls it directly).  What lies
between the evaluator's replies and it is `responseLoop`; its control skeleton is regenerated from the
source on every run. -/

/-- **every evaluation result reaches the incident logic exactly once**: `responseLoop` takes a reply,
    skips it only when it is nil (the group is gone) or NOTFOUND, and hands every other one to
    `checkAndSendResponseToModules` — there is no other condition, branch or hand-over in the loop.
    (A result that is dropped can be the OK that closes an incident: the next incident is then never
    announced to a send-once module.) -/
theorem every_result_reaches_the_incident_logic :
    Burrow.Generated.responseLoopSkeleton =
      ["defer nc.running.Done()", "loop", "case response := <-nc.evaluatorResponse",
       "assign response := <-nc.evaluatorResponse", "if response == nil", "continue",
       "if response.Status != protocol.StatusNotFound", "call nc.running.Add(1)",
       "go nc.checkAndSendResponseToModules(response)", "case <-nc.quitChannel", "return"] := by decide

/-- What the response loop hands to the incident logic is exactly the evaluator's answers that ARE
    evaluations — in order, each once: nil answers (vanished groups) and NOTFOUND are dropped, nothing
    else is.  (The `notifier` stream delivers every result on the channel a real `responseLoop` reads.) -/
theorem loop_hands_on_every_evaluation (answers : List (Option Status)) :
    Notifier.delivered answers =
      answers.filterMap (fun a => match a with
        | none => none
        | some .notFound => none
        | some s => some s) := by
  induction answers with
  | nil => rfl
  | cons a rest ih =>
    cases a with
    | none => simpa [Notifier.delivered] using ih
    | some s => cases s <;> simp [Notifier.delivered, ih]

end Burrow.Props.C14
