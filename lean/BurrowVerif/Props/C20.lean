/-
  C20 — Notification templates render for every status.  Property theorems only.

  `Tmpl.exec` models `text/template` execution for the fragment the shipped templates use, `Tmpl.check`
  is a type checker with a soundness theorem (`Proofs.Tmpl.check_sound`); the shipped templates, the
  schema of the template data and the helper names are GENERATED from /repo on every run
  (`Generated/Templates.lean`), so the theorems below are re-checked against what the code says now.
-/
import BurrowVerif.Proofs.Tmpl
import BurrowVerif.Proofs.TmplData
import BurrowVerif.Model.Json

namespace Burrow.Props.C20
open Burrow Burrow.Tmpl Burrow.Spec.Tmpl Burrow.Generated

/-- The data handed to templates offers exactly the documented fields: cluster, group, event id,
    start time, configured extras and the full status result. -/
theorem data_offers_documented_fields :
    dataType = .named "Data" ∧
    (dataSchema.lookup "Data").map (·.fields) =
      some [("Cluster", .str), ("Group", .str), ("ID", .str), ("Start", .time), ("Extras", .mapSS),
            ("Result", .named "ConsumerGroupStatus")] ∧
    ((dataSchema.lookup "Data").map (·.fields.map Prod.fst)) = some documentedFields := by decide

/-- … together with the documented helper functions. -/
theorem helpers_offered : helperNames = documentedHelpers := by decide

/-- The templates shipped in `config/` are the five documented ones. -/
theorem shipped_are_the_documented_five :
    shippedTemplates.map Prod.fst = ["default-email.tmpl", "default-http-delete.tmpl", "default-http-post.tmpl",
      "default-slack-delete.tmpl", "default-slack-post.tmpl"] := by decide

/-- Every shipped template passes the checker against the schema of the data (refined by the status
    invariant: listed partitions are non-nil and carry a first and a last commit). -/
theorem shipped_templates_check :
    ∀ nt ∈ shippedTemplates, check (refine dataSchema) nt.2 dataType = true := by decide

theorem refined_schema_wf : wfTags (refine dataSchema) = true := by decide

/-- Hence every shipped template, open and close, renders without error on EVERY value of the data
    type — any status value, any number of listed partitions, with or without a max-lag partition,
    any names and extras — whatever Go's renderings of floats, times and JSON are. -/
theorem shipped_templates_render (env : Env) (v : Val) (hv : HasTy (refine dataSchema) v dataType) :
    ∀ nt ∈ shippedTemplates, ∃ out, exec (refine dataSchema) env nt.2 v = .ok out := by
  intro nt hnt
  exact check_sound refined_schema_wf nt.2 (shipped_templates_check nt hnt) hv

/-- The status invariant holds of every result of the evaluator model: a partition whose status is
    not OK has a first and a last commit (`evaluatePartitionStatus` sets them before any rule runs). -/
theorem problem_partition_has_ends (p : Eval.Partition) (meets : Nat → Nat → Bool) (now : Int) (allowed : Nat)
    (st : Eval.PartStatus) (h : Eval.evaluatePartition p meets now allowed = some st) (hbad : st.status ≠ .ok) :
    st.start.isSome ∧ st.end.isSome :=
  Proofs.TmplData.problem_partition_has_ends p meets now allowed st h hbad

/-- The problems-only view of any group evaluation (what the notifier receives) meets the invariant. -/
theorem notifier_view_meets_invariant (meets : Nat → Nat → Bool) (now : Int) (allowed : Nat)
    (topics : List (String × List Eval.Partition)) (g : Group.GroupStatus)
    (h : Group.evaluateGroup meets now allowed topics = some g) : ProblemsHaveEnds (Group.filterView g) :=
  Proofs.TmplData.filterView_has_ends meets now allowed topics g h

/-- **C20, composed**: for every group, every window contents, every clock and threshold, every
    event id, start time and extras, every shipped template renders on the notification built around
    the evaluator's problems-only result. -/
theorem every_status_renders (meets : Nat → Nat → Bool) (now : Int) (allowed : Nat)
    (topics : List (String × List Eval.Partition)) (g : Group.GroupStatus)
    (h : Group.evaluateGroup meets now allowed topics = some g)
    (o : Opaque) (id cluster group : String) (start : Int) (extras : List (String × String)) (env : Env) :
    ∀ nt ∈ shippedTemplates, ∃ out,
      exec (refine dataSchema) env nt.2
        (dataVal o { id, start, extras, cluster, group, result := Group.filterView g }) = .ok out :=
  shipped_templates_render env _
    (Proofs.TmplData.dataTy o _ (notifier_view_meets_invariant meets now allowed topics g h))

/-- Why the refinement is needed (and what the email template relies on): against the bare Go types,
    where a listed partition's `Start` may be nil, the email template does not check. -/
theorem email_needs_the_invariant :
    (shippedTemplates.lookup "default-email.tmpl").map (fun t => check dataSchema t dataType) = some false := by decide

/-- a concrete evaluation result with one stopped partition … -/
def samplePart : Group.PStat :=
  { topic := "t", partition := 0, owner := "", clientID := "",
    st := { status := .stop, currentLag := 7, start := some ⟨1, 1, 1, none⟩, «end» := some ⟨2, 2, 2, some 3⟩, complete := (1, 1) } }

def sampleNotification : Notification :=
  { id := "i", start := 0, extras := [("app", "x")], cluster := "c", group := "g",
    result := { status := .err, complete := (1, 2), totalPartitions := 2, maxlag := none, totalLag := 7, partitions := [samplePart] } }

/-- … non-vacuity: it meets the invariant, so it inhabits the refined type, and the first shipped
    template renders on it. -/
example : ProblemsHaveEnds sampleNotification.result := by
  intro p hp
  simp [sampleNotification] at hp
  subst hp
  exact ⟨rfl, rfl⟩

example : (shippedTemplates.head?.map fun nt =>
    (exec (refine dataSchema) ⟨fun _ _ => "T", fun _ => "0.5", "[]"⟩ nt.2
      (dataVal ⟨fun _ => 0, fun _ => 0⟩ sampleNotification)).isOk) = some true := by decide

end Burrow.Props.C20
