/-
  C20 — Notification templates render for every status.  Property theorems only.

  `Tmpl.exec` models `text/template` execution for the fragment the shipped templates use, `Tmpl.check`
  is a type checker with a soundness theorem (`Proofs.Tmpl.check_sound`); the shipped templates, the
  schema of the template data and the helper names are GENERATED from /repo on every run
  (`Generated/Templates.lean`), so the theorems below are re-checked against what the code says now.
-/
import BurrowVerif.Proofs.Tmpl
import BurrowVerif.Proofs.TmplData
import BurrowVerif.Model.Json
import BurrowVerif.Proofs.TmplDataJson
import BurrowVerif.Proofs.TmplDataFloats
import BurrowVerif.Proofs.TmplHelpers

namespace Burrow.Props.C20
open Burrow Burrow.Tmpl Burrow.Spec.Tmpl Burrow.Generated

/-- The data handed to templates offers exactly the documented fields: cluster, group, event id,
    start time, configured extras and the full status result. -/
theorem data_offers_documented_fields :
    dataType = .named "Data" ∧
    (dataSchema.lookup "Data").map (·.fields) =
      some [("Cluster", .str), ("Group", .str), ("ID", .str), ("Start", .time), ("Extras", .mapSS),
            ("Result", .named "ConsumerGroupStatus")] ∧
    ((dataSchema.lookup "Data").map (·.fields.map Prod.fst)) = some documentedFields := by decide

/-- … together with the documented helper functions. -/
theorem helpers_offered : helperNames = documentedHelpers := by decide

/-- The templates shipped in `config/` are the five documented ones. -/
theorem shipped_are_the_documented_five :
    shippedTemplates.map Prod.fst = ["default-email.tmpl", "default-http-delete.tmpl", "default-http-post.tmpl",
      "default-slack-delete.tmpl", "default-slack-post.tmpl"] := by decide

/-- Every shipped template passes the checker against the schema of the data (refined by the status
    invariant: listed partitions are non-nil and carry a first and a last commit). -/
theorem shipped_templates_check :
    ∀ nt ∈ shippedTemplates, check (refine dataSchema) nt.2 dataType = true := by decide

theorem refined_schema_wf : wfTags (refine dataSchema) = true := by decide

/-- Hence every shipped template, open and close, renders without error on EVERY value of the data
    type — any status value, any number of listed partitions, with or without a max-lag partition,
    any names and extras — whatever Go's renderings of floats, times and JSON are. -/
theorem shipped_templates_render (env : Env) (v : Val) (hv : HasTy (refine dataSchema) v dataType) :
    ∀ nt ∈ shippedTemplates, ∃ out, exec (refine dataSchema) env nt.2 v = .ok out := by
  intro nt hnt
  exact check_sound refined_schema_wf nt.2 (shipped_templates_check nt hnt) hv

/-- The status invariant holds of every result of the evaluator model: a partition whose status is
    not OK has a first and a last commit (`evaluatePartitionStatus` sets them before any rule runs). -/
theorem problem_partition_has_ends (p : Eval.Partition) (meets : Nat → Nat → Bool) (now : Int) (allowed : Nat)
    (st : Eval.PartStatus) (h : Eval.evaluatePartition p meets now allowed = some st) (hbad : st.status ≠ .ok) :
    st.start.isSome ∧ st.end.isSome :=
  Proofs.TmplData.problem_partition_has_ends p meets now allowed st h hbad

/-- The problems-only view of any group evaluation (what the notifier receives) meets the invariant. -/
theorem notifier_view_meets_invariant (meets : Nat → Nat → Bool) (now : Int) (allowed : Nat)
    (topics : List (String × List Eval.Partition)) (g : Group.GroupStatus)
    (h : Group.evaluateGroup meets now allowed topics = some g) : ProblemsHaveEnds (Group.filterView g) :=
  Proofs.TmplData.filterView_has_ends meets now allowed topics g h

/-- **C20, composed**: for every group, every window contents, every clock and threshold, every
    event id, start time and extras, every shipped template renders on the notification built around
    the evaluator's problems-only result. -/
theorem every_status_renders (meets : Nat → Nat → Bool) (now : Int) (allowed : Nat)
    (topics : List (String × List Eval.Partition)) (g : Group.GroupStatus)
    (h : Group.evaluateGroup meets now allowed topics = some g)
    (o : Opaque) (id cluster group : String) (start : Int) (extras : List (String × String)) (env : Env) :
    ∀ nt ∈ shippedTemplates, ∃ out,
      exec (refine dataSchema) env nt.2
        (dataVal o { id, start, extras, cluster, group, result := Group.filterView g }) = .ok out :=
  shipped_templates_render env _
    (Proofs.TmplData.dataTy o _ (notifier_view_meets_invariant meets now allowed topics g h))

/-- Why the refinement is needed (and what the email template relies on): against the bare Go types,
    where a listed partition's `Start` may be nil, the email template does not check. -/
theorem email_needs_the_invariant :
    (shippedTemplates.lookup "default-email.tmpl").map (fun t => check dataSchema t dataType) = some false := by decide

/-- a concrete evaluation result with one stopped partition … -/
def samplePart : Group.PStat :=
  { topic := "t", partition := 0, owner := "", clientID := "",
    st := { status := .stop, currentLag := 7, start := some ⟨1, 1, 1, none⟩, «end» := some ⟨2, 2, 2, some 3⟩, complete := (1, 1) } }

def sampleNotification : Notification :=
  { id := "i", start := 0, extras := [("app", "x")], cluster := "c", group := "g",
    result := { status := .err, complete := (1, 2), totalPartitions := 2, maxlag := none, totalLag := 7, partitions := [samplePart] } }

/-! ### the JSON clause -/

/-- the shipped templates whose output is posted as JSON -/
def jsonTemplates : List (String × T) := shippedTemplates.filter fun nt => nt.1 != "default-email.tmpl"

theorem json_templates_are_http_and_slack :
    jsonTemplates.map Prod.fst = ["default-http-delete.tmpl", "default-http-post.tmpl",
      "default-slack-delete.tmpl", "default-slack-post.tmpl"] := by decide

set_option maxRecDepth 16384 in
/-- Read as JSON with typed holes, every shipped HTTP and Slack template is a complete JSON text:
    each action stands either inside a string and prints JSON-safe characters, or where a value is
    expected and prints a number or the `jsonencoder` rendering; both branches of the `if` end in
    the same place. -/
theorem shipped_json_templates_flow :
    ∀ nt ∈ jsonTemplates, jsonOk (refine dataSchema) nt.2 dataType = true := by decide

/-- **The JSON clause of C20.**  For every value of the data type whose strings are JSON-safe (and
    whose completeness values are finite floats), whatever each shipped HTTP or Slack template
    renders is well-formed JSON — under the stated assumptions about Go's own renderers
    (`EnvOk`: `time.Format` output is JSON-safe, `%v` of a finite float32 is a JSON number,
    `json.Marshal` output is a JSON text), which every run validates on the real renderings. -/
theorem shipped_json_templates_wellformed (env : Env) (henv : EnvOk env) (v : Val)
    (hv : HasTy (refine dataSchema) v dataType) (hs : SafeVal v) :
    ∀ nt ∈ jsonTemplates, ∃ out, exec (refine dataSchema) env nt.2 v = .ok out ∧ Json.valid out = true := by
  intro nt hnt
  have hmem : nt ∈ shippedTemplates := (List.mem_filter.mp hnt).1
  obtain ⟨out, hout⟩ := shipped_templates_render env v hv nt hmem
  exact ⟨out, hout, json_sound refined_schema_wf henv (shipped_json_templates_flow nt hnt) hv hs hout⟩

/-- … composed with the evaluator: for every group evaluation and every notification around it with
    JSON-safe names, the HTTP and Slack payloads, open and close, are well-formed JSON. -/
theorem every_status_renders_json (meets : Nat → Nat → Bool) (now : Int) (allowed : Nat)
    (topics : List (String × List Eval.Partition)) (g : Group.GroupStatus)
    (h : Group.evaluateGroup meets now allowed topics = some g)
    (o : Opaque) (id cluster group : String) (start : Int) (extras : List (String × String)) (env : Env)
    (henv : EnvOk env)
    (hsafe : Proofs.TmplData.SafeNotification o { id, start, extras, cluster, group, result := Group.filterView g }) :
    ∀ nt ∈ jsonTemplates, ∃ out,
      exec (refine dataSchema) env nt.2
        (dataVal o { id, start, extras, cluster, group, result := Group.filterView g }) = .ok out ∧
      Json.valid out = true :=
  shipped_json_templates_wellformed env henv _
    (Proofs.TmplData.dataTy o _ (notifier_view_meets_invariant meets now allowed topics g h))
    (Proofs.TmplData.dataSafe o _ hsafe)

/-- the evaluator's float32 division as emulated bit for bit (`F32.divBits`, compared with the real
    division on every evaluation of the `eval` stream) -/
def divOpaque (obs : Commit → Int) : Opaque := ⟨fun x => F32.divBits x.1 x.2, obs⟩

/-- … and with that division the float hypothesis is discharged: for windows and partition counts
    below 2^24, JSON-safe NAMES alone make every HTTP and Slack payload well-formed JSON. -/
theorem every_status_renders_json_names_only (meets : Nat → Nat → Bool) (now : Int) (allowed : Nat)
    (topics : List (String × List Eval.Partition)) (g : Group.GroupStatus)
    (h : Group.evaluateGroup meets now allowed topics = some g)
    (hsz : ∀ tp ∈ topics, ∀ p ∈ tp.2, p.offsets.length < 2^24) (hcount : g.totalPartitions < 2^24)
    (obs : Commit → Int) (id cluster group : String) (start : Int) (extras : List (String × String)) (env : Env)
    (henv : EnvOk env)
    (hid : safeStr id = true) (hcl : safeStr cluster = true) (hgr : safeStr group = true)
    (hex : ∀ kv ∈ extras, safeStr kv.2 = true)
    (hparts : ∀ p ∈ g.partitions, Proofs.TmplData.SafePart p) :
    ∀ nt ∈ jsonTemplates, ∃ out,
      exec (refine dataSchema) env nt.2
        (dataVal (divOpaque obs) { id, start, extras, cluster, group, result := Group.filterView g }) = .ok out ∧
      Json.valid out = true := by
  obtain ⟨hc, hp, hm⟩ := Proofs.TmplData.evaluateGroup_pairs meets now allowed topics g hsz h hcount
  have hmax : ∀ p, g.maxlag = some p → p ∈ g.partitions := by
    intro p hp'
    unfold Group.evaluateGroup at h
    cases h1 : Group.evalTopics meets now allowed topics with
    | none => simp [h1] at h
    | some ps =>
      simp [h1] at h; subst h
      rcases Proofs.TmplData.maxlag_mem ps none p hp' with hm' | hm'
      · exact hm'
      · cases hm'
  refine every_status_renders_json meets now allowed topics g h (divOpaque obs) id cluster group start extras env henv
    { id := hid, cluster := hcl, group := hgr, extras := hex,
      parts := ?_, maxlag := ?_, floats := ⟨?_, ?_, ?_⟩ }
  · intro p hp'
    exact hparts p (List.mem_filter.mp hp').1
  · intro p hp'
    exact hparts p (hmax p hp')
  · exact Proofs.TmplData.pairOk_finite hc
  · intro p hp'
    exact Proofs.TmplData.pairOk_finite (hp p (List.mem_filter.mp hp').1)
  · intro p hp'
    exact Proofs.TmplData.pairOk_finite (hm p hp')

/-- The flow analysis is not a rubber stamp: a hole outside a string that prints a name is refused … -/
example : jsonOk (refine dataSchema)
    (.text "{\"group\":" (.action [.field [] "Group" []] (.text "}" .done))) dataType = false := by decide

set_option maxRecDepth 16384 in
/-- … and "JSON-safe names" is needed: with a quote in the group name the Slack template's output is
    not JSON (on the model; the `tmpl` stream shows the same on the real renderer). -/
example : (shippedTemplates.lookup "default-slack-post.tmpl").map (fun t =>
    match exec (refine dataSchema) ⟨fun _ _ => "T", fun _ => "0.5", "[]"⟩ t
      (dataVal ⟨fun _ => 0, fun _ => 0⟩ { sampleNotification with group := "a\"b" }) with
    | .ok out => Json.valid out
    | _ => true) = some false := by decide

/-- the assumptions on Go's renderers are satisfiable (a constant environment meets them) … -/
theorem sampleEnvOk : EnvOk ⟨fun _ _ => "T", fun _ => "0.5", "[]"⟩ where
  time := fun _ _ => by show safeStr "T" = true; decide
  floatSafe := fun _ _ => by show safeStr "0.5" = true; decide
  floatNum := fun _ σ _ => ⟨.frac, Or.inr (Or.inr (Or.inl rfl)), by
    show Json.run _ "0.5".toList = _
    rw [show "0.5".toList = ['0', '.', '5'] from by decide]; rfl⟩
  parts := by decide

/-- … and the sample notification is JSON-safe, so the JSON theorem applies to it. -/
example : Proofs.TmplData.SafeNotification ⟨fun _ => 0, fun _ => 0⟩ sampleNotification where
  id := by decide
  cluster := by decide
  group := by decide
  extras := by decide
  parts := by
    intro p hp
    simp [sampleNotification] at hp
    subst hp
    exact ⟨by decide, by decide, by decide⟩
  maxlag := by intro p hp; simp [sampleNotification] at hp
  floats := ⟨by decide, by intro p _; show finite32 0 = true; decide, by intro p _; show finite32 0 = true; decide⟩

/-- … non-vacuity: it meets the invariant, so it inhabits the refined type, and the first shipped
    template renders on it. -/
example : ProblemsHaveEnds sampleNotification.result := by
  intro p hp
  simp [sampleNotification] at hp
  subst hp
  exact ⟨rfl, rfl⟩

example : (shippedTemplates.head?.map fun nt =>
    (exec (refine dataSchema) ⟨fun _ _ => "T", fun _ => "0.5", "[]"⟩ nt.2
      (dataVal ⟨fun _ => 0, fun _ => 0⟩ sampleNotification)).isOk) = some true := by decide

/-! ### the partition helpers of the documented function map -/

/-- **`topicsbystatus` puts a topic under a status name exactly when one of the listed partitions of that
    topic is in that status** (for every partition list) -/
theorem topicsbystatus_lists_the_topics_of_each_status (ps : List HPart) (s t : String) :
    (∃ ts, (s, ts) ∈ topicsByStatus ps ∧ t ∈ ts) ↔ ∃ p ∈ ps, statusName p.status = s ∧ p.topic = t :=
  topicsByStatus_spec ps s t

/-- … with each status name and, under it, each topic once -/
theorem topicsbystatus_has_no_repeats (ps : List HPart) :
    ((topicsByStatus ps).map (·.1)).Nodup ∧ ∀ kv ∈ topicsByStatus ps, kv.2.Nodup :=
  ⟨topicsByStatus_keys_nodup ps, topicsByStatus_topics_nodup ps⟩

/-- **`partitioncounts` counts every listed partition that is not OK exactly once** -/
theorem partitioncounts_counts_each_problem_once (ps : List HPart) :
    ((partitionCounts ps).map (·.2)).sum = (ps.filter fun p => p.status != 1).length :=
  partitionCounts_total ps

/-- a topic with partitions in two states is listed under both -/
example : topicsByStatus [⟨2, "a"⟩, ⟨4, "a"⟩, ⟨2, "b"⟩, ⟨2, "a"⟩] = [("WARN", ["a", "b"]), ("STOP", ["a"])] := by decide
example : partitionCounts [⟨2, "a"⟩, ⟨4, "a"⟩, ⟨1, "b"⟩, ⟨3, "a"⟩] =
    [("rewind", 0), ("stall", 0), ("stop", 1), ("unknown", 1), ("warn", 1)] := by decide

end Burrow.Props.C20
