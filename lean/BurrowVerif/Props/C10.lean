/-
  C10 — Group allow/deny lists are enforced on every path.  Property theorems only.
  Regexp matching is a parameter (oracle bits computed by the harness with Go's regexp).
-/
import BurrowVerif.Proofs.Accept
import BurrowVerif.Proofs.Notifier

namespace Burrow.Props.C10
open Burrow Burrow.Storage Burrow.Spec.Storage

/-- A group is tracked exactly when it matches the allowlist (if one is set) and does not match the
    denylist (if one is set) — conjunction, not disjunction. -/
theorem accept_iff (cfg : Config) (r : Request) :
    accept cfg r = true ↔ (cfg.allowSet = true → r.allowMatch = true) ∧ (cfg.denySet = true → r.denyMatch = false) :=
  Proofs.Accept.accept_iff cfg r

/-- A rejected group's commit, ownership update and owner clear leave storage untouched. -/
theorem rejected_commit_ignored (s : Store) (now : Int) (r : Request) (h : accept s.cfg r = false) :
    (addConsumerOffset s now r).1 = s :=
  Proofs.Accept.rejected_commit_ignored s now r h

theorem rejected_owner_ignored (s : Store) (r : Request) (h : accept s.cfg r = false) :
    (addConsumerOwner s r).1 = s :=
  Proofs.Accept.rejected_owner_ignored s r h

theorem rejected_clear_ignored (s : Store) (r : Request) (h : accept s.cfg r = false) :
    (clearConsumerOwners s r).1 = s :=
  Proofs.Accept.rejected_clear_ignored s r h

/-- Whatever the history, every group in any listing was created by a commit or ownership update
    that the lists accept: a rejected group never enters storage. -/
theorem storage_tracks_only_accepted (cfg : Config) (clusters : List String) (ops : List Op)
    (c g : String) (h : g ∈ groupsOf (run (Store.init cfg clusters) ops) c) :
    ∃ op ∈ ops, op.creates c g = true ∧ ∃ r, op.request? = some r ∧ accept cfg r = true :=
  Proofs.Accept.storage_tracks_only_accepted cfg clusters ops c g h

/-- The offsets-topic reader forwards no request — offset, ownership, clear or delete — for a group
    its lists reject, whatever the bytes. -/
theorem kafka_reader_forwards_only_accepted (acc : Decode.Accept) (order : Int) (k v : Decode.Bytes) :
    ∀ r ∈ (Decode.processMessage acc order k v).reqs, acc r.group = true :=
  Proofs.Accept.kafka_reader_forwards_only_accepted acc order k v

/-- A notifier module whose lists reject a group is never notified about it (open or close). -/
theorem notifier_notifies_only_accepted (cfgs : List Notifier.ModuleCfg) (evs : List Notifier.Ev) (j : Nat)
    (n : Notifier.Notification) (hn : n ∈ Spec.Notifier.notesAt cfgs evs j) :
    ∃ ej, evs[j]? = some ej ∧ ∃ cfg ∈ cfgs, cfg.name = n.module ∧ ej.acc cfg.name = true := by
  cases hc : n.close with
  | true =>
    obtain ⟨⟨ej, hej, _, cfg, hcfg, hname, _, hacc⟩, _⟩ :=
      Proofs.Notifier.no_close_without_incident cfgs evs j n hn hc
    exact ⟨ej, hej, cfg, hcfg, hname, hacc⟩
  | false =>
    obtain ⟨ej, hej, cfg, hcfg, hname, hacc, _⟩ :=
      Proofs.Notifier.open_only_at_threshold_and_accepted cfgs evs j n hn hc
    exact ⟨ej, hej, cfg, hcfg, hname, hacc⟩

/-! ### Non-vacuity -/

private def cfg : Config := { intervals := 2, expireGroup := 100, minDistance := 0, allowSet := true, denySet := true }
-- allowlisted but also denylisted: rejected (the `||` mutant would accept)
example : accept cfg { allowMatch := true, denyMatch := true } = false := by decide
example : accept cfg { allowMatch := true, denyMatch := false } = true := by decide

end Burrow.Props.C10
