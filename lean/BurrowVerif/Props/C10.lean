/-
  C10 — Group allow/deny lists are enforced on every path.  Property theorems only.
  Regexp matching is a parameter (oracle bits computed by the harness with Go's regexp).
-/
import BurrowVerif.Model.StorageConf
import BurrowVerif.Proofs.Accept
import BurrowVerif.Proofs.Notifier
import BurrowVerif.Model.ZkReader

namespace Burrow.Props.C10
open Burrow Burrow.Storage Burrow.Spec.Storage

/-- A group is tracked exactly when it matches the allowlist (if one is set) and does not match the
    denylist (if one is set) — conjunction, not disjunction. -/
theorem accept_iff (cfg : Config) (r : Request) :
    accept cfg r = true ↔ (cfg.allowSet = true → r.allowMatch = true) ∧ (cfg.denySet = true → r.denyMatch = false) :=
  Proofs.Accept.accept_iff cfg r

/-- A rejected group's commit, ownership update and owner clear leave storage untouched. -/
theorem rejected_commit_ignored (s : Store) (now : Int) (r : Request) (h : accept s.cfg r = false) :
    (addConsumerOffset s now r).1 = s :=
  Proofs.Accept.rejected_commit_ignored s now r h

theorem rejected_owner_ignored (s : Store) (r : Request) (h : accept s.cfg r = false) :
    (addConsumerOwner s r).1 = s :=
  Proofs.Accept.rejected_owner_ignored s r h

theorem rejected_clear_ignored (s : Store) (r : Request) (h : accept s.cfg r = false) :
    (clearConsumerOwners s r).1 = s :=
  Proofs.Accept.rejected_clear_ignored s r h

/-- Whatever the history, every group in any listing was created by a commit or ownership update
    that the lists accept: a rejected group never enters storage. -/
theorem storage_tracks_only_accepted (cfg : Config) (clusters : List String) (ops : List Op)
    (c g : String) (h : g ∈ groupsOf (run (Store.init cfg clusters) ops) c) :
    ∃ op ∈ ops, op.creates c g = true ∧ ∃ r, op.request? = some r ∧ accept cfg r = true :=
  Proofs.Accept.storage_tracks_only_accepted cfg clusters ops c g h

/-- The offsets-topic reader forwards no request — offset, ownership, clear or delete — for a group
    its lists reject, whatever the bytes. -/
theorem kafka_reader_forwards_only_accepted (acc : Decode.Accept) (order : Int) (k v : Decode.Bytes) :
    ∀ r ∈ (Decode.processMessage acc order k v).reqs, acc r.group = true :=
  Proofs.Accept.kafka_reader_forwards_only_accepted acc order k v

/-- A notifier module whose lists reject a group is never notified about it (open or close). -/
theorem notifier_notifies_only_accepted (cfgs : List Notifier.ModuleCfg) (evs : List Notifier.Ev) (j : Nat)
    (n : Notifier.Notification) (hn : n ∈ Spec.Notifier.notesAt cfgs evs j) :
    ∃ ej, evs[j]? = some ej ∧ ∃ cfg ∈ cfgs, cfg.name = n.module ∧ ej.acc cfg.name = true := by
  cases hc : n.close with
  | true =>
    obtain ⟨⟨ej, hej, _, cfg, hcfg, hname, _, hacc⟩, _⟩ :=
      Proofs.Notifier.no_close_without_incident cfgs evs j n hn hc
    exact ⟨ej, hej, cfg, hcfg, hname, hacc⟩
  | false =>
    obtain ⟨ej, hej, cfg, hcfg, hname, hacc, _⟩ :=
      Proofs.Notifier.open_only_at_threshold_and_accepted cfgs evs j n hn hc
    exact ⟨ej, hej, cfg, hcfg, hname, hacc⟩

/-! ### Non-vacuity -/

private def cfg : Config := { intervals := 2, expireGroup := 100, minDistance := 0, allowSet := true, denySet := true }
-- allowlisted but also denylisted: rejected (the `||` mutant would accept)
example : accept cfg { allowMatch := true, denyMatch := true } = false := by decide
example : accept cfg { allowMatch := true, denyMatch := false } = true := by decide

/-! ### the Zookeeper offsets reader -/

section ZkReader
open Burrow.ZkReader

/-- what one (re)read of an offset node forwards concerns only that node's group, and only if the group
    passes the lists -/
theorem zk_forwardOne_accepted (e : Entry) : ∀ fw ∈ forwardOne e, e.acc = true ∧ fw.group = e.group := by
  intro fw h
  unfold forwardOne at h
  split at h
  · rename_i hacc
    split at h
    · simp only [List.mem_cons, List.mem_nil_iff, or_false] at h
      rcases h with rfl | rfl <;> exact ⟨hacc, rfl⟩
    · simp at h
  · simp at h

/-- **the Zookeeper reader forwards no offset and no ownership update for a rejected group** — at
    Start, on every later change of the tree, and when every watch is re-made after a session expiry:
    for every tree, every op and every verdict function of the module's lists -/
theorem zk_reader_forwards_only_accepted (accOf : String → Bool) (s : ZkReader.St) (op : ZkReader.Op)
    (hs : ∀ e ∈ s.tree, e.acc = accOf e.group) (hop : ∀ e : Entry, op = .set e → e.acc = accOf e.group) :
    (∀ fw ∈ (ZkReader.step s op).2, accOf fw.group = true) ∧
    (∀ e ∈ (ZkReader.step s op).1.tree, e.acc = accOf e.group) := by
  have hwalk : ∀ fw ∈ walk s.tree, accOf fw.group = true := by
    intro fw h
    simp only [walk, List.mem_flatMap] at h
    obtain ⟨e, he, hfw⟩ := h
    obtain ⟨h1, h2⟩ := zk_forwardOne_accepted e fw hfw
    rw [h2, ← hs e he]; exact h1
  cases op with
  | set e =>
    have hacc := hop e rfl
    constructor
    · intro fw h
      simp only [ZkReader.step] at h
      split at h
      · obtain ⟨h1, h2⟩ := zk_forwardOne_accepted e fw h
        rw [h2, ← hacc]; exact h1
      · simp at h
    · intro x hx
      simp only [ZkReader.step, upsert, List.mem_cons, List.mem_filter] at hx
      rcases hx with rfl | ⟨hx, _⟩
      · exact hacc
      · exact hs x hx
  | start => exact ⟨by simpa [ZkReader.step] using hwalk, by simpa [ZkReader.step] using hs⟩
  | expire =>
    constructor
    · intro fw h
      simp only [ZkReader.step] at h
      split at h
      · exact hwalk fw h
      · simp at h
    · simpa [ZkReader.step] using hs

/-- … and it does forward every commit of an accepted group whose offset node holds a number, with the
    node's modification id as the order and its owner alongside -/
theorem zk_reader_forwards_accepted_commits (s : ZkReader.St) (e : Entry) (v : Int) (hst : s.started = true)
    (hacc : e.acc = true) (hp : e.parsed = some v) :
    (ZkReader.step s (.set e)).2 =
      [.offset e.group e.topic e.partition v e.zxid (e.zxid * 1000), .owner e.group e.topic e.partition e.owner] := by
  simp [ZkReader.step, hst, forwardOne, hacc, hp]

/-- … and when every watch is re-made (Start, and again after a session expiry) every commit of an
    accepted group that the tree holds is forwarded again, none is skipped -/
theorem zk_reader_rewalk_is_complete (s : ZkReader.St) (e : Entry) (v : Int) (hst : s.started = true) (he : e ∈ s.tree)
    (hacc : e.acc = true) (hp : e.parsed = some v) :
    Fw.offset e.group e.topic e.partition v e.zxid (e.zxid * 1000) ∈ (ZkReader.step s .expire).2 ∧
    Fw.owner e.group e.topic e.partition e.owner ∈ (ZkReader.step s .expire).2 := by
  have hmem : ∀ fw ∈ forwardOne e, fw ∈ (ZkReader.step s .expire).2 := by
    intro fw hfw
    simp only [ZkReader.step, hst, if_true, walk, List.mem_flatMap]
    exact ⟨e, he, hfw⟩
  constructor <;> apply hmem <;> simp [forwardOne, hacc, hp]

end ZkReader


/-! ### which lists the storage module is given (its `Configure`, tied by the `S sconf` ops, which run it) -/

section StorageConf
open Burrow.StorageConf

/-- **a group is tracked exactly when it matches the module's own allowlist (if one is set) and not its
    denylist (if one is set)** — for the lists `Configure` compiles from the module's table -/
theorem storage_accepts_iff (s : Spec) (g : String) :
    s.accepts g = true ↔
      (∀ m, s.allow.list = some m → m g = true) ∧ (∀ m, s.deny.list = some m → m g = false) := by
  unfold Spec.accepts
  cases ha : s.allow.list <;> cases hd : s.deny.list <;> simp

/-- **"if one is set"**: a list key that is absent, or present with the empty string (as the shipped
    configuration files write it), sets no list — with neither list every group is tracked -/
theorem empty_string_sets_no_list (s : Spec) (g : String)
    (ha : s.allow = .absent ∨ s.allow = .empty) (hd : s.deny = .absent ∨ s.deny = .empty) : s.accepts g = true := by
  unfold Spec.accepts
  rcases ha with ha | ha <;> rcases hd with hd | hd <;> simp [ha, hd, ListKey.list]

example : ({ intervals := none, expireGroup := none, minDistance := none, workers := none, queueDepth := none,
             allow := .pattern (· == "g0"), deny := .empty } : Spec).accepts "g0" = true ∧
          ({ intervals := none, expireGroup := none, minDistance := none, workers := none, queueDepth := none,
             allow := .pattern (· == "g0"), deny := .empty } : Spec).accepts "g1" = false := by decide

end StorageConf

end Burrow.Props.C10
