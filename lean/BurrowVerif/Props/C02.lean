/-
  C02 — Offset window holds the newest N commits in log order, however they arrive.
  Property theorems only.  `Storage.placeCommit` (via `stepRing`/`runRing`) is the pointer-level
  model of findConsumerOffsetDestination / mergeFrequentCommitIntoPrevious / storeConsumerOffset;
  `Ring.readout` is the read-out of getConsumerTopicList.
-/
import BurrowVerif.Proofs.Window
import BurrowVerif.Proofs.Ring

namespace Burrow.Props.C02
open Burrow Burrow.Storage Burrow.Spec.Window

/-- Every ring size `N ≥ 1`, every minimum-distance setting, every finite arrival sequence: the model
    never runs out of fuel (the Go search loop terminates), the ring keeps its size, and the read-out
    is `k` unfilled slots followed by commits strictly increasing in log position. -/
theorem window_inv (N : Nat) (hN : 1 ≤ N) (md : Int) (cs : List In) :
    ∃ r, runRing N md cs = some r ∧ r.len = N ∧ WF N r.readout :=
  Proofs.Window.window_inv Proofs.Ring.refine_step N hN md cs

/-- The same, as a one-step invariant from *any* well-formed ring (used by C01/C09 for every
    reachable storage state). -/
theorem step_preserves (N : Nat) (hN : 1 ≤ N) (md : Int) (r : Ring Commit) (c : In)
    (hlen : r.len = N) (hwf : WF N r.readout) :
    ∃ r', stepRing md r c = some r' ∧ r'.len = N ∧ WF N r'.readout :=
  Proofs.Window.step_preserves Proofs.Ring.refine_step N hN md r c hlen hwf

/-- Refinement: the pointer-level model of the Go code computes exactly the abstract list-level
    step (`Spec.Window.specStep`: drop / merge into predecessor / sorted insert with eviction). -/
theorem refines_abstract_step (N : Nat) (hN : 1 ≤ N) (md : Int) (r : Ring Commit) (c : In)
    (hlen : r.len = N) (hwf : WF N r.readout) :
    ∃ r', stepRing md r c = some r' ∧ r'.len = N ∧ r'.readout = specStep md r.readout c :=
  Proofs.Ring.refine_step N hN md r c hlen hwf

/-- The newest stored commit is the commit with the greatest log position ever seen. -/
theorem newest_is_max (N : Nat) (hN : 1 ≤ N) (md : Int) (cs : List In) (hne : cs ≠ [])
    (r : Ring Commit) (hr : runRing N md cs = some r) :
    ∃ last, (stored r.readout).getLast? = some last ∧ (∀ c ∈ cs, c.order ≤ last.order) ∧
      ∃ c ∈ cs, c.order = last.order :=
  Proofs.Window.newest_is_max Proofs.Ring.refine_step N hN md cs hne r hr

/-- Minimum distance disabled, timestamps non-decreasing along the log, a log position identifies a
    record: the window is exactly the newest (at most `N`) commits seen, ranked by position, each
    with its own offset and timestamp. -/
theorem window_is_topN (N : Nat) (hN : 1 ≤ N) (cs : List In) (hf : Functional cs) (hm : TsMono cs)
    (r : Ring Commit) (hr : runRing N 0 cs = some r) :
    IsTopN N cs (stored r.readout) :=
  Proofs.Window.window_is_topN Proofs.Ring.refine_step N hN cs hf hm r hr

/-- … hence stored offsets, positions and timestamps depend only on the *set* of commits seen, not
    on arrival order or duplication (live and backfill streams overlapping). -/
theorem arrival_order_irrelevant (N : Nat) (hN : 1 ≤ N) (cs₁ cs₂ : List In)
    (hset : ∀ x, x ∈ cs₁.map In.key ↔ x ∈ cs₂.map In.key)
    (hf : Functional cs₁) (hm : TsMono cs₁)
    (r₁ r₂ : Ring Commit) (h₁ : runRing N 0 cs₁ = some r₁) (h₂ : runRing N 0 cs₂ = some r₂) :
    r₁.readout.map (Option.map key) = r₂.readout.map (Option.map key) :=
  Proofs.Window.arrival_order_irrelevant Proofs.Ring.refine_step N hN cs₁ cs₂ hset hf hm r₁ r₂ h₁ h₂

/-- One arrival, any minimum distance.  A dropped commit (position already stored, or not newer
    than the oldest entry of a full window) changes nothing. -/
theorem dropped_step (N : Nat) (hN : 1 ≤ N) (md : Int) (r r' : Ring Commit) (c : In)
    (hlen : r.len = N) (hwf : WF N r.readout) (hstep : stepRing md r c = some r')
    (hd : Dropped r.readout c.order) : r'.readout = r.readout :=
  Proofs.Window.dropped_step Proofs.Ring.refine_step N hN md r r' c hlen hwf hstep hd

/-- A commit closer in time to its predecessor than the minimum distance replaces that
    predecessor's offset and position, keeps the predecessor's timestamp, and takes no slot. -/
theorem merge_step (N : Nat) (hN : 1 ≤ N) (md : Int) (r r' : Ring Commit) (c : In) (p : Commit)
    (hlen : r.len = N) (hwf : WF N r.readout) (hstep : stepRing md r c = some r')
    (hnd : ¬ Dropped r.readout c.order) (hp : MergePred r.readout c.order p)
    (hclose : c.ts - p.ts < md * 1000) :
    (stored r'.readout).map key =
      (stored r.readout).map (fun q => if q = p then (c.offset, c.order, p.ts) else key q) ∧
    r'.readout.length = r.readout.length :=
  Proofs.Window.merge_step Proofs.Ring.refine_step N hN md r r' c p hlen hwf hstep hnd hp hclose

/-- Otherwise (not dropped, no mergeable predecessor close enough) the commit occupies a slot of
    its own, with its own timestamp; every other stored commit stays, except that a full window
    loses its oldest entry. -/
theorem own_slot_step (N : Nat) (hN : 1 ≤ N) (md : Int) (r r' : Ring Commit) (c : In)
    (hlen : r.len = N) (hwf : WF N r.readout) (hstep : stepRing md r c = some r')
    (hnd : ¬ Dropped r.readout c.order)
    (hfar : ∀ p, MergePred r.readout c.order p → ¬ (c.ts - p.ts < md * 1000)) :
    (∃ q ∈ stored r'.readout, key q = c.key) ∧
    (∀ q ∈ stored r.readout, q ∈ stored r'.readout ∨ r.readout.head?.join = some q) :=
  Proofs.Window.own_slot_step Proofs.Ring.refine_step N hN md r r' c hlen hwf hstep hnd hfar

/-! ### Non-vacuity: the repository's own test table (inmemory_test.go `consumerOffsetTests`),
    replayed on the model with N = 10 (tests 2, 3, 4: insert between, insert into a full ring,
    replace the oldest of a full ring). -/

private def mk (off ord ts : Int) : In := { broker := 10000, offset := off, order := ord, ts := ts }
private def ks (r : Option (Ring Commit)) : List (Int × Int × Int) :=
  match r with | some r => (stored r.readout).map key | none => []

example : ks (runRing 10 0 [mk 1000 20 100000, mk 2000 30 300000, mk 3000 40 400000, mk 1500 25 200000])
    = [(1000, 20, 100000), (1500, 25, 200000), (2000, 30, 300000), (3000, 40, 400000)] := by decide

private def full10 : List In :=
  (List.range 10).map fun (i : Nat) => mk (1000 * ((i : Int) + 1)) (10 * ((i : Int) + 1)) (100000 * ((i : Int) + 1))

example : ks (runRing 10 0 (full10 ++ [mk 5500 55 550000]))
    = [(2000, 20, 200000), (3000, 30, 300000), (4000, 40, 400000), (5000, 50, 500000), (5500, 55, 550000),
       (6000, 60, 600000), (7000, 70, 700000), (8000, 80, 800000), (9000, 90, 900000), (10000, 100, 1000000)] := by
  decide +kernel

example : ks (runRing 10 0 (full10 ++ [mk 1500 15 150000]))
    = [(1500, 15, 150000), (2000, 20, 200000), (3000, 30, 300000), (4000, 40, 400000), (5000, 50, 500000),
       (6000, 60, 600000), (7000, 70, 700000), (8000, 80, 800000), (9000, 90, 900000), (10000, 100, 1000000)] := by
  decide +kernel

-- a merge (min distance 60 s): the second commit replaces the first one's offset, keeps its timestamp
example : ks (runRing 3 60 [mk 1000 1 100000, mk 1100 2 130000, mk 1200 3 200000])
    = [(1100, 2, 100000), (1200, 3, 200000)] := by decide

-- the hypotheses of `merge_step` are satisfiable
example : MergePred [none, some ⟨1000, 1, 100000, some 9000⟩] 2 ⟨1000, 1, 100000, some 9000⟩ := by
  refine ⟨by decide, by decide, ?_, ?_⟩
  · intro q hq _; simp [stored] at hq; subst hq; decide
  · intro h; simp at h

end Burrow.Props.C02
