/-
  C15 — Only the Zookeeper lock holder evaluates and notifies.  Property theorems only.

  `ZkLoop.step` models manageEvalLoop + the zookeeper coordinator's session events + the request loops,
  with the environment (lock results, expiry, reconnection) free to act at ANY point.  The theorems are
  over the modelled atomic steps; preemption inside them and the unsynchronised `doEvaluations` bool are
  not modelled.
-/
import BurrowVerif.Model.ZkLoop

namespace Burrow.Props.C15
open Burrow.ZkLoop

/-- what holds in every reachable state, whatever the environment does and whenever it does it -/
structure Inv (s : St) : Prop where
  /-- the gate is open only while the manager is between setting the flag and clearing it -/
  flagPc : s.flag = true → s.pc = .flagSet ∨ s.pc = .waiting ∨ s.pc = .woken
  /-- from `Lock()` returning until the manager looks at the expiration count, the lock is owned or an
      expiry has been counted -/
  owned  : s.pc = .locked ∨ s.pc = .flagSet → s.owns = true ∨ s.pending = true
  /-- the manager WAITS only while it owns the lock and no expiry is uncounted: no expiry is ever lost -/
  waits  : s.pc = .waiting → s.owns = true ∧ s.pending = false
  /-- no sweep ever ran without the lock, other than in the instants between an expiry and the manager
      clearing the flag (`woken`; `flagSet` with an expiry counted) -/
  clean  : s.badSweeps = 0

/-- the resume protocol, in every reachable state whatever the environment does: the stage counter is
    tied to the program counter — after the flag was cleared (stage 0) the manager reaches `unlocking`
    only having seen the connection back (1), `sleeping` only after the old lock was released (2), and
    `locked`/`flagSet`/`waiting` only after the lock was acquired again (3) -/
structure Resume (s : St) : Prop where
  waitConn  : s.pc = .waitConn → s.stage = 0
  unlocking : s.pc = .unlocking → s.stage = 1
  idle      : s.pc = .sleeping ∨ s.pc = .locking → s.stage = 2 ∨ s.stage = 3
  gate      : s.pc = .locked ∨ s.pc = .flagSet ∨ s.pc = .waiting ∨ s.pc = .woken → s.stage = 3

theorem resume_step {s s' : St} {e : Ev} (h : Resume s) (hs : step s e = some s') : Resume s' := by
  obtain ⟨h1, h2, h3, h4⟩ := h
  rcases Bool.eq_false_or_eq_true s.pending with hp0 | hp0
  all_goals cases e <;> simp only [step, hp0] at hs
  all_goals try split at hs
  all_goals try (simp at hs; done)
  all_goals (simp only [Option.some.injEq] at hs; subst hs)
  all_goals (constructor <;> intro hp <;> simp_all <;> omega)

theorem resume_run : ∀ (evs : List Ev) {s s' : St}, Resume s → run s evs = some s' → Resume s' := by
  intro evs
  induction evs with
  | nil => intro s s' h hr; simp [run] at hr; subst hr; exact h
  | cons e es ih =>
    intro s s' h hr
    simp only [run] at hr
    cases hs : step s e with
    | none => simp [hs] at hr
    | some s1 => rw [hs] at hr; exact ih (resume_step h hs) hr

/-- **resumes only after reconnection, release and re-acquisition** — for every sequence of lock
    failures, expiries and reconnections with any timing -/
theorem resumes_only_after (evs : List Ev) (s : St) (h : run {} evs = some s) : Resume s :=
  resume_run evs ⟨by simp, by simp, by simp, by simp⟩ h

theorem inv_step {s s' : St} {e : Ev} (h : Inv s) (hs : step s e = some s') : Inv s' := by
  obtain ⟨h1, h2, h3, h4⟩ := h
  rcases Bool.eq_false_or_eq_true s.pending with hp0 | hp0
  all_goals cases e <;> simp only [step, hp0] at hs
  all_goals try split at hs
  all_goals try (simp at hs; done)
  all_goals (simp only [Option.some.injEq] at hs; subst hs)
  all_goals (constructor <;> (try intro hp) <;> simp_all <;> (try omega))
  all_goals (try (rcases h1 with h | h | h <;> simp_all))
  all_goals (try (intros; rcases h1 with h | h <;> simp_all))

theorem inv_run : ∀ (evs : List Ev) {s s' : St}, Inv s → run s evs = some s' → Inv s' := by
  intro evs
  induction evs with
  | nil => intro s s' h hr; simp [run] at hr; subst hr; exact h
  | cons e es ih =>
    intro s s' h hr
    simp only [run] at hr
    cases hs : step s e with
    | none => simp [hs] at hr
    | some s1 => rw [hs] at hr; exact ih (inv_step h hs) hr

/-- **only the lock holder evaluates**: for EVERY sequence of lock failures, expiries, reconnections and
    other session events with any timing — including an expiry broadcast between `Lock()` returning and
    the manager reaching `Wait()` — in every reachable state: the gate is open only between setting and
    clearing the flag; the manager waits only while it owns the lock and no expiry is uncounted; and no
    sweep has ever run without the lock, other than in the instants between an expiry and the manager
    clearing the flag.  (Full strength since the repair of D12: the manager notes the expiration count
    before `Lock()` and does not wait if it has changed.) -/
theorem holder_only (evs : List Ev) (s : St) (h : run {} evs = some s) : Inv s :=
  inv_run evs ⟨by simp, by simp, by simp, rfl⟩ h

/-- **no expiry is lost**: in no reachable state is the manager waiting with an expiry it has not counted -/
theorem expiry_never_lost (evs : List Ev) (s : St) (h : run {} evs = some s) (hw : s.pc = .waiting) :
    s.pending = false ∧ s.owns = true :=
  let i := holder_only evs s h
  ⟨(i.waits hw).2, (i.waits hw).1⟩

/-- after an expiry has woken the manager the only thing it can do is clear the flag -/
theorem woken_clears (s s' : St) (e : Ev) (hpc : s.pc = .woken) (hs : step s e = some s') :
    s'.pc = .woken ∨ (e = .clearFlag ∧ s'.flag = false) := by
  cases e <;> simp only [step] at hs
  all_goals try split at hs
  all_goals try (simp at hs; done)
  all_goals (simp only [Option.some.injEq] at hs; subst hs)
  all_goals simp_all

/-- session events other than Expired and Connected (Disconnected, Connecting, HasSession, …) are
    ignored by the zookeeper coordinator: in particular none of them makes the session count as
    connected.  (All theorems above quantify over event sequences that may contain them anywhere.) -/
theorem other_session_events_change_nothing (s : St) : step s .otherSession = some s := rfl

/-! ### the lost wake-up (D12), repaired -/

/-- the expiry is broadcast after `Lock()` returned and before the manager waits -/
def lostWakeupTrace : List Ev := [.wake, .lockOk, .expire, .setFlag, .enterWait]

/-- the defect that was repaired: under the ORIGINAL protocol (`Wait()` unconditionally) that trace
    leaves the manager waiting with the gate open and the lock gone, and the request loop's sweeps run
    without the lock for as long as no further expiry comes -/
theorem original_protocol_lost_the_wakeup :
    (runOld {} (lostWakeupTrace ++ [.sweep, .reconnect, .sweep, .sweep])).map
      (fun s => (s.pc, s.flag, s.owns, s.badSweeps)) = some (.waiting, true, false, 3) := by decide

/-- under the repaired protocol the same trace ends with the manager woken (it did not wait), whose
    only move is to clear the flag (`woken_clears`) … -/
theorem early_expiry_is_seen :
    (run {} lostWakeupTrace).map (fun s => (s.pc, s.pending)) = some (.woken, true) := by decide

/-- … and the whole recovery runs: flag cleared, loop ended, connection back, old lock released, lock
    taken again, evaluations resumed — without a single sweep outside the lock -/
example : (run {} (lostWakeupTrace ++ [.sweep, .clearFlag, .loopExit, .reconnect, .seeConnected, .unlockOk, .wake, .lockOk,
    .setFlag, .enterWait, .sweep])).map (fun s => (s.pc, s.flag, s.owns, s.badSweeps, s.stage)) =
    some (.waiting, true, true, 0, 3) := by decide

/-! ### pacing -/

/-- consecutive evaluation times are more than `m` apart -/
def SpacedFrom (m : Int) : Int → List Int → Prop
  | _, [] => True
  | prev, t :: rest => t - prev > m ∧ SpacedFrom m t rest

/-- **no group is evaluated more often than the shortest notifier interval**: whatever the sweep
    times (any number of request loops, any clock readings), the times at which a continuously listed
    group is evaluated are pairwise more than `minInterval` apart, and the first is more than
    `minInterval` after the group's initial `LastEval` -/
theorem pacing (minInterval : Int) : ∀ (sweepTimes : List Int) (lastEval : Int),
    SpacedFrom minInterval lastEval (evalTimes minInterval lastEval sweepTimes) := by
  intro ts
  induction ts with
  | nil => intro _; trivial
  | cons now rest ih =>
    intro lastEval
    simp only [evalTimes, sweepGroup]
    by_cases h : lastEval < now - minInterval
    · simp only [h, if_true]
      exact ⟨by omega, ih now⟩
    · simp only [h, if_false]
      exact ih lastEval

/-- non-vacuity: a full cycle — acquire, evaluate, expiry, reconnect, release, acquire again, evaluate —
    runs, and ends with the gate open and the lock owned -/
example : (run {} [.wake, .lockFail, .wake, .lockOk, .setFlag, .enterWait, .sweep, .expire, .sweep, .clearFlag,
    .loopExit, .reconnect, .seeConnected, .unlockOk, .wake, .lockOk, .setFlag, .enterWait, .sweep]).map
      (fun s => (s.flag, s.owns, s.badSweeps, s.stage)) = some (true, true, 0, 3) := by decide

end Burrow.Props.C15
