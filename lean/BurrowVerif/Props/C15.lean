/-
  C15 — Only the Zookeeper lock holder evaluates and notifies.  Property theorems only.

  `ZkLoop.step` models manageEvalLoop + the zookeeper coordinator's session events + the request loops,
  with the environment (lock results, expiry, reconnection) free to act at ANY point.  Partial by
  nature: the theorems are over the modelled atomic steps; preemption inside them and the unsynchronised
  `doEvaluations` bool are not modelled.
-/
import BurrowVerif.Model.ZkLoop

namespace Burrow.Props.C15
open Burrow.ZkLoop

/-- what holds in every reachable state as long as no expiry is broadcast between `Lock()` returning
    and the manager reaching `Wait()` -/
structure Inv (s : St) : Prop where
  /-- the gate is open only while the manager is between setting the flag and clearing it -/
  flagPc : s.flag = true → s.pc = .flagSet ∨ s.pc = .waiting ∨ s.pc = .woken
  /-- from `Lock()` returning until the expiry wakes the manager, the lock is owned -/
  owned  : s.pc = .locked ∨ s.pc = .flagSet ∨ s.pc = .waiting → s.owns = true
  /-- no sweep ever ran without the lock (other than in the instant between the broadcast and the
      manager clearing the flag) -/
  clean  : s.badSweeps = 0

/-- the resume protocol, in every reachable state whatever the environment does: the stage counter is
    tied to the program counter — after the flag was cleared (stage 0) the manager reaches `unlocking`
    only having seen the connection back (1), `sleeping` only after the old lock was released (2), and
    `locked`/`flagSet`/`waiting` only after the lock was acquired again (3) -/
structure Resume (s : St) : Prop where
  waitConn  : s.pc = .waitConn → s.stage = 0
  unlocking : s.pc = .unlocking → s.stage = 1
  idle      : s.pc = .sleeping ∨ s.pc = .locking → s.stage = 2 ∨ s.stage = 3
  gate      : s.pc = .locked ∨ s.pc = .flagSet ∨ s.pc = .waiting ∨ s.pc = .woken → s.stage = 3

theorem resume_step {s s' : St} {e : Ev} (h : Resume s) (hs : step s e = some s') : Resume s' := by
  obtain ⟨h1, h2, h3, h4⟩ := h
  cases e <;> simp only [step] at hs
  all_goals try split at hs
  all_goals try (simp at hs; done)
  all_goals (simp only [Option.some.injEq] at hs; subst hs)
  all_goals (constructor <;> intro hp <;> simp_all <;> omega)

theorem resume_run : ∀ (evs : List Ev) {s s' : St}, Resume s → run s evs = some s' → Resume s' := by
  intro evs
  induction evs with
  | nil => intro s s' h hr; simp [run] at hr; subst hr; exact h
  | cons e es ih =>
    intro s s' h hr
    simp only [run] at hr
    cases hs : step s e with
    | none => simp [hs] at hr
    | some s1 => rw [hs] at hr; exact ih (resume_step h hs) hr

/-- **resumes only after reconnection, release and re-acquisition** — for every sequence of lock
    failures, expiries and reconnections with any timing -/
theorem resumes_only_after (evs : List Ev) (s : St) (h : run {} evs = some s) : Resume s :=
  resume_run evs ⟨by simp, by simp, by simp, by simp⟩ h

theorem inv_step {s s' : St} {e : Ev} (h : Inv s) (hne : earlyExpiry s e = false) (hs : step s e = some s') : Inv s' := by
  obtain ⟨h1, h2, h3⟩ := h
  cases e <;> simp only [step] at hs
  all_goals try split at hs
  all_goals try (simp at hs; done)
  all_goals (simp only [Option.some.injEq] at hs; subst hs)
  all_goals (constructor <;> (try intro hp) <;> simp_all [earlyExpiry] <;> (try omega))
  -- the sweep case: the gate is open, so the manager is at flagSet / waiting (lock owned) or woken
  intro hown
  rcases h1 with h | h | h
  · simp [h] at h2; simp [h2] at hown
  · simp [h] at h2; simp [h2] at hown
  · exact h

theorem inv_run : ∀ (evs : List Ev) {s s' : St}, Inv s → noEarlyExpiry s evs = true → run s evs = some s' → Inv s' := by
  intro evs
  induction evs with
  | nil => intro s s' h _ hr; simp [run] at hr; subst hr; exact h
  | cons e es ih =>
    intro s s' h hne hr
    simp only [run] at hr
    simp only [noEarlyExpiry, Bool.and_eq_true, Bool.not_eq_true'] at hne
    cases hs : step s e with
    | none => simp [hs] at hr
    | some s1 =>
      rw [hs] at hr
      have hne2 := hne.2
      rw [hs] at hne2
      exact ih (inv_step h hne.1 hs) hne2 hr

/-- **only the lock holder evaluates (partial)**: for every sequence of lock failures, expiries and
    reconnections with any timing in which no expiry is broadcast between `Lock()` returning and the
    manager reaching `Wait()`, in every reachable state: the gate is open only between setting and
    clearing the flag, the lock is owned from acquisition until an expiry wakes the manager, and no
    sweep has ever run without the lock -/
theorem holder_only_partial (evs : List Ev) (s : St) (hne : noEarlyExpiry {} evs = true) (h : run {} evs = some s) :
    Inv s :=
  inv_run evs ⟨by simp, by simp, rfl⟩ hne h

/-- after an expiry has woken the manager the only thing it can do is clear the flag -/
theorem woken_clears (s s' : St) (e : Ev) (hpc : s.pc = .woken) (hs : step s e = some s') :
    s'.pc = .woken ∨ (e = .clearFlag ∧ s'.flag = false) := by
  cases e <;> simp only [step] at hs
  all_goals try split at hs
  all_goals try (simp at hs; done)
  all_goals (simp only [Option.some.injEq] at hs; subst hs)
  all_goals simp_all

/-- session events other than Expired and Connected (Disconnected, Connecting, HasSession, …) are
    ignored by the zookeeper coordinator: in particular none of them makes the session count as
    connected.  (All theorems above quantify over event sequences that may contain them anywhere.) -/
theorem other_session_events_change_nothing (s : St) : step s .otherSession = some s := rfl

/-! ### the lost wake-up (known finding D12) -/

/-- the expiry is broadcast after `Lock()` returned and before the manager waits: nobody is woken -/
def lostWakeupTrace : List Ev := [.wake, .lockOk, .expire, .setFlag, .enterWait]

def lostWakeupState : St :=
  { pc := .waiting, flag := true, connected := false, loops := 1, owns := false, stage := 3, badSweeps := 0 }

theorem lost_wakeup_witness : run {} lostWakeupTrace = some lostWakeupState := by decide

/-- … and from there the gate stays open without the lock for EVERY continuation that contains no
    further expiry (`sync.Cond` broadcasts are not remembered), each sweep being one without the lock -/
theorem lost_wakeup_stuck : ∀ (evs : List Ev) (s s' : St), s.pc = .waiting → s.flag = true → s.owns = false →
    (∀ e ∈ evs, e ≠ .expire) → run s evs = some s' →
    s'.pc = .waiting ∧ s'.flag = true ∧ s'.owns = false ∧
      s'.badSweeps = s.badSweeps + (evs.filter (· == .sweep)).length := by
  intro evs
  induction evs with
  | nil => intro s s' h1 h2 h3 _ hr; simp [run] at hr; subst hr; simp [h1, h2, h3]
  | cons e es ih =>
    intro s s' h1 h2 h3 hne hr
    simp only [run] at hr
    cases hs : step s e with
    | none => simp [hs] at hr
    | some s1 =>
      rw [hs] at hr
      have he : e ≠ .expire := hne e (by simp)
      have hrest : ∀ e' ∈ es, e' ≠ Ev.expire := fun e' h' => hne e' (by simp [h'])
      cases e <;> simp only [step] at hs
      all_goals try split at hs
      all_goals try (simp at hs; done)
      all_goals try (simp_all; done)
      all_goals (simp only [Option.some.injEq] at hs; subst hs)
      · -- reconnect
        have := ih _ s' (by simpa using h1) (by simpa using h2) (by simpa using h3) hrest hr
        simpa using this
      · -- any other session event
        exact ih _ s' h1 h2 h3 hrest hr
      · -- sweep
        have := ih _ s' (by simpa using h1) (by simpa using h2) (by simpa using h3) hrest hr
        simp [h1, h3] at this
        simp [this]; omega

/-! ### pacing -/

/-- consecutive evaluation times are more than `m` apart -/
def SpacedFrom (m : Int) : Int → List Int → Prop
  | _, [] => True
  | prev, t :: rest => t - prev > m ∧ SpacedFrom m t rest

/-- **no group is evaluated more often than the shortest notifier interval**: whatever the sweep
    times (any number of request loops, any clock readings), the times at which a continuously listed
    group is evaluated are pairwise more than `minInterval` apart, and the first is more than
    `minInterval` after the group's initial `LastEval` -/
theorem pacing (minInterval : Int) : ∀ (sweepTimes : List Int) (lastEval : Int),
    SpacedFrom minInterval lastEval (evalTimes minInterval lastEval sweepTimes) := by
  intro ts
  induction ts with
  | nil => intro _; trivial
  | cons now rest ih =>
    intro lastEval
    simp only [evalTimes, sweepGroup]
    by_cases h : lastEval < now - minInterval
    · simp only [h, if_true]
      exact ⟨by omega, ih now⟩
    · simp only [h, if_false]
      exact ih lastEval

/-- non-vacuity: a full cycle — acquire, evaluate, expiry, reconnect, release, acquire again, evaluate —
    has no early expiry, runs, and ends with the gate open and the lock owned -/
example : noEarlyExpiry {} [.wake, .lockFail, .wake, .lockOk, .setFlag, .enterWait, .sweep, .expire, .sweep, .clearFlag,
    .loopExit, .reconnect, .seeConnected, .unlockOk, .wake, .lockOk, .setFlag, .enterWait, .sweep] = true := by decide
example : (run {} [.wake, .lockFail, .wake, .lockOk, .setFlag, .enterWait, .sweep, .expire, .sweep, .clearFlag,
    .loopExit, .reconnect, .seeConnected, .unlockOk, .wake, .lockOk, .setFlag, .enterWait, .sweep]).map
      (fun s => (s.flag, s.owns, s.badSweeps, s.stage)) = some (true, true, 0, 3) := by decide

end Burrow.Props.C15
