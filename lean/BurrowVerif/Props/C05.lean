/-
  C05 — Every status request gets one answer, for the right group, within cache age.
  Property theorems only.  `EvalCache.getConsumerStatus` models getConsumerStatus + goswarm.Simple as
  Burrow configures it; requests are sequential here (the concurrent clause is observed on the
  implementation, see MANIFEST level note).
-/
import BurrowVerif.Generated.NotifierLoop
import BurrowVerif.Proofs.EvalCache

namespace Burrow.Props.C05
open Burrow Burrow.EvalCache Burrow.Spec.EvalCache

variable {R : Type}

/-- The cache key can be split back into exactly the cluster and group it was built from, whatever
    characters (spaces included) the names contain … -/
theorem parse_mkKey (cluster group : Name) : parseKey (mkKey cluster group) = some (cluster, group) :=
  Proofs.EvalCache.parse_mkKey cluster group

/-- … hence different (cluster, group) pairs never share a cache entry. -/
theorem key_injective (c g c' g' : Name) (h : mkKey c g = mkKey c' g') : c = c' ∧ g = g' :=
  Proofs.EvalCache.key_injective c g c' g' h

/-- Every request yields one reply, naming the cluster and group of the request. -/
theorem reply_names_request (cfg : Cfg) (c : Cache R) (now : Int) (cluster group : Name)
    (eval : Name → Name → Option R) (view : R → R) :
    (getConsumerStatus cfg c now cluster group eval view).2.cluster = cluster ∧
    (getConsumerStatus cfg c now cluster group eval view).2.group = group :=
  Proofs.EvalCache.reply_names_request cfg c now cluster group eval view

theorem one_reply_per_request (cfg : Cfg) (eval : Int → Name → Name → Option R) (c : Cache R) (qs : List Req) :
    (runQ cfg eval c qs).length = qs.length :=
  Proofs.EvalCache.one_reply_per_request cfg eval c qs

/-- Freshness and no cross-talk, for EVERY cache lifetime (0 included, since the repair of D16: lifetime 0
    means no caching): every reply is the evaluation of
    storage *for the request's own cluster and group* at some instant no longer ago than the cache
    lifetime.  In particular it is NOTFOUND exactly when storage held no live data for that group at
    that instant. -/
theorem freshness (cfg : Cfg) (hnn : cfg.expire ≥ 0) (eval : Int → Name → Name → Option R)
    (qs : List Req) (hmono : TimeMono qs) (i : Nat) (q : Req) (rep : Reply R)
    (hq : qs[i]? = some q) (hr : (runQ cfg eval [] qs)[i]? = some rep) :
    ∃ t, q.now - cfg.expire * 1000 ≤ t ∧ t ≤ q.now ∧ rep.result = eval t q.cluster q.group :=
  Proofs.EvalCache.freshness cfg hnn eval qs hmono i q rep hq hr

/-- Serving a filtered view never changes what later requests see: the cache after a problems-only
    request equals the cache after the same request for the full view. -/
theorem filtered_view_pure (cfg : Cfg) (c : Cache R) (now : Int) (cluster group : Name)
    (eval : Name → Name → Option R) (view : R → R) :
    (getConsumerStatus cfg c now cluster group eval view).1 =
      (getConsumerStatus cfg c now cluster group eval id).1 :=
  Proofs.EvalCache.filtered_view_pure cfg c now cluster group eval view

/-- D16 (repaired): with expire-cache = 0 nothing is served from the cache once the clock has moved —
    storage answers 1 at time 0 and 2 from time 1 on; a request any time later is answered 2.  (Before the
    repair the zero duration reached goswarm, which reads it as "never expires": the answer stayed 1 for
    ever.) -/
theorem zero_lifetime_is_no_caching :
    let eval : Int → Name → Name → Option Nat := fun t _ _ => if t < 1 then some 1 else some 2
    (runQ { expire := 0 } eval [] [⟨0, ['c'], ['g']⟩, ⟨1, ['c'], ['g']⟩, ⟨1000000000, ['c'], ['g']⟩]).map (·.result) =
      [some 1, some 2, some 2] := by
  decide

/-! ### Non-vacuity -/

-- with a 10 s lifetime the same history is answered freshly after the entry expired
example :
    let eval : Int → Name → Name → Option Nat := fun t _ _ => if t < 1 then some 1 else some 2
    (runQ { expire := 10 } eval [] [⟨0, ['c'], ['g']⟩, ⟨5000, ['c'], ['g']⟩, ⟨10001, ['c'], ['g']⟩]).map (·.result)
      = [some 1, some 1, some 2] := by decide

-- the pair that collided before the repair: ("a b", "c") and ("a", "b c")
example : mkKey "a b".toList "c".toList ≠ mkKey "a".toList "b c".toList := by decide


/-! ### between the requester and the evaluator module

The theorems above are about the module (`getConsumerStatus`).  A request reaches it through the
evaluator coordinator's forwarder; its control skeleton is regenerated from the source on every run,
and the `S cburst` ops of the stream push bursts of concurrent requests through the real one. -/

/-- **every request is handed to the module exactly once, in arrival order**: the forwarder is one loop
    that takes a request from the application's channel and sends that request on the module's channel
    before it takes the next — no other branch, goroutine or hand-over -/
theorem evaluator_forwarder_hands_over_each_request_once :
    Burrow.Generated.evaluatorForwarderSkeleton =
      ["call ec.Log.Info(\"starting\")", "assign err := helpers.StartCoordinatorModules(ec.modules)",
       "if err != nil", "return", "go func", "decl var channel chan *protocol.EvaluatorRequest", "loop",
       "assign channel = module.(Module).GetCommunicationChannel()", "loop",
       "case request := <-ec.App.EvaluatorChannel", "assign request := <-ec.App.EvaluatorChannel",
       "send channel <- request", "case <-ec.quitChannel", "return", "return"] := by decide

/-- … and on the way to storage nothing answers in storage's place: the storage coordinator's forwarder
    (regenerated from storage/coordinator.go) takes a request and hands it to the module, blocking until
    it is taken — it never gives up on a busy module and never closes a reply channel, which the
    evaluator would read as "no such group" and cache. -/
theorem storage_forwarder_never_answers_for_storage :
    Burrow.Generated.storageForwarderSkeleton =
      ["call sc.running.Add(1)", "defer sc.running.Done()", "decl var channel chan *protocol.StorageRequest",
       "loop", "assign channel = module.(Module).GetCommunicationChannel()", "loop",
       "case request := <-sc.App.StorageChannel", "assign request := <-sc.App.StorageChannel",
       "send channel <- request", "case <-sc.quitChannel", "return"] := by decide

end Burrow.Props.C05
