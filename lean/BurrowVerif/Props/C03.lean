/-
  C03 — Partition status follows the documented lag rules.
  Property theorems only; helper lemmas live in `Proofs/Eval.lean`.
-/
import BurrowVerif.Proofs.Eval

namespace Burrow.Props.C03
open Burrow Burrow.Eval Burrow.Spec.Eval

/-- For every non-empty window, all broker histories, all lag/allowed-lag/clock values the model of
    `calculatePartitionStatus` yields exactly the documented status. -/
theorem calculate_eq_spec (w : List Commit) (bo : List Int) (cur allowed : Nat) (now : Int)
    (hne : w ≠ []) :
    calculate w bo cur now allowed = some (status w bo cur allowed now) :=
  Proofs.Eval.calculate_eq_spec w bo cur allowed now hne

/-- The Go code never panics on a non-empty window. -/
theorem calculate_total (w : List Commit) (bo : List Int) (cur allowed : Nat) (now : Int)
    (hne : w ≠ []) : (calculate w bo cur now allowed).isSome := by
  rw [calculate_eq_spec w bo cur allowed now hne]; rfl

/-- Only differences matter (offsets): add `k` to every commit offset and every broker offset. -/
theorem offset_shift_invariant (w : List Commit) (bo : List Int) (cur allowed : Nat) (now k : Int) :
    calculate (shiftOffsets k w) (bo.map (· + k)) cur now allowed = calculate w bo cur now allowed :=
  Proofs.Eval.offset_shift_invariant w bo cur allowed now k

/-- Only differences matter (time): add `1000·d` ms to every timestamp and `d` s to the clock. -/
theorem time_shift_invariant (w : List Commit) (bo : List Int) (cur allowed : Nat) (now d : Int) :
    calculate (shiftTimes (1000 * d) w) bo cur (now + d) allowed = calculate w bo cur now allowed :=
  Proofs.Eval.time_shift_invariant w bo cur allowed now d

/-- Rule 0: current lag within the allowed lag is OK whatever the window. -/
theorem within_allowed_is_ok (w : List Commit) (bo : List Int) (cur allowed : Nat) (now : Int)
    (h : cur ≤ allowed) : calculate w bo cur now allowed = some .ok := by
  unfold calculate; simp [Nat.not_lt.mpr h]

/-- A partition whose window is less complete than the configured minimum is reported OK. -/
theorem below_minimum_is_ok (p : Partition) (meets : Nat → Nat → Bool) (now : Int) (allowed : Nat)
    (h : meets ((p.offsets.drop (firstNonNil p.offsets)).length) p.offsets.length = false) :
    ∃ st, evaluatePartition p meets now allowed = some st ∧ st.status = .ok :=
  Proofs.Eval.below_minimum_is_ok p meets now allowed h

/-- `evaluatePartitionStatus` applies the documented procedure to the non-nil suffix of the window
    whenever that suffix has no nil entry (storage invariant, C02 `window_inv`) and the
    completeness gate is met. -/
theorem partition_status_is_spec (p : Partition) (meets : Nat → Nat → Bool) (now : Int)
    (allowed : Nat) (k : Nat) (cs : List Commit) (hcs : cs ≠ [])
    (hshape : p.offsets = List.replicate k none ++ cs.map some)
    (hmeets : meets cs.length p.offsets.length = true) :
    ∃ st, evaluatePartition p meets now allowed = some st ∧
      st.status = status cs p.brokerOffsets p.currentLag allowed now ∧
      st.start = cs.head? ∧ st.«end» = cs.getLast? ∧ st.currentLag = p.currentLag ∧
      st.complete = (cs.length, p.offsets.length) :=
  Proofs.Eval.partition_status_is_spec p meets now allowed k cs hcs hshape hmeets

/-- Precedence: STOP beats REWIND beats recorded-lag-OK (double-trigger windows). -/
theorem stop_beats_rewind (w : List Commit) (bo : List Int) (cur allowed : Nat) (now : Int)
    (hcur : allowed < cur) (hs : Stopped w now) (hz : ¬ RecentZero w bo) :
    status w bo cur allowed now = .stop := by
  unfold status; simp [Nat.not_le.mpr hcur, hs, hz]

theorem rewind_beats_recorded_ok (w : List Commit) (bo : List Int) (cur allowed : Nat) (now : Int)
    (hcur : allowed < cur) (hs : ¬ (Stopped w now ∧ ¬ RecentZero w bo))
    (hr : FirstRewindUnrecovered w) :
    status w bo cur allowed now = .rewind := by
  unfold status; simp only [Nat.not_le.mpr hcur, hs, hr]; simp

/-! ### Non-vacuity: concrete windows meeting the hypotheses, one per exit of the procedure. -/

private def c (o t : Int) (l : Option Nat) : Commit := { offset := o, order := o, ts := t, lag := l }

-- STOP and REWIND both triggered: STOP wins
example : calculate [c 10 0 (some 5), c 4 1000 (some 11)] [20] 16 100 0 = some .stop := by decide
-- REWIND (not stopped: now is within the window span)
example : calculate [c 10 0 (some 5), c 4 100000 (some 11)] [20] 16 100 0 = some .rewind := by decide
-- recovered rewind, a stored lag within allowed ⇒ OK
example : calculate [c 10 0 (some 0), c 4 50000 none, c 10 100000 (some 3)] [20] 10 100 0 = some .ok := by decide
-- STALL
example : calculate [c 10 0 (some 5), c 10 100000 (some 6)] [20] 10 100 0 = some .stall := by decide
-- WARN
example : calculate [c 10 0 (some 5), c 11 100000 (some 6)] [20] 9 100 0 = some .warn := by decide
-- lag decreased ⇒ OK
example : calculate [c 10 0 (some 5), c 13 100000 (some 4)] [20] 7 100 0 = some .ok := by decide
-- stopped but recent broker offset at/below last commit ⇒ not STOP (falls to STALL here)
example : calculate [c 10 0 (some 5), c 10 1000 (some 6)] [9, 20] 10 100 0 = some .stall := by decide

end Burrow.Props.C03
