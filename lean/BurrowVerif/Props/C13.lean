/-
  C13 — An incident keeps one identity from open to close.  Property theorems only.
  `Notifier.stepG` / `runG` model checkAndSendResponseToModules + notifyModule for one group's record;
  `Notifier.step` / `Spec.Notifier.run` for several groups and clusters interleaved.
-/
import BurrowVerif.Proofs.Notifier
import BurrowVerif.Proofs.NotifierRefresh
import BurrowVerif.Proofs.NotifierOps

namespace Burrow.Props.C13
open Burrow Burrow.Notifier Burrow.Spec.Notifier

/-- Several groups and clusters interleaved behave, for each group, exactly like that group's own
    evaluation history: all the single-group theorems below and in C14 transfer. -/
theorem run_projection (cfgs : List ModuleCfg) (s : NState) (h : Hist) (k : String × String)
    (g : GroupRec) (hg : lookupG k s = some g) :
    project k h (run cfgs s h) = runG cfgs g (eventsOf k h) :=
  Proofs.Notifier.run_projection cfgs s h k g hg

/-- From the first evaluation worse than OK until (and including) the first OK again, every
    notification — to any module, open or close — carries the same non-empty id and start time. -/
theorem incident_identity (cfgs : List ModuleCfg) (evs : List Ev) (i j : Nat) (hij : i ≤ j)
    (ei : Ev) (hei : evs[i]? = some ei) (hbi : ei.status > .ok) (hbad : AllBad evs i j)
    (ni nj : Notification) (hi : ni ∈ notesAt cfgs evs i) (hj : nj ∈ notesAt cfgs evs j) :
    ni.id = nj.id ∧ ni.start = nj.start ∧ ni.id.isSome ∧ ni.start.isSome :=
  Proofs.Notifier.incident_identity cfgs evs i j hij ei hei hbi hbad ni nj hi hj

/-- Different incidents get different ids (given that the environment's ids never repeat). -/
theorem incidents_distinct (cfgs : List ModuleCfg) (evs : List Ev) (hfresh : FreshIds evs)
    (i k j : Nat) (hik : i ≤ k) (hkj : k < j) (ek : Ev) (hek : evs[k]? = some ek) (hok : ek.status = .ok)
    (ni nj : Notification) (hi : ni ∈ notesAt cfgs evs i) (hj : nj ∈ notesAt cfgs evs j)
    (a b : Nat) (ha : ni.id = some a) (hb : nj.id = some b) : a ≠ b :=
  Proofs.Notifier.incidents_distinct cfgs evs hfresh i k j hik hkj ek hek hok ni nj hi hj a b ha hb

/-- When the group returns to OK after an evaluation worse than OK, every module that accepts the
    group and is configured to send close notifications is sent exactly one notification at that
    evaluation, a close. -/
theorem exactly_one_close (cfgs : List ModuleCfg) (hn : NamesNodup cfgs) (evs : List Ev) (j : Nat)
    (ej ep : Ev) (hej : evs[j + 1]? = some ej) (hok : ej.status = .ok)
    (hep : evs[j]? = some ep) (hbad : ep.status > .ok)
    (cfg : ModuleCfg) (hc : cfg ∈ cfgs) (hacc : ej.acc cfg.name = true) (hclose : cfg.sendClose = true) :
    ∃ n, (notesAt cfgs evs (j + 1)).filter (fun n => n.module = cfg.name) = [n] ∧ n.close = true ∧
      n.status = .ok :=
  Proofs.Notifier.exactly_one_close cfgs hn evs j ej ep hej hok hep hbad cfg hc hacc hclose

/-- No close is ever sent for a group without an open incident: a close notification happens only
    at an OK evaluation preceded by an evaluation worse than OK with no OK evaluation in between —
    and only to an accepting module configured for close notifications. -/
theorem no_close_without_incident (cfgs : List ModuleCfg) (evs : List Ev) (j : Nat) (n : Notification)
    (hn : n ∈ notesAt cfgs evs j) (hclose : n.close = true) :
    (∃ ej, evs[j]? = some ej ∧ ej.status = .ok ∧
       ∃ cfg ∈ cfgs, cfg.name = n.module ∧ cfg.sendClose = true ∧ ej.acc cfg.name = true) ∧
    (∃ i, i < j ∧ (∃ ei, evs[i]? = some ei ∧ ei.status > .ok) ∧ NoOk evs i j) :=
  Proofs.Notifier.no_close_without_incident cfgs evs j n hn hclose

/-! ### Non-vacuity: OK ERR ERR OK OK ERR ERR OK with a send-close module — two incidents, two ids,
    one close each. -/

private def ev (st : Status) (t : Int) (id : Nat) : Ev := { status := st, now := t, acc := fun _ => true, freshId := id }
private def hist : List Ev :=
  [ev .ok 0 0, ev .err 10000 1, ev .err 20000 2, ev .ok 30000 3, ev .ok 40000 4, ev .err 50000 5, ev .err 60000 6, ev .ok 70000 7]
private def m : ModuleCfg := { name := "m", threshold := 2, sendInterval := 5, sendOnce := false, sendClose := true }

example : (runG [m] GroupRec.fresh hist).map (fun ns => ns.map fun n => (n.id, n.start, n.close)) =
    [[], [(some 1, some 10000, false)], [(some 1, some 10000, false)], [(some 1, some 10000, true)], [],
     [(some 5, some 50000, false)], [(some 5, some 50000, false)], [(some 5, some 50000, true)]] := by decide

/-! ### the periodic refresh of the group records

An incident lives in its group's record (id, start, last notifications).  The refresh that re-reads
the group listings from storage must not disturb the record of a group that is still there — also
when storage is too busy to take a consumer-list request within the one-second timeout. -/

/-- **a refresh keeps the record — id, start time, last notifications — of every group that is still
    listed**, whichever consumer-list requests storage answered: an open incident keeps its identity
    across every refresh during which its group stays in storage's listing -/
theorem refresh_keeps_incident (listing : List (String × List String)) (answered : String → Bool) (s : NState)
    (k : String × String) (r : GroupRec)
    (hl : listing.any (·.1 == k.1) = true)
    (hin : ∀ cg ∈ listing, cg.1 = k.1 → answered k.1 = true → k.2 ∈ cg.2)
    (hr : lookupG k s = some r) :
    lookupG k (refresh listing answered s) = some r :=
  refresh_keeps_listed listing answered s k r hl hin hr

/-- a refresh none of whose consumer-list requests is taken changes no record of a listed cluster (it
    only drops clusters that are no longer listed) -/
theorem stalled_refresh_keeps_every_record (listing : List (String × List String)) (s : NState) :
    refresh listing (fun _ => false) s = s.filter fun kv => listing.any (·.1 == kv.1.1) := by
  unfold refresh
  generalize (s.filter fun kv => listing.any (·.1 == kv.1.1)) = s1
  induction listing generalizing s1 with
  | nil => rfl
  | cons cg rest ih => simpa [List.foldl_cons] using ih s1

/-- … hence an open incident of a group in a listed cluster keeps its id and start time across it -/
theorem stalled_refresh_keeps_incident (listing : List (String × List String)) (s : NState) (k : String × String)
    (r : GroupRec) (hl : listing.any (·.1 == k.1) = true) (hr : lookupG k s = some r) :
    lookupG k (refresh listing (fun _ => false) s) = some r := by
  rw [stalled_refresh_keeps_every_record]
  induction s with
  | nil => simp [lookupG] at hr
  | cons kv rest ih =>
    obtain ⟨k', v'⟩ := kv
    simp only [lookupG] at hr
    by_cases hk : k' = k
    · subst hk
      simp only [if_true] at hr
      simp [List.filter_cons, hl, lookupG, hr]
    · simp only [if_neg hk] at hr
      by_cases hf : listing.any (·.1 == k'.1) = true
      · simp only [List.filter_cons, hf, if_true, lookupG, if_neg hk]; exact ih hr
      · simp only [List.filter_cons, hf]; exact ih hr

/-- **a refresh that storage answered starts a record for every group in the answer**: a group that
    appears in storage is picked up by the next answered refresh and is evaluated from then on -/
theorem refresh_picks_up_new_groups (listing : List (String × List String)) (answered : String → Bool) (s : NState)
    (c g : String) (gs : List String)
    (hnd : (listing.map (·.1)).Nodup) (hc : (c, gs) ∈ listing) (ha : answered c = true) (hg : g ∈ gs) :
    (lookupG (c, g) (refresh listing answered s)).isSome :=
  refresh_adds_listed listing answered s c g gs hnd hc ha hg

/-- **… and drops the record of every group that is not in it** — a deleted or expired group stops being
    evaluated (and its incident ends) at the next answered refresh, not before -/
theorem refresh_drops_groups_that_left (listing : List (String × List String)) (answered : String → Bool)
    (s : NState) (k : String × String) (gs : List String)
    (hnd : (listing.map (·.1)).Nodup) (hc : (k.1, gs) ∈ listing) (ha : answered k.1 = true) (hg : k.2 ∉ gs) :
    lookupG k (refresh listing answered s) = none :=
  refresh_drops_unlisted_group listing answered s k gs hnd hc ha hg

/-- the records of a cluster that storage no longer lists go whatever was answered -/
theorem refresh_drops_clusters_that_left (listing : List (String × List String)) (answered : String → Bool)
    (s : NState) (k : String × String) (hc : ∀ cg ∈ listing, cg.1 ≠ k.1) :
    lookupG k (refresh listing answered s) = none :=
  refresh_drops_unlisted_cluster listing answered s k hc

example : refresh [("c", ["g", "h"]), ("d", [])] (fun _ => true) [(("c", "g"), { GroupRec.fresh with id := some 7 }), (("c", "x"), GroupRec.fresh), (("e", "y"), GroupRec.fresh)] =
    [(("c", "g"), { GroupRec.fresh with id := some 7 }), (("c", "h"), GroupRec.fresh)] := by decide

/-- **… and the refreshes may come anywhere between the evaluation results of any groups**: for a group
    that stays in storage's listing through every refresh of a history (whichever of them storage
    answered), the notifications are exactly those of the group's own evaluation history — so every
    single-group theorem of C13 and C14 (one identity from open to close, exactly one close, rate
    limits, every incident announced) holds across refreshes -/
theorem run_projection_through_refreshes (cfgs : List ModuleCfg) (s : NState) (h : List Proofs.Notifier.NOp)
    (k : String × String) (g : GroupRec) (hg : lookupG k s = some g) (hs : Proofs.Notifier.StaysListed k h) :
    Proofs.Notifier.projectOps k h (Proofs.Notifier.runOps cfgs s h) =
      runG cfgs g (Proofs.Notifier.eventsOfOps k h) :=
  Proofs.Notifier.runOps_projection cfgs s h k g hg hs

example : Proofs.Notifier.StaysListed ("c", "g")
    [.ev ("c", "g") (ev .err 10000 1), .refresh [("c", ["g", "h"])] (fun _ => true), .ev ("c", "h") (ev .err 11000 2),
     .refresh [("c", [])] (fun _ => false), .ev ("c", "g") (ev .ok 20000 3)] := by
  simp [Proofs.Notifier.StaysListed]

end Burrow.Props.C13
