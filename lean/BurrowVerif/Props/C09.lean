/-
  C09 — Deletion and expiry remove exactly what they name.  Property theorems only.
  Frame conditions are equalities of every fetch view (list, detail, topic views) at every clock value.
-/
import BurrowVerif.Proofs.StorageDelete
import BurrowVerif.Proofs.Locks
import BurrowVerif.Proofs.Cluster
import BurrowVerif.Proofs.ReaperSweep
import BurrowVerif.Generated.StorageLocks

namespace Burrow.Props.C09
open Burrow Burrow.Storage Burrow.Spec.Storage

/-- The one-value-per-key invariant holds initially and after every request. -/
theorem wf_init (cfg : Config) (clusters : List String) : WF (Store.init cfg clusters) :=
  Proofs.StorageDelete.wf_init cfg clusters

theorem wf_apply (s : Store) (op : Op) (h : WF s) : WF (apply s op) :=
  Proofs.StorageDelete.wf_apply s op h

/-! ### delete-group -/

/-- After delete-group the group is in no listing, its detail is NOTFOUND, it consumes no topic. -/
theorem deleteGroup_removes (s : Store) (h : WF s) (r : Request) (ht : r.topic = "") (now : Int) (t : String) :
    let s' := (deleteGroup s r).1
    r.group ∉ groupsOf s' r.cluster ∧ detail s' now r.cluster r.group = .notFound ∧
    r.group ∉ (fetchConsumersForTopic s' r.cluster t).getD [] :=
  Proofs.StorageDelete.deleteGroup_removes s h r ht now t

/-- … and every other cluster, group and topic is reported exactly as before. -/
theorem deleteGroup_frame (s : Store) (r : Request) (ht : r.topic = "") (now : Int) (c g t : String)
    (hne : ¬ (c = r.cluster ∧ g = r.group)) :
    let s' := (deleteGroup s r).1
    detail s' now c g = detail s now c g ∧ (g ∈ groupsOf s' c ↔ g ∈ groupsOf s c) ∧
    (g ∈ (fetchConsumersForTopic s' c t).getD [] ↔ g ∈ (fetchConsumersForTopic s c t).getD []) ∧
    fetchTopicList s' c = fetchTopicList s c ∧ fetchTopic s' c t = fetchTopic s c t ∧
    fetchClusterList s' = fetchClusterList s :=
  Proofs.StorageDelete.deleteGroup_frame s r ht now c g t hne

/-! ### delete-group-topic -/

/-- After delete-group-topic the topic is gone from that group's detail and the group no longer
    counts as a consumer of it; the group itself is removed exactly when no topic is left. -/
theorem deleteGroupTopic_removes (s : Store) (h : WF s) (r : Request) (ht : r.topic ≠ "") (now : Int)
    (cm : Cluster) (g : Group) (hc : alookup r.cluster s.clusters = some cm)
    (hg : alookup r.group cm.consumer = some g) :
    let s' := (deleteGroup s r).1
    (detail s' now r.cluster r.group).hasTopic r.topic = false ∧
    r.group ∉ (fetchConsumersForTopic s' r.cluster r.topic).getD [] ∧
    (r.group ∈ groupsOf s' r.cluster ↔ aerase r.topic g.topics ≠ []) :=
  Proofs.StorageDelete.deleteGroupTopic_removes s h r ht now cm g hc hg

/-- The group's other topics and every other group, cluster and topic are reported as before. -/
theorem deleteGroupTopic_frame (s : Store) (h : WF s) (r : Request) (ht : r.topic ≠ "") (now : Int)
    (cm : Cluster) (g : Group) (hc : alookup r.cluster s.clusters = some cm)
    (hg : alookup r.group cm.consumer = some g) (hleft : aerase r.topic g.topics ≠ [])
    (hnp : detail s now r.cluster r.group ≠ .panic) :
    let s' := (deleteGroup s r).1
    detail s' now r.cluster r.group = (detail s now r.cluster r.group).eraseTopic r.topic ∧
    (∀ c g', ¬ (c = r.cluster ∧ g' = r.group) → detail s' now c g' = detail s now c g') ∧
    (∀ c, groupsOf s' c = groupsOf s c) ∧
    (∀ c t, fetchTopicList s' c = fetchTopicList s c ∧ fetchTopic s' c t = fetchTopic s c t) :=
  Proofs.StorageDelete.deleteGroupTopic_frame s h r ht now cm g hc hg hleft hnp

/-! ### delete-topic -/

/-- After delete-topic the topic is in no topic list, its offsets are NOTFOUND, no group's detail in
    that cluster mentions it, nobody consumes it. -/
theorem deleteTopic_removes (s : Store) (h : WF s) (r : Request) (now : Int) (g : String)
    (hc : (alookup r.cluster s.clusters).isSome) :
    let s' := (deleteTopic s r).1
    r.topic ∉ (fetchTopicList s' r.cluster).getD [] ∧ fetchTopic s' r.cluster r.topic = none ∧
    (detail s' now r.cluster g).hasTopic r.topic = false ∧
    fetchConsumersForTopic s' r.cluster r.topic = some [] :=
  Proofs.StorageDelete.deleteTopic_removes s h r now g hc

/-- Groups themselves remain; every other topic, and everything in other clusters, is as before. -/
theorem deleteTopic_frame (s : Store) (h : WF s) (r : Request) (now : Int) (c g t : String)
    (hnp : detail s now c g ≠ .panic) :
    let s' := (deleteTopic s r).1
    groupsOf s' c = groupsOf s c ∧ fetchClusterList s' = fetchClusterList s ∧
    (c ≠ r.cluster → detail s' now c g = detail s now c g ∧ fetchTopicList s' c = fetchTopicList s c ∧
        fetchTopic s' c t = fetchTopic s c t) ∧
    (c = r.cluster → detail s' now c g = (detail s now c g).eraseTopic r.topic ∧
        (t ≠ r.topic → fetchTopic s' c t = fetchTopic s c t ∧
           (t ∈ (fetchTopicList s' c).getD [] ↔ t ∈ (fetchTopicList s c).getD []))) :=
  Proofs.StorageDelete.deleteTopic_frame s h r now c g t hnp

/-! ### deleting what does not exist -/

theorem deleteGroup_absent (s : Store) (r : Request)
    (h : ∀ cm, alookup r.cluster s.clusters = some cm → alookup r.group cm.consumer = none) :
    (deleteGroup s r).1 = s :=
  Proofs.StorageDelete.deleteGroup_absent s r h

theorem deleteGroupTopic_absent_topic (s : Store) (hw : WF s) (r : Request) (hnt : r.topic ≠ "") (cm : Cluster) (g : Group)
    (hc : alookup r.cluster s.clusters = some cm) (hg : alookup r.group cm.consumer = some g)
    (ht : alookup r.topic g.topics = none) (hne : g.topics ≠ []) :
    (deleteGroup s r).1 = s :=
  Proofs.StorageDelete.deleteGroupTopic_absent_topic s hw r hnt cm g hc hg ht hne

theorem deleteTopic_absent (s : Store) (hw : WF s) (r : Request)
    (h : ∀ cm, alookup r.cluster s.clusters = some cm →
      alookup r.topic cm.broker = none ∧ ∀ gn g, (gn, g) ∈ cm.consumer → alookup r.topic g.topics = none) :
    (deleteTopic s r).1 = s :=
  Proofs.StorageDelete.deleteTopic_absent s hw r h

/-! ### expiry -/

/-- A group whose newest commit is older than the expiry time is reported NOTFOUND and is gone from
    the listing afterwards; the boundary is exact (strict `>` on milliseconds). -/
theorem expired_notfound_then_gone (s : Store) (h : WF s) (now : Int) (c gname : String) (cm : Cluster) (g : Group)
    (hc : alookup c s.clusters = some cm) (hg : alookup gname cm.consumer = some g)
    (hexp : (now - s.cfg.expireGroup) * 1000 > g.lastCommit) :
    detail s now c gname = .notFound ∧ gname ∉ groupsOf (fetchConsumer s now c gname).1 c :=
  Proofs.StorageDelete.expired_notfound_then_gone s h now c gname cm g hc hg hexp

/-- Reads never change anything else: a detail fetch of a group that has not expired leaves the
    store as it was. -/
theorem unexpired_fetch_pure (s : Store) (now : Int) (c gname : String)
    (h : ∀ cm g, alookup c s.clusters = some cm → alookup gname cm.consumer = some g →
      ¬ ((now - s.cfg.expireGroup) * 1000 > g.lastCommit)) :
    (fetchConsumer s now c gname).1 = s :=
  Proofs.StorageDelete.unexpired_fetch_pure s now c gname h

/-- Commits older than the expiry time are ignored on arrival. -/
theorem too_old_commit_ignored (s : Store) (now : Int) (r : Request)
    (h : r.ts < (now - s.cfg.expireGroup) * 1000) : addConsumerOffset s now r = (s, .ok, none) :=
  Proofs.StorageDelete.too_old_commit_ignored s now r h

/-! ### Non-vacuity -/

private def s0 : Store := Store.init { intervals := 2, expireGroup := 100, minDistance := 0, allowSet := false, denySet := false } ["c"]
private def hist : List Op :=
  [.broker { cluster := "c", topic := "t", partition := 0, topicPartitionCount := 1, offset := 50, ts := 1 },
   .broker { cluster := "c", topic := "u", partition := 0, topicPartitionCount := 1, offset := 50, ts := 1 },
   .commit 1000 { cluster := "c", group := "g", topic := "t", partition := 0, offset := 40, order := 1, ts := 999000 },
   .commit 1000 { cluster := "c", group := "g", topic := "u", partition := 0, offset := 41, order := 2, ts := 999500 },
   .commit 1000 { cluster := "c", group := "h", topic := "t", partition := 0, offset := 42, order := 3, ts := 999900 }]

example : groupsOf (run s0 hist) "c" = ["g", "h"] := by decide
example : groupsOf (run s0 (hist ++ [.deleteGroup { cluster := "c", group := "g", topic := "t" }])) "c" = ["g", "h"] := by decide
example : groupsOf (run s0 (hist ++ [.deleteGroup { cluster := "c", group := "h", topic := "t" }])) "c" = ["g"] := by decide
example : groupsOf (run s0 (hist ++ [.fetchConsumer 1100 "c" "g"])) "c" = ["h"] := by decide

/-! ### under the worker pool

The theorems above are about requests applied one after another.  The storage module applies them
on a pool of workers; what makes "deleted after its last commit" mean anything there is that a
group's deletion is queued behind the group's earlier commits.  That rests on the routing switch of
`mainLoop`, REGENERATED from inmemory.go on every run. -/

/-- a group's deletion, its commits, its owner updates and its detail reads are all routed by the hash
    of cluster+group (and by nothing else) -/
theorem group_deletion_is_routed_with_the_groups_commits :
    (Generated.storageHandlers.filter fun h => h.1 == "StorageSetDeleteGroup" || h.1 == "StorageSetConsumerOffset" ||
        h.1 == "StorageSetConsumerOwner" || h.1 == "StorageClearConsumerOwners" || h.1 == "StorageFetchConsumer").map
      (fun h => (h.1, h.2.2.1)) =
    [("StorageClearConsumerOwners", "hashed"), ("StorageFetchConsumer", "hashed"), ("StorageSetConsumerOffset", "hashed"),
     ("StorageSetConsumerOwner", "hashed"), ("StorageSetDeleteGroup", "hashed")] := by decide

/-- hence a deletion that arrives after a commit of the same group is taken by the same worker, after
    that commit: whatever the number of workers and the assignment of everything else -/
theorem deletion_follows_earlier_commits (n : Nat) (hash : String → Nat) (pick : Nat → Nat)
    (before between after : List Locks.Req) (commit delete : Locks.Req)
    (h1 : commit.hashed = true) (h2 : delete.hashed = true) (hk : commit.key = delete.key) :
    let arrivals := before ++ commit :: between ++ delete :: after
    let w := Locks.assign n hash pick commit
    Locks.assign n hash pick delete = w ∧
    ∃ q1 q2 q3, Locks.queueOf n hash pick arrivals w = q1 ++ commit :: q2 ++ delete :: q3 := by
  intro arrivals w
  have hw : Locks.assign n hash pick delete = w := by
    simp only [w, Locks.assign, h1, h2, hk, if_true]
  refine ⟨hw, ?_⟩
  refine ⟨(before.filter fun r => Locks.assign n hash pick r == w), (between.filter fun r => Locks.assign n hash pick r == w),
    (after.filter fun r => Locks.assign n hash pick r == w), ?_⟩
  simp only [arrivals, Locks.queueOf, List.filter_append, List.filter_cons, hw, beq_self_eq_true, if_true, w]
  done

/-! ### The groups reaper (cluster module, `reapNonExistingGroups`; run for real by the `cluster`
    stream's `K tick reap` ops): a third source of group deletions -/

/-- The reaper asks storage to delete exactly the groups storage lists that Kafka does not, the
    cluster's own `burrow-<name>` group excepted — and only when both listings were obtained. -/
theorem reaper_deletes_iff (name : String) (kg sg : Option (List String)) (g : String) :
    g ∈ (Cluster.reap name kg sg).2 ↔
      ∃ k s, kg = some k ∧ sg = some s ∧ g ∈ s ∧ g ∉ k ∧ g ≠ "burrow-" ++ name :=
  Proofs.Cluster.mem_reap name kg sg g

/-- A failed `ListConsumerGroups` deletes nothing (an error is not an empty cluster) and does not even
    ask storage; a nil reply from storage deletes nothing either. -/
theorem reaper_failed_listing_deletes_nothing (name : String) (sg kg : Option (List String)) :
    Cluster.reap name none sg = (false, []) ∧ (Cluster.reap name kg none).2 = [] := by
  constructor
  · rfl
  · cases kg <;> rfl

/-- A group Kafka still lists is never reaped. -/
theorem reaper_spares_live_groups (name : String) (k : List String) (sg : Option (List String)) (g : String)
    (h : g ∈ k) : g ∉ (Cluster.reap name (some k) sg).2 := by
  rw [reaper_deletes_iff]
  rintro ⟨k', s, hk, _, _, hn, _⟩
  cases hk
  exact hn h

/-- Each stored group is named at most once per sweep. -/
theorem reaper_names_each_group_once (name : String) (kg : Option (List String)) (s : List String)
    (h : s.Nodup) : (Cluster.reap name kg (some s)).2.Nodup := by
  unfold Cluster.reap Cluster.reapIgnoring
  cases kg with
  | none => exact List.nodup_nil
  | some k => exact h.sublist List.filter_sublist

/-- The reaper end to end — its requests executed by storage: after a sweep the cluster lists exactly
    the groups it listed before that Kafka still knows (plus its own `burrow-<name>` group) … -/
theorem reaper_sweep_leaves_the_live_groups (s : Store) (h : WF s) (name : String) (kafkaGroups : List String) (g : String) :
    let named := (Cluster.reap name (some kafkaGroups) (some (groupsOf s name))).2
    g ∈ groupsOf (Reaper.sweep s name named) name ↔
      g ∈ groupsOf s name ∧ (g ∈ kafkaGroups ∨ g = "burrow-" ++ name) := by
  intro named
  rw [Proofs.ReaperSweep.groups_after_sweep s h name named g]
  constructor
  · rintro ⟨h1, h2⟩
    refine ⟨h1, ?_⟩
    by_cases hk : g ∈ kafkaGroups
    · exact Or.inl hk
    · by_cases hb : g = "burrow-" ++ name
      · exact Or.inr hb
      · exact absurd ((reaper_deletes_iff name _ _ g).mpr ⟨kafkaGroups, groupsOf s name, rfl, rfl, h1, hk, hb⟩) h2
  · rintro ⟨h1, h2⟩
    refine ⟨h1, fun hm => ?_⟩
    obtain ⟨k, sg, hk, _, _, hnk, hnb⟩ := (reaper_deletes_iff name _ _ g).mp hm
    cases hk
    cases h2 with
    | inl h => exact hnk h
    | inr h => exact hnb h

/-- … and every group it did not name, and every other cluster, is reported exactly as before. -/
theorem reaper_sweep_frame (s : Store) (name : String) (kg sg : Option (List String)) (now : Int) (c g : String)
    (hne : ¬ (c = name ∧ g ∈ (Cluster.reap name kg sg).2)) :
    let s' := Reaper.sweep s name (Cluster.reap name kg sg).2
    detail s' now c g = detail s now c g ∧ fetchTopicList s' c = fetchTopicList s c ∧
    fetchClusterList s' = fetchClusterList s :=
  Proofs.ReaperSweep.sweep_frame s name _ now c g hne

/-- A sweep whose Kafka listing failed changes nothing at all. -/
theorem reaper_run_with_failed_listing_is_identity (s : Store) (name : String) : Reaper.run s name none = s := rfl

/-- `Reaper.run` (what the `S reap` op of the storage stream executes on the real cluster and storage
    modules together) in one statement. -/
theorem reaper_run_leaves_the_live_groups (s : Store) (h : WF s) (name : String) (kafkaGroups : List String) (g : String)
    (hc : (fetchConsumerList s name).isSome) :
    g ∈ groupsOf (Reaper.run s name (some kafkaGroups)) name ↔
      g ∈ groupsOf s name ∧ (g ∈ kafkaGroups ∨ g = "burrow-" ++ name) := by
  have hl : fetchConsumerList s name = some (groupsOf s name) := by
    unfold groupsOf
    cases hf : fetchConsumerList s name with
    | none => simp [hf] at hc
    | some l => rfl
  unfold Reaper.run Reaper.runIgnoring
  show g ∈ groupsOf (Reaper.sweep s name (Cluster.reap name (some kafkaGroups) (fetchConsumerList s name)).2) name ↔ _
  rw [hl]
  exact reaper_sweep_leaves_the_live_groups s h name kafkaGroups g

example : Cluster.reap "c0" (some ["g1"]) (some ["g0", "g1", "burrow-c0", "g2"]) = (true, ["g0", "g2"]) := by decide
example : Cluster.reap "c0" none (some ["g0"]) = (false, []) := by decide

end Burrow.Props.C09
