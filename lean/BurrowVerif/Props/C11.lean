/-
  C11 — Broker end offsets recorded are exactly what the brokers answered.  Property theorems only.
  `Cluster.cycle` models getOffsets (maybeUpdateMetadataAndDeleteTopics + generateOffsetRequests +
  the per-broker response handling); everything Kafka answers is the parameter `env`.
-/
import BurrowVerif.Proofs.Cluster
import BurrowVerif.Generated.SaramaShim

namespace Burrow.Props.C11
open Burrow Burrow.Cluster Burrow.Spec.Cluster

/-- Every partition that has a leader is asked of exactly its current leader: `(t, p)` is in broker
    `b`'s request iff it is a led partition of the snapshot whose leader lookup answers `b` now. -/
theorem asked_iff (s : CState) (env : Env) (b : Nat) (t : String) (p : Int) :
    (t, p) ∈ askedOf (cycle s env).2 b ↔
      ∃ ps cnt, (t, ps, cnt) ∈ snapUsed s env ∧ p ∈ ps ∧ env.leaderRequest t p = some b :=
  Proofs.Cluster.asked_iff s env b t p

/-- … exactly once over all brokers, one request per broker. -/
theorem asked_once (s : CState) (env : Env) (h : SnapNodup (snapUsed s env)) :
    (((cycle s env).2.asked).flatMap (·.2)).Nodup ∧ (((cycle s env).2.asked).map (·.1)).Nodup :=
  Proofs.Cluster.asked_once s env h

/-- Every successful answer produces exactly one broker-offset update carrying that offset and the
    topic's total partition count. -/
theorem success_yields_one_update (s : CState) (env : Env) (hs : SnapNodup (snapUsed s env))
    (hf : Faithful env) (b : Nat) (reqs : List (String × Int)) (resp : List (String × Int × Option Int))
    (hb : (b, reqs) ∈ (cycle s env).2.asked) (ha : env.answer b reqs = some resp)
    (t : String) (p o : Int) (hr : (t, p, some o) ∈ resp) :
    ((cycle s env).2.updates.filter (fun u => u.1 == t && u.2.1 == p)) =
      [(t, p, o, snapCount (maybeUpdate s env).1.snapshot t)] :=
  Proofs.Cluster.success_yields_one_update s env hs hf b reqs resp hb ha t p o hr

/-- The count is the length of the partition list answered at the last complete refresh —
    leaderless partitions included. -/
theorem count_is_partition_count (s : CState) (env : Env) (ts : List String) (hn : ts.Nodup)
    (hc : CompleteRefresh s env ts) (t : String) (ht : t ∈ ts) (ps : List Int)
    (hp : env.partitions t = some ps) :
    snapCount (maybeUpdate s env).1.snapshot t = ps.length :=
  Proofs.Cluster.count_is_partition_count s env ts hn hc t ht ps hp

/-- Never a fabricated or stale update: every update stems from an answer given in this very cycle
    to a request of this cycle, and carries the answered offset. -/
theorem no_fabrication (s : CState) (env : Env) (u : Update) (hu : u ∈ (cycle s env).2.updates) :
    ∃ b reqs resp, (b, reqs) ∈ (cycle s env).2.asked ∧ env.answer b reqs = some resp ∧
      (u.1, u.2.1, some u.2.2.1) ∈ resp ∧ u.2.2.2 = snapCount (maybeUpdate s env).1.snapshot u.1 :=
  Proofs.Cluster.no_fabrication s env u hu

/-- A failed broker call produces no update for the partitions asked of that broker. -/
theorem failed_call_no_update (s : CState) (env : Env) (hs : SnapNodup (snapUsed s env))
    (hf : Faithful env) (b : Nat) (reqs : List (String × Int))
    (hb : (b, reqs) ∈ (cycle s env).2.asked) (ha : env.answer b reqs = none)
    (t : String) (p : Int) (htp : (t, p) ∈ reqs) :
    ∀ u ∈ (cycle s env).2.updates, ¬ (u.1 = t ∧ u.2.1 = p) :=
  Proofs.Cluster.failed_call_no_update s env hs hf b reqs hb ha t p htp

/-- A per-partition error code produces no update for that partition. -/
theorem partition_error_no_update (s : CState) (env : Env) (hs : SnapNodup (snapUsed s env))
    (hf : Faithful env) (b : Nat) (reqs : List (String × Int)) (resp : List (String × Int × Option Int))
    (hb : (b, reqs) ∈ (cycle s env).2.asked) (ha : env.answer b reqs = some resp)
    (t : String) (p : Int) (hr : (t, p, none) ∈ resp) :
    ∀ u ∈ (cycle s env).2.updates, ¬ (u.1 = t ∧ u.2.1 = p) :=
  Proofs.Cluster.partition_error_no_update s env hs hf b reqs resp hb ha t p hr

/-- A per-partition error or an unknown leader causes metadata to be re-read on the next cycle. -/
theorem error_or_unknown_leader_forces_refresh (s : CState) (env env' : Env)
    (h : (∃ t ps cnt p, (t, ps, cnt) ∈ snapUsed s env ∧ p ∈ ps ∧ env.leaderRequest t p = none) ∨
         (∃ b reqs resp t p, (b, reqs) ∈ (cycle s env).2.asked ∧ env.answer b reqs = some resp ∧
            (t, p, none) ∈ resp)) :
    (cycle s env).1.fetchMetadata = true ∧ (cycle (cycle s env).1 env').2.refreshed = true :=
  Proofs.Cluster.error_or_unknown_leader_forces_refresh s env env' h

/-! ### The module's main loop (`mainLoop`, run for real by the `cluster` stream's `K tick` ops) -/

/-- Every offset tick runs exactly one refresh cycle, in order, and nothing else does: over ANY sequence
    of offset, metadata and reaper ticks the cycles performed are those of `runCycles` over the offset
    ticks, each flagged with "a metadata tick arrived since the previous offset tick" — so every theorem
    above holds of every cycle of every run of the loop. -/
theorem every_offset_tick_runs_one_cycle (name : String) (s : CState) (ticks : List Tick) :
    cycleOuts (runLoop name s ticks) = runCycles s (cyclesOf false ticks) :=
  (Proofs.Cluster.loop_is_cycles name s ticks).1

/-- … one per offset tick. -/
theorem cycles_counted (name : String) (s : CState) (ticks : List Tick) :
    (cycleOuts (runLoop name s ticks)).length =
      (ticks.filter fun t => match t with | .offset _ => true | _ => false).length :=
  Proofs.Cluster.cycleOuts_length name s ticks

/-! ### Non-vacuity: two topics over two brokers, a leaderless partition, one partition error -/

private def env1 : Env :=
  { topics := some ["a", "b"],
    partitions := fun t => if t = "a" then some [0, 1, 2] else some [0],
    leaderRefresh := fun t p => if t = "a" ∧ p = 2 then none else if t = "a" then some 1 else some 2,
    leaderRequest := fun t p => if t = "a" ∧ p = 2 then none else if t = "a" then some 1 else some 2,
    answer := fun _ reqs => some (reqs.map fun (t, p) => (t, p, if t = "a" ∧ p = 1 then none else some (100 + p))) }

example : (cycle CState.init env1).2 =
    { refreshed := true, deletes := [], asked := [(1, [("a", 0), ("a", 1)]), (2, [("b", 0)])],
      updates := [("a", 0, 100, 3), ("b", 0, 100, 1)] } := by decide
example : (cycle CState.init env1).1.fetchMetadata = true := by decide
example : cycleOuts (runLoop "c0" CState.init [.reaper none none, .offset env1, .metadata, .reaper (some []) (some ["g"]), .offset env1]) =
    runCycles CState.init [(false, env1), (true, env1)] := by decide

/-- `Start` fetches once before any ticker exists, and that first fetch reads the metadata (the flag is
    set beforehand): consumers are evaluated against real end offsets from the first moment.  (Tied by the
    `K start` ops: the module's real Configure, Start — connecting by itself to sarama's mock brokers —,
    the first tick of its real one-second ticker, Stop.) -/
theorem start_reads_metadata_and_fetches_first (name : String) (env : Env) (envs : List Env) :
    ∃ o, (startThenTicks name (env :: envs)).head? = some (LoopOut.cycled o) ∧ o.refreshed = true ∧
      o = (cycle CState.init env).2 := by
  refine ⟨(cycle CState.init env).2, ?_, ?_, rfl⟩
  · simp [startThenTicks, runLoop, loopStep]
  · rw [Proofs.Cluster.cycle_refreshed]
    exact Proofs.Cluster.maybeUpdate_refreshed _ env rfl

/-- the refresh intervals are the configured ones, else 10 s (offsets), 60 s (topics) and 0 = no reaper -/
theorem refresh_intervals (a b c : Int) :
    settings none none none = (10, 60, 0) ∧ settings (some a) (some b) (some c) = (a, b, c) ∧
    settings (some a) none none = (a, 60, 0) ∧ settings none (some b) none = (10, b, 0) := by
  simp [settings]

/-- What the module is answered IS what the Kafka client answered: the shim between the module and
    `sarama.Client` (regenerated from helpers/sarama.go on every run) hands every call and every answer
    through unchanged and keeps no state of its own — asked of exactly its current leader, and every answer recorded as it was given. -/
theorem shim_is_transparent : Shim.transparent Burrow.Generated.saramaShim = true := by decide

end Burrow.Props.C11
