/-
  C17 — Served data equals ingested state; nothing outlives its deletion.  Property theorems only.

  JSON endpoints: the payload of every storage-backed handler IS the backend's reply (C16's
  found-theorems, restated here for the data clause).  Metrics: `Http.scrapeWrites` models
  handlePrometheusMetrics after the repair (vectors reset at the start of every scrape): what a scrape
  reports is a function of the current listings and statuses — there is no registry in the model that
  could remember a deleted group or topic.
-/
import BurrowVerif.Proofs.HttpMetrics
import BurrowVerif.Generated.Http
import BurrowVerif.Generated.StorageLocks
import BurrowVerif.Proofs.Locks

namespace Burrow.Props.C17
open Burrow Burrow.Http Burrow.Storage

variable {W : Type} (be : Backend W) (w : W)

/-- the consumer detail endpoint serves exactly the stored windows, owners and lags of the group … -/
theorem json_detail_is_state (ps : Params) (w' : W) (t : ConsumerTopics)
    (h : be.consumerDetail w (param ps "cluster") (param ps "consumer") = (w', some t)) :
    (handle be w "handleConsumerDetail" ps).2.payload = .topics t := by
  rw [consumerDetail_found be w ps h]; rfl

/-- … the status endpoints serve exactly the evaluation result, named after the request … -/
theorem json_status_is_evaluation (ps : Params) (full : Bool) (w' : W) (g : Group.GroupStatus)
    (h : be.status w (param ps "cluster") (param ps "consumer") full = (w', some g)) :
    (handle be w (if full then "handleConsumerStatusComplete" else "handleConsumerStatus") ps).2.payload =
      .status (param ps "cluster") (param ps "consumer") (some g) := by
  rw [consumerStatus_found be w ps full h]

/-- … and the list / topic endpoints serve the stored lists and offsets. -/
theorem json_lists_are_state (ps : Params) :
    (handle be w "handleClusterList" ps).2.payload = .names "clusters" (be.clusters w) ∧
    (∀ l, be.topics w (param ps "cluster") = some l → (handle be w "handleTopicList" ps).2.payload = .names "topics" l) ∧
    (∀ l, be.consumers w (param ps "cluster") = some l → (handle be w "handleConsumerList" ps).2.payload = .names "consumers" l) ∧
    (∀ l, be.topicDetail w (param ps "cluster") (param ps "topic") = some l → (handle be w "handleTopicDetail" ps).2.payload = .offsets l) := by
  refine ⟨by rw [clusterList_ok]; rfl, fun l h => by rw [topicList_found be w ps h]; rfl,
    fun l h => by rw [consumerList_found be w ps h]; rfl, fun l h => by rw [topicDetail_found be w ps h]; rfl⟩

/-- **metrics equal the status**: for every group a scrape finds, the total lag and the status are
    reported as the status holds them, and every listed partition's lag is reported under that
    partition's own topic and id -/
theorem metrics_equal_status (cluster group : String) (g : Group.GroupStatus) :
    { name := "burrow_kafka_consumer_lag_total", labels := [cluster, group], value := g.totalLag } ∈ groupSeries cluster group g ∧
    { name := "burrow_kafka_consumer_status", labels := [cluster, group], value := g.status.toNat } ∈ groupSeries cluster group g ∧
    ∀ p ∈ g.partitions,
      { name := "burrow_kafka_consumer_partition_lag", labels := [cluster, group, p.topic, toString p.partition],
        value := p.st.currentLag } ∈ groupSeries cluster group g :=
  ⟨(groupSeries_totals cluster group g).1, (groupSeries_totals cluster group g).2,
   fun p hp => groupSeries_partition_lag cluster group g p hp⟩

/-- every series of a group carries that group's own cluster and group labels, nothing else's -/
theorem group_series_labelled (cluster group : String) (g : Group.GroupStatus) :
    ∀ s ∈ groupSeries cluster group g, s.labels.take 2 = [cluster, group] := groupSeries_labels cluster group g

/-- the topic offset series are exactly: position `i` of the topic reply under partition label `i` -/
theorem topic_series_by_position (cluster topic : String) (offs : List Int) (s : Series) :
    s ∈ topicSeries cluster topic offs ↔
      ∃ (i : Nat) (o : Int), offs[i]? = some o ∧
        s = { name := "burrow_kafka_topic_partition_offset", labels := [cluster, topic, toString i], value := o } :=
  topicSeries_iff cluster topic offs s

/-- **attribution of topic offsets (partial)**: when every partition of the topic has an offset, the
    topic reply lists each partition's offset at its own position (so JSON positions and metric labels
    are the partitions' ids) -/
theorem topic_offsets_attribution_partial (s : Store) (c t : String) (l : List (Option Int))
    (hl : topicOffsetsByPartition s c t = some l) (hall : ∀ x ∈ l, x.isSome) :
    ∃ offs, fetchTopic s c t = some offs ∧ offs.length = l.length ∧ ∀ i : Nat, (offs[i]?).map some = l[i]? := by
  unfold topicOffsetsByPartition at hl
  unfold fetchTopic
  cases hc : alookup c s.clusters with
  | none => simp [hc] at hl
  | some cm =>
    simp only [hc] at hl ⊢
    cases ht : alookup t cm.broker with
    | none => simp [ht] at hl
    | some rings =>
      simp only [ht, Option.map_some, Option.some.injEq] at hl ⊢
      subst hl
      refine ⟨_, rfl, ?_, ?_⟩
      · clear ht
        induction rings with
        | nil => rfl
        | cons r rs ih =>
          have h1 := hall ((r.get 0).map (·.offset)) (by simp)
          cases hr : r.get 0 with
          | none => simp [hr] at h1
          | some b =>
            simp only [List.filterMap_cons, hr, Option.map_some, List.length_cons, List.map_cons]
            rw [ih (fun x hx => hall x (by simp only [List.map_cons, List.mem_cons]; exact Or.inr hx))]
      · clear ht
        induction rings with
        | nil => intro i; simp
        | cons r rs ih =>
          have h1 := hall ((r.get 0).map (·.offset)) (by simp)
          cases hr : r.get 0 with
          | none => simp [hr] at h1
          | some b =>
            intro i
            simp only [List.filterMap_cons, hr, Option.map_some, List.map_cons]
            cases i with
            | zero => simp
            | succ j =>
              simpa using ih (fun x hx => hall x (by simp only [List.map_cons, List.mem_cons]; exact Or.inr hx)) j

/-- a store whose topic "t" has partition 0 without an offset and partition 1 at offset 17 -/
def shiftStore : Store where
  cfg := { intervals := 1, expireGroup := 0, minDistance := 0, allowSet := false, denySet := false }
  clusters := [("c", { broker := [("t", [Ring.new 1, (Ring.new 1).set 0 (some { offset := 17, ts := 0 })])], consumer := [] })]

/-- D8 (known finding): with a partition that has no offset yet, the reply shifts — partition 1's
    offset 17 is reported at position 0 -/
theorem shift_witness :
    topicOffsetsByPartition shiftStore "c" "t" = some [none, some 17] ∧ fetchTopic shiftStore "c" "t" = some [17] := by
  decide

/-- **nothing outlives its deletion (clusters)**: every series of a scrape carries a cluster of the
    current cluster list, whatever earlier scrapes reported -/
theorem scrape_reports_only_listed_clusters :
    ∀ s ∈ (scrapeWrites be w).2, ∃ c ∈ be.clusters w, s.labels.head? = some c :=
  scrape_clusters_listed be w

/-- **nothing outlives its deletion (groups, topics)**: within a cluster a scrape writes group series
    only for the groups the consumer listing returns at that moment whose status is not NOTFOUND, and
    topic series only for the topics the topic listing returns — by construction of `scrapeCluster`: -/
theorem scrape_cluster_unfolds (acc : W × List Series) (cluster : String) :
    scrapeCluster be acc cluster =
      let a1 := ((be.consumers acc.1 cluster).getD []).foldl (scrapeGroup be cluster) acc
      (a1.1, a1.2 ++ ((be.topics a1.1 cluster).getD []).flatMap fun topic =>
        topicSeries cluster topic ((be.topicDetail a1.1 cluster topic).getD [])) := rfl

/-- a group whose status is NOTFOUND (deleted or expired) contributes no series -/
theorem notfound_group_writes_nothing (cluster group : String) (a : W × List Series)
    (h : (be.status a.1 cluster group true).2 = none) : (scrapeGroup be cluster a group).2 = a.2 := by
  simp [scrapeGroup, h]

/-- the series vectors are those registered in prometheus.go (pinned against the generated facts in
    the correspondence; here: the model writes no other names) -/
theorem series_names (cluster group : String) (g : Group.GroupStatus) :
    ∀ s ∈ groupSeries cluster group g, s.name ∈ ["burrow_kafka_consumer_lag_total", "burrow_kafka_consumer_status",
      "burrow_kafka_consumer_partition_lag", "burrow_kafka_consumer_current_offset", "burrow_kafka_topic_partition_status"] := by
  intro s hs
  simp only [groupSeries, List.mem_append, List.mem_cons, List.mem_flatMap] at hs
  rcases hs with (rfl | rfl | h) | ⟨p, _, hp⟩
  · simp
  · simp
  · simp at h
  · rcases hp with (rfl | h) | hp
    · simp
    · simp at h
    · split at hp
      · split at hp
        · simp at hp; rcases hp with rfl | rfl <;> simp
        · simp at hp
      · simp at hp

/-! ### deletion under the worker pool

"Nothing outlives its deletion" presupposes that a group's deletion is applied after the group's
earlier commits.  On the worker pool that is the routing switch of `mainLoop` (regenerated from
inmemory.go on every run): every group-keyed request — and only those — is hashed, and hashed on
cluster+group alone. -/

theorem group_requests_share_the_groups_worker :
    (Generated.storageHandlers.filter fun h => h.2.2.1 != "any").map (fun h => (h.1, h.2.2.1)) =
    [("StorageClearConsumerOwners", "hashed"), ("StorageFetchConsumer", "hashed"), ("StorageSetConsumerOffset", "hashed"),
     ("StorageSetConsumerOwner", "hashed"), ("StorageSetDeleteGroup", "hashed")] := by decide

/-- a deletion arriving after a commit of the same group reaches the same worker (whose queue is FIFO:
    `Locks.queue_is_sublist`), for every number of workers and every hash -/
theorem deletion_reaches_the_commits_worker (n : Nat) (hash : String → Nat) (pick : Nat → Nat) (commit delete : Locks.Req)
    (h1 : commit.hashed = true) (h2 : delete.hashed = true) (hk : commit.key = delete.key) :
    Locks.assign n hash pick delete = Locks.assign n hash pick commit :=
  (Locks.same_key_same_worker n hash pick commit delete h1 h2 hk).symm

end Burrow.Props.C17
