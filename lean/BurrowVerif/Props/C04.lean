/-
  C04 — Group status is a faithful aggregate of its partitions.  Property theorems only.
  `Group.aggregate` models the fold of evaluateConsumerStatus over the per-partition results in
  iteration order (Go map order: arbitrary — hence `perm_invariant`), `Group.filterView` the
  problems-only copy, `Eval.evaluatePartition` the per-partition evaluation.
-/
import BurrowVerif.Proofs.Group

namespace Burrow.Props.C04
open Burrow Burrow.Eval Burrow.Group

/-- partition evaluation only ever yields OK, WARN, STOP, STALL or REWIND -/
def PartitionStatuses (ps : List PStat) : Prop := ∀ p ∈ ps, p.st.status ≥ .ok

/-- OK iff all partitions are OK. -/
theorem status_ok_iff (ps : List PStat) (h : PartitionStatuses ps) :
    (aggregate ps).status = .ok ↔ ∀ p ∈ ps, p.st.status = .ok :=
  Proofs.Group.status_ok_iff ps h

/-- WARN iff the worst partition is WARN. -/
theorem status_warn_iff (ps : List PStat) (h : PartitionStatuses ps) :
    (aggregate ps).status = .warn ↔ (∃ p ∈ ps, p.st.status = .warn) ∧ ∀ p ∈ ps, p.st.status ≤ .warn :=
  Proofs.Group.status_warn_iff ps h

/-- ERR iff some partition is worse than WARN (stopped, stalled or rewound) — the finer status never
    leaks to the group level. -/
theorem status_err_iff (ps : List PStat) (h : PartitionStatuses ps) :
    (aggregate ps).status = .err ↔ ∃ p ∈ ps, p.st.status > .warn :=
  Proofs.Group.status_err_iff ps h

theorem status_is_ok_warn_or_err (ps : List PStat) (h : PartitionStatuses ps) :
    (aggregate ps).status = .ok ∨ (aggregate ps).status = .warn ∨ (aggregate ps).status = .err :=
  Proofs.Group.status_is_ok_warn_or_err ps h

/-- Total lag is the sum of the partitions' current lags (as a uint64). -/
theorem totalLag_sum (ps : List PStat) :
    (aggregate ps).totalLag = (ps.map fun p => p.st.currentLag).sum % 2 ^ 64 :=
  Proofs.Group.totalLag_sum ps

theorem totalLag_exact (ps : List PStat) (h : (ps.map fun p => p.st.currentLag).sum < 2 ^ 64) :
    (aggregate ps).totalLag = (ps.map fun p => p.st.currentLag).sum :=
  Proofs.Group.totalLag_exact ps h

/-- Max-lag names a listed partition with the largest current lag; absent iff there are no partitions. -/
theorem maxlag_none_iff (ps : List PStat) : (aggregate ps).maxlag = none ↔ ps = [] :=
  Proofs.Group.maxlag_none_iff ps

theorem maxlag_is_max (ps : List PStat) (m : PStat) (h : (aggregate ps).maxlag = some m) :
    m ∈ ps ∧ ∀ p ∈ ps, p.st.currentLag ≤ m.st.currentLag :=
  Proofs.Group.maxlag_is_max ps m h

/-- The partition count equals the number of partitions in the full view. -/
theorem count_eq_length (ps : List PStat) :
    (aggregate ps).totalPartitions = ps.length ∧ (aggregate ps).partitions = ps :=
  Proofs.Group.count_eq_length ps

/-- Completeness is (number of partitions whose own completeness is 1.0) / (number of partitions),
    and the literal 0 for a group without partitions. -/
theorem complete_fraction (ps : List PStat) :
    (aggregate ps).complete =
      if ps = [] then (0, 0) else ((ps.filter fun p => isComplete p.st.complete).length, ps.length) :=
  Proofs.Group.complete_fraction ps

/-- … and a partition's own completeness is 1.0 exactly when its window is full: every slot holds a
    commit (window shape from C02: `k` blanks then commits). -/
theorem partition_complete_iff_full (p : Partition) (meets : Nat → Nat → Bool) (now : Int) (allowed : Nat)
    (k : Nat) (cs : List Commit) (hshape : p.offsets = List.replicate k none ++ cs.map some)
    (hN : 1 ≤ p.offsets.length) (st : PartStatus) (h : evaluatePartition p meets now allowed = some st) :
    isComplete st.complete = true ↔ k = 0 :=
  Proofs.Group.partition_complete_iff_full p meets now allowed k cs hshape hN st h

/-- a partition without any window (never committed to, never owned) is not complete -/
theorem partition_without_window (p : Partition) (meets : Nat → Nat → Bool) (now : Int) (allowed : Nat)
    (h0 : p.offsets = []) (st : PartStatus) (h : evaluatePartition p meets now allowed = some st) :
    isComplete st.complete = false ∧ st.status = .ok :=
  Proofs.Group.partition_without_window p meets now allowed h0 st h

/-- The problems-only view lists exactly the partitions of the full view that are worse than OK, in
    order, and agrees with the full view on every summary field. -/
theorem filter_view (g : GroupStatus) :
    (filterView g).partitions = g.partitions.filter (fun p => p.st.status > .ok) ∧
    (filterView g).status = g.status ∧ (filterView g).complete = g.complete ∧
    (filterView g).totalPartitions = g.totalPartitions ∧ (filterView g).maxlag = g.maxlag ∧
    (filterView g).totalLag = g.totalLag := by
  simp [filterView]

/-- Go iterates topics in map order: every summary field is independent of that order (max-lag up
    to ties: its lag value is). -/
theorem perm_invariant (ps ps' : List PStat) (h : ps.Perm ps') :
    (aggregate ps).status = (aggregate ps').status ∧
    (aggregate ps).totalLag = (aggregate ps').totalLag ∧
    (aggregate ps).totalPartitions = (aggregate ps').totalPartitions ∧
    (aggregate ps).complete = (aggregate ps').complete ∧
    (aggregate ps).maxlag.map (·.st.currentLag) = (aggregate ps').maxlag.map (·.st.currentLag) ∧
    (aggregate ps).partitions.Perm (aggregate ps').partitions :=
  Proofs.Group.perm_invariant ps ps' h

/-- The evaluation of a storage reply never panics when every window has the C02 shape. -/
theorem evaluateGroup_total (meets : Nat → Nat → Bool) (now : Int) (allowed : Nat)
    (topics : List (String × List Partition))
    (hwf : ∀ tp ∈ topics, ∀ p ∈ tp.2, ∃ (k : Nat) (cs : List Commit), p.offsets = List.replicate k none ++ cs.map some) :
    (evaluateGroup meets now allowed topics).isSome :=
  Proofs.Group.evaluateGroup_total meets now allowed topics hwf

/-- every status a partition evaluation yields satisfies `PartitionStatuses` -/
theorem evaluatePartition_status_ge_ok (p : Partition) (meets : Nat → Nat → Bool) (now : Int) (allowed : Nat)
    (st : PartStatus) (h : evaluatePartition p meets now allowed = some st) : st.status ≥ .ok :=
  Proofs.Group.evaluatePartition_status_ge_ok p meets now allowed st h

/-! ### Non-vacuity -/

private def ps1 (s : Status) (lag : Nat) (c : Nat × Nat) : PStat :=
  { topic := "t", partition := 0, owner := "", clientID := "", st := { status := s, currentLag := lag, start := none, «end» := none, complete := c } }

-- STOP and WARN partitions, a tie for the largest lag, one incomplete window: ERR, total 25, max 10, 2/3 complete
example : let g := aggregate [ps1 .warn 10 (3, 3), ps1 .stop 10 (3, 3), ps1 .ok 5 (1, 3)]
    (g.status, g.totalLag, g.maxlag.map (·.st.currentLag), g.complete, g.totalPartitions) = (.err, 25, some 10, (2, 3), 3) := by
  decide

-- the uint64 sum wraps only beyond 2^64
example : (aggregate [ps1 .ok (2 ^ 63) (1, 1), ps1 .ok (2 ^ 63) (1, 1)]).totalLag = 0 := by decide

end Burrow.Props.C04
