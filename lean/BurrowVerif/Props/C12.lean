/-
  C12 — Topic deletion is detected exactly.  Property theorems only.
-/
import BurrowVerif.Proofs.Cluster
import BurrowVerif.Generated.SaramaShim

namespace Burrow.Props.C12
open Burrow Burrow.Cluster Burrow.Spec.Cluster

/-- A topic is reported deleted in a cycle exactly when that cycle's metadata refresh completes,
    the topic was present at the previous complete refresh, and it is absent from this one. -/
theorem delete_iff (s : CState) (env : Env) (t : String) :
    t ∈ (cycle s env).2.deletes ↔
      ∃ ts old, CompleteRefresh s env ts ∧ s.snapshot = some old ∧ t ∈ old.map (·.1) ∧ t ∉ ts :=
  Proofs.Cluster.delete_iff s env t

/-- … at most once per cycle. -/
theorem deletes_nodup (s : CState) (env : Env) (old : Snapshot) (hs : s.snapshot = some old)
    (hn : (old.map (·.1)).Nodup) : (cycle s env).2.deletes.Nodup :=
  Proofs.Cluster.deletes_nodup s env old hs hn

/-- The snapshot is the topic set of the last complete refresh: a complete refresh replaces it … -/
theorem complete_refresh_sets_snapshot (s : CState) (env : Env) (ts : List String)
    (hc : CompleteRefresh s env ts) :
    ∃ snap, (cycle s env).1.snapshot = some snap ∧ ∀ t, t ∈ snap.map (·.1) ↔ t ∈ ts :=
  Proofs.Cluster.complete_refresh_sets_snapshot s env ts hc

/-- … and a refresh that fails part-way (or no refresh) keeps the old snapshot and deletes nothing. -/
theorem failed_refresh_keeps_snapshot (s : CState) (env : Env)
    (h : ¬ ∃ ts, CompleteRefresh s env ts) :
    (cycle s env).2.deletes = [] ∧ (cycle s env).1.snapshot = s.snapshot :=
  Proofs.Cluster.failed_refresh_keeps_snapshot s env h

/-- Topics that are still present — with or without leaders — are never deleted. -/
theorem present_never_deleted (s : CState) (env : Env) (ts : List String) (t : String)
    (hts : env.topics = some ts) (ht : t ∈ ts) : t ∉ (cycle s env).2.deletes :=
  Proofs.Cluster.present_never_deleted s env ts t hts ht

/-- Exactly once: between two reports of the same topic there is a complete refresh in which the
    topic was present again. -/
theorem exactly_once (s0 : CState) (cyc : List (Bool × Env)) (i j : Nat) (hij : i < j) (t : String)
    (oi oj : CycleOut) (hi : (runCycles s0 cyc)[i]? = some oi) (hj : (runCycles s0 cyc)[j]? = some oj)
    (hti : t ∈ oi.deletes) (htj : t ∈ oj.deletes) :
    ∃ k tick env ts, i < k ∧ k < j ∧ cyc[k]? = some (tick, env) ∧
      CompleteRefresh (stateBefore s0 cyc k) env ts ∧ t ∈ ts :=
  Proofs.Cluster.exactly_once s0 cyc i j hij t oi oj hi hj hti htj

/-- A metadata tick of the main loop makes the NEXT offset tick re-read the metadata (and so detect
    deletions), whatever the loop did before and however many reaper ticks come in between. -/
theorem metadata_tick_forces_refresh (name : String) (s : CState) (before reaps after : List Tick) (env : Env)
    (h : ∀ t ∈ reaps, ∃ kg sg, t = Tick.reaper kg sg) :
    ∃ o, (cycleOuts (runLoop name s (before ++ Tick.metadata :: reaps ++ Tick.offset env :: after)))[
            (cycleOuts (runLoop name s before)).length]? = some o ∧ o.refreshed = true :=
  Proofs.Cluster.metadata_tick_forces_refresh name s before reaps after env h

/-! ### Non-vacuity: present, absent (deleted once), still absent (not again), failing refresh -/

private def envWith (ts : Option (List String)) (pfail : Bool) : Env :=
  { topics := ts, partitions := fun _ => if pfail then none else some [0],
    leaderRefresh := fun _ _ => some 1, leaderRequest := fun _ _ => some 1,
    answer := fun _ reqs => some (reqs.map fun (t, p) => (t, p, some 7)) }

example : (runCycles CState.init
    [(true, envWith (some ["a", "b"]) false), (true, envWith (some ["a"]) true),
     (true, envWith (some ["a"]) false), (true, envWith (some ["a"]) false),
     (true, envWith none false)]).map (·.deletes) = [[], [], ["b"], [], []] := by decide

/-- through the loop: topic b disappears; it is reported at the first offset tick after the metadata tick -/
example : (cycleOuts (runLoop "c0" CState.init
    [.offset (envWith (some ["a", "b"]) false), .offset (envWith (some ["a"]) false), .metadata,
     .reaper (some []) (some []), .offset (envWith (some ["a"]) false)])).map (·.deletes) = [[], [], ["b"]] := by decide

/-- What the module is answered IS what the Kafka client answered: the shim between the module and
    `sarama.Client` (regenerated from helpers/sarama.go on every run) hands every call and every answer
    through unchanged and keeps no state of its own — the topic and partition listings the deletion logic compares. -/
theorem shim_is_transparent : Shim.transparent Burrow.Generated.saramaShim = true := by decide

end Burrow.Props.C12
