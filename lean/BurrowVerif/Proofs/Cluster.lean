/-
  Proofs for C11 / C12: the refresh cycle of the cluster module (`Model/Cluster.lean`).
  Core Lean only.
-/
import BurrowVerif.Spec.Cluster

namespace Burrow.Proofs.Cluster
open Burrow Burrow.Cluster Burrow.Spec.Cluster

/-! ### Projections of `cycle` -/

theorem cycle_deletes (s : CState) (env : Env) :
    (cycle s env).2.deletes = (maybeUpdate s env).2.2 := rfl

theorem cycle_refreshed (s : CState) (env : Env) :
    (cycle s env).2.refreshed = (maybeUpdate s env).2.1 := rfl

theorem cycle_snapshot (s : CState) (env : Env) :
    (cycle s env).1.snapshot = (maybeUpdate s env).1.snapshot := rfl

theorem cycle_asked (s : CState) (env : Env) :
    (cycle s env).2.asked = (genAll env (snapUsed s env) ([], false)).1 := rfl

theorem cycle_updates (s : CState) (env : Env) :
    (cycle s env).2.updates =
      (callBrokers env (maybeUpdate s env).1.snapshot (cycle s env).2.asked).1 := rfl

theorem cycle_fetch (s : CState) (env : Env) :
    (cycle s env).1.fetchMetadata =
      ((maybeUpdate s env).1.fetchMetadata || (genAll env (snapUsed s env) ([], false)).2 ||
        (callBrokers env (maybeUpdate s env).1.snapshot (cycle s env).2.asked).2) := rfl

/-! ### `snapSet`, `readTopics` -/

theorem mem_keys_snapSet (t : String) (v : List Int × Nat) (l : Snapshot) (x : String) :
    x ∈ (snapSet t v l).map (·.1) ↔ x = t ∨ x ∈ l.map (·.1) := by
  induction l with
  | nil => simp [snapSet]
  | cons e rest ih =>
    obtain ⟨t', v'⟩ := e
    unfold snapSet
    split
    · rename_i h; subst h; simp
    · simp only [List.map_cons, List.mem_cons, ih]
      exact or_left_comm

theorem find_snapSet_self (t : String) (v : List Int × Nat) (l : Snapshot) :
    (snapSet t v l).find? (·.1 == t) = some (t, v) := by
  induction l with
  | nil => simp [snapSet]
  | cons e rest ih =>
    obtain ⟨t', v'⟩ := e
    unfold snapSet
    split
    · simp
    · rename_i h
      simp [h, ih]

theorem find_snapSet_ne (t t' : String) (v : List Int × Nat) (l : Snapshot) (hne : t' ≠ t) :
    (snapSet t' v l).find? (·.1 == t) = l.find? (·.1 == t) := by
  induction l with
  | nil => simp [snapSet, hne]
  | cons e rest ih =>
    obtain ⟨t0, v0⟩ := e
    unfold snapSet
    split
    · rename_i h; subst h; simp [hne]
    · simp [List.find?_cons, ih]

theorem readTopics_some (env : Env) (ts : List String) (acc snap : Snapshot)
    (h : readTopics env ts acc = some snap) :
    (∀ t ∈ ts, (env.partitions t).isSome) ∧
      ∀ x, x ∈ snap.map (·.1) ↔ x ∈ acc.map (·.1) ∨ x ∈ ts := by
  induction ts generalizing acc with
  | nil =>
    simp only [readTopics, Option.some.injEq] at h
    subst h; simp
  | cons t ts ih =>
    unfold readTopics at h
    split at h
    · simp at h
    · rename_i ps hp
      obtain ⟨h1, h2⟩ := ih _ h
      refine ⟨?_, ?_⟩
      · intro x hx
        rcases List.mem_cons.1 hx with rfl | hx
        · simp [hp]
        · exact h1 x hx
      · intro x
        rw [h2, mem_keys_snapSet, List.mem_cons]
        constructor
        · rintro ((h | h) | h)
          · exact Or.inr (Or.inl h)
          · exact Or.inl h
          · exact Or.inr (Or.inr h)
        · rintro (h | h | h)
          · exact Or.inl (Or.inr h)
          · exact Or.inl (Or.inl h)
          · exact Or.inr h

theorem readTopics_isSome (env : Env) (ts : List String) (acc : Snapshot)
    (h : ∀ t ∈ ts, (env.partitions t).isSome) : ∃ snap, readTopics env ts acc = some snap := by
  induction ts generalizing acc with
  | nil => exact ⟨acc, rfl⟩
  | cons t ts ih =>
    have ht := h t (List.mem_cons_self ..)
    obtain ⟨ps, hp⟩ := Option.isSome_iff_exists.1 ht
    unfold readTopics
    rw [hp]
    exact ih _ (fun x hx => h x (List.mem_cons_of_mem _ hx))

theorem readTopics_find_notMem (env : Env) (ts : List String) (acc snap : Snapshot) (t : String)
    (h : readTopics env ts acc = some snap) (ht : t ∉ ts) :
    snap.find? (·.1 == t) = acc.find? (·.1 == t) := by
  induction ts generalizing acc with
  | nil =>
    simp only [readTopics, Option.some.injEq] at h
    subst h; rfl
  | cons t0 ts ih =>
    unfold readTopics at h
    split at h
    · simp at h
    · rename_i ps hp
      have hne : t0 ≠ t := fun e => ht (e ▸ List.mem_cons_self ..)
      rw [ih _ h (fun hm => ht (List.mem_cons_of_mem _ hm)), find_snapSet_ne _ _ _ _ hne]

theorem readTopics_find_mem (env : Env) (ts : List String) (acc snap : Snapshot) (t : String)
    (ps : List Int) (h : readTopics env ts acc = some snap) (ht : t ∈ ts)
    (hp : env.partitions t = some ps) :
    snap.find? (·.1 == t) =
      some (t, ps.filter (fun p => (env.leaderRefresh t p).isSome), ps.length) := by
  induction ts generalizing acc with
  | nil => cases ht
  | cons t0 ts ih =>
    unfold readTopics at h
    split at h
    · simp at h
    · rename_i ps0 hp0
      by_cases hm : t ∈ ts
      · exact ih _ h hm
      · rcases List.mem_cons.1 ht with rfl | hm'
        · rw [hp0] at hp
          cases hp
          rw [readTopics_find_notMem _ _ _ _ _ h hm, find_snapSet_self]
        · exact absurd hm' hm

theorem any_key_iff (snap : Snapshot) (t : String) :
    snap.any (·.1 == t) = true ↔ t ∈ snap.map (·.1) := by
  simp only [List.any_eq_true, List.mem_map, beq_iff_eq]

/-! ### `maybeUpdate` -/

theorem maybeUpdate_complete (s : CState) (env : Env) (ts : List String)
    (hc : CompleteRefresh s env ts) :
    ∃ snap, readTopics env ts [] = some snap ∧
      (maybeUpdate s env).1 = { fetchMetadata := false, snapshot := some snap } ∧
      (maybeUpdate s env).2.1 = true ∧
      (maybeUpdate s env).2.2 = (match s.snapshot with
        | none => []
        | some old => (old.map (·.1)).filter fun t => !(snap.any (·.1 == t))) := by
  obtain ⟨h1, h2, h3⟩ := hc
  obtain ⟨snap, hs⟩ := readTopics_isSome env ts [] h3
  refine ⟨snap, hs, ?_, ?_, ?_⟩
  · simp only [maybeUpdate, h1, h2, hs, if_true]
  · simp only [maybeUpdate, h1, h2, hs, if_true]
  · simp only [maybeUpdate, h1, h2, hs, if_true]
    cases s.snapshot <;> rfl

theorem maybeUpdate_incomplete (s : CState) (env : Env) (h : ¬ ∃ ts, CompleteRefresh s env ts) :
    (maybeUpdate s env).2.2 = [] ∧ (maybeUpdate s env).1.snapshot = s.snapshot := by
  unfold maybeUpdate
  split
  · rename_i hf
    split
    · exact ⟨rfl, rfl⟩
    · rename_i ts hts
      split
      · exact ⟨rfl, rfl⟩
      · rename_i snap hsnap
        exact absurd ⟨ts, hf, hts, (readTopics_some _ _ _ _ hsnap).1⟩ h
  · exact ⟨rfl, rfl⟩

theorem maybeUpdate_refreshed (s : CState) (env : Env) (h : s.fetchMetadata = true) :
    (maybeUpdate s env).2.1 = true := by
  unfold maybeUpdate
  rw [if_pos h]
  split
  · rfl
  · split <;> rfl

theorem completeRefresh_unique (s : CState) (env : Env) (ts ts' : List String)
    (h : CompleteRefresh s env ts) (h' : CompleteRefresh s env ts') : ts = ts' := by
  have := h.2.1.symm.trans h'.2.1
  cases this; rfl

/-! ### C12 -/

theorem delete_iff (s : CState) (env : Env) (t : String) :
    t ∈ (cycle s env).2.deletes ↔
      ∃ ts old, CompleteRefresh s env ts ∧ s.snapshot = some old ∧ t ∈ old.map (·.1) ∧ t ∉ ts := by
  rw [cycle_deletes]
  constructor
  · intro hd
    by_cases hc : ∃ ts, CompleteRefresh s env ts
    · obtain ⟨ts, hc⟩ := hc
      obtain ⟨snap, hs, _, _, hdel⟩ := maybeUpdate_complete s env ts hc
      rw [hdel] at hd
      cases hold : s.snapshot with
      | none => rw [hold] at hd; cases hd
      | some old =>
        rw [hold] at hd
        simp only [List.mem_filter, Bool.not_eq_true', ← Bool.not_eq_true, any_key_iff] at hd
        refine ⟨ts, old, hc, rfl, hd.1, fun hm => hd.2 ?_⟩
        exact ((readTopics_some _ _ _ _ hs).2 t).2 (Or.inr hm)
    · rw [(maybeUpdate_incomplete s env hc).1] at hd
      cases hd
  · rintro ⟨ts, old, hc, hold, hm, hn⟩
    obtain ⟨snap, hs, _, _, hdel⟩ := maybeUpdate_complete s env ts hc
    rw [hdel, hold]
    simp only [List.mem_filter, Bool.not_eq_true', ← Bool.not_eq_true, any_key_iff]
    refine ⟨hm, fun hk => hn ?_⟩
    rcases ((readTopics_some _ _ _ _ hs).2 t).1 hk with h | h
    · cases h
    · exact h

theorem deletes_nodup (s : CState) (env : Env) (old : Snapshot) (hs : s.snapshot = some old)
    (hn : (old.map (·.1)).Nodup) : (cycle s env).2.deletes.Nodup := by
  rw [cycle_deletes]
  by_cases hc : ∃ ts, CompleteRefresh s env ts
  · obtain ⟨ts, hc⟩ := hc
    obtain ⟨snap, _, _, _, hdel⟩ := maybeUpdate_complete s env ts hc
    rw [hdel, hs]
    exact hn.filter _
  · rw [(maybeUpdate_incomplete s env hc).1]
    exact List.nodup_nil

theorem complete_refresh_sets_snapshot (s : CState) (env : Env) (ts : List String)
    (hc : CompleteRefresh s env ts) :
    ∃ snap, (cycle s env).1.snapshot = some snap ∧ ∀ t, t ∈ snap.map (·.1) ↔ t ∈ ts := by
  obtain ⟨snap, hs, h1, _, _⟩ := maybeUpdate_complete s env ts hc
  refine ⟨snap, ?_, ?_⟩
  · rw [cycle_snapshot, h1]
  · intro t
    rw [(readTopics_some _ _ _ _ hs).2 t]
    simp

theorem failed_refresh_keeps_snapshot (s : CState) (env : Env)
    (h : ¬ ∃ ts, CompleteRefresh s env ts) :
    (cycle s env).2.deletes = [] ∧ (cycle s env).1.snapshot = s.snapshot := by
  rw [cycle_deletes, cycle_snapshot]
  exact maybeUpdate_incomplete s env h

theorem present_never_deleted (s : CState) (env : Env) (ts : List String) (t : String)
    (hts : env.topics = some ts) (ht : t ∈ ts) : t ∉ (cycle s env).2.deletes := by
  intro hd
  obtain ⟨ts', old, hc, _, _, hn⟩ := (delete_iff s env t).1 hd
  have := hc.2.1.symm.trans hts
  cases this
  exact hn ht

/-! ### Runs -/

theorem runCycles_cons (s : CState) (tick : Bool) (env : Env) (rest : List (Bool × Env)) :
    runCycles s ((tick, env) :: rest) =
      (cycle (if tick then { s with fetchMetadata := true } else s) env).2 ::
        runCycles (cycle (if tick then { s with fetchMetadata := true } else s) env).1 rest := rfl

theorem runCycles_getElem? (s : CState) (cyc : List (Bool × Env)) (k : Nat) :
    (runCycles s cyc)[k]? = (cyc[k]?).map (fun c => (cycle (stateBefore s cyc k) c.2).2) := by
  induction cyc generalizing s k with
  | nil => simp [runCycles]
  | cons c rest ih =>
    obtain ⟨tick, env⟩ := c
    rw [runCycles_cons]
    cases k with
    | zero => simp [stateBefore]
    | succ k =>
      simp only [List.getElem?_cons_succ, stateBefore]
      exact ih _ _

/-- the snapshot before cycle `k+1` is the snapshot cycle `k` left -/
theorem stateBefore_succ_snapshot (s : CState) (cyc : List (Bool × Env)) (k : Nat) (tick : Bool)
    (env : Env) (hk : cyc[k]? = some (tick, env)) (hk1 : k + 1 < cyc.length) :
    (stateBefore s cyc (k + 1)).snapshot = (cycle (stateBefore s cyc k) env).1.snapshot := by
  induction cyc generalizing s k with
  | nil => simp at hk
  | cons c rest ih =>
    obtain ⟨tick0, env0⟩ := c
    cases k with
    | zero =>
      simp only [List.getElem?_cons_zero, Option.some.injEq, Prod.mk.injEq] at hk
      obtain ⟨rfl, rfl⟩ := hk
      cases rest with
      | nil => simp at hk1
      | cons c1 rest1 =>
        obtain ⟨tick1, env1⟩ := c1
        simp only [stateBefore]
        split <;> rfl
    | succ k =>
      simp only [List.getElem?_cons_succ] at hk
      simp only [List.length_cons, Nat.add_lt_add_iff_right] at hk1
      simp only [stateBefore]
      exact ih _ _ hk hk1

def HasTopic (o : Option Snapshot) (t : String) : Prop := ∃ old, o = some old ∧ t ∈ old.map (·.1)

theorem gap (s : CState) (cyc : List (Bool × Env)) (t : String) (i : Nat) (ticki : Bool) (envi : Env)
    (hi : cyc[i]? = some (ticki, envi))
    (hni : ¬ HasTopic (cycle (stateBefore s cyc i) envi).1.snapshot t) :
    ∀ d : Nat, i + 1 + d < cyc.length → HasTopic (stateBefore s cyc (i + 1 + d)).snapshot t →
      ∃ k tick env ts, i < k ∧ k < i + 1 + d ∧ cyc[k]? = some (tick, env) ∧
        CompleteRefresh (stateBefore s cyc k) env ts ∧ t ∈ ts := by
  intro d
  induction d with
  | zero =>
    intro hlt hh
    rw [Nat.add_zero, stateBefore_succ_snapshot s cyc i ticki envi hi (by simpa using hlt)] at hh
    exact absurd hh hni
  | succ d ih =>
    intro hlt hh
    have hlt' : i + 1 + d < cyc.length := by omega
    obtain ⟨c, hc⟩ : ∃ c, cyc[i + 1 + d]? = some c := ⟨cyc[i + 1 + d], List.getElem?_eq_getElem hlt'⟩
    obtain ⟨tick, env⟩ := c
    have hsucc := stateBefore_succ_snapshot s cyc (i + 1 + d) tick env hc (by omega)
    rw [show i + 1 + (d + 1) = i + 1 + d + 1 from rfl, hsucc] at hh
    by_cases hcr : ∃ ts, CompleteRefresh (stateBefore s cyc (i + 1 + d)) env ts
    · obtain ⟨ts, hcr⟩ := hcr
      obtain ⟨snap, hsn, hkeys⟩ := complete_refresh_sets_snapshot _ env ts hcr
      obtain ⟨old, hold, hm⟩ := hh
      rw [hsn] at hold
      cases hold
      exact ⟨i + 1 + d, tick, env, ts, by omega, by omega, hc, hcr, (hkeys t).1 hm⟩
    · rw [(failed_refresh_keeps_snapshot _ env hcr).2] at hh
      obtain ⟨k, tick', env', ts, h1, h2, h3, h4, h5⟩ := ih hlt' hh
      exact ⟨k, tick', env', ts, h1, by omega, h3, h4, h5⟩

theorem exactly_once (s0 : CState) (cyc : List (Bool × Env)) (i j : Nat) (hij : i < j) (t : String)
    (oi oj : CycleOut) (hi : (runCycles s0 cyc)[i]? = some oi) (hj : (runCycles s0 cyc)[j]? = some oj)
    (hti : t ∈ oi.deletes) (htj : t ∈ oj.deletes) :
    ∃ k tick env ts, i < k ∧ k < j ∧ cyc[k]? = some (tick, env) ∧
      CompleteRefresh (stateBefore s0 cyc k) env ts ∧ t ∈ ts := by
  rw [runCycles_getElem?] at hi hj
  obtain ⟨ci, hci, rfl⟩ := Option.map_eq_some_iff.1 hi
  obtain ⟨cj, hcj, rfl⟩ := Option.map_eq_some_iff.1 hj
  obtain ⟨ticki, envi⟩ := ci
  obtain ⟨tickj, envj⟩ := cj
  -- cycle i completes a refresh without `t`
  obtain ⟨tsi, _, hcri, _, _, hnti⟩ := (delete_iff _ _ t).1 hti
  obtain ⟨snapi, hsni, hkeysi⟩ := complete_refresh_sets_snapshot _ envi tsi hcri
  have hni : ¬ HasTopic (cycle (stateBefore s0 cyc i) envi).1.snapshot t := by
    rintro ⟨old, hold, hm⟩
    rw [hsni] at hold
    cases hold
    exact hnti ((hkeysi t).1 hm)
  -- the snapshot before cycle j contains `t`
  obtain ⟨_, oldj, _, holdj, hmj, _⟩ := (delete_iff _ _ t).1 htj
  have hjlen : j < cyc.length := by
    rcases Nat.lt_or_ge j cyc.length with h | h
    · exact h
    · rw [List.getElem?_eq_none h] at hcj; cases hcj
  obtain ⟨d, rfl⟩ : ∃ d, j = i + 1 + d := ⟨j - (i + 1), by omega⟩
  exact gap s0 cyc t i ticki envi hci hni d hjlen ⟨oldj, holdj, hmj⟩

/-! ### `addBlock`, `genTopic`, `genAll` -/

/-- `x` is in a bucket of broker `b` -/
def InB (acc : List (Nat × List (String × Int))) (b : Nat) (x : String × Int) : Prop :=
  ∃ l, (b, l) ∈ acc ∧ x ∈ l

theorem mem_askedOf (out : CycleOut) (b : Nat) (x : String × Int) :
    x ∈ askedOf out b ↔ InB out.asked b x := by
  unfold askedOf InB
  simp only [List.mem_flatMap, List.mem_filter, beq_iff_eq]
  constructor
  · rintro ⟨⟨b', l⟩, ⟨hm, rfl⟩, hx⟩; exact ⟨l, hm, hx⟩
  · rintro ⟨l, hm, hx⟩; exact ⟨(b, l), ⟨hm, rfl⟩, hx⟩

theorem inB_nil (b : Nat) (x : String × Int) : ¬ InB [] b x := by
  rintro ⟨l, hm, _⟩; cases hm

theorem inB_cons (b0 : Nat) (l0 : List (String × Int)) (rest : List (Nat × List (String × Int)))
    (b : Nat) (x : String × Int) :
    InB ((b0, l0) :: rest) b x ↔ (b = b0 ∧ x ∈ l0) ∨ InB rest b x := by
  unfold InB
  constructor
  · rintro ⟨l, hm, hx⟩
    rcases List.mem_cons.1 hm with h | h
    · cases h; exact Or.inl ⟨rfl, hx⟩
    · exact Or.inr ⟨l, h, hx⟩
  · rintro (⟨rfl, hx⟩ | ⟨l, hm, hx⟩)
    · exact ⟨l0, List.mem_cons_self .., hx⟩
    · exact ⟨l, List.mem_cons_of_mem _ hm, hx⟩

theorem inB_addBlock (b : Nat) (tp : String × Int) (acc : List (Nat × List (String × Int)))
    (b' : Nat) (x : String × Int) :
    InB (addBlock b tp acc) b' x ↔ InB acc b' x ∨ (b' = b ∧ x = tp) := by
  induction acc with
  | nil =>
    unfold addBlock
    rw [inB_cons]
    simp [inB_nil]
  | cons e rest ih =>
    obtain ⟨b0, l0⟩ := e
    unfold addBlock
    split
    · rename_i h; subst h
      rw [inB_cons, inB_cons, List.mem_append, List.mem_singleton]
      constructor
      · rintro (⟨h1, h2 | h2⟩ | h)
        · exact Or.inl (Or.inl ⟨h1, h2⟩)
        · exact Or.inr ⟨h1, h2⟩
        · exact Or.inl (Or.inr h)
      · rintro ((⟨h1, h2⟩ | h) | ⟨h1, h2⟩)
        · exact Or.inl ⟨h1, Or.inl h2⟩
        · exact Or.inr h
        · exact Or.inl ⟨h1, Or.inr h2⟩
    · rw [inB_cons, inB_cons, ih]
      exact or_assoc.symm

theorem mem_keys_addBlock (b : Nat) (tp : String × Int) (acc : List (Nat × List (String × Int)))
    (k : Nat) : k ∈ (addBlock b tp acc).map (·.1) ↔ k = b ∨ k ∈ acc.map (·.1) := by
  induction acc with
  | nil => simp [addBlock]
  | cons e rest ih =>
    obtain ⟨b0, l0⟩ := e
    unfold addBlock
    split
    · rename_i h; subst h; simp
    · simp only [List.map_cons, List.mem_cons, ih]
      exact or_left_comm

theorem addBlock_keys_nodup (b : Nat) (tp : String × Int) (acc : List (Nat × List (String × Int)))
    (h : (acc.map (·.1)).Nodup) : ((addBlock b tp acc).map (·.1)).Nodup := by
  induction acc with
  | nil => simp [addBlock]
  | cons e rest ih =>
    obtain ⟨b0, l0⟩ := e
    rw [List.map_cons, List.nodup_cons] at h
    unfold addBlock
    split
    · rename_i hb; subst hb
      rw [List.map_cons, List.nodup_cons]; exact h
    · rename_i hb
      rw [List.map_cons, List.nodup_cons, mem_keys_addBlock]
      refine ⟨?_, ih h.2⟩
      rintro (h' | h')
      · exact hb h'
      · exact h.1 h'

theorem addBlock_perm (b : Nat) (tp : String × Int) (acc : List (Nat × List (String × Int))) :
    ((addBlock b tp acc).flatMap (·.2)).Perm (tp :: acc.flatMap (·.2)) := by
  induction acc with
  | nil => simp [addBlock]
  | cons e rest ih =>
    obtain ⟨b0, l0⟩ := e
    unfold addBlock
    split
    · simp only [List.flatMap_cons, List.append_assoc, List.singleton_append]
      exact List.perm_middle
    · simp only [List.flatMap_cons]
      exact (List.Perm.append_left l0 ih).trans List.perm_middle

theorem genTopic_nil (env : Env) (t : String) (acc : List (Nat × List (String × Int)) × Bool) :
    genTopic env t [] acc = acc := by
  unfold genTopic; rfl

theorem genTopic_cons_none (env : Env) (t : String) (p : Int) (ps : List Int)
    (reqs : List (Nat × List (String × Int))) (ul : Bool) (h : env.leaderRequest t p = none) :
    genTopic env t (p :: ps) (reqs, ul) = genTopic env t ps (reqs, true) := by
  rw [genTopic, h]

theorem genTopic_cons_some (env : Env) (t : String) (p : Int) (ps : List Int)
    (reqs : List (Nat × List (String × Int))) (ul : Bool) (b : Nat)
    (h : env.leaderRequest t p = some b) :
    genTopic env t (p :: ps) (reqs, ul) = genTopic env t ps (addBlock b (t, p) reqs, ul) := by
  rw [genTopic, h]

/-- the pairs requested for one topic -/
def reqsOfTopic (env : Env) (t : String) (ps : List Int) : List (String × Int) :=
  (ps.filter (fun p => (env.leaderRequest t p).isSome)).map (fun p => (t, p))

theorem genTopic_perm (env : Env) (t : String) (ps : List Int)
    (acc : List (Nat × List (String × Int)) × Bool) :
    ((genTopic env t ps acc).1.flatMap (·.2)).Perm (acc.1.flatMap (·.2) ++ reqsOfTopic env t ps) := by
  induction ps generalizing acc with
  | nil => simp [genTopic_nil, reqsOfTopic]
  | cons p ps ih =>
    obtain ⟨reqs, ul⟩ := acc
    cases h : env.leaderRequest t p with
    | none =>
      rw [genTopic_cons_none _ _ _ _ _ _ h]
      refine (ih _).trans ?_
      simp [reqsOfTopic, h]
    | some b =>
      rw [genTopic_cons_some _ _ _ _ _ _ _ h]
      refine (ih _).trans ?_
      have e : reqsOfTopic env t (p :: ps) = (t, p) :: reqsOfTopic env t ps := by
        simp [reqsOfTopic, h]
      rw [e]
      refine ((addBlock_perm b (t, p) reqs).append_right _).trans ?_
      exact List.perm_middle.symm

theorem genTopic_keys_nodup (env : Env) (t : String) (ps : List Int)
    (acc : List (Nat × List (String × Int)) × Bool) (h : (acc.1.map (·.1)).Nodup) :
    ((genTopic env t ps acc).1.map (·.1)).Nodup := by
  induction ps generalizing acc with
  | nil => rw [genTopic_nil]; exact h
  | cons p ps ih =>
    obtain ⟨reqs, ul⟩ := acc
    cases hl : env.leaderRequest t p with
    | none => rw [genTopic_cons_none _ _ _ _ _ _ hl]; exact ih _ h
    | some b =>
      rw [genTopic_cons_some _ _ _ _ _ _ _ hl]
      exact ih _ (addBlock_keys_nodup _ _ _ h)

theorem inB_genTopic (env : Env) (t : String) (ps : List Int)
    (acc : List (Nat × List (String × Int)) × Bool) (b : Nat) (x : String × Int) :
    InB (genTopic env t ps acc).1 b x ↔
      InB acc.1 b x ∨ ∃ p ∈ ps, x = (t, p) ∧ env.leaderRequest t p = some b := by
  induction ps generalizing acc with
  | nil => simp [genTopic_nil]
  | cons p ps ih =>
    obtain ⟨reqs, ul⟩ := acc
    cases hl : env.leaderRequest t p with
    | none =>
      rw [genTopic_cons_none _ _ _ _ _ _ hl, ih]
      simp [hl]
    | some b0 =>
      rw [genTopic_cons_some _ _ _ _ _ _ _ hl, ih]
      simp only [inB_addBlock, List.mem_cons, exists_eq_or_imp, hl, Option.some.injEq]
      constructor
      · rintro ((h | ⟨h1, h2⟩) | h)
        · exact Or.inl h
        · exact Or.inr (Or.inl ⟨h2, h1.symm⟩)
        · exact Or.inr (Or.inr h)
      · rintro (h | ⟨h1, h2⟩ | h)
        · exact Or.inl (Or.inl h)
        · exact Or.inl (Or.inr ⟨h2.symm, h1⟩)
        · exact Or.inr h

theorem genTopic_flag (env : Env) (t : String) (ps : List Int)
    (acc : List (Nat × List (String × Int)) × Bool)
    (h : acc.2 = true ∨ ∃ p ∈ ps, env.leaderRequest t p = none) :
    (genTopic env t ps acc).2 = true := by
  induction ps generalizing acc with
  | nil =>
    rw [genTopic_nil]
    rcases h with h | ⟨p, hp, _⟩
    · exact h
    · cases hp
  | cons p ps ih =>
    obtain ⟨reqs, ul⟩ := acc
    cases hl : env.leaderRequest t p with
    | none => rw [genTopic_cons_none _ _ _ _ _ _ hl]; exact ih _ (Or.inl rfl)
    | some b =>
      rw [genTopic_cons_some _ _ _ _ _ _ _ hl]
      apply ih
      rcases h with h | ⟨p', hp', hn⟩
      · exact Or.inl h
      · rcases List.mem_cons.1 hp' with rfl | hp'
        · rw [hl] at hn; cases hn
        · exact Or.inr ⟨p', hp', hn⟩

theorem genAll_cons (env : Env) (t : String) (ps : List Int) (c : Nat) (rest : Snapshot)
    (acc : List (Nat × List (String × Int)) × Bool) :
    genAll env ((t, ps, c) :: rest) acc = genAll env rest (genTopic env t ps acc) := rfl

theorem genAll_perm (env : Env) (snap : Snapshot) (acc : List (Nat × List (String × Int)) × Bool) :
    ((genAll env snap acc).1.flatMap (·.2)).Perm
      (acc.1.flatMap (·.2) ++ snap.flatMap (fun e => reqsOfTopic env e.1 e.2.1)) := by
  induction snap generalizing acc with
  | nil => simp [genAll]
  | cons e rest ih =>
    obtain ⟨t, ps, c⟩ := e
    rw [genAll_cons]
    refine (ih _).trans ?_
    rw [List.flatMap_cons, ← List.append_assoc]
    exact (genTopic_perm env t ps acc).append_right _

theorem genAll_keys_nodup (env : Env) (snap : Snapshot)
    (acc : List (Nat × List (String × Int)) × Bool) (h : (acc.1.map (·.1)).Nodup) :
    ((genAll env snap acc).1.map (·.1)).Nodup := by
  induction snap generalizing acc with
  | nil => exact h
  | cons e rest ih =>
    obtain ⟨t, ps, c⟩ := e
    rw [genAll_cons]
    exact ih _ (genTopic_keys_nodup env t ps acc h)

theorem inB_genAll (env : Env) (snap : Snapshot) (acc : List (Nat × List (String × Int)) × Bool)
    (b : Nat) (x : String × Int) :
    InB (genAll env snap acc).1 b x ↔
      InB acc.1 b x ∨ ∃ e ∈ snap, ∃ p ∈ e.2.1, x = (e.1, p) ∧ env.leaderRequest e.1 p = some b := by
  induction snap generalizing acc with
  | nil => simp [genAll]
  | cons e rest ih =>
    obtain ⟨t, ps, c⟩ := e
    rw [genAll_cons, ih, inB_genTopic]
    simp only [List.mem_cons, exists_eq_or_imp]
    exact or_assoc

theorem genAll_flag (env : Env) (snap : Snapshot) (acc : List (Nat × List (String × Int)) × Bool)
    (h : acc.2 = true ∨ ∃ e ∈ snap, ∃ p ∈ e.2.1, env.leaderRequest e.1 p = none) :
    (genAll env snap acc).2 = true := by
  induction snap generalizing acc with
  | nil =>
    rcases h with h | ⟨e, he, _⟩
    · exact h
    · cases he
  | cons e rest ih =>
    obtain ⟨t, ps, c⟩ := e
    rw [genAll_cons]
    apply ih
    rcases h with h | ⟨e, he, p, hp, hn⟩
    · exact Or.inl (genTopic_flag _ _ _ _ (Or.inl h))
    · rcases List.mem_cons.1 he with rfl | he
      · exact Or.inl (genTopic_flag _ _ _ _ (Or.inr ⟨p, hp, hn⟩))
      · exact Or.inr ⟨e, he, p, hp, hn⟩

theorem reqs_nodup (env : Env) (snap : Snapshot) (h : SnapNodup snap) :
    (snap.flatMap (fun e => reqsOfTopic env e.1 e.2.1)).Nodup := by
  induction snap with
  | nil => simp
  | cons e rest ih =>
    obtain ⟨hk, hp⟩ := h
    rw [List.map_cons, List.nodup_cons] at hk
    rw [List.flatMap_cons, List.nodup_append]
    refine ⟨?_, ih ⟨hk.2, fun e' he' => hp e' (List.mem_cons_of_mem _ he')⟩, ?_⟩
    · have hps : e.2.1.Nodup := hp e (List.mem_cons_self ..)
      unfold reqsOfTopic
      refine List.Pairwise.map (fun p => (e.1, p)) ?_ (hps.filter _)
      intro a b hab heq
      exact hab (Prod.mk.inj heq).2
    · intro a ha b hb heq
      subst heq
      unfold reqsOfTopic at ha
      obtain ⟨p, _, rfl⟩ := List.mem_map.1 ha
      obtain ⟨e', he', hb'⟩ := List.mem_flatMap.1 hb
      unfold reqsOfTopic at hb'
      obtain ⟨p', _, heq⟩ := List.mem_map.1 hb'
      have : e'.1 = e.1 := (Prod.mk.inj heq).1
      exact hk.1 (this ▸ List.mem_map.2 ⟨e', he', rfl⟩)

/-! ### `handleResponse`, `callBrokers` -/

theorem handleResponse_cons_none (snap : Option Snapshot) (t : String) (p : Int)
    (rest : List (String × Int × Option Int)) :
    handleResponse snap ((t, p, none) :: rest) = ((handleResponse snap rest).1, true) := rfl

theorem handleResponse_cons_some (snap : Option Snapshot) (t : String) (p o : Int)
    (rest : List (String × Int × Option Int)) :
    handleResponse snap ((t, p, some o) :: rest) =
      ((t, p, o, snapCount snap t) :: (handleResponse snap rest).1, (handleResponse snap rest).2) := rfl

theorem mem_handleResponse (snap : Option Snapshot) (resp : List (String × Int × Option Int))
    (u : Update) :
    u ∈ (handleResponse snap resp).1 ↔
      (u.1, u.2.1, some u.2.2.1) ∈ resp ∧ u.2.2.2 = snapCount snap u.1 := by
  induction resp with
  | nil => simp [handleResponse]
  | cons e rest ih =>
    obtain ⟨t, p, r⟩ := e
    obtain ⟨ut, up, uo, uc⟩ := u
    cases r with
    | none =>
      rw [handleResponse_cons_none]
      simp [ih]
    | some o =>
      rw [handleResponse_cons_some]
      simp only [List.mem_cons, ih, Prod.mk.injEq, Option.some.injEq]
      constructor
      · rintro (⟨rfl, rfl, rfl, rfl⟩ | ⟨h1, h2⟩)
        · exact ⟨Or.inl ⟨rfl, rfl, rfl⟩, rfl⟩
        · exact ⟨Or.inr h1, h2⟩
      · rintro ⟨⟨rfl, rfl, rfl⟩ | h1, h2⟩
        · exact Or.inl ⟨rfl, rfl, rfl, h2⟩
        · exact Or.inr ⟨h1, h2⟩

theorem handleResponse_err (snap : Option Snapshot) (resp : List (String × Int × Option Int))
    (t : String) (p : Int) (h : (t, p, none) ∈ resp) : (handleResponse snap resp).2 = true := by
  induction resp with
  | nil => cases h
  | cons e rest ih =>
    obtain ⟨t', p', r⟩ := e
    cases r with
    | none => rfl
    | some o =>
      rw [handleResponse_cons_some]
      rcases List.mem_cons.1 h with h | h
      · cases h
      · exact ih h

theorem callBrokers_cons_none (env : Env) (snap : Option Snapshot) (b : Nat)
    (reqs : List (String × Int)) (rest : List (Nat × List (String × Int)))
    (h : env.answer b reqs = none) :
    callBrokers env snap ((b, reqs) :: rest) = callBrokers env snap rest := by
  rw [callBrokers, h]

theorem callBrokers_cons_some (env : Env) (snap : Option Snapshot) (b : Nat)
    (reqs : List (String × Int)) (rest : List (Nat × List (String × Int)))
    (resp : List (String × Int × Option Int)) (h : env.answer b reqs = some resp) :
    callBrokers env snap ((b, reqs) :: rest) =
      ((handleResponse snap resp).1 ++ (callBrokers env snap rest).1,
       (handleResponse snap resp).2 || (callBrokers env snap rest).2) := by
  rw [callBrokers, h]

theorem mem_callBrokers (env : Env) (snap : Option Snapshot) (L : List (Nat × List (String × Int)))
    (u : Update) :
    u ∈ (callBrokers env snap L).1 ↔
      ∃ b reqs resp, (b, reqs) ∈ L ∧ env.answer b reqs = some resp ∧
        u ∈ (handleResponse snap resp).1 := by
  induction L with
  | nil => simp [callBrokers]
  | cons e rest ih =>
    obtain ⟨b0, reqs0⟩ := e
    cases ha : env.answer b0 reqs0 with
    | none =>
      rw [callBrokers_cons_none _ _ _ _ _ ha, ih]
      constructor
      · rintro ⟨b, reqs, resp, hm, h1, h2⟩
        exact ⟨b, reqs, resp, List.mem_cons_of_mem _ hm, h1, h2⟩
      · rintro ⟨b, reqs, resp, hm, h1, h2⟩
        rcases List.mem_cons.1 hm with h | h
        · cases h; rw [ha] at h1; cases h1
        · exact ⟨b, reqs, resp, h, h1, h2⟩
    | some resp0 =>
      rw [callBrokers_cons_some _ _ _ _ _ _ ha, List.mem_append, ih]
      constructor
      · rintro (h | ⟨b, reqs, resp, hm, h1, h2⟩)
        · exact ⟨b0, reqs0, resp0, List.mem_cons_self .., ha, h⟩
        · exact ⟨b, reqs, resp, List.mem_cons_of_mem _ hm, h1, h2⟩
      · rintro ⟨b, reqs, resp, hm, h1, h2⟩
        rcases List.mem_cons.1 hm with h | h
        · cases h; rw [ha] at h1; cases h1; exact Or.inl h2
        · exact Or.inr ⟨b, reqs, resp, h, h1, h2⟩

theorem callBrokers_err (env : Env) (snap : Option Snapshot) (L : List (Nat × List (String × Int)))
    (b : Nat) (reqs : List (String × Int)) (resp : List (String × Int × Option Int))
    (hm : (b, reqs) ∈ L) (ha : env.answer b reqs = some resp)
    (he : (handleResponse snap resp).2 = true) : (callBrokers env snap L).2 = true := by
  induction L with
  | nil => cases hm
  | cons e rest ih =>
    obtain ⟨b0, reqs0⟩ := e
    rcases List.mem_cons.1 hm with h | h
    · cases h
      rw [callBrokers_cons_some _ _ _ _ _ _ ha]
      simp [he]
    · cases ha0 : env.answer b0 reqs0 with
      | none => rw [callBrokers_cons_none _ _ _ _ _ ha0]; exact ih h
      | some resp0 =>
        rw [callBrokers_cons_some _ _ _ _ _ _ ha0]
        simp [ih h]

/-! ### uniqueness helpers -/

theorem eq_of_nodup_map {α β : Type} (f : α → β) (l : List α) (h : (l.map f).Nodup) {x y : α}
    (hx : x ∈ l) (hy : y ∈ l) (e : f x = f y) : x = y := by
  induction l with
  | nil => cases hx
  | cons a l ih =>
    simp only [List.map_cons, List.nodup_cons, List.mem_map, not_exists, not_and] at h
    rcases List.mem_cons.1 hx with rfl | hx' <;> rcases List.mem_cons.1 hy with rfl | hy'
    · rfl
    · exact absurd e.symm (h.1 y hy')
    · exact absurd e (h.1 x hx')
    · exact ih h.2 hx' hy'

theorem bucket_unique (L : List (Nat × List (String × Int))) (h : (L.flatMap (·.2)).Nodup)
    {x y : Nat × List (String × Int)} (hx : x ∈ L) (hy : y ∈ L) {a : String × Int}
    (hax : a ∈ x.2) (hay : a ∈ y.2) : x = y := by
  induction L with
  | nil => cases hx
  | cons e rest ih =>
    rw [List.flatMap_cons, List.nodup_append] at h
    obtain ⟨_, h2, h3⟩ := h
    rcases List.mem_cons.1 hx with rfl | hx' <;> rcases List.mem_cons.1 hy with rfl | hy'
    · rfl
    · exact absurd rfl (h3 a hax a (List.mem_flatMap.2 ⟨y, hy', hay⟩))
    · exact absurd rfl (h3 a hay a (List.mem_flatMap.2 ⟨x, hx', hax⟩))
    · exact ih h2 hx' hy'

theorem bucket_nodup (L : List (Nat × List (String × Int))) (h : (L.flatMap (·.2)).Nodup)
    {x : Nat × List (String × Int)} (hx : x ∈ L) : x.2.Nodup := by
  induction L with
  | nil => cases hx
  | cons e rest ih =>
    rw [List.flatMap_cons, List.nodup_append] at h
    rcases List.mem_cons.1 hx with rfl | hx
    · exact h.1
    · exact ih h.2.1 hx

theorem faithful_mem (env : Env) (hf : Faithful env) (b : Nat) (reqs : List (String × Int))
    (resp : List (String × Int × Option Int)) (ha : env.answer b reqs = some resp)
    (t : String) (p : Int) (r : Option Int) (h : (t, p, r) ∈ resp) : (t, p) ∈ reqs := by
  rw [← hf b reqs resp ha]
  exact List.mem_map.2 ⟨(t, p, r), h, rfl⟩

/-! ### filtering the updates of one partition -/

theorem filter_handleResponse_nil (snap : Option Snapshot) (resp : List (String × Int × Option Int))
    (t : String) (p : Int) (h : (t, p) ∉ resp.map (fun x => (x.1, x.2.1))) :
    (handleResponse snap resp).1.filter (fun u => u.1 == t && u.2.1 == p) = [] := by
  rw [List.filter_eq_nil_iff]
  intro u hu hp
  simp only [Bool.and_eq_true, beq_iff_eq] at hp
  have := ((mem_handleResponse snap resp u).1 hu).1
  rw [hp.1, hp.2] at this
  exact h (List.mem_map.2 ⟨_, this, rfl⟩)

theorem filter_handleResponse_one (snap : Option Snapshot) (resp : List (String × Int × Option Int))
    (t : String) (p o : Int) (hn : (resp.map (fun x => (x.1, x.2.1))).Nodup)
    (hm : (t, p, some o) ∈ resp) :
    (handleResponse snap resp).1.filter (fun u => u.1 == t && u.2.1 == p) =
      [(t, p, o, snapCount snap t)] := by
  induction resp with
  | nil => cases hm
  | cons e rest ih =>
    obtain ⟨t', p', r'⟩ := e
    rw [List.map_cons, List.nodup_cons] at hn
    rcases List.mem_cons.1 hm with h | h
    · cases h
      rw [handleResponse_cons_some, List.filter_cons]
      simp only [beq_self_eq_true, Bool.and_self, if_true]
      rw [filter_handleResponse_nil snap rest t p hn.1]
    · have hin : (t, p) ∈ rest.map (fun x => (x.1, x.2.1)) := List.mem_map.2 ⟨_, h, rfl⟩
      have hne : ¬ (t' = t ∧ p' = p) := by
        rintro ⟨rfl, rfl⟩; exact hn.1 hin
      cases r' with
      | none => rw [handleResponse_cons_none]; exact ih hn.2 h
      | some o' =>
        rw [handleResponse_cons_some, List.filter_cons]
        have : ((t' == t) && (p' == p)) = false := by
          rw [Bool.and_eq_false_iff]
          by_cases h1 : t' = t
          · right; simp only [beq_eq_false_iff_ne]; exact fun h2 => hne ⟨h1, h2⟩
          · left; simp only [beq_eq_false_iff_ne]; exact h1
        simp only [this]
        exact ih hn.2 h

theorem filter_callBrokers_one (env : Env) (hf : Faithful env) (snap : Option Snapshot)
    (L : List (Nat × List (String × Int))) (hn : (L.flatMap (·.2)).Nodup)
    (b : Nat) (reqs : List (String × Int)) (resp : List (String × Int × Option Int))
    (hb : (b, reqs) ∈ L) (ha : env.answer b reqs = some resp)
    (t : String) (p o : Int) (hr : (t, p, some o) ∈ resp) :
    (callBrokers env snap L).1.filter (fun u => u.1 == t && u.2.1 == p) =
      [(t, p, o, snapCount snap t)] := by
  have htp : (t, p) ∈ reqs := faithful_mem env hf b reqs resp ha t p _ hr
  induction L with
  | nil => cases hb
  | cons e rest ih =>
    obtain ⟨b0, reqs0⟩ := e
    rw [List.flatMap_cons, List.nodup_append] at hn
    obtain ⟨hn1, hn2, hn3⟩ := hn
    rcases List.mem_cons.1 hb with h | h
    · cases h
      rw [callBrokers_cons_some _ _ _ _ _ _ ha, List.filter_append,
        filter_handleResponse_one snap resp t p o (by rw [hf b reqs resp ha]; exact hn1) hr]
      have : (callBrokers env snap rest).1.filter (fun u => u.1 == t && u.2.1 == p) = [] := by
        rw [List.filter_eq_nil_iff]
        intro u hu hp
        simp only [Bool.and_eq_true, beq_iff_eq] at hp
        obtain ⟨b', reqs', resp', hm', ha', hu'⟩ := (mem_callBrokers env snap rest u).1 hu
        have h1 := ((mem_handleResponse snap resp' u).1 hu').1
        rw [hp.1, hp.2] at h1
        have h2 := faithful_mem env hf b' reqs' resp' ha' t p _ h1
        exact hn3 (t, p) htp (t, p) (List.mem_flatMap.2 ⟨_, hm', h2⟩) rfl
      rw [this]; rfl
    · have hnot : (t, p) ∉ reqs0 := fun h0 =>
        hn3 (t, p) h0 (t, p) (List.mem_flatMap.2 ⟨_, h, htp⟩) rfl
      cases ha0 : env.answer b0 reqs0 with
      | none => rw [callBrokers_cons_none _ _ _ _ _ ha0]; exact ih hn2 h
      | some resp0 =>
        rw [callBrokers_cons_some _ _ _ _ _ _ ha0, List.filter_append,
          filter_handleResponse_nil snap resp0 t p (by rw [hf b0 reqs0 resp0 ha0]; exact hnot),
          List.nil_append]
        exact ih hn2 h

/-! ### C11 -/

theorem asked_iff (s : CState) (env : Env) (b : Nat) (t : String) (p : Int) :
    (t, p) ∈ askedOf (cycle s env).2 b ↔
      ∃ ps cnt, (t, ps, cnt) ∈ snapUsed s env ∧ p ∈ ps ∧ env.leaderRequest t p = some b := by
  rw [mem_askedOf, cycle_asked, inB_genAll]
  constructor
  · rintro (h | ⟨⟨t', ps, cnt⟩, he, p', hp', heq, hl⟩)
    · exact absurd h (inB_nil _ _)
    · cases heq
      exact ⟨ps, cnt, he, hp', hl⟩
  · rintro ⟨ps, cnt, he, hp, hl⟩
    exact Or.inr ⟨(t, ps, cnt), he, p, hp, rfl, hl⟩

theorem asked_once (s : CState) (env : Env) (h : SnapNodup (snapUsed s env)) :
    (((cycle s env).2.asked).flatMap (·.2)).Nodup ∧ (((cycle s env).2.asked).map (·.1)).Nodup := by
  rw [cycle_asked]
  refine ⟨?_, genAll_keys_nodup env _ _ List.nodup_nil⟩
  have := genAll_perm env (snapUsed s env) ([], false)
  rw [this.nodup_iff]
  simpa using reqs_nodup env _ h

theorem no_fabrication (s : CState) (env : Env) (u : Update) (hu : u ∈ (cycle s env).2.updates) :
    ∃ b reqs resp, (b, reqs) ∈ (cycle s env).2.asked ∧ env.answer b reqs = some resp ∧
      (u.1, u.2.1, some u.2.2.1) ∈ resp ∧ u.2.2.2 = snapCount (maybeUpdate s env).1.snapshot u.1 := by
  rw [cycle_updates] at hu
  obtain ⟨b, reqs, resp, hm, ha, hu'⟩ := (mem_callBrokers _ _ _ u).1 hu
  obtain ⟨h1, h2⟩ := (mem_handleResponse _ resp u).1 hu'
  exact ⟨b, reqs, resp, hm, ha, h1, h2⟩

theorem success_yields_one_update (s : CState) (env : Env) (hs : SnapNodup (snapUsed s env))
    (hf : Faithful env) (b : Nat) (reqs : List (String × Int)) (resp : List (String × Int × Option Int))
    (hb : (b, reqs) ∈ (cycle s env).2.asked) (ha : env.answer b reqs = some resp)
    (t : String) (p o : Int) (hr : (t, p, some o) ∈ resp) :
    ((cycle s env).2.updates.filter (fun u => u.1 == t && u.2.1 == p)) =
      [(t, p, o, snapCount (maybeUpdate s env).1.snapshot t)] := by
  rw [cycle_updates]
  exact filter_callBrokers_one env hf _ _ (asked_once s env hs).1 b reqs resp hb ha t p o hr

theorem count_is_partition_count (s : CState) (env : Env) (ts : List String) (_hn : ts.Nodup)
    (hc : CompleteRefresh s env ts) (t : String) (ht : t ∈ ts) (ps : List Int)
    (hp : env.partitions t = some ps) :
    snapCount (maybeUpdate s env).1.snapshot t = ps.length := by
  obtain ⟨snap, hsn, h1, _, _⟩ := maybeUpdate_complete s env ts hc
  rw [h1]
  simp only [snapCount, readTopics_find_mem env ts [] snap t ps hsn ht hp]

theorem failed_call_no_update (s : CState) (env : Env) (hs : SnapNodup (snapUsed s env))
    (hf : Faithful env) (b : Nat) (reqs : List (String × Int))
    (hb : (b, reqs) ∈ (cycle s env).2.asked) (ha : env.answer b reqs = none)
    (t : String) (p : Int) (htp : (t, p) ∈ reqs) :
    ∀ u ∈ (cycle s env).2.updates, ¬ (u.1 = t ∧ u.2.1 = p) := by
  rintro u hu ⟨h1, h2⟩
  obtain ⟨b', reqs', resp', hm', ha', hr', _⟩ := no_fabrication s env u hu
  rw [h1, h2] at hr'
  have h3 := faithful_mem env hf b' reqs' resp' ha' t p _ hr'
  have := bucket_unique _ (asked_once s env hs).1 hb hm' htp h3
  cases this
  rw [ha] at ha'; cases ha'

theorem partition_error_no_update (s : CState) (env : Env) (hs : SnapNodup (snapUsed s env))
    (hf : Faithful env) (b : Nat) (reqs : List (String × Int)) (resp : List (String × Int × Option Int))
    (hb : (b, reqs) ∈ (cycle s env).2.asked) (ha : env.answer b reqs = some resp)
    (t : String) (p : Int) (hr : (t, p, none) ∈ resp) :
    ∀ u ∈ (cycle s env).2.updates, ¬ (u.1 = t ∧ u.2.1 = p) := by
  rintro u hu ⟨h1, h2⟩
  obtain ⟨b', reqs', resp', hm', ha', hr', _⟩ := no_fabrication s env u hu
  rw [h1, h2] at hr'
  have h3 := faithful_mem env hf b' reqs' resp' ha' t p _ hr'
  have h4 := faithful_mem env hf b reqs resp ha t p _ hr
  have := bucket_unique _ (asked_once s env hs).1 hb hm' h4 h3
  cases this
  rw [ha] at ha'; cases ha'
  have hnd : (resp.map (fun x => (x.1, x.2.1))).Nodup := by
    rw [hf b reqs resp ha]
    exact bucket_nodup _ (asked_once s env hs).1 hb
  have := eq_of_nodup_map _ resp hnd hr hr' rfl
  cases this

theorem error_or_unknown_leader_forces_refresh (s : CState) (env env' : Env)
    (h : (∃ t ps cnt p, (t, ps, cnt) ∈ snapUsed s env ∧ p ∈ ps ∧ env.leaderRequest t p = none) ∨
         (∃ b reqs resp t p, (b, reqs) ∈ (cycle s env).2.asked ∧ env.answer b reqs = some resp ∧
            (t, p, none) ∈ resp)) :
    (cycle s env).1.fetchMetadata = true ∧ (cycle (cycle s env).1 env').2.refreshed = true := by
  have hfm : (cycle s env).1.fetchMetadata = true := by
    rw [cycle_fetch]
    rcases h with ⟨t, ps, cnt, p, he, hp, hl⟩ | ⟨b, reqs, resp, t, p, hm, ha, hr⟩
    · have := genAll_flag env (snapUsed s env) ([], false) (Or.inr ⟨(t, ps, cnt), he, p, hp, hl⟩)
      simp [this]
    · have := callBrokers_err env (maybeUpdate s env).1.snapshot _ b reqs resp hm ha
        (handleResponse_err _ resp t p hr)
      simp [this]
  exact ⟨hfm, by rw [cycle_refreshed]; exact maybeUpdate_refreshed _ env' hfm⟩


/-! ### The main loop: ticks are cycles -/

/-- The cycle outputs of a run of `mainLoop` over any tick sequence are those of `runCycles` over the
    sequence's offset ticks, each flagged with "a metadata tick arrived since the previous one" —
    reaper ticks in between change nothing.  (Second half: the same from a state whose flag is set.) -/
theorem loop_is_cycles (name : String) (s : CState) (ticks : List Tick) :
    cycleOuts (runLoop name s ticks) = runCycles s (cyclesOf false ticks) ∧
    cycleOuts (runLoop name { s with fetchMetadata := true } ticks) = runCycles s (cyclesOf true ticks) := by
  induction ticks generalizing s with
  | nil => simp [runLoop, cycleOuts, cyclesOf, runCycles]
  | cons t ts ih =>
    cases t with
    | offset env =>
      constructor
      · simp only [runLoop, loopStep, cycleOuts, cyclesOf, runCycles]
        simp [(ih _).1]
      · simp only [runLoop, loopStep, cycleOuts, cyclesOf, runCycles]
        simp [(ih _).1]
    | metadata =>
      constructor
      · simp only [runLoop, loopStep, cycleOuts, cyclesOf]
        exact (ih s).2
      · simp only [runLoop, loopStep, cycleOuts, cyclesOf]
        exact (ih s).2
    | reaper kg sg =>
      constructor
      · simp only [runLoop, loopStep, cycleOuts, cyclesOf]
        exact (ih s).1
      · simp only [runLoop, loopStep, cycleOuts, cyclesOf]
        exact (ih s).2

theorem cycleOuts_length (name : String) (s : CState) (ticks : List Tick) :
    (cycleOuts (runLoop name s ticks)).length = (ticks.filter fun t => match t with | .offset _ => true | _ => false).length := by
  induction ticks generalizing s with
  | nil => simp [runLoop, cycleOuts]
  | cons t ts ih => cases t <;> simp [runLoop, loopStep, cycleOuts, ih]

theorem mem_reap (name : String) (kg sg : Option (List String)) (g : String) :
    g ∈ (reap name kg sg).2 ↔
      ∃ k s, kg = some k ∧ sg = some s ∧ g ∈ s ∧ g ∉ k ∧ g ≠ "burrow-" ++ name := by
  unfold reap reapIgnoring
  cases kg with
  | none => simp
  | some k =>
    cases sg with
    | none => simp
    | some s =>
      simp only [List.mem_filter, Bool.and_eq_true, bne_iff_ne, ne_eq, Bool.not_eq_true',
        List.contains_eq_mem, decide_eq_false_iff_not, Option.some.injEq, exists_and_left,
        exists_eq_left']
      constructor
      · rintro ⟨h1, h2, h3⟩; exact ⟨h1, h3, h2⟩
      · rintro ⟨h1, h3, h2⟩; exact ⟨h1, h2, h3⟩

theorem runLoop_append (name : String) (s : CState) (a b : List Tick) :
    runLoop name s (a ++ b) = runLoop name s a ++ runLoop name (loopState name s a) b := by
  induction a generalizing s with
  | nil => simp [runLoop, loopState]
  | cons t ts ih => simp [runLoop, loopState, ih]

theorem loopState_append (name : String) (s : CState) (a b : List Tick) :
    loopState name s (a ++ b) = loopState name (loopState name s a) b := by
  induction a generalizing s with
  | nil => simp [loopState]
  | cons t ts ih => simp [loopState, ih]

theorem cycleOuts_append (a b : List LoopOut) : cycleOuts (a ++ b) = cycleOuts a ++ cycleOuts b := by
  induction a with
  | nil => simp [cycleOuts]
  | cons x xs ih => cases x <;> simp [cycleOuts, ih]

/-- reaper ticks leave the module's own state alone -/
theorem loopState_reapers (name : String) (s : CState) (reaps : List Tick)
    (h : ∀ t ∈ reaps, ∃ kg sg, t = Tick.reaper kg sg) : loopState name s reaps = s := by
  induction reaps generalizing s with
  | nil => rfl
  | cons t ts ih =>
    obtain ⟨kg, sg, rfl⟩ := h _ (List.mem_cons_self)
    simp only [loopState, loopStep]
    exact ih s (fun t ht => h t (List.mem_cons_of_mem _ ht))

theorem cycleOuts_reapers (name : String) (s : CState) (reaps : List Tick)
    (h : ∀ t ∈ reaps, ∃ kg sg, t = Tick.reaper kg sg) : cycleOuts (runLoop name s reaps) = [] := by
  induction reaps generalizing s with
  | nil => rfl
  | cons t ts ih =>
    obtain ⟨kg, sg, rfl⟩ := h _ (List.mem_cons_self)
    simp only [runLoop, loopStep, cycleOuts]
    exact ih s (fun t ht => h t (List.mem_cons_of_mem _ ht))

/-- A metadata tick makes the next offset tick re-read the metadata, whatever happened before it and
    however many reaper ticks come in between. -/
theorem metadata_tick_forces_refresh (name : String) (s : CState) (before reaps after : List Tick) (env : Env)
    (h : ∀ t ∈ reaps, ∃ kg sg, t = Tick.reaper kg sg) :
    ∃ o, (cycleOuts (runLoop name s (before ++ Tick.metadata :: reaps ++ Tick.offset env :: after)))[
            (cycleOuts (runLoop name s before)).length]? = some o ∧ o.refreshed = true := by
  have hsplit : before ++ Tick.metadata :: reaps ++ Tick.offset env :: after =
      before ++ ([Tick.metadata] ++ (reaps ++ (Tick.offset env :: after))) := by simp
  rw [hsplit, runLoop_append, cycleOuts_append, runLoop_append, cycleOuts_append, runLoop_append, cycleOuts_append]
  rw [cycleOuts_reapers name _ reaps h, loopState_reapers name _ reaps h]
  simp only [runLoop, loopStep, cycleOuts, loopState, List.nil_append]
  refine ⟨(cycle { fetchMetadata := true, snapshot := (loopState name s before).snapshot } env).2, by simp, ?_⟩
  rw [cycle_refreshed]
  exact maybeUpdate_refreshed _ env rfl

end Burrow.Proofs.Cluster
