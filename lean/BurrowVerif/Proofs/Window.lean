/-
  C02 — the window theorems, derived from the refinement statement `RefineStep` (proved in
  `Proofs/Ring.lean`) and the list-level facts of `Proofs/WindowSpec.lean`.
-/
import BurrowVerif.Proofs.WindowSpec

namespace Burrow.Proofs.Window
open Burrow Burrow.Storage Burrow.Spec.Window Burrow.Proofs.WindowSpec

/-! ### the fresh ring -/

theorem readout_new (N : Nat) : (Ring.new N : Ring Commit).readout = List.replicate N none := by
  rw [List.eq_replicate_iff]
  constructor
  · simp [Ring.readout, Ring.len, Ring.new]
  · intro b hb
    simp only [Ring.readout, List.mem_map] at hb
    obtain ⟨i, _, rfl⟩ := hb
    simp only [Ring.get, Ring.new, List.getElem?_replicate]
    split <;> rfl

theorem len_new (N : Nat) : (Ring.new N : Ring Commit).len = N := by
  simp [Ring.len, Ring.new]

theorem wf_new (N : Nat) : WF N (Ring.new N : Ring Commit).readout := by
  rw [readout_new]
  exact ⟨N, [], by simp, by simp, List.Pairwise.nil⟩

theorem stored_new (N : Nat) : stored (Ring.new N : Ring Commit).readout = [] := by
  rw [readout_new]; simp [stored]

/-! ### one step, through the refinement -/

theorem step_eq (H : RefineStep) (N : Nat) (hN : 1 ≤ N) (md : Int) (r r' : Ring Commit) (c : In)
    (hlen : r.len = N) (hwf : WF N r.readout) (hstep : stepRing md r c = some r') :
    r'.len = N ∧ r'.readout = specStep md r.readout c := by
  obtain ⟨r'', h1, h2, h3⟩ := H N hN md r c hlen hwf
  rw [hstep] at h1
  cases Option.some.inj h1
  exact ⟨h2, h3⟩

theorem step_preserves (H : RefineStep) (N : Nat) (hN : 1 ≤ N) (md : Int) (r : Ring Commit) (c : In)
    (hlen : r.len = N) (hwf : WF N r.readout) :
    ∃ r', stepRing md r c = some r' ∧ r'.len = N ∧ WF N r'.readout := by
  obtain ⟨r', h1, h2, h3⟩ := H N hN md r c hlen hwf
  exact ⟨r', h1, h2, by rw [h3]; exact specStep_wf hN md _ c hwf⟩

/-- invariants of whole runs: anything that holds of the start window and is preserved by the
    abstract step on well-formed windows holds at the end (`seen` = arrivals so far) -/
theorem run_invariant (H : RefineStep) (N : Nat) (hN : 1 ≤ N) (md : Int)
    (Inv : List In → List (Option Commit) → Prop)
    (hstep : ∀ seen w c, WF N w → Inv seen w → Inv (seen ++ [c]) (specStep md w c)) :
    ∀ (cs seen : List In) (r : Ring Commit), r.len = N → WF N r.readout → Inv seen r.readout →
      ∃ r', cs.foldlM (stepRing md) r = some r' ∧ r'.len = N ∧ WF N r'.readout ∧
        Inv (seen ++ cs) r'.readout := by
  intro cs
  induction cs with
  | nil =>
    intro seen r hlen hwf hinv
    exact ⟨r, rfl, hlen, hwf, by simpa using hinv⟩
  | cons c t ih =>
    intro seen r hlen hwf hinv
    obtain ⟨r₁, h1, h2, h3⟩ := H N hN md r c hlen hwf
    have hwf₁ : WF N r₁.readout := by rw [h3]; exact specStep_wf hN md _ c hwf
    have hinv₁ : Inv (seen ++ [c]) r₁.readout := by rw [h3]; exact hstep seen _ c hwf hinv
    obtain ⟨r', h4, h5, h6, h7⟩ := ih (seen ++ [c]) r₁ h2 hwf₁ hinv₁
    refine ⟨r', ?_, h5, h6, by simpa using h7⟩
    rw [List.foldlM_cons, h1]
    exact h4

theorem run_invariant' (H : RefineStep) (N : Nat) (hN : 1 ≤ N) (md : Int)
    (Inv : List In → List (Option Commit) → Prop)
    (h0 : Inv [] (List.replicate N none))
    (hstep : ∀ seen w c, WF N w → Inv seen w → Inv (seen ++ [c]) (specStep md w c))
    (cs : List In) (r : Ring Commit) (hr : runRing N md cs = some r) :
    r.len = N ∧ WF N r.readout ∧ Inv cs r.readout := by
  obtain ⟨r', h1, h2, h3, h4⟩ := run_invariant H N hN md Inv hstep cs [] (Ring.new N) (len_new N)
    (wf_new N) (by rw [readout_new]; exact h0)
  unfold runRing at hr
  rw [hr] at h1
  cases Option.some.inj h1
  exact ⟨h2, h3, by simpa using h4⟩

theorem window_inv (H : RefineStep) (N : Nat) (hN : 1 ≤ N) (md : Int) (cs : List In) :
    ∃ r, runRing N md cs = some r ∧ r.len = N ∧ WF N r.readout := by
  obtain ⟨r', h1, h2, h3, _⟩ := run_invariant H N hN md (fun _ _ => True) (fun _ _ _ _ _ => trivial)
    cs [] (Ring.new N) (len_new N) (wf_new N) trivial
  exact ⟨r', h1, h2, h3⟩

/-! ### single-step theorems -/

theorem dropped_step (H : RefineStep) (N : Nat) (hN : 1 ≤ N) (md : Int) (r r' : Ring Commit) (c : In)
    (hlen : r.len = N) (hwf : WF N r.readout) (hstep : stepRing md r c = some r')
    (hd : Dropped r.readout c.order) : r'.readout = r.readout := by
  rw [(step_eq H N hN md r r' c hlen hwf hstep).2]
  exact specStep_dropped md _ c hd

theorem merge_step (H : RefineStep) (N : Nat) (hN : 1 ≤ N) (md : Int) (r r' : Ring Commit) (c : In)
    (p : Commit) (hlen : r.len = N) (hwf : WF N r.readout) (hstep : stepRing md r c = some r')
    (hnd : ¬ Dropped r.readout c.order) (hp : MergePred r.readout c.order p)
    (hclose : c.ts - p.ts < md * 1000) :
    (stored r'.readout).map key =
      (stored r.readout).map (fun q => if q = p then (c.offset, c.order, p.ts) else key q) ∧
    r'.readout.length = r.readout.length := by
  rw [(step_eq H N hN md r r' c hlen hwf hstep).2]
  exact specStep_merge hN md _ c p hwf hnd hp hclose

theorem own_slot_step (H : RefineStep) (N : Nat) (hN : 1 ≤ N) (md : Int) (r r' : Ring Commit) (c : In)
    (hlen : r.len = N) (hwf : WF N r.readout) (hstep : stepRing md r c = some r')
    (hnd : ¬ Dropped r.readout c.order)
    (hfar : ∀ p, MergePred r.readout c.order p → ¬ (c.ts - p.ts < md * 1000)) :
    (∃ q ∈ stored r'.readout, key q = c.key) ∧
    (∀ q ∈ stored r.readout, q ∈ stored r'.readout ∨ r.readout.head?.join = some q) := by
  rw [(step_eq H N hN md r r' c hlen hwf hstep).2]
  exact specStep_own_slot hN md _ c hwf hnd hfar

/-! ### the newest stored commit -/

theorem newest_is_max (H : RefineStep) (N : Nat) (hN : 1 ≤ N) (md : Int) (cs : List In)
    (hne : cs ≠ []) (r : Ring Commit) (hr : runRing N md cs = some r) :
    ∃ last, (stored r.readout).getLast? = some last ∧ (∀ c ∈ cs, c.order ≤ last.order) ∧
      ∃ c ∈ cs, c.order = last.order := by
  have hinv := run_invariant' H N hN md
    (fun seen w => (∀ q ∈ stored w, ∃ c ∈ seen, c.order = q.order) ∧
      (∀ c ∈ seen, ∃ q ∈ stored w, c.order ≤ q.order))
    (by simp [stored])
    (by
      intro seen w c hwf ⟨h1, h2⟩
      have hup := specStep_upper hN md w c hwf
      constructor
      · intro q hq
        rcases mem_stored_specStep hN md w c hwf q hq with h | ⟨h, _⟩
        · obtain ⟨s, hs, he⟩ := h1 q h
          exact ⟨s, by simp [hs], he⟩
        · exact ⟨c, by simp, h.symm⟩
      · intro s hs
        rcases List.mem_append.1 hs with h | h
        · obtain ⟨q, hq, hle⟩ := h2 s h
          obtain ⟨q', hq', hle'⟩ := hup.1 q hq
          exact ⟨q', hq', by omega⟩
        · simp at h; subst h; exact hup.2)
    cs r hr
  obtain ⟨_, hwf, h1, h2⟩ := hinv
  obtain ⟨k, st, hw, _, hs⟩ := (wf_iff N _).1 hwf
  rw [hw, stored_enc] at h1 h2 ⊢
  obtain ⟨c₀, hc₀⟩ := List.exists_mem_of_ne_nil _ hne
  obtain ⟨q₀, hq₀, _⟩ := h2 c₀ hc₀
  cases hl : st.getLast? with
  | none => rw [List.getLast?_eq_none_iff] at hl; rw [hl] at hq₀; simp at hq₀
  | some last =>
    refine ⟨last, rfl, ?_, ?_⟩
    · intro c hc
      obtain ⟨q, hq, hle⟩ := h2 c hc
      have := sorted_last_max hs hl q hq
      omega
    · exact h1 last (List.mem_of_getLast? hl)


/-! ### the window is the newest `N` commits seen, whatever the arrival order -/

theorem window_is_topN (H : RefineStep) (N : Nat) (hN : 1 ≤ N) (cs : List In) (_hf : Functional cs)
    (hm : TsMono cs) (r : Ring Commit) (hr : runRing N 0 cs = some r) :
    IsTopN N cs (stored r.readout) := by
  refine (run_invariant' H N hN 0 (fun seen w => TsMono seen → IsTopN N seen (stored w))
    (fun _ => by simpa [stored] using isTopN_nil N) ?_ cs r hr).2.2 hm
  intro seen w c hwf hinv hm'
  refine isTopN_step hN seen w c hwf hm' (hinv ?_)
  intro a ha b hb hab
  exact hm' a (by simp [ha]) b (by simp [hb]) hab

theorem arrival_order_irrelevant (H : RefineStep) (N : Nat) (hN : 1 ≤ N) (cs₁ cs₂ : List In)
    (hset : ∀ x, x ∈ cs₁.map In.key ↔ x ∈ cs₂.map In.key)
    (hf : Functional cs₁) (hm : TsMono cs₁)
    (r₁ r₂ : Ring Commit) (h₁ : runRing N 0 cs₁ = some r₁) (h₂ : runRing N 0 cs₂ = some r₂) :
    r₁.readout.map (Option.map key) = r₂.readout.map (Option.map key) := by
  have h12 : ∀ s ∈ cs₁, ∃ s' ∈ cs₂, s'.key = s.key := by
    intro s hs
    obtain ⟨s', hs', he⟩ := List.mem_map.1 ((hset s.key).1 (List.mem_map.2 ⟨s, hs, rfl⟩))
    exact ⟨s', hs', he⟩
  have h21 : ∀ s ∈ cs₂, ∃ s' ∈ cs₁, s'.key = s.key := by
    intro s hs
    obtain ⟨s', hs', he⟩ := List.mem_map.1 ((hset s.key).2 (List.mem_map.2 ⟨s, hs, rfl⟩))
    exact ⟨s', hs', he⟩
  have hf₂ : Functional cs₂ := functional_of_keys h21 hf
  have hm₂ : TsMono cs₂ := tsMono_of_keys h21 hm
  have t₁ := window_is_topN H N hN cs₁ hf hm r₁ h₁
  have t₂ := window_is_topN H N hN cs₂ hf₂ hm₂ r₂ h₂
  have hkeys := isTopN_unique hN t₁ t₂ h12 h21 hf hf₂
  obtain ⟨_, hwf₁, _⟩ := run_invariant' H N hN 0 (fun _ _ => True) trivial
    (fun _ _ _ _ _ => trivial) cs₁ r₁ h₁
  obtain ⟨_, hwf₂, _⟩ := run_invariant' H N hN 0 (fun _ _ => True) trivial
    (fun _ _ _ _ _ => trivial) cs₂ r₂ h₂
  obtain ⟨k₁, st₁, hw₁, hl₁, _⟩ := (wf_iff N _).1 hwf₁
  obtain ⟨k₂, st₂, hw₂, hl₂, _⟩ := (wf_iff N _).1 hwf₂
  rw [hw₁, hw₂, stored_enc, stored_enc] at hkeys
  have hlen := congrArg List.length hkeys
  simp only [List.length_map] at hlen
  have hk : k₁ = k₂ := by omega
  rw [hw₁, hw₂, enc_map_key, enc_map_key, hkeys, hk]

end Burrow.Proofs.Window
