/-
  Evaluation results of several groups interleaved with refreshes of the group records: for a group
  that stays listed through every refresh, the notifications are those of its own evaluation history.
-/
import BurrowVerif.Proofs.Notifier
import BurrowVerif.Proofs.NotifierRefresh

namespace Burrow.Proofs.Notifier
open Burrow Burrow.Notifier Burrow.Spec.Notifier

/-- what happens to the notifier's records: an evaluation result arrives, or the records are refreshed
    from storage's listing -/
inductive NOp where
  | ev (k : String × String) (e : Ev)
  | refresh (listing : List (String × List String)) (answered : String → Bool)

def stepOp (cfgs : List ModuleCfg) (s : NState) : NOp → NState × List Notification
  | .ev k e => step cfgs s k e
  | .refresh listing answered => (refresh listing answered s, [])

def runOps (cfgs : List ModuleCfg) : NState → List NOp → List (List Notification)
  | _, [] => []
  | s, op :: rest => (stepOp cfgs s op).2 :: runOps cfgs (stepOp cfgs s op).1 rest

/-- the outputs at the positions that are evaluation results of group `k` -/
def projectOps (k : String × String) : List NOp → List (List Notification) → List (List Notification)
  | .ev k' _ :: h, ns :: out => if k' = k then ns :: projectOps k h out else projectOps k h out
  | .refresh _ _ :: h, _ :: out => projectOps k h out
  | _, _ => []

def eventsOfOps (k : String × String) : List NOp → List Ev
  | [] => []
  | .ev k' e :: h => if k' = k then e :: eventsOfOps k h else eventsOfOps k h
  | .refresh _ _ :: h => eventsOfOps k h

/-- group `k` stays in storage's listing through every refresh of the history -/
def StaysListed (k : String × String) : List NOp → Prop
  | [] => True
  | .ev _ _ :: h => StaysListed k h
  | .refresh listing answered :: h =>
    (listing.any (·.1 == k.1) = true ∧ ∀ cg ∈ listing, cg.1 = k.1 → answered k.1 = true → k.2 ∈ cg.2) ∧
    StaysListed k h

theorem runOps_projection (cfgs : List ModuleCfg) (s : NState) (h : List NOp) (k : String × String)
    (g : GroupRec) (hg : lookupG k s = some g) (hs : StaysListed k h) :
    projectOps k h (runOps cfgs s h) = runG cfgs g (eventsOfOps k h) := by
  induction h generalizing s g with
  | nil => rfl
  | cons op rest ih =>
    cases op with
    | refresh listing answered =>
      simp only [StaysListed] at hs
      simp only [runOps, stepOp, projectOps, eventsOfOps]
      exact ih _ g (refresh_keeps_listed listing answered s k g hs.1.1 hs.1.2 hg) hs.2
    | ev k' e =>
      simp only [StaysListed] at hs
      simp only [runOps, stepOp]
      by_cases hk : k' = k
      · subst hk
        simp only [projectOps, eventsOfOps, if_true]
        rw [runG_cons, step_some cfgs s k' e g hg]
        simp only
        rw [ih _ _ (lookupG_setG_self k' _ s) hs]
      · simp only [projectOps, eventsOfOps, hk, if_false]
        cases hl : lookupG k' s with
        | none =>
          rw [step_none cfgs s k' e hl]
          exact ih s g hg hs
        | some g' =>
          rw [step_some cfgs s k' e g' hl]
          exact ih _ g (by rw [lookupG_setG_ne hk]; exact hg) hs

end Burrow.Proofs.Notifier
