/-
  Deadlock freedom of the worker machine (Proofs/Locks.lean) under the acquisition order.

  The machine here is the STRICTER one that also has Go's `sync.RWMutex` writer preference: a reader
  may not enter while another worker is waiting to write.  If every worker runs a path that is balanced
  (never re-acquires a lock it holds, ends holding none) and ordered (a nested acquisition has a
  strictly greater rank than every lock held), then in every such configuration in which some worker
  still has something to do, some worker can take its next step.  The argument is the classical one —
  follow "waits for a holder of" links: the awaited rank strictly increases — carried out for an
  arbitrary rank function, so it applies to lock INSTANCES ranked by their class as well.
-/
import BurrowVerif.Proofs.Locks

namespace Burrow.Locks

/-- enabledness with writer preference: additionally, a reader does not enter while another worker's
    next event is a write acquisition of the same lock -/
def enabledWP (c : Conf) (i : Nat) : Prop :=
  enabled c i ∧
  match (c i).todo with
  | .acq l .r :: _ => ∀ j, j ≠ i → ∀ rest, (c j).todo ≠ .acq l .w :: rest
  | _ => True

theorem enabledWP.enabled {c : Conf} {i : Nat} (h : enabledWP c i) : enabled c i := h.1

/-- nested acquisitions go strictly up in `rk` -/
def ordBy (rk : String → Nat) : Held → List Ev → Bool
  | _, [] => true
  | h, .acq l m :: rest => (h.all fun e => rk e.1 < rk l) && ordBy rk ((l, m) :: h) rest
  | h, e :: rest => ordBy rk (stepHeld h e) rest

theorem ordBy_of_orderedFrom : ∀ (p : List Ev) (h : Held), orderedFrom h p = true → ordBy rank h p = true := by
  intro p
  induction p with
  | nil => intro h _; rfl
  | cons e rest ih =>
    intro h ho
    cases e with
    | acq l m =>
      simp only [orderedFrom, Bool.and_eq_true] at ho
      simp only [ordBy, Bool.and_eq_true]
      exact ⟨ho.1.1, ih _ ho.2⟩
    | rel l => simp only [orderedFrom] at ho; simp only [ordBy]; exact ih _ ho
    | acc loc w => simp only [orderedFrom] at ho; simp only [ordBy]; exact ih _ ho

/-- what every worker satisfies while it runs a balanced, ordered path -/
structure Good (rk : String → Nat) (t : Thread) : Prop where
  bal : balancedFrom t.held t.todo = true
  ord : ordBy rk t.held t.todo = true

theorem good_start (rk : String → Nat) (p : List Ev) (hb : balancedFrom [] p = true) (ho : ordBy rk [] p = true) :
    Good rk { done := [], todo := p } := ⟨hb, ho⟩

theorem good_idle (rk : String → Nat) : Good rk {} := ⟨rfl, rfl⟩

theorem good_advance {rk : String → Nat} {t : Thread} (hg : Good rk t) : Good rk (advance t) := by
  cases htodo : t.todo with
  | nil => simpa [advance, htodo] using hg
  | cons e rest =>
    have hheld := held_advance t e rest htodo
    have htodo' : (advance t).todo = rest := by simp [advance, htodo]
    obtain ⟨hb, ho⟩ := hg
    rw [htodo] at hb ho
    constructor
    · rw [hheld, htodo']
      cases e with
      | acq l m => simp only [balancedFrom, Bool.and_eq_true] at hb; exact hb.2
      | rel l => simp only [balancedFrom, Bool.and_eq_true] at hb; exact hb.2
      | acc loc w => simpa [balancedFrom, stepHeld] using hb
    · rw [hheld, htodo']
      cases e with
      | acq l m => simp only [ordBy, Bool.and_eq_true] at ho; exact ho.2
      | rel l => simpa [ordBy] using ho
      | acc loc w => simpa [ordBy] using ho

/-- a worker that holds a lock is not at the end of its path -/
theorem todo_ne_nil_of_holds {rk : String → Nat} {t : Thread} (hg : Good rk t) {x : String × Mode} (hx : x ∈ t.held) :
    t.todo ≠ [] := by
  intro h
  have := hg.bal
  rw [h] at this
  simp only [balancedFrom, List.isEmpty_iff] at this
  rw [this] at hx
  simp at hx

/-- a worker blocked at an acquisition is blocked by a HOLDER of that lock, unless somebody can step -/
theorem blocked_has_holder {c : Conf} {i : Nat} {l : String} {m : Mode} {rest : List Ev}
    (htodo : (c i).todo = .acq l m :: rest) (hne : ¬ enabledWP c i) :
    (∃ j, enabledWP c j) ∨ ∃ k, ∃ x ∈ (c k).held, x.1 = l := by
  -- whoever waits to WRITE `l` and cannot, is blocked by a holder
  have writer_blocked : ∀ j rest', (c j).todo = .acq l .w :: rest' → ¬ enabledWP c j →
      ∃ k, ∃ x ∈ (c k).held, x.1 = l := by
    intro j rest' hj hej
    have hnot : ¬ enabled c j := fun he' => hej ⟨he', by simp [hj]⟩
    simp only [enabled, hj] at hnot
    apply Classical.byContradiction
    intro hno
    apply hnot
    intro k _ e hek heq
    exact hno ⟨k, e, hek, heq⟩
  cases m with
  | w => exact Or.inr (writer_blocked i rest htodo hne)
  | r =>
    by_cases he : enabled c i
    · -- a writer is waiting
      have hw : ∃ j, ∃ rest', (c j).todo = .acq l .w :: rest' := by
        apply Classical.byContradiction
        intro hno
        apply hne
        refine ⟨he, ?_⟩
        simp only [htodo]
        intro j _ rest' heq
        exact hno ⟨j, rest', heq⟩
      obtain ⟨j, rest', hj⟩ := hw
      by_cases hej : enabledWP c j
      · exact Or.inl ⟨j, hej⟩
      · exact Or.inr (writer_blocked j rest' hj hej)
    · right
      simp only [enabled, htodo] at he
      apply Classical.byContradiction
      intro hno
      apply he
      intro j _ hmem
      exact hno ⟨j, (l, Mode.w), hmem, rfl⟩

/-- **progress**: if every worker is `Good` and some worker is waiting at an acquisition of rank `r`,
    somebody can step (induction on how far `r` is below the greatest rank) -/
theorem progress_from_blocked (rk : String → Nat) (K : Nat) (hK : ∀ l, rk l ≤ K) (c : Conf)
    (hgood : ∀ i, Good rk (c i)) :
    ∀ (d : Nat) (i : Nat) (l : String) (m : Mode) (rest : List Ev),
      (c i).todo = .acq l m :: rest → K - rk l ≤ d → ∃ j, enabledWP c j := by
  intro d
  induction d with
  | zero =>
    intro i l m rest htodo hd
    by_cases hen : enabledWP c i
    · exact ⟨i, hen⟩
    · rcases blocked_has_holder htodo hen with h | ⟨k, x, hx, hxl⟩
      · exact h
      · -- the holder's next event: anything but an acquisition is enabled; an acquisition would have a greater rank
        have hne := todo_ne_nil_of_holds (hgood k) hx
        cases hk : (c k).todo with
        | nil => exact absurd hk hne
        | cons e rest' =>
          cases e with
          | acq l' m' =>
            have ho := (hgood k).ord
            rw [hk] at ho
            simp only [ordBy, Bool.and_eq_true, List.all_eq_true, decide_eq_true_eq] at ho
            have := ho.1 x hx
            rw [hxl] at this
            have := hK l'
            omega
          | rel l' => exact ⟨k, by simp [enabledWP, enabled, hk]⟩
          | acc loc w => exact ⟨k, by simp [enabledWP, enabled, hk]⟩
  | succ d ih =>
    intro i l m rest htodo hd
    by_cases hen : enabledWP c i
    · exact ⟨i, hen⟩
    · rcases blocked_has_holder htodo hen with h | ⟨k, x, hx, hxl⟩
      · exact h
      · have hne := todo_ne_nil_of_holds (hgood k) hx
        cases hk : (c k).todo with
        | nil => exact absurd hk hne
        | cons e rest' =>
          cases e with
          | acq l' m' =>
            have ho := (hgood k).ord
            rw [hk] at ho
            simp only [ordBy, Bool.and_eq_true, List.all_eq_true, decide_eq_true_eq] at ho
            have hlt := ho.1 x hx
            rw [hxl] at hlt
            exact ih k l' m' rest' hk (by have := hK l'; omega)
          | rel l' => exact ⟨k, by simp [enabledWP, enabled, hk]⟩
          | acc loc w => exact ⟨k, by simp [enabledWP, enabled, hk]⟩

/-- **deadlock freedom**: workers running balanced, rank-ordered paths never all block — whenever
    some worker has something left to do, some worker can take its next step (even with writer
    preference) -/
theorem deadlock_free (rk : String → Nat) (K : Nat) (hK : ∀ l, rk l ≤ K) (c : Conf)
    (hgood : ∀ i, Good rk (c i)) {i : Nat} (hi : (c i).todo ≠ []) : ∃ j, enabledWP c j := by
  cases htodo : (c i).todo with
  | nil => exact absurd htodo hi
  | cons e rest =>
    cases e with
    | acq l m => exact progress_from_blocked rk K hK c hgood K i l m rest htodo (by omega)
    | rel l => exact ⟨i, by simp [enabledWP, enabled, htodo]⟩
    | acc loc w => exact ⟨i, by simp [enabledWP, enabled, htodo]⟩

/-! ### the machine that only runs given paths -/

/-- configurations reachable when workers only ever start paths from `paths`, stepping under writer preference -/
inductive ReachableWP (paths : List (List Ev)) : Conf → Prop
  | init : ReachableWP paths (fun _ => {})
  | step {c i} : ReachableWP paths c → enabledWP c i → ReachableWP paths (stepAt c i)
  | start {c i} (p : List Ev) : ReachableWP paths c → p ∈ paths → (c i).todo = [] → (c i).held = [] →
      ReachableWP paths (startAt c i p)

theorem ReachableWP.reachable {paths : List (List Ev)} {c : Conf} (h : ReachableWP paths c) : Reachable c := by
  induction h with
  | init => exact .init
  | step _ hen ih => exact .step ih hen.enabled
  | start p _ _ h1 h2 ih => exact .start p ih h1 h2

theorem reachableWP_good (rk : String → Nat) {paths : List (List Ev)}
    (hpaths : ∀ p ∈ paths, balancedFrom [] p = true ∧ ordBy rk [] p = true) {c : Conf} (h : ReachableWP paths c) :
    ∀ i, Good rk (c i) := by
  induction h with
  | init => intro i; exact good_idle rk
  | @step c i _ _ ih =>
    intro k
    simp only [stepAt]
    by_cases hk : k = i
    · simp only [hk, if_true]; exact good_advance (ih i)
    · simp only [if_neg hk]; exact ih k
  | @start c i p _ hp _ _ ih =>
    intro k
    simp only [startAt]
    by_cases hk : k = i
    · simp only [hk, if_true]; exact good_start rk p (hpaths p hp).1 (hpaths p hp).2
    · simp only [if_neg hk]; exact ih k

end Burrow.Locks
