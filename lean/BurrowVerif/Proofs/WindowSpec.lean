/-
  List-level facts about `Spec.Window.specStep` (no ring, no pointer).  Core Lean only.
  A well-formed window is `enc k cs = replicate k none ++ cs.map some` with `cs` strictly increasing
  in log position; `specStep_cases` is the master case analysis every property is derived from.
-/
import BurrowVerif.Spec.Window

namespace Burrow.Proofs.WindowSpec
open Burrow Burrow.Storage Burrow.Spec.Window

/-- strictly increasing in log position -/
abbrev Sorted (cs : List Commit) : Prop := cs.Pairwise (fun a b => a.order < b.order)

/-- the shape of a well-formed window -/
def enc (k : Nat) (cs : List Commit) : List (Option Commit) := List.replicate k none ++ cs.map some

theorem wf_iff (N : Nat) (w : List (Option Commit)) :
    WF N w ↔ ∃ k cs, w = enc k cs ∧ k + cs.length = N ∧ Sorted cs := Iff.rfl

theorem stored_enc (k : Nat) (cs : List Commit) : stored (enc k cs) = cs := by
  induction cs with
  | nil => simp [stored, enc]
  | cons a t ih => simp_all [stored, enc]

theorem length_enc (k : Nat) (cs : List Commit) : (enc k cs).length = k + cs.length := by
  simp [enc]

theorem head_enc (k : Nat) (cs : List Commit) :
    (enc k cs).head?.join = if k = 0 then cs.head? else none := by
  cases k with
  | zero => cases cs <;> simp [enc]
  | succ n => simp [enc, List.replicate_succ]

theorem head_enc_zero (cs : List Commit) : (enc 0 cs).head?.join = cs.head? := by
  simp [head_enc]

theorem head_enc_pos (k : Nat) (hk : 0 < k) (cs : List Commit) : (enc k cs).head?.join = none := by
  rw [head_enc, if_neg (by omega)]

theorem enc_map_key (k : Nat) (cs : List Commit) :
    (enc k cs).map (Option.map key) = List.replicate k none ++ (cs.map key).map some := by
  simp [enc, List.map_replicate]

/-! ### sorted lists -/

theorem sorted_inj {cs : List Commit} (hs : Sorted cs) {a b : Commit} (ha : a ∈ cs) (hb : b ∈ cs)
    (h : a.order = b.order) : a = b := by
  induction cs with
  | nil => simp at ha
  | cons x t ih =>
    replace hs := List.pairwise_cons.1 hs
    rcases List.mem_cons.1 ha with rfl | ha' <;> rcases List.mem_cons.1 hb with rfl | hb'
    · rfl
    · have := hs.1 _ hb'; omega
    · have := hs.1 _ ha'; omega
    · exact ih hs.2 ha' hb'

theorem sorted_split {cs : List Commit} (hs : Sorted cs) (o : Int) (hnd : ∀ q ∈ cs, q.order ≠ o) :
    cs.filter (fun q => q.order < o) ++ cs.filter (fun q => o < q.order) = cs := by
  induction cs with
  | nil => rfl
  | cons x t ih =>
    replace hs := List.pairwise_cons.1 hs
    have hx : x.order ≠ o := hnd x (by simp)
    have ih' := ih hs.2 (fun q hq => hnd q (by simp [hq]))
    by_cases hlt : x.order < o
    · have h2 : ¬ o < x.order := by omega
      simp only [List.filter_cons, hlt, h2, decide_true, decide_false, if_true]
      simpa using ih'
    · have h2 : o < x.order := by omega
      have hnil : t.filter (fun q => q.order < o) = [] := by
        rw [List.filter_eq_nil_iff]; intro a ha; have := hs.1 a ha; simp; omega
      have hall : t.filter (fun q => o < q.order) = t := by
        rw [List.filter_eq_self]; intro a ha; have := hs.1 a ha; simp; omega
      simp [hlt, h2, hnil, hall]

theorem sorted_insert {l₁ l₂ : List Commit} {x : Commit} (h₁ : Sorted l₁) (h₂ : Sorted l₂)
    (hlt : ∀ a ∈ l₁, a.order < x.order) (hgt : ∀ b ∈ l₂, x.order < b.order) :
    Sorted (l₁ ++ x :: l₂) := by
  refine List.pairwise_append.2 ⟨h₁, List.pairwise_cons.2 ⟨hgt, h₂⟩, ?_⟩
  intro a ha b hb
  rcases List.mem_cons.1 hb with rfl | hb'
  · exact hlt a ha
  · have := hlt a ha; have := hgt b hb'; omega

theorem sorted_last_max {cs : List Commit} (hs : Sorted cs) {last : Commit}
    (hl : cs.getLast? = some last) : ∀ q ∈ cs, q.order ≤ last.order := by
  obtain ⟨ys, rfl⟩ := List.getLast?_eq_some_iff.1 hl
  replace hs := List.pairwise_append.1 hs
  intro q hq
  rcases List.mem_append.1 hq with h | h
  · exact Int.le_of_lt (hs.2.2 q h last (by simp))
  · simp at h; subst h; exact Int.le_refl _

theorem sorted_head_min {cs : List Commit} (hs : Sorted cs) {a : Commit}
    (hl : cs.head? = some a) : ∀ q ∈ cs, a.order ≤ q.order := by
  cases cs with
  | nil => simp at hl
  | cons x t =>
    simp at hl; subst hl
    replace hs := List.pairwise_cons.1 hs
    intro q hq
    rcases List.mem_cons.1 hq with rfl | h
    · exact Int.le_refl _
    · exact Int.le_of_lt (hs.1 q h)


/-! ### the two halves of a sorted window around a log position -/

def olderOf (cs : List Commit) (o : Int) : List Commit := cs.filter fun q => q.order < o
def newerOf (cs : List Commit) (o : Int) : List Commit := cs.filter fun q => o < q.order

theorem mem_olderOf {cs : List Commit} {o : Int} {q : Commit} :
    q ∈ olderOf cs o ↔ q ∈ cs ∧ q.order < o := by simp [olderOf]

theorem mem_newerOf {cs : List Commit} {o : Int} {q : Commit} :
    q ∈ newerOf cs o ↔ q ∈ cs ∧ o < q.order := by simp [newerOf]

theorem sorted_olderOf {cs : List Commit} (hs : Sorted cs) (o : Int) : Sorted (olderOf cs o) :=
  List.Pairwise.filter _ hs

theorem sorted_newerOf {cs : List Commit} (hs : Sorted cs) (o : Int) : Sorted (newerOf cs o) :=
  List.Pairwise.filter _ hs

theorem older_append_newer {cs : List Commit} (hs : Sorted cs) (o : Int)
    (hnd : ∀ q ∈ cs, q.order ≠ o) : olderOf cs o ++ newerOf cs o = cs := sorted_split hs o hnd

theorem newerOf_isEmpty {cs : List Commit} {o : Int} (hnd : ∀ q ∈ cs, q.order ≠ o) :
    (newerOf cs o).isEmpty = true ↔ ∀ q ∈ cs, q.order < o := by
  rw [List.isEmpty_iff, newerOf, List.filter_eq_nil_iff]
  constructor
  · intro h q hq; have := h q hq; have := hnd q hq; simp at *; omega
  · intro h q hq; have := h q hq; simp; omega

/-! ### unfolding `specStep` -/

theorem dropped_iff (w : List (Option Commit)) (o : Int) :
    Dropped w o ↔
      (((stored w).any fun q => q.order == o) ||
        (match w.head?.join with
          | some x => decide (o ≤ x.order)
          | none => false)) = true := by
  unfold Dropped
  rw [Bool.or_eq_true, List.any_eq_true]
  constructor
  · rintro (⟨q, hq, h⟩ | ⟨x, hx, h⟩)
    · exact Or.inl ⟨q, hq, by simp [h]⟩
    · right; rw [hx]; simp [h]
  · rintro (⟨q, hq, h⟩ | h)
    · exact Or.inl ⟨q, hq, by simpa using h⟩
    · right
      split at h
      · next x hx => exact ⟨x, hx, by simpa using h⟩
      · simp at h

theorem specStep_dropped (md : Int) (w : List (Option Commit)) (c : In)
    (h : Dropped w c.order) : specStep md w c = w := by
  have h' := (dropped_iff w c.order).1 h
  unfold specStep
  simp only []
  exact if_pos h'

theorem not_dropped_enc {k : Nat} {cs : List Commit} {o : Int} (h : ¬ Dropped (enc k cs) o) :
    (∀ q ∈ cs, q.order ≠ o) ∧ (k = 0 → ∀ a, cs.head? = some a → a.order < o) := by
  constructor
  · intro q hq he
    exact h (Or.inl ⟨q, by rwa [stored_enc], he⟩)
  · intro hk a ha
    subst hk
    by_cases hlt : a.order < o
    · exact hlt
    · exact absurd (Or.inr ⟨a, by rw [head_enc_zero]; exact ha, by omega⟩) h

theorem specStep_enc_nd (md : Int) (k : Nat) (cs : List Commit) (c : In)
    (hnd : ¬ Dropped (enc k cs) c.order) :
    specStep md (enc k cs) c =
      (let old := olderOf cs c.order
       let new := newerOf cs c.order
       let ins : List (Option Commit) :=
         if k > 0 then enc (k - 1) (old ++ [mkCommit c c.ts new.isEmpty] ++ new)
         else enc 0 ((old ++ [mkCommit c c.ts new.isEmpty] ++ new).drop 1)
       match old.getLast? with
       | none => ins
       | some p =>
         if (!(k == 0 && old.length == 1 && !new.isEmpty) && decide (c.ts - p.ts < md * 1000)) = true then
           enc k (old.dropLast ++ [mkCommit c p.ts new.isEmpty] ++ new)
         else ins) := by
  have h' := fun h => hnd ((dropped_iff (enc k cs) c.order).2 h)
  unfold specStep
  simp only []
  refine (if_neg h').trans ?_
  simp only [stored_enc, length_enc, Nat.add_sub_cancel]
  rfl


/-! ### the merge predecessor is the last of the older half -/

theorem mergePred_iff (k : Nat) (cs : List Commit) (o : Int) (p : Commit) (hs : Sorted cs)
    (hnd : ∀ q ∈ cs, q.order ≠ o) :
    MergePred (enc k cs) o p ↔
      (olderOf cs o).getLast? = some p ∧
        ¬ (k = 0 ∧ (olderOf cs o).length = 1 ∧ newerOf cs o ≠ []) := by
  have hsplit := older_append_newer hs o hnd
  have hso := sorted_olderOf hs o
  unfold MergePred
  rw [stored_enc]
  constructor
  · rintro ⟨hp, hlt, hmax, hex⟩
    have hpo : p ∈ olderOf cs o := mem_olderOf.2 ⟨hp, hlt⟩
    have hlast : (olderOf cs o).getLast? = some p := by
      cases hl : (olderOf cs o).getLast? with
      | none => rw [List.getLast?_eq_none_iff] at hl; rw [hl] at hpo; simp at hpo
      | some l =>
        have hlo : l ∈ olderOf cs o := List.mem_of_getLast? hl
        have h1 := sorted_last_max hso hl p hpo
        have h2 := hmax l (mem_olderOf.1 hlo).1 (mem_olderOf.1 hlo).2
        rw [sorted_inj hso hlo hpo (by omega)]
    refine ⟨hlast, ?_⟩
    rintro ⟨hk, hlen, hne⟩
    apply hex
    subst hk
    obtain ⟨ys, hys⟩ := List.getLast?_eq_some_iff.1 hlast
    have hys0 : ys = [] := by
      rw [hys] at hlen; simp at hlen; exact hlen
    subst hys0
    constructor
    · rw [head_enc_zero, ← hsplit, hys]; rfl
    · obtain ⟨q, hq⟩ := List.exists_mem_of_ne_nil _ hne
      exact ⟨q, (mem_newerOf.1 hq).1, (mem_newerOf.1 hq).2⟩
  · rintro ⟨hlast, hnev⟩
    obtain ⟨ys, hys⟩ := List.getLast?_eq_some_iff.1 hlast
    have hpo : p ∈ olderOf cs o := by rw [hys]; simp
    refine ⟨(mem_olderOf.1 hpo).1, (mem_olderOf.1 hpo).2, ?_, ?_⟩
    · intro q hq hqlt
      exact sorted_last_max hso hlast q (mem_olderOf.2 ⟨hq, hqlt⟩)
    · rintro ⟨hhead, q, hq, hqgt⟩
      apply hnev
      have hk : k = 0 := by
        by_cases hk : k = 0
        · exact hk
        · rw [head_enc_pos k (by omega)] at hhead; simp at hhead
      subst hk
      rw [head_enc_zero, ← hsplit, hys] at hhead
      refine ⟨rfl, ?_, ?_⟩
      · cases ys with
        | nil => rw [hys]; rfl
        | cons a t =>
          simp at hhead
          subst hhead
          rw [hys] at hso
          have := (List.pairwise_cons.1 hso).1 a (by simp)
          omega
      · intro hnil
        have : q ∈ newerOf cs o := mem_newerOf.2 ⟨hq, hqgt⟩
        rw [hnil] at this; simp at this

theorem mergePred_unique {k : Nat} {cs : List Commit} {o : Int} {p p' : Commit} (hs : Sorted cs)
    (hnd : ∀ q ∈ cs, q.order ≠ o) (h : MergePred (enc k cs) o p) (h' : MergePred (enc k cs) o p') :
    p = p' := by
  have h1 := ((mergePred_iff k cs o p hs hnd).1 h).1
  have h2 := ((mergePred_iff k cs o p' hs hnd).1 h').1
  rw [h1] at h2; exact Option.some.inj h2

/-! ### master case analysis -/

/-- what one arrival does to a well-formed window, case by case -/
theorem specStep_cases (md : Int) (k : Nat) (cs : List Commit) (c : In) (hs : Sorted cs)
    (hpos : 0 < k + cs.length) :
    (Dropped (enc k cs) c.order ∧ specStep md (enc k cs) c = enc k cs) ∨
    (¬ Dropped (enc k cs) c.order ∧ (∀ q ∈ cs, q.order ≠ c.order) ∧
      olderOf cs c.order ++ newerOf cs c.order = cs ∧
      ((∃ init p, olderOf cs c.order = init ++ [p] ∧ MergePred (enc k cs) c.order p ∧
            c.ts - p.ts < md * 1000 ∧
            specStep md (enc k cs) c =
              enc k (init ++ mkCommit c p.ts (newerOf cs c.order).isEmpty :: newerOf cs c.order)) ∨
       ((∀ p, MergePred (enc k cs) c.order p → ¬ c.ts - p.ts < md * 1000) ∧
          ((0 < k ∧ specStep md (enc k cs) c =
              enc (k - 1) (olderOf cs c.order ++
                mkCommit c c.ts (newerOf cs c.order).isEmpty :: newerOf cs c.order)) ∨
           (k = 0 ∧ ∃ a t, olderOf cs c.order = a :: t ∧ specStep md (enc k cs) c =
              enc 0 (t ++ mkCommit c c.ts (newerOf cs c.order).isEmpty :: newerOf cs c.order)))))) := by
  by_cases hd : Dropped (enc k cs) c.order
  · exact Or.inl ⟨hd, specStep_dropped md _ c hd⟩
  · right
    obtain ⟨hnd, hhead⟩ := not_dropped_enc hd
    have hsplit := older_append_newer hs c.order hnd
    refine ⟨hd, hnd, hsplit, ?_⟩
    have hstep := specStep_enc_nd md k cs c hd
    simp only [] at hstep
    -- the plain insertion, in both of its shapes
    have hins :
        (if k > 0 then enc (k - 1) (olderOf cs c.order ++ [mkCommit c c.ts (newerOf cs c.order).isEmpty] ++ newerOf cs c.order)
          else enc 0 ((olderOf cs c.order ++ [mkCommit c c.ts (newerOf cs c.order).isEmpty] ++ newerOf cs c.order).drop 1))
          = specStep md (enc k cs) c →
        ((0 < k ∧ specStep md (enc k cs) c =
              enc (k - 1) (olderOf cs c.order ++
                mkCommit c c.ts (newerOf cs c.order).isEmpty :: newerOf cs c.order)) ∨
           (k = 0 ∧ ∃ a t, olderOf cs c.order = a :: t ∧ specStep md (enc k cs) c =
              enc 0 (t ++ mkCommit c c.ts (newerOf cs c.order).isEmpty :: newerOf cs c.order))) := by
      intro heq
      by_cases hk : k > 0
      · left; rw [if_pos hk] at heq
        exact ⟨hk, by rw [← heq]; simp⟩
      · right
        have hk0 : k = 0 := by omega
        rw [if_neg hk] at heq
        refine ⟨hk0, ?_⟩
        cases hold : olderOf cs c.order with
        | nil =>
          exfalso
          cases hcs : cs with
          | nil => rw [hcs] at hpos; simp at hpos; omega
          | cons a t =>
            have ha : a ∈ olderOf cs c.order :=
              mem_olderOf.2 ⟨by rw [hcs]; simp, hhead hk0 a (by rw [hcs]; rfl)⟩
            rw [hold] at ha; simp at ha
        | cons a t =>
          refine ⟨a, t, rfl, ?_⟩
          rw [← heq, hold]; simp
    cases hl : (olderOf cs c.order).getLast? with
    | none =>
      rw [hl] at hstep
      right
      refine ⟨?_, hins hstep.symm⟩
      intro p hp
      rw [mergePred_iff k cs c.order p hs hnd, hl] at hp
      simp at hp
    | some p =>
      rw [hl] at hstep
      simp only [] at hstep
      by_cases hc : (!(k == 0 && (olderOf cs c.order).length == 1 && !(newerOf cs c.order).isEmpty) &&
          decide (c.ts - p.ts < md * 1000)) = true
      · left
        rw [if_pos hc] at hstep
        obtain ⟨init, hinit⟩ := List.getLast?_eq_some_iff.1 hl
        refine ⟨init, p, hinit, ?_, ?_, ?_⟩
        · rw [mergePred_iff k cs c.order p hs hnd]
          refine ⟨hl, ?_⟩
          rintro ⟨h1, h2, h3⟩
          simp [h1, h2, h3] at hc
        · simp at hc; exact hc.2
        · rw [hstep, hinit]; simp
      · right
        rw [if_neg hc] at hstep
        refine ⟨?_, hins hstep.symm⟩
        intro p' hp' hclose
        rw [mergePred_iff k cs c.order p' hs hnd, hl] at hp'
        obtain ⟨h1, h2⟩ := hp'
        have h1 := Option.some.inj h1
        subst h1
        apply hc
        simp only [Bool.and_eq_true, Bool.not_eq_true', decide_eq_true_eq]
        refine ⟨?_, hclose⟩
        cases hb : (k == 0 && (olderOf cs c.order).length == 1 && !(newerOf cs c.order).isEmpty) with
        | false => rfl
        | true =>
          exfalso; apply h2
          simp at hb
          exact ⟨hb.1.1, hb.1.2, hb.2⟩


@[simp] theorem mkCommit_order (c : In) (ts : Int) (b : Bool) : (mkCommit c ts b).order = c.order := rfl
@[simp] theorem mkCommit_offset (c : In) (ts : Int) (b : Bool) : (mkCommit c ts b).offset = c.offset := rfl
@[simp] theorem mkCommit_ts (c : In) (ts : Int) (b : Bool) : (mkCommit c ts b).ts = ts := rfl
@[simp] theorem mkCommit_lag (c : In) (ts : Int) (b : Bool) :
    (mkCommit c ts b).lag = if b then some (lagAt c.broker c.offset) else none := rfl

theorem head_join_mem {w : List (Option Commit)} {o : Commit} (h : w.head?.join = some o) :
    o ∈ stored w := by
  cases w with
  | nil => simp at h
  | cons a t =>
    cases a with
    | none => simp at h
    | some x => simp at h; subst h; simp [stored]

/-- the common shape of every non-dropping step: part of the older half, the newcomer, the newer
    half; the slot count is unchanged -/
theorem specStep_shape (md : Int) (k : Nat) (cs : List Commit) (c : In) (hs : Sorted cs)
    (hpos : 0 < k + cs.length) (hnd : ¬ Dropped (enc k cs) c.order) :
    ∃ k' l₁ ts, l₁.Sublist (olderOf cs c.order) ∧
      k' + (l₁.length + 1 + (newerOf cs c.order).length) = k + cs.length ∧
      specStep md (enc k cs) c =
        enc k' (l₁ ++ mkCommit c ts (newerOf cs c.order).isEmpty :: newerOf cs c.order) := by
  rcases specStep_cases md k cs c hs hpos with ⟨hd, _⟩ | ⟨_, _, hsplit, hc⟩
  · exact absurd hd hnd
  · have hlen := congrArg List.length hsplit
    rw [List.length_append] at hlen
    rcases hc with ⟨init, p, hinit, _, _, heq⟩ | ⟨_, ⟨hk, heq⟩ | ⟨hk, a, t, hold, heq⟩⟩
    · refine ⟨k, init, p.ts, ?_, ?_, heq⟩
      · rw [hinit]; exact List.sublist_append_left _ _
      · rw [hinit] at hlen; simp at hlen; omega
    · exact ⟨k - 1, _, c.ts, List.Sublist.refl _, by omega, heq⟩
    · refine ⟨0, t, c.ts, ?_, ?_, heq⟩
      · rw [hold]; exact List.sublist_cons_self _ _
      · rw [hold] at hlen; simp at hlen; omega

theorem specStep_wf {N : Nat} (hN : 1 ≤ N) (md : Int) (w : List (Option Commit)) (c : In)
    (hwf : WF N w) : WF N (specStep md w c) := by
  obtain ⟨k, cs, rfl, hlen, hs⟩ := (wf_iff N _).1 hwf
  by_cases hd : Dropped (enc k cs) c.order
  · rw [specStep_dropped md _ c hd]; exact (wf_iff N _).2 ⟨k, cs, rfl, hlen, hs⟩
  · obtain ⟨k', l₁, ts, hsub, hl, heq⟩ := specStep_shape md k cs c hs (by omega) hd
    refine (wf_iff N _).2 ⟨k', _, heq, ?_, ?_⟩
    · simp only [List.length_append, List.length_cons]; omega
    · refine sorted_insert (List.Pairwise.sublist hsub (sorted_olderOf hs _)) (sorted_newerOf hs _) ?_ ?_
      · intro a ha; exact (mem_olderOf.1 (hsub.subset ha)).2
      · intro b hb; exact (mem_newerOf.1 hb).2

theorem specStep_length {N : Nat} (hN : 1 ≤ N) (md : Int) (w : List (Option Commit)) (c : In)
    (hwf : WF N w) : (specStep md w c).length = w.length := by
  obtain ⟨k', cs', h', hl', _⟩ := (wf_iff N _).1 (specStep_wf hN md w c hwf)
  obtain ⟨k, cs, h, hl, _⟩ := (wf_iff N _).1 hwf
  rw [h', h, length_enc, length_enc]; omega

/-- every stored commit after a step was stored before, or is the newcomer (with a lag exactly when
    it arrived as the newest) -/
theorem mem_stored_specStep {N : Nat} (hN : 1 ≤ N) (md : Int) (w : List (Option Commit)) (c : In)
    (hwf : WF N w) :
    ∀ q ∈ stored (specStep md w c), q ∈ stored w ∨
      (q.order = c.order ∧ q.offset = c.offset ∧
        q.lag = if (∀ o ∈ stored w, o.order < c.order) then some (lagAt c.broker c.offset) else none) := by
  obtain ⟨k, cs, rfl, hlen, hs⟩ := (wf_iff N _).1 hwf
  intro q hq
  by_cases hd : Dropped (enc k cs) c.order
  · rw [specStep_dropped md _ c hd] at hq; exact Or.inl hq
  · obtain ⟨k', l₁, ts, hsub, hl, heq⟩ := specStep_shape md k cs c hs (by omega) hd
    rw [heq, stored_enc] at hq
    rw [stored_enc]
    rcases List.mem_append.1 hq with h | h
    · exact Or.inl (mem_olderOf.1 (hsub.subset h)).1
    · rcases List.mem_cons.1 h with rfl | h
      · right
        refine ⟨rfl, rfl, ?_⟩
        rw [mkCommit_lag]
        have := newerOf_isEmpty (not_dropped_enc hd).1
        by_cases hb : (newerOf cs c.order).isEmpty = true
        · rw [if_pos hb, if_pos (this.1 hb)]
        · rw [if_neg hb, if_neg (fun h => hb (this.2 h))]
      · exact Or.inl (mem_newerOf.1 h).1

/-- nothing stored is overtaken: after a step some stored commit is at least as new as any commit
    stored before, and as the newcomer -/
theorem specStep_upper {N : Nat} (hN : 1 ≤ N) (md : Int) (w : List (Option Commit)) (c : In)
    (hwf : WF N w) :
    (∀ q ∈ stored w, ∃ q' ∈ stored (specStep md w c), q.order ≤ q'.order) ∧
    (∃ q' ∈ stored (specStep md w c), c.order ≤ q'.order) := by
  obtain ⟨k, cs, rfl, hlen, hs⟩ := (wf_iff N _).1 hwf
  by_cases hd : Dropped (enc k cs) c.order
  · rw [specStep_dropped md _ c hd]
    refine ⟨fun q hq => ⟨q, hq, Int.le_refl _⟩, ?_⟩
    rcases hd with ⟨q, hq, he⟩ | ⟨o, ho, hle⟩
    · exact ⟨q, hq, by omega⟩
    · exact ⟨o, head_join_mem ho, hle⟩
  · obtain ⟨k', l₁, ts, hsub, hl, heq⟩ := specStep_shape md k cs c hs (by omega) hd
    have hnd := (not_dropped_enc hd).1
    rw [heq, stored_enc, stored_enc]
    have hx : mkCommit c ts (newerOf cs c.order).isEmpty ∈
        l₁ ++ mkCommit c ts (newerOf cs c.order).isEmpty :: newerOf cs c.order := by simp
    refine ⟨?_, ⟨_, hx, Int.le_refl _⟩⟩
    intro q hq
    by_cases hlt : q.order < c.order
    · exact ⟨_, hx, by simp; omega⟩
    · have : q ∈ newerOf cs c.order := mem_newerOf.2 ⟨hq, by have := hnd q hq; omega⟩
      exact ⟨q, by simp [this], Int.le_refl _⟩


theorem specStep_merge {N : Nat} (hN : 1 ≤ N) (md : Int) (w : List (Option Commit)) (c : In)
    (p : Commit) (hwf : WF N w) (hnd : ¬ Dropped w c.order) (hp : MergePred w c.order p)
    (hclose : c.ts - p.ts < md * 1000) :
    (stored (specStep md w c)).map key =
      (stored w).map (fun q => if q = p then (c.offset, c.order, p.ts) else key q) ∧
    (specStep md w c).length = w.length := by
  refine ⟨?_, specStep_length hN md w c hwf⟩
  obtain ⟨k, cs, rfl, hlen, hs⟩ := (wf_iff N _).1 hwf
  rcases specStep_cases md k cs c hs (by omega) with ⟨hd, _⟩ | ⟨_, hndup, hsplit, hc⟩
  · exact absurd hd hnd
  · rcases hc with ⟨init, p', hinit, hp', _, heq⟩ | ⟨hfar, _⟩
    · have hpp : p' = p := mergePred_unique hs hndup hp' hp
      subst hpp
      rw [heq, stored_enc, stored_enc]
      have hso := sorted_olderOf hs c.order
      rw [hinit] at hso
      have hso' := List.pairwise_append.1 hso
      have hpold : p' ∈ olderOf cs c.order := by rw [hinit]; simp
      have h1 : ∀ q ∈ init, q ≠ p' := by
        intro q hq he; have := hso'.2.2 q hq p' (by simp); rw [he] at this; omega
      have h2 : ∀ q ∈ newerOf cs c.order, q ≠ p' := by
        intro q hq he
        have := (mem_newerOf.1 hq).2; have := (mem_olderOf.1 hpold).2; rw [he] at *; omega
      conv => rhs; rw [← hsplit, hinit]
      simp only [List.map_append, List.map_cons, List.append_assoc, List.cons_append,
        List.nil_append, if_true]
      congr 1
      · exact List.map_congr_left (fun q hq => by rw [if_neg (h1 q hq)])
      · congr 1
        exact List.map_congr_left (fun q hq => by rw [if_neg (h2 q hq)])
    · exact absurd hclose (hfar p hp)

theorem specStep_own_slot {N : Nat} (hN : 1 ≤ N) (md : Int) (w : List (Option Commit)) (c : In)
    (hwf : WF N w) (hnd : ¬ Dropped w c.order)
    (hfar : ∀ p, MergePred w c.order p → ¬ (c.ts - p.ts < md * 1000)) :
    (∃ q ∈ stored (specStep md w c), key q = c.key) ∧
    (∀ q ∈ stored w, q ∈ stored (specStep md w c) ∨ w.head?.join = some q) := by
  obtain ⟨k, cs, rfl, hlen, hs⟩ := (wf_iff N _).1 hwf
  rcases specStep_cases md k cs c hs (by omega) with ⟨hd, _⟩ | ⟨_, hndup, hsplit, hc⟩
  · exact absurd hd hnd
  · rcases hc with ⟨init, p', hinit, hp', hcl, heq⟩ | ⟨_, ⟨hk, heq⟩ | ⟨hk, a, t, hold, heq⟩⟩
    · exact absurd hcl (hfar p' hp')
    · rw [heq, stored_enc, stored_enc]
      refine ⟨⟨mkCommit c c.ts (newerOf cs c.order).isEmpty, by simp, rfl⟩, ?_⟩
      intro q hq
      left
      rw [← hsplit] at hq
      rcases List.mem_append.1 hq with h | h <;> simp [h]
    · subst hk
      rw [heq, stored_enc, stored_enc]
      refine ⟨⟨mkCommit c c.ts (newerOf cs c.order).isEmpty, by simp, rfl⟩, ?_⟩
      intro q hq
      rw [← hsplit, hold] at hq
      rcases List.mem_append.1 hq with h | h
      · rcases List.mem_cons.1 h with rfl | h
        · right; rw [head_enc_zero, ← hsplit, hold]; rfl
        · left; simp [h]
      · left; simp [h]


/-! ### the newest-`N` characterisation (minimum distance 0) -/

theorem wf_stored {N : Nat} {w : List (Option Commit)} (hwf : WF N w) :
    Sorted (stored w) ∧ (stored w).length ≤ N := by
  obtain ⟨k, cs, rfl, hlen, hs⟩ := (wf_iff N _).1 hwf
  rw [stored_enc]; exact ⟨hs, by omega⟩

theorem inkey_eq_key {s : In} {q : Commit} :
    s.key = key q ↔ s.offset = q.offset ∧ s.order = q.order ∧ s.ts = q.ts := by
  simp [In.key, key]

theorem inkey_eq_inkey {s t : In} :
    s.key = t.key ↔ s.offset = t.offset ∧ s.order = t.order ∧ s.ts = t.ts := by
  simp [In.key]

theorem key_eq_key {s t : Commit} :
    key s = key t ↔ s.offset = t.offset ∧ s.order = t.order ∧ s.ts = t.ts := by
  simp [key]

theorem isTopN_nil (N : Nat) : IsTopN N [] [] :=
  ⟨List.Pairwise.nil, Nat.zero_le _, by simp, by simp⟩

/-- with the minimum distance disabled and timestamps non-decreasing along the log, one arrival
    keeps the window equal to the newest `N` commits seen -/
theorem isTopN_step {N : Nat} (hN : 1 ≤ N) (seen : List In) (w : List (Option Commit)) (c : In)
    (hwf : WF N w) (hm : TsMono (seen ++ [c])) (ht : IsTopN N seen (stored w)) :
    IsTopN N (seen ++ [c]) (stored (specStep 0 w c)) := by
  obtain ⟨hsorted', hlen'⟩ := wf_stored (specStep_wf hN 0 w c hwf)
  refine ⟨hsorted', hlen', ?_⟩
  obtain ⟨k, cs, rfl, hlen, hs⟩ := (wf_iff N _).1 hwf
  obtain ⟨_, _, hkey, hcov⟩ := ht
  rw [stored_enc] at hkey hcov
  have hc_mem : c ∈ seen ++ [c] := by simp
  -- facts shared by the two insertion cases
  have hkey_ins : ∀ (l : List Commit), (∀ q ∈ l, q ∈ cs) →
      ∀ q ∈ l ++ mkCommit c c.ts (newerOf cs c.order).isEmpty :: newerOf cs c.order,
        ∃ s ∈ seen ++ [c], s.key = key q := by
    intro l hl q hq
    have hold : ∀ q ∈ cs, ∃ s ∈ seen ++ [c], s.key = key q := by
      intro q hq; obtain ⟨s, hs, he⟩ := hkey q hq; exact ⟨s, by simp [hs], he⟩
    rcases List.mem_append.1 hq with h | h
    · exact hold q (hl q h)
    · rcases List.mem_cons.1 h with rfl | h
      · exact ⟨c, hc_mem, rfl⟩
      · exact hold q (mem_newerOf.1 h).1
  rcases specStep_cases 0 k cs c hs (by omega) with ⟨hd, heq⟩ | ⟨_, hndup, hsplit, hc⟩
  · -- dropped
    rw [heq, stored_enc]
    constructor
    · intro q hq; obtain ⟨s, hs, he⟩ := hkey q hq; exact ⟨s, by simp [hs], he⟩
    · intro s hsm
      rcases List.mem_append.1 hsm with h | h
      · exact hcov s h
      · simp at h; subst h
        by_cases hdup : ∃ q ∈ cs, q.order = s.order
        · exact Or.inl hdup
        · right
          rcases hd with ⟨q, hq, he⟩ | ⟨o, ho, hle⟩
          · rw [stored_enc] at hq; exact absurd ⟨q, hq, he⟩ hdup
          · have hk : k = 0 := by
              by_cases hk : k = 0
              · exact hk
              · rw [head_enc_pos k (by omega)] at ho; simp at ho
            subst hk
            rw [head_enc_zero] at ho
            refine ⟨by omega, ?_⟩
            intro q hq
            have h1 := sorted_head_min hs ho q hq
            have h2 : q.order ≠ s.order := fun he => hdup ⟨q, hq, he⟩
            omega
  · rcases hc with ⟨init, p, hinit, hp, hcl, _⟩ | ⟨_, ⟨hk, heq⟩ | ⟨hk, a, t, hold, heq⟩⟩
    · -- a merge cannot happen
      exfalso
      have hpold : p ∈ olderOf cs c.order := by rw [hinit]; simp
      obtain ⟨hpcs, hplt⟩ := mem_olderOf.1 hpold
      obtain ⟨s, hs, he⟩ := hkey p hpcs
      obtain ⟨_, ho, hts⟩ := inkey_eq_key.1 he
      have := hm s (by simp [hs]) c hc_mem (by omega)
      omega
    · -- insertion into a window with room
      rw [heq, stored_enc]
      refine ⟨hkey_ins _ (fun q hq => (mem_olderOf.1 hq).1), ?_⟩
      intro s hsm
      rcases List.mem_append.1 hsm with h | h
      · rcases hcov s h with ⟨q, hq, he⟩ | ⟨hfull, _⟩
        · left
          refine ⟨q, ?_, he⟩
          rw [← hsplit] at hq
          rcases List.mem_append.1 hq with h' | h' <;> simp [h']
        · omega
      · simp at h; subst h
        exact Or.inl ⟨mkCommit s s.ts (newerOf cs s.order).isEmpty, by simp, rfl⟩
    · -- insertion into a full window: the oldest entry leaves
      subst hk
      rw [heq, stored_enc]
      refine ⟨hkey_ins _ (fun q hq => (mem_olderOf.1 (by rw [hold]; simp [hq])).1), ?_⟩
      have haold : a ∈ olderOf cs c.order := by rw [hold]; simp
      have halt := (mem_olderOf.1 haold).2
      have hso := sorted_olderOf hs c.order
      rw [hold] at hso
      have hmin : ∀ q' ∈ t ++ mkCommit c c.ts (newerOf cs c.order).isEmpty :: newerOf cs c.order,
          a.order < q'.order := by
        intro q' hq'
        rcases List.mem_append.1 hq' with h | h
        · exact (List.pairwise_cons.1 hso).1 q' h
        · rcases List.mem_cons.1 h with rfl | h
          · exact halt
          · have := (mem_newerOf.1 h).2; omega
      have hlenN : (t ++ mkCommit c c.ts (newerOf cs c.order).isEmpty :: newerOf cs c.order).length = N := by
        have := congrArg List.length hsplit
        rw [hold] at this
        simp at this ⊢
        omega
      intro s hsm
      rcases List.mem_append.1 hsm with h | h
      · rcases hcov s h with ⟨q, hq, he⟩ | ⟨_, hall⟩
        · rw [← hsplit, hold] at hq
          rcases List.mem_append.1 hq with h' | h'
          · rcases List.mem_cons.1 h' with rfl | h'
            · right
              exact ⟨hlenN, fun q' hq' => by have := hmin q' hq'; omega⟩
            · exact Or.inl ⟨q, by simp [h'], he⟩
          · exact Or.inl ⟨q, by simp [h'], he⟩
        · right
          have := hall a (mem_olderOf.1 haold).1
          exact ⟨hlenN, fun q' hq' => by have := hmin q' hq'; omega⟩
      · simp at h; subst h
        exact Or.inl ⟨mkCommit s s.ts (newerOf cs s.order).isEmpty, by simp, rfl⟩

/-! ### the newest `N` are determined by the set of commits seen -/

theorem sorted_ext {α : Type} (f : α → Int) :
    ∀ (l₁ l₂ : List α), l₁.Pairwise (fun a b => f a < f b) → l₂.Pairwise (fun a b => f a < f b) →
      (∀ x, x ∈ l₁ ↔ x ∈ l₂) → l₁ = l₂ := by
  intro l₁
  induction l₁ with
  | nil =>
    intro l₂ _ _ hmem
    cases l₂ with
    | nil => rfl
    | cons b t => have := (hmem b).2 (by simp); simp at this
  | cons a t₁ ih =>
    intro l₂ h₁ h₂ hmem
    cases l₂ with
    | nil => have := (hmem a).1 (by simp); simp at this
    | cons b t₂ =>
      have h₁' := List.pairwise_cons.1 h₁
      have h₂' := List.pairwise_cons.1 h₂
      have hab : a = b := by
        rcases List.mem_cons.1 ((hmem a).1 (by simp)) with h | h
        · exact h
        · rcases List.mem_cons.1 ((hmem b).2 (by simp)) with h' | h'
          · exact h'.symm
          · have := h₁'.1 b h'; have := h₂'.1 a h; omega
      subst hab
      congr 1
      apply ih t₂ h₁'.2 h₂'.2
      intro x
      constructor
      · intro hx
        rcases List.mem_cons.1 ((hmem x).1 (by simp [hx])) with h | h
        · subst h; have := h₁'.1 x hx; omega
        · exact h
      · intro hx
        rcases List.mem_cons.1 ((hmem x).2 (by simp [hx])) with h | h
        · subst h; have := h₂'.1 x hx; omega
        · exact h

theorem isTopN_orders_sub {N : Nat} (hN : 1 ≤ N) {seen₁ seen₂ : List In} {st₁ st₂ : List Commit}
    (h₁ : IsTopN N seen₁ st₁) (h₂ : IsTopN N seen₂ st₂)
    (h12 : ∀ s ∈ seen₁, ∃ s' ∈ seen₂, s'.key = s.key)
    (h21 : ∀ s ∈ seen₂, ∃ s' ∈ seen₁, s'.key = s.key) :
    ∀ q₁ ∈ st₁, ∃ q₂ ∈ st₂, q₂.order = q₁.order := by
  intro q₁ hq₁
  obtain ⟨hs₁, hl₁, hk₁, hc₁⟩ := h₁
  obtain ⟨hs₂, hl₂, hk₂, hc₂⟩ := h₂
  obtain ⟨s₁, hs₁m, he₁⟩ := hk₁ q₁ hq₁
  obtain ⟨s₂, hs₂m, he₂⟩ := h12 s₁ hs₁m
  have ho : s₂.order = q₁.order := by
    have := (inkey_eq_inkey.1 he₂).2.1; have := (inkey_eq_key.1 he₁).2.1; omega
  rcases hc₂ s₂ hs₂m with ⟨q, hq, he⟩ | ⟨hfull, hall⟩
  · exact ⟨q, hq, by omega⟩
  · exfalso
    -- every entry of `st₂` is newer than `q₁` and also occurs (by position) in `st₁`: too many
    have hsub : ∀ q ∈ st₂, ∃ q' ∈ st₁, q'.order = q.order := by
      intro q hq
      obtain ⟨t₂, ht₂, hte₂⟩ := hk₂ q hq
      obtain ⟨t₁, ht₁, hte₁⟩ := h21 t₂ ht₂
      have hto : t₁.order = q.order := by
        have := (inkey_eq_inkey.1 hte₁).2.1; have := (inkey_eq_key.1 hte₂).2.1; omega
      rcases hc₁ t₁ ht₁ with ⟨q', hq', he'⟩ | ⟨_, hall'⟩
      · exact ⟨q', hq', by omega⟩
      · have := hall' q₁ hq₁; have := hall q hq; omega
    have hnd : (st₂.map (·.order)).Nodup :=
      List.Pairwise.map _ (fun a b (h : a.order < b.order) => by
        show a.order ≠ b.order
        omega) hs₂
    have hss : st₂.map (·.order) ⊆ (st₁.map (·.order)).erase q₁.order := by
      intro x hx
      obtain ⟨q, hq, rfl⟩ := List.mem_map.1 hx
      obtain ⟨q', hq', he'⟩ := hsub q hq
      have hne : q.order ≠ q₁.order := by have := hall q hq; omega
      rw [List.mem_erase_of_ne hne]
      exact List.mem_map.2 ⟨q', hq', he'⟩
    have hle := hnd.length_le_of_subset hss
    rw [List.length_erase_of_mem (List.mem_map.2 ⟨q₁, hq₁, rfl⟩)] at hle
    simp at hle
    omega

theorem isTopN_keys_sub {N : Nat} (hN : 1 ≤ N) {seen₁ seen₂ : List In} {st₁ st₂ : List Commit}
    (h₁ : IsTopN N seen₁ st₁) (h₂ : IsTopN N seen₂ st₂)
    (h12 : ∀ s ∈ seen₁, ∃ s' ∈ seen₂, s'.key = s.key)
    (h21 : ∀ s ∈ seen₂, ∃ s' ∈ seen₁, s'.key = s.key)
    (hf₂ : Functional seen₂) :
    ∀ q₁ ∈ st₁, ∃ q₂ ∈ st₂, key q₂ = key q₁ := by
  intro q₁ hq₁
  obtain ⟨q₂, hq₂, ho⟩ := isTopN_orders_sub hN h₁ h₂ h12 h21 q₁ hq₁
  refine ⟨q₂, hq₂, ?_⟩
  obtain ⟨s₁, hs₁m, he₁⟩ := h₁.2.2.1 q₁ hq₁
  obtain ⟨s₁', hs₁'m, he₁'⟩ := h12 s₁ hs₁m
  obtain ⟨s₂, hs₂m, he₂⟩ := h₂.2.2.1 q₂ hq₂
  have e1 := inkey_eq_key.1 he₁
  have e1' := inkey_eq_inkey.1 he₁'
  have e2 := inkey_eq_key.1 he₂
  have := hf₂ s₁' hs₁'m s₂ hs₂m (by omega)
  rw [key_eq_key]
  omega

theorem isTopN_unique {N : Nat} (hN : 1 ≤ N) {seen₁ seen₂ : List In} {st₁ st₂ : List Commit}
    (h₁ : IsTopN N seen₁ st₁) (h₂ : IsTopN N seen₂ st₂)
    (h12 : ∀ s ∈ seen₁, ∃ s' ∈ seen₂, s'.key = s.key)
    (h21 : ∀ s ∈ seen₂, ∃ s' ∈ seen₁, s'.key = s.key)
    (hf₁ : Functional seen₁) (hf₂ : Functional seen₂) :
    st₁.map key = st₂.map key := by
  apply sorted_ext (fun x : Int × Int × Int => x.2.1)
  · exact List.pairwise_map.2 h₁.1
  · exact List.pairwise_map.2 h₂.1
  · intro x
    constructor
    · intro hx
      obtain ⟨q, hq, rfl⟩ := List.mem_map.1 hx
      obtain ⟨q', hq', he⟩ := isTopN_keys_sub hN h₁ h₂ h12 h21 hf₂ q hq
      exact List.mem_map.2 ⟨q', hq', he⟩
    · intro hx
      obtain ⟨q, hq, rfl⟩ := List.mem_map.1 hx
      obtain ⟨q', hq', he⟩ := isTopN_keys_sub hN h₂ h₁ h21 h12 hf₁ q hq
      exact List.mem_map.2 ⟨q', hq', he⟩

/-- `Functional` and `TsMono` only look at keys -/
theorem functional_of_keys {cs₁ cs₂ : List In} (h21 : ∀ s ∈ cs₂, ∃ s' ∈ cs₁, s'.key = s.key)
    (hf : Functional cs₁) : Functional cs₂ := by
  intro a ha b hb hab
  obtain ⟨a', ha', hea⟩ := h21 a ha
  obtain ⟨b', hb', heb⟩ := h21 b hb
  have ea := inkey_eq_inkey.1 hea
  have eb := inkey_eq_inkey.1 heb
  have := hf a' ha' b' hb' (by omega)
  omega

theorem tsMono_of_keys {cs₁ cs₂ : List In} (h21 : ∀ s ∈ cs₂, ∃ s' ∈ cs₁, s'.key = s.key)
    (hm : TsMono cs₁) : TsMono cs₂ := by
  intro a ha b hb hab
  obtain ⟨a', ha', hea⟩ := h21 a ha
  obtain ⟨b', hb', heb⟩ := h21 b hb
  have ea := inkey_eq_inkey.1 hea
  have eb := inkey_eq_inkey.1 heb
  have := hm a' ha' b' hb' (by omega)
  omega

end Burrow.Proofs.WindowSpec
