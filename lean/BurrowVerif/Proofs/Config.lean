/-
  C19: the configuration phase refuses exactly the configurations that violate a documented
  requirement, and the (repaired) recover handler turns every refusal into `return 1`.
-/
import BurrowVerif.Model.Config

namespace Burrow.Config

theorem firstFail_none_iff (l : Chain) : firstFail l = none ↔ ∀ p ∈ l, p.1 = false := by
  induction l with
  | nil => simp [firstFail]
  | cons p rest ih =>
    obtain ⟨b, c⟩ := p
    cases b <;> simp [firstFail, ih]

theorem firstFail_some_mem {l : Chain} {c : Check} (h : firstFail l = some c) : (true, c) ∈ l := by
  induction l with
  | nil => simp [firstFail] at h
  | cons p rest ih =>
    obtain ⟨b, c'⟩ := p
    cases b
    · simp only [firstFail] at h; exact List.mem_cons_of_mem _ (ih h)
    · simp only [firstFail, Option.some.injEq] at h; subst h; simp

/-! ### the documented requirements, declaratively -/

def TlsListenerOk (t : Tls) : Prop := (t.caSet = true → t.caReadable = true) ∧ t.certKeySet = true ∧ t.pairLoads = true

def TlsProfileOk (t : Tls) : Prop :=
  (t.caSet = true → t.caReadable = true) ∧ (t.caSet = true → t.certKeySet = true → t.pairLoads = true)

def ZkOk (z : Zk) : Prop := z.serversN ≠ 0 ∧ z.serversOk = true ∧ z.rootOk = true

def StorageOk (m : Storage) : Prop :=
  m.cls = "inmemory" ∧ m.queueDepthOk = true ∧ m.legacy = false ∧ m.allowOk = true ∧ m.denyOk = true

def EvaluatorOk (m : Evaluator) : Prop := m.cls = "caching" ∧ m.expireOk = true

def ListenerOk (l : Listener) : Prop := l.addrOk = true ∧ ∀ t, l.tls = some t → TlsListenerOk t

def ProfileOk (p : Profile) : Prop :=
  (p.named = true → p.known = true) ∧ p.versionOk = true ∧ ∀ t, p.tls = some t → TlsProfileOk t

def NotifierOk (m : Notifier) : Prop :=
  m.legacy = false ∧ m.allowOk = true ∧ m.denyOk = true ∧ m.tmplOpenOk = true ∧ (m.sendClose = true → m.tmplCloseOk = true) ∧
  (m.cls = "http" ∨ m.cls = "email" ∨ m.cls = "null") ∧
  (m.cls = "http" → m.urlOpen = true ∧ (m.sendClose = true → m.urlClose = true) ∧ m.extraCaOk = true) ∧
  (m.cls = "email" → m.serverOk = true ∧ m.fromSet = true ∧ m.toSet = true ∧ m.authOk = true ∧ m.extraCaOk = true)

def ClusterOk (m : Cluster) : Prop :=
  m.cls = "kafka" ∧ ProfileOk m.profile ∧ m.serversN ≠ 0 ∧ m.serversOk = true

def ConsumerOk (m : Consumer) : Prop :=
  m.clusterKnown = true ∧ (m.cls = "kafka" ∨ m.cls = "kafka_zk") ∧
  (m.cls = "kafka" → ProfileOk m.profile) ∧
  m.serversN ≠ 0 ∧ m.serversOk = true ∧ (m.cls = "kafka_zk" → m.zkPathOk = true) ∧
  m.legacy = false ∧ m.allowOk = true ∧ m.denyOk = true

/-- **the catalogue**: every documented requirement on a configuration -/
structure Valid (c : Config) : Prop where
  zk        : c.haveNotifiers = true → ZkOk c.zk
  oneStore  : c.storage.length ≤ 1
  storage   : ∀ m ∈ c.storage, StorageOk m
  oneEval   : c.evaluator.length ≤ 1
  evaluator : ∀ m ∈ c.evaluator, EvaluatorOk m
  listeners : ∀ l ∈ c.listeners, ListenerOk l
  notifiers : c.haveNotifiers = true → ∀ m ∈ c.notifiers, NotifierOk m
  clusters  : ∀ m ∈ c.clusters, ClusterOk m
  consumers : ∀ m ∈ c.consumers, ConsumerOk m

/-! ### each chain passes iff its requirement holds -/

theorem zk_iff (z : Zk) : firstFail (zkChain z) = none ↔ ZkOk z := by
  rw [firstFail_none_iff]
  simp only [zkChain, List.mem_cons, List.not_mem_nil, or_false, forall_eq_or_imp, forall_eq, ZkOk]
  cases z.serversOk <;> cases z.rootOk <;> simp

theorem storage_iff (m : Storage) : firstFail (storageChain m) = none ↔ StorageOk m := by
  rw [firstFail_none_iff]
  simp only [storageChain, List.mem_cons, List.not_mem_nil, or_false, forall_eq_or_imp, forall_eq, StorageOk]
  cases m.queueDepthOk <;> cases m.legacy <;> cases m.allowOk <;> cases m.denyOk <;> simp

theorem evaluator_iff (m : Evaluator) : firstFail (evaluatorChain m) = none ↔ EvaluatorOk m := by
  rw [firstFail_none_iff]
  simp only [evaluatorChain, List.mem_cons, List.not_mem_nil, or_false, forall_eq_or_imp, forall_eq, EvaluatorOk]
  cases m.expireOk <;> simp

theorem listener_iff (l : Listener) : firstFail (listenerChain l) = none ↔ ListenerOk l := by
  rw [firstFail_none_iff]
  obtain ⟨addrOk, tls⟩ := l
  unfold listenerChain ListenerOk TlsListenerOk
  cases tls with
  | none => simp
  | some t =>
    obtain ⟨a, b, c, d⟩ := t
    simp only [List.mem_cons, List.not_mem_nil, or_false, forall_eq_or_imp, forall_eq, Option.some.injEq]
    cases addrOk <;> cases a <;> cases b <;> cases c <;> cases d <;> simp

theorem profile_iff (p : Profile) : firstFail (profileChain p) = none ↔ ProfileOk p := by
  rw [firstFail_none_iff]
  obtain ⟨named, known, versionOk, tls⟩ := p
  unfold profileChain ProfileOk TlsProfileOk
  cases tls with
  | none =>
    simp only [List.append_nil, List.mem_cons, List.not_mem_nil, or_false, forall_eq_or_imp, forall_eq]
    cases named <;> cases known <;> cases versionOk <;> simp
  | some t =>
    obtain ⟨a, b, c, d⟩ := t
    simp only [List.cons_append, List.nil_append, List.mem_cons, List.not_mem_nil, or_false, forall_eq_or_imp, forall_eq, Option.some.injEq]
    cases named <;> cases known <;> cases versionOk <;> cases a <;> cases b <;> cases c <;> cases d <;> simp

theorem firstFail_append (a b : Chain) : firstFail (a ++ b) = none ↔ firstFail a = none ∧ firstFail b = none := by
  simp only [firstFail_none_iff, List.mem_append]
  constructor
  · intro h; exact ⟨fun p hp => h p (Or.inl hp), fun p hp => h p (Or.inr hp)⟩
  · rintro ⟨h1, h2⟩ p (hp | hp)
    · exact h1 p hp
    · exact h2 p hp

theorem firstFail_flatMap {α} (f : α → Chain) (l : List α) :
    firstFail (l.flatMap f) = none ↔ ∀ x ∈ l, firstFail (f x) = none := by
  simp only [firstFail_none_iff, List.mem_flatMap]
  constructor
  · intro h x hx p hp; exact h p ⟨x, hx, hp⟩
  · rintro h p ⟨x, hx, hp⟩; exact h x hx p hp

@[simp] theorem firstFail_cons (b : Bool) (c : Check) (l : Chain) : firstFail ((b, c) :: l) = none ↔ b = false ∧ firstFail l = none := by
  cases b <;> simp [firstFail]

@[simp] theorem firstFail_nil : firstFail [] = none := rfl

theorem notifier_iff (m : Notifier) : firstFail (notifierChain m) = none ↔ NotifierOk m := by
  unfold notifierChain NotifierOk
  rw [firstFail_append]
  by_cases h1 : m.cls = "http"
  · simp only [h1, firstFail_cons, firstFail_nil, if_true, beq_self_eq_true]
    simp
    grind
  · by_cases h2 : m.cls = "email"
    · have e1 : (m.cls == "http") = false := by simpa using h1
      simp only [h2, firstFail_cons, firstFail_nil, if_true, beq_self_eq_true]
      simp
      grind
    · have e1 : (m.cls == "http") = false := by simpa using h1
      have e2 : (m.cls == "email") = false := by simpa using h2
      simp only [e1, e2, firstFail_cons, firstFail_nil]
      simp [h1, h2]

theorem cluster_iff (m : Cluster) : firstFail (clusterChain m) = none ↔ ClusterOk m := by
  unfold clusterChain ClusterOk
  rw [firstFail_append, firstFail_append, profile_iff]
  simp only [firstFail_cons, firstFail_nil]
  simp
  grind

theorem consumer_iff (m : Consumer) : firstFail (consumerChain m) = none ↔ ConsumerOk m := by
  unfold consumerChain ConsumerOk
  rw [firstFail_append]
  by_cases h1 : m.cls = "kafka"
  · simp only [h1, firstFail_cons, firstFail_nil, firstFail_append, profile_iff, if_true, beq_self_eq_true]
    simp
    grind
  · by_cases h2 : m.cls = "kafka_zk"
    · simp only [h2, firstFail_cons, firstFail_nil, if_true, beq_self_eq_true]
      simp
      grind
    · have e1 : (m.cls == "kafka") = false := by simpa using h1
      have e2 : (m.cls == "kafka_zk") = false := by simpa using h2
      simp only [e1, e2, firstFail_cons, firstFail_nil]
      simp [h1, h2]

/-- **the configuration phase passes iff every documented requirement holds** -/
theorem configure_none_iff_valid (c : Config) : configure c = none ↔ Valid c := by
  unfold configure chain
  simp only [firstFail_append, firstFail_cons, firstFail_flatMap, storage_iff, evaluator_iff, listener_iff, cluster_iff, consumer_iff]
  constructor
  · rintro ⟨⟨⟨⟨⟨⟨hzk, hs1, hs⟩, he1, he⟩, hl⟩, hn⟩, hcl⟩, hco⟩
    refine ⟨?_, by simpa using hs1, hs, by simpa using he1, he, hl, ?_, hcl, hco⟩
    · intro hh; simp only [hh, if_true] at hzk; exact (zk_iff _).mp hzk
    · intro hh m hm
      simp only [hh, if_true, firstFail_flatMap] at hn
      exact (notifier_iff m).mp (hn m hm)
  · intro v
    refine ⟨⟨⟨⟨⟨⟨?_, by simpa using v.oneStore, v.storage⟩, by simpa using v.oneEval, v.evaluator⟩, v.listeners⟩, ?_⟩, v.clusters⟩, v.consumers⟩
    · by_cases hh : c.haveNotifiers = true
      · simp only [hh, if_true]; exact (zk_iff _).mpr (v.zk hh)
      · simp [hh, firstFail_nil]
    · by_cases hh : c.haveNotifiers = true
      · simp only [hh, if_true, firstFail_flatMap]; exact fun m hm => (notifier_iff m).mpr (v.notifiers hh m hm)
      · simp [hh, firstFail_nil]

/-! ### the refusal site under arbitrary module order -/

theorem chain_eq_segs (c : Config) : chain c = (segs c).flatMap Seg.flat := by
  simp only [chain, segs, Seg.flat, List.flatMap_cons, List.flatMap_nil, List.flatten_nil, List.append_nil,
    List.nil_append, List.flatMap_def, List.append_assoc, List.cons_append]
  cases c.haveNotifiers <;> simp [Seg.flat]

theorem firstFail_append_some {a b : Chain} {x : Check} (h : firstFail (a ++ b) = some x) :
    firstFail a = some x ∨ (firstFail a = none ∧ firstFail b = some x) := by
  induction a with
  | nil => right; exact ⟨rfl, by simpa using h⟩
  | cons p rest ih =>
    obtain ⟨bb, cc⟩ := p
    cases bb with
    | true => left; simpa [firstFail] using h
    | false => simpa [firstFail] using ih (by simpa [firstFail] using h)

theorem firstFail_flatten_some {l : List Chain} {x : Check} (h : firstFail l.flatten = some x) :
    ∃ ch ∈ l, firstFail ch = some x := by
  induction l with
  | nil => simp [firstFail] at h
  | cons a rest ih =>
    simp only [List.flatten_cons] at h
    rcases firstFail_append_some h with h1 | ⟨_, h2⟩
    · exact ⟨a, by simp, h1⟩
    · obtain ⟨ch, hch, hx⟩ := ih h2
      exact ⟨ch, List.mem_cons_of_mem _ hch, hx⟩

theorem firstFail_flatten_none (l : List Chain) : firstFail l.flatten = none ↔ ∀ ch ∈ l, firstFail ch = none := by
  induction l with
  | nil => simp
  | cons a rest ih => simp [List.flatten_cons, firstFail_append, ih]

theorem seg_sites_nil_iff (s : Seg) : s.sites = [] ↔ firstFail s.flat = none := by
  unfold Seg.sites Seg.flat
  rw [firstFail_append, firstFail_flatten_none]
  cases h : firstFail s.pre with
  | some x => simp
  | none =>
    simp only [true_and, List.filterMap_eq_nil_iff]

theorem seg_mem_sites {s : Seg} {x : Check} (h : firstFail s.flat = some x) : x ∈ s.sites := by
  unfold Seg.flat at h
  unfold Seg.sites
  rcases firstFail_append_some h with h1 | ⟨h1, h2⟩
  · simp [h1]
  · simp only [h1]
    obtain ⟨ch, hch, hx⟩ := firstFail_flatten_some h2
    exact List.mem_filterMap.mpr ⟨ch, hch, hx⟩

theorem sitesOf_nil_iff (l : List Seg) : sitesOf l = [] ↔ firstFail (l.flatMap Seg.flat) = none := by
  induction l with
  | nil => simp [sitesOf]
  | cons s rest ih =>
    simp only [sitesOf, List.flatMap_cons, firstFail_append]
    by_cases hs : s.sites.isEmpty = true
    · simp only [hs, if_true, ih]
      have := (seg_sites_nil_iff s).mp (List.isEmpty_iff.mp hs)
      simp [this]
    · simp only [hs, if_false]
      have hne : s.sites ≠ [] := by simpa [List.isEmpty_iff] using hs
      constructor
      · intro h; exact absurd h hne
      · rintro ⟨h, _⟩; exact absurd ((seg_sites_nil_iff s).mpr h) hne

theorem sitesOf_mem {l : List Seg} {x : Check} (h : firstFail (l.flatMap Seg.flat) = some x) : x ∈ sitesOf l := by
  induction l with
  | nil => simp [firstFail] at h
  | cons s rest ih =>
    simp only [List.flatMap_cons] at h
    simp only [sitesOf]
    rcases firstFail_append_some h with h1 | ⟨h1, h2⟩
    · have hm := seg_mem_sites h1
      have : s.sites.isEmpty = false := by
        cases hs : s.sites with
        | nil => rw [hs] at hm; simp at hm
        | cons _ _ => rfl
      simp only [this]; exact hm
    · have : s.sites.isEmpty = true := List.isEmpty_iff.mpr ((seg_sites_nil_iff s).mpr h1)
      simp only [this, if_true]; exact ih h2

/-- whether the configuration is refused does not depend on the order the modules are taken in … -/
theorem configureSites_nil_iff (c : Config) : configureSites c = [] ↔ configure c = none := by
  unfold configureSites configure
  rw [chain_eq_segs]; exact sitesOf_nil_iff _

/-- … and the site named for the listed order is one of the sites a refusal may name -/
theorem configure_mem_sites {c : Config} {x : Check} (h : configure c = some x) : x ∈ configureSites c := by
  unfold configureSites; unfold configure at h
  rw [chain_eq_segs] at h; exact sitesOf_mem h

end Burrow.Config
