/-
  Reminders: inside an incident a module that is not send-once is notified again as soon as an
  evaluation comes more than its send interval after its last open notification.
-/
import BurrowVerif.Proofs.Notifier

namespace Burrow.Proofs.Notifier
open Burrow Burrow.Notifier Burrow.Spec.Notifier

section
variable (cfgs : List ModuleCfg) (hn : NamesNodup cfgs) (cfg : ModuleCfg) (hc : cfg ∈ cfgs)
include hn hc

/-- no notification to the module at an evaluation: its entry stays what it was -/
theorem keep_entry (g : GroupRec) (e : Ev)
    (hno : ∀ n ∈ (stepG cfgs g e).2, n.module ≠ cfg.name) :
    lookupT cfg.name (stepG cfgs g e).1.lastNotify = lookupT cfg.name (pre g e).lastNotify := by
  rw [(stepG_module cfgs hn g e cfg hc).2]
  split
  · rename_i hacc
    apply nmL_none
    cases hnm : (nmL cfg (lookupT cfg.name (pre g e).lastNotify) e.status e.now (pre g e).start (pre g e).id).2 with
    | none => rfl
    | some n =>
      have := (stepG_module_mem cfgs hn g e cfg hc n).mpr ⟨hacc, hnm⟩
      exact absurd this.2 (hno n this.1)
  · rfl

/-- after an open notification at evaluation `i`, while the incident lasts and the module is not
    notified, its entry holds the time of evaluation `i` -/
theorem entry_since (evs : List Ev) (i : Nat) (ei : Ev) (hei : evs[i]? = some ei) (ni : Notification)
    (hi : ni ∈ notesAt cfgs evs i) (hmi : ni.module = cfg.name) (hoi : ni.close = false) :
    ∀ d : Nat, AllBad evs i (i + 1 + d) → (∃ e, evs[i + d]? = some e) →
      (∀ k, i < k → k < i + 1 + d → ∀ n ∈ notesAt cfgs evs k, n.module ≠ cfg.name) →
      lookupT cfg.name (R cfgs evs (i + 1 + d)).lastNotify = some ei.now := by
  rw [notesAt_eq cfgs evs i ei hei] at hi
  intro d
  induction d with
  | zero =>
    intro _ _ _
    show lookupT cfg.name (recAt cfgs GroupRec.fresh evs (i + 1)).lastNotify = _
    rw [recAt_succ cfgs _ evs i ei hei]
    exact open_sets cfgs hn cfg hc _ ei ni hi hmi hoi
  | succ d ih =>
    intro hbad hex hnone
    obtain ⟨e', he'⟩ := hex
    have he'' : evs[i + 1 + d]? = some e' := by
      rw [← he']; congr 1; omega
    obtain ⟨ep, hep⟩ := getElem?_some_of_lt he' (by omega : i + d ≤ i + (d + 1))
    have hbp : ep.status > .ok := hbad (i + d) ep (by omega) (by omega) hep
    have hl := ih (fun k e h1 h2 h3 => hbad k e h1 (by omega) h3) ⟨ep, hep⟩
      (fun k h1 h2 => hnone k h1 (by omega))
    have hs : (R cfgs evs (i + 1 + d)).start.isSome := by
      have := R_succ_start_isSome cfgs evs (i + d) ep hep hbp
      rw [show i + d + 1 = i + 1 + d by omega] at this
      exact this
    have hR : R cfgs evs (i + 1 + (d + 1)) = (stepG cfgs (R cfgs evs (i + 1 + d)) e').1 :=
      recAt_succ cfgs _ evs (i + 1 + d) e' he''
    rw [hR, keep_entry cfgs hn cfg hc _ e', pre_of_isSome _ e' hs]
    · exact hl
    · have := hnone (i + 1 + d) (by omega) (by omega)
      rw [notesAt_eq cfgs evs (i + 1 + d) e' he''] at this
      exact this

end

/-- **reminders are not swallowed**: inside an incident, if a module that is not send-once got an open
    notification at evaluation `i`, nothing since, and evaluation `j` comes more than its send interval
    later with the status at or above its threshold and the group accepted, then `j` notifies it -/
theorem reminder_when_interval_elapsed (cfgs : List ModuleCfg) (hn : NamesNodup cfgs) (evs : List Ev)
    (i j : Nat) (hij : i < j) (hbad : AllBad evs i (j + 1))
    (ei ej : Ev) (hei : evs[i]? = some ei) (hej : evs[j]? = some ej)
    (cfg : ModuleCfg) (hc : cfg ∈ cfgs) (honce : cfg.sendOnce = false) (ni : Notification)
    (hi : ni ∈ notesAt cfgs evs i) (hmi : ni.module = cfg.name) (hoi : ni.close = false)
    (hnone : ∀ k, i < k → k < j → ∀ n ∈ notesAt cfgs evs k, n.module ≠ cfg.name)
    (hacc : ej.acc cfg.name = true) (hthr : cfg.threshold ≤ (ej.status.toNat : Int))
    (hdue : ej.now - ei.now > cfg.sendInterval * 1000) :
    ∃ n ∈ notesAt cfgs evs j, n.module = cfg.name ∧ n.close = false ∧ n.status = ej.status := by
  obtain ⟨d, rfl⟩ : ∃ d, j = i + 1 + d := ⟨j - (i + 1), by omega⟩
  obtain ⟨ep, hep⟩ := getElem?_some_of_lt hej (by omega : i + d ≤ i + 1 + d)
  have hbp : ep.status > .ok := hbad (i + d) ep (by omega) (by omega) hep
  have hbj : ej.status > .ok := hbad (i + 1 + d) ej (by omega) (by omega) hej
  have hl := entry_since cfgs hn cfg hc evs i ei hei ni hi hmi hoi d
    (fun k e h1 h2 h3 => hbad k e h1 (by omega) h3) ⟨ep, hep⟩ hnone
  have hs : (R cfgs evs (i + 1 + d)).start.isSome := by
    have := R_succ_start_isSome cfgs evs (i + d) ep hep hbp
    rw [show i + d + 1 = i + 1 + d by omega] at this
    exact this
  rw [notesAt_eq cfgs evs (i + 1 + d) ej hej]
  have h1 : ¬ ((pre (R cfgs evs (i + 1 + d)) ej).start.isSome ∧ ej.status = .ok ∧ cfg.sendClose = true) :=
    fun h => ne_ok_of_gt_ok hbj h.2.1
  have h2 : ¬ ((ej.status.toNat : Int) < cfg.threshold) := by omega
  have h3 : ¬ ((lookupT cfg.name (pre (R cfgs evs (i + 1 + d)) ej).lastNotify).isSome ∧ cfg.sendOnce = true) := by
    simp [honce]
  have hd : ∀ t, lookupT cfg.name (pre (R cfgs evs (i + 1 + d)) ej).lastNotify = some t →
      ej.now - t > cfg.sendInterval * 1000 := by
    intro t ht
    rw [pre_of_isSome _ ej hs, hl] at ht
    cases ht
    exact hdue
  have hnm := nmL_eq_due (id := (pre (R cfgs evs (i + 1 + d)) ej).id) h1 h2 h3 hd
  have := (stepG_module_mem cfgs hn (R cfgs evs (i + 1 + d)) ej cfg hc _).mpr ⟨hacc, by rw [hnm]⟩
  exact ⟨_, this.1, rfl, rfl, rfl⟩

end Burrow.Proofs.Notifier
