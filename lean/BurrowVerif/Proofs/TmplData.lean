/-
  The evaluator model's results inhabit the (refined) schema generated from the Go types:
  the link between `Model.Group` / `Model.Eval` and the template universe of `Model.Tmpl`.
-/
import BurrowVerif.Proofs.Tmpl
import BurrowVerif.Spec.Tmpl
import BurrowVerif.Generated.Templates

namespace Burrow.Proofs.TmplData
open Burrow Burrow.Tmpl Burrow.Spec.Tmpl Burrow.Generated

abbrev σr : Schema := refine dataSchema

theorem lagTy (l : Option Nat) :
    HasTy σr (match l with | none => Val.nil | some l => .ref (.obj "Lag" [("Value", .uint l)])) (.ptr (.named "Lag")) := by
  cases l with
  | none => exact .nil _
  | some l =>
    refine .ptr (HasTy.ofFields (d := { tag := "Lag", fields := [("Value", .uint)], methods := ["MarshalJSON", "UnmarshalJSON"] }) (by decide) ?_)
    exact .cons (.uint _) .nil

theorem commitObjTy (o : Opaque) (c : Commit) :
    HasTy σr (.obj "ConsumerOffset" [("Offset", .int 64 c.offset), ("Order", .int 64 c.order), ("Timestamp", .int 64 c.ts),
      ("ObservedTimestamp", .int 64 (o.obs c)),
      ("Lag", match c.lag with | none => .nil | some l => .ref (.obj "Lag" [("Value", .uint l)]))]) (.named "ConsumerOffset") := by
  refine HasTy.ofFields (d := { tag := "ConsumerOffset", fields := [("Offset", .int 64), ("Order", .int 64), ("Timestamp", .int 64),
    ("ObservedTimestamp", .int 64), ("Lag", .ptr (.named "Lag"))], methods := [] }) (by decide) ?_
  exact .cons (.int _ _) (.cons (.int _ _) (.cons (.int _ _) (.cons (.int _ _) (.cons (lagTy _) .nil))))

theorem commitPtrTy (o : Opaque) (c : Option Commit) : HasTy σr (commitVal o c) (.ptr (.named "ConsumerOffset")) := by
  cases c with
  | none => exact .nil _
  | some c => exact .ptr (commitObjTy o c)

theorem commitRefTy (o : Opaque) (c : Option Commit) (h : c.isSome) : HasTy σr (commitVal o c) (.ref (.named "ConsumerOffset")) := by
  cases c with
  | none => simp at h
  | some c => exact .ref (commitObjTy o c)

/-- any partition status is a Go `*PartitionStatus` -/
theorem partPtrTy (o : Opaque) (p : Group.PStat) : HasTy σr (partVal o p) (.ptr (.named "PartitionStatus")) := by
  refine .ptr (HasTy.ofFields (d := { tag := "PartitionStatus", fields := [("Topic", .str), ("Partition", .int 32), ("Owner", .str),
    ("ClientID", .str), ("Status", .status), ("Start", .ptr (.named "ConsumerOffset")), ("End", .ptr (.named "ConsumerOffset")),
    ("CurrentLag", .uint), ("Complete", .float)], methods := [] }) (by decide) ?_)
  exact .cons (.str _) (.cons (.int _ _) (.cons (.str _) (.cons (.str _) (.cons (.status _)
    (.cons (commitPtrTy o _) (.cons (commitPtrTy o _) (.cons (.uint _) (.cons (.float _) .nil))))))))

/-- a partition status with a first and a last commit meets the refinement for listed partitions -/
theorem partProblemTy (o : Opaque) (p : Group.PStat) (h : p.st.start.isSome ∧ p.st.end.isSome) :
    HasTy σr (partVal o p) (.ref (.named "ProblemPartition")) := by
  refine .ref (HasTy.ofFields (d := { tag := "PartitionStatus", fields := [("Topic", .str), ("Partition", .int 32), ("Owner", .str),
    ("ClientID", .str), ("Status", .status), ("Start", .ref (.named "ConsumerOffset")), ("End", .ref (.named "ConsumerOffset")),
    ("CurrentLag", .uint), ("Complete", .float)], methods := [] }) (by decide) ?_)
  exact .cons (.str _) (.cons (.int _ _) (.cons (.str _) (.cons (.str _) (.cons (.status _)
    (.cons (commitRefTy o _ h.1) (.cons (commitRefTy o _ h.2) (.cons (.uint _) (.cons (.float _) .nil))))))))

theorem resultTy (o : Opaque) (cluster group : String) (g : Group.GroupStatus) (h : ProblemsHaveEnds g) :
    HasTy σr (resultVal o cluster group g) (.named "ConsumerGroupStatus") := by
  refine HasTy.ofFields (d := { tag := "ConsumerGroupStatus", fields := [("Cluster", .str), ("Group", .str), ("Status", .status),
    ("Complete", .float), ("Partitions", .slice (.ref (.named "ProblemPartition"))), ("TotalPartitions", .int 0),
    ("Maxlag", .ptr (.named "PartitionStatus")), ("TotalLag", .uint)], methods := [] }) (by decide) ?_
  refine .cons (.str _) (.cons (.str _) (.cons (.status _) (.cons (.float _) (.cons (.slice ?_) (.cons (.int _ _) (.cons ?_ (.cons (.uint _) .nil)))))))
  · intro v hv
    simp only [List.mem_map] at hv
    obtain ⟨p, hp, rfl⟩ := hv
    exact partProblemTy o p (h p hp)
  · cases g.maxlag with
    | none => exact .nil _
    | some p => exact partPtrTy o p

/-- **Every notification built around an evaluation result inhabits the schema generated from the
    Go types, refined by the status invariant.** -/
theorem dataTy (o : Opaque) (n : Notification) (h : ProblemsHaveEnds n.result) :
    HasTy σr (dataVal o n) dataType := by
  refine HasTy.ofFields (d := { tag := "Data", fields := [("Cluster", .str), ("Group", .str), ("ID", .str), ("Start", .time),
    ("Extras", .mapSS), ("Result", .named "ConsumerGroupStatus")], methods := [] }) (by decide) ?_
  exact .cons (.str _) (.cons (.str _) (.cons (.str _) (.cons (.time _) (.cons (.map _) (.cons (resultTy o _ _ _ h) .nil)))))

end Burrow.Proofs.TmplData

namespace Burrow.Proofs.TmplData
open Burrow Burrow.Eval

theorem mapM_id_all_some {α} : ∀ {l : List (Option α)} {w : List α}, l.mapM id = some w → ∀ x ∈ l, x.isSome := by
  intro l
  induction l with
  | nil => intro w _ x hx; simp at hx
  | cons a as ih =>
    intro w h x hx
    cases a with
    | none => simp [List.mapM_cons] at h
    | some a' =>
      simp only [List.mapM_cons, id, Option.bind_eq_bind, Option.pure_def, Option.bind_some] at h
      cases h2 : as.mapM id with
      | none => simp [h2] at h
      | some w' =>
        rcases List.mem_cons.mp hx with rfl | hx'
        · rfl
        · exact ih h2 x hx'

theorem ends_of_all_some {offs : List (Option Commit)} {w : List Commit} (hne : ¬ offs.length = 0)
    (hw : offs.mapM id = some w) : (offs.head?.join).isSome ∧ (offs.getLast?.join).isSome := by
  have hall := mapM_id_all_some hw
  constructor
  · cases hh : offs.head? with
    | none => simp [List.head?_eq_none_iff] at hh; simp [hh] at hne
    | some x =>
      have hx : x ∈ offs := List.mem_of_mem_head? hh
      have := hall x hx
      cases x with
      | none => simp at this
      | some c => simp
  · cases hh : offs.getLast? with
    | none => simp [List.getLast?_eq_none_iff] at hh; simp [hh] at hne
    | some x =>
      have hx : x ∈ offs := List.mem_of_getLast? hh
      have := hall x hx
      cases x with
      | none => simp at this
      | some c => simp

theorem problem_partition_has_ends (p : Partition) (meets : Nat → Nat → Bool) (now : Int) (allowed : Nat)
    (st : PartStatus) (h : evaluatePartition p meets now allowed = some st) (hbad : st.status ≠ .ok) :
    st.start.isSome ∧ st.end.isSome := by
  unfold evaluatePartition at h
  split at h
  · cases h; exact absurd rfl hbad
  · dsimp only at h
    split at h
    · cases h; exact absurd rfl hbad
    · rename_i hlen
      split at h
      · split at h
        · split at h
          · cases h
          · rename_i w hw
            split at h
            · cases h
            · cases h
              exact ends_of_all_some hlen hw
        · cases h; exact absurd rfl hbad
      · cases h; exact absurd rfl hbad

theorem evalTopic_has_ends (meets : Nat → Nat → Bool) (now : Int) (allowed : Nat) (topic : String) :
    ∀ (parts : List Partition) (i : Nat) (out : List Group.PStat),
      Group.evalTopic meets now allowed topic i parts = some out →
      ∀ q ∈ out, q.st.status ≠ .ok → q.st.start.isSome ∧ q.st.end.isSome := by
  intro parts
  induction parts with
  | nil => intro i out h q hq; simp [Group.evalTopic] at h; subst h; simp at hq
  | cons p rest ih =>
    intro i out h q hq hbad
    simp only [Group.evalTopic] at h
    cases h1 : evaluatePartition p meets now allowed with
    | none => simp [h1] at h
    | some st =>
      cases h2 : Group.evalTopic meets now allowed topic (i + 1) rest with
      | none => simp [h1, h2] at h
      | some more =>
        simp [h1, h2] at h
        subst h
        rcases List.mem_cons.mp hq with rfl | hq'
        · exact problem_partition_has_ends p meets now allowed st h1 hbad
        · exact ih (i + 1) more h2 q hq' hbad

theorem evalTopics_has_ends (meets : Nat → Nat → Bool) (now : Int) (allowed : Nat) :
    ∀ (topics : List (String × List Partition)) (out : List Group.PStat),
      Group.evalTopics meets now allowed topics = some out →
      ∀ q ∈ out, q.st.status ≠ .ok → q.st.start.isSome ∧ q.st.end.isSome := by
  intro topics
  induction topics with
  | nil => intro out h q hq; simp [Group.evalTopics] at h; subst h; simp at hq
  | cons tp rest ih =>
    intro out h q hq hbad
    obtain ⟨t, parts⟩ := tp
    simp only [Group.evalTopics] at h
    cases h1 : Group.evalTopic meets now allowed t 0 parts with
    | none => simp [h1] at h
    | some a =>
      cases h2 : Group.evalTopics meets now allowed rest with
      | none => simp [h1, h2] at h
      | some b =>
        simp [h1, h2] at h
        subst h
        rcases List.mem_append.mp hq with hq' | hq'
        · exact evalTopic_has_ends meets now allowed t parts 0 a h1 q hq' hbad
        · exact ih b h2 q hq' hbad

theorem filterView_has_ends (meets : Nat → Nat → Bool) (now : Int) (allowed : Nat)
    (topics : List (String × List Partition)) (g : Group.GroupStatus)
    (h : Group.evaluateGroup meets now allowed topics = some g) :
    Spec.Tmpl.ProblemsHaveEnds (Group.filterView g) := by
  unfold Group.evaluateGroup at h
  cases h1 : Group.evalTopics meets now allowed topics with
  | none => simp [h1] at h
  | some ps =>
    simp [h1] at h
    subst h
    intro q hq
    simp only [Group.filterView, Group.aggregate, List.mem_filter] at hq
    obtain ⟨hq1, hq2⟩ := hq
    apply evalTopics_has_ends meets now allowed topics ps h1 q hq1
    intro heq
    rw [heq] at hq2
    simp at hq2
    exact absurd hq2 (by decide)

end Burrow.Proofs.TmplData
