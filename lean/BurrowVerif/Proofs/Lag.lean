/-
  C01 — lag lemmas: the clamp-and-subtract arithmetic, the fetch-time lag pass, and where stored
  lag values come from (through `RefineStep` and the list-level step).
-/
import BurrowVerif.Proofs.Window

namespace Burrow.Proofs.Lag
open Burrow Burrow.Storage Burrow.Spec.Window Burrow.Proofs.WindowSpec

/-! ### arithmetic -/

theorem u64_wrap_sub (b o : Int) (hb : 0 ≤ b) (ho : 0 ≤ o) (hb64 : I64 b) (ho64 : I64 o)
    (h : o ≤ b) :
    toU64 (wrap64 (b - o)) = (b - o).toNat ∧ toU64 (wrap64 (b - o)) < 2 ^ 63 := by
  have h63 : (2:Int)^63 = 9223372036854775808 := by decide
  have h64 : (2:Int)^64 = 18446744073709551616 := by decide
  have hn63 : (2:Nat)^63 = 9223372036854775808 := by decide
  unfold I64 at hb64 ho64
  unfold toU64 wrap64
  rw [h63] at hb64 ho64
  rw [h63, h64, hn63]
  omega

theorem lagAt_exact (b o : Int) (hb : 0 ≤ b) (ho : 0 ≤ o) (hb64 : I64 b) (ho64 : I64 o) :
    lagAt b o = (b - o).toNat ∧ lagAt b o < 2 ^ 63 := by
  unfold lagAt
  split
  · exact u64_wrap_sub b o hb ho hb64 ho64 (by omega)
  · constructor
    · omega
    · exact Nat.two_pow_pos 63

/-! ### the broker ring read-out -/

theorem get_len {α : Type} (r : Ring α) : r.get r.len = r.get 0 := by
  unfold Ring.get
  rw [Nat.add_mod_right, Nat.add_zero]

theorem readoutNext_getLast {α : Type} (r : Ring α) (b : α) (hlen : 0 < r.len)
    (hb : r.get 0 = some b) : r.readoutNext.getLast? = some b := by
  unfold Ring.readoutNext
  obtain ⟨n, hn⟩ : ∃ n, r.len = n + 1 := ⟨r.len - 1, by omega⟩
  have hg : r.get (n + 1) = some b := by rw [← hn, get_len, hb]
  rw [hn, List.range_succ, List.filterMap_append]
  simp [hg]

/-! ### fetch time -/

theorem currentLag_exact (topicMap : List (Ring BrokerOffset)) (p : Nat) (part part' : Eval.Partition)
    (bring : Ring BrokerOffset) (b : BrokerOffset) (c : Commit)
    (hring : topicMap[p]? = some bring) (hlen : 0 < bring.len) (hb : bring.get 0 = some b)
    (hc : part.offsets.getLast? = some (some c))
    (hb0 : 0 ≤ b.offset) (hc0 : 0 ≤ c.offset) (hb64 : I64 b.offset) (hc64 : I64 c.offset)
    (hpass : lagPass topicMap p part = some part') :
    part'.currentLag = (b.offset - c.offset).toNat ∧ part'.currentLag < 2 ^ 63 ∧
    part'.offsets = part.offsets := by
  have hbos : (bring.readoutNext.map (·.offset)).getLast? = some b.offset := by
    rw [List.getLast?_map, readoutNext_getLast bring b hlen hb]; rfl
  have hpos : part.offsets.length > 0 := by
    cases h : part.offsets with
    | nil => rw [h] at hc; simp at hc
    | cons a t => simp
  have hj : part.offsets.getLast?.join = some c := by rw [hc]; rfl
  unfold lagPass at hpass
  rw [hring] at hpass
  simp only [] at hpass
  rw [if_neg (by omega), if_pos hpos, hbos] at hpass
  simp only [] at hpass
  rw [hj] at hpass
  simp only [] at hpass
  have := Option.some.inj hpass
  subst this
  simp only []
  refine ⟨?_, ?_, trivial⟩
  · split
    · omega
    · exact (u64_wrap_sub b.offset c.offset hb0 hc0 hb64 hc64 (by omega)).1
  · split
    · exact Nat.two_pow_pos 63
    · exact (u64_wrap_sub b.offset c.offset hb0 hc0 hb64 hc64 (by omega)).2

theorem no_commit_zero (topicMap : List (Ring BrokerOffset)) (p : Nat) (part part' : Eval.Partition)
    (h0 : part.currentLag = 0) (hc : part.offsets.getLast?.join = none)
    (hpass : lagPass topicMap p part = some part') : part'.currentLag = 0 := by
  unfold lagPass at hpass
  rw [hc] at hpass
  split at hpass
  · have := Option.some.inj hpass
    subst this
    exact h0
  · simp only [] at hpass
    split at hpass
    · simp at hpass
    · split at hpass
      · split at hpass
        · have := Option.some.inj hpass
          subst this
          exact h0
        · have := Option.some.inj hpass
          subst this
          exact h0
      · have := Option.some.inj hpass
        subst this
        exact h0

theorem getBrokerOffset_newest (cm : Cluster) (topic : String) (partition : Int) (off : Int) (n : Nat)
    (h : getBrokerOffset cm topic partition = (off, n)) (hn : n ≠ 0) :
    ∃ l ring b, alookup topic cm.broker = some l ∧ 0 ≤ partition ∧ l[partition.toNat]? = some ring ∧
      ring.get 0 = some b ∧ off = b.offset ∧ n = l.length := by
  unfold getBrokerOffset at h
  split at h
  · simp at h; omega
  · next l hl =>
    split at h
    · simp at h; omega
    · split at h
      · simp at h; omega
      · split at h
        · simp at h; omega
        · next ring hring =>
          split at h
          · simp at h; omega
          · next b hb =>
            simp at h
            exact ⟨l, ring, b, hl, by omega, hring, hb, h.1.symm, h.2.symm⟩

/-! ### where stored lag values come from -/

theorem commitLag_at_arrival (H : RefineStep) (N : Nat) (hN : 1 ≤ N) (md : Int) (r r' : Ring Commit)
    (c : In) (hlen : r.len = N) (hwf : WF N r.readout) (hstep : stepRing md r c = some r') :
    ∀ q ∈ stored r'.readout, q ∈ stored r.readout ∨
      (q.order = c.order ∧ q.offset = c.offset ∧
        q.lag = if (∀ o ∈ stored r.readout, o.order < c.order) then some (lagAt c.broker c.offset)
                else none) := by
  rw [(Window.step_eq H N hN md r r' c hlen hwf hstep).2]
  exact mem_stored_specStep hN md _ c hwf

theorem storedLag_has_origin (H : RefineStep) (N : Nat) (hN : 1 ≤ N) (md : Int) (cs : List In)
    (r : Ring Commit) (hr : runRing N md cs = some r) :
    ∀ q ∈ stored r.readout, ∀ l, q.lag = some l →
      ∃ c ∈ cs, c.order = q.order ∧ c.offset = q.offset ∧ l = lagAt c.broker c.offset := by
  refine (Window.run_invariant' H N hN md
    (fun seen w => ∀ q ∈ stored w, ∀ l, q.lag = some l →
      ∃ c ∈ seen, c.order = q.order ∧ c.offset = q.offset ∧ l = lagAt c.broker c.offset)
    (by simp [stored]) ?_ cs r hr).2.2
  intro seen w c hwf hinv q hq l hl
  rcases mem_stored_specStep hN md w c hwf q hq with h | ⟨h1, h2, h3⟩
  · obtain ⟨s, hs, hh⟩ := hinv q h l hl
    exact ⟨s, by simp [hs], hh⟩
  · refine ⟨c, by simp, h1.symm, h2.symm, ?_⟩
    rw [h3] at hl
    split at hl
    · exact (Option.some.inj hl).symm
    · simp at hl

end Burrow.Proofs.Lag
