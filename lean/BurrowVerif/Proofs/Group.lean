/-
  Helper lemmas for C04: the group-level aggregation (`Model/Group.lean`) is a faithful aggregate
  of the per-partition results.  `aggregate` is three independent folds; each is characterised by a
  lemma generalised over the accumulator.
-/
import BurrowVerif.Model.Group
import BurrowVerif.Proofs.Eval

namespace Burrow.Proofs.Group
open Burrow Burrow.Eval Burrow.Group

/-! ### The status fold -/

/-- the status fold of `aggregate`, with an arbitrary accumulator -/
def statusFold (acc : Status) (ps : List PStat) : Status :=
  ps.foldl (fun acc p => capStatus acc p.st.status) acc

theorem aggregate_status (ps : List PStat) : (aggregate ps).status = statusFold .ok ps := rfl

theorem statusFold_nil (acc : Status) : statusFold acc [] = acc := rfl

theorem statusFold_cons (acc : Status) (p : PStat) (ps : List PStat) :
    statusFold acc (p :: ps) = statusFold (capStatus acc p.st.status) ps := rfl

/-- the accumulator only ever holds OK, WARN or ERR -/
def Capped (s : Status) : Prop := s = .ok ∨ s = .warn ∨ s = .err

theorem capStatus_capped (acc s : Status) (h : Capped acc) : Capped (capStatus acc s) := by
  rcases h with h | h | h <;> subst h <;> cases s <;> simp [Capped, capStatus] <;> decide

theorem capStatus_eq_ok_iff (acc s : Status) (h : Capped acc) :
    capStatus acc s = .ok ↔ acc = .ok ∧ s ≤ .ok := by
  rcases h with h | h | h <;> subst h <;> cases s <;> decide

theorem capStatus_eq_warn_iff (acc s : Status) (h : Capped acc) :
    capStatus acc s = .warn ↔ (acc = .warn ∨ s = .warn) ∧ acc ≤ .warn ∧ s ≤ .warn := by
  rcases h with h | h | h <;> subst h <;> cases s <;> decide

theorem capStatus_eq_err_iff (acc s : Status) (h : Capped acc) :
    capStatus acc s = .err ↔ acc = .err ∨ s > .warn := by
  rcases h with h | h | h <;> subst h <;> cases s <;> decide

theorem statusFold_capped (acc : Status) (ps : List PStat) (h : Capped acc) :
    Capped (statusFold acc ps) := by
  induction ps generalizing acc with
  | nil => exact h
  | cons p ps ih => exact ih _ (capStatus_capped acc p.st.status h)

theorem statusFold_eq_ok_iff (acc : Status) (ps : List PStat) (h : Capped acc) :
    statusFold acc ps = .ok ↔ acc = .ok ∧ ∀ p ∈ ps, p.st.status ≤ .ok := by
  induction ps generalizing acc with
  | nil => simp [statusFold_nil]
  | cons p ps ih =>
    rw [statusFold_cons, ih _ (capStatus_capped acc p.st.status h), capStatus_eq_ok_iff acc _ h]
    simp only [List.mem_cons, forall_eq_or_imp]
    constructor
    · rintro ⟨⟨a, b⟩, c⟩; exact ⟨a, b, c⟩
    · rintro ⟨a, b, c⟩; exact ⟨⟨a, b⟩, c⟩

theorem statusFold_eq_warn_iff (acc : Status) (ps : List PStat) (h : Capped acc) :
    statusFold acc ps = .warn ↔
      (acc = .warn ∨ ∃ p ∈ ps, p.st.status = .warn) ∧ acc ≤ .warn ∧ ∀ p ∈ ps, p.st.status ≤ .warn := by
  induction ps generalizing acc with
  | nil => simp only [statusFold_nil, List.not_mem_nil, false_and, exists_false, or_false,
      false_imp_iff, implies_true, and_true]
           constructor
           · intro e; subst e; exact ⟨rfl, by decide⟩
           · exact fun e => e.1
  | cons p ps ih =>
    rw [statusFold_cons, ih _ (capStatus_capped acc p.st.status h)]
    simp only [List.mem_cons, forall_eq_or_imp, exists_eq_or_imp]
    have hc := capStatus_eq_warn_iff acc p.st.status h
    have hle : capStatus acc p.st.status ≤ .warn ↔ acc ≤ .warn ∧ p.st.status ≤ .warn := by
      generalize p.st.status = s
      rcases h with h | h | h <;> subst h <;> cases s <;> decide
    rw [hle]
    constructor
    · rintro ⟨h1, ⟨h2, h3⟩, h4⟩
      refine ⟨?_, h2, h3, h4⟩
      rcases h1 with h1 | h1
      · rcases (hc.1 h1).1 with e | e
        · exact Or.inl e
        · exact Or.inr (Or.inl e)
      · exact Or.inr (Or.inr h1)
    · rintro ⟨h1, h2, h3, h4⟩
      refine ⟨?_, ⟨h2, h3⟩, h4⟩
      rcases h1 with h1 | h1 | h1
      · exact Or.inl (hc.2 ⟨Or.inl h1, h2, h3⟩)
      · exact Or.inl (hc.2 ⟨Or.inr h1, h2, h3⟩)
      · exact Or.inr h1

theorem statusFold_eq_err_iff (acc : Status) (ps : List PStat) (h : Capped acc) :
    statusFold acc ps = .err ↔ acc = .err ∨ ∃ p ∈ ps, p.st.status > .warn := by
  induction ps generalizing acc with
  | nil => simp [statusFold_nil]
  | cons p ps ih =>
    rw [statusFold_cons, ih _ (capStatus_capped acc p.st.status h), capStatus_eq_err_iff acc _ h]
    simp only [List.mem_cons, exists_eq_or_imp]
    exact or_assoc

theorem capped_ok : Capped .ok := Or.inl rfl

theorem status_ok_iff (ps : List PStat) (h : ∀ p ∈ ps, p.st.status ≥ .ok) :
    (aggregate ps).status = .ok ↔ ∀ p ∈ ps, p.st.status = .ok := by
  rw [aggregate_status, statusFold_eq_ok_iff _ _ capped_ok]
  constructor
  · rintro ⟨-, hall⟩ p hp
    have h1 := hall p hp
    have h2 := h p hp
    apply Status.toNat_injective
    exact Nat.le_antisymm h1 h2
  · intro hall
    refine ⟨rfl, fun p hp => ?_⟩
    rw [hall p hp]
    decide

theorem status_warn_iff (ps : List PStat) (_h : ∀ p ∈ ps, p.st.status ≥ .ok) :
    (aggregate ps).status = .warn ↔
      (∃ p ∈ ps, p.st.status = .warn) ∧ ∀ p ∈ ps, p.st.status ≤ .warn := by
  rw [aggregate_status, statusFold_eq_warn_iff _ _ capped_ok]
  constructor
  · rintro ⟨h1, -, h3⟩
    refine ⟨?_, h3⟩
    rcases h1 with h1 | h1
    · exact absurd h1 (by decide)
    · exact h1
  · rintro ⟨h1, h2⟩
    exact ⟨Or.inr h1, by decide, h2⟩

theorem status_err_iff (ps : List PStat) (_h : ∀ p ∈ ps, p.st.status ≥ .ok) :
    (aggregate ps).status = .err ↔ ∃ p ∈ ps, p.st.status > .warn := by
  rw [aggregate_status, statusFold_eq_err_iff _ _ capped_ok]
  constructor
  · rintro (h1 | h1)
    · exact absurd h1 (by decide)
    · exact h1
  · exact Or.inr

theorem status_is_ok_warn_or_err (ps : List PStat) (_h : ∀ p ∈ ps, p.st.status ≥ .ok) :
    (aggregate ps).status = .ok ∨ (aggregate ps).status = .warn ∨ (aggregate ps).status = .err :=
  statusFold_capped .ok ps capped_ok

/-- the cap is right-commutative: the status fold does not depend on the iteration order -/
theorem capStatus_right_comm (a x y : Status) :
    capStatus (capStatus a x) y = capStatus (capStatus a y) x := by
  cases a <;> cases x <;> cases y <;> decide

theorem statusFold_perm (acc : Status) (ps ps' : List PStat) (h : ps.Perm ps') :
    statusFold acc ps = statusFold acc ps' :=
  List.Perm.foldl_eq' h (fun x _ y _ z => capStatus_right_comm z x.st.status y.st.status) acc

/-! ### Total lag -/

theorem foldl_add_eq_sum (l : List Nat) (a : Nat) : l.foldl (· + ·) a = a + l.sum := by
  induction l generalizing a with
  | nil => simp
  | cons x xs ih => simp only [List.foldl_cons, List.sum_cons, ih]; omega

theorem totalLag_sum (ps : List PStat) :
    (aggregate ps).totalLag = (ps.map fun p => p.st.currentLag).sum % 2 ^ 64 := by
  show wrapU64 ((ps.map fun p => p.st.currentLag).foldl (· + ·) 0) = _
  rw [foldl_add_eq_sum, Nat.zero_add]
  rfl

theorem totalLag_exact (ps : List PStat) (h : (ps.map fun p => p.st.currentLag).sum < 2 ^ 64) :
    (aggregate ps).totalLag = (ps.map fun p => p.st.currentLag).sum := by
  rw [totalLag_sum, Nat.mod_eq_of_lt h]

/-! ### Max-lag -/

theorem aggregate_maxlag (ps : List PStat) : (aggregate ps).maxlag = ps.foldl updMaxlag none := rfl

theorem updMaxlag_ne_none (acc : Option PStat) (p : PStat) : updMaxlag acc p ≠ none := by
  unfold updMaxlag
  cases acc with
  | none => simp
  | some m => dsimp only; split <;> simp

theorem foldl_updMaxlag_eq_none_iff (acc : Option PStat) (ps : List PStat) :
    ps.foldl updMaxlag acc = none ↔ acc = none ∧ ps = [] := by
  induction ps generalizing acc with
  | nil => simp
  | cons p ps ih =>
    rw [List.foldl_cons, ih]
    simp [updMaxlag_ne_none]

theorem maxlag_none_iff (ps : List PStat) : (aggregate ps).maxlag = none ↔ ps = [] := by
  rw [aggregate_maxlag, foldl_updMaxlag_eq_none_iff]
  simp

theorem foldl_updMaxlag_some (acc : Option PStat) (ps : List PStat) (m : PStat)
    (h : ps.foldl updMaxlag acc = some m) :
    (acc = some m ∨ m ∈ ps) ∧ (∀ a, acc = some a → a.st.currentLag ≤ m.st.currentLag) ∧
      ∀ p ∈ ps, p.st.currentLag ≤ m.st.currentLag := by
  induction ps generalizing acc with
  | nil =>
    simp only [List.foldl_nil] at h
    subst h
    refine ⟨Or.inl rfl, ?_, by simp⟩
    intro a ha; cases ha; exact Nat.le_refl _
  | cons p ps ih =>
    rw [List.foldl_cons] at h
    obtain ⟨h1, h2, h3⟩ := ih _ h
    cases acc with
    | none =>
      have e : updMaxlag none p = some p := rfl
      rw [e] at h1 h2
      refine ⟨Or.inr ?_, by simp, ?_⟩
      · rcases h1 with h1 | h1
        · cases h1; exact List.mem_cons_self
        · exact List.mem_cons_of_mem _ h1
      · intro q hq
        rcases List.mem_cons.1 hq with rfl | hq
        · exact h2 _ rfl
        · exact h3 q hq
    | some a =>
      by_cases hgt : p.st.currentLag > a.st.currentLag
      · have e : updMaxlag (some a) p = some p := by simp [updMaxlag, hgt]
        rw [e] at h1 h2
        have hp := h2 p rfl
        refine ⟨Or.inr ?_, ?_, ?_⟩
        · rcases h1 with h1 | h1
          · cases h1; exact List.mem_cons_self
          · exact List.mem_cons_of_mem _ h1
        · intro a' ha'; cases ha'; omega
        · intro q hq
          rcases List.mem_cons.1 hq with rfl | hq
          · exact hp
          · exact h3 q hq
      · have e : updMaxlag (some a) p = some a := by simp [updMaxlag, hgt]
        rw [e] at h1 h2
        have ha := h2 a rfl
        refine ⟨?_, ?_, ?_⟩
        · rcases h1 with h1 | h1
          · exact Or.inl h1
          · exact Or.inr (List.mem_cons_of_mem _ h1)
        · intro a' ha'; cases ha'; exact ha
        · intro q hq
          rcases List.mem_cons.1 hq with rfl | hq
          · omega
          · exact h3 q hq

theorem maxlag_is_max (ps : List PStat) (m : PStat) (h : (aggregate ps).maxlag = some m) :
    m ∈ ps ∧ ∀ p ∈ ps, p.st.currentLag ≤ m.st.currentLag := by
  rw [aggregate_maxlag] at h
  obtain ⟨h1, -, h3⟩ := foldl_updMaxlag_some none ps m h
  refine ⟨?_, h3⟩
  rcases h1 with h1 | h1
  · cases h1
  · exact h1

theorem maxlag_perm (ps ps' : List PStat) (h : ps.Perm ps') :
    (aggregate ps).maxlag.map (·.st.currentLag) = (aggregate ps').maxlag.map (·.st.currentLag) := by
  cases hm : (aggregate ps).maxlag with
  | none =>
    have e := (maxlag_none_iff ps).1 hm
    subst e
    have e' : ps' = [] := h.nil_eq.symm
    subst e'
    rfl
  | some m =>
    cases hm' : (aggregate ps').maxlag with
    | none =>
      have e := (maxlag_none_iff ps').1 hm'
      subst e
      have e' : ps = [] := h.eq_nil
      subst e'
      cases hm
    | some m' =>
      obtain ⟨h1, h2⟩ := maxlag_is_max ps m hm
      obtain ⟨h1', h2'⟩ := maxlag_is_max ps' m' hm'
      have a := h2 m' (h.mem_iff.2 h1')
      have b := h2' m (h.mem_iff.1 h1)
      simp only [Option.map_some, Option.some.injEq]
      omega

/-! ### Count and completeness -/

theorem count_eq_length (ps : List PStat) :
    (aggregate ps).totalPartitions = ps.length ∧ (aggregate ps).partitions = ps := ⟨rfl, rfl⟩

theorem complete_fraction (ps : List PStat) :
    (aggregate ps).complete =
      if ps = [] then (0, 0) else ((ps.filter fun p => isComplete p.st.complete).length, ps.length) := by
  cases ps with
  | nil => rfl
  | cons p ps => simp [aggregate]

/-! ### Permutation invariance -/

theorem perm_invariant (ps ps' : List PStat) (h : ps.Perm ps') :
    (aggregate ps).status = (aggregate ps').status ∧
    (aggregate ps).totalLag = (aggregate ps').totalLag ∧
    (aggregate ps).totalPartitions = (aggregate ps').totalPartitions ∧
    (aggregate ps).complete = (aggregate ps').complete ∧
    (aggregate ps).maxlag.map (·.st.currentLag) = (aggregate ps').maxlag.map (·.st.currentLag) ∧
    (aggregate ps).partitions.Perm (aggregate ps').partitions := by
  refine ⟨?_, ?_, h.length_eq, ?_, maxlag_perm ps ps' h, h⟩
  · rw [aggregate_status, aggregate_status]; exact statusFold_perm _ ps ps' h
  · rw [totalLag_sum, totalLag_sum, (h.map _).sum_nat]
  · rw [complete_fraction, complete_fraction]
    have hf := (h.filter fun p => isComplete p.st.complete).length_eq
    rw [hf, h.length_eq]
    by_cases e : ps = []
    · subst e
      have e' : ps' = [] := h.nil_eq.symm
      subst e'; rfl
    · have e' : ps' ≠ [] := fun e' => e (by subst e'; exact h.eq_nil)
      rw [if_neg e, if_neg e']

/-! ### Partition evaluation -/

/-- the completeness pair and the lag are the same on every non-panicking path -/
theorem evaluatePartition_complete (p : Partition) (meets : Nat → Nat → Bool) (now : Int)
    (allowed : Nat) (st : PartStatus) (h : evaluatePartition p meets now allowed = some st) :
    st.complete =
      if p.offsets.length = 0 then (0, 0)
      else ((p.offsets.drop (firstNonNil p.offsets)).length, p.offsets.length) := by
  unfold evaluatePartition at h
  by_cases h0 : p.offsets.length = 0
  · rw [if_pos h0] at h ⊢
    cases h; rfl
  · rw [if_neg h0] at h ⊢
    simp only [] at h
    repeat' split at h
    all_goals first
      | (cases h; rfl)
      | (exact absurd h (by simp))

theorem findIdx?_replicate_none (k : Nat) :
    (List.replicate k (none : Option Commit)).findIdx? Option.isSome = none := by
  rw [List.findIdx?_eq_none_iff]
  intro x hx
  rw [List.mem_replicate] at hx
  rw [hx.2]; rfl

theorem firstNonNil_replicate_none (k : Nat) :
    firstNonNil (List.replicate k (none : Option Commit)) = k := by
  unfold firstNonNil
  rw [findIdx?_replicate_none]
  simp

theorem isComplete_iff (a b : Nat) : isComplete (a, b) = true ↔ a = b ∧ b ≠ 0 := by
  simp [isComplete]

theorem partition_complete_iff_full (p : Partition) (meets : Nat → Nat → Bool) (now : Int)
    (allowed : Nat) (k : Nat) (cs : List Commit)
    (hshape : p.offsets = List.replicate k none ++ cs.map some)
    (hN : 1 ≤ p.offsets.length) (st : PartStatus)
    (h : evaluatePartition p meets now allowed = some st) :
    isComplete st.complete = true ↔ k = 0 := by
  have hc := evaluatePartition_complete p meets now allowed st h
  have h0 : ¬ p.offsets.length = 0 := by omega
  rw [if_neg h0] at hc
  rw [hc, isComplete_iff]
  by_cases hcs : cs = []
  · subst hcs
    simp only [List.map_nil, List.append_nil] at hshape
    have hfirst : firstNonNil p.offsets = k := by rw [hshape]; exact firstNonNil_replicate_none k
    have hlen : p.offsets.length = k := by rw [hshape]; exact List.length_replicate
    rw [hfirst, List.length_drop, hlen]
    omega
  · have hcslen : cs.length ≠ 0 := fun e => hcs (List.length_eq_zero_iff.mp e)
    have hfirst : firstNonNil p.offsets = k := by
      rw [hshape]; exact Proofs.Eval.firstNonNil_shape k cs hcs
    have hlen : p.offsets.length = k + cs.length := by
      rw [hshape, List.length_append, List.length_replicate, List.length_map]
    rw [hfirst, List.length_drop, hlen]
    omega

theorem partition_without_window (p : Partition) (meets : Nat → Nat → Bool) (now : Int)
    (allowed : Nat) (h0 : p.offsets = []) (st : PartStatus)
    (h : evaluatePartition p meets now allowed = some st) :
    isComplete st.complete = false ∧ st.status = .ok := by
  unfold evaluatePartition at h
  have hl : p.offsets.length = 0 := by rw [h0]; rfl
  rw [if_pos hl] at h
  cases h
  exact ⟨rfl, rfl⟩

theorem ok_ge_ok : Status.ok ≥ Status.ok := by decide

/-- `calculatePartitionStatus` only yields OK, WARN, STOP, STALL or REWIND -/
theorem calculate_ge_ok (w : List Commit) (bo : List Int) (cur : Nat) (now : Int) (allowed : Nat)
    (s : Status) (h : calculate w bo cur now allowed = some s) : s ≥ .ok := by
  unfold calculate at h
  repeat' first
    | split at h
    | simp only [] at h
  all_goals first
    | (cases h; decide)
    | (exact absurd h (by simp))

theorem evaluatePartition_status_ge_ok (p : Partition) (meets : Nat → Nat → Bool) (now : Int)
    (allowed : Nat) (st : PartStatus) (h : evaluatePartition p meets now allowed = some st) :
    st.status ≥ .ok := by
  unfold evaluatePartition at h
  by_cases h0 : p.offsets.length = 0
  · rw [if_pos h0] at h
    cases h; exact ok_ge_ok
  · rw [if_neg h0] at h
    simp only [] at h
    repeat' split at h
    all_goals first
      | (cases h; exact ok_ge_ok)
      | (cases h; exact calculate_ge_ok _ _ _ _ _ _ ‹_›)
      | (exact absurd h (by simp))

/-! ### Totality on well-shaped windows -/

theorem evaluatePartition_isSome (p : Partition) (meets : Nat → Nat → Bool) (now : Int)
    (allowed : Nat) (k : Nat) (cs : List Commit)
    (hshape : p.offsets = List.replicate k none ++ cs.map some) :
    ∃ st, evaluatePartition p meets now allowed = some st := by
  by_cases hcs : cs = []
  · subst hcs
    simp only [List.map_nil, List.append_nil] at hshape
    unfold evaluatePartition
    by_cases h0 : p.offsets.length = 0
    · rw [if_pos h0]; exact ⟨_, rfl⟩
    · rw [if_neg h0]
      simp only []
      have h1 : (p.offsets.drop (firstNonNil p.offsets)).length = 0 := by
        rw [hshape, firstNonNil_replicate_none]; simp
      rw [if_pos h1]; exact ⟨_, rfl⟩
  · cases hm : meets ((p.offsets.drop (firstNonNil p.offsets)).length) p.offsets.length with
    | false =>
      obtain ⟨st, hst, -⟩ := Proofs.Eval.below_minimum_is_ok p meets now allowed hm
      exact ⟨st, hst⟩
    | true =>
      have hm' : meets cs.length p.offsets.length = true := by
        rw [← hm]
        congr 1
        rw [hshape, Proofs.Eval.firstNonNil_shape k cs hcs]
        simp
      obtain ⟨st, hst, -⟩ :=
        Proofs.Eval.partition_status_is_spec p meets now allowed k cs hcs hshape hm'
      exact ⟨st, hst⟩

theorem evalTopic_isSome (meets : Nat → Nat → Bool) (now : Int) (allowed : Nat) (topic : String)
    (i : Nat) (parts : List Partition)
    (hwf : ∀ p ∈ parts, ∃ (k : Nat) (cs : List Commit),
      p.offsets = List.replicate k none ++ cs.map some) :
    ∃ r, evalTopic meets now allowed topic i parts = some r := by
  induction parts generalizing i with
  | nil => exact ⟨[], rfl⟩
  | cons p rest ih =>
    obtain ⟨k, cs, hshape⟩ := hwf p List.mem_cons_self
    obtain ⟨st, hst⟩ := evaluatePartition_isSome p meets now allowed k cs hshape
    obtain ⟨more, hmore⟩ := ih (i + 1) (fun q hq => hwf q (List.mem_cons_of_mem _ hq))
    refine ⟨{ topic, partition := i, owner := p.owner, clientID := p.clientID, st } :: more, ?_⟩
    simp [evalTopic, hst, hmore]

theorem evalTopics_isSome (meets : Nat → Nat → Bool) (now : Int) (allowed : Nat)
    (topics : List (String × List Partition))
    (hwf : ∀ tp ∈ topics, ∀ p ∈ tp.2, ∃ (k : Nat) (cs : List Commit),
      p.offsets = List.replicate k none ++ cs.map some) :
    ∃ r, evalTopics meets now allowed topics = some r := by
  induction topics with
  | nil => exact ⟨[], rfl⟩
  | cons tp rest ih =>
    obtain ⟨t, parts⟩ := tp
    obtain ⟨a, ha⟩ := evalTopic_isSome meets now allowed t 0 parts (hwf (t, parts) List.mem_cons_self)
    obtain ⟨b, hb⟩ := ih (fun tp htp => hwf tp (List.mem_cons_of_mem _ htp))
    refine ⟨a ++ b, ?_⟩
    simp [evalTopics, ha, hb]

theorem evaluateGroup_total (meets : Nat → Nat → Bool) (now : Int) (allowed : Nat)
    (topics : List (String × List Partition))
    (hwf : ∀ tp ∈ topics, ∀ p ∈ tp.2, ∃ (k : Nat) (cs : List Commit),
      p.offsets = List.replicate k none ++ cs.map some) :
    (evaluateGroup meets now allowed topics).isSome := by
  obtain ⟨r, hr⟩ := evalTopics_isSome meets now allowed topics hwf
  unfold evaluateGroup
  rw [hr]
  rfl

end Burrow.Proofs.Group
