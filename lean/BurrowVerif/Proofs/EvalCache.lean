/-
  C05 — proofs about the caching evaluator model (key round trip, one reply per request, freshness).
-/
import BurrowVerif.Spec.EvalCache

namespace Burrow.Proofs.EvalCache
open Burrow Burrow.EvalCache Burrow.Spec.EvalCache

variable {R : Type}

/-! ### the cache key -/

theorem natDigits_eq (n : Nat) : natDigits n = Nat.toDigits 10 n := by
  simp [natDigits]

theorem natDigits_ne_nil (n : Nat) : natDigits n ≠ [] := by
  rw [natDigits_eq]; exact Nat.toDigits_ne_nil

theorem isDigit_of_mem_natDigits {n : Nat} {c : Char} (h : c ∈ natDigits n) : c.isDigit = true := by
  rw [natDigits_eq] at h
  exact Nat.isDigit_of_mem_toDigits (by decide) (by decide) h

theorem ne_space_of_mem_natDigits {n : Nat} {c : Char} (h : c ∈ natDigits n) : c ≠ ' ' := by
  intro hc
  have := isDigit_of_mem_natDigits h
  rw [hc] at this
  exact absurd this (by decide)

theorem foldl_digits (ds : List Char) (h : ∀ c ∈ ds, c.isDigit = true) (a : Nat) :
    ds.foldl (fun acc c => acc.bind fun a =>
        if c.isDigit then some (a * 10 + (c.toNat - '0'.toNat)) else none) (some a)
      = some (Nat.ofDigitChars 10 ds a) := by
  induction ds generalizing a with
  | nil => simp
  | cons c cs ih =>
    have hc : c.isDigit = true := h c (by simp)
    have hcs : ∀ d ∈ cs, d.isDigit = true := fun d hd => h d (by simp [hd])
    simp only [List.foldl_cons, Option.bind_some, hc, if_true]
    rw [ih hcs, Nat.ofDigitChars_cons, Nat.mul_comm]

theorem digitsToNat_natDigits (n : Nat) : digitsToNat? (natDigits n) = some n := by
  unfold digitsToNat?
  have hne : (natDigits n).isEmpty = false := by
    cases h : natDigits n with
    | nil => exact absurd h (natDigits_ne_nil n)
    | cons _ _ => rfl
  rw [hne]
  simp only [Bool.false_eq_true, if_false]
  rw [foldl_digits _ (fun c hc => isDigit_of_mem_natDigits hc), natDigits_eq,
    Nat.ofDigitChars_ten_toDigits]

theorem takeWhile_key (ds rest : List Char) (h : ∀ c ∈ ds, c ≠ ' ') :
    (ds ++ ' ' :: rest).takeWhile (· ≠ ' ') = ds := by
  induction ds with
  | nil => simp
  | cons d ds ih =>
    have hd : d ≠ ' ' := h d (by simp)
    rw [List.cons_append, List.takeWhile_cons, if_pos (by simpa using hd),
      ih (fun c hc => h c (by simp [hc]))]

theorem dropWhile_key (ds rest : List Char) (h : ∀ c ∈ ds, c ≠ ' ') :
    (ds ++ ' ' :: rest).dropWhile (· ≠ ' ') = ' ' :: rest := by
  induction ds with
  | nil => simp
  | cons d ds ih =>
    have hd : d ≠ ' ' := h d (by simp)
    rw [List.cons_append, List.dropWhile_cons, if_pos (by simpa using hd),
      ih (fun c hc => h c (by simp [hc]))]

theorem mkKey_eq (c g : Name) : mkKey c g = natDigits c.length ++ ' ' :: (c ++ g) := by
  simp [mkKey]

theorem parse_mkKey (cluster group : Name) : parseKey (mkKey cluster group) = some (cluster, group) := by
  have hsp : ∀ ch ∈ natDigits cluster.length, ch ≠ ' ' := fun _ h => ne_space_of_mem_natDigits h
  unfold parseKey
  rw [mkKey_eq]
  simp only [takeWhile_key _ _ hsp, dropWhile_key _ _ hsp, digitsToNat_natDigits]
  simp

theorem key_injective (c g c' g' : Name) (h : mkKey c g = mkKey c' g') : c = c' ∧ g = g' := by
  have h1 := parse_mkKey c g
  rw [h, parse_mkKey] at h1
  have := Option.some.inj h1
  exact ⟨(Prod.mk.inj this).1.symm, (Prod.mk.inj this).2.symm⟩

/-! ### one reply per request, naming the request -/

theorem gcs_fst (cfg : Cfg) (c : Cache R) (now : Int) (cluster group : Name)
    (eval : Name → Name → Option R) (view : R → R) :
    (getConsumerStatus cfg c now cluster group eval view).1 =
      (query cfg c (mkKey cluster group) now
        (fun k => (parseKey k).bind fun (cl, gr) => eval cl gr)).1 := by
  unfold getConsumerStatus; rfl

theorem gcs_result (cfg : Cfg) (c : Cache R) (now : Int) (cluster group : Name)
    (eval : Name → Name → Option R) (view : R → R) :
    (getConsumerStatus cfg c now cluster group eval view).2.result =
      (query cfg c (mkKey cluster group) now
        (fun k => (parseKey k).bind fun (cl, gr) => eval cl gr)).2.map view := by
  unfold getConsumerStatus; rfl

theorem reply_names_request (cfg : Cfg) (c : Cache R) (now : Int) (cluster group : Name)
    (eval : Name → Name → Option R) (view : R → R) :
    (getConsumerStatus cfg c now cluster group eval view).2.cluster = cluster ∧
    (getConsumerStatus cfg c now cluster group eval view).2.group = group := by
  unfold getConsumerStatus; exact ⟨rfl, rfl⟩

theorem one_reply_per_request (cfg : Cfg) (eval : Int → Name → Name → Option R) (c : Cache R)
    (qs : List Req) : (runQ cfg eval c qs).length = qs.length := by
  induction qs generalizing c with
  | nil => rfl
  | cons q rest ih => simp [runQ, ih]

theorem filtered_view_pure (cfg : Cfg) (c : Cache R) (now : Int) (cluster group : Name)
    (eval : Name → Name → Option R) (view : R → R) :
    (getConsumerStatus cfg c now cluster group eval view).1 =
      (getConsumerStatus cfg c now cluster group eval id).1 := by
  rw [gcs_fst, gcs_fst]

/-! ### freshness -/

theorem clookup_cstore_same (k : Name) (e : Entry R) (c : Cache R) :
    clookup k (cstore k e c) = some e := by
  induction c with
  | nil => simp [cstore, clookup]
  | cons p rest ih =>
    obtain ⟨k', e'⟩ := p
    by_cases h : k' = k
    · simp [cstore, clookup, h]
    · simp [cstore, clookup, h, ih]

theorem clookup_cstore_other (k k' : Name) (e : Entry R) (c : Cache R) (hne : k' ≠ k) :
    clookup k' (cstore k e c) = clookup k' c := by
  induction c with
  | nil => simp [cstore, clookup, Ne.symm hne]
  | cons p rest ih =>
    obtain ⟨k'', e''⟩ := p
    by_cases h : k'' = k
    · subst h
      simp [cstore, clookup, Ne.symm hne]
    · by_cases h2 : k'' = k'
      · subst h2
        simp [cstore, clookup, h]
      · simp [cstore, clookup, h, h2, ih]

/-- every cached entry for a well-formed key is the evaluation of that key's own group at the
    entry's look-up time, expires one lifetime later, and was looked up no later than `now` -/
def Inv (cfg : Cfg) (eval : Int → Name → Name → Option R) (now : Int) (c : Cache R) : Prop :=
  ∀ cl gr e, clookup (mkKey cl gr) c = some e →
    e.value = eval e.lookedAt cl gr ∧ e.expiry = some (e.lookedAt + cfg.expire * 1000) ∧
    e.lookedAt ≤ now

theorem Inv_nil (cfg : Cfg) (eval : Int → Name → Name → Option R) (now : Int) :
    Inv cfg eval now ([] : Cache R) := by
  intro cl gr e h; simp [clookup] at h

theorem Inv_mono {cfg : Cfg} {eval : Int → Name → Name → Option R} {now0 now : Int} {c : Cache R}
    (h : Inv cfg eval now0 c) (hle : now0 ≤ now) : Inv cfg eval now c := by
  intro cl gr e he
  obtain ⟨h1, h2, h3⟩ := h cl gr e he
  exact ⟨h1, h2, Int.le_trans h3 hle⟩

theorem Inv_cstore {cfg : Cfg} (hpos : cfg.expire ≥ 0) {eval : Int → Name → Name → Option R}
    {now : Int} {c : Cache R} (h : Inv cfg eval now c) (cl gr : Name) :
    Inv cfg eval now (cstore (mkKey cl gr) (newEntry cfg (eval now cl gr) now) c) := by
  intro cl' gr' e he
  by_cases hk : mkKey cl' gr' = mkKey cl gr
  · obtain ⟨rfl, rfl⟩ := key_injective _ _ _ _ hk
    rw [clookup_cstore_same] at he
    have := Option.some.inj he
    subst this
    simp [newEntry]
  · rw [clookup_cstore_other _ _ _ _ hk] at he
    exact h cl' gr' e he

theorem update_fst (cfg : Cfg) (c : Cache R) (k : Name) (now : Int) (v : Option R) :
    (update cfg c k now v).1 = cstore k (newEntry cfg v now) c ∨ (update cfg c k now v).1 = c := by
  unfold update
  cases v with
  | some r => simp
  | none =>
    cases clookup k c with
    | none => simp
    | some old =>
      cases hv : old.value with
      | none => simp [hv]
      | some _ =>
        by_cases hx : isExpired old now = true <;> simp [hv, hx]

theorem update_snd_of_miss (cfg : Cfg) (c : Cache R) (k : Name) (now : Int) (v : Option R)
    (hp : path c k now = .miss) : (update cfg c k now v).2.value = v := by
  unfold update
  cases v with
  | some r => simp [newEntry]
  | none =>
    unfold path at hp
    cases hl : clookup k c with
    | none => simp [newEntry]
    | some old =>
      rw [hl] at hp
      cases hv : old.value with
      | none => simp [hv, newEntry]
      | some r =>
        by_cases hx : isExpired old now = true
        · simp [hv, hx, newEntry]
        · simp [hx, hv] at hp

theorem look_mkKey (ev : Name → Name → Option R) (cl gr : Name) :
    ((parseKey (mkKey cl gr)).bind fun (p : Name × Name) => ev p.1 p.2) = ev cl gr := by
  rw [parse_mkKey]; rfl

theorem Inv_update {cfg : Cfg} (hpos : cfg.expire ≥ 0) {eval : Int → Name → Name → Option R}
    {now : Int} {c : Cache R} (h : Inv cfg eval now c) (cl gr : Name) :
    Inv cfg eval now (update cfg c (mkKey cl gr) now (eval now cl gr)).1 := by
  rcases update_fst cfg c (mkKey cl gr) now (eval now cl gr) with h1 | h1 <;> rw [h1]
  · exact Inv_cstore hpos h cl gr
  · exact h

/-- one request: the invariant is kept and the reply is fresh -/
theorem step {cfg : Cfg} (hpos : cfg.expire ≥ 0) (eval : Int → Name → Name → Option R)
    {now0 now : Int} {c : Cache R} (h0 : Inv cfg eval now0 c) (hle : now0 ≤ now) (cl gr : Name) :
    Inv cfg eval now (getConsumerStatus cfg c now cl gr (eval now) id).1 ∧
    ∃ t, now - cfg.expire * 1000 ≤ t ∧ t ≤ now ∧
      (getConsumerStatus cfg c now cl gr (eval now) id).2.result = eval t cl gr := by
  have h : Inv cfg eval now c := Inv_mono h0 hle
  have hexp : (0 : Int) ≤ cfg.expire * 1000 := by omega
  rw [gcs_fst, gcs_result]
  simp only [Option.map_id_fun, id_eq]
  unfold query
  have hlook : ((parseKey (mkKey cl gr)).bind fun (p : Name × Name) => eval now p.1 p.2)
      = eval now cl gr := look_mkKey (eval now) cl gr
  cases hp : path c (mkKey cl gr) now with
  | miss =>
    simp only [hlook]
    refine ⟨Inv_update hpos h cl gr, now, by omega, Int.le_refl _, ?_⟩
    exact update_snd_of_miss cfg c _ now _ hp
  | hit =>
    refine ⟨h, ?_⟩
    unfold path at hp
    cases hl : clookup (mkKey cl gr) c with
    | none => simp [hl] at hp
    | some e =>
      rw [hl] at hp
      obtain ⟨h1, h2, h3⟩ := h cl gr e hl
      by_cases hx : isExpired e now = true
      · simp [hx] at hp
      · refine ⟨e.lookedAt, ?_, h3, by simpa using h1⟩
        cases hv : e.value with
        | none => simp [hx, hv] at hp
        | some r =>
          simp [isExpired, hv, h2] at hx
          omega
  | stale =>
    simp only [hlook]
    refine ⟨Inv_update hpos h cl gr, ?_⟩
    unfold path at hp
    cases hl : clookup (mkKey cl gr) c with
    | none => simp [hl] at hp
    | some e =>
      rw [hl] at hp
      obtain ⟨h1, h2, h3⟩ := h cl gr e hl
      by_cases hx : isExpired e now = true
      · simp [hx] at hp
      · cases hv : e.value with
        | some r => simp [hx, hv] at hp
        | none =>
          refine ⟨e.lookedAt, ?_, h3, by rw [← h1, hv]⟩
          simp [isExpired, hv, h2] at hx
          omega

theorem TimeMono_tail {q : Req} {rest : List Req} (h : TimeMono (q :: rest)) : TimeMono rest := by
  intro a b qa qb hab ha hb
  exact h (a + 1) (b + 1) qa qb (by omega) (by simpa using ha) (by simpa using hb)

theorem TimeMono_head {q : Req} {rest : List Req} (h : TimeMono (q :: rest)) :
    ∀ q' ∈ rest, q.now ≤ q'.now := by
  intro q' hq'
  obtain ⟨j, hj, rfl⟩ := List.getElem_of_mem hq'
  exact h 0 (j + 1) q rest[j] (by omega) (by simp) (by simp [hj])

theorem freshness_gen {cfg : Cfg} (hpos : cfg.expire ≥ 0) (eval : Int → Name → Name → Option R)
    (qs : List Req) : ∀ (c : Cache R) (now0 : Int), Inv cfg eval now0 c →
    (∀ q ∈ qs, now0 ≤ q.now) → TimeMono qs → ∀ (i : Nat) (q : Req) (rep : Reply R),
    qs[i]? = some q → (runQ cfg eval c qs)[i]? = some rep →
    ∃ t, q.now - cfg.expire * 1000 ≤ t ∧ t ≤ q.now ∧ rep.result = eval t q.cluster q.group := by
  induction qs with
  | nil => intro c now0 _ _ _ i q rep hq; simp at hq
  | cons q0 rest ih =>
    intro c now0 hinv hlow hmono i q rep hq hr
    have hs := step hpos eval hinv (hlow q0 (by simp)) q0.cluster q0.group
    cases i with
    | zero =>
      simp only [List.getElem?_cons_zero, Option.some.injEq] at hq
      subst hq
      simp only [runQ, List.getElem?_cons_zero, Option.some.injEq] at hr
      subst hr
      exact hs.2
    | succ j =>
      simp only [List.getElem?_cons_succ] at hq
      simp only [runQ, List.getElem?_cons_succ] at hr
      exact ih _ q0.now hs.1 (TimeMono_head hmono) (TimeMono_tail hmono) j q rep hq hr

theorem freshness (cfg : Cfg) (hpos : cfg.expire ≥ 0) (eval : Int → Name → Name → Option R)
    (qs : List Req) (hmono : TimeMono qs) (i : Nat) (q : Req) (rep : Reply R)
    (hq : qs[i]? = some q) (hr : (runQ cfg eval [] qs)[i]? = some rep) :
    ∃ t, q.now - cfg.expire * 1000 ≤ t ∧ t ≤ q.now ∧ rep.result = eval t q.cluster q.group := by
  have hq' := hq
  obtain ⟨hi, hqi⟩ := List.getElem?_eq_some_iff.mp hq
  -- a lower bound on all request times: the time of the first request
  cases qs with
  | nil => simp at hq
  | cons q0 rest =>
    refine freshness_gen hpos eval (q0 :: rest) [] q0.now (Inv_nil cfg eval _) ?_ hmono i q rep hq' hr
    intro q' hq'
    rcases List.mem_cons.mp hq' with rfl | hm
    · exact Int.le_refl _
    · exact TimeMono_head hmono q' hm

end Burrow.Proofs.EvalCache
