/-
  The notification built around an evaluator result is JSON-safe when its names are.
-/
import BurrowVerif.Proofs.TmplJson
import BurrowVerif.Proofs.TmplData

namespace Burrow.Proofs.TmplData
open Burrow Burrow.Tmpl Burrow.Spec.Tmpl

def SafePart (p : Group.PStat) : Prop :=
  safeStr p.topic = true ∧ safeStr p.owner = true ∧ safeStr p.clientID = true

/-- "JSON-safe names": cluster, group, event id, extras values, topic / owner / client names contain no
    quote, backslash or control character; completeness values are finite floats -/
structure SafeNotification (o : Opaque) (n : Notification) : Prop where
  id      : safeStr n.id = true
  cluster : safeStr n.cluster = true
  group   : safeStr n.group = true
  extras  : ∀ kv ∈ n.extras, safeStr kv.2 = true
  parts   : ∀ p ∈ n.result.partitions, SafePart p
  maxlag  : ∀ p, n.result.maxlag = some p → SafePart p
  /-- the completeness values that occur in the notification are finite floats -/
  floats  : finite32 (o.f32 n.result.complete) = true ∧
            (∀ p ∈ n.result.partitions, finite32 (o.f32 p.st.complete) = true) ∧
            (∀ p, n.result.maxlag = some p → finite32 (o.f32 p.st.complete) = true)

theorem commitSafe (o : Opaque) (c : Option Commit) : SafeVal (commitVal o c) := by
  cases c with
  | none => exact .nil
  | some c =>
    refine .ref (.obj ?_)
    intro fv hfv
    simp only [List.mem_cons, List.mem_nil_iff, or_false] at hfv
    rcases hfv with rfl | rfl | rfl | rfl | rfl
    · exact .int _ _
    · exact .int _ _
    · exact .int _ _
    · exact .int _ _
    · cases c.lag with
      | none => exact .nil
      | some l =>
        refine .ref (.obj ?_)
        intro fv hfv
        simp only [List.mem_cons, List.mem_nil_iff, or_false] at hfv
        subst hfv; exact .uint _

theorem partSafe (o : Opaque) (p : Group.PStat) (hp : SafePart p) (hf : finite32 (o.f32 p.st.complete) = true) :
    SafeVal (partVal o p) := by
  refine .ref (.obj ?_)
  intro fv hfv
  simp only [List.mem_cons, List.mem_nil_iff, or_false] at hfv
  rcases hfv with rfl | rfl | rfl | rfl | rfl | rfl | rfl | rfl | rfl
  · exact .str hp.1
  · exact .int _ _
  · exact .str hp.2.1
  · exact .str hp.2.2
  · exact .status _
  · exact commitSafe o _
  · exact commitSafe o _
  · exact .uint _
  · exact .float hf

theorem dataSafe (o : Opaque) (n : Notification) (h : SafeNotification o n) : SafeVal (dataVal o n) := by
  refine .obj ?_
  intro fv hfv
  simp only [List.mem_cons, List.mem_nil_iff, or_false] at hfv
  rcases hfv with rfl | rfl | rfl | rfl | rfl | rfl
  · exact .str h.cluster
  · exact .str h.group
  · exact .str h.id
  · exact .time _
  · exact .map h.extras
  · refine .obj ?_
    intro fv hfv
    simp only [List.mem_cons, List.mem_nil_iff, or_false] at hfv
    rcases hfv with rfl | rfl | rfl | rfl | rfl | rfl | rfl | rfl
    · exact .str h.cluster
    · exact .str h.group
    · exact .status _
    · exact .float h.floats.1
    · refine .list ?_
      intro v hv
      simp only [List.mem_map] at hv
      obtain ⟨p, hp, rfl⟩ := hv
      exact partSafe o p (h.parts p hp) (h.floats.2.1 p hp)
    · exact .int _ _
    · cases hm : n.result.maxlag with
      | none => exact .nil
      | some p => exact partSafe o p (h.maxlag p hm) (h.floats.2.2 p hm)
    · exact .uint _

end Burrow.Proofs.TmplData
