/-
  Soundness of the model of viper's key resolution for ARBITRARY configurations (dotted keys included):
  whatever node a dotted key resolves to, the raw keys on the way to it, joined by dots, spell the key.
  In particular a key resolves only to a node of the configuration, and the last raw key of that node
  ends with the key's last component.
-/
import BurrowVerif.Proofs.HttpViper

namespace Burrow.Http

/-- the characters of the raw keys of a path, joined by dots -/
def spell (P : List String) : List Char := joinDots P

theorem joinDots_append_singleton : ∀ (P : List String) (k : String), P ≠ [] →
    joinDots (P ++ [k]) = joinDots P ++ '.' :: k.toList := by
  intro P
  induction P with
  | nil => intro k h; exact absurd rfl h
  | cons a rest ih =>
    intro k _
    cases rest with
    | nil => simp [joinDots]
    | cons b rest' =>
      have := ih k (by simp)
      simp only [List.cons_append] at this ⊢
      simp [joinDots, this]

theorem joinDots_append : ∀ (a b : List String), a ≠ [] → b ≠ [] →
    joinDots (a ++ b) = joinDots a ++ '.' :: joinDots b := by
  intro a
  induction a with
  | nil => intro b h; exact absurd rfl h
  | cons x rest ih =>
    intro b _ hb
    cases rest with
    | nil =>
      cases b with
      | nil => exact absurd rfl hb
      | cons y ys => simp [joinDots]
    | cons y rest' =>
      have := ih b (by simp) hb
      simp only [List.cons_append] at this ⊢
      simp [joinDots, this]

/-- **the search is sound**: from node `P`, a key `q` resolves only to a node `R = P ++ ks` whose
    additional raw keys `ks`, joined by dots, spell exactly `q` joined by dots -/
theorem search_sound (c : Cfg) : ∀ (fuel : Nat) (P q R : List String), q ≠ [] →
    c.search fuel P q = some R → ∃ ks, ks ≠ [] ∧ R = P ++ ks ∧ joinDots ks = joinDots q := by
  intro fuel
  induction fuel with
  | zero =>
    intro P q R hq h
    simp only [Cfg.search] at h
    split at h
    · rename_i he; exact absurd (List.isEmpty_iff.mp he) hq
    · simp at h
  | succ fuel ih =>
    intro P q R hq h
    simp only [Cfg.search] at h
    split at h
    · rename_i he; exact absurd (List.isEmpty_iff.mp he) hq
    · obtain ⟨i, hi1, hi2, hat⟩ := tryPrefixes_some _ h
      unfold Cfg.attempt at hat
      simp only at hat
      split at hat
      · split at hat
        · -- the whole rest of the key is one raw key
          rename_i hlen
          simp at hat; subst hat
          refine ⟨[String.ofList (joinDots (q.take i))], by simp, rfl, ?_⟩
          rw [hlen, List.take_length]
          simp [joinDots]
        · split at hat
          · simp at hat
          · have hne : ¬ i = q.length := by assumption
            have hdrop : q.drop i ≠ [] := by
              intro e
              have := List.drop_eq_nil_iff.mp e
              omega
            obtain ⟨ks, hks, hR, hsp⟩ := ih _ _ _ hdrop hat
            have htake : q.take i ≠ [] := by
              intro e
              have := congrArg List.length e
              simp [List.length_take] at this
              cases q with
              | nil => exact hq rfl
              | cons _ _ => simp at this; omega
            refine ⟨String.ofList (joinDots (q.take i)) :: ks, by simp, by simp [hR], ?_⟩
            have hq' : q = q.take i ++ q.drop i := (List.take_append_drop i q).symm
            rw [hq', joinDots_append _ _ htake hdrop, ← hsp]
            cases ks with
            | nil => exact absurd rfl hks
            | cons k ks' => simp [joinDots]
      · simp at hat

/-- a dotted key resolves only to a node whose raw keys spell it -/
theorem resolve_sound (c : Cfg) (q R : List String) (hq : q ≠ []) (h : c.resolve q = some R) :
    R ≠ [] ∧ joinDots R = joinDots q := by
  obtain ⟨ks, hks, hR, hsp⟩ := search_sound c q.length [] q R hq h
  simp at hR; subst hR
  exact ⟨hks, hsp⟩

end Burrow.Http

namespace Burrow.Http

/-- what follows the last dot (everything, if there is none) -/
def afterLastDot (cs : List Char) : List Char := (cs.reverse.takeWhile (· != '.')).reverse

theorem afterLastDot_append (xs t : List Char) (ht : '.' ∉ t) : afterLastDot (xs ++ '.' :: t) = t := by
  unfold afterLastDot
  rw [List.reverse_append, List.reverse_cons, List.append_assoc]
  have h1 : ∀ c ∈ t.reverse, (c != '.') = true := by
    intro c hc
    have : c ∈ t := List.mem_reverse.mp hc
    simp only [bne_iff_ne, ne_eq]
    intro e; subst e; exact ht this
  rw [List.takeWhile_append_of_pos h1]
  simp

/-- **no lookup of a non-password setting ever lands on a password**: for EVERY configuration (dotted
    keys or not), a key `<root>.<suffix>` with a dot-free suffix other than "password" never resolves to a
    node whose last raw key is "password" -/
theorem resolve_avoids_password (c : Cfg) (root : List String) (suffix : String) (hroot : root ≠ [])
    (hs : suffix ≠ "password") (hdf : '.' ∉ suffix.toList) (R : List String)
    (h : c.resolve (root ++ [suffix]) = some R) : R.getLast? ≠ some "password" := by
  obtain ⟨hR, hsp⟩ := resolve_sound c (root ++ [suffix]) R (by simp) h
  rw [joinDots_append_singleton root suffix hroot] at hsp
  intro hlast
  have hpw : '.' ∉ "password".toList := by decide
  obtain ⟨R', rfl⟩ : ∃ R', R = R' ++ ["password"] := by
    have := List.dropLast_concat_getLast hR
    rw [List.getLast?_eq_some_getLast hR] at hlast
    have hl : R.getLast hR = "password" := by simpa using hlast
    rw [hl] at this
    exact ⟨R.dropLast, this.symm⟩
  by_cases hR' : R' = []
  · subst hR'
    simp only [List.nil_append, joinDots] at hsp
    have : '.' ∈ "password".toList := by rw [hsp]; simp
    exact hpw this
  · rw [joinDots_append_singleton R' "password" hR'] at hsp
    have := congrArg afterLastDot hsp
    rw [afterLastDot_append _ _ hpw, afterLastDot_append _ _ hdf] at this
    exact hs (String.toList_inj.mp this.symm)

end Burrow.Http
