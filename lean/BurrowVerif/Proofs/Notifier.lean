/-
  Proofs for C13 / C14: the notifier coordinator's incident bookkeeping and gating
  (`Model/Notifier.lean`) against the history vocabulary of `Spec/Notifier.lean`.
-/
import BurrowVerif.Model.Notifier
import BurrowVerif.Spec.Notifier

namespace Burrow.Proofs.Notifier
open Burrow Burrow.Notifier Burrow.Spec.Notifier

/-! ### Status comparisons -/

theorem ne_ok_of_gt_ok {s : Status} (h : s > .ok) : s ≠ .ok := by
  intro h'
  rw [h'] at h
  exact absurd h (by decide)

theorem not_gt_ok_of_eq_ok {s : Status} (h : s = .ok) : ¬ s > .ok := fun h' => ne_ok_of_gt_ok h' h

/-! ### Association lists -/

theorem lookupT_setT_self (m : String) (t : Int) (l : List (String × Int)) :
    lookupT m (setT m t l) = some t := by
  induction l with
  | nil => simp [setT, lookupT]
  | cons kv rest ih =>
    obtain ⟨k, v⟩ := kv
    by_cases h : k = m <;> simp [setT, lookupT, h, ih]

theorem lookupT_setT_ne {m m' : String} (h : m' ≠ m) (t : Int) (l : List (String × Int)) :
    lookupT m (setT m' t l) = lookupT m l := by
  induction l with
  | nil => simp [setT, lookupT, h]
  | cons kv rest ih =>
    obtain ⟨k, v⟩ := kv
    by_cases h1 : k = m'
    · subst h1
      simp [setT, lookupT, h]
    · by_cases h2 : k = m
      · subst h2
        simp [setT, lookupT, h1]
      · simp [setT, lookupT, h1, h2, ih]

theorem lookupT_eraseT_self (m : String) (l : List (String × Int)) :
    lookupT m (eraseT m l) = none := by
  induction l with
  | nil => simp [eraseT, lookupT]
  | cons kv rest ih =>
    obtain ⟨k, v⟩ := kv
    by_cases h : k = m <;> simp [eraseT, lookupT, h, ih]

theorem lookupT_eraseT_ne {m m' : String} (h : m' ≠ m) (l : List (String × Int)) :
    lookupT m (eraseT m' l) = lookupT m l := by
  induction l with
  | nil => simp [eraseT, lookupT]
  | cons kv rest ih =>
    obtain ⟨k, v⟩ := kv
    by_cases h1 : k = m'
    · subst h1
      simp [eraseT, lookupT, h, ih]
    · by_cases h2 : k = m
      · subst h2
        simp [eraseT, lookupT, h1]
      · simp [eraseT, lookupT, h1, h2, ih]

theorem lookupG_setG_self (k : String × String) (v : GroupRec) (s : NState) :
    lookupG k (setG k v s) = some v := by
  induction s with
  | nil => simp [setG, lookupG]
  | cons kv rest ih =>
    obtain ⟨k', v'⟩ := kv
    by_cases h : k' = k <;> simp [setG, lookupG, h, ih]

theorem lookupG_setG_ne {k k' : String × String} (h : k' ≠ k) (v : GroupRec) (s : NState) :
    lookupG k (setG k' v s) = lookupG k s := by
  induction s with
  | nil => simp [setG, lookupG, h]
  | cons kv rest ih =>
    obtain ⟨k'', v'⟩ := kv
    by_cases h1 : k'' = k'
    · subst h1
      simp [setG, lookupG, h]
    · by_cases h2 : k'' = k
      · subst h2
        simp [setG, lookupG, h1]
      · simp [setG, lookupG, h1, h2, ih]

/-! ### `notifyModule` depends only on the module's own `lastNotify` entry -/

/-- `notifyModule` seen through the module's own `lastNotify` entry `l`. -/
def nmL (cfg : ModuleCfg) (l : Option Int) (status : Status) (now : Int)
    (start : Option Int) (id : Option Nat) : Option Int × Option Notification :=
  if start.isSome ∧ status = .ok ∧ cfg.sendClose then
    (none, some { module := cfg.name, status, id, start, close := true })
  else if (status.toNat : Int) < cfg.threshold then (l, none)
  else if l.isSome ∧ cfg.sendOnce then (l, none)
  else
    let due : Bool := match l with
      | none => true
      | some t => decide (now - t > cfg.sendInterval * 1000)
    if due then
      (some now, some { module := cfg.name, status, id, start, close := false })
    else (l, none)

theorem notifyModule_snd (cfg : ModuleCfg) (g : GroupRec) (st : Status) (now : Int)
    (start : Option Int) (id : Option Nat) :
    (notifyModule cfg g st now start id).2 =
      (nmL cfg (lookupT cfg.name g.lastNotify) st now start id).2 := by
  unfold notifyModule nmL
  generalize lookupT cfg.name g.lastNotify = l
  by_cases h1 : start.isSome ∧ st = .ok ∧ cfg.sendClose = true
  · simp only [h1, and_self, if_true]
  · by_cases h2 : (st.toNat : Int) < cfg.threshold
    · simp only [h1, h2, if_true, if_false]
    · by_cases h3 : l.isSome ∧ cfg.sendOnce = true
      · simp only [h1, h2, h3, and_self, if_true, if_false]
      · simp only [h1, h2, h3, if_false]
        cases l with
        | none => simp
        | some t => by_cases hd : now - t > cfg.sendInterval * 1000 <;> simp [hd]

theorem notifyModule_lookup_self (cfg : ModuleCfg) (g : GroupRec) (st : Status) (now : Int)
    (start : Option Int) (id : Option Nat) :
    lookupT cfg.name (notifyModule cfg g st now start id).1.lastNotify =
      (nmL cfg (lookupT cfg.name g.lastNotify) st now start id).1 := by
  unfold notifyModule nmL
  generalize hl : lookupT cfg.name g.lastNotify = l
  by_cases h1 : start.isSome ∧ st = .ok ∧ cfg.sendClose = true
  · simp only [h1, and_self, if_true, lookupT_eraseT_self]
  · by_cases h2 : (st.toNat : Int) < cfg.threshold
    · simp only [h1, h2, if_true, if_false, hl]
    · by_cases h3 : l.isSome ∧ cfg.sendOnce = true
      · simp only [h1, h2, h3, and_self, if_true, if_false, hl]
      · simp only [h1, h2, h3, if_false]
        cases l with
        | none => simp [lookupT_setT_self]
        | some t =>
          by_cases hd : now - t > cfg.sendInterval * 1000 <;> simp [hd, hl, lookupT_setT_self]

theorem notifyModule_lookup_ne (cfg : ModuleCfg) (g : GroupRec) (st : Status) (now : Int)
    (start : Option Int) (id : Option Nat) (m : String) (hm : cfg.name ≠ m) :
    lookupT m (notifyModule cfg g st now start id).1.lastNotify = lookupT m g.lastNotify := by
  unfold notifyModule
  generalize lookupT cfg.name g.lastNotify = l
  by_cases h1 : start.isSome ∧ st = .ok ∧ cfg.sendClose = true
  · simp only [h1, and_self, if_true, lookupT_eraseT_ne hm]
  · by_cases h2 : (st.toNat : Int) < cfg.threshold
    · simp only [h1, h2, if_true, if_false]
    · by_cases h3 : l.isSome ∧ cfg.sendOnce = true
      · simp only [h1, h2, h3, and_self, if_true, if_false]
      · simp only [h1, h2, h3, if_false]
        cases l with
        | none => simp [lookupT_setT_ne hm]
        | some t =>
          by_cases hd : now - t > cfg.sendInterval * 1000 <;> simp [hd, lookupT_setT_ne hm]

theorem notifyModule_id (cfg : ModuleCfg) (g : GroupRec) (st : Status) (now : Int)
    (start : Option Int) (id : Option Nat) :
    (notifyModule cfg g st now start id).1.id = g.id ∧
    (notifyModule cfg g st now start id).1.start = g.start := by
  unfold notifyModule
  generalize lookupT cfg.name g.lastNotify = l
  by_cases h1 : start.isSome ∧ st = .ok ∧ cfg.sendClose = true
  · simp only [h1, and_self, if_true]
  · by_cases h2 : (st.toNat : Int) < cfg.threshold
    · simp only [h1, h2, if_true, if_false, and_self]
    · by_cases h3 : l.isSome ∧ cfg.sendOnce = true
      · simp only [h1, h2, h3, and_self, if_true, if_false]
      · simp only [h1, h2, h3, if_false]
        cases l with
        | none => simp
        | some t => by_cases hd : now - t > cfg.sendInterval * 1000 <;> simp [hd]

section nmLeqs
variable {cfg : ModuleCfg} {l : Option Int} {st : Status} {now : Int}
  {start : Option Int} {id : Option Nat}

theorem nmL_eq_close (h1 : start.isSome ∧ st = .ok ∧ cfg.sendClose = true) :
    nmL cfg l st now start id =
      (none, some { module := cfg.name, status := st, id, start, close := true }) := by
  unfold nmL
  simp only [h1, and_self, if_true]

theorem nmL_eq_thr (h1 : ¬ (start.isSome ∧ st = .ok ∧ cfg.sendClose = true))
    (h2 : (st.toNat : Int) < cfg.threshold) : nmL cfg l st now start id = (l, none) := by
  unfold nmL
  simp only [h1, h2, if_true, if_false]

theorem nmL_eq_once (h1 : ¬ (start.isSome ∧ st = .ok ∧ cfg.sendClose = true))
    (h2 : ¬ (st.toNat : Int) < cfg.threshold) (h3 : l.isSome ∧ cfg.sendOnce = true) :
    nmL cfg l st now start id = (l, none) := by
  unfold nmL
  simp only [h1, h2, h3, and_self, if_true, if_false]

theorem nmL_eq_due (h1 : ¬ (start.isSome ∧ st = .ok ∧ cfg.sendClose = true))
    (h2 : ¬ (st.toNat : Int) < cfg.threshold) (h3 : ¬ (l.isSome ∧ cfg.sendOnce = true))
    (hd : ∀ t, l = some t → now - t > cfg.sendInterval * 1000) :
    nmL cfg l st now start id =
      (some now, some { module := cfg.name, status := st, id, start, close := false }) := by
  unfold nmL
  simp only [h1, h2, h3, if_false]
  cases l with
  | none => simp
  | some t => simp [hd t rfl]

theorem nmL_eq_notdue (h1 : ¬ (start.isSome ∧ st = .ok ∧ cfg.sendClose = true))
    (h2 : ¬ (st.toNat : Int) < cfg.threshold) (h3 : ¬ (l.isSome ∧ cfg.sendOnce = true))
    (t : Int) (hl : l = some t) (hd : ¬ now - t > cfg.sendInterval * 1000) :
    nmL cfg l st now start id = (l, none) := by
  unfold nmL
  subst hl
  simp only [h1, h2, h3, if_false]
  simp [hd]

/-- the five cases of `nmL` -/
theorem nmL_cases (cfg : ModuleCfg) (l : Option Int) (st : Status) (now : Int)
    (start : Option Int) (id : Option Nat) :
    (start.isSome ∧ st = .ok ∧ cfg.sendClose = true ∧ nmL cfg l st now start id =
        (none, some { module := cfg.name, status := st, id, start, close := true })) ∨
    (¬ (start.isSome ∧ st = .ok ∧ cfg.sendClose = true) ∧ nmL cfg l st now start id = (l, none)) ∨
    (¬ (start.isSome ∧ st = .ok ∧ cfg.sendClose = true) ∧ cfg.threshold ≤ (st.toNat : Int) ∧
      ¬ (l.isSome ∧ cfg.sendOnce = true) ∧ (∀ t, l = some t → now - t > cfg.sendInterval * 1000) ∧
      nmL cfg l st now start id =
        (some now, some { module := cfg.name, status := st, id, start, close := false })) := by
  by_cases h1 : start.isSome ∧ st = .ok ∧ cfg.sendClose = true
  · exact Or.inl ⟨h1.1, h1.2.1, h1.2.2, nmL_eq_close h1⟩
  · by_cases h2 : (st.toNat : Int) < cfg.threshold
    · exact Or.inr (Or.inl ⟨h1, nmL_eq_thr h1 h2⟩)
    · by_cases h3 : l.isSome ∧ cfg.sendOnce = true
      · exact Or.inr (Or.inl ⟨h1, nmL_eq_once h1 h2 h3⟩)
      · by_cases hd : ∀ t, l = some t → now - t > cfg.sendInterval * 1000
        · exact Or.inr (Or.inr ⟨h1, by omega, h3, hd, nmL_eq_due h1 h2 h3 hd⟩)
        · have : ∃ t, l = some t ∧ ¬ now - t > cfg.sendInterval * 1000 := by
            cases l with
            | none => exact absurd (fun t ht => by cases ht) hd
            | some t =>
              refine ⟨t, rfl, fun h => hd ?_⟩
              intro t' ht'
              cases ht'
              exact h
          obtain ⟨t, hl, hnd⟩ := this
          exact Or.inr (Or.inl ⟨h1, nmL_eq_notdue h1 h2 h3 t hl hnd⟩)

end nmLeqs

/-- what a notification produced by `nmL` looks like -/
theorem nmL_some {cfg : ModuleCfg} {l : Option Int} {st : Status} {now : Int}
    {start : Option Int} {id : Option Nat} {n : Notification}
    (h : (nmL cfg l st now start id).2 = some n) :
    n.module = cfg.name ∧ n.status = st ∧ n.id = id ∧ n.start = start ∧
    (n.close = true → start.isSome ∧ st = .ok ∧ cfg.sendClose = true ∧
        (nmL cfg l st now start id).1 = none) ∧
    (n.close = false → ¬ (start.isSome ∧ st = .ok ∧ cfg.sendClose = true) ∧
        cfg.threshold ≤ (st.toNat : Int) ∧ ¬ (l.isSome ∧ cfg.sendOnce = true) ∧
        (∀ t, l = some t → now - t > cfg.sendInterval * 1000) ∧
        (nmL cfg l st now start id).1 = some now) := by
  rcases nmL_cases cfg l st now start id with ⟨h1, h2, h3, e⟩ | ⟨h1, e⟩ | ⟨h1, h2, h3, h4, e⟩
  · rw [e] at h ⊢
    simp only [Option.some.injEq] at h
    subst h
    simp [h1, h2, h3]
  · rw [e] at h
    simp at h
  · rw [e] at h ⊢
    simp only [Option.some.injEq] at h
    subst h
    refine ⟨rfl, rfl, rfl, rfl, by simp, fun _ => ⟨h1, h2, h3, h4, rfl⟩⟩

/-- no notification: the entry is unchanged -/
theorem nmL_none {cfg : ModuleCfg} {l : Option Int} {st : Status} {now : Int}
    {start : Option Int} {id : Option Nat}
    (h : (nmL cfg l st now start id).2 = none) : (nmL cfg l st now start id).1 = l := by
  rcases nmL_cases cfg l st now start id with ⟨h1, h2, h3, e⟩ | ⟨h1, e⟩ | ⟨h1, h2, h3, h4, e⟩
  · rw [e] at h
    simp at h
  · rw [e]
  · rw [e] at h
    simp at h

/-- the announcement: nothing recorded for the module, status bad and at threshold -/
theorem nmL_announce (cfg : ModuleCfg) (st : Status) (now : Int) (start : Option Int)
    (id : Option Nat) (hst : st ≠ .ok) (hthr : cfg.threshold ≤ (st.toNat : Int)) :
    ∃ n, (nmL cfg none st now start id).2 = some n ∧ n.close = false := by
  have h1 : ¬ (start.isSome ∧ st = .ok ∧ cfg.sendClose = true) := fun h => hst h.2.1
  have h2 : ¬ ((st.toNat : Int) < cfg.threshold) := by omega
  rw [nmL_eq_due h1 h2 (by simp) (by simp)]
  exact ⟨_, rfl, rfl⟩

/-- the close: incident open, status OK, module configured for closes -/
theorem nmL_close (cfg : ModuleCfg) (l : Option Int) (now : Int) (start : Option Int)
    (id : Option Nat) (hs : start.isSome) (hc : cfg.sendClose = true) :
    ∃ n, (nmL cfg l .ok now start id).2 = some n ∧ n.close = true ∧ n.status = .ok := by
  rw [nmL_eq_close ⟨hs, rfl, hc⟩]
  exact ⟨_, rfl, rfl, rfl⟩

/-! ### The module loop -/

theorem modulesLoop_nil (st : Status) (now : Int) (acc : String → Bool) (start : Option Int)
    (id : Option Nat) (g : GroupRec) : modulesLoop st now acc start id [] g = (g, []) := rfl

theorem modulesLoop_cons (st : Status) (now : Int) (acc : String → Bool) (start : Option Int)
    (id : Option Nat) (cfg : ModuleCfg) (rest : List ModuleCfg) (g : GroupRec) :
    modulesLoop st now acc start id (cfg :: rest) g =
      if acc cfg.name = true then
        ((modulesLoop st now acc start id rest (notifyModule cfg g st now start id).1).1,
         (notifyModule cfg g st now start id).2.toList ++
           (modulesLoop st now acc start id rest (notifyModule cfg g st now start id).1).2)
      else modulesLoop st now acc start id rest g := rfl

/-- the loop never touches `id` / `start` -/
theorem modulesLoop_id (st : Status) (now : Int) (acc : String → Bool) (start : Option Int)
    (id : Option Nat) (cfgs : List ModuleCfg) (g : GroupRec) :
    (modulesLoop st now acc start id cfgs g).1.id = g.id ∧
    (modulesLoop st now acc start id cfgs g).1.start = g.start := by
  induction cfgs generalizing g with
  | nil => exact ⟨rfl, rfl⟩
  | cons cfg rest ih =>
    rw [modulesLoop_cons]
    split
    · have h1 := ih (notifyModule cfg g st now start id).1
      have h2 := notifyModule_id cfg g st now start id
      exact ⟨h1.1.trans h2.1, h1.2.trans h2.2⟩
    · exact ih g

/-- every notification of the loop comes from an accepting module's `notifyModule` -/
theorem modulesLoop_mem (st : Status) (now : Int) (acc : String → Bool) (start : Option Int)
    (id : Option Nat) (cfgs : List ModuleCfg) (g : GroupRec) (n : Notification)
    (h : n ∈ (modulesLoop st now acc start id cfgs g).2) :
    ∃ cfg ∈ cfgs, acc cfg.name = true ∧ ∃ l, (nmL cfg l st now start id).2 = some n := by
  induction cfgs generalizing g with
  | nil => simp [modulesLoop_nil] at h
  | cons cfg rest ih =>
    rw [modulesLoop_cons] at h
    split at h
    · rename_i hacc
      simp only [List.mem_append, Option.mem_toList] at h
      rcases h with h | h
      · rw [notifyModule_snd] at h
        exact ⟨cfg, List.mem_cons_self, hacc, _, h⟩
      · obtain ⟨c, hc, r⟩ := ih _ h
        exact ⟨c, List.mem_cons_of_mem _ hc, r⟩
    · obtain ⟨c, hc, r⟩ := ih _ h
      exact ⟨c, List.mem_cons_of_mem _ hc, r⟩

theorem filter_toList_self (m : String) (o : Option Notification)
    (h : ∀ n, o = some n → n.module = m) :
    o.toList.filter (fun n => n.module = m) = o.toList := by
  cases o with
  | none => rfl
  | some n => simp [h n rfl]

theorem filter_toList_ne (m : String) (o : Option Notification)
    (h : ∀ n, o = some n → n.module ≠ m) :
    o.toList.filter (fun n => n.module = m) = [] := by
  cases o with
  | none => rfl
  | some n => simp [h n rfl]

/-- a module that is not configured gets nothing and its entry is untouched -/
theorem modulesLoop_absent (st : Status) (now : Int) (acc : String → Bool) (start : Option Int)
    (id : Option Nat) (cfgs : List ModuleCfg) (g : GroupRec) (m : String)
    (hm : m ∉ cfgs.map (·.name)) :
    (modulesLoop st now acc start id cfgs g).2.filter (fun n => n.module = m) = [] ∧
    lookupT m (modulesLoop st now acc start id cfgs g).1.lastNotify = lookupT m g.lastNotify := by
  induction cfgs generalizing g with
  | nil => exact ⟨rfl, rfl⟩
  | cons cfg rest ih =>
    simp only [List.map_cons, List.mem_cons, not_or] at hm
    obtain ⟨hne, hrest⟩ := hm
    rw [modulesLoop_cons]
    split
    · obtain ⟨h1, h2⟩ := ih (notifyModule cfg g st now start id).1 hrest
      refine ⟨?_, ?_⟩
      · rw [List.filter_append, h1, List.append_nil]
        apply filter_toList_ne
        intro n hn
        rw [notifyModule_snd] at hn
        rw [(nmL_some hn).1]
        exact fun h => hne h.symm
      · rw [h2]
        exact notifyModule_lookup_ne cfg g st now start id m (fun h => hne h.symm)
    · exact ih g hrest

/-- with distinct module names, what module `cfg.name` is sent and what is recorded for it is
    `notifyModule cfg` on the module's own entry -/
theorem modulesLoop_module (st : Status) (now : Int) (acc : String → Bool) (start : Option Int)
    (id : Option Nat) (cfgs : List ModuleCfg) (hn : NamesNodup cfgs) (g : GroupRec)
    (cfg : ModuleCfg) (hc : cfg ∈ cfgs) :
    (modulesLoop st now acc start id cfgs g).2.filter (fun n => n.module = cfg.name) =
      (if acc cfg.name = true then
        (nmL cfg (lookupT cfg.name g.lastNotify) st now start id).2.toList else []) ∧
    lookupT cfg.name (modulesLoop st now acc start id cfgs g).1.lastNotify =
      (if acc cfg.name = true then (nmL cfg (lookupT cfg.name g.lastNotify) st now start id).1
       else lookupT cfg.name g.lastNotify) := by
  induction cfgs generalizing g with
  | nil => cases hc
  | cons c rest ih =>
    unfold NamesNodup at hn ih
    simp only [List.map_cons, List.nodup_cons] at hn
    obtain ⟨hnot, hnd⟩ := hn
    by_cases heq : cfg = c
    · subst heq
      rw [modulesLoop_cons]
      split
      · obtain ⟨h1, h2⟩ := modulesLoop_absent st now acc start id rest
          (notifyModule cfg g st now start id).1 cfg.name hnot
        refine ⟨?_, ?_⟩
        · rw [List.filter_append, h1, List.append_nil, notifyModule_snd]
          apply filter_toList_self
          intro n hn
          exact (nmL_some hn).1
        · rw [h2, notifyModule_lookup_self]
      · exact modulesLoop_absent st now acc start id rest g cfg.name hnot
    · have hc' : cfg ∈ rest := by
        cases hc with
        | head => exact absurd rfl heq
        | tail _ h => exact h
      have hname : c.name ≠ cfg.name := by
        intro h
        apply hnot
        rw [h]
        exact List.mem_map_of_mem hc'
      rw [modulesLoop_cons]
      split
      · obtain ⟨h1, h2⟩ := ih hnd (notifyModule c g st now start id).1 hc'
        rw [notifyModule_lookup_ne c g st now start id cfg.name hname] at h1 h2
        refine ⟨?_, h2⟩
        rw [List.filter_append, h1]
        rw [filter_toList_ne]
        · rfl
        · intro n hn
          rw [notifyModule_snd] at hn
          rw [(nmL_some hn).1]
          exact hname
      · exact ih hnd g hc'

/-! ### One evaluation -/

/-- the record after the incident-opening logic, before the module loop -/
def pre (g : GroupRec) (e : Ev) : GroupRec :=
  if g.start.isNone ∧ e.status > .ok
  then { id := some e.freshId, start := some e.now, lastNotify := [] } else g

theorem stepG_snd (cfgs : List ModuleCfg) (g : GroupRec) (e : Ev) :
    (stepG cfgs g e).2 =
      (modulesLoop e.status e.now e.acc (pre g e).start (pre g e).id cfgs (pre g e)).2 := rfl

theorem stepG_fst (cfgs : List ModuleCfg) (g : GroupRec) (e : Ev) :
    (stepG cfgs g e).1 =
      if e.status = .ok then
        { (modulesLoop e.status e.now e.acc (pre g e).start (pre g e).id cfgs (pre g e)).1 with
          id := none, start := none }
      else (modulesLoop e.status e.now e.acc (pre g e).start (pre g e).id cfgs (pre g e)).1 := rfl

theorem stepG_lastNotify (cfgs : List ModuleCfg) (g : GroupRec) (e : Ev) :
    (stepG cfgs g e).1.lastNotify =
      (modulesLoop e.status e.now e.acc (pre g e).start (pre g e).id cfgs (pre g e)).1.lastNotify := by
  rw [stepG_fst]
  split <;> rfl

theorem stepG_id_ok (cfgs : List ModuleCfg) (g : GroupRec) (e : Ev) (h : e.status = .ok) :
    (stepG cfgs g e).1.id = none ∧ (stepG cfgs g e).1.start = none := by
  rw [stepG_fst, if_pos h]
  exact ⟨rfl, rfl⟩

theorem stepG_id_not_ok (cfgs : List ModuleCfg) (g : GroupRec) (e : Ev) (h : e.status ≠ .ok) :
    (stepG cfgs g e).1.id = (pre g e).id ∧ (stepG cfgs g e).1.start = (pre g e).start := by
  rw [stepG_fst, if_neg h]
  exact modulesLoop_id _ _ _ _ _ _ _

theorem pre_of_isSome (g : GroupRec) (e : Ev) (h : g.start.isSome) : pre g e = g := by
  unfold pre
  rw [if_neg]
  intro h'
  cases hs : g.start <;> simp [hs] at h h'

theorem pre_of_ok (g : GroupRec) (e : Ev) (h : e.status = .ok) : pre g e = g := by
  unfold pre
  rw [if_neg]
  exact fun h' => not_gt_ok_of_eq_ok h h'.2

theorem pre_start_isSome (g : GroupRec) (e : Ev) (h : e.status > .ok) :
    (pre g e).start.isSome := by
  unfold pre
  split
  · rfl
  · rename_i hc
    cases hs : g.start with
    | none => exact absurd ⟨by simp [hs], h⟩ hc
    | some t => rfl

theorem pre_of_isNone (g : GroupRec) (e : Ev) (hs : g.start = none) (h : e.status > .ok) :
    pre g e = { id := some e.freshId, start := some e.now, lastNotify := [] } := by
  unfold pre
  rw [if_pos]
  exact ⟨by simp [hs], h⟩

/-- everything emitted at one evaluation -/
theorem stepG_mem (cfgs : List ModuleCfg) (g : GroupRec) (e : Ev) (n : Notification)
    (h : n ∈ (stepG cfgs g e).2) :
    n.id = (pre g e).id ∧ n.start = (pre g e).start ∧ n.status = e.status ∧
    ∃ cfg ∈ cfgs, cfg.name = n.module ∧ e.acc cfg.name = true ∧
      (n.close = true → (pre g e).start.isSome ∧ e.status = .ok ∧ cfg.sendClose = true) ∧
      (n.close = false → cfg.threshold ≤ (e.status.toNat : Int)) := by
  rw [stepG_snd] at h
  obtain ⟨cfg, hc, hacc, l, hl⟩ := modulesLoop_mem _ _ _ _ _ _ _ _ h
  obtain ⟨h1, h2, h3, h4, h5, h6⟩ := nmL_some hl
  refine ⟨h3, h4, h2, cfg, hc, h1.symm, hacc, ?_, ?_⟩
  · intro hcl
    obtain ⟨a, b, c, _⟩ := h5 hcl
    exact ⟨a, b, c⟩
  · intro hcl
    exact (h6 hcl).2.1

/-- one evaluation seen from one module (distinct names) -/
theorem stepG_module (cfgs : List ModuleCfg) (hn : NamesNodup cfgs) (g : GroupRec) (e : Ev)
    (cfg : ModuleCfg) (hc : cfg ∈ cfgs) :
    (stepG cfgs g e).2.filter (fun n => n.module = cfg.name) =
      (if e.acc cfg.name = true then
        (nmL cfg (lookupT cfg.name (pre g e).lastNotify) e.status e.now (pre g e).start
          (pre g e).id).2.toList else []) ∧
    lookupT cfg.name (stepG cfgs g e).1.lastNotify =
      (if e.acc cfg.name = true then
        (nmL cfg (lookupT cfg.name (pre g e).lastNotify) e.status e.now (pre g e).start
          (pre g e).id).1
       else lookupT cfg.name (pre g e).lastNotify) := by
  rw [stepG_snd, stepG_lastNotify]
  exact modulesLoop_module _ _ _ _ _ cfgs hn (pre g e) cfg hc

/-- membership form of `stepG_module` -/
theorem stepG_module_mem (cfgs : List ModuleCfg) (hn : NamesNodup cfgs) (g : GroupRec) (e : Ev)
    (cfg : ModuleCfg) (hc : cfg ∈ cfgs) (n : Notification) :
    (n ∈ (stepG cfgs g e).2 ∧ n.module = cfg.name) ↔
      (e.acc cfg.name = true ∧
        (nmL cfg (lookupT cfg.name (pre g e).lastNotify) e.status e.now (pre g e).start
          (pre g e).id).2 = some n) := by
  have h := (stepG_module cfgs hn g e cfg hc).1
  have hm : (n ∈ (stepG cfgs g e).2 ∧ n.module = cfg.name) ↔
      n ∈ (stepG cfgs g e).2.filter (fun n => n.module = cfg.name) := by
    simp [List.mem_filter]
  rw [hm, h]
  split
  · rename_i hacc
    simp [hacc]
  · rename_i hacc
    simp [hacc]

/-! ### Runs -/

/-- the record after the first `i` evaluations -/
def recAt (cfgs : List ModuleCfg) (g : GroupRec) (evs : List Ev) (i : Nat) : GroupRec :=
  (evs.take i).foldl (fun g e => (stepG cfgs g e).1) g

theorem recAt_zero (cfgs : List ModuleCfg) (g : GroupRec) (evs : List Ev) :
    recAt cfgs g evs 0 = g := by
  simp [recAt]

theorem recAt_succ (cfgs : List ModuleCfg) (g : GroupRec) (evs : List Ev) (i : Nat) (e : Ev)
    (h : evs[i]? = some e) :
    recAt cfgs g evs (i + 1) = (stepG cfgs (recAt cfgs g evs i) e).1 := by
  simp [recAt, List.take_add_one, h, List.foldl_append]

theorem recAt_succ_none (cfgs : List ModuleCfg) (g : GroupRec) (evs : List Ev) (i : Nat)
    (h : evs[i]? = none) : recAt cfgs g evs (i + 1) = recAt cfgs g evs i := by
  simp [recAt, List.take_add_one, h]

theorem runG_cons (cfgs : List ModuleCfg) (g : GroupRec) (e : Ev) (es : List Ev) :
    runG cfgs g (e :: es) = (stepG cfgs g e).2 :: runG cfgs (stepG cfgs g e).1 es := rfl

theorem runG_getElem? (cfgs : List ModuleCfg) (g : GroupRec) (evs : List Ev) (i : Nat) :
    (runG cfgs g evs)[i]? = evs[i]?.map fun e => (stepG cfgs (recAt cfgs g evs i) e).2 := by
  induction evs generalizing g i with
  | nil => simp [runG]
  | cons e es ih =>
    rw [runG_cons]
    cases i with
    | zero => simp [recAt_zero]
    | succ i =>
      simp only [List.getElem?_cons_succ]
      rw [ih]
      simp [recAt]

/-- the record before evaluation `i` of a history started from the fresh record -/
abbrev R (cfgs : List ModuleCfg) (evs : List Ev) (i : Nat) : GroupRec :=
  recAt cfgs GroupRec.fresh evs i

theorem notesAt_eq (cfgs : List ModuleCfg) (evs : List Ev) (i : Nat) (e : Ev)
    (h : evs[i]? = some e) : notesAt cfgs evs i = (stepG cfgs (R cfgs evs i) e).2 := by
  unfold notesAt
  rw [runG_getElem?, h]
  rfl

theorem notesAt_none (cfgs : List ModuleCfg) (evs : List Ev) (i : Nat)
    (h : evs[i]? = none) : notesAt cfgs evs i = [] := by
  unfold notesAt
  rw [runG_getElem?, h]
  rfl

theorem mem_notesAt {cfgs : List ModuleCfg} {evs : List Ev} {i : Nat} {n : Notification}
    (h : n ∈ notesAt cfgs evs i) :
    ∃ e, evs[i]? = some e ∧ n ∈ (stepG cfgs (R cfgs evs i) e).2 := by
  cases he : evs[i]? with
  | none => rw [notesAt_none cfgs evs i he] at h; cases h
  | some e => exact ⟨e, rfl, by rw [← notesAt_eq cfgs evs i e he]; exact h⟩

theorem getElem?_some_of_lt {evs : List Ev} {i j : Nat} {e : Ev} (h : evs[j]? = some e)
    (hij : i ≤ j) : ∃ e', evs[i]? = some e' := by
  have hj : j < evs.length := by
    rcases Nat.lt_or_ge j evs.length with h' | h'
    · exact h'
    · rw [List.getElem?_eq_none h'] at h; cases h
  exact ⟨evs[i]'(by omega), List.getElem?_eq_getElem (by omega)⟩

/-! ### The incident invariant -/

/-- either no incident is open, or the record carries the id and start time of an evaluation
    `k < b` worse than OK, with no OK evaluation in `[k, i)` -/
def Good (evs : List Ev) (b i : Nat) (g : GroupRec) : Prop :=
  (g.start = none ∧ g.id = none) ∨
  ∃ k e, k < b ∧ evs[k]? = some e ∧ e.status > .ok ∧ g.id = some e.freshId ∧
    g.start = some e.now ∧ NoOk evs k i

theorem good_pre (evs : List Ev) (i : Nat) (g : GroupRec) (e : Ev) (he : evs[i]? = some e)
    (h : Good evs i i g) : Good evs (i + 1) i (pre g e) := by
  unfold pre
  split
  · rename_i hc
    refine Or.inr ⟨i, e, Nat.lt_succ_self i, he, hc.2, rfl, rfl, ?_⟩
    intro k e' h1 h2
    omega
  · rcases h with h | ⟨k, e', hk, r⟩
    · exact Or.inl h
    · exact Or.inr ⟨k, e', by omega, r⟩

theorem good_step (cfgs : List ModuleCfg) (evs : List Ev) (i : Nat) (g : GroupRec) (e : Ev)
    (he : evs[i]? = some e) (h : Good evs (i + 1) i (pre g e)) :
    Good evs (i + 1) (i + 1) (stepG cfgs g e).1 := by
  by_cases hok : e.status = .ok
  · obtain ⟨h1, h2⟩ := stepG_id_ok cfgs g e hok
    exact Or.inl ⟨h2, h1⟩
  · obtain ⟨h1, h2⟩ := stepG_id_not_ok cfgs g e hok
    rcases h with ⟨ha, hb⟩ | ⟨k, e', hk, hek, hbad, hid, hst, hno⟩
    · exact Or.inl ⟨h2.trans ha, h1.trans hb⟩
    · refine Or.inr ⟨k, e', hk, hek, hbad, h1.trans hid, h2.trans hst, ?_⟩
      intro k' e'' hk1 hk2 hek'
      by_cases hlt : k' < i
      · exact hno k' e'' hk1 hlt hek'
      · have : k' = i := by omega
        subst this
        rw [he] at hek'
        cases hek'
        exact hok

theorem good_R (cfgs : List ModuleCfg) (evs : List Ev) (i : Nat) : Good evs i i (R cfgs evs i) := by
  induction i with
  | zero => exact Or.inl ⟨rfl, rfl⟩
  | succ i ih =>
    cases he : evs[i]? with
    | none =>
      show Good evs (i + 1) (i + 1) (recAt cfgs GroupRec.fresh evs (i + 1))
      rw [recAt_succ_none cfgs _ evs i he]
      rcases ih with h | ⟨k, e', hk, hek, hbad, hid, hst, hno⟩
      · exact Or.inl h
      · refine Or.inr ⟨k, e', by omega, hek, hbad, hid, hst, ?_⟩
        intro k' e'' hk1 hk2 hek'
        by_cases hlt : k' < i
        · exact hno k' e'' hk1 hlt hek'
        · have : k' = i := by omega
          subst this
          rw [he] at hek'
          cases hek'
    | some e =>
      show Good evs (i + 1) (i + 1) (recAt cfgs GroupRec.fresh evs (i + 1))
      rw [recAt_succ cfgs _ evs i e he]
      exact good_step cfgs evs i _ e he (good_pre evs i _ e he ih)

theorem good_P (cfgs : List ModuleCfg) (evs : List Ev) (i : Nat) (e : Ev) (he : evs[i]? = some e) :
    Good evs (i + 1) i (pre (R cfgs evs i) e) :=
  good_pre evs i _ e he (good_R cfgs evs i)

/-- after an evaluation worse than OK an incident is open -/
theorem R_succ_start_isSome (cfgs : List ModuleCfg) (evs : List Ev) (i : Nat) (e : Ev)
    (he : evs[i]? = some e) (hbad : e.status > .ok) : (R cfgs evs (i + 1)).start.isSome := by
  show (recAt cfgs GroupRec.fresh evs (i + 1)).start.isSome
  rw [recAt_succ cfgs _ evs i e he, (stepG_id_not_ok cfgs _ e (ne_ok_of_gt_ok hbad)).2]
  exact pre_start_isSome _ e hbad

/-- after an OK evaluation no incident is open -/
theorem R_succ_start_none (cfgs : List ModuleCfg) (evs : List Ev) (i : Nat) (e : Ev)
    (he : evs[i]? = some e) (hok : e.status = .ok) : (R cfgs evs (i + 1)).start = none := by
  show (recAt cfgs GroupRec.fresh evs (i + 1)).start = none
  rw [recAt_succ cfgs _ evs i e he]
  exact (stepG_id_ok cfgs _ e hok).2

/-- inside an incident the id and start time handed to the modules do not change -/
theorem pre_stable (cfgs : List ModuleCfg) (evs : List Ev) (i : Nat) (ei : Ev)
    (hei : evs[i]? = some ei) :
    ∀ (d : Nat) (ej : Ev), AllBad evs i (i + d) → evs[i + d]? = some ej →
      (pre (R cfgs evs (i + d)) ej).id = (pre (R cfgs evs i) ei).id ∧
      (pre (R cfgs evs (i + d)) ej).start = (pre (R cfgs evs i) ei).start := by
  intro d
  induction d with
  | zero =>
    intro ej _ hej
    rw [Nat.add_zero, hei] at hej
    cases hej
    exact ⟨rfl, rfl⟩
  | succ d ih =>
    intro ej hbad hej
    obtain ⟨e', he'⟩ := getElem?_some_of_lt hej (Nat.le_succ (i + d))
    have hb' : e'.status > .ok := hbad (i + d) e' (by omega) (by omega) he'
    have hih := ih e' (fun k e h1 h2 h3 => hbad k e h1 (by omega) h3) he'
    have hsome := R_succ_start_isSome cfgs evs (i + d) e' he' hb'
    have hR : R cfgs evs (i + d + 1) = (stepG cfgs (R cfgs evs (i + d)) e').1 :=
      recAt_succ cfgs _ evs (i + d) e' he'
    have hstep := stepG_id_not_ok cfgs (R cfgs evs (i + d)) e' (ne_ok_of_gt_ok hb')
    show (pre (R cfgs evs (i + d + 1)) ej).id = _ ∧ (pre (R cfgs evs (i + d + 1)) ej).start = _
    rw [pre_of_isSome _ ej hsome, hR]
    exact ⟨hstep.1.trans hih.1, hstep.2.trans hih.2⟩

/-! ### C13 -/

theorem incident_identity (cfgs : List ModuleCfg) (evs : List Ev) (i j : Nat) (hij : i ≤ j)
    (ei : Ev) (hei : evs[i]? = some ei) (hbi : ei.status > .ok) (hbad : AllBad evs i j)
    (ni nj : Notification) (hi : ni ∈ notesAt cfgs evs i) (hj : nj ∈ notesAt cfgs evs j) :
    ni.id = nj.id ∧ ni.start = nj.start ∧ ni.id.isSome ∧ ni.start.isSome := by
  obtain ⟨d, rfl⟩ := Nat.exists_eq_add_of_le hij
  rw [notesAt_eq cfgs evs i ei hei] at hi
  obtain ⟨ej, hej, hj⟩ := mem_notesAt hj
  obtain ⟨hi1, hi2, _⟩ := stepG_mem cfgs _ ei ni hi
  obtain ⟨hj1, hj2, _⟩ := stepG_mem cfgs _ ej nj hj
  obtain ⟨hs1, hs2⟩ := pre_stable cfgs evs i ei hei d ej hbad hej
  have hst : (pre (R cfgs evs i) ei).start.isSome := pre_start_isSome _ ei hbi
  have hid : (pre (R cfgs evs i) ei).id.isSome := by
    rcases good_P cfgs evs i ei hei with ⟨h, _⟩ | ⟨k, e', _, _, _, hid, _⟩
    · rw [h] at hst; cases hst
    · rw [hid]; rfl
  refine ⟨?_, ?_, ?_, ?_⟩
  · rw [hi1, hj1, hs1]
  · rw [hi2, hj2, hs2]
  · rw [hi1]; exact hid
  · rw [hi2]; exact hst

theorem freshId_inj (evs : List Ev) (hfresh : FreshIds evs) (k1 k2 : Nat) (e1 e2 : Ev)
    (h1 : evs[k1]? = some e1) (h2 : evs[k2]? = some e2) (h : e1.freshId = e2.freshId) :
    k1 = k2 := by
  unfold FreshIds at hfresh
  have hlen : k1 < (evs.map (·.freshId)).length := by
    rw [List.length_map]
    rcases Nat.lt_or_ge k1 evs.length with h' | h'
    · exact h'
    · rw [List.getElem?_eq_none h'] at h1; cases h1
  apply (List.getElem?_inj hlen hfresh).mp
  rw [List.getElem?_map, List.getElem?_map, h1, h2]
  simp [h]

theorem incidents_distinct (cfgs : List ModuleCfg) (evs : List Ev) (hfresh : FreshIds evs)
    (i k j : Nat) (hik : i ≤ k) (hkj : k < j) (ek : Ev) (hek : evs[k]? = some ek) (hok : ek.status = .ok)
    (ni nj : Notification) (hi : ni ∈ notesAt cfgs evs i) (hj : nj ∈ notesAt cfgs evs j)
    (a b : Nat) (ha : ni.id = some a) (hb : nj.id = some b) : a ≠ b := by
  obtain ⟨ei, hei, hi⟩ := mem_notesAt hi
  obtain ⟨ej, hej, hj⟩ := mem_notesAt hj
  obtain ⟨hi1, _⟩ := stepG_mem cfgs _ ei ni hi
  obtain ⟨hj1, _⟩ := stepG_mem cfgs _ ej nj hj
  rw [hi1] at ha
  rw [hj1] at hb
  rcases good_P cfgs evs i ei hei with ⟨_, h⟩ | ⟨k1, e1, hk1, he1, _, hid1, _, _⟩
  · rw [h] at ha; cases ha
  rcases good_P cfgs evs j ej hej with ⟨_, h⟩ | ⟨k2, e2, hk2, he2, _, hid2, _, hno2⟩
  · rw [h] at hb; cases hb
  rw [hid1] at ha
  rw [hid2] at hb
  cases ha
  cases hb
  intro hab
  have hkk := freshId_inj evs hfresh k1 k2 e1 e2 he1 he2 hab
  subst hkk
  exact hno2 k ek (by omega) hkj hek hok

theorem exactly_one_close (cfgs : List ModuleCfg) (hn : NamesNodup cfgs) (evs : List Ev) (j : Nat)
    (ej ep : Ev) (hej : evs[j + 1]? = some ej) (hok : ej.status = .ok)
    (hep : evs[j]? = some ep) (hbad : ep.status > .ok)
    (cfg : ModuleCfg) (hc : cfg ∈ cfgs) (hacc : ej.acc cfg.name = true) (hclose : cfg.sendClose = true) :
    ∃ n, (notesAt cfgs evs (j + 1)).filter (fun n => n.module = cfg.name) = [n] ∧ n.close = true ∧
      n.status = .ok := by
  rw [notesAt_eq cfgs evs (j + 1) ej hej, (stepG_module cfgs hn _ ej cfg hc).1, if_pos hacc]
  have hs := R_succ_start_isSome cfgs evs j ep hep hbad
  rw [pre_of_ok _ ej hok, hok]
  obtain ⟨n, h1, h2, h3⟩ := nmL_close cfg (lookupT cfg.name (R cfgs evs (j + 1)).lastNotify) ej.now
    (R cfgs evs (j + 1)).start (R cfgs evs (j + 1)).id hs hclose
  refine ⟨n, ?_, h2, h3⟩
  rw [h1]
  rfl

theorem no_close_without_incident (cfgs : List ModuleCfg) (evs : List Ev) (j : Nat) (n : Notification)
    (hn : n ∈ notesAt cfgs evs j) (hclose : n.close = true) :
    (∃ ej, evs[j]? = some ej ∧ ej.status = .ok ∧
       ∃ cfg ∈ cfgs, cfg.name = n.module ∧ cfg.sendClose = true ∧ ej.acc cfg.name = true) ∧
    (∃ i, i < j ∧ (∃ ei, evs[i]? = some ei ∧ ei.status > .ok) ∧ NoOk evs i j) := by
  obtain ⟨ej, hej, hn⟩ := mem_notesAt hn
  obtain ⟨_, _, _, cfg, hc, hname, hacc, hcl, _⟩ := stepG_mem cfgs _ ej n hn
  obtain ⟨hs, hok, hsc⟩ := hcl hclose
  refine ⟨⟨ej, hej, hok, cfg, hc, hname, hsc, hacc⟩, ?_⟩
  rw [pre_of_ok _ ej hok] at hs
  rcases good_R cfgs evs j with ⟨h, _⟩ | ⟨k, e', hk, hek, hbad, _, _, hno⟩
  · rw [h] at hs; cases hs
  · exact ⟨k, hk, ⟨e', hek, hbad⟩, hno⟩

/-! ### C14 -/

theorem open_only_at_threshold_and_accepted (cfgs : List ModuleCfg) (evs : List Ev) (j : Nat)
    (n : Notification) (hn : n ∈ notesAt cfgs evs j) (hopen : n.close = false) :
    ∃ ej, evs[j]? = some ej ∧ ∃ cfg ∈ cfgs, cfg.name = n.module ∧ ej.acc cfg.name = true ∧
      cfg.threshold ≤ (ej.status.toNat : Int) ∧ n.status = ej.status := by
  obtain ⟨ej, hej, hn⟩ := mem_notesAt hn
  obtain ⟨_, _, hst, cfg, hc, hname, hacc, _, hop⟩ := stepG_mem cfgs _ ej n hn
  exact ⟨ej, hej, cfg, hc, hname, hacc, hop hopen, hst⟩

section perModule
variable (cfgs : List ModuleCfg) (hn : NamesNodup cfgs) (cfg : ModuleCfg) (hc : cfg ∈ cfgs)
include hn hc

/-- an open notification to a module records the time for that module -/
theorem open_sets (g : GroupRec) (e : Ev) (n : Notification) (hmem : n ∈ (stepG cfgs g e).2)
    (hm : n.module = cfg.name) (ho : n.close = false) :
    lookupT cfg.name (stepG cfgs g e).1.lastNotify = some e.now := by
  obtain ⟨hacc, hnm⟩ := (stepG_module_mem cfgs hn g e cfg hc n).mp ⟨hmem, hm⟩
  rw [(stepG_module cfgs hn g e cfg hc).2, if_pos hacc]
  exact ((nmL_some hnm).2.2.2.2.2 ho).2.2.2.2

/-- inside an incident, a recorded time stays or is replaced by the current time -/
theorem lookup_step_bad (g : GroupRec) (e : Ev) (hs : g.start.isSome) (hbad : e.status > .ok)
    (t : Int) (hl : lookupT cfg.name g.lastNotify = some t) :
    lookupT cfg.name (stepG cfgs g e).1.lastNotify = some t ∨
    lookupT cfg.name (stepG cfgs g e).1.lastNotify = some e.now := by
  rw [(stepG_module cfgs hn g e cfg hc).2, pre_of_isSome g e hs, hl]
  split
  · rcases nmL_cases cfg (some t) e.status e.now g.start g.id with
      ⟨_, h2, _⟩ | ⟨_, h⟩ | ⟨_, _, _, _, h⟩
    · exact absurd h2 (ne_ok_of_gt_ok hbad)
    · rw [h]; exact Or.inl rfl
    · rw [h]; exact Or.inr rfl
  · exact Or.inl rfl

/-- an open notification to a module with a recorded time: not send-once, and due -/
theorem open_requires (g : GroupRec) (e : Ev) (hs : g.start.isSome) (n : Notification)
    (hmem : n ∈ (stepG cfgs g e).2) (hm : n.module = cfg.name) (ho : n.close = false)
    (t : Int) (hl : lookupT cfg.name g.lastNotify = some t) :
    cfg.sendOnce ≠ true ∧ e.now - t > cfg.sendInterval * 1000 := by
  obtain ⟨_, hnm⟩ := (stepG_module_mem cfgs hn g e cfg hc n).mp ⟨hmem, hm⟩
  rw [pre_of_isSome g e hs, hl] at hnm
  obtain ⟨_, _, h3, h4, _⟩ := (nmL_some hnm).2.2.2.2.2 ho
  exact ⟨fun h => h3 ⟨rfl, h⟩, h4 t rfl⟩

/-- nothing recorded and no open notification sent: still nothing recorded -/
theorem keep_none (g : GroupRec) (e : Ev) (hbad : e.status > .ok)
    (hl : lookupT cfg.name (pre g e).lastNotify = none)
    (hno : ∀ n ∈ (stepG cfgs g e).2, n.module = cfg.name → n.close = true) :
    lookupT cfg.name (stepG cfgs g e).1.lastNotify = none := by
  rw [(stepG_module cfgs hn g e cfg hc).2]
  split
  · rename_i hacc
    cases hnm : (nmL cfg (lookupT cfg.name (pre g e).lastNotify) e.status e.now (pre g e).start
        (pre g e).id).2 with
    | none => rw [nmL_none hnm, hl]
    | some n =>
      obtain ⟨hmem, hm⟩ := (stepG_module_mem cfgs hn g e cfg hc n).mpr ⟨hacc, hnm⟩
      have hcl := hno n hmem hm
      have := ((nmL_some hnm).2.2.2.2.1 hcl).2.1
      exact absurd this (ne_ok_of_gt_ok hbad)
  · exact hl

/-- nothing recorded, accepted, bad and at threshold: an open notification is sent -/
theorem announce (g : GroupRec) (e : Ev) (hbad : e.status > .ok)
    (hl : lookupT cfg.name (pre g e).lastNotify = none) (hacc : e.acc cfg.name = true)
    (hthr : cfg.threshold ≤ (e.status.toNat : Int)) :
    ∃ n ∈ (stepG cfgs g e).2, n.module = cfg.name ∧ n.close = false := by
  obtain ⟨n, h1, h2⟩ := nmL_announce cfg e.status e.now (pre g e).start (pre g e).id
    (ne_ok_of_gt_ok hbad) hthr
  rw [← hl] at h1
  obtain ⟨hmem, hm⟩ := (stepG_module_mem cfgs hn g e cfg hc n).mpr ⟨hacc, h1⟩
  exact ⟨n, hmem, hm, h2⟩

/-- after an open notification to a module at evaluation `i`, as long as the incident lasts the
    module's entry holds the time of some evaluation in the incident -/
theorem incident_entry (evs : List Ev) (i : Nat) (ni : Notification)
    (hi : ni ∈ notesAt cfgs evs i) (hmi : ni.module = cfg.name) (hoi : ni.close = false) :
    ∀ d : Nat, AllBad evs i (i + 1 + d) → (∃ e, evs[i + d]? = some e) →
      ∃ k ek, i ≤ k ∧ k < i + 1 + d ∧ evs[k]? = some ek ∧
        lookupT cfg.name (R cfgs evs (i + 1 + d)).lastNotify = some ek.now := by
  obtain ⟨ei, hei, hi⟩ := mem_notesAt hi
  intro d
  induction d with
  | zero =>
    intro _ _
    refine ⟨i, ei, Nat.le_refl _, by omega, hei, ?_⟩
    show lookupT cfg.name (recAt cfgs GroupRec.fresh evs (i + 1)).lastNotify = _
    rw [recAt_succ cfgs _ evs i ei hei]
    exact open_sets cfgs hn cfg hc _ ei ni hi hmi hoi
  | succ d ih =>
    intro hbad hex
    obtain ⟨e', he'⟩ := hex
    have he'' : evs[i + 1 + d]? = some e' := by
      rw [← he']; congr 1; omega
    obtain ⟨ep, hep⟩ := getElem?_some_of_lt he' (by omega : i + d ≤ i + (d + 1))
    have hbp : ep.status > .ok := hbad (i + d) ep (by omega) (by omega) hep
    have hb' : e'.status > .ok := hbad (i + 1 + d) e' (by omega) (by omega) he''
    obtain ⟨k, ek, hk1, hk2, hek, hl⟩ :=
      ih (fun k e h1 h2 h3 => hbad k e h1 (by omega) h3) ⟨ep, hep⟩
    have hs : (R cfgs evs (i + 1 + d)).start.isSome := by
      have := R_succ_start_isSome cfgs evs (i + d) ep hep hbp
      rw [show i + d + 1 = i + 1 + d by omega] at this
      exact this
    have hR : R cfgs evs (i + 1 + (d + 1)) = (stepG cfgs (R cfgs evs (i + 1 + d)) e').1 :=
      recAt_succ cfgs _ evs (i + 1 + d) e' he''
    rw [hR]
    rcases lookup_step_bad cfgs hn cfg hc _ e' hs hb' ek.now hl with h | h
    · exact ⟨k, ek, hk1, by omega, hek, h⟩
    · exact ⟨i + 1 + d, e', by omega, by omega, he'', h⟩

/-- between an opening evaluation and the first open notification to a module, nothing is recorded
    for that module -/
theorem incident_none (evs : List Ev) (i : Nat) (hopens : Opens evs i) :
    ∀ d : Nat, AllBad evs i (i + d + 1) →
      (∀ k, i ≤ k → k < i + d → ∀ n ∈ notesAt cfgs evs k, n.module = cfg.name → n.close = true) →
      ∀ e, evs[i + d]? = some e →
        lookupT cfg.name (pre (R cfgs evs (i + d)) e).lastNotify = none := by
  intro d
  induction d with
  | zero =>
    intro hbad _ e he
    have hs : (R cfgs evs i).start = none := by
      cases i with
      | zero => rfl
      | succ i' =>
        rcases hopens.2 with h | ⟨e', he', hok⟩
        · cases h
        · exact R_succ_start_none cfgs evs i' e' he' hok
    have hb : e.status > .ok := hbad i e (Nat.le_refl _) (by omega) he
    rw [Nat.add_zero, pre_of_isNone _ e hs hb]
    rfl
  | succ d ih =>
    intro hbad hnone e he
    obtain ⟨ep, hep⟩ := getElem?_some_of_lt he (by omega : i + d ≤ i + (d + 1))
    have hbp : ep.status > .ok := hbad (i + d) ep (by omega) (by omega) hep
    have hlp := ih (fun k e h1 h2 h3 => hbad k e h1 (by omega) h3)
      (fun k h1 h2 => hnone k h1 (by omega)) ep hep
    have hs := R_succ_start_isSome cfgs evs (i + d) ep hep hbp
    have hR : R cfgs evs (i + d + 1) = (stepG cfgs (R cfgs evs (i + d)) ep).1 :=
      recAt_succ cfgs _ evs (i + d) ep hep
    show lookupT cfg.name (pre (R cfgs evs (i + d + 1)) e).lastNotify = none
    rw [pre_of_isSome _ e hs, hR]
    apply keep_none cfgs hn cfg hc _ ep hbp hlp
    have := hnone (i + d) (by omega) (by omega)
    rw [notesAt_eq cfgs evs (i + d) ep hep] at this
    exact this

end perModule

theorem rate_limited_within_incident (cfgs : List ModuleCfg) (hn : NamesNodup cfgs) (evs : List Ev)
    (hmono : TimeMono evs) (i j : Nat) (hij : i < j) (hbad : AllBad evs i (j + 1))
    (ei ej : Ev) (hei : evs[i]? = some ei) (hej : evs[j]? = some ej)
    (cfg : ModuleCfg) (hc : cfg ∈ cfgs) (ni nj : Notification)
    (hi : ni ∈ notesAt cfgs evs i) (hj : nj ∈ notesAt cfgs evs j)
    (hmi : ni.module = cfg.name) (hmj : nj.module = cfg.name)
    (hoi : ni.close = false) (hoj : nj.close = false) :
    ej.now - ei.now > cfg.sendInterval * 1000 := by
  obtain ⟨d, rfl⟩ : ∃ d, j = i + 1 + d := ⟨j - (i + 1), by omega⟩
  obtain ⟨ep, hep⟩ := getElem?_some_of_lt hej (by omega : i + d ≤ i + 1 + d)
  have hbp : ep.status > .ok := hbad (i + d) ep (by omega) (by omega) hep
  obtain ⟨k, ek, hk1, hk2, hek, hl⟩ := incident_entry cfgs hn cfg hc evs i ni hi hmi hoi d
    (fun k e h1 h2 h3 => hbad k e h1 (by omega) h3) ⟨ep, hep⟩
  have hs : (R cfgs evs (i + 1 + d)).start.isSome := by
    have := R_succ_start_isSome cfgs evs (i + d) ep hep hbp
    rw [show i + d + 1 = i + 1 + d by omega] at this
    exact this
  rw [notesAt_eq cfgs evs (i + 1 + d) ej hej] at hj
  have h := (open_requires cfgs hn cfg hc _ ej hs nj hj hmj hoj ek.now hl).2
  have hle : ei.now ≤ ek.now := hmono i k ei ek hk1 hei hek
  omega

theorem send_once_once_per_incident (cfgs : List ModuleCfg) (hn : NamesNodup cfgs) (evs : List Ev)
    (i j : Nat) (hij : i < j) (hbad : AllBad evs i (j + 1))
    (cfg : ModuleCfg) (hc : cfg ∈ cfgs) (honce : cfg.sendOnce = true) (ni nj : Notification)
    (hi : ni ∈ notesAt cfgs evs i) (hj : nj ∈ notesAt cfgs evs j)
    (hmi : ni.module = cfg.name) (hmj : nj.module = cfg.name)
    (hoi : ni.close = false) (hoj : nj.close = false) : False := by
  obtain ⟨d, rfl⟩ : ∃ d, j = i + 1 + d := ⟨j - (i + 1), by omega⟩
  obtain ⟨ej, hej, hj⟩ := mem_notesAt hj
  obtain ⟨ep, hep⟩ := getElem?_some_of_lt hej (by omega : i + d ≤ i + 1 + d)
  have hbp : ep.status > .ok := hbad (i + d) ep (by omega) (by omega) hep
  obtain ⟨k, ek, hk1, hk2, hek, hl⟩ := incident_entry cfgs hn cfg hc evs i ni hi hmi hoi d
    (fun k e h1 h2 h3 => hbad k e h1 (by omega) h3) ⟨ep, hep⟩
  have hs : (R cfgs evs (i + 1 + d)).start.isSome := by
    have := R_succ_start_isSome cfgs evs (i + d) ep hep hbp
    rw [show i + d + 1 = i + 1 + d by omega] at this
    exact this
  exact (open_requires cfgs hn cfg hc _ ej hs nj hj hmj hoj ek.now hl).1 honce

theorem every_incident_announced (cfgs : List ModuleCfg) (hn : NamesNodup cfgs) (evs : List Ev)
    (i j : Nat) (hopens : Opens evs i) (hij : i ≤ j) (hbad : AllBad evs i (j + 1))
    (ej : Ev) (hej : evs[j]? = some ej) (cfg : ModuleCfg) (hc : cfg ∈ cfgs)
    (hacc : ej.acc cfg.name = true) (hthr : cfg.threshold ≤ (ej.status.toNat : Int))
    (hnone : ∀ k, i ≤ k → k < j → ∀ n ∈ notesAt cfgs evs k, n.module = cfg.name → n.close = true) :
    ∃ n ∈ notesAt cfgs evs j, n.module = cfg.name ∧ n.close = false := by
  obtain ⟨d, rfl⟩ := Nat.exists_eq_add_of_le hij
  have hl := incident_none cfgs hn cfg hc evs i hopens d hbad hnone ej hej
  have hb : ej.status > .ok := hbad (i + d) ej (by omega) (by omega) hej
  rw [notesAt_eq cfgs evs (i + d) ej hej]
  exact announce cfgs hn cfg hc _ ej hb hl hacc hthr

/-! ### Several groups interleaved -/

theorem step_some (cfgs : List ModuleCfg) (s : NState) (k : String × String) (e : Ev)
    (g : GroupRec) (h : lookupG k s = some g) :
    step cfgs s k e = (setG k (stepG cfgs g e).1 s, (stepG cfgs g e).2) := by
  simp only [step, h]

theorem step_none (cfgs : List ModuleCfg) (s : NState) (k : String × String) (e : Ev)
    (h : lookupG k s = none) : step cfgs s k e = (s, []) := by
  simp only [step, h]

theorem run_cons (cfgs : List ModuleCfg) (s : NState) (k : String × String) (e : Ev) (rest : Hist) :
    run cfgs s ((k, e) :: rest) = (step cfgs s k e).2 :: run cfgs (step cfgs s k e).1 rest := rfl

theorem run_projection (cfgs : List ModuleCfg) (s : NState) (h : Hist) (k : String × String)
    (g : GroupRec) (hg : lookupG k s = some g) :
    project k h (run cfgs s h) = runG cfgs g (eventsOf k h) := by
  induction h generalizing s g with
  | nil => rfl
  | cons ke rest ih =>
    obtain ⟨k', e⟩ := ke
    rw [run_cons]
    by_cases hk : k' = k
    · subst hk
      have hev : eventsOf k' ((k', e) :: rest) = e :: eventsOf k' rest := by
        simp [eventsOf]
      rw [hev, runG_cons, step_some cfgs s k' e g hg]
      simp only [project, if_true]
      rw [ih _ _ (lookupG_setG_self k' _ s)]
    · have hev : eventsOf k ((k', e) :: rest) = eventsOf k rest := by
        simp [eventsOf, hk]
      rw [hev]
      simp only [project, hk, if_false]
      cases hl : lookupG k' s with
      | none =>
        rw [step_none cfgs s k' e hl]
        exact ih s g hg
      | some g' =>
        rw [step_some cfgs s k' e g' hl]
        exact ih _ g (by rw [lookupG_setG_ne hk]; exact hg)

end Burrow.Proofs.Notifier
