/-
  Proofs for C13 / C14: the notifier coordinator's incident bookkeeping and gating
  (`Model/Notifier.lean`) against the history vocabulary of `Spec/Notifier.lean`.
-/
import BurrowVerif.Model.Notifier
import BurrowVerif.Spec.Notifier

namespace Burrow.Proofs.Notifier
open Burrow Burrow.Notifier Burrow.Spec.Notifier

/-! ### Status comparisons -/

theorem ne_ok_of_gt_ok {s : Status} (h : s > .ok) : s ≠ .ok := by
  intro h'
  rw [h'] at h
  exact absurd h (by decide)

theorem not_gt_ok_of_eq_ok {s : Status} (h : s = .ok) : ¬ s > .ok := fun h' => ne_ok_of_gt_ok h' h

/-! ### Association lists -/

theorem lookupT_setT_self (m : String) (t : Int) (l : List (String × Int)) :
    lookupT m (setT m t l) = some t := by
  induction l with
  | nil => simp [setT, lookupT]
  | cons kv rest ih =>
    obtain ⟨k, v⟩ := kv
    by_cases h : k = m <;> simp [setT, lookupT, h, ih]

theorem lookupT_setT_ne {m m' : String} (h : m' ≠ m) (t : Int) (l : List (String × Int)) :
    lookupT m (setT m' t l) = lookupT m l := by
  induction l with
  | nil => simp [setT, lookupT, h]
  | cons kv rest ih =>
    obtain ⟨k, v⟩ := kv
    by_cases h1 : k = m'
    · subst h1
      simp [setT, lookupT, h]
    · by_cases h2 : k = m
      · subst h2
        simp [setT, lookupT, h1]
      · simp [setT, lookupT, h1, h2, ih]

theorem lookupT_eraseT_self (m : String) (l : List (String × Int)) :
    lookupT m (eraseT m l) = none := by
  induction l with
  | nil => simp [eraseT, lookupT]
  | cons kv rest ih =>
    obtain ⟨k, v⟩ := kv
    by_cases h : k = m <;> simp [eraseT, lookupT, h, ih]

theorem lookupT_eraseT_ne {m m' : String} (h : m' ≠ m) (l : List (String × Int)) :
    lookupT m (eraseT m' l) = lookupT m l := by
  induction l with
  | nil => simp [eraseT, lookupT]
  | cons kv rest ih =>
    obtain ⟨k, v⟩ := kv
    by_cases h1 : k = m'
    · subst h1
      simp [eraseT, lookupT, h, ih]
    · by_cases h2 : k = m
      · subst h2
        simp [eraseT, lookupT, h1]
      · simp [eraseT, lookupT, h1, h2, ih]

theorem lookupG_setG_self (k : String × String) (v : GroupRec) (s : NState) :
    lookupG k (setG k v s) = some v := by
  induction s with
  | nil => simp [setG, lookupG]
  | cons kv rest ih =>
    obtain ⟨k', v'⟩ := kv
    by_cases h : k' = k <;> simp [setG, lookupG, h, ih]

theorem lookupG_setG_ne {k k' : String × String} (h : k' ≠ k) (v : GroupRec) (s : NState) :
    lookupG k (setG k' v s) = lookupG k s := by
  induction s with
  | nil => simp [setG, lookupG, h]
  | cons kv rest ih =>
    obtain ⟨k'', v'⟩ := kv
    by_cases h1 : k'' = k'
    · subst h1
      simp [setG, lookupG, h]
    · by_cases h2 : k'' = k
      · subst h2
        simp [setG, lookupG, h1]
      · simp [setG, lookupG, h1, h2, ih]

/-! ### `notifyModule` depends only on the module's own `lastNotify` entry -/

/-- `notifyModule` seen through the module's own `lastNotify` entry `l`. -/
def nmL (cfg : ModuleCfg) (l : Option Int) (status : Status) (now : Int)
    (start : Option Int) (id : Option Nat) : Option Int × Option Notification :=
  if start.isSome ∧ status = .ok ∧ cfg.sendClose then
    (none, some { module := cfg.name, status, id, start, close := true })
  else if (status.toNat : Int) < cfg.threshold then (l, none)
  else if l.isSome ∧ cfg.sendOnce then (l, none)
  else
    let due : Bool := match l with
      | none => true
      | some t => decide (now - t > cfg.sendInterval * 1000)
    if due then
      (some now, some { module := cfg.name, status, id, start, close := false })
    else (l, none)

theorem notifyModule_snd (cfg : ModuleCfg) (g : GroupRec) (st : Status) (now : Int)
    (start : Option Int) (id : Option Nat) :
    (notifyModule cfg g st now start id).2 =
      (nmL cfg (lookupT cfg.name g.lastNotify) st now start id).2 := by
  unfold notifyModule nmL
  generalize lookupT cfg.name g.lastNotify = l
  by_cases h1 : start.isSome ∧ st = .ok ∧ cfg.sendClose = true
  · simp only [h1, and_self, if_true]
  · by_cases h2 : (st.toNat : Int) < cfg.threshold
    · simp only [h1, h2, if_true, if_false]
    · by_cases h3 : l.isSome ∧ cfg.sendOnce = true
      · simp only [h1, h2, h3, and_self, if_true, if_false]
      · simp only [h1, h2, h3, if_false]
        split <;> rfl

theorem notifyModule_lookup_self (cfg : ModuleCfg) (g : GroupRec) (st : Status) (now : Int)
    (start : Option Int) (id : Option Nat) :
    lookupT cfg.name (notifyModule cfg g st now start id).1.lastNotify =
      (nmL cfg (lookupT cfg.name g.lastNotify) st now start id).1 := by
  unfold notifyModule nmL
  generalize hl : lookupT cfg.name g.lastNotify = l
  by_cases h1 : start.isSome ∧ st = .ok ∧ cfg.sendClose = true
  · simp only [h1, and_self, if_true, lookupT_eraseT_self]
  · by_cases h2 : (st.toNat : Int) < cfg.threshold
    · simp only [h1, h2, if_true, if_false, hl]
    · by_cases h3 : l.isSome ∧ cfg.sendOnce = true
      · simp only [h1, h2, h3, and_self, if_true, if_false, hl]
      · simp only [h1, h2, h3, if_false]
        split
        · simp only [lookupT_setT_self]
        · exact hl

theorem notifyModule_lookup_ne (cfg : ModuleCfg) (g : GroupRec) (st : Status) (now : Int)
    (start : Option Int) (id : Option Nat) (m : String) (hm : cfg.name ≠ m) :
    lookupT m (notifyModule cfg g st now start id).1.lastNotify = lookupT m g.lastNotify := by
  unfold notifyModule
  generalize lookupT cfg.name g.lastNotify = l
  by_cases h1 : start.isSome ∧ st = .ok ∧ cfg.sendClose = true
  · simp only [h1, and_self, if_true, lookupT_eraseT_ne hm]
  · by_cases h2 : (st.toNat : Int) < cfg.threshold
    · simp only [h1, h2, if_true, if_false]
    · by_cases h3 : l.isSome ∧ cfg.sendOnce = true
      · simp only [h1, h2, h3, and_self, if_true, if_false]
      · simp only [h1, h2, h3, if_false]
        split
        · simp only [lookupT_setT_ne hm]
        · rfl

theorem notifyModule_id (cfg : ModuleCfg) (g : GroupRec) (st : Status) (now : Int)
    (start : Option Int) (id : Option Nat) :
    (notifyModule cfg g st now start id).1.id = g.id ∧
    (notifyModule cfg g st now start id).1.start = g.start := by
  unfold notifyModule
  generalize lookupT cfg.name g.lastNotify = l
  by_cases h1 : start.isSome ∧ st = .ok ∧ cfg.sendClose = true
  · simp only [h1, and_self, if_true]
  · by_cases h2 : (st.toNat : Int) < cfg.threshold
    · simp only [h1, h2, if_true, if_false, and_self]
    · by_cases h3 : l.isSome ∧ cfg.sendOnce = true
      · simp only [h1, h2, h3, and_self, if_true, if_false]
      · simp only [h1, h2, h3, if_false]
        split <;> exact ⟨rfl, rfl⟩

/-- what a notification produced by `nmL` looks like -/
theorem nmL_some {cfg : ModuleCfg} {l : Option Int} {st : Status} {now : Int}
    {start : Option Int} {id : Option Nat} {n : Notification}
    (h : (nmL cfg l st now start id).2 = some n) :
    n.module = cfg.name ∧ n.status = st ∧ n.id = id ∧ n.start = start ∧
    (n.close = true → start.isSome ∧ st = .ok ∧ cfg.sendClose = true ∧
        (nmL cfg l st now start id).1 = none) ∧
    (n.close = false → ¬ (start.isSome ∧ st = .ok ∧ cfg.sendClose = true) ∧
        cfg.threshold ≤ (st.toNat : Int) ∧ ¬ (l.isSome ∧ cfg.sendOnce = true) ∧
        (∀ t, l = some t → now - t > cfg.sendInterval * 1000) ∧
        (nmL cfg l st now start id).1 = some now) := by
  unfold nmL at h ⊢
  split at h
  · rename_i hc
    simp only [Option.some.injEq] at h
    subst h
    simp [hc]
  · rename_i hc
    split at h
    · simp at h
    · rename_i hthr
      split at h
      · simp at h
      · rename_i honce
        split at h
        · rename_i hdue
          simp only [Option.some.injEq] at h
          subst h
          simp only [hc, hthr, honce, hdue, if_true, if_false]
          refine ⟨rfl, rfl, rfl, rfl, by simp, fun _ => ⟨by simpa using hc, by omega, honce, ?_, rfl⟩⟩
          intro t ht
          subst ht
          simpa using hdue
        · simp at h

/-- no notification: the entry is unchanged -/
theorem nmL_none {cfg : ModuleCfg} {l : Option Int} {st : Status} {now : Int}
    {start : Option Int} {id : Option Nat}
    (h : (nmL cfg l st now start id).2 = none) : (nmL cfg l st now start id).1 = l := by
  unfold nmL at h ⊢
  repeat' split
  all_goals first | rfl | simp_all

/-- the announcement: nothing recorded for the module, status bad and at threshold -/
theorem nmL_announce (cfg : ModuleCfg) (st : Status) (now : Int) (start : Option Int)
    (id : Option Nat) (hst : st ≠ .ok) (hthr : cfg.threshold ≤ (st.toNat : Int)) :
    ∃ n, (nmL cfg none st now start id).2 = some n ∧ n.close = false := by
  unfold nmL
  have h1 : ¬ (start.isSome ∧ st = .ok ∧ cfg.sendClose = true) := fun h => hst h.2.1
  have h2 : ¬ ((st.toNat : Int) < cfg.threshold) := by omega
  simp [h1, h2]

/-- the close: incident open, status OK, module configured for closes -/
theorem nmL_close (cfg : ModuleCfg) (l : Option Int) (now : Int) (start : Option Int)
    (id : Option Nat) (hs : start.isSome) (hc : cfg.sendClose = true) :
    ∃ n, (nmL cfg l .ok now start id).2 = some n ∧ n.close = true ∧ n.status = .ok := by
  unfold nmL
  simp [hs, hc]

end Burrow.Proofs.Notifier
