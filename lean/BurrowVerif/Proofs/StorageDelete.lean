/-
  C09 — deletion and expiry remove exactly what they name; the one-value-per-key invariant.
-/
import BurrowVerif.Proofs.AList

namespace Burrow.Proofs.StorageDelete
open Burrow Burrow.Storage Burrow.Spec.Storage Burrow.Proofs.AList

/-- case-split a handler body completely, reducing the `let`s in between -/
local macro "split_all" : tactic => `(tactic| repeat' (first | split | dsimp only))

/-! ### the invariant -/

/-- the per-cluster part of `WF` -/
def WFC (cm : Cluster) : Prop :=
  KeysNodup cm.broker ∧ KeysNodup cm.consumer ∧ ∀ gn g, (gn, g) ∈ cm.consumer → KeysNodup g.topics

theorem wfc_of_lookup {s : Store} {c : String} {cm : Cluster} (h : WF s) (hc : alookup c s.clusters = some cm) :
    WFC cm :=
  h.2 c cm (mem_of_alookup_some hc)

theorem topics_of_lookup {cm : Cluster} {k : String} {g : Group} (h : WFC cm) (hg : alookup k cm.consumer = some g) :
    KeysNodup g.topics :=
  h.2.2 k g (mem_of_alookup_some hg)

theorem wf_mk {cfg cfg' : Config} {cl : List (String × Cluster)} {c : String} {cm' : Cluster}
    (h : WF ⟨cfg, cl⟩) (hcm : WFC cm') : WF ⟨cfg', ainsert c cm' cl⟩ := by
  refine ⟨keysNodup_ainsert h.1, ?_⟩
  intro cn cm hm
  rcases mem_ainsert hm with ⟨_, rfl⟩ | h2
  · exact hcm
  · exact h.2 cn cm h2

theorem topics_insert {C : List (String × Group)} {k : String} {G : Group}
    (h : ∀ gn g, (gn, g) ∈ C → KeysNodup g.topics) (hG : KeysNodup G.topics) :
    ∀ gn g, (gn, g) ∈ ainsert k G C → KeysNodup g.topics := by
  intro gn g hm
  rcases mem_ainsert hm with ⟨_, rfl⟩ | h2
  · exact hG
  · exact h gn g h2

theorem topics_erase {C : List (String × Group)} {k : String}
    (h : ∀ gn g, (gn, g) ∈ C → KeysNodup g.topics) :
    ∀ gn g, (gn, g) ∈ aerase k C → KeysNodup g.topics :=
  fun gn g hm => h gn g (mem_of_mem_aerase hm)

theorem topics_getD {cm : Cluster} (h : WFC cm) (k : String) :
    KeysNodup ((alookup k cm.consumer).getD newGroup).topics := by
  cases hg : alookup k cm.consumer with
  | none => exact keysNodup_nil
  | some g => exact topics_of_lookup h hg

theorem wf_init (cfg : Config) (clusters : List String) : WF (Store.init cfg clusters) := by
  unfold Store.init
  suffices H : ∀ (acc : List (String × Cluster)), WF ⟨cfg, acc⟩ →
      WF ⟨cfg, clusters.foldl (fun acc c => ainsert c { broker := [], consumer := [] } acc) acc⟩ from
    H [] ⟨keysNodup_nil, by simp⟩
  induction clusters with
  | nil => intro acc h; exact h
  | cons x xs ih =>
    intro acc h
    rw [List.foldl_cons]
    exact ih _ (wf_mk h ⟨keysNodup_nil, keysNodup_nil, by simp⟩)

theorem wf_broker (s : Store) (r : Request) (h : WF s) : WF (addBrokerOffset s r).1 := by
  unfold addBrokerOffset
  split_all
  all_goals first
    | exact h
    | (have hcm := wfc_of_lookup h ‹alookup r.cluster s.clusters = some _›
       refine wf_mk h ?_
       first
         | exact hcm
         | exact ⟨keysNodup_ainsert hcm.1, hcm.2.1, hcm.2.2⟩)

theorem wf_commit (s : Store) (now : Int) (r : Request) (h : WF s) : WF (addConsumerOffset s now r).1 := by
  unfold addConsumerOffset
  split_all
  all_goals first
    | exact h
    | (have hcm := wfc_of_lookup h ‹alookup r.cluster s.clusters = some _›
       refine wf_mk h ?_
       first
         | exact ⟨hcm.1, keysNodup_ainsert hcm.2.1, topics_insert hcm.2.2 (topics_getD hcm _)⟩
         | exact ⟨hcm.1, keysNodup_ainsert hcm.2.1, topics_insert hcm.2.2 (keysNodup_ainsert (topics_getD hcm _))⟩)

theorem wf_owner (s : Store) (r : Request) (h : WF s) : WF (addConsumerOwner s r).1 := by
  unfold addConsumerOwner
  split
  · exact h
  · next cm hc =>
    have hcm := wfc_of_lookup h hc
    have hcm1 : WFC ⟨cm.broker, ainsert r.group ((alookup r.group cm.consumer).getD newGroup) cm.consumer⟩ :=
      ⟨hcm.1, keysNodup_ainsert hcm.2.1, topics_insert hcm.2.2 (topics_getD hcm _)⟩
    split_all
    all_goals first
      | exact h
      | exact wf_mk h hcm1
      | exact wf_mk (wf_mk (cfg' := s.cfg) h hcm1) ⟨hcm.1, keysNodup_ainsert hcm1.2.1,
          topics_insert hcm1.2.2 (keysNodup_ainsert (topics_getD hcm _))⟩

theorem wf_clear (s : Store) (r : Request) (h : WF s) : WF (clearConsumerOwners s r).1 := by
  unfold clearConsumerOwners
  split_all
  all_goals first
    | exact h
    | (have hcm := wfc_of_lookup h ‹alookup r.cluster s.clusters = some _›
       have hg := topics_of_lookup hcm ‹alookup r.group _ = some _›
       refine wf_mk h ⟨hcm.1, keysNodup_ainsert hcm.2.1, topics_insert hcm.2.2 ?_⟩
       refine keysNodup_map_of_fst ?_ hg
       exact fun p => rfl)

theorem wf_deleteTopic (s : Store) (r : Request) (h : WF s) : WF (deleteTopic s r).1 := by
  unfold deleteTopic
  split_all
  all_goals first
    | exact h
    | (have hcm := wfc_of_lookup h ‹alookup r.cluster s.clusters = some _›
       refine wf_mk h ⟨keysNodup_aerase hcm.1, keysNodup_map_of_fst ?_ hcm.2.1, ?_⟩
       · exact fun p => rfl
       intro gn g hm
       obtain ⟨⟨gn0, g0⟩, hm0, he⟩ := List.mem_map.1 hm
       cases he
       exact keysNodup_aerase (hcm.2.2 gn0 g0 hm0))

theorem wf_deleteGroup (s : Store) (r : Request) (h : WF s) : WF (deleteGroup s r).1 := by
  unfold deleteGroup
  split_all
  all_goals first
    | exact h
    | (have hcm := wfc_of_lookup h ‹alookup r.cluster s.clusters = some _›
       have hg := topics_of_lookup hcm ‹alookup r.group _ = some _›
       first
         | exact wf_mk h ⟨hcm.1, keysNodup_aerase hcm.2.1, topics_erase hcm.2.2⟩
         | exact wf_mk h ⟨hcm.1, keysNodup_ainsert hcm.2.1, topics_insert hcm.2.2 (keysNodup_aerase hg)⟩)

theorem wf_fetchConsumer (s : Store) (now : Int) (c g : String) (h : WF s) : WF (fetchConsumer s now c g).1 := by
  unfold fetchConsumer
  split_all
  all_goals first
    | exact h
    | (have hcm := wfc_of_lookup h ‹alookup c s.clusters = some _›
       exact wf_mk h ⟨hcm.1, keysNodup_aerase hcm.2.1, topics_erase hcm.2.2⟩)

theorem wf_apply (s : Store) (op : Op) (h : WF s) : WF (apply s op) := by
  cases op with
  | broker r => exact wf_broker s r h
  | commit now r => exact wf_commit s now r h
  | owner r => exact wf_owner s r h
  | clear r => exact wf_clear s r h
  | deleteTopic r => exact wf_deleteTopic s r h
  | deleteGroup r => exact wf_deleteGroup s r h
  | fetchConsumer now c g => exact wf_fetchConsumer s now c g h

/-! ### requests that change nothing -/

theorem too_old_commit_ignored (s : Store) (now : Int) (r : Request)
    (h : r.ts < (now - s.cfg.expireGroup) * 1000) : addConsumerOffset s now r = (s, .ok, none) := by
  unfold addConsumerOffset
  split
  · rfl
  · simp [h]

theorem unexpired_fetch_pure (s : Store) (now : Int) (c gname : String)
    (h : ∀ cm g, alookup c s.clusters = some cm → alookup gname cm.consumer = some g →
      ¬ ((now - s.cfg.expireGroup) * 1000 > g.lastCommit)) :
    (fetchConsumer s now c gname).1 = s := by
  unfold fetchConsumer
  split_all
  all_goals first
    | rfl
    | exact absurd ‹_ > _› (h _ _ ‹_› ‹_›)

theorem deleteGroup_absent (s : Store) (r : Request)
    (h : ∀ cm, alookup r.cluster s.clusters = some cm → alookup r.group cm.consumer = none) :
    (deleteGroup s r).1 = s := by
  unfold deleteGroup
  split
  · rfl
  · next cm hc =>
    rw [h cm hc]

theorem set_same {s : Store} {c : String} {cm : Cluster} (hc : alookup c s.clusters = some cm) :
    ({ s with clusters := ainsert c cm s.clusters } : Store) = s := by
  rw [ainsert_of_alookup hc]

theorem deleteGroupTopic_absent_topic (s : Store) (_hw : WF s) (r : Request) (hnt : r.topic ≠ "")
    (cm : Cluster) (g : Group)
    (hc : alookup r.cluster s.clusters = some cm) (hg : alookup r.group cm.consumer = some g)
    (ht : alookup r.topic g.topics = none) (hne : g.topics ≠ []) :
    (deleteGroup s r).1 = s := by
  unfold deleteGroup
  rw [hc]; dsimp only
  rw [hg]; dsimp only
  rw [if_pos hnt, aerase_of_alookup_none ht]
  have : ¬ g.topics.length = 0 := fun e => hne (List.length_eq_zero_iff.1 e)
  rw [if_neg this]
  dsimp only
  have h1 : ainsert r.group { g with topics := g.topics } cm.consumer = cm.consumer := ainsert_of_alookup hg
  rw [h1]
  exact set_same hc

theorem deleteTopic_absent (s : Store) (_hw : WF s) (r : Request)
    (h : ∀ cm, alookup r.cluster s.clusters = some cm →
      alookup r.topic cm.broker = none ∧ ∀ gn g, (gn, g) ∈ cm.consumer → alookup r.topic g.topics = none) :
    (deleteTopic s r).1 = s := by
  unfold deleteTopic
  split
  · rfl
  · next cm hc =>
    obtain ⟨hb, hg⟩ := h cm hc
    dsimp only
    rw [aerase_of_alookup_none hb]
    have : (cm.consumer.map fun x => (x.fst, ({ x.snd with topics := aerase r.topic x.snd.topics } : Group))) = cm.consumer := by
      apply map_eq_self_of_forall
      rintro ⟨k, v⟩ hm
      dsimp only
      rw [aerase_of_alookup_none (hg k v hm)]
    rw [this]
    exact set_same hc

/-! ### the fetch views in terms of the cluster lookup -/

/-- the consumer detail inside one cluster -/
def detailC (expire : Int) (cm : Cluster) (now : Int) (group : String) : FetchResult :=
  match alookup group cm.consumer with
  | none => .notFound
  | some g =>
    if (now - expire) * 1000 > g.lastCommit then .notFound
    else match lagPassAll cm (getConsumerTopicList g) with
      | none => .panic
      | some topics => .found topics

/-- all per-cluster views of a store, as functions of the cluster lookup -/
def detailO (expire : Int) (now : Int) (group : String) : Option Cluster → FetchResult
  | none => .notFound
  | some cm => detailC expire cm now group

theorem detail_eq (s : Store) (now : Int) (c g : String) :
    detail s now c g = detailO s.cfg.expireGroup now g (alookup c s.clusters) := by
  unfold detail fetchConsumer detailO
  cases hc : alookup c s.clusters with
  | none => rfl
  | some cm =>
    dsimp only
    unfold detailC
    cases hg : alookup g cm.consumer with
    | none => rfl
    | some G =>
      dsimp only
      split
      · rfl
      · cases lagPassAll cm (getConsumerTopicList G) <;> rfl

theorem groupsOf_eq (s : Store) (c : String) :
    groupsOf s c = ((alookup c s.clusters).map fun cm => akeys cm.consumer).getD [] := rfl

def fetchTopicO (topic : String) : Option Cluster → Option (List Int)
  | none => none
  | some cm => (alookup topic cm.broker).map fun l => l.filterMap fun ring => (ring.get 0).map (·.offset)

theorem fetchTopic_eq (s : Store) (c t : String) : fetchTopic s c t = fetchTopicO t (alookup c s.clusters) := by
  unfold fetchTopic fetchTopicO
  split_all
  all_goals simp_all

/-- the consumers of a topic inside one cluster -/
def consumersC (cm : Cluster) (topic : String) : List String :=
  (cm.consumer.filter fun p => (alookup topic p.2.topics).isSome).map (·.1)

theorem fetchConsumersForTopic_eq (s : Store) (c t : String) :
    fetchConsumersForTopic s c t = (alookup c s.clusters).map fun cm => consumersC cm t := rfl

theorem mem_consumersC {cm : Cluster} {t g : String} :
    g ∈ consumersC cm t ↔ ∃ G, (g, G) ∈ cm.consumer ∧ (alookup t G.topics).isSome = true := by
  unfold consumersC
  simp only [List.mem_map, List.mem_filter]
  constructor
  · rintro ⟨⟨g', G⟩, ⟨hm, hp⟩, rfl⟩
    exact ⟨G, hm, hp⟩
  · rintro ⟨G, hm, hp⟩
    exact ⟨(g, G), ⟨hm, hp⟩, rfl⟩

/-! ### the lag pass -/

/-- the lag pass of one topic -/
def lagParts (cm : Cluster) (t : String) (parts : List Eval.Partition) : Option (List Eval.Partition) :=
  match alookup t cm.broker with
  | none => some parts
  | some topicMap => lagPassTopic topicMap 0 parts

theorem lagPassAll_cons (cm : Cluster) (t : String) (parts : List Eval.Partition) (rest : ConsumerTopics) :
    lagPassAll cm ((t, parts) :: rest) =
      (lagParts cm t parts).bind fun parts' => (lagPassAll cm rest).bind fun rest' => some ((t, parts') :: rest') := by
  rw [lagPassAll]
  unfold lagParts
  cases alookup t cm.broker <;> rfl

theorem lagPassAll_cons_eq_some {cm : Cluster} {t : String} {parts : List Eval.Partition} {rest T : ConsumerTopics} :
    lagPassAll cm ((t, parts) :: rest) = some T ↔
      ∃ parts' rest', lagParts cm t parts = some parts' ∧ lagPassAll cm rest = some rest' ∧ T = (t, parts') :: rest' := by
  rw [lagPassAll_cons]
  cases lagParts cm t parts with
  | none => simp
  | some parts' =>
    cases lagPassAll cm rest with
    | none => simp
    | some rest' => simp [eq_comm]

theorem lagPassAll_keys {cm : Cluster} {L T : ConsumerTopics} (h : lagPassAll cm L = some T) : akeys T = akeys L := by
  induction L generalizing T with
  | nil => simp [lagPassAll] at h; subst h; rfl
  | cons p L ih =>
    obtain ⟨t, parts⟩ := p
    obtain ⟨parts', rest', _, h2, rfl⟩ := lagPassAll_cons_eq_some.1 h
    simp [ih h2]

/-- the lag pass over topics other than `t` does not depend on the broker's entry for `t` -/
theorem lagPassAll_of_not_mem {cm cm' : Cluster} {t : String}
    (hb : ∀ t', t' ≠ t → alookup t' cm'.broker = alookup t' cm.broker) {L : ConsumerTopics}
    (hL : t ∉ akeys L) : lagPassAll cm' L = lagPassAll cm L := by
  induction L with
  | nil => rfl
  | cons p L ih =>
    obtain ⟨t', parts⟩ := p
    have h1 : t' ≠ t := fun e => hL (by simp [e])
    have h2 : t ∉ akeys L := fun e => hL (List.mem_cons_of_mem _ e)
    rw [lagPassAll_cons, lagPassAll_cons, ih h2]
    unfold lagParts
    rw [hb t' h1]

/-- erasing a topic from the group (and possibly from the broker map) erases it from the result -/
theorem lagPassAll_aerase {cm cm' : Cluster} {t : String}
    (hb : ∀ t', t' ≠ t → alookup t' cm'.broker = alookup t' cm.broker) {L T : ConsumerTopics}
    (hn : KeysNodup L) (h : lagPassAll cm L = some T) :
    lagPassAll cm' (aerase t L) = some (aerase t T) := by
  induction L generalizing T with
  | nil => simp [lagPassAll] at h; subst h; rfl
  | cons p L ih =>
    obtain ⟨t', parts⟩ := p
    obtain ⟨hnk, hnl⟩ := keysNodup_cons.1 hn
    obtain ⟨parts', rest', h1, h2, rfl⟩ := lagPassAll_cons_eq_some.1 h
    rw [aerase_cons, aerase_cons]
    by_cases e : t' = t
    · rw [if_pos e, if_pos e]
      subst e
      rw [lagPassAll_of_not_mem hb hnk]
      exact h2
    · rw [if_neg e, if_neg e]
      refine lagPassAll_cons_eq_some.2 ⟨parts', _, ?_, ih hnl h2, rfl⟩
      unfold lagParts at h1 ⊢
      rw [hb t' e]
      exact h1

theorem lagPassAll_congr {cm cm' : Cluster} (h : cm'.broker = cm.broker) (L : ConsumerTopics) :
    lagPassAll cm' L = lagPassAll cm L := by
  induction L with
  | nil => rfl
  | cons p L ih =>
    obtain ⟨t', parts⟩ := p
    rw [lagPassAll_cons, lagPassAll_cons, ih]
    unfold lagParts
    rw [h]

/-! ### the topic list of a group -/

/-- the reply form of one stored partition -/
def toPart (cp : CPartition) : Eval.Partition :=
  { offsets := (match cp.ring with
      | some r => r.readout
      | none => []),
    brokerOffsets := [], owner := cp.owner, clientID := cp.clientID, currentLag := 0 }

theorem getConsumerTopicList_eq (g : Group) :
    getConsumerTopicList g = mapVal (fun _ parts => parts.map toPart) g.topics := by
  unfold getConsumerTopicList mapVal
  apply List.map_congr_left
  rintro ⟨t, parts⟩ _
  rfl

theorem akeys_getConsumerTopicList (g : Group) : akeys (getConsumerTopicList g) = akeys g.topics := by
  rw [getConsumerTopicList_eq, akeys_mapVal]

theorem getConsumerTopicList_erase (g : Group) (t : String) :
    getConsumerTopicList { g with topics := aerase t g.topics } = aerase t (getConsumerTopicList g) := by
  rw [getConsumerTopicList_eq, getConsumerTopicList_eq, aerase_mapVal]

theorem keysNodup_getConsumerTopicList {g : Group} (h : KeysNodup g.topics) : KeysNodup (getConsumerTopicList g) := by
  rw [keysNodup_iff, akeys_getConsumerTopicList]; exact h

/-! ### cluster-level facts about the detail view -/

theorem detailC_congr {e now : Int} {g : String} {cm cm' : Cluster} (hb : cm'.broker = cm.broker)
    (hg : alookup g cm'.consumer = alookup g cm.consumer) : detailC e cm' now g = detailC e cm now g := by
  unfold detailC
  rw [hg]
  cases alookup g cm.consumer with
  | none => rfl
  | some G => dsimp only; rw [lagPassAll_congr hb]

theorem detailC_notFound {e now : Int} {g : String} {cm : Cluster} (hg : alookup g cm.consumer = none) :
    detailC e cm now g = .notFound := by
  unfold detailC; rw [hg]

theorem detailC_hasTopic_false {e now : Int} {g t : String} {cm : Cluster}
    (h : ∀ G, alookup g cm.consumer = some G → t ∉ akeys G.topics) :
    FetchResult.hasTopic t (detailC e cm now g) = false := by
  unfold detailC
  cases hg : alookup g cm.consumer with
  | none => rfl
  | some G =>
    dsimp only
    split
    · rfl
    · cases hL : lagPassAll cm (getConsumerTopicList G) with
      | none => rfl
      | some T =>
        dsimp only [FetchResult.hasTopic]
        have : t ∉ akeys T := by
          rw [lagPassAll_keys hL, akeys_getConsumerTopicList]; exact h G hg
        rw [alookup_eq_none_iff.2 this]; rfl

theorem detailC_eraseTopic {e now : Int} {g t : String} {cm cm' : Cluster} {G : Group}
    (hb : ∀ t', t' ≠ t → alookup t' cm'.broker = alookup t' cm.broker)
    (hG : alookup g cm.consumer = some G) (hn : KeysNodup G.topics)
    (hG' : alookup g cm'.consumer = some { G with topics := aerase t G.topics })
    (hnp : detailC e cm now g ≠ .panic) :
    detailC e cm' now g = FetchResult.eraseTopic t (detailC e cm now g) := by
  unfold detailC at hnp ⊢
  rw [hG] at hnp ⊢
  rw [hG']
  dsimp only at hnp ⊢
  split
  · rfl
  · next hexp =>
    rw [if_neg hexp] at hnp
    rw [getConsumerTopicList_erase]
    cases hL : lagPassAll cm (getConsumerTopicList G) with
    | none => rw [hL] at hnp; exact absurd rfl hnp
    | some T => rw [lagPassAll_aerase hb (keysNodup_getConsumerTopicList hn) hL]; rfl

/-- a view of one cluster is unchanged by a request that rewrites cluster `c'` with `F`, provided
    the view does not see the difference -/
theorem view_frame {α : Sort _} (V : Option Cluster → α) (F : Cluster → Cluster) (o : Option Cluster)
    (b : Prop) [Decidable b] (hV : b → ∀ cm, o = some cm → V (some (F cm)) = V (some cm)) :
    V (if b then o.map F else o) = V o := by
  split
  · next hb =>
    cases ho : o with
    | none => rfl
    | some cm => exact hV hb cm ho
  · rfl

theorem clusterKeys_set {s : Store} {cfg : Config} {c : String} {cm cm' : Cluster}
    (hc : alookup c s.clusters = some cm) :
    fetchClusterList ⟨cfg, ainsert c cm' s.clusters⟩ = fetchClusterList s := by
  unfold fetchClusterList
  exact akeys_ainsert_of_alookup _ hc

/-! ### delete-group -/

theorem deleteGroup_cfg (s : Store) (r : Request) : (deleteGroup s r).1.cfg = s.cfg := by
  unfold deleteGroup
  split_all

theorem deleteGroup_clusterKeys (s : Store) (r : Request) :
    fetchClusterList (deleteGroup s r).1 = fetchClusterList s := by
  unfold deleteGroup
  split_all
  all_goals first
    | rfl
    | exact clusterKeys_set ‹alookup r.cluster s.clusters = some _›

theorem deleteGroup_lookup (s : Store) (r : Request) (ht : r.topic = "") (c : String) :
    alookup c (deleteGroup s r).1.clusters =
      if c = r.cluster then (alookup c s.clusters).map fun cm => { cm with consumer := aerase r.group cm.consumer }
      else alookup c s.clusters := by
  unfold deleteGroup
  cases hc : alookup r.cluster s.clusters with
  | none =>
    dsimp only
    split
    · next e => subst e; rw [hc]; rfl
    · rfl
  | some cm =>
    dsimp only
    cases hg : alookup r.group cm.consumer with
    | none =>
      dsimp only
      split
      · next e => subst e; rw [hc]; simp [aerase_of_alookup_none hg]
      · rfl
    | some g =>
      dsimp only
      rw [if_neg (by simp [ht])]
      dsimp only
      rw [alookup_ainsert]
      split
      · next e => subst e; rw [hc]; rfl
      · rfl

theorem not_mem_consumersC_erase {cm : Cluster} (hn : KeysNodup cm.consumer) (k t : String) :
    k ∉ consumersC { cm with consumer := aerase k cm.consumer } t := by
  intro hm
  obtain ⟨G, hG, _⟩ := mem_consumersC.1 hm
  exact ne_of_mem_aerase hn hG rfl

theorem deleteGroup_removes (s : Store) (h : WF s) (r : Request) (ht : r.topic = "") (now : Int) (t : String) :
    let s' := (deleteGroup s r).1
    r.group ∉ groupsOf s' r.cluster ∧ detail s' now r.cluster r.group = .notFound ∧
    r.group ∉ (fetchConsumersForTopic s' r.cluster t).getD [] := by
  dsimp only
  have hl := deleteGroup_lookup s r ht r.cluster
  rw [if_pos rfl] at hl
  rw [groupsOf_eq, detail_eq, fetchConsumersForTopic_eq, hl]
  cases hc : alookup r.cluster s.clusters with
  | none => simp [detailO]
  | some cm =>
    have hcm := wfc_of_lookup h hc
    refine ⟨?_, ?_, ?_⟩
    · exact not_mem_akeys_aerase hcm.2.1
    · exact detailC_notFound (alookup_aerase_self hcm.2.1)
    · exact not_mem_consumersC_erase hcm.2.1 _ _

theorem mem_consumersC_erase_ne {cm : Cluster} {k g t : String} (hg : g ≠ k) :
    g ∈ consumersC { cm with consumer := aerase k cm.consumer } t ↔ g ∈ consumersC cm t := by
  simp only [mem_consumersC, mem_aerase_ne hg]

theorem deleteGroup_frame (s : Store) (r : Request) (ht : r.topic = "") (now : Int) (c g t : String)
    (hne : ¬ (c = r.cluster ∧ g = r.group)) :
    let s' := (deleteGroup s r).1
    detail s' now c g = detail s now c g ∧ (g ∈ groupsOf s' c ↔ g ∈ groupsOf s c) ∧
    (g ∈ (fetchConsumersForTopic s' c t).getD [] ↔ g ∈ (fetchConsumersForTopic s c t).getD []) ∧
    fetchTopicList s' c = fetchTopicList s c ∧ fetchTopic s' c t = fetchTopic s c t ∧
    fetchClusterList s' = fetchClusterList s := by
  dsimp only
  have hl := deleteGroup_lookup s r ht c
  have hg : c = r.cluster → g ≠ r.group := fun e1 e2 => hne ⟨e1, e2⟩
  refine ⟨?_, ?_, ?_, ?_, ?_, deleteGroup_clusterKeys s r⟩
  · rw [detail_eq, detail_eq, hl, deleteGroup_cfg]
    refine view_frame (b := c = r.cluster) (detailO _ now g) _ _ fun hb cm _ => ?_
    exact detailC_congr rfl (alookup_aerase_ne (hg hb) _)
  · rw [groupsOf_eq, groupsOf_eq, hl]
    refine iff_of_eq (view_frame (b := c = r.cluster)
      (fun o => g ∈ (o.map fun cm => akeys cm.consumer).getD []) _ _ fun hb cm _ => ?_)
    exact propext (mem_akeys_aerase_ne (hg hb))
  · rw [fetchConsumersForTopic_eq, fetchConsumersForTopic_eq, hl]
    refine iff_of_eq (view_frame (b := c = r.cluster)
      (fun o => g ∈ (o.map fun cm => consumersC cm t).getD []) _ _ fun hb cm _ => ?_)
    exact propext (mem_consumersC_erase_ne (hg hb))
  · unfold fetchTopicList
    rw [hl]
    refine view_frame (b := c = r.cluster) (fun o => o.map fun cm => akeys cm.broker) _ _ ?_
    intro _ _ _; rfl
  · rw [fetchTopic_eq, fetchTopic_eq, hl]
    refine view_frame (b := c = r.cluster) (fetchTopicO t) _ _ ?_
    intro _ _ _; rfl

/-! ### expiry -/

theorem expired_notfound_then_gone (s : Store) (h : WF s) (now : Int) (c gname : String) (cm : Cluster) (g : Group)
    (hc : alookup c s.clusters = some cm) (hg : alookup gname cm.consumer = some g)
    (hexp : (now - s.cfg.expireGroup) * 1000 > g.lastCommit) :
    detail s now c gname = .notFound ∧ gname ∉ groupsOf (fetchConsumer s now c gname).1 c := by
  have hcm := wfc_of_lookup h hc
  unfold detail fetchConsumer
  rw [hc]; dsimp only
  rw [hg]; dsimp only
  rw [if_pos hexp]
  refine ⟨rfl, ?_⟩
  rw [groupsOf_eq]
  dsimp only
  rw [alookup_ainsert_self]
  exact not_mem_akeys_aerase hcm.2.1

/-! ### delete-group-topic -/

/-- the cluster after delete-group-topic, when cluster and group exist -/
def dgtCluster (r : Request) (cm : Cluster) (g : Group) : Cluster :=
  if (aerase r.topic g.topics).length = 0 then { cm with consumer := aerase r.group cm.consumer }
  else { cm with consumer := ainsert r.group { g with topics := aerase r.topic g.topics } cm.consumer }

theorem deleteGroupTopic_lookup (s : Store) (r : Request) (ht : r.topic ≠ "") (cm : Cluster) (g : Group)
    (hc : alookup r.cluster s.clusters = some cm) (hg : alookup r.group cm.consumer = some g) (c : String) :
    alookup c (deleteGroup s r).1.clusters =
      if c = r.cluster then (alookup c s.clusters).map fun _ => dgtCluster r cm g else alookup c s.clusters := by
  unfold deleteGroup dgtCluster
  rw [hc]; dsimp only
  rw [hg]; dsimp only
  rw [if_pos ht]
  split
  · dsimp only
    rw [alookup_ainsert]
    split
    · next e => subst e; rw [hc]; rfl
    · rfl
  · dsimp only
    rw [alookup_ainsert]
    split
    · next e => subst e; rw [hc]; rfl
    · rfl

theorem deleteGroupTopic_removes (s : Store) (h : WF s) (r : Request) (ht : r.topic ≠ "") (now : Int)
    (cm : Cluster) (g : Group) (hc : alookup r.cluster s.clusters = some cm)
    (hg : alookup r.group cm.consumer = some g) :
    let s' := (deleteGroup s r).1
    FetchResult.hasTopic r.topic (detail s' now r.cluster r.group) = false ∧
    r.group ∉ (fetchConsumersForTopic s' r.cluster r.topic).getD [] ∧
    (r.group ∈ groupsOf s' r.cluster ↔ aerase r.topic g.topics ≠ []) := by
  dsimp only
  have hl := deleteGroupTopic_lookup s r ht cm g hc hg r.cluster
  rw [if_pos rfl, hc] at hl
  have hcm := wfc_of_lookup h hc
  have hgt := topics_of_lookup hcm hg
  rw [groupsOf_eq, detail_eq, fetchConsumersForTopic_eq, hl]
  dsimp only [Option.map, Option.getD, detailO]
  unfold dgtCluster
  split
  · next hlen =>
    refine ⟨?_, ?_, ?_⟩
    · rw [detailC_notFound (alookup_aerase_self hcm.2.1)]; rfl
    · exact not_mem_consumersC_erase hcm.2.1 _ _
    · have : aerase r.topic g.topics = [] := List.length_eq_zero_iff.1 hlen
      simp [this, not_mem_akeys_aerase hcm.2.1]
  · next hlen =>
    refine ⟨?_, ?_, ?_⟩
    · apply detailC_hasTopic_false
      intro G hG
      dsimp only at hG
      rw [alookup_ainsert_self] at hG
      cases hG
      exact not_mem_akeys_aerase hgt
    · intro hm
      obtain ⟨G, hG, hp⟩ := mem_consumersC.1 hm
      dsimp only at hG
      have := eq_of_mem_ainsert_self hcm.2.1 hG
      subst this
      dsimp only at hp
      rw [alookup_aerase_self hgt] at hp
      exact absurd hp (by simp)
    · have : aerase r.topic g.topics ≠ [] := fun e => hlen (by rw [e]; rfl)
      simp [this, mem_akeys_ainsert]

theorem deleteGroupTopic_frame (s : Store) (h : WF s) (r : Request) (ht : r.topic ≠ "") (now : Int)
    (cm : Cluster) (g : Group) (hc : alookup r.cluster s.clusters = some cm)
    (hg : alookup r.group cm.consumer = some g) (hleft : aerase r.topic g.topics ≠ [])
    (hnp : detail s now r.cluster r.group ≠ .panic) :
    let s' := (deleteGroup s r).1
    detail s' now r.cluster r.group = FetchResult.eraseTopic r.topic (detail s now r.cluster r.group) ∧
    (∀ c g', ¬ (c = r.cluster ∧ g' = r.group) → detail s' now c g' = detail s now c g') ∧
    (∀ c, groupsOf s' c = groupsOf s c) ∧
    (∀ c t, fetchTopicList s' c = fetchTopicList s c ∧ fetchTopic s' c t = fetchTopic s c t) := by
  dsimp only
  have hl := deleteGroupTopic_lookup s r ht cm g hc hg
  have hcm := wfc_of_lookup h hc
  have hgt := topics_of_lookup hcm hg
  have hlen : ¬ (aerase r.topic g.topics).length = 0 := fun e => hleft (List.length_eq_zero_iff.1 e)
  have hF : dgtCluster r cm g =
      { cm with consumer := ainsert r.group { g with topics := aerase r.topic g.topics } cm.consumer } := by
    unfold dgtCluster; rw [if_neg hlen]
  rw [hF] at hl
  refine ⟨?_, ?_, ?_, ?_⟩
  · rw [detail_eq, detail_eq, hl, deleteGroup_cfg, if_pos rfl, hc] at *
    dsimp only [Option.map, detailO] at *
    exact detailC_eraseTopic (fun _ _ => rfl) hg hgt (alookup_ainsert_self _ _ _) hnp
  · intro c g' hne
    rw [detail_eq, detail_eq, hl, deleteGroup_cfg]
    refine view_frame (b := c = r.cluster) (detailO _ now g') _ _ ?_
    intro hb cm0 hcm0
    subst hb
    rw [hc] at hcm0
    cases hcm0
    exact detailC_congr rfl (alookup_ainsert_ne (fun e => hne ⟨rfl, e⟩) _ _)
  · intro c
    rw [groupsOf_eq, groupsOf_eq, hl]
    refine view_frame (b := c = r.cluster) (fun o => (o.map fun cm => akeys cm.consumer).getD []) _ _ ?_
    intro hb cm0 hcm0
    subst hb
    rw [hc] at hcm0
    cases hcm0
    dsimp only [Option.map, Option.getD]
    exact akeys_ainsert_of_alookup _ hg
  · intro c t
    constructor
    · unfold fetchTopicList
      rw [hl]
      refine view_frame (b := c = r.cluster) (fun o => o.map fun cm => akeys cm.broker) _ _ ?_
      intro hb cm0 hcm0
      subst hb
      rw [hc] at hcm0
      cases hcm0
      rfl
    · rw [fetchTopic_eq, fetchTopic_eq, hl]
      refine view_frame (b := c = r.cluster) (fetchTopicO t) _ _ ?_
      intro hb cm0 hcm0
      subst hb
      rw [hc] at hcm0
      cases hcm0
      rfl

/-! ### delete-topic -/

/-- a cluster after delete-topic -/
def dtCluster (t : String) (cm : Cluster) : Cluster :=
  { broker := aerase t cm.broker,
    consumer := mapVal (fun _ g => { g with topics := aerase t g.topics }) cm.consumer }

theorem deleteTopic_cfg (s : Store) (r : Request) : (deleteTopic s r).1.cfg = s.cfg := by
  unfold deleteTopic
  split_all

theorem deleteTopic_clusterKeys (s : Store) (r : Request) :
    fetchClusterList (deleteTopic s r).1 = fetchClusterList s := by
  unfold deleteTopic
  split_all
  all_goals first
    | rfl
    | exact clusterKeys_set ‹alookup r.cluster s.clusters = some _›

theorem deleteTopic_lookup (s : Store) (r : Request) (c : String) :
    alookup c (deleteTopic s r).1.clusters =
      if c = r.cluster then (alookup c s.clusters).map (dtCluster r.topic) else alookup c s.clusters := by
  unfold deleteTopic
  cases hc : alookup r.cluster s.clusters with
  | none =>
    dsimp only
    split
    · next e => subst e; rw [hc]; rfl
    · rfl
  | some cm =>
    dsimp only
    rw [alookup_ainsert]
    split
    · next e => subst e; rw [hc]; rfl
    · rfl

theorem dt_consumer_lookup (t g : String) (cm : Cluster) :
    alookup g (dtCluster t cm).consumer =
      (alookup g cm.consumer).map fun G => { G with topics := aerase t G.topics } := by
  unfold dtCluster
  dsimp only
  exact alookup_mapVal _ _ _

theorem dt_topic_absent {t g : String} {cm : Cluster} (hcm : WFC cm) {G : Group}
    (hG : alookup g (dtCluster t cm).consumer = some G) : t ∉ akeys G.topics := by
  rw [dt_consumer_lookup] at hG
  cases hG0 : alookup g cm.consumer with
  | none => rw [hG0] at hG; cases hG
  | some G0 =>
    rw [hG0] at hG
    cases hG
    exact not_mem_akeys_aerase (topics_of_lookup hcm hG0)

theorem deleteTopic_removes (s : Store) (h : WF s) (r : Request) (now : Int) (g : String)
    (hc : (alookup r.cluster s.clusters).isSome) :
    let s' := (deleteTopic s r).1
    r.topic ∉ (fetchTopicList s' r.cluster).getD [] ∧ fetchTopic s' r.cluster r.topic = none ∧
    FetchResult.hasTopic r.topic (detail s' now r.cluster g) = false ∧
    fetchConsumersForTopic s' r.cluster r.topic = some [] := by
  dsimp only
  obtain ⟨cm, hc⟩ := Option.isSome_iff_exists.1 hc
  have hl := deleteTopic_lookup s r r.cluster
  rw [if_pos rfl, hc] at hl
  have hcm := wfc_of_lookup h hc
  unfold fetchTopicList
  rw [fetchTopic_eq, detail_eq, fetchConsumersForTopic_eq, hl]
  dsimp only [Option.map, Option.getD, detailO, fetchTopicO]
  refine ⟨?_, ?_, ?_, ?_⟩
  · exact not_mem_akeys_aerase hcm.1
  · show Option.map _ (alookup r.topic (aerase r.topic cm.broker)) = none
    rw [alookup_aerase_self hcm.1]; rfl
  · exact detailC_hasTopic_false fun G hG => dt_topic_absent hcm hG
  · congr 1
    apply List.eq_nil_iff_forall_not_mem.2
    intro g' hm
    obtain ⟨G, hG, hp⟩ := mem_consumersC.1 hm
    have hn : KeysNodup (dtCluster r.topic cm).consumer := by
      unfold dtCluster
      dsimp only
      exact keysNodup_mapVal hcm.2.1
    have := dt_topic_absent hcm (alookup_of_mem hn hG)
    rw [alookup_eq_none_iff.2 this] at hp
    exact absurd hp (by simp)

theorem deleteTopic_frame (s : Store) (h : WF s) (r : Request) (now : Int) (c g t : String)
    (hnp : detail s now c g ≠ .panic) :
    let s' := (deleteTopic s r).1
    groupsOf s' c = groupsOf s c ∧ fetchClusterList s' = fetchClusterList s ∧
    (c ≠ r.cluster → detail s' now c g = detail s now c g ∧ fetchTopicList s' c = fetchTopicList s c ∧
        fetchTopic s' c t = fetchTopic s c t) ∧
    (c = r.cluster → detail s' now c g = FetchResult.eraseTopic r.topic (detail s now c g) ∧
        (t ≠ r.topic → fetchTopic s' c t = fetchTopic s c t ∧
           (t ∈ (fetchTopicList s' c).getD [] ↔ t ∈ (fetchTopicList s c).getD []))) := by
  dsimp only
  have hl := deleteTopic_lookup s r c
  refine ⟨?_, deleteTopic_clusterKeys s r, ?_, ?_⟩
  · rw [groupsOf_eq, groupsOf_eq, hl]
    refine view_frame (b := c = r.cluster) (fun o => (o.map fun cm => akeys cm.consumer).getD []) _ _ ?_
    intro _ cm _
    dsimp only [Option.map, Option.getD, dtCluster]
    exact akeys_mapVal _ _
  · intro hne
    rw [if_neg hne] at hl
    unfold fetchTopicList
    rw [detail_eq, detail_eq, fetchTopic_eq, fetchTopic_eq, hl, deleteTopic_cfg]
    exact ⟨rfl, rfl, rfl⟩
  · intro he
    rw [if_pos he] at hl
    unfold fetchTopicList
    rw [detail_eq, detail_eq, fetchTopic_eq, fetchTopic_eq, hl, deleteTopic_cfg]
    rw [detail_eq] at hnp
    cases hc : alookup c s.clusters with
    | none => exact ⟨rfl, fun _ => ⟨rfl, Iff.rfl⟩⟩
    | some cm =>
      have hcm := wfc_of_lookup h hc
      rw [hc] at hnp
      dsimp only [Option.map, Option.getD, detailO, fetchTopicO] at hnp ⊢
      refine ⟨?_, fun ht => ⟨?_, ?_⟩⟩
      · cases hG : alookup g cm.consumer with
        | none =>
          rw [detailC_notFound hG, detailC_notFound (by rw [dt_consumer_lookup, hG]; rfl)]; rfl
        | some G =>
          exact detailC_eraseTopic (fun t' ht' => alookup_aerase_ne ht' _) hG (topics_of_lookup hcm hG)
            (by rw [dt_consumer_lookup, hG]; rfl) hnp
      · show Option.map _ (alookup t (aerase r.topic cm.broker)) = Option.map _ (alookup t cm.broker)
        rw [alookup_aerase_ne ht]
      · exact mem_akeys_aerase_ne ht

end Burrow.Proofs.StorageDelete
