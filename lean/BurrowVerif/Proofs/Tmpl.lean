/-
  Soundness of the template type checker of `Model/Tmpl.lean`:
  a template accepted by `check` executes without error (and without leaving the modelled fragment)
  on every value that inhabits the schema type.
-/
import BurrowVerif.Model.Tmpl

namespace Burrow.Tmpl

/-- `v` inhabits type `τ` of schema `σ` -/
inductive HasTy (σ : Schema) : Val → Ty → Prop
  | str (s) : HasTy σ (.str s) .str
  | bool (b) : HasTy σ (.bool b) .bool
  | float (b) : HasTy σ (.float b) .float
  | time (t) : HasTy σ (.time t) .time
  | status (n) : HasTy σ (.status n) .status
  | int (w i) : HasTy σ (.int w i) (.int w)
  | uint (n) : HasTy σ (.uint n) .uint
  | nil (t) : HasTy σ .nil (.ptr t)
  | ptr {v t} : HasTy σ v t → HasTy σ (.ref v) (.ptr t)
  | ref {v t} : HasTy σ v t → HasTy σ (.ref v) (.ref t)
  | slice {vs t} : (∀ v, v ∈ vs → HasTy σ v t) → HasTy σ (.list vs) (.slice t)
  | map (kvs) : HasTy σ (.map kvs) .mapSS
  /-- a struct value carries exactly the fields of its definition, in order, each of its type -/
  | obj {n d fs} : σ.lookup n = some d →
      fs.map Prod.fst = d.fields.map Prod.fst →
      (∀ (i : Nat) (f : String) (v : Val) (f' : String) (t : Ty),
        fs[i]? = some (f, v) → d.fields[i]? = some (f', t) → HasTy σ v t) →
      HasTy σ (.obj d.tag fs) (.named n)

/-- argument lists inhabit parameter type lists -/
inductive ArgsTy (σ : Schema) : List Val → List Ty → Prop
  | nil : ArgsTy σ [] []
  | cons {v t vs ts} : HasTy σ v t → ArgsTy σ vs ts → ArgsTy σ (v :: vs) (t :: ts)

variable {σ : Schema} {env : Env}

/-- field lookup on a well-typed struct value -/
theorem fields_lookup : ∀ {fs : List (String × Val)} {fts : List (String × Ty)},
    fs.map Prod.fst = fts.map Prod.fst →
    (∀ (i : Nat) (f : String) (v : Val) (f' : String) (t : Ty), fs[i]? = some (f, v) → fts[i]? = some (f', t) → HasTy σ v t) →
    ∀ {name t}, fts.lookup name = some t → ∃ v, fs.lookup name = some v ∧ HasTy σ v t := by
  intro fs
  induction fs with
  | nil =>
    intro fts hn _ name t hl
    cases fts with
    | nil => simp at hl
    | cons a as => simp at hn
  | cons fv fs' ih =>
    intro fts hn hp name t hl
    cases fts with
    | nil => simp at hn
    | cons ft fts' =>
      obtain ⟨f, v⟩ := fv
      obtain ⟨f', t'⟩ := ft
      simp at hn
      obtain ⟨rfl, hn'⟩ := hn
      have h0 : HasTy σ v t' := hp 0 f v f t' rfl rfl
      have hp' : ∀ (i : Nat) (g : String) (w : Val) (g' : String) (u : Ty), fs'[i]? = some (g, w) → fts'[i]? = some (g', u) → HasTy σ w u :=
        fun i g w g' u h1 h2 => hp (i + 1) g w g' u (by simpa using h1) (by simpa using h2)
      simp only [List.lookup] at hl ⊢
      cases hk : name == f with
      | true => simp [hk] at hl ⊢; subst hl; exact h0
      | false => simp only [hk] at hl ⊢; exact ih (by simpa using hn') hp' hl

theorem fields_print : ∀ {fs : List (String × Val)} {fts : List (String × Ty)},
    fs.map Prod.fst = fts.map Prod.fst →
    (∀ (i : Nat) (f : String) (v : Val) (f' : String) (t : Ty), fs[i]? = some (f, v) → fts[i]? = some (f', t) → HasTy σ v t) →
    allScalar fts = true → ∃ ss, printFields env fs = some ss := by
  intro fs
  induction fs with
  | nil => intro _ _ _ _; exact ⟨[], rfl⟩
  | cons fv fs' ih =>
    intro fts hn hp hs
    cases fts with
    | nil => simp at hn
    | cons ft fts' =>
      obtain ⟨f, v⟩ := fv
      obtain ⟨f', t'⟩ := ft
      simp at hn
      obtain ⟨rfl, hn'⟩ := hn
      have h0 : HasTy σ v t' := hp 0 f v f t' rfl rfl
      have hp' : ∀ (i : Nat) (g : String) (w : Val) (g' : String) (u : Ty), fs'[i]? = some (g, w) → fts'[i]? = some (g', u) → HasTy σ w u :=
        fun i g w g' u h1 h2 => hp (i + 1) g w g' u (by simpa using h1) (by simpa using h2)
      simp [allScalar] at hs
      obtain ⟨ss, hss⟩ := ih (by simpa using hn') hp' hs.2
      have : ∃ s, printScalar env v = some s := by
        cases h0 <;> simp [scalarTy] at hs <;> simp [printScalar]
      obtain ⟨s, hs1⟩ := this
      exact ⟨s :: ss, by simp [printFields, hs1, hss]⟩

theorem structOf_cases {τ : Ty} {n d} (h : structOf σ τ = some (n, d)) :
    (τ = .named n ∨ τ = .ref (.named n)) ∧ σ.lookup n = some d := by
  unfold structOf at h
  split at h
  · rename_i m
    cases hl : σ.lookup m with
    | none => simp [hl] at h
    | some d' =>
      simp [hl] at h
      obtain ⟨rfl, rfl⟩ := h
      exact ⟨Or.inl rfl, hl⟩
  · rename_i m
    cases hl : σ.lookup m with
    | none => simp [hl] at h
    | some d' =>
      simp [hl] at h
      obtain ⟨rfl, rfl⟩ := h
      exact ⟨Or.inr rfl, hl⟩
  · simp at h

/-- a struct value or a non-nil pointer to one: the fields behind it -/
theorem obj_of_struct {τ : Ty} {n : String} {d : StructDef} {v : Val} (hl : σ.lookup n = some d)
    (hτ : τ = .named n ∨ τ = .ref (.named n)) (hv : HasTy σ v τ) :
    ∃ fs, (v = .obj d.tag fs ∨ v = .ref (.obj d.tag fs)) ∧ fs.map Prod.fst = d.fields.map Prod.fst ∧
      (∀ (i : Nat) (f : String) (v : Val) (f' : String) (t : Ty),
        fs[i]? = some (f, v) → d.fields[i]? = some (f', t) → HasTy σ v t) := by
  rcases hτ with rfl | rfl
  · cases hv with
    | obj h1 h2 h3 => rw [hl] at h1; cases h1; exact ⟨_, Or.inl rfl, h2, h3⟩
  · cases hv with
    | ref h =>
      cases h with
      | obj h1 h2 h3 => rw [hl] at h1; cases h1; exact ⟨_, Or.inr rfl, h2, h3⟩

theorem methodsOf_tag (hwf : wfTags σ = true) {n : String} {d : StructDef} (hl : σ.lookup n = some d) :
    methodsOf σ d.tag = d.methods := by
  have hmem : (n, d) ∈ σ := by
    clear hwf
    induction σ with
    | nil => simp at hl
    | cons a as ih =>
      obtain ⟨k, e⟩ := a
      simp only [List.lookup] at hl
      cases hk : n == k with
      | true => simp [hk] at hl; subst hl; simp at hk; subst hk; simp
      | false => simp only [hk] at hl; exact List.mem_cons_of_mem _ (ih hl)
  unfold wfTags at hwf
  rw [List.all_eq_true] at hwf
  have := hwf (n, d) hmem
  simpa using this

theorem fieldOf_obj (hwf : wfTags σ = true) {n fs name} {d : StructDef} (hl : σ.lookup n = some d)
    (hm : d.methods.contains name = false) {x} (hx : fs.lookup name = some x) {v : Val}
    (hv : v = .obj d.tag fs ∨ v = .ref (.obj d.tag fs)) : fieldOf σ v name = .ok x := by
  have hm' : ¬ name ∈ d.methods := by simpa using hm
  have hmo := methodsOf_tag hwf hl
  rcases hv with rfl | rfl <;> simp [fieldOf, hmo, hm', hx]

/-- one member access is sound -/
theorem tyStep_sound (hwf : wfTags σ = true) {τ : Ty} {name : String} {ats : List Ty} {τ' : Ty} {v : Val} {args : List Val}
    (ht : tyStep σ τ name ats = some τ') (hv : HasTy σ v τ)
    (hargs : ArgsTy σ args ats) :
    ∃ v', step σ env v name args = .ok v' ∧ HasTy σ v' τ' := by
  unfold tyStep at ht
  split at ht
  · -- time
    cases hv
    split at ht
    · rename_i hname
      split at ht
      · simp at ht; subst ht
        cases hargs with
        | cons h1 h2 =>
          cases h2
          cases h1
          exact ⟨_, by simp [step, hname] <;> rfl, .str _⟩
      · simp at ht
    · simp at ht
  · -- status
    cases hv
    split at ht
    · rename_i hc
      simp at ht; subst ht
      have : args = [] := by
        have := hc.2
        cases hargs with
        | nil => rfl
        | cons _ _ => simp at this
      subst this
      exact ⟨_, by simp [step, hc.1] <;> rfl, .str _⟩
    · simp at ht
  · -- struct
    cases hs : structOf σ τ with
    | none => rw [hs] at ht; simp at ht
    | some nd =>
      obtain ⟨n, d⟩ := nd
      rw [hs] at ht
      dsimp only at ht
      obtain ⟨hτ, hl⟩ := structOf_cases hs
      have ht' : ¬ name ∈ d.methods ∧ ats = [] ∧ d.fields.lookup name = some τ' := by simpa using ht
      obtain ⟨hm, he, hlook⟩ := ht'
      subst he
      cases hargs
      obtain ⟨fs, hvv, h2, h3⟩ := obj_of_struct hl hτ hv
      obtain ⟨x, hx, hxt⟩ := fields_lookup h2 h3 hlook
      have hf := fieldOf_obj (σ := σ) hwf hl (by simpa using hm) hx hvv
      refine ⟨x, ?_, hxt⟩
      rcases hvv with rfl | rfl <;> simp [step, hf]

theorem tyWalk_sound (hwf : wfTags σ = true) {chain : List String} : ∀ {τ τ' : Ty} {v : Val},
    tyWalk σ τ chain = some τ' → HasTy σ v τ → ∃ v', walk σ env v chain = .ok v' ∧ HasTy σ v' τ' := by
  induction chain with
  | nil => intro τ τ' v ht hv; simp [tyWalk] at ht; subst ht; exact ⟨v, rfl, hv⟩
  | cons f rest ih =>
    intro τ τ' v ht hv
    simp only [tyWalk] at ht
    cases hs : tyStep σ τ f [] with
    | none => simp [hs] at ht
    | some τ₁ =>
      simp only [hs] at ht
      obtain ⟨v₁, h1, h2⟩ := tyStep_sound (env := env) hwf hs hv .nil
      obtain ⟨v', h3, h4⟩ := ih ht h2
      exact ⟨v', by simp [walk, h1, h3], h4⟩

theorem tyArg_sound (hwf : wfTags σ = true) {dotτ : Ty} {dot : Val} {a : Arg} {τ : Ty}
    (ht : tyArg σ dotτ a = some τ) (hd : HasTy σ dot dotτ) :
    ∃ v, evalArg σ env dot a = .ok v ∧ HasTy σ v τ := by
  cases a with
  | dot => simp [tyArg] at ht; subst ht; exact ⟨dot, rfl, hd⟩
  | field chain => exact tyWalk_sound (env := env) hwf ht hd
  | str s => simp [tyArg] at ht; subst ht; exact ⟨_, rfl, .str s⟩
  | num n => simp [tyArg] at ht; subst ht; exact ⟨_, rfl, .int 0 n⟩
  | unsupported w => simp [tyArg] at ht

theorem tyArgs_sound (hwf : wfTags σ = true) {dotτ : Ty} {dot : Val} (hd : HasTy σ dot dotτ) :
    ∀ {as : List Arg} {ts : List Ty}, mapOpt (tyArg σ dotτ) as = some ts →
      ∃ vs, mapRes (evalArg σ env dot) as = .ok vs ∧ ArgsTy σ vs ts := by
  intro as
  induction as with
  | nil => intro ts h; simp [mapOpt] at h; subst h; exact ⟨[], rfl, .nil⟩
  | cons a rest ih =>
    intro ts h
    simp only [mapOpt] at h
    cases h1 : tyArg σ dotτ a with
    | none => simp [h1] at h
    | some t =>
      cases h2 : mapOpt (tyArg σ dotτ) rest with
      | none => simp [h1, h2] at h
      | some ts' =>
        simp [h1, h2] at h; subst h
        obtain ⟨v, hv1, hv2⟩ := tyArg_sound (env := env) hwf h1 hd
        obtain ⟨vs, hvs1, hvs2⟩ := ih h2
        exact ⟨v :: vs, by simp [mapRes, hv1, hvs1], .cons hv2 hvs2⟩

theorem forall₂_append_final {vs : List Val} {ts : List Ty} (h : ArgsTy σ vs ts)
    {fv : Option Val} {ft : Option Ty}
    (hf : (fv = none ∧ ft = none) ∨ (∃ v t, fv = some v ∧ ft = some t ∧ HasTy σ v t)) :
    ArgsTy σ (vs ++ fv.toList) (ts ++ ft.toList) := by
  rcases hf with ⟨rfl, rfl⟩ | ⟨v, t, rfl, rfl, hvt⟩
  · simpa using h
  · induction h with
    | nil => exact .cons hvt .nil
    | cons a _ ih => exact .cons a ih

/-- the functions in scope are sound for the argument types the checker admits -/
theorem tyBuiltin_sound {fn : String} {ats : List Ty} {τ : Ty} {args : List Val}
    (ht : tyBuiltin fn ats = some τ) (hargs : ArgsTy σ args ats) :
    ∃ v, builtin env fn args = .ok v ∧ HasTy σ v τ := by
  unfold tyBuiltin at ht
  by_cases h1 : fn = "len"
  · rw [if_pos h1] at ht
    split at ht <;> simp at ht <;> subst ht <;>
      (cases hargs with | cons h1 h2 => cases h2; cases h1; exact ⟨_, by simp [builtin, *, fnLen] <;> rfl, .int _ _⟩)
  rw [if_neg h1] at ht
  by_cases h2 : fn = "index"
  · rw [if_pos h2] at ht
    split at ht <;> simp at ht; subst ht
    cases hargs with
    | cons a1 a2 =>
      cases a2 with
      | cons a3 a4 =>
        cases a4; cases a1; cases a3
        exact ⟨_, by simp [builtin, h2, fnIndex] <;> rfl, .str _⟩
  rw [if_neg h2] at ht
  by_cases h3 : fn = "eq"
  · rw [if_pos h3] at ht
    split at ht
    · simp at ht; subst ht
      cases hargs with
      | cons a1 a2 =>
        cases a2 with
        | cons a3 a4 =>
          cases a4; cases a1; cases a3
          exact ⟨_, by simp [builtin, h3, fnEq] <;> rfl, .bool _⟩
    · simp at ht; subst ht
      cases hargs with
      | cons a1 a2 =>
        cases a2 with
        | cons a3 a4 =>
          cases a4; cases a1; cases a3
          exact ⟨_, by simp [builtin, h3, fnEq] <;> rfl, .bool _⟩
    · rename_i a b hns hnb
      split at ht
      · rename_i hab
        simp at ht; subst ht
        cases hargs with
        | cons a1 a2 =>
          cases a2 with
          | cons a3 a4 =>
            cases a4
            obtain ⟨ha, hb⟩ := hab
            cases a1 <;> simp [intLikeTy] at ha <;> cases a3 <;> simp [intLikeTy] at hb <;>
              exact ⟨_, by simp [builtin, h3, fnEq, intLike] <;> rfl, .bool _⟩
      · simp at ht
    · simp at ht
  rw [if_neg h3] at ht
  by_cases h4 : fn = "jsonencoder"
  · rw [if_pos h4] at ht
    split at ht <;> simp at ht <;> subst ht <;>
      (cases hargs with | cons a1 a2 => cases a2; cases a1; exact ⟨_, by simp [builtin, h4, fnJson] <;> rfl, .str _⟩)
  rw [if_neg h4] at ht
  by_cases h6 : fn = "add" ∨ fn = "minus" ∨ fn = "multiply"
  · rw [if_pos h6] at ht
    split at ht <;> simp at ht; subst ht
    cases hargs with
    | cons a1 a2 =>
      cases a2 with
      | cons a3 a4 =>
        cases a4; cases a1; cases a3
        rcases h6 with h | h | h <;> subst h <;>
          exact ⟨_, by simp [builtin, fnArith] <;> rfl, .int _ _⟩
  · rw [if_neg h6] at ht; simp at ht

theorem tyCmd_sound (hwf : wfTags σ = true) {dotτ : Ty} {dot : Val} (hd : HasTy σ dot dotτ) {c : Cmd} {τ : Ty}
    {fv : Option Val} {ft : Option Ty}
    (hf : (fv = none ∧ ft = none) ∨ (∃ v t, fv = some v ∧ ft = some t ∧ HasTy σ v t))
    (ht : tyCmd σ dotτ ft c = some τ) :
    ∃ v, evalCmd σ env dot fv c = .ok v ∧ HasTy σ v τ := by
  have hnone : ft.isNone = true → fv.isNone = true := by
    rcases hf with ⟨rfl, rfl⟩ | ⟨v, t, rfl, rfl, _⟩ <;> simp
  cases c with
  | dot =>
    simp only [tyCmd] at ht
    split at ht
    · rename_i h
      simp at ht; subst ht
      exact ⟨dot, by simp [evalCmd, hnone h], hd⟩
    · simp at ht
  | field pre name args =>
    simp only [tyCmd] at ht
    cases h1 : tyWalk σ dotτ pre with
    | none => simp [h1] at ht
    | some recvτ =>
      cases h2 : mapOpt (tyArg σ dotτ) args with
      | none => simp [h1, h2] at ht
      | some ts =>
        simp only [h1, h2] at ht
        obtain ⟨recv, hr1, hr2⟩ := tyWalk_sound (env := env) hwf h1 hd
        obtain ⟨vs, hv1, hv2⟩ := tyArgs_sound (env := env) hwf hd h2
        obtain ⟨v, hs1, hs2⟩ := tyStep_sound (env := env) hwf ht hr2 (forall₂_append_final hv2 hf)
        exact ⟨v, by simp [evalCmd, hr1, hv1, hs1], hs2⟩
  | call fn args =>
    simp only [tyCmd] at ht
    cases h2 : mapOpt (tyArg σ dotτ) args with
    | none => simp [h2] at ht
    | some ts =>
      simp only [h2] at ht
      obtain ⟨vs, hv1, hv2⟩ := tyArgs_sound (env := env) hwf hd h2
      obtain ⟨v, hs1, hs2⟩ := tyBuiltin_sound (env := env) ht (forall₂_append_final hv2 hf)
      exact ⟨v, by simp [evalCmd, hv1, hs1], hs2⟩
  | lit a =>
    simp only [tyCmd] at ht
    split at ht
    · rename_i h
      obtain ⟨v, h1, h2⟩ := tyArg_sound (env := env) hwf ht hd
      exact ⟨v, by simp [evalCmd, hnone h, h1], h2⟩
    · simp at ht
  | unsupported w => simp [tyCmd] at ht

theorem tyPipe_cons (dotτ : Ty) (fin : Option Ty) (c : Cmd) (cs : List Cmd) :
    tyPipe σ dotτ fin (c :: cs) =
      (match tyCmd σ dotτ fin c with
       | some t => tyPipe σ dotτ (some t) cs
       | none => none) := by
  cases fin <;> rfl

theorem evalPipe_cons (dot : Val) (fin : Option Val) (c : Cmd) (cs : List Cmd) :
    evalPipe σ env dot fin (c :: cs) =
      (match evalCmd σ env dot fin c with
       | .ok v => evalPipe σ env dot (some v) cs
       | .err w => .err w
       | .unsup w => .unsup w) := by
  cases fin <;> rfl

theorem tyPipe_sound (hwf : wfTags σ = true) {dotτ : Ty} {dot : Val} (hd : HasTy σ dot dotτ) :
    ∀ {cs : List Cmd} {τ : Ty} {fv : Option Val} {ft : Option Ty},
      ((fv = none ∧ ft = none) ∨ (∃ v t, fv = some v ∧ ft = some t ∧ HasTy σ v t)) →
      tyPipe σ dotτ ft cs = some τ →
      ∃ v, evalPipe σ env dot fv cs = .ok v ∧ HasTy σ v τ := by
  intro cs
  induction cs with
  | nil =>
    intro τ fv ft hf ht
    rcases hf with ⟨rfl, rfl⟩ | ⟨v, t, rfl, rfl, hvt⟩
    · simp [tyPipe] at ht
    · simp [tyPipe] at ht; subst ht; exact ⟨v, rfl, hvt⟩
  | cons c rest ih =>
    intro τ fv ft hf ht
    rw [tyPipe_cons] at ht
    cases h1 : tyCmd σ dotτ ft c with
    | none => rw [h1] at ht; simp at ht
    | some t =>
      rw [h1] at ht
      obtain ⟨v, hv1, hv2⟩ := tyCmd_sound (env := env) hwf hd hf h1
      obtain ⟨v', hr1, hr2⟩ := ih (Or.inr ⟨v, t, rfl, rfl, hv2⟩) ht
      refine ⟨v', ?_, hr2⟩
      rw [evalPipe_cons, hv1]; exact hr1

/-! ### printing -/

theorem printable_sound {τ : Ty} {v : Val} (hp : printable σ τ = true) (hv : HasTy σ v τ) :
    ∃ s, printVal env v = .ok s := by
  unfold printable at hp
  cases hsc : scalarTy τ with
  | true =>
    have : ∃ s, printScalar env v = some s := by
      cases hv <;> simp [scalarTy] at hsc <;> simp [printScalar]
    obtain ⟨s, hs⟩ := this
    exact ⟨s, by simp [printVal, hs]⟩
  | false =>
    simp only [hsc, Bool.false_or] at hp
    split at hp
    · -- ptr (named n)
      rename_i n
      cases hl : σ.lookup n with
      | none => simp [hl] at hp
      | some d =>
        simp only [hl] at hp
        cases hv with
        | nil => exact ⟨"<nil>", by simp [printVal, printScalar]⟩
        | ptr h =>
          cases h with
          | obj h1 h2 h3 =>
            rw [hl] at h1; cases h1
            obtain ⟨ss, hss⟩ := fields_print (env := env) h2 h3 hp
            exact ⟨_, by simp [printVal, printScalar, hss] <;> rfl⟩
    · rename_i n
      cases hl : σ.lookup n with
      | none => simp [hl] at hp
      | some d =>
        simp only [hl] at hp
        cases hv with
        | ref h =>
          cases h with
          | obj h1 h2 h3 =>
            rw [hl] at h1; cases h1
            obtain ⟨ss, hss⟩ := fields_print (env := env) h2 h3 hp
            exact ⟨_, by simp [printVal, printScalar, hss] <;> rfl⟩
    · rename_i n
      cases hl : σ.lookup n with
      | none => simp [hl] at hp
      | some d =>
        simp only [hl] at hp
        cases hv with
        | obj h1 h2 h3 =>
          rw [hl] at h1; cases h1
          obtain ⟨ss, hss⟩ := fields_print (env := env) h2 h3 hp
          exact ⟨_, by simp [printVal, printScalar, hss] <;> rfl⟩
    · simp at hp

/-! ### the main theorem -/

theorem concatRes_ok {rs : List (Res String)} (h : ∀ r ∈ rs, ∃ s, r = .ok s) : ∃ s, concatRes rs = .ok s := by
  induction rs with
  | nil => exact ⟨"", rfl⟩
  | cons r rest ih =>
    obtain ⟨s, rfl⟩ := h r (by simp)
    obtain ⟨t, ht⟩ := ih (fun r hr => h r (by simp [hr]))
    exact ⟨s ++ t, by simp [concatRes, ht]⟩

/-- **Soundness of the checker**: an accepted template renders (no error, nothing outside the
    modelled fragment) on every value of the type it was checked against, whatever the library
    renderings `env` are. -/
theorem check_sound (hwf : wfTags σ = true) (t : T) : ∀ {τ : Ty} {v : Val}, check σ t τ = true → HasTy σ v τ →
    ∃ out, exec σ env t v = .ok out := by
  induction t with
  | done => intro τ v _ _; exact ⟨"", rfl⟩
  | text s rest ih =>
    intro τ v hc hv
    obtain ⟨r, hr⟩ := ih (by simpa [check] using hc) hv
    exact ⟨s ++ r, by simp [exec, hr]⟩
  | action p rest ih =>
    intro τ v hc hv
    simp only [check, Bool.and_eq_true] at hc
    obtain ⟨hp, hrest⟩ := hc
    cases ht : tyPipe σ τ none p with
    | none => simp [ht] at hp
    | some t =>
      simp only [ht] at hp
      obtain ⟨x, hx1, hx2⟩ := tyPipe_sound (env := env) hwf hv (Or.inl ⟨rfl, rfl⟩) ht
      obtain ⟨s, hs⟩ := printable_sound (env := env) hp hx2
      obtain ⟨r, hr⟩ := ih hrest hv
      exact ⟨s ++ r, by simp [exec, hx1, hs, hr]⟩
  | ite p thn els rest ih1 ih2 ih3 =>
    intro τ v hc hv
    simp only [check, Bool.and_eq_true] at hc
    obtain ⟨⟨⟨hp, h1⟩, h2⟩, h3⟩ := hc
    cases ht : tyPipe σ τ none p with
    | none => simp [ht] at hp
    | some t =>
      obtain ⟨x, hx1, _⟩ := tyPipe_sound (env := env) hwf hv (Or.inl ⟨rfl, rfl⟩) ht
      obtain ⟨a, ha⟩ := ih1 h1 hv
      obtain ⟨b, hb⟩ := ih2 h2 hv
      obtain ⟨r, hr⟩ := ih3 h3 hv
      cases htr : truth x with
      | true => exact ⟨a ++ r, by simp [exec, hx1, htr, ha, hr]⟩
      | false => exact ⟨b ++ r, by simp [exec, hx1, htr, hb, hr]⟩
  | range p body els rest ih1 ih2 ih3 =>
    intro τ v hc hv
    simp only [check, Bool.and_eq_true] at hc
    obtain ⟨⟨hp, h2⟩, h3⟩ := hc
    cases ht : tyPipe σ τ none p with
    | none => simp [ht] at hp
    | some t =>
      simp only [ht] at hp
      cases t with
      | slice e =>
        simp at hp
        obtain ⟨x, hx1, hx2⟩ := tyPipe_sound (env := env) hwf hv (Or.inl ⟨rfl, rfl⟩) ht
        obtain ⟨b, hb⟩ := ih2 h2 hv
        obtain ⟨r, hr⟩ := ih3 h3 hv
        cases hx2 with
        | slice hall =>
          rename_i vs
          cases vs with
          | nil => exact ⟨b ++ r, by simp [exec, hx1, hb, hr]⟩
          | cons y ys =>
            have : ∃ s, concatRes ((y :: ys).map fun x => exec σ env body x) = .ok s := by
              apply concatRes_ok
              intro r hr
              simp only [List.mem_map] at hr
              obtain ⟨z, hz, rfl⟩ := hr
              exact ih1 hp (hall z hz)
            obtain ⟨s, hs⟩ := this
            simp only [List.map_cons] at hs
            exact ⟨s ++ r, by simp [exec, hx1, hs, hr]⟩
      | _ => simp at hp
  | unsupported w rest _ => intro τ v hc _; simp [check] at hc

end Burrow.Tmpl

namespace Burrow.Tmpl

/-- positional typing of a field list (a convenient way to build `HasTy.obj`) -/
inductive FieldsTy (σ : Schema) : List (String × Val) → List (String × Ty) → Prop
  | nil : FieldsTy σ [] []
  | cons {f v t fs fts} : HasTy σ v t → FieldsTy σ fs fts → FieldsTy σ ((f, v) :: fs) ((f, t) :: fts)

theorem FieldsTy.names {σ : Schema} {fs fts} (h : FieldsTy σ fs fts) : fs.map Prod.fst = fts.map Prod.fst := by
  induction h with
  | nil => rfl
  | cons _ _ ih => simp [ih]

theorem FieldsTy.pos {σ : Schema} {fs fts} (h : FieldsTy σ fs fts) :
    ∀ (i : Nat) (f : String) (v : Val) (f' : String) (t : Ty),
      fs[i]? = some (f, v) → fts[i]? = some (f', t) → HasTy σ v t := by
  induction h with
  | nil => intro i f v f' t h1; simp at h1
  | cons hv _ ih =>
    intro i f v f' t h1 h2
    cases i with
    | zero => simp at h1 h2; obtain ⟨_, rfl⟩ := h1; obtain ⟨_, rfl⟩ := h2; exact hv
    | succ j => exact ih j f v f' t (by simpa using h1) (by simpa using h2)

theorem HasTy.ofFields {σ : Schema} {n : String} {d : StructDef} {fs : List (String × Val)}
    (hl : σ.lookup n = some d) (h : FieldsTy σ fs d.fields) : HasTy σ (.obj d.tag fs) (.named n) :=
  .obj hl h.names h.pos

end Burrow.Tmpl
