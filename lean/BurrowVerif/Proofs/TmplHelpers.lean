import BurrowVerif.Model.TmplHelpers

namespace Burrow.Tmpl

theorem mem_dedupS (k : String) : ∀ l : List String, k ∈ dedupS l ↔ k ∈ l := by
  intro l
  induction l with
  | nil => simp [dedupS]
  | cons x xs ih =>
    simp only [dedupS, List.mem_cons, List.mem_filter, bne_iff_ne, ne_eq]
    constructor
    · rintro (h | ⟨h, _⟩)
      · exact Or.inl h
      · exact Or.inr (ih.mp h)
    · rintro (h | h)
      · exact Or.inl h
      · by_cases hk : k = x
        · exact Or.inl hk
        · exact Or.inr ⟨ih.mpr h, hk⟩

theorem nodup_dedupS : ∀ l : List String, (dedupS l).Nodup := by
  intro l
  induction l with
  | nil => simp [dedupS]
  | cons x xs ih =>
    simp only [dedupS, List.nodup_cons, List.mem_filter, bne_iff_ne, ne_eq]
    exact ⟨fun h => h.2 trivial, ih.filter _⟩

/-- **`topicsbystatus` lists, under each status name, exactly the topics that have a partition in that
    status** — each once — and a status name is a key exactly when some partition is in it -/
theorem topicsByStatus_spec (ps : List HPart) (s t : String) :
    (∃ ts, (s, ts) ∈ topicsByStatus ps ∧ t ∈ ts) ↔ ∃ p ∈ ps, statusName p.status = s ∧ p.topic = t := by
  unfold topicsByStatus
  constructor
  · rintro ⟨ts, hmem, ht⟩
    simp only [List.mem_map] at hmem
    obtain ⟨s', _, heq⟩ := hmem
    simp only [Prod.mk.injEq] at heq
    obtain ⟨rfl, rfl⟩ := heq
    rw [mem_dedupS] at ht
    simp only [List.mem_map, List.mem_filter, beq_iff_eq] at ht
    obtain ⟨p, ⟨hp, hs⟩, rfl⟩ := ht
    exact ⟨p, hp, hs, rfl⟩
  · rintro ⟨p, hp, rfl, rfl⟩
    refine ⟨_, List.mem_map.mpr ⟨statusName p.status, ?_, rfl⟩, ?_⟩
    · rw [mem_dedupS]; exact List.mem_map.mpr ⟨p, hp, rfl⟩
    · rw [mem_dedupS]
      exact List.mem_map.mpr ⟨p, List.mem_filter.mpr ⟨hp, by simp⟩, rfl⟩

theorem topicsByStatus_keys_nodup (ps : List HPart) : ((topicsByStatus ps).map (·.1)).Nodup := by
  unfold topicsByStatus
  simp only [List.map_map, Function.comp_def, List.map_id']
  exact nodup_dedupS _

theorem topicsByStatus_topics_nodup (ps : List HPart) : ∀ kv ∈ topicsByStatus ps, kv.2.Nodup := by
  intro kv h
  unfold topicsByStatus at h
  simp only [List.mem_map] at h
  obtain ⟨s, _, rfl⟩ := h
  exact nodup_dedupS _

/-- **`partitioncounts` counts every listed partition that is not OK exactly once** -/
theorem partitionCounts_total (ps : List HPart) :
    ((partitionCounts ps).map (·.2)).sum = (ps.filter fun p => p.status != 1).length := by
  unfold partitionCounts
  induction ps with
  | nil => rfl
  | cons p rest ih =>
    simp only [List.map_cons, List.map_nil, List.sum_cons, List.sum_nil, List.filter_cons] at ih ⊢
    by_cases h1 : p.status = 1 <;> by_cases h2 : p.status = 2 <;> by_cases h4 : p.status = 4 <;>
      by_cases h5 : p.status = 5 <;> by_cases h6 : p.status = 6 <;> simp_all <;> omega

end Burrow.Tmpl
