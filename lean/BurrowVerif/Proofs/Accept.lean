/-
  C10 — the storage handlers and the offsets-topic reader act only for accepted groups.
-/
import BurrowVerif.Proofs.AList
import BurrowVerif.Model.Decode

namespace Burrow.Proofs.Accept
open Burrow Burrow.Storage Burrow.Spec.Storage Burrow.Proofs.AList

theorem accept_iff (cfg : Config) (r : Request) :
    accept cfg r = true ↔ (cfg.allowSet = true → r.allowMatch = true) ∧ (cfg.denySet = true → r.denyMatch = false) := by
  unfold accept
  cases cfg.allowSet <;> cases cfg.denySet <;> cases r.allowMatch <;> cases r.denyMatch <;> simp

theorem rejected_commit_ignored (s : Store) (now : Int) (r : Request) (h : accept s.cfg r = false) :
    (addConsumerOffset s now r).1 = s := by
  unfold addConsumerOffset
  split
  · rfl
  · split
    · rfl
    · simp [h]

theorem rejected_owner_ignored (s : Store) (r : Request) (h : accept s.cfg r = false) :
    (addConsumerOwner s r).1 = s := by
  unfold addConsumerOwner
  split
  · rfl
  · simp [h]

theorem rejected_clear_ignored (s : Store) (r : Request) (h : accept s.cfg r = false) :
    (clearConsumerOwners s r).1 = s := by
  unfold clearConsumerOwners
  split
  · rfl
  · simp [h]

/-! ### which groups a cluster tracks, before and after a request -/

theorem groupsOf_eq (s : Store) (c : String) :
    groupsOf s c = match alookup c s.clusters with
      | none => []
      | some cm => akeys cm.consumer := by
  unfold groupsOf fetchConsumerList
  cases alookup c s.clusters <;> rfl

/-- the store after replacing one cluster -/
theorem groupsOf_set (s : Store) (c' : String) (cm' : Cluster) (c : String) :
    groupsOf { s with clusters := ainsert c' cm' s.clusters } c =
      if c = c' then akeys cm'.consumer else groupsOf s c := by
  rw [groupsOf_eq, groupsOf_eq]
  simp only [alookup_ainsert]
  by_cases e : c = c'
  · simp [e]
  · simp [e]

/-- a request that replaces cluster `c'` (present as `cm`) by a cluster whose groups all were in `cm`
    or satisfy `P` -/
theorem mem_groupsOf_set {s : Store} {c' : String} {cm cm' : Cluster} {c g : String} {P : Prop}
    (hc : alookup c' s.clusters = some cm)
    (hsub : c = c' → g ∈ akeys cm'.consumer → g ∈ akeys cm.consumer ∨ P)
    (h : g ∈ groupsOf { s with clusters := ainsert c' cm' s.clusters } c) :
    g ∈ groupsOf s c ∨ P := by
  rw [groupsOf_set] at h
  split at h
  · next e =>
    rcases hsub e h with h1 | h1
    · left; rw [groupsOf_eq, e, hc]; exact h1
    · exact Or.inr h1
  · exact Or.inl h

/-- case-split a handler body completely, reducing the `let`s in between -/
macro "split_all" : tactic => `(tactic| repeat' (first | split | dsimp only))

theorem cfg_apply (s : Store) (op : Op) : (apply s op).cfg = s.cfg := by
  cases op with
  | broker r =>
    simp only [apply]; unfold addBrokerOffset
    split_all
  | commit now r =>
    simp only [apply]; unfold addConsumerOffset
    split_all
  | owner r =>
    simp only [apply]; unfold addConsumerOwner
    split_all
  | clear r =>
    simp only [apply]; unfold clearConsumerOwners
    split_all
  | deleteTopic r =>
    simp only [apply]; unfold deleteTopic
    split_all
  | deleteGroup r =>
    simp only [apply]; unfold deleteGroup
    split_all
  | fetchConsumer now c g =>
    simp only [apply]; unfold fetchConsumer
    split_all

theorem mem_groupsOf_set_same {s : Store} {c' : String} {cm cm' : Cluster} {c g : String}
    (hc : alookup c' s.clusters = some cm) (hcons : ∀ g, g ∈ akeys cm'.consumer → g ∈ akeys cm.consumer)
    (h : g ∈ groupsOf { s with clusters := ainsert c' cm' s.clusters } c) : g ∈ groupsOf s c :=
  (mem_groupsOf_set (P := False) hc (fun _ hg => Or.inl (hcons g hg)) h).resolve_right id

theorem step_broker (s : Store) (r : Request) (c g : String)
    (h : g ∈ groupsOf (addBrokerOffset s r).1 c) : g ∈ groupsOf s c := by
  revert h
  unfold addBrokerOffset
  split_all
  all_goals intro h
  all_goals first
    | exact h
    | (have hc := ‹alookup r.cluster s.clusters = some _›
       refine mem_groupsOf_set_same hc ?_ h
       exact fun _ h => h)

theorem step_commit (s : Store) (now : Int) (r : Request) (c g : String)
    (h : g ∈ groupsOf (addConsumerOffset s now r).1 c) :
    g ∈ groupsOf s c ∨ (c = r.cluster ∧ g = r.group ∧ accept s.cfg r = true) := by
  revert h
  unfold addConsumerOffset
  split_all
  all_goals intro h
  all_goals first
    | exact Or.inl h
    | (have hc := ‹alookup r.cluster s.clusters = some _›
       refine mem_groupsOf_set hc (fun e hg => ?_) h
       rcases mem_akeys_ainsert.1 hg with e2 | e2
       · exact Or.inr ⟨e, e2, by simpa using ‹¬(!accept s.cfg r) = true›⟩
       · exact Or.inl e2)

theorem step_owner (s : Store) (r : Request) (c g : String)
    (h : g ∈ groupsOf (addConsumerOwner s r).1 c) :
    g ∈ groupsOf s c ∨ (c = r.cluster ∧ g = r.group ∧ accept s.cfg r = true) := by
  revert h
  unfold addConsumerOwner
  split
  · exact Or.inl
  · next cm hc =>
    split
    · exact Or.inl
    · next hacc =>
      have hacc : accept s.cfg r = true := by simpa using hacc
      have key1 : ∀ G, g ∈ groupsOf (Store.mk s.cfg (ainsert r.cluster
            (Cluster.mk cm.broker (ainsert r.group G cm.consumer)) s.clusters)) c →
          g ∈ groupsOf s c ∨ (c = r.cluster ∧ g = r.group ∧ accept s.cfg r = true) := by
        intro G h
        refine mem_groupsOf_set hc (fun e hg => ?_) h
        rcases mem_akeys_ainsert.1 hg with e2 | e2
        · exact Or.inr ⟨e, e2, hacc⟩
        · exact Or.inl e2
      have key2 : ∀ G G' cm1, g ∈ groupsOf (Store.mk s.cfg (ainsert r.cluster
            (Cluster.mk cm.broker (ainsert r.group G' (ainsert r.group G cm.consumer)))
            (ainsert r.cluster cm1 s.clusters))) c →
          g ∈ groupsOf s c ∨ (c = r.cluster ∧ g = r.group ∧ accept s.cfg r = true) := by
        intro G G' cm1 h
        rw [groupsOf_eq] at h
        simp only [alookup_ainsert] at h
        by_cases e : c = r.cluster
        · simp only [e, if_true] at h
          rcases mem_akeys_ainsert.1 h with e2 | e2
          · exact Or.inr ⟨e, e2, hacc⟩
          · rcases mem_akeys_ainsert.1 e2 with e3 | e3
            · exact Or.inr ⟨e, e3, hacc⟩
            · left; rw [groupsOf_eq, e, hc]; exact e3
        · simp only [e, if_false] at h
          left; rw [groupsOf_eq]; exact h
      split_all
      all_goals intro h
      all_goals first
        | exact key1 _ h
        | exact key2 _ _ _ h

theorem step_clear (s : Store) (r : Request) (c g : String)
    (h : g ∈ groupsOf (clearConsumerOwners s r).1 c) : g ∈ groupsOf s c := by
  revert h
  unfold clearConsumerOwners
  split_all
  all_goals intro h
  all_goals first
    | exact h
    | (have hc := ‹alookup r.cluster s.clusters = some _›
       have hg := ‹alookup r.group _ = some _›
       refine mem_groupsOf_set_same hc ?_ h
       intro g' hg'
       rcases mem_akeys_ainsert.1 hg' with e | e
       · exact e ▸ mem_akeys_iff_alookup.2 ⟨_, hg⟩
       · exact e)

theorem step_deleteTopic (s : Store) (r : Request) (c g : String)
    (h : g ∈ groupsOf (deleteTopic s r).1 c) : g ∈ groupsOf s c := by
  revert h
  unfold deleteTopic
  split_all
  all_goals intro h
  all_goals first
    | exact h
    | (have hc := ‹alookup r.cluster s.clusters = some _›
       refine mem_groupsOf_set_same hc ?_ h
       intro g' hg'
       simpa [akeys, List.map_map, Function.comp_def] using hg')

theorem step_deleteGroup (s : Store) (r : Request) (c g : String)
    (h : g ∈ groupsOf (deleteGroup s r).1 c) : g ∈ groupsOf s c := by
  revert h
  unfold deleteGroup
  split_all
  all_goals intro h
  all_goals first
    | exact h
    | (have hc := ‹alookup r.cluster s.clusters = some _›
       refine mem_groupsOf_set_same hc ?_ h
       intro g' hg'
       exact mem_akeys_of_mem_akeys_aerase hg')
    | (have hc := ‹alookup r.cluster s.clusters = some _›
       have hg := ‹alookup r.group _ = some _›
       refine mem_groupsOf_set_same hc ?_ h
       intro g' hg'
       rcases mem_akeys_ainsert.1 hg' with e | e
       · exact e ▸ mem_akeys_iff_alookup.2 ⟨_, hg⟩
       · exact e)

theorem step_fetchConsumer (s : Store) (now : Int) (c' g' : String) (c g : String)
    (h : g ∈ groupsOf (fetchConsumer s now c' g').1 c) : g ∈ groupsOf s c := by
  revert h
  unfold fetchConsumer
  split_all
  all_goals intro h
  all_goals first
    | exact h
    | (have hc := ‹alookup c' s.clusters = some _›
       refine mem_groupsOf_set_same hc ?_ h
       intro g' hg'
       exact mem_akeys_of_mem_akeys_aerase hg')

/-- one request: a group tracked afterwards was tracked before, or the request is an accepted
    commit / ownership update naming it -/
theorem step (s : Store) (op : Op) (c g : String) (h : g ∈ groupsOf (apply s op) c) :
    g ∈ groupsOf s c ∨ (op.creates c g = true ∧ ∃ r, op.request? = some r ∧ accept s.cfg r = true) := by
  cases op with
  | broker r => exact Or.inl (step_broker s r c g h)
  | commit now r =>
    rcases step_commit s now r c g h with h1 | ⟨h1, h2, h3⟩
    · exact Or.inl h1
    · exact Or.inr ⟨by simp [Op.creates, h1, h2], r, rfl, h3⟩
  | owner r =>
    rcases step_owner s r c g h with h1 | ⟨h1, h2, h3⟩
    · exact Or.inl h1
    · exact Or.inr ⟨by simp [Op.creates, h1, h2], r, rfl, h3⟩
  | clear r => exact Or.inl (step_clear s r c g h)
  | deleteTopic r => exact Or.inl (step_deleteTopic s r c g h)
  | deleteGroup r => exact Or.inl (step_deleteGroup s r c g h)
  | fetchConsumer now c' g' => exact Or.inl (step_fetchConsumer s now c' g' c g h)

theorem cfg_run (s : Store) (ops : List Op) : (run s ops).cfg = s.cfg := by
  unfold run
  induction ops generalizing s with
  | nil => rfl
  | cons op ops ih => rw [List.foldl_cons, ih, cfg_apply]

theorem run_cons (s : Store) (op : Op) (ops : List Op) : run s (op :: ops) = run (apply s op) ops := rfl

theorem run_tracks (s : Store) (ops : List Op) (c g : String) (h : g ∈ groupsOf (run s ops) c) :
    g ∈ groupsOf s c ∨
      ∃ op ∈ ops, op.creates c g = true ∧ ∃ r, op.request? = some r ∧ accept s.cfg r = true := by
  induction ops generalizing s with
  | nil => exact Or.inl h
  | cons op ops ih =>
    rw [run_cons] at h
    rcases ih _ h with h1 | ⟨op', hm, h5, r, h6, h7⟩
    · rcases step s op c g h1 with h2 | ⟨h2, r, h3, h4⟩
      · exact Or.inl h2
      · exact Or.inr ⟨op, List.mem_cons_self, h2, r, h3, h4⟩
    · rw [cfg_apply] at h7
      exact Or.inr ⟨op', List.mem_cons_of_mem _ hm, h5, r, h6, h7⟩

theorem init_fold_lookup (c : String) (clusters : List String) : ∀ (acc : List (String × Cluster)),
    (∀ cm, alookup c acc = some cm → cm.consumer = []) →
    ∀ cm, alookup c (clusters.foldl (fun acc c => ainsert c { broker := [], consumer := [] } acc) acc) = some cm →
      cm.consumer = [] := by
  induction clusters with
  | nil => intro acc hacc cm h; exact hacc cm h
  | cons x xs ih =>
    intro acc hacc cm h
    rw [List.foldl_cons] at h
    refine ih _ ?_ cm h
    intro cm' h'
    rw [alookup_ainsert] at h'
    split at h'
    · cases h'; rfl
    · exact hacc cm' h'

theorem init_lookup (cfg : Config) (clusters : List String) (c : String) (cm : Cluster)
    (h : alookup c (Store.init cfg clusters).clusters = some cm) : cm.consumer = [] :=
  init_fold_lookup c clusters [] (by simp) cm h

theorem groupsOf_init (cfg : Config) (clusters : List String) (c : String) :
    groupsOf (Store.init cfg clusters) c = [] := by
  rw [groupsOf_eq]
  split
  · rfl
  · next cm h => rw [init_lookup cfg clusters c cm h]; rfl

theorem storage_tracks_only_accepted (cfg : Config) (clusters : List String) (ops : List Op)
    (c g : String) (h : g ∈ groupsOf (run (Store.init cfg clusters) ops) c) :
    ∃ op ∈ ops, op.creates c g = true ∧ ∃ r, op.request? = some r ∧ accept cfg r = true := by
  rcases run_tracks _ ops c g h with h1 | h1
  · rw [groupsOf_init] at h1; simp at h1
  · exact h1

/-! ### the offsets-topic reader -/

open Burrow.Decode in
theorem ownerReqs_group (group : Bytes) (m : Member) : ∀ r ∈ ownerReqs group m, r.group = group := by
  intro r hr
  unfold ownerReqs at hr
  simp only [List.mem_flatMap, List.mem_map] at hr
  obtain ⟨⟨t, ps⟩, _, p, _, rfl⟩ := hr
  rfl

open Burrow.Decode in
theorem membersLoop_group (version : Int) (group : Bytes) : ∀ (n : Nat) (s : DState) (acc : List Req),
    (∀ r ∈ acc, r.group = group) → ∀ r ∈ (membersLoop version group n s acc).1, r.group = group := by
  intro n
  induction n with
  | zero => intro s acc h; simpa [membersLoop] using h
  | succ n ih =>
    intro s acc h
    unfold membersLoop
    split
    · apply ih
      intro r hr
      rcases List.mem_append.1 hr with h1 | h1
      · exact h r h1
      · exact ownerReqs_group group _ r h1
    · exact h
    · exact h

open Burrow.Decode in
theorem decodeAndSend_group (version : Int) (group : Bytes) (s : DState) :
    ∀ r ∈ (decodeAndSendGroupMetadata version group s).reqs, r.group = group := by
  unfold decodeAndSendGroupMetadata
  split_all
  all_goals first
    | (intro r hr; simp at hr; done)
    | (intro r hr; simp at hr; subst hr; rfl)
    | (next heq =>
        have h2 := congrArg Prod.fst heq
        simp only at h2
        rw [← h2]
        exact membersLoop_group _ _ _ _ _ (by simp))

open Burrow.Decode in
theorem decodeGroupMetadata_accepted (acc : Decode.Accept) (keyRest value : Bytes) :
    ∀ r ∈ (decodeGroupMetadata acc keyRest value).reqs, acc r.group = true := by
  unfold decodeGroupMetadata
  split_all
  all_goals first
    | (intro r hr; simp at hr; done)
    | (intro r hr
       have hacc := ‹¬(!acc _) = true›
       simp only [Bool.not_eq_true', Bool.not_eq_false] at hacc
       first
         | (simp at hr; subst hr; exact hacc)
         | (rw [decodeAndSend_group _ _ _ r hr]; exact hacc))

open Burrow.Decode in
theorem decodeKeyAndOffset_accepted (acc : Decode.Accept) (order : Int) (keyRest value : Bytes) :
    ∀ r ∈ (decodeKeyAndOffset acc order keyRest value).reqs, acc r.group = true := by
  unfold decodeKeyAndOffset
  split_all
  all_goals first
    | (intro r hr; simp at hr; done)
    | (intro r hr
       have hacc := ‹¬(!acc _) = true›
       simp only [Bool.not_eq_true', Bool.not_eq_false] at hacc
       simp at hr; subst hr; exact hacc)

theorem kafka_reader_forwards_only_accepted (acc : Decode.Accept) (order : Int) (k v : Decode.Bytes) :
    ∀ r ∈ (Decode.processMessage acc order k v).reqs, acc r.group = true := by
  unfold Decode.processMessage
  split_all
  all_goals first
    | (intro r hr; simp at hr; done)
    | exact decodeKeyAndOffset_accepted _ _ _ _
    | exact decodeGroupMetadata_accepted _ _ _

end Burrow.Proofs.Accept
