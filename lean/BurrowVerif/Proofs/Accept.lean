/-
  C10 — the storage handlers and the offsets-topic reader act only for accepted groups.
-/
import BurrowVerif.Proofs.AList
import BurrowVerif.Model.Decode

namespace Burrow.Proofs.Accept
open Burrow Burrow.Storage Burrow.Spec.Storage Burrow.Proofs.AList

theorem accept_iff (cfg : Config) (r : Request) :
    accept cfg r = true ↔ (cfg.allowSet = true → r.allowMatch = true) ∧ (cfg.denySet = true → r.denyMatch = false) := by
  unfold accept
  cases cfg.allowSet <;> cases cfg.denySet <;> cases r.allowMatch <;> cases r.denyMatch <;> simp

theorem rejected_commit_ignored (s : Store) (now : Int) (r : Request) (h : accept s.cfg r = false) :
    (addConsumerOffset s now r).1 = s := by
  unfold addConsumerOffset
  split
  · rfl
  · split
    · rfl
    · simp [h]

theorem rejected_owner_ignored (s : Store) (r : Request) (h : accept s.cfg r = false) :
    (addConsumerOwner s r).1 = s := by
  unfold addConsumerOwner
  split
  · rfl
  · simp [h]

theorem rejected_clear_ignored (s : Store) (r : Request) (h : accept s.cfg r = false) :
    (clearConsumerOwners s r).1 = s := by
  unfold clearConsumerOwners
  split
  · rfl
  · simp [h]

/-! ### which groups a cluster tracks, before and after a request -/

theorem groupsOf_eq (s : Store) (c : String) :
    groupsOf s c = match alookup c s.clusters with
      | none => []
      | some cm => akeys cm.consumer := by
  unfold groupsOf fetchConsumerList
  cases alookup c s.clusters <;> rfl

/-- the store after replacing one cluster -/
theorem groupsOf_set (s : Store) (c' : String) (cm' : Cluster) (c : String) :
    groupsOf { s with clusters := ainsert c' cm' s.clusters } c =
      if c = c' then akeys cm'.consumer else groupsOf s c := by
  rw [groupsOf_eq, groupsOf_eq]
  simp only [alookup_ainsert]
  by_cases e : c = c'
  · simp [e]
  · simp [e]

/-- a request that replaces cluster `c'` (present as `cm`) by a cluster whose groups all were in `cm`
    or satisfy `P` -/
theorem mem_groupsOf_set {s : Store} {c' : String} {cm cm' : Cluster} {c g : String} {P : Prop}
    (hc : alookup c' s.clusters = some cm)
    (hsub : c = c' → g ∈ akeys cm'.consumer → g ∈ akeys cm.consumer ∨ P)
    (h : g ∈ groupsOf { s with clusters := ainsert c' cm' s.clusters } c) :
    g ∈ groupsOf s c ∨ P := by
  rw [groupsOf_set] at h
  split at h
  · next e =>
    rcases hsub e h with h1 | h1
    · left; rw [groupsOf_eq, e, hc]; exact h1
    · exact Or.inr h1
  · exact Or.inl h

/-- case-split a handler body completely, reducing the `let`s in between -/
macro "split_all" : tactic => `(tactic| repeat' (first | split | dsimp only))

theorem cfg_apply (s : Store) (op : Op) : (apply s op).cfg = s.cfg := by
  cases op with
  | broker r =>
    simp only [apply]; unfold addBrokerOffset
    split_all
  | commit now r =>
    simp only [apply]; unfold addConsumerOffset
    split_all
  | owner r =>
    simp only [apply]; unfold addConsumerOwner
    split_all
  | clear r =>
    simp only [apply]; unfold clearConsumerOwners
    split_all
  | deleteTopic r =>
    simp only [apply]; unfold deleteTopic
    split_all
  | deleteGroup r =>
    simp only [apply]; unfold deleteGroup
    split_all
  | fetchConsumer now c g =>
    simp only [apply]; unfold fetchConsumer
    split_all

theorem mem_groupsOf_set_same {s : Store} {c' : String} {cm cm' : Cluster} {c g : String}
    (hc : alookup c' s.clusters = some cm) (hcons : ∀ g, g ∈ akeys cm'.consumer → g ∈ akeys cm.consumer)
    (h : g ∈ groupsOf { s with clusters := ainsert c' cm' s.clusters } c) : g ∈ groupsOf s c :=
  (mem_groupsOf_set (P := False) hc (fun _ hg => Or.inl (hcons g hg)) h).resolve_right id

theorem step_broker (s : Store) (r : Request) (c g : String)
    (h : g ∈ groupsOf (addBrokerOffset s r).1 c) : g ∈ groupsOf s c := by
  revert h
  unfold addBrokerOffset
  split_all
  all_goals intro h
  all_goals first
    | exact h
    | exact mem_groupsOf_set_same ‹alookup r.cluster s.clusters = some _› (fun _ h => h) h

theorem step_commit (s : Store) (now : Int) (r : Request) (c g : String)
    (h : g ∈ groupsOf (addConsumerOffset s now r).1 c) :
    g ∈ groupsOf s c ∨ (c = r.cluster ∧ g = r.group ∧ accept s.cfg r = true) := by
  revert h
  unfold addConsumerOffset
  split_all
  all_goals intro h
  all_goals first
    | exact Or.inl h
    | (refine mem_groupsOf_set ‹alookup r.cluster s.clusters = some _› (fun e hg => ?_) h
       rcases mem_akeys_ainsert.1 hg with e2 | e2
       · exact Or.inr ⟨e, e2, by simpa using ‹¬(!accept s.cfg r) = true›⟩
       · exact Or.inl e2)

end Burrow.Proofs.Accept
