/-
  Lemmas about the HTTP model (`Model/Http.lean`): routing, envelope/status mapping of the handlers,
  purity of GETs, configuration lookups, independence of responses from password values, and the
  Prometheus scrape.
-/
import BurrowVerif.Model.Http

namespace Burrow.Http

/-! ### routing -/

theorem route_matched {routes : List Route} {m : String} {segs : List String} {r : Route} {ps : Params}
    (h : lookupRoute routes m segs = some (r, ps)) : routeSegs routes m segs = .handler r.handler ps := by
  have ht : hasTree routes m = true := by
    unfold lookupRoute at h
    obtain ⟨x, hx, hfx⟩ := List.exists_of_findSome?_eq_some h
    unfold hasTree
    rw [List.any_eq_true]
    refine ⟨x, hx, ?_⟩
    by_cases hm : (x.method == m) = true
    · exact hm
    · simp [hm] at hfx
  simp [routeSegs, ht, h]

theorem allowed_nil {routes : List Route} {segs : List String} {m : String}
    (h : ∀ m', lookupRoute routes m' segs = none) : allowed routes segs m = [] := by
  simp [allowed, h]

/-- a path that matches no pattern of any method — directly, without its trailing slash, or after
    cleaning and case-folding — is answered by the not-found handler -/
theorem route_unrouted {routes : List Route} {m : String} {segs : List String}
    (h1 : ∀ m', lookupRoute routes m' segs = none)
    (h2 : lookupRoute routes m segs.dropLast = none)
    (h3 : lookupCI routes m (cleanSegs segs) = none)
    (h4 : lookupCI routes m (cleanSegs segs).dropLast = none) :
    routeSegs routes m segs = .notFound := by
  simp [routeSegs, h1, h2, h3, h4, allowed_nil h1]

/-! ### the envelope of each handler -/

variable {W : Type} (be : Backend W) (w : W)

theorem clusterList_ok (ps : Params) :
    handle be w "handleClusterList" ps = (w, ok (.names "clusters" (be.clusters w))) := by
  simp [handle, H.ofName, handleH]

theorem topicList_found (ps : Params) {l} (h : be.topics w (param ps "cluster") = some l) :
    handle be w "handleTopicList" ps = (w, ok (.names "topics" l)) := by simp [handle, H.ofName, handleH, h]
theorem topicList_unknown (ps : Params) (h : be.topics w (param ps "cluster") = none) :
    handle be w "handleTopicList" ps = (w, notFoundErr) := by simp [handle, H.ofName, handleH, h]

theorem topicDetail_found (ps : Params) {l} (h : be.topicDetail w (param ps "cluster") (param ps "topic") = some l) :
    handle be w "handleTopicDetail" ps = (w, ok (.offsets l)) := by simp [handle, H.ofName, handleH, h]
theorem topicDetail_unknown (ps : Params) (h : be.topicDetail w (param ps "cluster") (param ps "topic") = none) :
    handle be w "handleTopicDetail" ps = (w, notFoundErr) := by simp [handle, H.ofName, handleH, h]

theorem topicConsumers_found (ps : Params) {l} (h : be.topicConsumers w (param ps "cluster") (param ps "topic") = some l) :
    handle be w "handleTopicConsumerList" ps = (w, ok (.names "consumers" l)) := by simp [handle, H.ofName, handleH, h]
theorem topicConsumers_unknown (ps : Params) (h : be.topicConsumers w (param ps "cluster") (param ps "topic") = none) :
    handle be w "handleTopicConsumerList" ps = (w, notFoundErr) := by simp [handle, H.ofName, handleH, h]

theorem consumerList_found (ps : Params) {l} (h : be.consumers w (param ps "cluster") = some l) :
    handle be w "handleConsumerList" ps = (w, ok (.names "consumers" l)) := by simp [handle, H.ofName, handleH, h]
theorem consumerList_unknown (ps : Params) (h : be.consumers w (param ps "cluster") = none) :
    handle be w "handleConsumerList" ps = (w, notFoundErr) := by simp [handle, H.ofName, handleH, h]

theorem consumerDetail_found (ps : Params) {w' t}
    (h : be.consumerDetail w (param ps "cluster") (param ps "consumer") = (w', some t)) :
    handle be w "handleConsumerDetail" ps = (w', ok (.topics t)) := by simp [handle, H.ofName, handleH, h]
theorem consumerDetail_unknown (ps : Params) {w'}
    (h : be.consumerDetail w (param ps "cluster") (param ps "consumer") = (w', none)) :
    handle be w "handleConsumerDetail" ps = (w', notFoundErr) := by simp [handle, H.ofName, handleH, h]

theorem consumerStatus_found (ps : Params) (full : Bool) {w' g}
    (h : be.status w (param ps "cluster") (param ps "consumer") full = (w', some g)) :
    handle be w (if full then "handleConsumerStatusComplete" else "handleConsumerStatus") ps =
      (w', { code := 200, ctype := .json, err := some false,
             payload := .status (param ps "cluster") (param ps "consumer") (some g) }) := by
  cases full <;> simp [handle, H.ofName, handleH, h]

theorem consumerStatus_notfound (ps : Params) (full : Bool) {w'}
    (h : be.status w (param ps "cluster") (param ps "consumer") full = (w', none)) :
    handle be w (if full then "handleConsumerStatusComplete" else "handleConsumerStatus") ps =
      (w', { code := 404, ctype := .json, err := some false,
             payload := .status (param ps "cluster") (param ps "consumer") none }) := by
  cases full <;> simp [handle, H.ofName, handleH, h]

theorem consumerDelete (ps : Params) :
    handle be w "handleConsumerDelete" ps =
      (be.deleteGroup w (param ps "cluster") (param ps "consumer") (param ps "topic"), ok .none) := by
  simp [handle, H.ofName, handleH]

/-- every modelled handler answers 200 or 404 (the two handlers whose code depends on the process
    state, `setLogLevel` and `handleReady`, and unknown names are excluded) -/
theorem handleH_code (ps : Params) (h : H) (h1 : h ≠ .setLogLevel) (h2 : h ≠ .ready) (h3 : h ≠ .unknown) :
    (handleH be w ps h).2.code = 200 ∨ (handleH be w ps h).2.code = 404 := by
  cases h <;> simp [handleH, ok, notFoundErr, moduleDetail, moduleDetailAt, moduleConfigured, moduleList, notifierDetailResp, notifierDetailAt] at * <;>
    (repeat' split) <;> first | (simp_all [ok, notFoundErr]; done) | exact (Classical.em _).symm | exact Classical.em _

/-! ### purity of GETs -/

/-- Every handler except the DELETE handler leaves the world as it is, or as the backend's consumer
    detail / status lookup leaves it (which for the storage backend only drops an expired group). -/
theorem handleH_world (ps : Params) (h : H) (hd : h ≠ .consumerDelete) :
    (handleH be w ps h).1 = w ∨
    (handleH be w ps h).1 = (be.consumerDetail w (param ps "cluster") (param ps "consumer")).1 ∨
    ∃ b, (handleH be w ps h).1 = (be.status w (param ps "cluster") (param ps "consumer") b).1 := by
  cases h <;> simp [handleH] at * <;> first
    | exact Or.inr (Or.inr ⟨false, rfl⟩)
    | exact Or.inr (Or.inr ⟨true, rfl⟩)

/-! ### configuration lookups -/

theorem isSet_iff (c : Cfg) (p : List String) : c.isSet p = true ↔ ∃ e ∈ c, p.isPrefixOf e.1 = true := by
  simp [Cfg.isSet, List.any_eq_true]

theorem mem_dedupKeep (k : String) : ∀ l : List String, k ∈ dedupKeep l ↔ k ∈ l := by
  intro l
  induction l with
  | nil => simp [dedupKeep]
  | cons x xs ih =>
    simp only [dedupKeep, List.mem_cons, List.mem_filter, ih]
    constructor
    · rintro (h | ⟨h, _⟩)
      · exact Or.inl h
      · exact Or.inr h
    · rintro (h | h)
      · exact Or.inl h
      · by_cases hx : k = x
        · exact Or.inl hx
        · exact Or.inr ⟨h, by simpa using hx⟩

theorem mem_children (c : Cfg) (p : List String) (k : String) :
    k ∈ c.children p ↔ ∃ e ∈ c, childOf p e.1 = some k := by
  simp [Cfg.children, mem_dedupKeep, List.mem_filterMap]

theorem isPrefixOf_snoc_iff (p : List String) (k : String) (l : List String) :
    (p ++ [k]).isPrefixOf l = true ↔ p.isPrefixOf l = true ∧ (l.drop p.length).head? = some k := by
  induction p generalizing l with
  | nil =>
    cases l with
    | nil => simp
    | cons a as => simp [List.isPrefixOf]; exact eq_comm
  | cons x xs ih =>
    cases l with
    | nil => simp
    | cons a as =>
      simp only [List.cons_append, List.isPrefixOf, Bool.and_eq_true, List.length_cons, List.drop_succ_cons]
      rw [ih]
      constructor
      · rintro ⟨h1, h2, h3⟩; exact ⟨⟨h1, h2⟩, h3⟩
      · rintro ⟨⟨h1, h2⟩, h3⟩; exact ⟨h1, h2, h3⟩

/-- a name that is a single key segment names something that is set iff it is one of the listed modules -/
theorem isSet_child (c : Cfg) (kind n : String) : c.isSet [kind, n] = true ↔ n ∈ c.children [kind] := by
  rw [isSet_iff, mem_children]
  constructor
  · rintro ⟨e, he, hp⟩
    have := (isPrefixOf_snoc_iff [kind] n e.1).mp (by simpa using hp)
    have h2 := this.2
    refine ⟨e, he, ?_⟩
    unfold childOf
    rw [if_pos this.1]
    exact h2
  · rintro ⟨e, he, h⟩
    refine ⟨e, he, ?_⟩
    unfold childOf at h
    by_cases hp : [kind].isPrefixOf e.1 = true
    · rw [if_pos hp] at h
      simpa using (isPrefixOf_snoc_iff [kind] n e.1).mpr ⟨hp, h⟩
    · rw [if_neg hp] at h; simp at h

end Burrow.Http

namespace Burrow.Http
open Burrow.Storage

/-- the only change a consumer-detail read makes to storage: an expired group is dropped -/
theorem fetchConsumer_store (s : Store) (now : Int) (c g : String) :
    (fetchConsumer s now c g).1 = s ∨
    ∃ cm gr, alookup c s.clusters = some cm ∧ alookup g cm.consumer = some gr ∧
      (now - s.cfg.expireGroup) * 1000 > gr.lastCommit ∧
      (fetchConsumer s now c g).1 = { s with clusters := ainsert c { cm with consumer := aerase g cm.consumer } s.clusters } := by
  unfold fetchConsumer
  cases hc : alookup c s.clusters with
  | none => exact Or.inl rfl
  | some cm =>
    dsimp only
    cases hg : alookup g cm.consumer with
    | none => exact Or.inl rfl
    | some gr =>
      dsimp only
      by_cases hexp : (now - s.cfg.expireGroup) * 1000 > gr.lastCommit
      · rw [if_pos hexp]; exact Or.inr ⟨cm, gr, rfl, hg, hexp, rfl⟩
      · rw [if_neg hexp]
        cases lagPassAll cm (getConsumerTopicList gr) <;> exact Or.inl rfl

end Burrow.Http
