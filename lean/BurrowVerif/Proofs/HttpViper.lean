/-
  viper's resolution of dotted keys (Model/Http.lean: `Cfg.search`, `Cfg.norm`): when no raw key of the
  configuration contains a dot, a dotted key resolves to its own components, so the `v…` lookups the
  handlers use are the plain path lookups.
-/
import BurrowVerif.Proofs.Http

namespace Burrow.Http

/-- no raw key of the configuration contains a dot (no `[notifier."a.b"]`-style names) -/
def Cfg.Plain (c : Cfg) : Prop := ∀ e ∈ c, ∀ k ∈ e.1, '.' ∉ k.toList

/-- executable form -/
def Cfg.plain (c : Cfg) : Bool := c.all fun e => e.1.all fun k => !k.toList.contains '.'

theorem Cfg.Plain.of_bool {c : Cfg} (h : c.plain = true) : c.Plain := by
  intro e he k hk hdot
  simp only [Cfg.plain, List.all_eq_true] at h
  have := h e he k hk
  simp [hdot] at this

theorem Cfg.Plain.of_paths {c c' : Cfg} (hp : c.map (·.1) = c'.map (·.1)) (h : c.Plain) : c'.Plain := by
  intro e he k hk
  have : e.1 ∈ c'.map (·.1) := List.mem_map_of_mem he
  rw [← hp] at this
  obtain ⟨e0, he0, heq⟩ := List.mem_map.mp this
  exact h e0 he0 k (heq ▸ hk)

theorem dot_mem_joinDots : ∀ (l : List String), 2 ≤ l.length → '.' ∈ joinDots l
  | [], h => by simp at h
  | [_], h => by simp at h
  | x :: y :: rest, _ => by simp [joinDots]

theorem child_is_key {c : Cfg} {P : List String} {k : String} (h : k ∈ c.children P) : ∃ e ∈ c, k ∈ e.1 := by
  obtain ⟨e, he, hc⟩ := (mem_children c P k).mp h
  refine ⟨e, he, ?_⟩
  unfold childOf at hc
  split at hc
  · exact List.mem_of_mem_drop (List.mem_of_mem_head? hc)
  · simp at hc

theorem tryPrefixes_some {c : Cfg} {rec : List String → List String → Option (List String)} {P q R : List String} :
    ∀ n, c.tryPrefixes rec P q n = some R → ∃ i, 1 ≤ i ∧ i ≤ n ∧ c.attempt rec P q i = some R := by
  intro n
  induction n with
  | zero => intro h; simp [Cfg.tryPrefixes] at h
  | succ n ih =>
    intro h
    simp only [Cfg.tryPrefixes] at h
    split at h
    · rename_i r hr
      simp at h; subst h
      exact ⟨n + 1, by omega, by omega, hr⟩
    · obtain ⟨i, h1, h2, h3⟩ := ih h
      exact ⟨i, h1, by omega, h3⟩

/-- with dot-free raw keys the search can only walk the key's own components -/
theorem search_plain {c : Cfg} (hp : c.Plain) : ∀ (fuel : Nat) (P q R : List String),
    c.search fuel P q = some R → R = P ++ q := by
  intro fuel
  induction fuel with
  | zero =>
    intro P q R h
    simp only [Cfg.search] at h
    split at h
    · rename_i hq
      simp at h; subst h
      simp [List.isEmpty_iff.mp hq]
    · simp at h
  | succ fuel ih =>
    intro P q R h
    simp only [Cfg.search] at h
    split at h
    · rename_i hq
      simp at h; subst h
      simp [List.isEmpty_iff.mp hq]
    · obtain ⟨i, hi1, hi2, hat⟩ := tryPrefixes_some _ h
      unfold Cfg.attempt at hat
      simp only at hat
      split at hat
      · rename_i hkid
        -- the joined prefix is a raw key, hence dot-free, hence a single component
        have hkey : '.' ∉ (String.ofList (joinDots (q.take i))).toList := by
          obtain ⟨e, he, hk⟩ := child_is_key (List.contains_iff_mem.mp hkid)
          exact hp e he _ hk
        have hi : i = 1 := by
          apply Classical.byContradiction
          intro hne
          have : 2 ≤ (q.take i).length := by simp [List.length_take]; omega
          exact hkey (by simpa using dot_mem_joinDots _ this)
        subst hi
        cases q with
        | nil => simp at hi2
        | cons q0 rest =>
          simp only [List.take_succ_cons, List.take_zero, joinDots, String.ofList_toList, List.drop_succ_cons,
            List.drop_zero, List.length_cons] at hat
          split at hat
          · rename_i hlen
            simp at hat; subst hat
            have : rest = [] := by
              cases rest with
              | nil => rfl
              | cons _ _ => simp at hlen
            simp [this]
          · split at hat
            · simp at hat
            · have := ih _ _ _ hat
              simp [this]
      · simp at hat

theorem norm_plain {c : Cfg} (hp : c.Plain) (q : List String) : c.norm q = q := by
  unfold Cfg.norm Cfg.resolve
  cases h : c.search q.length [] q with
  | none => rfl
  | some R => simpa using search_plain hp _ _ _ _ h

section
variable {c : Cfg} (hp : c.Plain)
include hp
theorem vSet_plain (q : List String) : c.vSet q = c.isSet q := by simp [Cfg.vSet, norm_plain hp]
theorem vString_plain (q : List String) : c.vString q = c.getString q := by simp [Cfg.vString, norm_plain hp]
theorem vInt_plain (q : List String) : c.vInt q = c.getInt q := by simp [Cfg.vInt, norm_plain hp]
theorem vBool_plain (q : List String) : c.vBool q = c.getBool q := by simp [Cfg.vBool, norm_plain hp]
theorem vSlice_plain (q : List String) : c.vSlice q = c.getSlice q := by simp [Cfg.vSlice, norm_plain hp]
theorem vChildren_plain (q : List String) : c.vChildren q = c.children q := by simp [Cfg.vChildren, norm_plain hp]
theorem vLeaves_plain (q : List String) : c.vLeaves q = c.leavesUnder q := by simp [Cfg.vLeaves, norm_plain hp]
end

end Burrow.Http
