/-
  C18: responses of the HTTP model do not depend on the values of configured passwords.
-/
import BurrowVerif.Proofs.Http
import BurrowVerif.Proofs.HttpViper

namespace Burrow.Http

/-- the configuration keys that hold passwords: `sasl.<profile>.password`, `notifier.<module>.password`
    (SASL profiles; HTTP basic-auth and SMTP credentials of notifier modules) -/
def isPasswordPath : List String → Bool
  | [k, _, last] => (k == "sasl" || k == "notifier") && last == "password"
  | _ => false

/-- two configurations with the same keys that agree on every value that is not a password -/
def SameExceptPasswords (c c' : Cfg) : Prop :=
  c.map (·.1) = c'.map (·.1) ∧ ∀ p, isPasswordPath p = false → c.get p = c'.get p

variable {c c' : Cfg}

theorem isSet_paths (c : Cfg) (p : List String) : c.isSet p = (c.map (·.1)).any (p.isPrefixOf ·) := by
  simp [Cfg.isSet, List.any_map, Function.comp_def]

theorem isSet_same (h : SameExceptPasswords c c') (p : List String) : c.isSet p = c'.isSet p := by
  rw [isSet_paths, isSet_paths, h.1]

theorem children_paths (c : Cfg) (p : List String) :
    c.children p = dedupKeep ((c.map (·.1)).filterMap (childOf p)) := by
  simp [Cfg.children, List.filterMap_map, Function.comp_def]

theorem children_same (h : SameExceptPasswords c c') (p : List String) : c.children p = c'.children p := by
  rw [children_paths, children_paths, h.1]

theorem getString_same (h : SameExceptPasswords c c') {p} (hp : isPasswordPath p = false) :
    c.getString p = c'.getString p := by simp [Cfg.getString, h.2 p hp]
theorem getInt_same (h : SameExceptPasswords c c') {p} (hp : isPasswordPath p = false) :
    c.getInt p = c'.getInt p := by simp [Cfg.getInt, h.2 p hp]
theorem getBool_same (h : SameExceptPasswords c c') {p} (hp : isPasswordPath p = false) :
    c.getBool p = c'.getBool p := by simp [Cfg.getBool, h.2 p hp]
theorem getSlice_same (h : SameExceptPasswords c c') {p} (hp : isPasswordPath p = false) :
    c.getSlice p = c'.getSlice p := by simp [Cfg.getSlice, h.2 p hp]

/-- a key that ends in a suffix other than "password" is not a password key -/
theorem not_password_of_suffix (root : List String) (suffix : String) (hs : suffix ≠ "password") :
    isPasswordPath (root ++ [suffix]) = false := by
  match root with
  | [] => rfl
  | [_] => rfl
  | [a, b] => simp [isPasswordPath, hs]
  | _ :: _ :: _ :: _ :: _ => simp [isPasswordPath]
  | [_, _, _] => simp [isPasswordPath]

/-- a key with at least four segments is not a password key -/
theorem not_password_of_long {p : List String} (h : 4 ≤ p.length) : isPasswordPath p = false := by
  match p with
  | [] => simp at h
  | [_] => simp at h
  | [_, _] => simp at h
  | [_, _, _] => simp at h
  | _ :: _ :: _ :: _ :: _ => rfl

theorem leavesUnder_paths (c : Cfg) (P : List String) :
    c.leavesUnder P = dedupKeys ((c.map (·.1)).filterMap (c.leafEntry P)) := by
  simp [Cfg.leavesUnder, List.filterMap_map, Function.comp_def]

theorem filterMap_congr' {α β} {f g : α → Option β} : ∀ {l : List α}, (∀ x ∈ l, f x = g x) → l.filterMap f = l.filterMap g := by
  intro l
  induction l with
  | nil => intro _; rfl
  | cons a as ih =>
    intro h
    simp only [List.filterMap_cons, h a (by simp), ih (fun x hx => h x (by simp [hx]))]

theorem isPrefixOf_length {p q : List String} (h : p.isPrefixOf q = true) : p.length ≤ q.length := by
  induction p generalizing q with
  | nil => simp
  | cons a as ih =>
    cases q with
    | nil => simp at h
    | cons b bs =>
      simp only [List.isPrefixOf, Bool.and_eq_true] at h
      simpa using ih h.2

/-- the sub-map under a root of at least three segments contains no password key -/
theorem leavesUnder_same (h : SameExceptPasswords c c') (P : List String) (hP : 3 ≤ P.length) :
    c.leavesUnder P = c'.leavesUnder P := by
  rw [leavesUnder_paths, leavesUnder_paths, h.1]
  congr 1
  apply filterMap_congr'
  intro q _
  unfold Cfg.leafEntry
  by_cases hp : P.isPrefixOf q = true
  · simp only [hp, if_true]
    have hlen := isPrefixOf_length hp
    cases hd : q.drop P.length with
    | nil => rfl
    | cons k tl =>
      cases tl with
      | nil =>
        have : 4 ≤ q.length := by
          have := congrArg List.length hd
          simp at this
          omega
        simp [getString_same h (not_password_of_long this)]
      | cons _ _ => rfl
  · simp [hp]

theorem splitDots_ne_nil : ∀ (cs cur : List Char), splitDots cs cur ≠ [] := by
  intro cs
  induction cs with
  | nil => intro cur; simp [splitDots]
  | cons c cs ih =>
    intro cur
    simp only [splitDots]
    split
    · simp
    · exact ih _

theorem keyPath_length (name : String) : 1 ≤ (keyPath name).length := by
  unfold keyPath
  have := splitDots_ne_nil name.toList []
  cases h : splitDots name.toList [] with
  | nil => exact absurd h this
  | cons _ _ => simp

/-- reading one field under a module root -/
theorem readField_same (hpl : c.Plain) (h : SameExceptPasswords c c') (root raw : List String) (hroot : 2 ≤ root.length)
    (hraw : 2 ≤ raw.length) (suffix : String) (hs : suffix ≠ "password") (g : Getter) :
    readField c root raw suffix g = readField c' root raw suffix g := by
  have hpl' : c'.Plain := hpl.of_paths h.1
  have hp := not_password_of_suffix root suffix hs
  cases g
  · simp [readField, vString_plain hpl, vString_plain hpl', getString_same h hp]
  · simp [readField, vInt_plain hpl, vInt_plain hpl', getInt_same h hp]
  · simp [readField, vBool_plain hpl, vBool_plain hpl', getBool_same h hp]
  · simp [readField, vSlice_plain hpl, vSlice_plain hpl', getSlice_same h hp]
  · simp only [readField]
    rw [leavesUnder_same h]
    simp; omega

def noPasswordSuffix (fs : List (String × String × Getter)) : Bool := fs.all fun f => f.2.1 != "password"
def NoPasswordSuffix (fs : List (String × String × Getter)) : Prop := ∀ f ∈ fs, f.2.1 ≠ "password"
theorem NoPasswordSuffix.of_bool {fs} (h : noPasswordSuffix fs = true) : NoPasswordSuffix fs := by
  intro f hf
  have := (List.all_eq_true.mp h) f hf
  simpa using this

theorem readFields_same (hpl : c.Plain) (h : SameExceptPasswords c c') (root raw : List String) (hroot : 2 ≤ root.length)
    (hraw : 2 ≤ raw.length) (fs : List (String × String × Getter)) (hfs : NoPasswordSuffix fs) :
    readFields c root raw fs = readFields c' root raw fs := by
  unfold readFields
  apply List.map_congr_left
  intro f hf
  obtain ⟨j, suffix, g⟩ := f
  simp [readField_same hpl h root raw hroot hraw suffix (hfs _ hf) g]

theorem clientProfile_same (hpl : c.Plain) (h : SameExceptPasswords c c') (name : String) :
    clientProfile c name = clientProfile c' name := by
  have hpl' : c'.Plain := hpl.of_paths h.1
  have hk := keyPath_length name
  have g1 : ∀ (root : List String) (s : String), s ≠ "password" → c.getString (root ++ [s]) = c'.getString (root ++ [s]) :=
    fun root s hs => getString_same h (not_password_of_suffix root s hs)
  have g2 : ∀ (root : List String) (s : String), s ≠ "password" → c.getBool (root ++ [s]) = c'.getBool (root ++ [s]) :=
    fun root s hs => getBool_same h (not_password_of_suffix root s hs)
  simp only [clientProfile, vString_plain hpl, vString_plain hpl', vBool_plain hpl, vBool_plain hpl', vSet_plain hpl, vSet_plain hpl']
  rw [g1 _ "tls" (by decide), g1 _ "sasl" (by decide), g1 _ "client-id" (by decide), g1 _ "kafka-version" (by decide)]
  simp only [isSet_same h]
  rw [g1 _ "certfile" (by decide), g1 _ "keyfile" (by decide), g1 _ "cafile" (by decide), g2 _ "noverify" (by decide),
    g2 _ "handshake-first" (by decide), g1 _ "username" (by decide)]

theorem moduleDetailAt_same (hpl : c.Plain) (h : SameExceptPasswords c c') (root raw : List String) (hroot : 2 ≤ root.length)
    (hraw : 2 ≤ raw.length) (fs : List (String × String × Getter)) (hfs : NoPasswordSuffix fs) (b : Bool) :
    moduleDetailAt c root raw fs b = moduleDetailAt c' root raw fs b := by
  have hpl' : c'.Plain := hpl.of_paths h.1
  unfold moduleDetailAt
  simp only [vString_plain hpl, vString_plain hpl']
  rw [readFields_same hpl h root raw hroot hraw fs hfs,
    getString_same h (not_password_of_suffix root "client-profile" (by decide))]
  cases b <;> simp [clientProfile_same hpl h]

theorem moduleDetail_same (hpl : c.Plain) (h : SameExceptPasswords c c') (kind name : String)
    (fs : List (String × String × Getter)) (hfs : NoPasswordSuffix fs) (b : Bool) :
    moduleDetail c kind name fs b = moduleDetail c' kind name fs b := by
  have hpl' : c'.Plain := hpl.of_paths h.1
  unfold moduleDetail moduleConfigured
  rw [vChildren_plain hpl, vChildren_plain hpl', children_same h,
    moduleDetailAt_same hpl h _ _ (by have := keyPath_length name; simp; omega) (by simp) fs hfs b]

theorem storageFields_np : NoPasswordSuffix storageFields := .of_bool (by decide)
theorem evaluatorFields_np : NoPasswordSuffix evaluatorFields := .of_bool (by decide)
theorem clusterFields_np : NoPasswordSuffix clusterFields := .of_bool (by decide)
theorem consumerFields_np : NoPasswordSuffix consumerFields := .of_bool (by decide)
theorem notifierCommon_np : NoPasswordSuffix notifierCommon := .of_bool (by decide)
theorem notifierHTTP_np : NoPasswordSuffix notifierHTTP := .of_bool (by decide)
theorem notifierSlack_np : NoPasswordSuffix notifierSlack := .of_bool (by decide)
theorem notifierEmail_np : NoPasswordSuffix notifierEmail := .of_bool (by decide)

theorem notifierDetailAt_same (hpl : c.Plain) (h : SameExceptPasswords c c') (root raw : List String) (hroot : 2 ≤ root.length)
    (hraw : 2 ≤ raw.length) :
    notifierDetailAt c root raw = notifierDetailAt c' root raw := by
  have hpl' : c'.Plain := hpl.of_paths h.1
  unfold notifierDetailAt
  simp only [vString_plain hpl, vString_plain hpl',
    getString_same h (not_password_of_suffix _ "class-name" (by decide)),
    moduleDetailAt_same hpl h root raw hroot hraw _ notifierHTTP_np, moduleDetailAt_same hpl h root raw hroot hraw _ notifierEmail_np,
    moduleDetailAt_same hpl h root raw hroot hraw _ notifierSlack_np, moduleDetailAt_same hpl h root raw hroot hraw _ notifierCommon_np]

theorem notifierDetail_same (hpl : c.Plain) (h : SameExceptPasswords c c') (name : String) :
    notifierDetailResp c name = notifierDetailResp c' name := by
  have hpl' : c'.Plain := hpl.of_paths h.1
  unfold notifierDetailResp moduleConfigured
  rw [vChildren_plain hpl, vChildren_plain hpl', children_same h,
    notifierDetailAt_same hpl h _ _ (by have := keyPath_length name; simp; omega) (by simp)]

/-- **Non-interference**: two backends that differ only in the configuration, and there only in
    password values, answer every request identically (and leave the same world behind). -/
theorem handleH_same {W : Type} (be : Backend W) (cfg' : W → Cfg) (w : W) (hpl : (be.cfg w).Plain)
    (h : SameExceptPasswords (be.cfg w) (cfg' w)) (ps : Params) (hh : H) :
    handleH { be with cfg := cfg' } w ps hh = handleH be w ps hh := by
  have h' := h
  have hpl' : (cfg' w).Plain := hpl.of_paths h.1
  cases hh <;> simp only [handleH, moduleList, vChildren_plain hpl, vChildren_plain hpl'] <;>
    first
    | rfl
    | (simp only [← moduleDetail_same hpl h' _ _ _ storageFields_np, ← moduleDetail_same hpl h' _ _ _ evaluatorFields_np,
        ← moduleDetail_same hpl h' _ _ _ clusterFields_np, ← moduleDetail_same hpl h' _ _ _ consumerFields_np,
        ← notifierDetail_same hpl h', ← children_same h'])

end Burrow.Http
