/-
  The completeness values inside an evaluator result are finite floats: every pair (numerator,
  denominator) handed to the float32 division has numerator ≤ denominator, and the denominators are a
  window length or a partition count — below 2^24 for any deployment.  With `F32.divBits` for the
  division this discharges the float hypothesis of the JSON theorem.
-/
import BurrowVerif.Proofs.F32Finite
import BurrowVerif.Proofs.TmplDataJson

namespace Burrow.Proofs.TmplData
open Burrow Burrow.Tmpl Burrow.Spec.Tmpl Burrow.Eval

/-- a completeness pair that the float32 division takes to a finite value -/
def PairOk (x : Nat × Nat) : Prop := x.1 ≤ x.2 ∧ x.2 < 2^24

theorem pairOk_finite {x : Nat × Nat} (h : PairOk x) : finite32 (F32.divBits x.1 x.2) = true :=
  F32.divBits_finite x.1 x.2 h.1 h.2

theorem partition_pair (p : Partition) (meets : Nat → Nat → Bool) (now : Int) (allowed : Nat)
    (st : PartStatus) (hsz : p.offsets.length < 2^24) (h : evaluatePartition p meets now allowed = some st) :
    PairOk st.complete := by
  have hdrop : (p.offsets.drop (firstNonNil p.offsets)).length ≤ p.offsets.length := by simp
  have ok : PairOk ((p.offsets.drop (firstNonNil p.offsets)).length, p.offsets.length) := ⟨hdrop, hsz⟩
  have z : PairOk (0, 0) := ⟨Nat.le_refl _, by decide⟩
  unfold evaluatePartition at h
  split at h
  · cases h; exact z
  · dsimp only at h
    split at h
    · cases h; exact ok
    · split at h
      · split at h
        · split at h
          · cases h
          · split at h
            · cases h
            · cases h; exact ok
        · cases h; exact ok
      · cases h; exact ok

theorem evalTopic_pairs (meets : Nat → Nat → Bool) (now : Int) (allowed : Nat) (topic : String) :
    ∀ (parts : List Partition) (i : Nat) (out : List Group.PStat),
      (∀ p ∈ parts, p.offsets.length < 2^24) →
      Group.evalTopic meets now allowed topic i parts = some out → ∀ q ∈ out, PairOk q.st.complete := by
  intro parts
  induction parts with
  | nil => intro i out _ h q hq; simp [Group.evalTopic] at h; subst h; simp at hq
  | cons p rest ih =>
    intro i out hsz h q hq
    simp only [Group.evalTopic] at h
    cases h1 : evaluatePartition p meets now allowed with
    | none => simp [h1] at h
    | some st =>
      cases h2 : Group.evalTopic meets now allowed topic (i + 1) rest with
      | none => simp [h1, h2] at h
      | some more =>
        simp [h1, h2] at h
        subst h
        rcases List.mem_cons.mp hq with rfl | hq'
        · exact partition_pair p meets now allowed st (hsz p (by simp)) h1
        · exact ih (i + 1) more (fun p hp => hsz p (List.mem_cons_of_mem _ hp)) h2 q hq'

theorem evalTopics_pairs (meets : Nat → Nat → Bool) (now : Int) (allowed : Nat) :
    ∀ (topics : List (String × List Partition)) (out : List Group.PStat),
      (∀ tp ∈ topics, ∀ p ∈ tp.2, p.offsets.length < 2^24) →
      Group.evalTopics meets now allowed topics = some out → ∀ q ∈ out, PairOk q.st.complete := by
  intro topics
  induction topics with
  | nil => intro out _ h q hq; simp [Group.evalTopics] at h; subst h; simp at hq
  | cons tp rest ih =>
    intro out hsz h q hq
    obtain ⟨t, parts⟩ := tp
    simp only [Group.evalTopics] at h
    cases h1 : Group.evalTopic meets now allowed t 0 parts with
    | none => simp [h1] at h
    | some a =>
      cases h2 : Group.evalTopics meets now allowed rest with
      | none => simp [h1, h2] at h
      | some b =>
        simp [h1, h2] at h
        subst h
        rcases List.mem_append.mp hq with hq' | hq'
        · exact evalTopic_pairs meets now allowed t parts 0 a (hsz (t, parts) (by simp)) h1 q hq'
        · exact ih b (fun tp htp => hsz tp (List.mem_cons_of_mem _ htp)) h2 q hq'

/-- the max-lag partition is one of the partitions -/
theorem maxlag_mem : ∀ (ps : List Group.PStat) (acc : Option Group.PStat) (m : Group.PStat),
    ps.foldl Group.updMaxlag acc = some m → m ∈ ps ∨ acc = some m := by
  intro ps
  induction ps with
  | nil => intro acc m h; right; simpa using h
  | cons p rest ih =>
    intro acc m h
    simp only [List.foldl_cons] at h
    rcases ih _ m h with hm | hm
    · left; exact List.mem_cons_of_mem _ hm
    · unfold Group.updMaxlag at hm
      split at hm
      · simp at hm; subst hm; left; simp
      · split at hm
        · simp at hm; subst hm; left; simp
        · right; exact hm

/-- **every completeness value in a group evaluation is a finite float** (windows and partition count
    below 2^24) -/
theorem evaluateGroup_pairs (meets : Nat → Nat → Bool) (now : Int) (allowed : Nat)
    (topics : List (String × List Partition)) (g : Group.GroupStatus)
    (hsz : ∀ tp ∈ topics, ∀ p ∈ tp.2, p.offsets.length < 2^24)
    (h : Group.evaluateGroup meets now allowed topics = some g) (hcount : g.totalPartitions < 2^24) :
    PairOk g.complete ∧ (∀ p ∈ g.partitions, PairOk p.st.complete) ∧
      (∀ p, g.maxlag = some p → PairOk p.st.complete) := by
  unfold Group.evaluateGroup at h
  cases h1 : Group.evalTopics meets now allowed topics with
  | none => simp [h1] at h
  | some ps =>
    simp [h1] at h
    subst h
    have hall := evalTopics_pairs meets now allowed topics ps hsz h1
    simp only [Group.aggregate] at hcount ⊢
    refine ⟨?_, hall, ?_⟩
    · split
      · exact ⟨List.length_filter_le _ _, hcount⟩
      · exact ⟨Nat.le_refl _, by decide⟩
    · intro p hp
      rcases maxlag_mem ps none p hp with hm | hm
      · exact hall p hm
      · cases hm

end Burrow.Proofs.TmplData
