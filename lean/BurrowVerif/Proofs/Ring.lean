/-
  C02 — the pointer-level model of the consumer-offset ring (`Storage.placeCommit`) refines the
  list-level step `Spec.Window.specStep` (`refine_step : RefineStep`).

  Structure
  1. ring simulation lemmas: everything the model does to a ring is described through `Ring.get`
     at the slots `0 … len-1` (distance after the pointer), i.e. through the read-out;
  2. `win k cs` (= `k` blanks, then `cs`): index lemmas;
  3. the list-level step on a window split as `older ++ newer` around the arriving position;
  4. `findDest`/`searchDest`, `mergeDest`, `shiftLoop`, `storeCommit` in terms of the read-out;
  5. assembly.
-/
import BurrowVerif.Model.Storage
import BurrowVerif.Spec.Window

namespace Burrow.Proofs.Ring
open Burrow Burrow.Storage Burrow.Spec.Window

/-! ### 1. ring simulation -/

section RingSim
variable {α : Type}

theorem add_mod_small {q i n : Nat} (hq : q < n) (hi : i < n) :
    (q + i) % n = if q + i < n then q + i else q + i - n := by
  split
  · exact Nat.mod_eq_of_lt ‹_›
  · rw [Nat.mod_eq_sub_mod (by omega), Nat.mod_eq_of_lt (by omega)]

/-- slot addressing: reduce the pointer first -/
theorem slot_eq (r : Ring α) (i : Nat) :
    (r.ptr + i) % r.len = (r.ptr % r.len + i) % r.len := (Nat.mod_add_mod _ _ _).symm

theorem slot_inj {r : Ring α} {i j : Nat} (hi : i < r.len) (hj : j < r.len) :
    (r.ptr + i) % r.len = (r.ptr + j) % r.len ↔ i = j := by
  have hq : r.ptr % r.len < r.len := Nat.mod_lt _ (by omega)
  rw [slot_eq r i, slot_eq r j, add_mod_small hq hi, add_mod_small hq hj]
  split <;> split <;> omega

theorem slot_lt {r : Ring α} (i : Nat) (h : 0 < r.len) : (r.ptr + i) % r.len < r.slots.length :=
  Nat.mod_lt _ h

@[simp] theorem len_set (r : Ring α) (i : Nat) (v : Option α) : (r.set i v).len = r.len := by
  simp [Ring.set, Ring.len]

@[simp] theorem len_advance (r : Ring α) (k : Nat) : (r.advance k).len = r.len := rfl

theorem get_mod (r : Ring α) (i : Nat) : r.get (i % r.len) = r.get i := by
  simp [Ring.get, Nat.add_mod_mod]

theorem get_set {r : Ring α} {i j : Nat} (v : Option α) (hi : i < r.len) (hj : j < r.len) :
    (r.set i v).get j = if i = j then v else r.get j := by
  have h0 : 0 < r.len := by omega
  unfold Ring.get
  rw [len_set]
  show ((r.slots.set ((r.ptr + i) % r.len) v)[(r.ptr + j) % r.len]?).join = _
  simp only [List.getElem?_set, slot_inj hi hj]
  split
  · simp [slot_lt i h0]
  · rfl

theorem get_advance (r : Ring α) (k i : Nat) : (r.advance k).get i = r.get (k + i) := by
  unfold Ring.get
  show (r.slots[((r.ptr + k) % r.len + i) % r.len]?).join = _
  rw [Nat.mod_add_mod, Nat.add_assoc]

theorem back_le {r : Ring α} {j : Nat} (hj : j ≤ r.len) (h0 : 0 < j) : r.back j = r.len - j := by
  unfold Ring.back
  by_cases h : j = r.len
  · subst h; simp
  · rw [Nat.mod_eq_of_lt (show j < r.len by omega), Nat.mod_eq_of_lt (show r.len - j < r.len by omega)]

theorem back_zero (r : Ring α) : r.back 0 = 0 := by
  unfold Ring.back; simp

theorem back_one {r : Ring α} (h : 0 < r.len) : r.back 1 = r.len - 1 := back_le h (by omega)

/-- the slot before slot `s` -/
theorem prev_slot {n s : Nat} (hs : s < n) : (s + (n - 1)) % n = if s = 0 then n - 1 else s - 1 := by
  split
  · subst s; simp [Nat.mod_eq_of_lt (show n - 1 < n by omega)]
  · rw [Nat.mod_eq_sub_mod (by omega), Nat.mod_eq_of_lt (by omega)]; omega

theorem readout_length (r : Ring α) : r.readout.length = r.len := by simp [Ring.readout]

theorem get_of_readout {r : Ring α} {w : List (Option α)} (h : r.readout = w) {i : Nat} (hi : i < r.len) :
    r.get i = (w[i]?).join := by
  subst h
  simp [Ring.readout, hi]

theorem readout_eq {r : Ring α} {w : List (Option α)} (hl : r.len = w.length)
    (h : ∀ i, i < r.len → r.get i = (w[i]?).join) : r.readout = w := by
  apply List.ext_getElem (by simp [readout_length, hl])
  intro i h1 h2
  have := h i (by simpa [readout_length] using h1)
  simp [Ring.readout] at *
  rw [this, List.getElem?_eq_getElem h2]; rfl

/-- write one slot, then step the pointer: the read-out in terms of the old `get` -/
theorem get_set_advance {r : Ring α} {s i : Nat} (v : Option α) (hs : s < r.len) (hi : i < r.len) :
    ((r.set s v).advance 1).get i =
      if i + 1 = r.len then (if s = 0 then v else r.get 0)
      else (if s = i + 1 then v else r.get (i + 1)) := by
  rw [get_advance]
  split
  · rename_i h
    have : (1 + i) % (r.set s v).len = 0 := by rw [len_set, Nat.add_comm, h]; simp
    rw [← get_mod, this, get_set v hs (by omega)]
  · rw [Nat.add_comm 1 i, get_set v hs (by omega)]

end RingSim

/-! ### 2. windows: `k` blanks, then the stored commits -/

def win (k : Nat) (cs : List Commit) : List (Option Commit) := List.replicate k none ++ cs.map some

theorem win_length (k : Nat) (cs : List Commit) : (win k cs).length = k + cs.length := by simp [win]

theorem win_get (k : Nat) (cs : List Commit) (i : Nat) :
    ((win k cs)[i]?).join = if i < k then none else cs[i - k]? := by
  unfold win
  rw [List.getElem?_append]
  simp only [List.length_replicate, List.getElem?_replicate, List.getElem?_map]
  split
  · rfl
  · cases cs[i - k]? <;> rfl

theorem win_drop_get (k : Nat) (cs : List Commit) (i : Nat) :
    (((win k cs).drop 1)[i]?).join = if i + 1 < k then none else cs[i + 1 - k]? := by
  rw [List.getElem?_drop, Nat.add_comm, win_get]

theorem stored_win (k : Nat) (cs : List Commit) : stored (win k cs) = cs := by
  simp [stored, win, List.filterMap_append, List.filterMap_map]

theorem head_win (k : Nat) (cs : List Commit) :
    (win k cs).head?.join = if k = 0 then cs.head? else none := by
  unfold win
  cases k with
  | zero => cases cs <;> simp
  | succ k => simp [List.replicate_succ]

theorem getElem?_two (a b : List Commit) (t : Nat) :
    (a ++ b)[t]? = if t < a.length then a[t]? else b[t - a.length]? := List.getElem?_append

theorem getElem?_mid (a : List Commit) (x : Commit) (b : List Commit) (t : Nat) :
    (a ++ [x] ++ b)[t]? =
      if t < a.length then a[t]? else if t = a.length then some x else b[t - a.length - 1]? := by
  rw [List.append_assoc, List.getElem?_append]
  split
  · rfl
  · rw [List.singleton_append, List.getElem?_cons]
    split
    · rw [if_pos (by omega)]
    · rw [if_neg (by omega)]

theorem getElem?_midDrop (a : List Commit) (x : Commit) (b : List Commit) (t : Nat) (ha : a ≠ []) :
    (a.dropLast ++ [x] ++ b)[t]? =
      if t < a.length - 1 then a[t]? else if t = a.length - 1 then some x else b[t - a.length]? := by
  have hl : 0 < a.length := List.length_pos_iff.2 ha
  rw [getElem?_mid, List.length_dropLast, List.getElem?_dropLast]
  split
  · rfl
  · split
    · rfl
    · congr 1; omega

/-! ### 3. the list-level step on a split window -/

theorem insert_eq (k : Nat) (st : List Commit) :
    (if k > 0 then List.replicate (k - 1) none ++ st.map some else (st.drop 1).map some)
      = (win k st).drop 1 := by
  unfold win
  cases k with
  | zero => simp
  | succ k => simp [List.replicate_succ]

theorem specStep_drop_dup (md : Int) (k : Nat) (cs : List Commit) (c : In)
    (h : ∃ q ∈ cs, q.order = c.order) : specStep md (win k cs) c = win k cs := by
  have hdup : (cs.any fun q => q.order == c.order) = true := by
    rw [List.any_eq_true]
    obtain ⟨q, hq, he⟩ := h
    exact ⟨q, hq, by simp [he]⟩
  simp only [specStep, stored_win, hdup, Bool.true_or, if_true]

theorem specStep_drop_old (md : Int) (cs : List Commit) (c : In) (p : Commit)
    (hp : cs.head? = some p) (h : c.order ≤ p.order) : specStep md (win 0 cs) c = win 0 cs := by
  have hh : (win 0 cs).head?.join = some p := by rw [head_win, if_pos rfl, hp]
  simp only [specStep, hh, h, decide_true, Bool.or_true, if_true]

theorem specStep_split (md : Int) (k : Nat) (older newer : List Commit) (c : In)
    (ho : ∀ q ∈ older, q.order < c.order) (hn : ∀ q ∈ newer, c.order < q.order)
    (hk : k = 0 → ∀ p, (older ++ newer).head? = some p → p.order < c.order) :
    specStep md (win k (older ++ newer)) c =
      match older.getLast? with
      | none => (win k (older ++ [mkCommit c c.ts newer.isEmpty] ++ newer)).drop 1
      | some p =>
        if !(k == 0 && older.length == 1 && !newer.isEmpty) && decide (c.ts - p.ts < md * 1000)
        then win k (older.dropLast ++ [mkCommit c p.ts newer.isEmpty] ++ newer)
        else (win k (older ++ [mkCommit c c.ts newer.isEmpty] ++ newer)).drop 1 := by
  have hdup : ((older ++ newer).any fun q => q.order == c.order) = false := by
    rw [List.any_eq_false]
    intro q hq
    rcases List.mem_append.1 hq with h | h
    · have := ho q h; simp; omega
    · have := hn q h; simp; omega
  have htoo : ∀ o, (win k (older ++ newer)).head?.join = some o → ¬ c.order ≤ o.order := by
    intro o heq
    rw [head_win] at heq
    split at heq
    · have := hk ‹_› o heq; omega
    · cases heq
  have hold : (older ++ newer).filter (fun q => decide (q.order < c.order)) = older := by
    rw [List.filter_append, List.filter_eq_self.2 (by intro q hq; simp [ho q hq]),
      List.filter_eq_nil_iff.2 (by intro q hq; have := hn q hq; simp; omega), List.append_nil]
  have hnew : (older ++ newer).filter (fun q => decide (c.order < q.order)) = newer := by
    rw [List.filter_append, (List.filter_eq_self (l := newer)).2 (by intro q hq; simp [hn q hq]),
      (List.filter_eq_nil_iff (l := older)).2 (by intro q hq; have := ho q hq; simp; omega),
      List.nil_append]
  have hkk : (win k (older ++ newer)).length - (older ++ newer).length = k := by
    rw [win_length]; omega
  cases hh : (win k (older ++ newer)).head?.join with
  | none =>
    simp only [specStep, stored_win, hdup, hh, hold, hnew, hkk, Bool.or_false, insert_eq]
    rfl
  | some o =>
    have := htoo o hh
    simp only [specStep, stored_win, hdup, hh, hold, hnew, hkk, Bool.or_false, insert_eq, this,
      decide_false]
    rfl

/-! ### 4. the model, in terms of the read-out -/

theorem stepRing_drop {r : Ring Commit} {c : In} (md : Int) (h : findDest r c.order = some none) :
    stepRing md r c = some r := by
  simp [stepRing, placeCommit, h]

theorem stepRing_place {r : Ring Commit} {c : In} (md : Int) {d : Dest}
    (h : findDest r c.order = some (some d)) :
    stepRing md r c = some (storeCommit r (mergeDest r md d c.order c.ts).1
      { offset := c.offset, order := c.order, ts := (mergeDest r md d c.order c.ts).2,
        lag := if d = .append then some (lagAt c.broker c.offset) else none }) := by
  simp [stepRing, placeCommit, h]

theorem findDest_empty {r : Ring Commit} (o : Int) (h : r.get (r.back 1) = none) :
    findDest r o = some (some .append) := by
  simp [findDest, h]

theorem findDest_full_drop {r : Ring Commit} {o : Int} {nw od : Commit}
    (h : r.get (r.back 1) = some nw) (h0 : r.get 0 = some od) (ho : o ≤ od.order) :
    findDest r o = some none := by
  simp [findDest, h, h0, ho]

theorem findDest_append {r : Ring Commit} {o : Int} {nw : Commit}
    (h : r.get (r.back 1) = some nw) (h0 : ∀ od, r.get 0 = some od → od.order < o)
    (ho : nw.order < o) : findDest r o = some (some .append) := by
  cases hg : r.get 0 with
  | none => simp [findDest, h, hg]; omega
  | some od =>
    have := h0 od hg
    simp only [findDest, h, hg, ge_iff_le, decide_eq_true_eq]
    rw [if_neg (by omega), if_neg (by omega)]

theorem findDest_search {r : Ring Commit} {o : Int} {nw : Commit}
    (h : r.get (r.back 1) = some nw) (h0 : ∀ od, r.get 0 = some od → od.order < o)
    (ho : o ≤ nw.order) : findDest r o = searchDest r o r.len 0 := by
  cases hg : r.get 0 with
  | none => simp [findDest, h, hg, ho]
  | some od =>
    have := h0 od hg
    simp only [findDest, h, hg, ge_iff_le, decide_eq_true_eq]
    rw [if_neg (by omega), if_pos ho]

/-- the ring `r` reads out as `k` blanks followed by `cs` -/
def Rep (r : Ring Commit) (k : Nat) (cs : List Commit) : Prop :=
  r.len = k + cs.length ∧ ∀ i, i < r.len → r.get i = if i < k then none else cs[i - k]?

theorem rep_of_readout {r : Ring Commit} {k : Nat} {cs : List Commit} (h : r.readout = win k cs) :
    Rep r k cs := by
  refine ⟨?_, fun i hi => ?_⟩
  · rw [← readout_length, h, win_length]
  · rw [get_of_readout h hi, win_get]

/-- what the backwards search may answer -/
def SearchSpec (k : Nat) (cs : List Commit) (o : Int) : Option Dest → Prop
  | none => ∃ q ∈ cs, q.order = o
  | some d => ∃ older newer, cs = older ++ newer ∧ (∀ q ∈ older, q.order < o) ∧
      (∀ q ∈ newer, o < q.order) ∧
      ((older = [] ∧ 0 < k ∧ d = .replace (k - 1)) ∨
       (k = 0 ∧ older.length = 1 ∧ d = .replace 0) ∨
       (older ≠ [] ∧ newer ≠ [] ∧ ¬(k = 0 ∧ older.length = 1) ∧ d = .shift (k + older.length)))

theorem searchDest_spec {r : Ring Commit} {k : Nat} {cs : List Commit} (o : Int) (hr : Rep r k cs)
    (hs : cs.Pairwise (fun a b => a.order < b.order))
    (hnw : ∀ q, cs.getLast? = some q → o ≤ q.order)
    (hhd : k = 0 → ∀ p, cs.head? = some p → p.order < o) :
    ∀ fuel j, fuel + j = r.len → 0 < fuel → j ≤ cs.length →
      (∀ i (h : i < cs.length), cs.length - j ≤ i → o < cs[i].order) →
      ∃ res, searchDest r o fuel j = some res ∧ SearchSpec k cs o res := by
  obtain ⟨hlen, G⟩ := hr
  have hsorted := List.pairwise_iff_getElem.1 hs
  intro fuel
  induction fuel with
  | zero => intro j _ h; omega
  | succ f ih =>
    intro j hfj _ hjm inv
    have hb : r.back (j + 1) = r.len - (j + 1) := back_le (by omega) (by omega)
    simp only [searchDest, hb]
    by_cases hjeq : j = cs.length
    · -- reached the blank slot before the oldest commit
      have hget : r.get (r.len - (j + 1)) = none := by
        rw [G _ (by omega), if_pos (by omega)]
      simp only [hget]
      refine ⟨_, rfl, [], cs, rfl, by simp, ?_, Or.inl ⟨rfl, by omega, ?_⟩⟩
      · intro q hq
        obtain ⟨i, hi, rfl⟩ := List.getElem_of_mem hq
        exact inv i hi (by omega)
      · congr 1; omega
    · have hidx : cs.length - 1 - j < cs.length := by omega
      have hget : r.get (r.len - (j + 1)) = some cs[cs.length - 1 - j] := by
        rw [G _ (by omega), if_neg (by omega), ← List.getElem?_eq_getElem hidx]
        congr 1; omega
      simp only [hget]
      by_cases hp0 : r.len - (j + 1) = 0
      · -- reached the slot at the ring pointer
        rw [if_pos hp0]
        have hk0 : k = 0 := by omega
        have hj1 : cs.length - 1 - j = 0 := by omega
        have hhead : cs.head? = some cs[0] := by
          rw [List.head?_eq_getElem?, List.getElem?_eq_getElem]
        have hlt := hhd hk0 _ hhead
        refine ⟨_, rfl, cs.take 1, cs.drop 1, (List.take_append_drop 1 cs).symm, ?_, ?_,
          Or.inr (Or.inl ⟨hk0, ?_, by rw [hp0]⟩)⟩
        · intro q hq
          obtain ⟨i, hi, rfl⟩ := List.mem_take_iff_getElem.1 hq
          have : i = 0 := by omega
          subst this; exact hlt
        · intro q hq
          obtain ⟨i, hi, rfl⟩ := List.mem_drop_iff_getElem.1 hq
          exact inv _ _ (by omega)
        · rw [List.length_take]; omega
      · rw [if_neg hp0]
        by_cases hlt : cs[cs.length - 1 - j].order < o
        · rw [if_pos hlt]
          have hj0 : 0 < j := by
            rcases Nat.eq_zero_or_pos j with h | h
            · exfalso
              subst h
              have := hnw cs[cs.length - 1] (by
                rw [List.getLast?_eq_getElem?, List.getElem?_eq_getElem])
              simp only [Nat.sub_zero] at hlt
              omega
            · exact h
          have hbj : r.back j = r.len - j := back_le (by omega) hj0
          refine ⟨_, rfl, cs.take (cs.length - j), cs.drop (cs.length - j),
            (List.take_append_drop _ cs).symm, ?_, ?_, Or.inr (Or.inr ⟨?_, ?_, ?_, ?_⟩)⟩
          · intro q hq
            obtain ⟨i, hi, rfl⟩ := List.mem_take_iff_getElem.1 hq
            by_cases hie : i = cs.length - 1 - j
            · subst hie; exact hlt
            · have := hsorted i (cs.length - 1 - j) (by omega) hidx (by omega)
              omega
          · intro q hq
            obtain ⟨i, hi, rfl⟩ := List.mem_drop_iff_getElem.1 hq
            exact inv _ _ (by omega)
          · intro h
            have := congrArg List.length h
            rw [List.length_take] at this
            simp at this; omega
          · intro h
            have := congrArg List.length h
            rw [List.length_drop] at this
            simp at this; omega
          · rw [List.length_take]; omega
          · rw [hbj, List.length_take]; congr 1; omega
        · rw [if_neg hlt]
          by_cases heq : cs[cs.length - 1 - j].order = o
          · rw [if_pos heq]
            exact ⟨_, rfl, _, List.getElem_mem hidx, heq⟩
          · rw [if_neg heq]
            apply ih (j + 1) (by omega) (by omega) (by omega)
            intro i hi hge
            by_cases hie : i = cs.length - 1 - j
            · subst hie; omega
            · exact inv i hi (by omega)

theorem mergeDest_none {r : Ring Commit} (md : Int) (d : Dest) (o ts : Int)
    (h : r.get ((d.slot + r.back 1) % r.len) = none) : mergeDest r md d o ts = (d, ts) := by
  simp [mergeDest, h]

theorem mergeDest_some {r : Ring Commit} (md : Int) (d : Dest) (o ts : Int) {pv : Commit}
    (h : r.get ((d.slot + r.back 1) % r.len) = some pv) :
    mergeDest r md d o ts =
      if pv.order < o ∧ ts - pv.ts < md * 1000
      then (.replace ((d.slot + r.back 1) % r.len), pv.ts) else (d, ts) := by
  simp [mergeDest, h]

/-- close a goal that is an equation between nested `if`s over linear index conditions -/
macro "ifs" : tactic =>
  `(tactic| ((repeat' split) <;> (first | rfl | omega | (congr 1; omega))))

theorem get_set2 {r : Ring Commit} {a b x : Nat} (u v : Option Commit) (ha : a < r.len)
    (hb : b < r.len) (hx : x < r.len) :
    ((r.set a u).set b v).get x = if b = x then v else if a = x then u else r.get x := by
  rw [get_set v (by simpa using hb) (by simpa using hx), get_set u ha hx]

theorem shiftLoop_spec {s : Nat} : ∀ (fuel d : Nat) (r : Ring Commit) (t : Nat),
    t = s + d → t < r.len → d ≤ fuel →
    (shiftLoop r s fuel t).len = r.len ∧ ∀ i, i < r.len →
      (shiftLoop r s fuel t).get i =
        if i = s ∧ 0 < d then none else if s < i ∧ i ≤ t then r.get (i - 1) else r.get i := by
  intro fuel
  induction fuel with
  | zero =>
    intro d r t ht _ hd
    refine ⟨rfl, fun i _ => ?_⟩
    simp only [shiftLoop]
    ifs
  | succ f ih =>
    intro d r t ht htn hd
    have hmt : t % r.len = t := Nat.mod_eq_of_lt htn
    have hms : s % r.len = s := Nat.mod_eq_of_lt (by omega)
    simp only [shiftLoop, hmt, hms]
    by_cases hts : t = s
    · rw [if_pos hts]
      refine ⟨rfl, fun i _ => ?_⟩
      ifs
    · rw [if_neg hts]
      have hcf : (t + r.back 1) % r.len = t - 1 := by
        rw [back_one (by omega), prev_slot htn, if_neg (by omega)]
      rw [hcf]
      have hl1 : ((r.set t (r.get (t - 1))).set (t - 1) none).len = r.len := by simp
      obtain ⟨h1, h2⟩ := ih (d - 1) ((r.set t (r.get (t - 1))).set (t - 1) none) (t - 1)
        (by omega) (by rw [hl1]; omega) (by omega)
      refine ⟨h1.trans hl1, fun i hi => ?_⟩
      rw [h2 i (by rw [hl1]; exact hi)]
      have hg : ∀ x, x < r.len → ((r.set t (r.get (t - 1))).set (t - 1) none).get x =
          if t - 1 = x then none else if t = x then r.get (t - 1) else r.get x :=
        fun x hx => get_set2 _ _ htn (by omega) hx
      rw [hg i hi, hg (i - 1) (by omega)]
      ifs

theorem shiftLoop_zero {r : Ring Commit} {s : Nat} (hs0 : 0 < s) (hs : s < r.len) :
    ∀ fuel, r.len - s ≤ fuel →
    (shiftLoop r s fuel 0).len = r.len ∧ ∀ i, i < r.len →
      (shiftLoop r s fuel 0).get i =
        if i = 0 then r.get (r.len - 1) else if i = s then none
        else if s < i then r.get (i - 1) else r.get i := by
  intro fuel hf
  cases fuel with
  | zero => omega
  | succ f =>
    have hms : s % r.len = s := Nat.mod_eq_of_lt hs
    simp only [shiftLoop, Nat.zero_mod, hms]
    rw [if_neg (by omega)]
    have hcf : (0 + r.back 1) % r.len = r.len - 1 := by
      rw [back_one (by omega), prev_slot (by omega), if_pos rfl]
    rw [hcf]
    have hl1 : ((r.set 0 (r.get (r.len - 1))).set (r.len - 1) none).len = r.len := by simp
    obtain ⟨h1, h2⟩ := shiftLoop_spec (s := s) f (r.len - 1 - s)
      ((r.set 0 (r.get (r.len - 1))).set (r.len - 1) none) (r.len - 1)
      (by omega) (by rw [hl1]; omega) (by omega)
    refine ⟨h1.trans hl1, fun i hi => ?_⟩
    rw [h2 i (by rw [hl1]; exact hi)]
    have hg : ∀ x, x < r.len → ((r.set 0 (r.get (r.len - 1))).set (r.len - 1) none).get x =
        if r.len - 1 = x then none else if 0 = x then r.get (r.len - 1) else r.get x :=
      fun x hx => get_set2 _ _ (by omega) (by omega) hx
    rw [hg i hi, hg (i - 1) (by omega)]
    ifs

/-! #### the four ways of storing, as read-outs -/

/-- append: write at the pointer, step the pointer -/
theorem readout_append {r : Ring Commit} {k : Nat} {cs : List Commit} (x : Commit)
    (hr : Rep r k cs) (h0 : 0 < r.len) :
    ((r.set 0 (some x)).advance 1).readout = (win k (cs ++ [x] ++ [])).drop 1 := by
  obtain ⟨hlen, G⟩ := hr
  apply readout_eq
  · simp [win_length]; omega
  · intro i hi
    simp only [len_advance, len_set] at hi
    rw [get_set_advance _ h0 hi, win_drop_get, getElem?_mid]
    by_cases h : i + 1 = r.len
    · rw [if_pos h]; simp only [if_true]
      ifs
    · rw [if_neg h, if_neg (by omega), G _ (by omega)]
      ifs

/-- merge into the predecessor `older.getLast` -/
theorem readout_merge {r : Ring Commit} {k : Nat} {older newer : List Commit} (x : Commit)
    (hr : Rep r k (older ++ newer)) (ho : older ≠ []) :
    (r.set (k + older.length - 1) (some x)).readout = win k (older.dropLast ++ [x] ++ newer) := by
  obtain ⟨hlen, G⟩ := hr
  have hl : 0 < older.length := List.length_pos_iff.2 ho
  rw [List.length_append] at hlen
  apply readout_eq
  · simp [win_length]; omega
  · intro i hi
    simp only [len_set] at hi
    rw [get_set _ (by omega) hi, win_get, getElem?_midDrop _ _ _ _ ho, G _ hi, getElem?_two]
    ifs

/-- fill the blank slot just before the oldest commit -/
theorem readout_blank {r : Ring Commit} {k : Nat} {newer : List Commit} (x : Commit)
    (hr : Rep r k newer) (hk : 0 < k) :
    (r.set (k - 1) (some x)).readout = (win k ([] ++ [x] ++ newer)).drop 1 := by
  obtain ⟨hlen, G⟩ := hr
  apply readout_eq
  · simp [win_length]; omega
  · intro i hi
    simp only [len_set] at hi
    rw [get_set _ (by omega) hi, win_drop_get, getElem?_mid, G _ hi]
    simp only [List.length_nil]
    ifs

/-- overwrite the oldest commit of a full window -/
theorem readout_oldest {r : Ring Commit} {older newer : List Commit} (x : Commit)
    (hr : Rep r 0 (older ++ newer)) (ho : older.length = 1) :
    (r.set 0 (some x)).readout = (win 0 (older ++ [x] ++ newer)).drop 1 := by
  obtain ⟨hlen, G⟩ := hr
  rw [List.length_append] at hlen
  apply readout_eq
  · simp [win_length]; omega
  · intro i hi
    simp only [len_set] at hi
    rw [get_set _ (by omega) hi, win_drop_get, getElem?_mid, G _ hi, getElem?_two]
    ifs

/-- shift-insert -/
theorem readout_shift {r : Ring Commit} {k : Nat} {older newer : List Commit} (x : Commit)
    (hr : Rep r k (older ++ newer)) (ho : older ≠ []) (hn : newer ≠ []) :
    (((shiftLoop r (k + older.length) r.len 0).set (k + older.length) (some x)).advance 1).readout
      = (win k (older ++ [x] ++ newer)).drop 1 := by
  obtain ⟨hlen, G⟩ := hr
  have hl : 0 < older.length := List.length_pos_iff.2 ho
  have hl' : 0 < newer.length := List.length_pos_iff.2 hn
  rw [List.length_append] at hlen
  obtain ⟨h1, h2⟩ := shiftLoop_zero (r := r) (s := k + older.length) (by omega) (by omega)
    r.len (by omega)
  apply readout_eq
  · simp [win_length, h1]; omega
  · intro i hi
    simp only [len_advance, len_set, h1] at hi
    rw [get_set_advance _ (by rw [h1]; omega) (by rw [h1]; exact hi), h1, win_drop_get,
      getElem?_mid, h2 0 (by omega)]
    by_cases h : i + 1 = r.len
    · rw [if_pos h, if_neg (by omega), if_pos rfl, G _ (by omega), getElem?_two]
      ifs
    · rw [if_neg h, h2 _ (by omega)]
      by_cases h' : k + older.length = i + 1
      · rw [if_pos h']
        ifs
      · rw [if_neg h', if_neg (by omega), if_neg (by omega), G _ (by omega), G _ (by omega),
          getElem?_two, getElem?_two]
        simp only [Nat.add_sub_cancel]
        ifs

/-! ### 5. assembly -/

theorem shiftLoop_len (s : Nat) : ∀ (fuel : Nat) (r : Ring Commit) (t : Nat),
    (shiftLoop r s fuel t).len = r.len
  | 0, _, _ => rfl
  | f + 1, r, t => by
    simp only [shiftLoop]
    split
    · rfl
    · rw [shiftLoop_len s f]; simp

theorem storeCommit_len (r : Ring Commit) (d : Dest) (x : Commit) : (storeCommit r d x).len = r.len := by
  cases d <;> simp [storeCommit, shiftLoop_len]

/-- what has to be shown for one arrival -/
def StepGoal (md : Int) (r : Ring Commit) (c : In) (k : Nat) (cs : List Commit) : Prop :=
  ∃ r', stepRing md r c = some r' ∧ r'.len = r.len ∧ r'.readout = specStep md (win k cs) c

theorem place_goal {md : Int} {r : Ring Commit} {c : In} {k : Nat} {cs : List Commit} {d : Dest}
    (hfd : findDest r c.order = some (some d))
    (h : (storeCommit r (mergeDest r md d c.order c.ts).1
      { offset := c.offset, order := c.order, ts := (mergeDest r md d c.order c.ts).2,
        lag := if d = .append then some (lagAt c.broker c.offset) else none }).readout
        = specStep md (win k cs) c) : StepGoal md r c k cs :=
  ⟨_, stepRing_place md hfd, storeCommit_len _ _ _, h⟩

theorem rep_mem {r : Ring Commit} {k : Nat} {cs : List Commit} (hr : Rep r k cs) {j : Nat}
    (hj : j < r.len) {pv : Commit} (h : r.get j = some pv) : pv ∈ cs := by
  rw [hr.2 j hj] at h
  split at h
  · cases h
  · exact List.mem_of_getElem? h

theorem step_append {md : Int} {r : Ring Commit} {c : In} {k : Nat} {cs : List Commit}
    (hr : Rep r k cs) (h0 : 0 < r.len) (hfd : findDest r c.order = some (some .append))
    (ho : ∀ q ∈ cs, q.order < c.order) : StepGoal md r c k cs := by
  apply place_goal hfd
  have hspec := specStep_split md k cs [] c ho (by simp) (by
    intro _ p hp
    rw [List.append_nil] at hp
    exact ho p (List.mem_of_mem_head? hp))
  rw [List.append_nil] at hspec
  rw [hspec]
  have hslot : (Dest.append.slot + r.back 1) % r.len = r.len - 1 := by
    rw [back_one h0]; show (0 + (r.len - 1)) % r.len = _
    rw [prev_slot h0, if_pos rfl]
  cases hlast : cs.getLast? with
  | none =>
    have hnil : cs = [] := List.getLast?_eq_none_iff.1 hlast
    subst hnil
    have hget : r.get ((Dest.append.slot + r.back 1) % r.len) = none := by
      rw [hslot, hr.2 _ (by omega), if_pos (by have := hr.1; simp at this; omega)]
    rw [mergeDest_none _ _ _ _ hget]
    simp only [storeCommit, if_true]
    rw [readout_append _ hr h0]
    simp [mkCommit]
  | some p =>
    have hne : cs ≠ [] := by intro h; subst h; simp at hlast
    have hl : 0 < cs.length := List.length_pos_iff.2 hne
    have hget : r.get ((Dest.append.slot + r.back 1) % r.len) = some p := by
      rw [hslot, hr.2 _ (by omega), if_neg (by have := hr.1; omega), ← hlast,
        List.getLast?_eq_getElem?]
      congr 1; have := hr.1; omega
    have hpo : p.order < c.order := ho p (List.mem_of_getLast? hlast)
    rw [mergeDest_some _ _ _ _ hget, hslot]
    by_cases hm : c.ts - p.ts < md * 1000
    · rw [if_pos ⟨hpo, hm⟩]
      simp only [storeCommit, if_true]
      have := readout_merge (newer := []) (mkCommit c p.ts true) (by rw [List.append_nil]; exact hr) hne
      rw [show r.len - 1 = k + cs.length - 1 by have := hr.1; omega]
      simp [mkCommit, hm] at this ⊢
      exact this
    · rw [if_neg (by intro h; exact hm h.2)]
      simp only [storeCommit, if_true]
      rw [readout_append _ hr h0]
      simp [mkCommit, hm]

theorem step_blank {md : Int} {r : Ring Commit} {c : In} {k : Nat} {newer : List Commit}
    (hr : Rep r k newer) (hk : 0 < k) (hne : newer ≠ [])
    (hfd : findDest r c.order = some (some (.replace (k - 1))))
    (hn : ∀ q ∈ newer, c.order < q.order) : StepGoal md r c k newer := by
  apply place_goal hfd
  have hspec := specStep_split md k [] newer c (by simp) hn (by omega)
  rw [List.nil_append] at hspec
  rw [hspec]
  have hslot : (Dest.slot (.replace (k - 1)) + r.back 1) % r.len < r.len :=
    Nat.mod_lt _ (by have := hr.1; omega)
  have hmd : mergeDest r md (.replace (k - 1)) c.order c.ts = (.replace (k - 1), c.ts) := by
    cases hg : r.get ((Dest.slot (.replace (k - 1)) + r.back 1) % r.len) with
    | none => exact mergeDest_none _ _ _ _ hg
    | some pv =>
      have := hn pv (rep_mem hr hslot hg)
      rw [mergeDest_some _ _ _ _ hg, if_neg (by omega)]
  rw [hmd]
  simp only [storeCommit]
  rw [readout_blank _ hr hk]
  have : newer.isEmpty = false := by cases newer <;> simp at hne ⊢
  simp [mkCommit, this]

theorem step_oldest {md : Int} {r : Ring Commit} {c : In} {older newer : List Commit}
    (hr : Rep r 0 (older ++ newer)) (hol : older.length = 1) (hne : newer ≠ [])
    (hfd : findDest r c.order = some (some (.replace 0)))
    (ho : ∀ q ∈ older, q.order < c.order)
    (hn : ∀ q ∈ newer, c.order < q.order) : StepGoal md r c 0 (older ++ newer) := by
  apply place_goal hfd
  have hl' : 0 < newer.length := List.length_pos_iff.2 hne
  have hlen := hr.1
  rw [List.length_append] at hlen
  have hspec := specStep_split md 0 older newer c ho hn (by
    intro _ p hp
    cases older with
    | nil => simp at hol
    | cons a t => simp at hp; subst hp; exact ho _ (by simp))
  rw [hspec]
  have hslot : (Dest.slot (.replace 0) + r.back 1) % r.len = r.len - 1 := by
    rw [back_one (by omega)]; show (0 + (r.len - 1)) % r.len = _
    rw [prev_slot (by omega), if_pos rfl]
  have hmd : mergeDest r md (.replace 0) c.order c.ts = (.replace 0, c.ts) := by
    cases hg : r.get ((Dest.slot (.replace 0) + r.back 1) % r.len) with
    | none => exact mergeDest_none _ _ _ _ hg
    | some pv =>
      have hmem : pv ∈ newer := by
        have hg' := hg
        rw [hslot, hr.2 _ (by omega), if_neg (by omega), getElem?_two, if_neg (by omega)] at hg'
        exact List.mem_of_getElem? hg'
      have := hn pv hmem
      rw [mergeDest_some _ _ _ _ hg, if_neg (by omega)]
  rw [hmd]
  simp only [storeCommit]
  rw [readout_oldest _ hr hol]
  have hem : newer.isEmpty = false := by cases newer <;> simp at hne ⊢
  obtain ⟨p, hp⟩ : ∃ p, older.getLast? = some p := by
    cases h : older.getLast? with
    | none => rw [List.getLast?_eq_none_iff] at h; subst h; simp at hol
    | some p => exact ⟨p, rfl⟩
  simp [mkCommit, hem, hp, hol]

theorem step_shift {md : Int} {r : Ring Commit} {c : In} {k : Nat} {older newer : List Commit}
    (hr : Rep r k (older ++ newer)) (hoe : older ≠ []) (hne : newer ≠ [])
    (hev : ¬(k = 0 ∧ older.length = 1))
    (hfd : findDest r c.order = some (some (.shift (k + older.length))))
    (ho : ∀ q ∈ older, q.order < c.order)
    (hn : ∀ q ∈ newer, c.order < q.order) : StepGoal md r c k (older ++ newer) := by
  apply place_goal hfd
  have hl : 0 < older.length := List.length_pos_iff.2 hoe
  have hl' : 0 < newer.length := List.length_pos_iff.2 hne
  have hlen := hr.1
  rw [List.length_append] at hlen
  have hspec := specStep_split md k older newer c ho hn (by
    intro _ p hp
    cases older with
    | nil => simp at hoe
    | cons a t => simp at hp; subst hp; exact ho _ (by simp))
  rw [hspec]
  have hslot : (Dest.slot (.shift (k + older.length)) + r.back 1) % r.len = k + older.length - 1 := by
    rw [back_one (by omega)]; show (k + older.length + (r.len - 1)) % r.len = _
    rw [prev_slot (by omega), if_neg (by omega)]
  obtain ⟨p, hp⟩ : ∃ p, older.getLast? = some p := by
    cases h : older.getLast? with
    | none => rw [List.getLast?_eq_none_iff] at h; exact absurd h hoe
    | some p => exact ⟨p, rfl⟩
  have hget : r.get ((Dest.slot (.shift (k + older.length)) + r.back 1) % r.len) = some p := by
    rw [hslot, hr.2 _ (by omega), if_neg (by omega), getElem?_two, if_pos (by omega), ← hp,
      List.getLast?_eq_getElem?]
    congr 1; omega
  have hpo : p.order < c.order := ho p (List.mem_of_getLast? hp)
  have hem : newer.isEmpty = false := by cases newer <;> simp at hne ⊢
  have hevb : (k == 0 && older.length == 1) = false := by
    cases h : (k == 0 && older.length == 1) with
    | false => rfl
    | true => simp at h; exact absurd h hev
  rw [mergeDest_some _ _ _ _ hget, hslot]
  by_cases hm : c.ts - p.ts < md * 1000
  · rw [if_pos ⟨hpo, hm⟩]
    simp only [storeCommit]
    rw [readout_merge _ hr hoe]
    simp [mkCommit, hem, hp, hevb, hm]
  · rw [if_neg (by intro h; exact hm h.2)]
    simp only [storeCommit]
    rw [readout_shift _ hr hoe hne]
    simp [mkCommit, hem, hp, hm]

theorem refine_step : Spec.Window.RefineStep := by
  intro N hN md r c hlenN hwf
  obtain ⟨k, cs, hw, hk, hs⟩ := hwf
  have hw' : r.readout = win k cs := hw
  have hr := rep_of_readout hw'
  have h0 : 0 < r.len := by omega
  suffices StepGoal md r c k cs by
    obtain ⟨r', h1, h2, h3⟩ := this
    exact ⟨r', h1, h2.trans hlenN, by rw [hw']; exact h3⟩
  have hlen := hr.1
  have hb1 := back_one h0
  cases hlast : cs.getLast? with
  | none =>
    have hnil : cs = [] := List.getLast?_eq_none_iff.1 hlast
    subst hnil
    have hget : r.get (r.back 1) = none := by
      rw [hb1, hr.2 _ (by omega), if_pos (by simp at hlen; omega)]
    exact step_append hr h0 (findDest_empty _ hget) (by simp)
  | some nw =>
    have hne : cs ≠ [] := by intro h; subst h; simp at hlast
    have hl : 0 < cs.length := List.length_pos_iff.2 hne
    have hget : r.get (r.back 1) = some nw := by
      rw [hb1, hr.2 _ (by omega), if_neg (by omega), ← hlast, List.getLast?_eq_getElem?]
      congr 1; omega
    have hsorted := List.pairwise_iff_getElem.1 hs
    have hnwmax : ∀ q ∈ cs, q.order ≤ nw.order := by
      intro q hq
      obtain ⟨i, hi, rfl⟩ := List.getElem_of_mem hq
      have hnw : nw = cs[cs.length - 1] := by
        rw [List.getLast?_eq_getElem?, List.getElem?_eq_getElem (by omega)] at hlast
        exact (Option.some.inj hlast).symm
      by_cases hie : i = cs.length - 1
      · subst hie; rw [hnw]; exact Int.le_refl _
      · have := hsorted i (cs.length - 1) hi (by omega) (by omega)
        rw [hnw]; omega
    -- the slot at the pointer
    have hget0 : r.get 0 = if k = 0 then cs.head? else none := by
      rw [hr.2 0 h0]
      by_cases hk0 : k = 0
      · rw [if_neg (by omega), if_pos hk0, List.head?_eq_getElem?, hk0]
      · rw [if_pos (by omega), if_neg hk0]
    by_cases hfull : ∃ od, r.get 0 = some od ∧ c.order ≤ od.order
    · -- older than everything in a full window
      obtain ⟨od, hod, hle⟩ := hfull
      have hk0 : k = 0 := by
        rw [hget0] at hod
        split at hod
        · assumption
        · cases hod
      subst hk0
      rw [hget0, if_pos rfl] at hod
      refine ⟨r, stepRing_drop md (findDest_full_drop hget ?_ hle), rfl, ?_⟩
      · rw [hget0, if_pos rfl, hod]
      · rw [specStep_drop_old md cs c od hod hle]; exact hw'
    · have hnf : ∀ od, r.get 0 = some od → od.order < c.order := by
        intro od hod
        by_cases h : od.order < c.order
        · exact h
        · exact absurd ⟨od, hod, by omega⟩ hfull
      by_cases hnewest : nw.order < c.order
      · exact step_append hr h0 (findDest_append hget hnf hnewest)
          (fun q hq => by have := hnwmax q hq; omega)
      · have hfd := findDest_search hget hnf (by omega)
        obtain ⟨res, hres, hspec⟩ := searchDest_spec c.order hr hs
          (by intro q hq; rw [hlast] at hq; cases hq; omega)
          (by
            intro hk0 p hp
            apply hnf
            rw [hget0, if_pos hk0, hp])
          r.len 0 (by omega) h0 (by omega) (by intro i hi hge; omega)
        rw [hres] at hfd
        cases res with
        | none =>
          refine ⟨r, stepRing_drop md hfd, rfl, ?_⟩
          rw [specStep_drop_dup md k cs c hspec]; exact hw'
        | some d =>
          obtain ⟨older, newer, hcs, ho, hn, hcase⟩ := hspec
          subst hcs
          have hnne : newer ≠ [] := by
            intro h
            subst h
            rw [List.append_nil] at hlast
            have := ho nw (List.mem_of_getLast? hlast)
            omega
          rcases hcase with ⟨h1, h2, h3⟩ | ⟨h1, h2, h3⟩ | ⟨h1, h2, h3, h4⟩
          · subst h1 h3
            rw [List.nil_append] at hr ⊢
            exact step_blank hr h2 hnne hfd hn
          · subst h1 h3
            exact step_oldest hr h2 hnne hfd ho hn
          · subst h4
            exact step_shift hr h1 h2 h3 hfd ho hn

end Burrow.Proofs.Ring
