/-
  The JSON clause of C20: a template whose text, read by the JSON automaton with typed holes, is
  accepted by `jsonFlow` renders to well-formed JSON on every value whose strings are JSON-safe.
-/
import BurrowVerif.Proofs.Tmpl
import BurrowVerif.Proofs.JsonPda
import BurrowVerif.Model.TmplFlow

namespace Burrow.Tmpl
open Burrow.Json

/-- every string inside the value can stand inside a JSON string as it is ("JSON-safe names") -/
inductive SafeVal : Val → Prop
  | str {s} : safeStr s = true → SafeVal (.str s)
  | bool (b) : SafeVal (.bool b)
  | float {b} : finite32 b = true → SafeVal (.float b)
  | time (t) : SafeVal (.time t)
  | status (n) : SafeVal (.status n)
  | int (w i) : SafeVal (.int w i)
  | uint (n) : SafeVal (.uint n)
  | nil : SafeVal .nil
  | noValue : SafeVal .noValue
  | ref {v} : SafeVal v → SafeVal (.ref v)
  | list {vs} : (∀ v, v ∈ vs → SafeVal v) → SafeVal (.list vs)
  | map {kvs} : (∀ kv, kv ∈ kvs → safeStr kv.2 = true) → SafeVal (.map kvs)
  | obj {n fs} : (∀ fv, fv ∈ fs → SafeVal fv.2) → SafeVal (.obj n fs)

/-- what is assumed of Go's renderings (validated on the implementation in every run) -/
structure EnvOk (env : Env) : Prop where
  time      : ∀ t l, safeStr (env.fmtTime t l) = true
  floatSafe : ∀ b, finite32 b = true → safeStr (env.fmtFloat b) = true
  /-- `fmt` of a finite float32 is a JSON number -/
  floatNum  : ∀ b σ, finite32 b = true → ∃ st, (st = St.zero ∨ st = St.int ∨ st = St.frac ∨ st = St.exp) ∧
                run ⟨.value, σ⟩ (env.fmtFloat b).toList = ⟨st, σ⟩
  /-- `json.Marshal` of the partitions is a JSON text ending an array, object, string or literal -/
  parts     : run {} env.partsJson.toList = ⟨.after, []⟩

variable {σ : Schema} {env : Env}

theorem lookup_mem {β} : ∀ {l : List (String × β)} {k : String} {v : β}, l.lookup k = some v → (k, v) ∈ l := by
  intro l
  induction l with
  | nil => intro k v h; simp at h
  | cons a as ih =>
    intro k v h
    obtain ⟨k', v'⟩ := a
    simp only [List.lookup] at h
    cases hk : k == k' with
    | true => simp [hk] at h; subst h; simp at hk; subst hk; simp
    | false => simp only [hk] at h; exact List.mem_cons_of_mem _ (ih h)

theorem fieldOf_safe {v x : Val} {name : String} (hv : SafeVal v) (h : fieldOf σ v name = .ok x) : SafeVal x := by
  unfold fieldOf at h
  split at h
  · simp at h
  · -- ref (obj)
    cases hv with
    | ref hv' =>
      cases hv' with
      | obj hfs =>
        split at h
        · simp at h
        · split at h
          · rename_i y hy
            simp at h; subst h
            exact hfs _ (lookup_mem hy)
          · simp at h
  · cases hv with
    | obj hfs =>
      split at h
      · simp at h
      · split at h
        · rename_i y hy
          simp at h; subst h
          exact hfs _ (lookup_mem hy)
        · simp at h
  · cases hv with
    | map hm =>
      split at h
      · rename_i s hs
        simp at h; subst h
        exact .str (hm _ (lookup_mem hs))
      · simp at h; subst h; exact .noValue
  all_goals simp at h

theorem statusName_safe (n : Int) : safeStr (statusName n) = true := by
  unfold statusName
  repeat' split
  all_goals decide

theorem step_safe (henv : EnvOk env) {v x : Val} {name : String} {args : List Val}
    (hv : SafeVal v) (h : step σ env v name args = .ok x) : SafeVal x := by
  unfold step at h
  split at h
  · -- time
    split at h
    · split at h
      · simp at h; subst h; exact .str (henv.time _ _)
      · simp at h
    · split at h <;> simp at h
  · -- status
    split at h
    · split at h
      · simp at h; subst h; exact .str (statusName_safe _)
      · simp at h
    · split at h <;> simp at h
  · split at h
    · rename_i y hy
      split at h
      · simp at h; subst h; exact fieldOf_safe hv hy
      · simp at h
    · simp at h
    · simp at h

theorem walk_safe (henv : EnvOk env) : ∀ (chain : List String) {v x : Val}, SafeVal v →
    walk σ env v chain = .ok x → SafeVal x := by
  intro chain
  induction chain with
  | nil => intro v x hv h; simp [walk] at h; subst h; exact hv
  | cons f rest ih =>
    intro v x hv h
    simp only [walk] at h
    split at h
    · rename_i y hy; exact ih (step_safe henv hv hy) h
    · simp at h
    · simp at h

end Burrow.Tmpl

namespace Burrow.Tmpl
open Burrow.Json

variable {σ : Schema} {env : Env}

/-! ### JSON-safety is preserved by evaluation (as long as `jsonencoder` is not called) -/

theorem evalArg_safe (henv : EnvOk env) {dot x : Val} {a : Arg} (ha : argSafe a = true) (hd : SafeVal dot)
    (h : evalArg σ env dot a = .ok x) : SafeVal x := by
  cases a with
  | dot => simp [evalArg] at h; subst h; exact hd
  | field chain => exact walk_safe henv chain hd h
  | str s => simp [evalArg] at h; subst h; exact .str (by simpa [argSafe] using ha)
  | num n => simp [evalArg] at h; subst h; exact .int 0 n
  | unsupported w => simp [evalArg] at h

theorem mapRes_safe (henv : EnvOk env) {dot : Val} (hd : SafeVal dot) : ∀ {args : List Arg} {vs : List Val},
    args.all argSafe = true → mapRes (evalArg σ env dot) args = .ok vs → ∀ v ∈ vs, SafeVal v := by
  intro args
  induction args with
  | nil => intro vs _ h; simp [mapRes] at h; subst h; simp
  | cons a rest ih =>
    intro vs hs h
    simp only [List.all_cons, Bool.and_eq_true] at hs
    simp only [mapRes] at h
    split at h
    · rename_i b hb
      split at h
      · rename_i bs hbs
        simp at h; subst h
        intro v hv
        simp only [List.mem_cons] at hv
        rcases hv with rfl | hv
        · exact evalArg_safe henv hs.1 hd hb
        · exact ih hs.2 hbs v hv
      · simp at h
      · simp at h
    · simp at h
    · simp at h

theorem fnLen_safe {args : List Val} {x : Val} (h : fnLen args = .ok x) : SafeVal x := by
  unfold fnLen at h
  split at h <;> simp at h <;> subst h <;> exact .int _ _

theorem getD_mem_or {α} (l : List α) (i : Nat) (d : α) : l[i]?.getD d ∈ l ∨ l[i]?.getD d = d := by
  by_cases hi : i < l.length
  · left; simp [List.getElem?_eq_getElem hi]
  · right; simp [List.getElem?_eq_none (Nat.le_of_not_lt hi)]

theorem fnIndex_safe {args : List Val} {x : Val} (hs : ∀ v ∈ args, SafeVal v) (h : fnIndex args = .ok x) : SafeVal x := by
  unfold fnIndex at h
  split at h
  · rename_i kvs k
    simp at h; subst h
    have hm := hs (.map kvs) (by simp)
    cases hm with
    | map hm =>
      cases hl : kvs.lookup k with
      | none => simp; exact .str (by decide)
      | some y => simp; exact .str (hm _ (lookup_mem hl))
  · rename_i vs w i
    split at h
    · simp at h; subst h
      have hm := hs (.list vs) (by simp)
      cases hm with
      | list hl =>
        rcases getD_mem_or vs i.toNat .noValue with hmem | heq
        · exact hl _ hmem
        · rw [heq]; exact .noValue
    · simp at h
  all_goals simp at h

theorem fnEq_safe {args : List Val} {x : Val} (h : fnEq args = .ok x) : SafeVal x := by
  unfold fnEq at h
  split at h
  · simp at h; subst h; exact .bool _
  · simp at h; subst h; exact .bool _
  · split at h
    · simp at h; subst h; exact .bool _
    · split at h
      · split at h <;> simp at h
      · simp at h
  · simp at h

theorem fnMaxlag_safe {args : List Val} {x : Val} (h : fnMaxlag args = .ok x) : SafeVal x := by
  unfold fnMaxlag at h
  split at h
  · simp at h; subst h; exact .uint _
  · simp at h; subst h; exact .uint _
  · split at h
    · split at h
      · simp at h; subst h; exact .uint _
      · simp at h
    · simp at h
  · simp at h

theorem fnArith_safe {op : Int → Int → Res Int} {args : List Val} {x : Val} (h : fnArith op args = .ok x) : SafeVal x := by
  unfold fnArith at h
  split at h
  · split at h
    · simp at h; subst h; exact .int _ _
    · simp at h
    · simp at h
  · simp at h

theorem builtin_safe {fn : String} {args : List Val} {x : Val} (hfn : fn ≠ "jsonencoder")
    (hs : ∀ v ∈ args, SafeVal v) (h : builtin env fn args = .ok x) : SafeVal x := by
  unfold builtin at h
  split at h
  · exact fnLen_safe h
  split at h
  · exact fnIndex_safe hs h
  split at h
  · exact fnEq_safe h
  split at h
  · exact fnMaxlag_safe h
  split at h
  · exact fnArith_safe h
  split at h
  · exact fnArith_safe h
  split at h
  · exact fnArith_safe h
  split at h
  · exact fnArith_safe h
  · simp at h

theorem evalCmd_safe (henv : EnvOk env) {dot x : Val} {fin : Option Val} {c : Cmd} (hc : cmdSafe c = true)
    (hd : SafeVal dot) (hf : ∀ f, fin = some f → SafeVal f) (h : evalCmd σ env dot fin c = .ok x) : SafeVal x := by
  have hfin : ∀ v ∈ fin.toList, SafeVal v := by
    intro v hv; cases fin with
    | none => simp at hv
    | some f => simp at hv; rw [hv]; exact hf f rfl
  cases c with
  | dot =>
    simp only [evalCmd] at h
    split at h
    · simp at h; subst h; exact hd
    · simp at h
  | field pre name args =>
    simp only [evalCmd] at h
    split at h
    · rename_i recv hrecv
      split at h
      · rename_i vs hvs
        have hr := walk_safe henv pre hd hrecv
        exact step_safe henv hr h
      · simp at h
      · simp at h
    · simp at h
    · simp at h
  | call fn args =>
    simp only [cmdSafe, Bool.and_eq_true, bne_iff_ne, ne_eq] at hc
    simp only [evalCmd] at h
    split at h
    · rename_i vs hvs
      refine builtin_safe hc.1 ?_ h
      intro v hv
      simp only [List.mem_append] at hv
      rcases hv with hv | hv
      · exact mapRes_safe henv hd hc.2 hvs v hv
      · exact hfin v hv
    · simp at h
    · simp at h
  | lit a =>
    simp only [evalCmd] at h
    split at h
    · exact evalArg_safe henv (by simpa [cmdSafe] using hc) hd h
    · simp at h
  | unsupported w => simp [evalCmd] at h

theorem evalPipe_safe (henv : EnvOk env) {dot : Val} (hd : SafeVal dot) : ∀ {cs : List Cmd} {fin : Option Val} {x : Val},
    cs.all cmdSafe = true → (∀ f, fin = some f → SafeVal f) → evalPipe σ env dot fin cs = .ok x → SafeVal x := by
  intro cs
  induction cs with
  | nil =>
    intro fin x _ hf h
    cases fin with
    | none => simp [evalPipe] at h
    | some f => simp [evalPipe] at h; subst h; exact hf f rfl
  | cons c rest ih =>
    intro fin x hs hf h
    simp only [List.all_cons, Bool.and_eq_true] at hs
    rw [evalPipe_cons] at h
    split at h
    · rename_i v hv
      exact ih hs.2 (fun f hf' => by cases hf'; exact evalCmd_safe henv hs.1 hd hf hv) h
    · simp at h
    · simp at h

/-! ### what a hole prints -/

def HolePrint (env : Env) : HoleTy → String → Prop
  | .safe, s => safeStr s = true
  | .float, s => ∃ b, finite32 b = true ∧ s = env.fmtFloat b
  | .bool, s => s = "true" ∨ s = "false"
  | .nat, s => ∃ n : Nat, s = toString n
  | .int, s => ∃ i : Int, s = toString i
  | .json, s => s = env.partsJson

theorem print_of_ty {t : Ty} {h : HoleTy} {x : Val} {s : String} (hh : holeOfTy t = some h) (hx : HasTy σ x t)
    (hs : SafeVal x) (hp : printVal env x = .ok s) : HolePrint env h s := by
  cases hx <;> simp [holeOfTy] at hh <;> subst hh <;> simp [printVal, printScalar] at hp <;> subst hp
  · cases hs with | str h => exact h
  · rename_i b; cases b <;> simp [HolePrint]
  · cases hs with | float h => exact ⟨_, h, rfl⟩
  · exact statusName_safe _
  · exact ⟨_, rfl⟩
  · exact ⟨_, rfl⟩

theorem print_of_enc {t : Ty} {h : HoleTy} {y x : Val} {s : String} (hh : holeOfEnc t = some h) (hy : HasTy σ y t)
    (hb : builtin env "jsonencoder" [y] = .ok x) (hp : printVal env x = .ok s) : HolePrint env h s := by
  cases hy <;> simp [holeOfEnc] at hh <;> subst hh <;> simp [builtin, fnJson] at hb <;> subst hb <;>
    simp [printVal, printScalar] at hp <;> subst hp
  · exact ⟨_, rfl⟩
  · exact ⟨_, rfl⟩
  · rfl

theorem evalPipe_snoc_ok {dot : Val} : ∀ {init : List Cmd} {fin : Option Val} {c : Cmd} {x : Val}, init ≠ [] →
    evalPipe σ env dot fin (init ++ [c]) = .ok x →
    ∃ v, evalPipe σ env dot fin init = .ok v ∧ evalCmd σ env dot (some v) c = .ok x := by
  intro init
  induction init with
  | nil => intro _ _ _ h; exact absurd rfl h
  | cons a rest ih =>
    intro fin c x _ h
    rw [List.cons_append, evalPipe_cons] at h
    split at h
    · rename_i v1 hv1
      cases rest with
      | nil =>
        rw [List.nil_append, evalPipe_cons] at h
        split at h
        · rename_i v2 hv2
          simp [evalPipe] at h; subst h
          exact ⟨v1, by rw [evalPipe_cons, hv1]; rfl, hv2⟩
        · simp at h
        · simp at h
      | cons b rest' =>
        obtain ⟨v, hv, hc⟩ := ih (by simp) h
        exact ⟨v, by rw [evalPipe_cons, hv1]; exact hv, hc⟩
    · simp at h
    · simp at h

theorem holeTy_print (hwf : wfTags σ = true) (henv : EnvOk env) {τ : Ty} {p : Pipe} {h : HoleTy} {v x : Val} {s : String}
    (hh : holeTy σ τ p = some h) (hv : HasTy σ v τ) (hs : SafeVal v)
    (he : evalPipe σ env v none p = .ok x) (hp : printVal env x = .ok s) : HolePrint env h s := by
  unfold holeTy at hh
  split at hh
  · rename_i hsafe
    split at hh
    · rename_i t ht
      obtain ⟨x', hx1, hx2⟩ := tyPipe_sound (env := env) hwf hv (Or.inl ⟨rfl, rfl⟩) ht
      rw [he] at hx1; cases hx1
      exact print_of_ty hh hx2 (evalPipe_safe henv hs hsafe (by simp) he) hp
    · simp at hh
  · split at hh
    · rename_i c hc
      split at hh
      · rename_i hcond
        simp only [Bool.and_eq_true] at hcond
        split at hh
        · rename_i t ht
          have hsplit : p.dropLast ++ [c] = p := by
            have hne0 : p ≠ [] := by intro e; rw [e] at hc; simp at hc
            have := List.dropLast_concat_getLast hne0
            rw [List.getLast?_eq_some_getLast hne0] at hc
            cases hc; exact this
          obtain ⟨y, hy1, hy2⟩ := tyPipe_sound (env := env) hwf hv (Or.inl ⟨rfl, rfl⟩) ht
          have hne : p.dropLast ≠ [] := by
            intro e; rw [e] at ht; simp [tyPipe] at ht
          rw [← hsplit] at he
          obtain ⟨y', hy', hcmd⟩ := evalPipe_snoc_ok hne he
          rw [hy1] at hy'; cases hy'
          cases c with
          | call fn args =>
            simp only [isJsonEnc, Bool.and_eq_true, beq_iff_eq, List.isEmpty_iff] at hcond
            obtain ⟨⟨rfl, rfl⟩, _⟩ := hcond
            simp only [evalCmd, mapRes, Option.toList, List.nil_append] at hcmd
            exact print_of_enc hh hy2 hcmd hp
          | _ => simp [isJsonEnc] at hcond
        · simp at hh
      · simp at hh
    · simp at hh

/-! ### the abstract steps are sound -/

/-- membership of a configuration in an abstract state -/
def Abs.mem (q : PDA) : Abs → Prop
  | .pda p => q = p
  | .afterNum stack => q.stack = stack ∧ numState q.st

theorem holePrint_safe (henv : EnvOk env) {h : HoleTy} {s : String} (hp : HolePrint env h s) (hj : h ≠ .json) :
    safeChars s.toList = true := by
  cases h with
  | safe => exact hp
  | float => obtain ⟨b, hb, rfl⟩ := hp; exact henv.floatSafe b hb
  | bool => rcases hp with rfl | rfl <;> decide
  | nat => obtain ⟨n, rfl⟩ := hp; exact nat_safe n
  | int => obtain ⟨i, rfl⟩ := hp; exact int_safe i
  | json => exact absurd rfl hj

theorem holeAbs_sound (henv : EnvOk env) {h : HoleTy} {a a' : Abs} {s : String} {q : PDA}
    (hp : HolePrint env h s) (ha : holeAbs h a = some a') (hq : a.mem q) : a'.mem (run q s.toList) := by
  unfold holeAbs at ha
  split at ha
  · rename_i k stack
    split at ha
    · simp at ha
    · rename_i hj
      simp at ha; subst ha
      simp only [Abs.mem] at hq ⊢; subst hq
      exact run_str_safe k stack _ (holePrint_safe henv hp hj)
  · rename_i stack
    simp only [Abs.mem] at hq; subst hq
    cases h with
    | safe => simp at ha
    | float =>
      simp at ha; subst ha
      obtain ⟨b, hb, rfl⟩ := hp
      obtain ⟨st, hst, hrun⟩ := henv.floatNum b stack hb
      rw [hrun]; exact ⟨rfl, hst⟩
    | nat =>
      simp at ha; subst ha
      obtain ⟨n, rfl⟩ := hp
      obtain ⟨st, hst, hrun⟩ := run_nat_value stack n
      rw [hrun]; exact ⟨rfl, hst⟩
    | int =>
      simp at ha; subst ha
      obtain ⟨i, rfl⟩ := hp
      obtain ⟨st, hst, hrun⟩ := run_int_value stack i
      rw [hrun]; exact ⟨rfl, hst⟩
    | bool =>
      simp at ha; subst ha
      rcases hp with rfl | rfl
      · show run _ "true".toList = _
        rw [show "true".toList = ['t','r','u','e'] from by decide]; rfl
      · show run _ "false".toList = _
        rw [show "false".toList = ['f','a','l','s','e'] from by decide]; rfl
    | json =>
      simp at ha; subst ha
      have hp' : s = env.partsJson := hp
      subst hp'
      exact run_value_in_context _ stack henv.parts
  · simp at ha

theorem textAbs_sound {a a' : Abs} {cs : List Char} {q : PDA} (ha : textAbs a cs = some a') (hq : a.mem q) :
    a'.mem (run q cs) := by
  unfold textAbs at ha
  split at ha
  · simp at ha; subst ha; exact hq
  · simp at ha; subst ha; simp only [Abs.mem] at hq ⊢; subst hq; rfl
  · rename_i stack c rest
    split at ha
    · rename_i hc
      simp at ha; subst ha
      obtain ⟨h1, h2⟩ := hq
      simp only [Abs.mem]
      rw [run_cons]
      have : q = ⟨q.st, stack⟩ := by cases q; simp at h1; simp [h1]
      rw [this, step_numEnd h2 hc]
    · simp at ha

/-! ### the flow is sound -/

theorem concatRes_flow {a : Abs} {f : Val → Res String} : ∀ {vs : List Val} {s : String} {q : PDA},
    (∀ x ∈ vs, ∀ (s : String) (q : PDA), f x = .ok s → a.mem q → a.mem (run q s.toList)) →
    concatRes (vs.map f) = .ok s → a.mem q → a.mem (run q s.toList) := by
  intro vs
  induction vs with
  | nil => intro s q _ h hq; simp [concatRes] at h; subst h; simpa [run] using hq
  | cons x rest ih =>
    intro s q hall h hq
    simp only [List.map_cons, concatRes] at h
    split at h
    · rename_i s1 hs1
      split at h
      · rename_i t ht
        simp at h; subst h
        rw [String.toList_append, run_append]
        exact ih (fun y hy => hall y (List.mem_cons_of_mem _ hy)) ht (hall x (by simp) s1 q hs1 hq)
      · simp at h
      · simp at h
    · simp at h
    · simp at h

theorem flow_sound (hwf : wfTags σ = true) (henv : EnvOk env) (t : T) :
    ∀ {τ : Ty} {a a' : Abs} {v : Val} {s : String} {q : PDA},
      flow σ t τ a = some a' → HasTy σ v τ → SafeVal v → exec σ env t v = .ok s → a.mem q →
      a'.mem (run q s.toList) := by
  induction t with
  | done =>
    intro τ a a' v s q hf _ _ he hq
    simp [flow] at hf; simp [exec] at he; subst hf; subst he; simpa [run] using hq
  | text s0 rest ih =>
    intro τ a a' v s q hf hv hs he hq
    simp only [flow] at hf
    split at hf
    · rename_i a1 ha1
      simp only [exec] at he
      split at he
      · rename_i r hr
        simp at he; subst he
        rw [String.toList_append, run_append]
        exact ih hf hv hs hr (textAbs_sound ha1 hq)
      · simp at he
      · simp at he
    · simp at hf
  | action p rest ih =>
    intro τ a a' v s q hf hv hs he hq
    simp only [flow] at hf
    split at hf
    · rename_i h hh
      split at hf
      · rename_i a1 ha1
        simp only [exec] at he
        split at he
        · rename_i x hx
          split at he
          · rename_i s1 hs1
            split at he
            · rename_i r hr
              simp at he; subst he
              rw [String.toList_append, run_append]
              exact ih hf hv hs hr (holeAbs_sound henv (holeTy_print hwf henv hh hv hs hx hs1) ha1 hq)
            · simp at he
            · simp at he
          · simp at he
          · simp at he
        · simp at he
        · simp at he
      · simp at hf
    · simp at hf
  | ite p thn els rest ih1 ih2 ih3 =>
    intro τ a a' v s q hf hv hs he hq
    simp only [flow] at hf
    split at hf
    · rename_i a1 a2 h1 h2
      split at hf
      · rename_i heq
        subst heq
        simp only [exec] at he
        split at he
        · rename_i x hx
          split at he
          · rename_i s1 hs1
            split at he
            · rename_i r hr
              simp at he; subst he
              rw [String.toList_append, run_append]
              refine ih3 hf hv hs hr ?_
              cases htr : truth x with
              | true => rw [htr] at hs1; exact ih1 h1 hv hs hs1 hq
              | false => rw [htr] at hs1; exact ih2 h2 hv hs hs1 hq
            · simp at he
            · simp at he
          · simp at he
          · simp at he
        · simp at he
        · simp at he
      · simp at hf
    · simp at hf
  | range p body els rest ih1 ih2 ih3 =>
    intro τ a a' v s q hf hv hs he hq
    simp only [flow] at hf
    split at hf
    · rename_i hsafe
      split at hf
      · rename_i e ht
        split at hf
        · rename_i a1 a2 h1 h2
          split at hf
          · rename_i heq
            obtain ⟨rfl, rfl⟩ := heq
            obtain ⟨x, hx1, hx2⟩ := tyPipe_sound (env := env) hwf hv (Or.inl ⟨rfl, rfl⟩) ht
            have hxs := evalPipe_safe henv hs hsafe (by simp) hx1
            simp only [exec] at he
            rw [hx1] at he
            cases hx2 with
            | slice hall =>
              rename_i vs
              cases hxs with
              | list hsafeall =>
                cases vs with
                | nil =>
                  simp only at he
                  split at he
                  · rename_i s1 hs1
                    split at he
                    · rename_i r hr
                      simp at he; subst he
                      rw [String.toList_append, run_append]
                      exact ih3 hf hv hs hr (ih2 h2 hv hs hs1 hq)
                    · simp at he
                    · simp at he
                  · simp at he
                  · simp at he
                | cons y ys =>
                  simp only at he
                  split at he
                  · rename_i s1 hs1
                    split at he
                    · rename_i r hr
                      simp at he; subst he
                      rw [String.toList_append, run_append]
                      refine ih3 hf hv hs hr ?_
                      refine concatRes_flow (f := fun x => exec σ env body x) ?_ hs1 hq
                      intro z hz s' q' hs' hq'
                      exact ih1 h1 (hall z hz) (hsafeall z hz) hs' hq'
                    · simp at he
                    · simp at he
                  · simp at he
                  · simp at he
          · simp at hf
        · simp at hf
      · simp at hf
    · simp at hf
  | unsupported w rest _ => intro τ a a' v s q hf; simp [flow] at hf

/-- **the JSON clause**: a template accepted by `jsonOk` renders, on every value of the data type
    whose strings are JSON-safe and whose floats are finite, to a text the JSON automaton accepts -/
theorem json_sound (hwf : wfTags σ = true) (henv : EnvOk env) {t : T} {τ : Ty} {v : Val} {s : String}
    (hok : jsonOk σ t τ = true) (hv : HasTy σ v τ) (hs : SafeVal v) (he : exec σ env t v = .ok s) :
    Json.valid s = true := by
  unfold jsonOk at hok
  split at hok
  · rename_i p hf
    have := flow_sound hwf henv t hf hv hs he (q := {}) rfl
    simp only [Abs.mem] at this
    simp only [Json.valid, validChars, this]; exact hok
  · rename_i stack hf
    obtain ⟨h1, h2⟩ := flow_sound hwf henv t hf hv hs he (q := {}) rfl
    simp only [List.isEmpty_iff] at hok
    subst hok
    simp only [Json.valid, validChars, accepting, h1, List.isEmpty_nil, Bool.true_and]
    rcases h2 with h | h | h | h <;> rw [h]
  · simp at hok

end Burrow.Tmpl
