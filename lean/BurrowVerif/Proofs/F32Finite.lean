/-
  The float32 completeness values the evaluator computes are finite: `float32(a) / float32(b)` for
  `a ≤ b < 2^24` (the emulation `F32.divBits`, compared bit for bit with the real division by the
  `eval` stream) has a biased exponent of at most 128.
-/
import BurrowVerif.Model.Float32
import BurrowVerif.Model.TmplFlow

namespace Burrow.F32
open Burrow.Tmpl

theorem finite_of_bounds (e q2 : Nat) (he : e < 255) (hq1 : 2^23 ≤ q2) (hq2 : q2 < 2^24) :
    finite32 (e * 2^23 + (q2 - 2^23)) = true := by
  simp only [finite32, bne_iff_ne, ne_eq]
  simp only [Nat.reducePow] at *
  omega

theorem bitLen_bounds {n : Nat} (hlo : 2^24 ≤ n) (hhi : n ≤ 2^48) : 25 ≤ bitLen n ∧ bitLen n ≤ 49 := by
  have hn : n ≠ 0 := by simp only [Nat.reducePow] at hlo; omega
  simp only [bitLen, hn, if_false]
  constructor
  · have : ¬ n.log2 < 24 := by
      rw [Nat.log2_lt hn]; simp only [Nat.reducePow] at hlo ⊢; omega
    omega
  · have : n.log2 < 49 := by
      rw [Nat.log2_lt hn]; simp only [Nat.reducePow] at hhi ⊢; omega
    omega

theorem divBits_finite (a b : Nat) (hab : a ≤ b) (hb : b < 2^24) : finite32 (divBits a b) = true := by
  unfold divBits
  split
  · decide
  · rename_i h0
    have ha : 0 < a := by omega
    have hb0 : 0 < b := by omega
    extract_lets n sticky d q r half up q1
    -- n = a * 2^48 / b lies in [2^24, 2^48]
    have hlo : 2^24 ≤ n := by
      show 2^24 ≤ a * 2^48 / b
      rw [Nat.le_div_iff_mul_le hb0]
      calc 2^24 * b ≤ 2^24 * 2^24 := Nat.mul_le_mul_left _ (Nat.le_of_lt hb)
        _ = 1 * 2^48 := by simp only [Nat.reducePow, Nat.reduceMul]
        _ ≤ a * 2^48 := Nat.mul_le_mul_right _ ha
    have hhi : n ≤ 2^48 := by
      show a * 2^48 / b ≤ 2^48
      apply Nat.div_le_of_le_mul
      exact Nat.mul_le_mul_right _ hab
    clear_value n sticky
    obtain ⟨hl1, hl2⟩ := bitLen_bounds hlo hhi
    have hn : n ≠ 0 := by simp only [Nat.reducePow] at hlo; omega
    have hlog : bitLen n = n.log2 + 1 := by simp [bitLen, hn]
    have hd : d = bitLen n - 24 := rfl
    -- q = n / 2^d ∈ [2^23, 2^24)
    have hq_hi : q < 2^24 := by
      show n / 2^d < 2^24
      rw [Nat.div_lt_iff_lt_mul (Nat.pow_pos (by decide))]
      have := @Nat.lt_log2_self n
      calc n < 2^(n.log2 + 1) := this
        _ = 2^24 * 2^d := by rw [← Nat.pow_add]; congr 1; omega
    have hq_lo : 2^23 ≤ q := by
      show 2^23 ≤ n / 2^d
      rw [Nat.le_div_iff_mul_le (Nat.pow_pos (by decide))]
      calc 2^23 * 2^d = 2^(n.log2) := by rw [← Nat.pow_add]; congr 1; omega
        _ ≤ n := Nat.log2_self_le hn
    have hdle : d ≤ 25 := by omega
    have hq1 : q1 = q ∨ q1 = q + 1 := by
      show (if up = true then q + 1 else q) = q ∨ (if up = true then q + 1 else q) = q + 1
      cases up <;> simp
    clear_value q1 q d
    clear hd
    have hq_hi' : q < 16777216 := by simpa only [Nat.reducePow] using hq_hi
    have hq_lo' : 8388608 ≤ q := by simpa only [Nat.reducePow] using hq_lo
    by_cases hq : q1 = 2^24
    · rw [if_pos hq]
      show finite32 ((127 + 23 + (d + 1) - 48) * 2^23 + (2^23 - 2^23)) = true
      have : 127 + 23 + (d + 1) - 48 = 103 + d := by omega
      rw [this]
      exact finite_of_bounds (103 + d) (2^23) (by omega) (Nat.le_refl _) (by simp only [Nat.reducePow]; omega)
    · rw [if_neg hq]
      show finite32 ((127 + 23 + d - 48) * 2^23 + (q1 - 2^23)) = true
      have : 127 + 23 + d - 48 = 102 + d := by omega
      rw [this]
      have hq' : q1 ≠ 16777216 := by simpa only [Nat.reducePow] using hq
      exact finite_of_bounds (102 + d) q1 (by omega) (by simp only [Nat.reducePow]; omega) (by simp only [Nat.reducePow]; omega)

end Burrow.F32
