/-
  Helper lemmas for C03: the executable model of `calculatePartitionStatus`
  (`Model/Eval.lean`) agrees with the declarative rules (`Spec/Eval.lean`).
-/
import BurrowVerif.Model.Eval
import BurrowVerif.Spec.Eval

namespace Burrow.Proofs.Eval
open Burrow Burrow.Eval Burrow.Spec.Eval

/-! ### Rule 1: `isLagAlwaysNotZero` -/

theorem isLagAlwaysNotZero_false_iff (w : List Commit) (allowed : Nat) :
    isLagAlwaysNotZero w allowed = false ↔ SomeLagWithin w allowed := by
  induction w with
  | nil => simp [isLagAlwaysNotZero, SomeLagWithin]
  | cons c cs ih =>
    unfold SomeLagWithin at ih ⊢
    cases hl : c.lag with
    | none => simp [isLagAlwaysNotZero, hl, ih]
    | some l =>
      by_cases h : l ≤ allowed
      · simp [isLagAlwaysNotZero, hl, h]
      · simp [isLagAlwaysNotZero, hl, h, ih]

/-! ### Rule 2: rewind -/

theorem not_backwardsAt_zero (w : List Commit) : ¬ BackwardsAt w 0 := by
  simp [BackwardsAt]

theorem backwardsAt_cons_one (p c : Commit) (cs : List Commit) :
    BackwardsAt (p :: c :: cs) 1 ↔ c.offset < p.offset := by
  simp [BackwardsAt]

theorem backwardsAt_cons_succ_succ (p : Commit) (l : List Commit) (j : Nat) :
    BackwardsAt (p :: l) (j + 2) ↔ BackwardsAt l (j + 1) := by
  simp [BackwardsAt]

theorem not_backwardsAt_singleton (p : Commit) (j : Nat) : ¬ BackwardsAt [p] j := by
  cases j with
  | zero => exact not_backwardsAt_zero _
  | succ j => simp [BackwardsAt]

/-- `rewindFrom` returns `none` only if there is no backwards step. -/
theorem rewindFrom_none (p : Commit) (cs : List Commit) (i : Nat)
    (h : rewindFrom p.offset cs i = none) : ∀ j, ¬ BackwardsAt (p :: cs) j := by
  induction cs generalizing p i with
  | nil => intro j; exact not_backwardsAt_singleton p j
  | cons c cs ih =>
    unfold rewindFrom at h
    by_cases hlt : c.offset < p.offset
    · simp [hlt] at h
    · simp only [hlt, if_false] at h
      intro j
      match j with
      | 0 => exact not_backwardsAt_zero _
      | 1 => rw [backwardsAt_cons_one]; exact hlt
      | j + 2 => rw [backwardsAt_cons_succ_succ]; exact ih c (i + 1) h (j + 1)

/-- `rewindFrom` returns the first backwards step. -/
theorem rewindFrom_some (p : Commit) (cs : List Commit) (i n : Nat)
    (h : rewindFrom p.offset cs i = some n) :
    ∃ m, n = i + m ∧ BackwardsAt (p :: cs) (m + 1) ∧
      ∀ j, j < m + 1 → ¬ BackwardsAt (p :: cs) j := by
  induction cs generalizing p i with
  | nil => simp [rewindFrom] at h
  | cons c cs ih =>
    unfold rewindFrom at h
    by_cases hlt : c.offset < p.offset
    · simp only [hlt, if_true, Option.some.injEq] at h
      refine ⟨0, by omega, (backwardsAt_cons_one p c cs).2 hlt, ?_⟩
      intro j hj
      have : j = 0 := by omega
      subst this
      exact not_backwardsAt_zero _
    · simp only [hlt, if_false] at h
      obtain ⟨m, hn, hb, hmin⟩ := ih c (i + 1) h
      refine ⟨m + 1, by omega, (backwardsAt_cons_succ_succ p (c :: cs) m).2 hb, ?_⟩
      intro j hj
      match j with
      | 0 => exact not_backwardsAt_zero _
      | 1 => rw [backwardsAt_cons_one]; exact hlt
      | j + 2 =>
        rw [backwardsAt_cons_succ_succ]
        exact hmin (j + 1) (by omega)

theorem checkIfOffsetsRewind_none (w : List Commit) (h : checkIfOffsetsRewind w = none) :
    ∀ j, ¬ BackwardsAt w j := by
  cases w with
  | nil => intro j; simp [BackwardsAt]
  | cons p cs => exact rewindFrom_none p cs 1 h

theorem checkIfOffsetsRewind_some (w : List Commit) (n : Nat)
    (h : checkIfOffsetsRewind w = some n) :
    BackwardsAt w n ∧ ∀ j, j < n → ¬ BackwardsAt w j := by
  cases w with
  | nil => simp [checkIfOffsetsRewind] at h
  | cons p cs =>
    obtain ⟨m, hn, hb, hmin⟩ := rewindFrom_some p cs 1 n h
    have : n = m + 1 := by omega
    subst this
    exact ⟨hb, hmin⟩

theorem any_drop_eq_false_iff (w : List Commit) (n : Nat) (f : Commit → Bool) :
    (w.drop n).any f = false ↔ ∀ j c, n ≤ j → w[j]? = some c → f c = false := by
  rw [List.any_eq_false]
  constructor
  · intro h j c hj hc
    have hmem : c ∈ w.drop n := by
      rw [List.mem_iff_getElem?]
      refine ⟨j - n, ?_⟩
      rw [List.getElem?_drop]
      have : n + (j - n) = j := by omega
      rw [this]; exact hc
    simpa using h c hmem
  · intro h c hmem
    rw [List.mem_iff_getElem?] at hmem
    obtain ⟨i, hi⟩ := hmem
    rw [List.getElem?_drop] at hi
    simpa using h (n + i) c (by omega) hi

/-- The Boolean "rewound and not recovered" computed by `calculate`, as a relation. -/
theorem rewind_none_spec (w : List Commit) (h : checkIfOffsetsRewind w = none) :
    ¬ FirstRewindUnrecovered w := by
  rintro ⟨i, a, hb, -⟩
  exact checkIfOffsetsRewind_none w h i hb

theorem rewind_some_spec (w : List Commit) (n : Nat) (h : checkIfOffsetsRewind w = some n) :
    ∃ r, checkIfRewindRecovered w n = some r ∧ (r = false ↔ FirstRewindUnrecovered w) := by
  obtain ⟨hb, hmin⟩ := checkIfOffsetsRewind_some w n h
  obtain ⟨a, b, h1, ha, hbb, hlt⟩ := hb
  refine ⟨(w.drop n).any fun c => c.offset ≥ a.offset, ?_, ?_⟩
  · simp [checkIfRewindRecovered, ha]
  · rw [any_drop_eq_false_iff]
    constructor
    · intro hall
      refine ⟨n, a, ⟨a, b, h1, ha, hbb, hlt⟩, hmin, ha, ?_⟩
      intro j c hj hc
      have := hall j c hj hc
      simpa using this
    · rintro ⟨i, a', hbi, hmini, hai, hall⟩ j c hj hc
      have hin : i = n := by
        rcases Nat.lt_trichotomy i n with hlt' | heq | hgt
        · exact absurd hbi (hmin i hlt')
        · exact heq
        · exact absurd ⟨a, b, h1, ha, hbb, hlt⟩ (hmini n hgt)
      subst hin
      rw [ha] at hai
      cases hai
      have := hall j c hj hc
      simpa using this

/-! ### Rule 3: stopped, and the recent-zero-lag exemption -/

theorem exists_head_getLast (w : List Commit) (hne : w ≠ []) :
    ∃ first last, w.head? = some first ∧ w.getLast? = some last := by
  refine ⟨w.head hne, w.getLast hne, ?_, ?_⟩
  · exact List.head?_eq_some_head hne
  · exact List.getLast?_eq_some_getLast hne

theorem checkIfOffsetsStopped_spec (w : List Commit) (now : Int) (hne : w ≠ []) :
    ∃ b, checkIfOffsetsStopped w now = some b ∧ (b = true ↔ Stopped w now) := by
  obtain ⟨first, last, hf, hl⟩ := exists_head_getLast w hne
  refine ⟨decide (now * 1000 - last.ts > last.ts - first.ts), ?_, ?_⟩
  · simp [checkIfOffsetsStopped, hf, hl]
  · unfold Stopped
    rw [hf, hl]
    simp

theorem checkIfRecentLagZero_spec (w : List Commit) (bo : List Int) (hne : w ≠ []) :
    ∃ b, checkIfRecentLagZero w bo = some b ∧ (b = true ↔ RecentZero w bo) := by
  obtain ⟨first, last, hf, hl⟩ := exists_head_getLast w hne
  refine ⟨bo.any fun b => b ≤ last.offset, ?_, ?_⟩
  · simp [checkIfRecentLagZero, hl]
  · unfold RecentZero
    rw [hl]
    simp

/-! ### Rule 4: stalled -/

theorem neverChanged_singleton (p : Commit) : NeverChanged [p] := by
  intro i a b hi ha hb
  match i with
  | i + 1 => simp at hb

theorem neverChanged_cons_cons (p c : Commit) (cs : List Commit) :
    NeverChanged (p :: c :: cs) ↔ c.offset = p.offset ∧ NeverChanged (c :: cs) := by
  constructor
  · intro h
    refine ⟨h 1 p c (by omega) (by simp) (by simp), ?_⟩
    intro i a b hi ha hb
    match i with
    | i + 1 =>
      exact h (i + 2) a b (by omega) (by simpa using ha) (by simpa using hb)
  · rintro ⟨heq, h⟩ i a b hi ha hb
    match i with
    | 1 =>
      simp at ha hb
      subst ha; subst hb; exact heq
    | i + 2 =>
      exact h (i + 1) a b (by omega) (by simpa using ha) (by simpa using hb)

theorem stalledFrom_iff (p : Commit) (cs : List Commit) :
    stalledFrom p.offset cs = true ↔ NeverChanged (p :: cs) := by
  induction cs generalizing p with
  | nil => simp [stalledFrom, neverChanged_singleton]
  | cons c cs ih =>
    rw [neverChanged_cons_cons, ← ih c]
    by_cases h : c.offset = p.offset
    · simp [stalledFrom, h]
    · simp [stalledFrom, h]

theorem checkIfOffsetsStalled_iff (w : List Commit) :
    checkIfOffsetsStalled w = true ↔ NeverChanged w := by
  cases w with
  | nil => simp [checkIfOffsetsStalled, NeverChanged]
  | cons p cs => exact stalledFrom_iff p cs

/-! ### Rule 5: lag not decreasing -/

/-- consecutive entries are non-decreasing -/
def NonDec (ls : List Nat) : Prop :=
  ∀ i a b, ls[i]? = some a → ls[i + 1]? = some b → a ≤ b

theorem nonDec_nil : NonDec [] := by
  intro i a b ha; simp at ha

theorem nonDec_singleton (a : Nat) : NonDec [a] := by
  intro i x y hx hy; simp at hy

theorem nonDec_cons_cons (a b : Nat) (l : List Nat) :
    NonDec (a :: b :: l) ↔ a ≤ b ∧ NonDec (b :: l) := by
  constructor
  · intro h
    refine ⟨h 0 a b (by simp) (by simp), ?_⟩
    intro i x y hx hy
    exact h (i + 1) x y (by simpa using hx) (by simpa using hy)
  · rintro ⟨hab, h⟩ i x y hx hy
    match i with
    | 0 =>
      simp at hx hy
      subst hx; subst hy; exact hab
    | i + 1 =>
      exact h i x y (by simpa using hx) (by simpa using hy)

theorem lagNotDecreasingFrom_iff (ll : Option Nat) (w : List Commit) :
    lagNotDecreasingFrom ll w = true ↔ NonDec (ll.toList ++ w.filterMap (·.lag)) := by
  induction w generalizing ll with
  | nil =>
    cases ll with
    | none => simp [lagNotDecreasingFrom, nonDec_nil]
    | some x => simp [lagNotDecreasingFrom, nonDec_singleton]
  | cons c cs ih =>
    unfold lagNotDecreasingFrom
    cases hl : c.lag with
    | none =>
      simp only [List.filterMap_cons, hl]
      exact ih ll
    | some l =>
      simp only [List.filterMap_cons, hl]
      cases ll with
      | none =>
        simp only
        rw [ih (some l)]
        simp
      | some x =>
        simp only [Option.toList_some, List.singleton_append]
        rw [nonDec_cons_cons]
        by_cases hlt : l < x
        · simp [hlt]; omega
        · simp only [hlt, if_false]
          rw [ih (some l)]
          simp only [Option.toList_some, List.singleton_append]
          constructor
          · intro h; exact ⟨by omega, h⟩
          · intro h; exact h.2

theorem checkIfLagNotDecreasing_iff (w : List Commit) :
    checkIfLagNotDecreasing w = true ↔ LagNeverDecreased w := by
  unfold checkIfLagNotDecreasing LagNeverDecreased
  rw [lagNotDecreasingFrom_iff]
  simp [NonDec]

/-! ### The procedure as a whole -/

theorem status_of_bools (w : List Commit) (bo : List Int) (cur allowed : Nat) (now : Int)
    (hcur : ¬ cur ≤ allowed) (s z r l n d : Bool)
    (hs : s = true ↔ Stopped w now) (hz : z = true ↔ RecentZero w bo)
    (hr : r = true ↔ FirstRewindUnrecovered w)
    (hl : l = false ↔ SomeLagWithin w allowed)
    (hn : n = true ↔ NeverChanged w) (hd : d = true ↔ LagNeverDecreased w) :
    status w bo cur allowed now =
      if s && !z then .stop
      else if r then .rewind
      else if l then (if n then .stall else if d then .warn else .ok)
      else .ok := by
  unfold status
  simp only [← hs, ← hz, ← hr, ← hl, ← hn, ← hd, if_neg hcur]
  cases s <;> cases z <;> cases r <;> cases l <;> cases n <;> cases d <;> simp

theorem calculate_eq_spec (w : List Commit) (bo : List Int) (cur allowed : Nat) (now : Int)
    (hne : w ≠ []) :
    calculate w bo cur now allowed = some (status w bo cur allowed now) := by
  by_cases hcur : cur ≤ allowed
  · have h1 : status w bo cur allowed now = .ok := by
      unfold status; rw [if_pos hcur]
    have h2 : ¬ cur > allowed := by omega
    rw [h1]; unfold calculate; rw [if_neg h2]
  · obtain ⟨s, hs, hs'⟩ := checkIfOffsetsStopped_spec w now hne
    obtain ⟨z, hz, hz'⟩ := checkIfRecentLagZero_spec w bo hne
    have hgt : cur > allowed := by omega
    have hl := isLagAlwaysNotZero_false_iff w allowed
    have hn := checkIfOffsetsStalled_iff w
    have hd := checkIfLagNotDecreasing_iff w
    unfold calculate
    rw [if_pos hgt, hs, hz]
    simp only []
    generalize isLagAlwaysNotZero w allowed = l at hl ⊢
    generalize checkIfOffsetsStalled w = n at hn ⊢
    generalize checkIfLagNotDecreasing w = d at hd ⊢
    cases hrw : checkIfOffsetsRewind w with
    | none =>
      have hr : (false = true) ↔ FirstRewindUnrecovered w := by
        have := rewind_none_spec w hrw
        simp [this]
      rw [status_of_bools w bo cur allowed now hcur s z false _ _ _ hs' hz' hr hl hn hd]
      cases s <;> cases z <;> cases l <;> cases n <;> cases d <;> simp
    | some idx =>
      obtain ⟨r, hrec, hr'⟩ := rewind_some_spec w idx hrw
      have hr : ((!r) = true) ↔ FirstRewindUnrecovered w := by
        rw [← hr']; cases r <;> simp
      rw [status_of_bools w bo cur allowed now hcur s z (!r) _ _ _ hs' hz' hr hl hn hd]
      simp only [hrec]
      cases s <;> cases z <;> cases r <;> cases l <;> cases n <;> cases d <;> simp

/-! ### Shift invariance

  All rules except "stopped" only read `offset` and `lag`; they are invariant under any map `f`
  that adds a constant `k` to every offset and leaves the lag alone. -/

section Shift
variable (f : Commit → Commit) (k : Int)
  (hoff : ∀ c, (f c).offset = c.offset + k) (hlag : ∀ c, (f c).lag = c.lag)
include hoff hlag

omit hoff in
theorem isLagAlwaysNotZero_map (w : List Commit) (allowed : Nat) :
    isLagAlwaysNotZero (w.map f) allowed = isLagAlwaysNotZero w allowed := by
  induction w with
  | nil => rfl
  | cons c cs ih => simp only [List.map_cons, isLagAlwaysNotZero, hlag, ih]

omit hlag in
theorem rewindFrom_map (prev : Int) (cs : List Commit) (i : Nat) :
    rewindFrom (prev + k) (cs.map f) i = rewindFrom prev cs i := by
  induction cs generalizing prev i with
  | nil => rfl
  | cons c cs ih =>
    simp only [List.map_cons, rewindFrom, hoff, ih]
    by_cases h : c.offset < prev
    · have h' : c.offset + k < prev + k := by omega
      simp [h, h']
    · have h' : ¬ c.offset + k < prev + k := by omega
      simp [h, h']

omit hlag in
theorem checkIfOffsetsRewind_map (w : List Commit) :
    checkIfOffsetsRewind (w.map f) = checkIfOffsetsRewind w := by
  cases w with
  | nil => rfl
  | cons c cs =>
    simp only [List.map_cons, checkIfOffsetsRewind, hoff]
    exact rewindFrom_map f k hoff c.offset cs 1

omit hlag in
theorem checkIfRewindRecovered_map (w : List Commit) (idx : Nat) :
    checkIfRewindRecovered (w.map f) idx = checkIfRewindRecovered w idx := by
  unfold checkIfRewindRecovered
  rw [List.getElem?_map]
  cases w[idx - 1]? with
  | none => rfl
  | some prev =>
    simp only [Option.map_some, ← List.map_drop, List.any_map, hoff]
    congr 2
    funext c
    simp only [Function.comp, hoff]
    by_cases h : c.offset ≥ prev.offset
    · have h' : c.offset + k ≥ prev.offset + k := by omega
      simp [h, h']
    · have h' : ¬ c.offset + k ≥ prev.offset + k := by omega
      simp [h, h']

omit hlag in
theorem stalledFrom_map (prev : Int) (cs : List Commit) :
    stalledFrom (prev + k) (cs.map f) = stalledFrom prev cs := by
  induction cs generalizing prev with
  | nil => rfl
  | cons c cs ih =>
    simp only [List.map_cons, stalledFrom, hoff, ih]
    by_cases h : c.offset = prev
    · simp [h]
    · have h' : ¬ c.offset + k = prev + k := by omega
      simp [h, h']

omit hlag in
theorem checkIfOffsetsStalled_map (w : List Commit) :
    checkIfOffsetsStalled (w.map f) = checkIfOffsetsStalled w := by
  cases w with
  | nil => rfl
  | cons c cs =>
    simp only [List.map_cons, checkIfOffsetsStalled, hoff]
    exact stalledFrom_map f k hoff c.offset cs

omit hoff in
theorem lagNotDecreasingFrom_map (ll : Option Nat) (w : List Commit) :
    lagNotDecreasingFrom ll (w.map f) = lagNotDecreasingFrom ll w := by
  induction w generalizing ll with
  | nil => rfl
  | cons c cs ih => simp only [List.map_cons, lagNotDecreasingFrom, hlag, ih]

omit hoff in
theorem checkIfLagNotDecreasing_map (w : List Commit) :
    checkIfLagNotDecreasing (w.map f) = checkIfLagNotDecreasing w :=
  lagNotDecreasingFrom_map f hlag none w

omit hlag in
theorem checkIfRecentLagZero_map (w : List Commit) (bo : List Int) :
    checkIfRecentLagZero (w.map f) (bo.map (· + k)) = checkIfRecentLagZero w bo := by
  unfold checkIfRecentLagZero
  rw [List.getLast?_map]
  cases w.getLast? with
  | none => rfl
  | some last =>
    simp only [Option.map_some, List.any_map, hoff]
    congr 2
    funext b
    simp only [Function.comp]
    by_cases h : b ≤ last.offset
    · have h' : b + k ≤ last.offset + k := by omega
      simp [h, h']
    · have h' : ¬ b + k ≤ last.offset + k := by omega
      simp [h, h']

/-- `calculate` is invariant under an offset-shifting map, provided the "stopped" test is. -/
theorem calculate_map (w : List Commit) (bo : List Int) (cur allowed : Nat) (now now' : Int)
    (hstop : checkIfOffsetsStopped (w.map f) now' = checkIfOffsetsStopped w now) :
    calculate (w.map f) (bo.map (· + k)) cur now' allowed = calculate w bo cur now allowed := by
  unfold calculate
  simp only [hstop, checkIfRecentLagZero_map f k hoff, checkIfOffsetsRewind_map f k hoff,
    checkIfRewindRecovered_map f k hoff, isLagAlwaysNotZero_map f hlag,
    checkIfOffsetsStalled_map f k hoff, checkIfLagNotDecreasing_map f hlag]

end Shift

theorem checkIfOffsetsStopped_map (f : Commit → Commit) (w : List Commit) (now now' : Int)
    (h : ∀ first last : Commit,
      decide (now' * 1000 - (f last).ts > (f last).ts - (f first).ts) =
      decide (now * 1000 - last.ts > last.ts - first.ts)) :
    checkIfOffsetsStopped (w.map f) now' = checkIfOffsetsStopped w now := by
  unfold checkIfOffsetsStopped
  rw [List.head?_map, List.getLast?_map]
  cases w.head? with
  | none => rfl
  | some first =>
    cases w.getLast? with
    | none => rfl
    | some last => simp only [Option.map_some, h]

theorem offset_shift_invariant (w : List Commit) (bo : List Int) (cur allowed : Nat) (now k : Int) :
    calculate (shiftOffsets k w) (bo.map (· + k)) cur now allowed = calculate w bo cur now allowed := by
  unfold shiftOffsets
  apply calculate_map (fun c => { c with offset := c.offset + k }) k (fun _ => rfl) (fun _ => rfl)
  apply checkIfOffsetsStopped_map
  intro first last
  rfl

theorem time_shift_invariant (w : List Commit) (bo : List Int) (cur allowed : Nat) (now d : Int) :
    calculate (shiftTimes (1000 * d) w) bo cur (now + d) allowed = calculate w bo cur now allowed := by
  unfold shiftTimes
  have hbo : bo = bo.map (· + (0 : Int)) := by simp
  conv => lhs; rw [hbo]
  apply calculate_map (fun c => { c with ts := c.ts + 1000 * d }) 0 (fun c => by simp)
    (fun _ => rfl)
  apply checkIfOffsetsStopped_map
  intro first last
  simp only [decide_eq_decide]
  constructor <;> intro h <;> omega

/-! ### `evaluatePartition` -/

theorem below_minimum_is_ok (p : Partition) (meets : Nat → Nat → Bool) (now : Int) (allowed : Nat)
    (h : meets ((p.offsets.drop (firstNonNil p.offsets)).length) p.offsets.length = false) :
    ∃ st, evaluatePartition p meets now allowed = some st ∧ st.status = .ok := by
  unfold evaluatePartition
  by_cases h0 : p.offsets.length = 0
  · rw [if_pos h0]; exact ⟨_, rfl, rfl⟩
  · rw [if_neg h0]
    simp only []
    by_cases h1 : (p.offsets.drop (firstNonNil p.offsets)).length = 0
    · rw [if_pos h1]; exact ⟨_, rfl, rfl⟩
    · rw [if_neg h1, h]
      exact ⟨_, rfl, rfl⟩

theorem findIdx?_replicate_none_append (k : Nat) (cs : List Commit) (hcs : cs ≠ []) :
    (List.replicate k (none : Option Commit) ++ cs.map some).findIdx? Option.isSome = some k := by
  induction k with
  | zero =>
    cases cs with
    | nil => exact absurd rfl hcs
    | cons c cs => simp [List.findIdx?_cons]
  | succ k ih =>
    simp [List.replicate_succ, List.findIdx?_cons, ih]

theorem firstNonNil_shape (k : Nat) (cs : List Commit) (hcs : cs ≠ []) :
    firstNonNil (List.replicate k none ++ cs.map some) = k := by
  unfold firstNonNil
  rw [findIdx?_replicate_none_append k cs hcs]

theorem mapM_id_map_some (cs : List Commit) : (cs.map some).mapM id = some cs := by
  induction cs with
  | nil => rfl
  | cons c cs ih => simp [List.mapM_cons, ih]

theorem partition_status_is_spec (p : Partition) (meets : Nat → Nat → Bool) (now : Int)
    (allowed : Nat) (k : Nat) (cs : List Commit) (hcs : cs ≠ [])
    (hshape : p.offsets = List.replicate k none ++ cs.map some)
    (hmeets : meets cs.length p.offsets.length = true) :
    ∃ st, evaluatePartition p meets now allowed = some st ∧
      st.status = status cs p.brokerOffsets p.currentLag allowed now ∧
      st.start = cs.head? ∧ st.«end» = cs.getLast? ∧ st.currentLag = p.currentLag ∧
      st.complete = (cs.length, p.offsets.length) := by
  have hcslen : cs.length ≠ 0 := by
    intro h; exact hcs (List.length_eq_zero_iff.mp h)
  have hfirst : firstNonNil p.offsets = k := by
    rw [hshape]; exact firstNonNil_shape k cs hcs
  have hdrop : p.offsets.drop k = cs.map some := by
    rw [hshape]; simp
  have hlen0 : ¬ p.offsets.length = 0 := by
    rw [hshape, List.length_append, List.length_map]; omega
  have hhead : ((cs.map some).head?).join = cs.head? := by
    cases cs with
    | nil => rfl
    | cons c cs => rfl
  have hlast : ((cs.map some).getLast?).join = cs.getLast? := by
    rw [List.getLast?_map]; cases cs.getLast? <;> rfl
  unfold evaluatePartition
  rw [if_neg hlen0]
  simp only [hfirst, hdrop, List.length_map, if_neg hcslen, hmeets, if_true, hhead, hlast,
    mapM_id_map_some]
  by_cases hcur : p.currentLag > allowed
  · rw [if_pos hcur, calculate_eq_spec cs p.brokerOffsets p.currentLag allowed now hcs]
    exact ⟨_, rfl, rfl, rfl, rfl, rfl, rfl⟩
  · rw [if_neg hcur]
    refine ⟨_, rfl, ?_, rfl, rfl, rfl, rfl⟩
    have : p.currentLag ≤ allowed := by omega
    unfold status
    rw [if_pos this]

end Burrow.Proofs.Eval
