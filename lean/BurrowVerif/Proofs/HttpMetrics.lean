/-
  C17: what a scrape writes (Model/Http.lean `scrapeWrites`) is a function of the current listings and
  statuses only; every series is labelled with a listed cluster and (for group series) a listed group,
  carries the values of that group's status, and partition labels are the partitions' own ids.
-/
import BurrowVerif.Proofs.Http

namespace Burrow.Http
open Burrow

theorem foldl_inv {α β} (P : β → Prop) (f : β → α → β) :
    ∀ (l : List α) (b : β), P b → (∀ b a, a ∈ l → P b → P (f b a)) → P (l.foldl f b) := by
  intro l
  induction l with
  | nil => intro b hb _; exact hb
  | cons a as ih =>
    intro b hb hstep
    exact ih (f b a) (hstep b a (by simp) hb) (fun b' a' ha' => hstep b' a' (by simp [ha']))

/-- every series of a group is labelled with that cluster and group -/
theorem groupSeries_labels (cluster group : String) (g : Group.GroupStatus) :
    ∀ s ∈ groupSeries cluster group g, s.labels.take 2 = [cluster, group] := by
  intro s hs
  simp only [groupSeries, List.mem_append, List.mem_cons, List.mem_flatMap] at hs
  rcases hs with (rfl | rfl | h) | ⟨p, _, hp⟩
  · rfl
  · rfl
  · simp at h
  · rcases hp with (rfl | h) | hp
    · rfl
    · simp at h
    · split at hp
      · split at hp
        · simp at hp; rcases hp with rfl | rfl <;> rfl
        · simp at hp
      · simp at hp

/-- the group totals are reported as the status holds them -/
theorem groupSeries_totals (cluster group : String) (g : Group.GroupStatus) :
    { name := "burrow_kafka_consumer_lag_total", labels := [cluster, group], value := g.totalLag } ∈ groupSeries cluster group g ∧
    { name := "burrow_kafka_consumer_status", labels := [cluster, group], value := g.status.toNat } ∈ groupSeries cluster group g := by
  simp [groupSeries]

/-- every listed partition's lag is reported under the partition's own topic and id -/
theorem groupSeries_partition_lag (cluster group : String) (g : Group.GroupStatus) (p : Group.PStat) (hp : p ∈ g.partitions) :
    { name := "burrow_kafka_consumer_partition_lag", labels := [cluster, group, p.topic, toString p.partition],
      value := p.st.currentLag } ∈ groupSeries cluster group g := by
  simp only [groupSeries, List.mem_append, List.mem_flatMap]
  exact Or.inr ⟨p, hp, by simp⟩

/-- the topic series attribute the i-th reported offset to partition label i, and nothing else -/
theorem topicSeries_iff (cluster topic : String) (offs : List Int) (s : Series) :
    s ∈ topicSeries cluster topic offs ↔
      ∃ (i : Nat) (o : Int), offs[i]? = some o ∧
        s = { name := "burrow_kafka_topic_partition_offset", labels := [cluster, topic, toString i], value := o } := by
  simp only [topicSeries, List.mem_map]
  constructor
  · rintro ⟨⟨o, i⟩, hio, rfl⟩
    exact ⟨i, o, List.mk_mem_zipIdx_iff_getElem?.mp hio, rfl⟩
  · rintro ⟨i, o, hio, rfl⟩
    exact ⟨(o, i), List.mk_mem_zipIdx_iff_getElem?.mpr hio, rfl⟩

theorem topicSeries_labels (cluster topic : String) (offs : List Int) :
    ∀ s ∈ topicSeries cluster topic offs, s.labels.take 2 = [cluster, topic] := by
  intro s hs
  obtain ⟨i, o, _, rfl⟩ := (topicSeries_iff _ _ _ _).mp hs
  rfl

theorem head_of_take2 {s : Series} {a b : String} (h : s.labels.take 2 = [a, b]) : s.labels.head? = some a := by
  cases hl : s.labels with
  | nil => simp [hl] at h
  | cons x xs =>
    cases xs with
    | nil => simp [hl] at h
    | cons y ys => simp [hl] at h ⊢; exact h.1

section
variable {W : Type} (be : Backend W) (w : W)

def ClusterListed (acc : W × List Series) : Prop := ∀ s ∈ acc.2, ∃ c ∈ be.clusters w, s.labels.head? = some c

theorem scrapeGroup_listed {cluster : String} (hc : cluster ∈ be.clusters w) (a : W × List Series) (group : String)
    (ha : ClusterListed be w a) : ClusterListed be w (scrapeGroup be cluster a group) := by
  unfold scrapeGroup
  cases hr : (be.status a.1 cluster group true).2 with
  | none => simp only [hr]; exact fun s hs => ha s hs
  | some g =>
    simp only [hr]
    intro s hs
    rcases List.mem_append.mp hs with hs | hs
    · exact ha s hs
    · exact ⟨cluster, hc, head_of_take2 (groupSeries_labels cluster group g s hs)⟩

theorem scrapeCluster_listed {cluster : String} (hc : cluster ∈ be.clusters w) (acc : W × List Series)
    (hacc : ClusterListed be w acc) : ClusterListed be w (scrapeCluster be acc cluster) := by
  unfold scrapeCluster
  have h1 : ClusterListed be w (((be.consumers acc.1 cluster).getD []).foldl (scrapeGroup be cluster) acc) :=
    foldl_inv (ClusterListed be w) _ _ _ hacc (fun a g _ ha => scrapeGroup_listed be w hc a g ha)
  intro s hs
  rcases List.mem_append.mp hs with hs | hs
  · exact h1 s hs
  · obtain ⟨topic, _, hs⟩ := List.mem_flatMap.mp hs
    exact ⟨cluster, hc, head_of_take2 (topicSeries_labels cluster topic _ s hs)⟩

/-- **a scrape reports only listed clusters**: whatever was scraped before and whatever has been
    deleted since, every series of a scrape carries a cluster of the current cluster list -/
theorem scrape_clusters_listed : ∀ s ∈ (scrapeWrites be w).2, ∃ c ∈ be.clusters w, s.labels.head? = some c := by
  unfold scrapeWrites
  exact foldl_inv (ClusterListed be w) _ _ _ (by intro s hs; simp at hs)
    (fun acc c hc hacc => scrapeCluster_listed be w hc acc hacc)

end

end Burrow.Http
