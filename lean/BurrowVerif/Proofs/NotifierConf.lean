/-
  The configuration phase of the notifier: defaults, and the pace of the evaluation requests.
-/
import BurrowVerif.Model.Notifier

namespace Burrow.Notifier

theorem foldl_min_le_init (f : ModSpec → Int) (ms : List ModSpec) (a : Int) :
    ms.foldl (fun acc m => min acc (f m)) a ≤ a := by
  induction ms generalizing a with
  | nil => exact Int.le_refl _
  | cons m rest ih =>
    simp only [List.foldl_cons]
    exact Int.le_trans (ih _) (Int.min_le_left _ _)

theorem foldl_min_le_mem (f : ModSpec → Int) (ms : List ModSpec) (a : Int) (m : ModSpec) (hm : m ∈ ms) :
    ms.foldl (fun acc m => min acc (f m)) a ≤ f m := by
  induction ms generalizing a with
  | nil => cases hm
  | cons m' rest ih =>
    simp only [List.foldl_cons]
    rcases List.mem_cons.mp hm with h | h
    · subst h
      exact Int.le_trans (foldl_min_le_init f rest _) (Int.min_le_right _ _)
    · exact ih _ h

theorem foldl_min_mem (f : ModSpec → Int) (ms : List ModSpec) (a : Int) :
    ms.foldl (fun acc m => min acc (f m)) a = a ∨ ∃ m ∈ ms, ms.foldl (fun acc m => min acc (f m)) a = f m := by
  induction ms generalizing a with
  | nil => exact Or.inl rfl
  | cons m' rest ih =>
    simp only [List.foldl_cons]
    rcases ih (min a (f m')) with h | ⟨m, hm, h⟩
    · have hmin : min a (f m') = a ∨ min a (f m') = f m' := by omega
      rcases hmin with h' | h'
      · exact Or.inl (h.trans h')
      · exact Or.inr ⟨m', by simp, h.trans h'⟩
    · exact Or.inr ⟨m, List.mem_cons_of_mem _ hm, h⟩

/-- the pace of the evaluation requests is at most every module's interval … -/
theorem minIntervalOf_le (ms : List ModSpec) (m : ModSpec) (hm : m ∈ ms) : minIntervalOf ms ≤ m.intervalEff := by
  cases ms with
  | nil => cases hm
  | cons m0 rest =>
    simp only [minIntervalOf]
    rcases List.mem_cons.mp hm with h | h
    · subst h; exact foldl_min_le_init _ rest _
    · exact foldl_min_le_mem _ rest _ m h

/-- … and is the interval of one of them -/
theorem minIntervalOf_mem (ms : List ModSpec) (hne : ms ≠ []) : ∃ m ∈ ms, minIntervalOf ms = m.intervalEff := by
  cases ms with
  | nil => exact absurd rfl hne
  | cons m0 rest =>
    simp only [minIntervalOf]
    rcases foldl_min_mem (fun m => m.intervalEff) rest m0.intervalEff with h | ⟨m, hm, h⟩
    · exact ⟨m0, by simp, h⟩
    · exact ⟨m, List.mem_cons_of_mem _ hm, h⟩

end Burrow.Notifier
