/-
  Soundness of the lock discipline (Model/Locks.lean) over an abstract machine: workers run handler
  paths event by event; a lock can be acquired for writing only when nobody else holds it, for
  reading only when nobody else holds it for writing.  In every reachable configuration no lock is
  held for writing by one worker and (in any mode) by another; hence two accesses that the discipline
  excludes by a common lock are never enabled at the same time in different workers.
  Plus the router theorem: requests hashed on the same key reach the same worker in arrival order.
-/
import BurrowVerif.Model.Locks

namespace Burrow.Locks

structure Thread where
  done : List Ev := []
  todo : List Ev := []
  deriving Repr, Inhabited

def Thread.held (t : Thread) : Held := heldAfter t.done

/-- one configuration: what each worker is executing -/
abbrev Conf := Nat → Thread

theorem heldAfter_snoc (p : List Ev) (e : Ev) : heldAfter (p ++ [e]) = stepHeld (heldAfter p) e := by
  simp [heldAfter, List.foldl_append]

def advance (t : Thread) : Thread :=
  match t.todo with
  | [] => t
  | e :: rest => { done := t.done ++ [e], todo := rest }

/-- lock semantics: may worker `i` execute its next event? -/
def enabled (c : Conf) (i : Nat) : Prop :=
  match (c i).todo with
  | [] => False
  | .acq l .w :: _ => ∀ j, j ≠ i → ∀ e ∈ (c j).held, e.1 ≠ l
  | .acq l .r :: _ => ∀ j, j ≠ i → (l, Mode.w) ∉ (c j).held
  | _ :: _ => True

def stepAt (c : Conf) (i : Nat) : Conf := fun k => if k = i then advance (c k) else c k

/-- a worker that has finished a path (holding nothing) takes the next request's path -/
def startAt (c : Conf) (i : Nat) (p : List Ev) : Conf := fun k => if k = i then { done := [], todo := p } else c k

inductive Reachable : Conf → Prop
  | init : Reachable (fun _ => {})
  | step {c i} : Reachable c → enabled c i → Reachable (stepAt c i)
  | start {c i} (p : List Ev) : Reachable c → (c i).todo = [] → (c i).held = [] → Reachable (startAt c i p)

/-- no lock is held for writing by one worker and in any mode by another -/
def Exclusive (c : Conf) : Prop :=
  ∀ i j, i ≠ j → ∀ l, (l, Mode.w) ∈ (c i).held → ∀ m, (l, m) ∉ (c j).held

theorem held_advance (t : Thread) (e : Ev) (rest : List Ev) (h : t.todo = e :: rest) :
    (advance t).held = stepHeld t.held e := by
  simp [advance, h, Thread.held, heldAfter_snoc]

theorem mem_filter_ne {h : Held} {l : String} {x : String × Mode} (hx : x ∈ h.filter fun e => e.1 != l) : x ∈ h :=
  (List.mem_filter.mp hx).1

theorem exclusive_step {c : Conf} {i : Nat} (hex : Exclusive c) (hen : enabled c i) : Exclusive (stepAt c i) := by
  unfold enabled at hen
  cases htodo : (c i).todo with
  | nil => simp [htodo] at hen
  | cons e rest =>
    have hadv : (advance (c i)).held = stepHeld (c i).held e := held_advance _ _ _ htodo
    intro a b hab l hw m hm
    simp only [stepAt] at hw hm
    by_cases ha : a = i
    · -- the stepping worker holds (l, w)
      subst ha
      have hb : b ≠ a := fun h => hab h.symm
      simp only [if_neg hb, if_true] at hw hm
      rw [hadv] at hw
      cases e with
      | acq l' m' =>
        simp only [stepHeld, List.mem_cons] at hw
        rcases hw with hw | hw
        · cases hw
          simp only [htodo] at hen
          exact hen b hb (l, m) hm rfl
        · exact hex a b hab l hw m hm
      | rel l' => exact hex a b hab l (mem_filter_ne hw) m hm
      | acc _ _ => exact hex a b hab l hw m hm
    · by_cases hb : b = i
      · subst hb
        simp only [if_neg ha, if_true] at hw hm
        rw [hadv] at hm
        cases e with
        | acq l' m' =>
          simp only [stepHeld, List.mem_cons] at hm
          rcases hm with hm | hm
          · cases hm
            simp only [htodo] at hen
            cases m with
            | w => exact hen a ha (l, Mode.w) hw rfl
            | r => exact hen a ha hw
          · exact hex a b hab l hw m hm
        | rel l' => exact hex a b hab l hw m (mem_filter_ne hm)
        | acc _ _ => exact hex a b hab l hw m hm
      · simp only [if_neg ha, if_neg hb] at hw hm
        exact hex a b hab l hw m hm

theorem exclusive_start {c : Conf} {i : Nat} (p : List Ev) (hex : Exclusive c) : Exclusive (startAt c i p) := by
  intro a b hab l hw m hm
  simp only [startAt] at hw hm
  by_cases ha : a = i
  · subst ha; simp [Thread.held, heldAfter] at hw
  · by_cases hb : b = i
    · subst hb; simp [Thread.held, heldAfter] at hm
    · simp only [if_neg ha, if_neg hb] at hw hm
      exact hex a b hab l hw m hm

theorem reachable_exclusive {c : Conf} (h : Reachable c) : Exclusive c := by
  induction h with
  | init => intro a b _ l hw; simp [Thread.held, heldAfter] at hw
  | step _ hen ih => exact exclusive_step ih hen
  | start p _ _ _ ih => exact exclusive_start p ih

/-- **No simultaneous conflicting access**: in a reachable configuration, two different workers are
    never both about to access a location when the locks they hold share a lock that one of them
    holds for writing. -/
theorem no_simultaneous_access {c : Conf} (hr : Reachable c) {i j : Nat} (hij : i ≠ j)
    {loc : String} {w1 w2 h1 h2 : Bool} {r1 r2 : List Ev}
    (_hi : (c i).todo = .acc loc w1 :: r1) (_hj : (c j).todo = .acc loc w2 :: r2)
    (hcl : commonLock ⟨loc, w1, (c i).held, h1⟩ ⟨loc, w2, (c j).held, h2⟩ = true) : False := by
  have hex := reachable_exclusive hr
  simp only [commonLock, List.any_eq_true, Bool.and_eq_true, Bool.or_eq_true, beq_iff_eq] at hcl
  obtain ⟨x, hx, y, hy, hxy, hm⟩ := hcl
  obtain ⟨lx, mx⟩ := x
  obtain ⟨ly, my⟩ := y
  simp only at hxy hm
  subst hxy
  rcases hm with hm | hm
  · subst hm; exact hex i j hij lx hx my hy
  · subst hm; exact hex j i (fun h => hij h.symm) lx hy mx hx

/-! ### the router -/

/-- requests hashed on the same key go to the same worker … -/
theorem same_key_same_worker (n : Nat) (hash : String → Nat) (pick : Nat → Nat) (r1 r2 : Req)
    (h1 : r1.hashed = true) (h2 : r2.hashed = true) (hk : r1.key = r2.key) :
    assign n hash pick r1 = assign n hash pick r2 := by
  simp [assign, h1, h2, hk]

/-- … whose queue holds them in arrival order (a worker's queue is a sublist of the arrivals) -/
theorem queue_is_sublist (n : Nat) (hash : String → Nat) (pick : Nat → Nat) (arrivals : List Req) (w : Nat) :
    (queueOf n hash pick arrivals w).Sublist arrivals := List.filter_sublist

/-- every arrival is in exactly the queue of the worker it is assigned to -/
theorem mem_queue_iff (n : Nat) (hash : String → Nat) (pick : Nat → Nat) (arrivals : List Req) (w : Nat) (r : Req) :
    r ∈ queueOf n hash pick arrivals w ↔ r ∈ arrivals ∧ assign n hash pick r = w := by
  simp [queueOf, List.mem_filter]

end Burrow.Locks
