/-
  C06 — the offsets-topic decoder on arbitrary bytes:
  1. `NoPanic`: no decoder ever returns `.panic`;
  2. `Pot`: a potential-function invariant bounding the requested allocation by the bytes consumed;
  3. decode → encode: a commit that produces a storage request is the encoding of a well-formed one.
-/
import BurrowVerif.Proofs.WireBasic

namespace Burrow.Proofs.DecodeSafe
open Burrow Burrow.Decode Burrow.Spec.Wire Burrow.Proofs.Wire

variable {α β : Type}

/-! ### 1. no panic -/

def NoPanic (d : Dec α) : Prop := ∀ s s', d s ≠ .panic s'

theorem NoPanic.pure (a : α) : NoPanic (pure a : Dec α) := by
  intro s s' h; rw [pure_apply] at h; cases h

theorem NoPanic.bind {m : Dec α} {f : α → Dec β} (h1 : NoPanic m) (h2 : ∀ a, NoPanic (f a)) :
    NoPanic (m >>= f) := by
  intro s s' h
  rw [bind_apply] at h
  cases e : m s with
  | ok a s1 => rw [e] at h; exact h2 a _ _ h
  | fail s1 => rw [e] at h; cases h
  | panic s1 => exact h1 _ _ e

theorem NoPanic.ite {c : Prop} [Decidable c] {d e : Dec α} (h1 : NoPanic d) (h2 : NoPanic e) :
    NoPanic (if c then d else e) := by
  split <;> assumption

theorem NoPanic.failD : NoPanic (failD : Dec α) := by
  intro s s' h; cases h

theorem NoPanic.allocD (n : Nat) : NoPanic (allocD n) := by
  intro s s' h; cases h

theorem NoPanic.remaining : NoPanic remaining := by
  intro s s' h; cases h

theorem NoPanic.readN (n : Nat) : NoPanic (readN n) := by
  intro s s' h; unfold Decode.readN at h; split at h <;> cases h

theorem NoPanic.nextN (n : Nat) : NoPanic (nextN n) := by
  intro s s' h; cases h

theorem NoPanic.readI16 : NoPanic readI16 := (NoPanic.readN 2).bind fun _ => NoPanic.pure _
theorem NoPanic.readI32 : NoPanic readI32 := (NoPanic.readN 4).bind fun _ => NoPanic.pure _
theorem NoPanic.readI64 : NoPanic readI64 := (NoPanic.readN 8).bind fun _ => NoPanic.pure _

theorem NoPanic.whenD {c : Prop} [Decidable c] {d : Dec α} (h : NoPanic d) : NoPanic (whenD c d) :=
  NoPanic.ite (h.bind fun _ => NoPanic.pure _) (NoPanic.pure _)

theorem NoPanic.readString : NoPanic readString := by
  rw [readString_eq]
  exact NoPanic.readI16.bind fun len => NoPanic.ite (NoPanic.pure _) <| NoPanic.ite NoPanic.failD <|
    (NoPanic.allocD _).bind fun _ => NoPanic.remaining.bind fun avail =>
      NoPanic.ite ((NoPanic.nextN _).bind fun _ => NoPanic.failD)
        ((NoPanic.nextN _).bind fun _ => (NoPanic.allocD _).bind fun _ => NoPanic.pure _)

theorem NoPanic.decodeOffsetKeyV0 : NoPanic decodeOffsetKeyV0 :=
  NoPanic.readString.bind fun _ => NoPanic.readString.bind fun _ => NoPanic.readI32.bind fun _ =>
    NoPanic.pure _

theorem NoPanic.decodeOffsetValueV0 : NoPanic decodeOffsetValueV0 :=
  NoPanic.readI64.bind fun _ => NoPanic.readString.bind fun _ => NoPanic.readI64.bind fun _ =>
    NoPanic.pure _

theorem NoPanic.decodeOffsetValueV3 : NoPanic decodeOffsetValueV3 :=
  NoPanic.readI64.bind fun _ => NoPanic.readI32.bind fun _ => NoPanic.readString.bind fun _ =>
    NoPanic.readI64.bind fun _ => NoPanic.pure _

theorem NoPanic.decodeMetadataHeader (v2 : Bool) : NoPanic (decodeMetadataHeader v2) := by
  rw [decodeMetadataHeader_eq]
  exact NoPanic.readString.bind fun _ => NoPanic.readI32.bind fun _ => NoPanic.readString.bind fun _ =>
    NoPanic.readString.bind fun _ => (NoPanic.whenD NoPanic.readI64).bind fun _ => NoPanic.pure _

theorem NoPanic.readPartitions (n : Nat) : NoPanic (readPartitions n) := by
  induction n with
  | zero => exact NoPanic.pure _
  | succ n ih =>
    rw [readPartitions_succ]
    exact NoPanic.readI32.bind fun _ => ih.bind fun _ => NoPanic.pure _

theorem NoPanic.readTopics (n : Nat) (acc : List (Bytes × List Int)) : NoPanic (readTopics n acc) := by
  induction n generalizing acc with
  | zero => exact NoPanic.pure _
  | succ n ih =>
    rw [readTopics_succ]
    exact NoPanic.readString.bind fun _ => NoPanic.readI32.bind fun _ => NoPanic.ite NoPanic.failD <|
      NoPanic.remaining.bind fun _ => (NoPanic.allocD _).bind fun _ =>
        (NoPanic.readPartitions _).bind fun _ => ih _

theorem NoPanic.decodeMemberAssignmentV0 : NoPanic decodeMemberAssignmentV0 := by
  rw [decodeMemberAssignmentV0_eq]
  exact NoPanic.readI32.bind fun _ => NoPanic.remaining.bind fun _ => (NoPanic.allocD _).bind fun _ =>
    (NoPanic.readTopics _ _).bind fun _ => NoPanic.readI32.bind fun _ =>
      (NoPanic.whenD (NoPanic.nextN _)).bind fun _ => NoPanic.pure _

theorem NoPanic.assignmentD : NoPanic assignmentD :=
  NoPanic.readI16.bind fun _ => NoPanic.ite NoPanic.failD NoPanic.decodeMemberAssignmentV0

theorem NoPanic.onBuffer {d : Dec α} (data : Bytes) (h : NoPanic d) : NoPanic (onBuffer data d) := by
  intro s s' e
  unfold Decode.onBuffer at e
  split at e
  · cases e
  · cases e
  · rename_i s1 e1; exact h _ _ e1

theorem NoPanic.decodeMetadataMember (version : Int) : NoPanic (decodeMetadataMember version) := by
  rw [decodeMetadataMember_eq]
  exact NoPanic.readString.bind fun _ => (NoPanic.whenD NoPanic.readString).bind fun _ =>
    NoPanic.readString.bind fun _ => NoPanic.readString.bind fun _ =>
    (NoPanic.whenD NoPanic.readI32).bind fun _ => NoPanic.readI32.bind fun _ =>
    NoPanic.readI32.bind fun _ => (NoPanic.whenD (NoPanic.nextN _)).bind fun _ =>
    NoPanic.readI32.bind fun _ => NoPanic.ite
      ((NoPanic.nextN _).bind fun _ => (NoPanic.onBuffer _ NoPanic.assignmentD).bind fun _ => NoPanic.pure _)
      (NoPanic.pure _)

theorem membersLoop_noPanic (version : Int) (group : Bytes) (n : Nat) (s : DState) (acc : List Req)
    (reqs : List Req) (s' : DState) : membersLoop version group n s acc ≠ (reqs, .panic s') := by
  induction n generalizing s acc with
  | zero => intro h; simp [membersLoop] at h
  | succ n ih =>
    intro h
    unfold membersLoop at h
    split at h
    · exact ih _ _ h
    · simp at h
    · rename_i s1 e1; exact NoPanic.decodeMetadataMember version _ _ e1

theorem decodeAndSendGroupMetadata_noPanic (version : Int) (group : Bytes) (s : DState) :
    (decodeAndSendGroupMetadata version group s).panicked = false := by
  unfold decodeAndSendGroupMetadata
  split
  · rename_i s1 e1; exact absurd e1 (NoPanic.decodeMetadataHeader _ _ _)
  · rfl
  · split
    · rfl
    · split
      · rename_i s2 e2; exact absurd e2 (NoPanic.readI32 _ _)
      · rfl
      · split
        · rfl
        · split
          · rename_i reqs s3 e3; exact absurd e3 (membersLoop_noPanic _ _ _ _ _ _ _)
          · rfl
          · rfl

theorem decodeGroupMetadata_noPanic (accept : Accept) (keyRest value : Bytes) :
    (decodeGroupMetadata accept keyRest value).panicked = false := by
  unfold decodeGroupMetadata
  split
  · rename_i s1 e1; exact absurd e1 (NoPanic.readString _ _)
  · rfl
  · split
    · rfl
    · split
      · rfl
      · split
        · rename_i s2 e2; exact absurd e2 (NoPanic.readI16 _ _)
        · rfl
        · split
          · exact decodeAndSendGroupMetadata_noPanic _ _ _
          · rfl

theorem decodeKeyAndOffset_noPanic (accept : Accept) (order : Int) (keyRest value : Bytes) :
    (decodeKeyAndOffset accept order keyRest value).panicked = false := by
  unfold decodeKeyAndOffset
  split
  · rename_i s1 e1; exact absurd e1 (NoPanic.decodeOffsetKeyV0 _ _)
  · rfl
  · split
    · rfl
    · split
      · rfl
      · split
        · rename_i s2 e2; exact absurd e2 (NoPanic.readI16 _ _)
        · rfl
        · rename_i version s2 e2
          dsimp only
          split
          · rfl
          · rename_i d hd
            have hnp : NoPanic d := by
              split at hd
              · cases hd; exact NoPanic.decodeOffsetValueV0
              · split at hd
                · cases hd; exact NoPanic.decodeOffsetValueV3
                · cases hd
            split
            · rename_i s3 e3; exact absurd e3 (hnp _ _)
            · rfl
            · rfl

theorem process_never_panics (accept : Accept) (order : Int) (k v : Bytes) :
    (processMessage accept order k v).panicked = false := by
  unfold processMessage
  split
  · rename_i s1 e1; exact absurd e1 (NoPanic.readI16 _ _)
  · rfl
  · split
    · exact decodeKeyAndOffset_noPanic _ _ _ _
    · split
      · exact decodeGroupMetadata_noPanic _ _ _
      · rfl

/-! ### 2. bounded allocation

`Pot C k w d`: with `C` units of potential per buffered byte and `k` units of credit, a successful
run of `d` pays for everything it allocates plus `w result`; a failing run overdraws by at most one
maximal string (32767) — failure aborts the whole message, so this happens at most once. -/

structure Pot (C k : Nat) (w : α → Nat) (d : Dec α) : Prop where
  ok : ∀ {s a s'}, d s = .ok a s' → s'.alloc + w a + C * s'.buf.length ≤ s.alloc + k + C * s.buf.length
  fail : ∀ {s s'}, d s = .fail s' → s'.alloc ≤ s.alloc + k + C * s.buf.length + 32767

theorem Pot.bind {C k : Nat} {w₁ : α → Nat} {w : β → Nat} {m : Dec α} {f : α → Dec β}
    (h1 : Pot C k w₁ m) (h2 : ∀ a, Pot C (w₁ a) w (f a)) : Pot C k w (m >>= f) where
  ok := by
    intro s b s' h
    obtain ⟨a, s1, e1, e2⟩ := bind_ok_inv h
    have := h1.ok e1; have := (h2 a).ok e2; omega
  fail := by
    intro s s' h
    rw [bind_apply] at h
    cases e1 : m s with
    | ok a s1 => rw [e1] at h; have := h1.ok e1; have := (h2 a).fail h; omega
    | fail s1 => rw [e1] at h; injection h with h; subst h; have := h1.fail e1; omega
    | panic s1 => rw [e1] at h; cases h

theorem Pot.pure {C k : Nat} {w : α → Nat} {a : α} (h : w a ≤ k) : Pot C k w (pure a) where
  ok := by intro s b s' e; obtain ⟨rfl, rfl⟩ := pure_ok_inv e; omega
  fail := by intro s s' e; cases e

theorem Pot.failD {C k : Nat} {w : α → Nat} : Pot C k w failD where
  ok := by intro s b s' e; cases e
  fail := by intro s s' e; injection e with e; subst e; omega

theorem Pot.ite {C k : Nat} {w : α → Nat} {c : Prop} [Decidable c] {d e : Dec α}
    (h1 : Pot C k w d) (h2 : Pot C k w e) : Pot C k w (if c then d else e) := by
  split <;> assumption

theorem Pot.allocD {C k : Nat} (n : Nat) : Pot C (k + n) (fun _ => k) (allocD n) where
  ok := by intro s b s' e; injection e with e1 e2; subst e2; simp only; omega
  fail := by intro s s' e; cases e

/-- decoders that allocate nothing beyond what the bytes they consume pay for -/
def Neutral (C : Nat) (d : Dec α) : Prop := ∀ k, Pot C k (fun _ => k) d

theorem Pot.bindN {C k : Nat} {w : β → Nat} {m : Dec α} {f : α → Dec β}
    (h1 : Neutral C m) (h2 : ∀ a, Pot C k w (f a)) : Pot C k w (m >>= f) := (h1 k).bind h2

theorem Neutral.pure {C : Nat} (a : α) : Neutral C (pure a) := fun _ => Pot.pure (Nat.le_refl _)

theorem Neutral.bind {C : Nat} {m : Dec α} {f : α → Dec β} (h1 : Neutral C m)
    (h2 : ∀ a, Neutral C (f a)) : Neutral C (m >>= f) := fun k => Pot.bindN h1 fun a => h2 a k

theorem Neutral.failD {C : Nat} : Neutral C (failD : Dec α) := fun _ => Pot.failD

theorem Neutral.ite {C : Nat} {c : Prop} [Decidable c] {d e : Dec α}
    (h1 : Neutral C d) (h2 : Neutral C e) : Neutral C (if c then d else e) := by
  split <;> assumption

theorem Neutral.whenD {C : Nat} {c : Prop} [Decidable c] {d : Dec α} (h : Neutral C d) :
    Neutral C (whenD c d) :=
  Neutral.ite (h.bind fun _ => Neutral.pure _) (Neutral.pure _)

theorem Neutral.remaining {C : Nat} : Neutral C remaining := fun k =>
  { ok := by intro s b s' e; cases e; exact Nat.le_refl _
    fail := by intro s s' e; cases e }

theorem nextN_ok {n : Nat} {s s' : DState} {bs : Bytes} (e : nextN n s = .ok bs s') :
    s'.buf.length + bs.length = s.buf.length ∧ s'.alloc = s.alloc := by
  unfold Decode.nextN at e
  cases e
  simp only [List.length_take, List.length_drop]
  exact ⟨by omega, trivial⟩

theorem Neutral.nextN {C : Nat} (n : Nat) : Neutral C (nextN n) := fun k =>
  { ok := by
      intro s b s' e
      obtain ⟨h1, h2⟩ := nextN_ok e
      have : C * s'.buf.length ≤ C * s.buf.length := Nat.mul_le_mul_left _ (by omega)
      omega
    fail := by intro s s' e; cases e }

theorem readN_fail {n : Nat} {s s' : DState} (e : readN n s = .fail s') : s'.alloc = s.alloc := by
  unfold readN at e
  split at e
  · injection e with e; subst e; rfl
  · cases e

theorem Neutral.readN {C : Nat} (n : Nat) : Neutral C (readN n) := fun k =>
  { ok := by
      intro s b s' e
      obtain ⟨h1, h2, h3⟩ := readN_ok e
      have : s'.buf.length ≤ s.buf.length := by rw [h2, List.length_append]; omega
      have : C * s'.buf.length ≤ C * s.buf.length := Nat.mul_le_mul_left _ this
      omega
    fail := by intro s s' e; have := readN_fail e; omega }

theorem Neutral.readI16 {C : Nat} : Neutral C readI16 := (Neutral.readN 2).bind fun _ => Neutral.pure _
theorem Neutral.readI32 {C : Nat} : Neutral C readI32 := (Neutral.readN 4).bind fun _ => Neutral.pure _
theorem Neutral.readI64 {C : Nat} : Neutral C readI64 := (Neutral.readN 8).bind fun _ => Neutral.pure _

theorem bind_fail_inv {m : Dec α} {f : α → Dec β} {s s' : DState} (h : (m >>= f) s = .fail s') :
    m s = .fail s' ∨ ∃ a s1, m s = .ok a s1 ∧ f a s1 = .fail s' := by
  rw [bind_apply] at h
  cases e1 : m s with
  | ok a s1 => rw [e1] at h; exact .inr ⟨a, s1, rfl, h⟩
  | fail s1 => rw [e1] at h; injection h with h; subst h; exact .inl rfl
  | panic s1 => rw [e1] at h; cases h

theorem Pot.mono_k {C k k' : Nat} {w : α → Nat} {d : Dec α} (hk : k ≤ k') (h : Pot C k w d) :
    Pot C k' w d where
  ok := by intro s a s' e; have := h.ok e; omega
  fail := by intro s s' e; have := h.fail e; omega

theorem readString_spec (s : DState) :
    (∃ s', readString s = .fail s' ∧ s'.alloc ≤ s.alloc + 32767) ∨
    (∃ b s', readString s = .ok b s' ∧ s'.alloc = s.alloc + 2 * b.length ∧
      s'.buf.length + 2 + b.length = s.buf.length) := by
  rw [readString_eq, bind_apply]
  cases e1 : readI16 s with
  | panic s1 => exact absurd e1 (NoPanic.readI16 _ _)
  | fail s1 =>
    left
    exact ⟨s1, rfl, by have := (Neutral.readI16 (C := 0) 0).fail e1; omega⟩
  | ok len s1 =>
    obtain ⟨hr, hb, ha⟩ := readI16_ok e1
    have hlen : s.buf.length = 2 + s1.buf.length := by rw [hb, List.length_append, encI16_length]
    unfold InRange at hr
    simp only [Nat.reduceMul, Nat.reduceSub, Int.reducePow] at hr
    dsimp only
    by_cases hm1 : len = -1
    · right
      rw [if_pos hm1]
      exact ⟨[], s1, rfl, by simp [ha], by simp only [List.length_nil]; omega⟩
    · rw [if_neg hm1]
      by_cases hneg : len < 0
      · left
        rw [if_pos hneg]
        exact ⟨s1, rfl, by omega⟩
      · rw [if_neg hneg]
        simp only [bind_apply, allocD, remaining]
        by_cases hav : s1.buf.length < len.toNat
        · left
          rw [if_pos hav]
          simp only [bind_apply, nextN, Decode.failD]
          exact ⟨_, rfl, by simp only; omega⟩
        · right
          rw [if_neg hav]
          simp only [bind_apply, nextN, allocD, pure_apply]
          refine ⟨_, _, rfl, ?_, ?_⟩
          · simp only [List.length_take]; omega
          · simp only [List.length_take, List.length_drop]; omega

theorem Neutral.readString {C : Nat} (hC : 2 ≤ C) : Neutral C readString := fun k =>
  { ok := by
      intro s b s' e
      rcases readString_spec s with ⟨s1, e1, _⟩ | ⟨b1, s1, e1, ha, hl⟩
      · rw [e1] at e; cases e
      · rw [e1] at e; cases e
        have h1 : C * s.buf.length = C * s'.buf.length + C * 2 + C * b.length := by
          rw [← hl, Nat.mul_add, Nat.mul_add]
        have h2 : 2 * b.length ≤ C * b.length := Nat.mul_le_mul_right _ hC
        omega
    fail := by
      intro s s' e
      rcases readString_spec s with ⟨s1, e1, h⟩ | ⟨b1, s1, e1, _⟩
      · rw [e1] at e; cases e; omega
      · rw [e1] at e; cases e }

/-! #### offset commits and the metadata header allocate only for strings -/

theorem Neutral.decodeOffsetKeyV0 {C : Nat} (hC : 2 ≤ C) : Neutral C decodeOffsetKeyV0 :=
  (Neutral.readString hC).bind fun _ => (Neutral.readString hC).bind fun _ =>
    Neutral.readI32.bind fun _ => Neutral.pure _

theorem Neutral.decodeOffsetValueV0 {C : Nat} (hC : 2 ≤ C) : Neutral C decodeOffsetValueV0 :=
  Neutral.readI64.bind fun _ => (Neutral.readString hC).bind fun _ =>
    Neutral.readI64.bind fun _ => Neutral.pure _

theorem Neutral.decodeOffsetValueV3 {C : Nat} (hC : 2 ≤ C) : Neutral C decodeOffsetValueV3 :=
  Neutral.readI64.bind fun _ => Neutral.readI32.bind fun _ => (Neutral.readString hC).bind fun _ =>
    Neutral.readI64.bind fun _ => Neutral.pure _

theorem Neutral.decodeMetadataHeader {C : Nat} (hC : 2 ≤ C) (v2 : Bool) :
    Neutral C (decodeMetadataHeader v2) := by
  rw [decodeMetadataHeader_eq]
  exact (Neutral.readString hC).bind fun _ => Neutral.readI32.bind fun _ =>
    (Neutral.readString hC).bind fun _ => (Neutral.readString hC).bind fun _ =>
    (Neutral.whenD Neutral.readI64).bind fun _ => Neutral.pure _

/-! #### member assignment -/

/-- number of topic-partitions in a decoded assignment = number of owner requests it causes -/
def parts : List (Bytes × List Int) → Nat
  | [] => 0
  | tp :: r => tp.2.length + parts r

theorem parts_mapSet_le (name : Bytes) (ps : List Int) (acc : List (Bytes × List Int)) :
    parts (mapSet name ps acc) ≤ parts acc + ps.length := by
  induction acc with
  | nil => simp [mapSet, parts]
  | cons x acc ih =>
    obtain ⟨n, q⟩ := x
    simp only [mapSet]
    split
    · simp only [parts]; omega
    · simp only [parts]; omega

theorem ownerReqs_length (group : Bytes) (m : Member) :
    (ownerReqs group m).length = parts m.assignment := by
  unfold ownerReqs
  generalize m.assignment = l
  induction l with
  | nil => rfl
  | cons tp l ih =>
    simp only [List.flatMap_cons, List.length_append, List.length_map, parts, ih]

theorem readPartitions_ok {n : Nat} {s s' : DState} {ps : List Int}
    (e : readPartitions n s = .ok ps s') :
    ps.length = n ∧ s'.buf.length + 4 * n = s.buf.length ∧ s'.alloc = s.alloc := by
  induction n generalizing s ps with
  | zero => cases e; exact ⟨rfl, rfl, rfl⟩
  | succ n ih =>
    rw [readPartitions_succ] at e
    obtain ⟨p, s1, e1, e⟩ := bind_ok_inv e
    obtain ⟨r, s2, e2, e⟩ := bind_ok_inv e
    obtain ⟨rfl, rfl⟩ := pure_ok_inv e
    obtain ⟨_, hb, ha⟩ := readI32_ok e1
    obtain ⟨h1, h2, h3⟩ := ih e2
    have : s.buf.length = 4 + s1.buf.length := by rw [hb, List.length_append, encI32_length]
    exact ⟨by simp only [List.length_cons, h1], by omega, by omega⟩

theorem Neutral.readPartitions {C : Nat} (n : Nat) : Neutral C (readPartitions n) := by
  induction n with
  | zero => exact Neutral.pure _
  | succ n ih =>
    rw [readPartitions_succ]
    exact Neutral.readI32.bind fun _ => ih.bind fun _ => Neutral.pure _

/-- one topic's partition list: the pre-sized slice (≤ one byte per remaining byte) and the owner
    requests (`reqCost` per 4-byte partition id) are paid by the partition ids read -/
theorem pot_topicStep {k : Nat} {w : β → Nat} (np : Nat) {g : List Int → Dec β}
    (hg : ∀ ps, Pot 41 (k + 160 * ps.length) w (g ps)) :
    Pot 41 k w (remaining >>= fun avail => allocD (4 * min np (avail / 4)) >>= fun _ =>
      readPartitions np >>= g) where
  ok := by
    intro s b s' h
    obtain ⟨avail, s0, e0, h⟩ := bind_ok_inv h
    cases e0
    obtain ⟨_, s1, e1, h⟩ := bind_ok_inv h
    cases e1
    obtain ⟨ps, s2, e2, h⟩ := bind_ok_inv h
    obtain ⟨h1, h2, h3⟩ := readPartitions_ok e2
    have := (hg ps).ok h
    simp only at h2 h3
    omega
  fail := by
    intro s s' h
    rcases bind_fail_inv h with h | ⟨avail, s0, e0, h⟩
    · cases h
    cases e0
    rcases bind_fail_inv h with h | ⟨_, s1, e1, h⟩
    · cases h
    cases e1
    rcases bind_fail_inv h with h | ⟨ps, s2, e2, h⟩
    · have := (Neutral.readPartitions (C := 0) np 0).fail h
      simp only at this
      omega
    · obtain ⟨h1, h2, h3⟩ := readPartitions_ok e2
      have := (hg ps).fail h
      simp only at h2 h3
      omega

theorem pot_readTopics (n : Nat) (acc : List (Bytes × List Int)) :
    Pot 41 (160 * parts acc) (fun r => 160 * parts r) (readTopics n acc) := by
  induction n generalizing acc with
  | zero => exact Pot.pure (Nat.le_refl _)
  | succ n ih =>
    rw [readTopics_succ]
    refine Pot.bindN (Neutral.readString (by decide)) fun name => Pot.bindN Neutral.readI32 fun np =>
      Pot.ite Pot.failD <| pot_topicStep _ fun ps => (ih (mapSet name ps acc)).mono_k ?_
    have := parts_mapSet_le name ps acc
    omega

/-- allocation bound for a decoder run on its own buffer: 89 per byte -/
structure ABound (d : Dec (List (Bytes × List Int))) : Prop where
  ok : ∀ {s r s'}, d s = .ok r s' → s'.alloc + 160 * parts r ≤ s.alloc + 89 * s.buf.length
  fail : ∀ {s s'}, d s = .fail s' → s'.alloc ≤ s.alloc + 89 * s.buf.length + 32767

theorem assignmentRest_pot (nt : Nat) :
    Pot 41 0 (fun r => 160 * parts r) (readTopics nt [] >>= fun topics =>
      readI32 >>= fun userDataLen =>
      whenD (userDataLen > 0) (nextN userDataLen.toNat) >>= fun _ => pure topics) :=
  (pot_readTopics nt []).bind fun _ => Pot.bindN Neutral.readI32 fun _ =>
    Pot.bindN (Neutral.whenD (Neutral.nextN _)) fun _ => Pot.pure (Nat.le_refl _)

theorem ABound.decodeMemberAssignmentV0 : ABound decodeMemberAssignmentV0 where
  ok := by
    intro s r s' h
    rw [decodeMemberAssignmentV0_eq] at h
    obtain ⟨nt, s1, e1, h⟩ := bind_ok_inv h
    obtain ⟨avail, s0, e0, h⟩ := bind_ok_inv h
    cases e0
    obtain ⟨_, s2, e2, h⟩ := bind_ok_inv h
    cases e2
    obtain ⟨_, hb, ha⟩ := readI32_ok e1
    have hl : s.buf.length = 4 + s1.buf.length := by rw [hb, List.length_append, encI32_length]
    have := (assignmentRest_pot nt.toNat).ok h
    simp only [mapEntryCost] at this
    omega
  fail := by
    intro s s' h
    rw [decodeMemberAssignmentV0_eq] at h
    rcases bind_fail_inv h with h | ⟨nt, s1, e1, h⟩
    · have := (Neutral.readI32 (C := 0) 0).fail h; omega
    obtain ⟨_, hb, ha⟩ := readI32_ok e1
    have hl : s.buf.length = 4 + s1.buf.length := by rw [hb, List.length_append, encI32_length]
    rcases bind_fail_inv h with h | ⟨avail, s0, e0, h⟩
    · cases h
    cases e0
    rcases bind_fail_inv h with h | ⟨_, s2, e2, h⟩
    · cases h
    cases e2
    have := (assignmentRest_pot nt.toNat).fail h
    simp only [mapEntryCost] at this
    omega

theorem ABound.assignmentD : ABound assignmentD where
  ok := by
    intro s r s' h
    obtain ⟨cpv, s1, e1, h⟩ := bind_ok_inv h
    obtain ⟨_, hb, ha⟩ := readI16_ok e1
    have hl : s.buf.length = 2 + s1.buf.length := by rw [hb, List.length_append, encI16_length]
    split at h
    · cases h
    · have := ABound.decodeMemberAssignmentV0.ok h; omega
  fail := by
    intro s s' h
    rcases bind_fail_inv h with h | ⟨cpv, s1, e1, h⟩
    · have := (Neutral.readI16 (C := 0) 0).fail h; omega
    obtain ⟨_, hb, ha⟩ := readI16_ok e1
    have hl : s.buf.length = 2 + s1.buf.length := by rw [hb, List.length_append, encI16_length]
    split at h
    · cases h; omega
    · have := ABound.decodeMemberAssignmentV0.fail h; omega

theorem onBuffer_ok {d : Dec α} {data : Bytes} {s s' : DState} {a : α}
    (e : onBuffer data d s = .ok a s') :
    ∃ si, d ⟨data, s.alloc⟩ = .ok a si ∧ s'.buf = s.buf ∧ s'.alloc = si.alloc := by
  unfold onBuffer at e
  split at e
  · rename_i a1 si e1; cases e; exact ⟨si, e1, rfl, rfl⟩
  · cases e
  · cases e

theorem onBuffer_fail {d : Dec α} {data : Bytes} {s s' : DState}
    (e : onBuffer data d s = .fail s') :
    ∃ si, d ⟨data, s.alloc⟩ = .fail si ∧ s'.alloc = si.alloc := by
  unfold onBuffer at e
  split at e
  · cases e
  · rename_i si e1; cases e; exact ⟨si, e1, rfl⟩
  · cases e

/-- the assignment bytes are cut out of the outer buffer (`nextN`), so the 89 per inner byte are
    paid by the outer potential -/
theorem pot_nextN_onBuffer {C : Nat} (hC : 89 ≤ C) {w : β → Nat} (n : Nat)
    {f : List (Bytes × List Int) → Dec β} (hf : ∀ r, Pot C (160 * parts r) w (f r)) :
    Pot C 0 w (nextN n >>= fun data => onBuffer data assignmentD >>= f) where
  ok := by
    intro s b s' h
    obtain ⟨data, s1, e1, h⟩ := bind_ok_inv h
    obtain ⟨r, s2, e2, h⟩ := bind_ok_inv h
    obtain ⟨hl, ha⟩ := nextN_ok e1
    obtain ⟨si, ei, hb2, ha2⟩ := onBuffer_ok e2
    have h1 := ABound.assignmentD.ok ei
    have h2 := (hf r).ok h
    simp only at h1
    have h3 : C * s.buf.length = C * s1.buf.length + C * data.length := by rw [← hl, Nat.mul_add]
    have h4 : 89 * data.length ≤ C * data.length := Nat.mul_le_mul_right _ hC
    rw [hb2] at h2
    omega
  fail := by
    intro s s' h
    rcases bind_fail_inv h with h | ⟨data, s1, e1, h⟩
    · cases h
    obtain ⟨hl, ha⟩ := nextN_ok e1
    have h3 : C * s.buf.length = C * s1.buf.length + C * data.length := by rw [← hl, Nat.mul_add]
    have h4 : 89 * data.length ≤ C * data.length := Nat.mul_le_mul_right _ hC
    rcases bind_fail_inv h with h | ⟨r, s2, e2, h⟩
    · obtain ⟨si, ei, ha2⟩ := onBuffer_fail h
      have h1 := ABound.assignmentD.fail ei
      simp only at h1
      omega
    · obtain ⟨si, ei, hb2, ha2⟩ := onBuffer_ok e2
      have h1 := ABound.assignmentD.ok ei
      have h2 := (hf r).fail h
      simp only at h1
      rw [hb2] at h2
      omega

theorem pot_decodeMetadataMember (version : Int) :
    Pot 100 0 (fun m => 160 * parts m.assignment) (decodeMetadataMember version) := by
  have hC : 2 ≤ 100 := by decide
  rw [decodeMetadataMember_eq]
  exact Pot.bindN (Neutral.readString hC) fun _ => Pot.bindN (Neutral.whenD (Neutral.readString hC)) fun _ =>
    Pot.bindN (Neutral.readString hC) fun _ => Pot.bindN (Neutral.readString hC) fun _ =>
    Pot.bindN (Neutral.whenD Neutral.readI32) fun _ => Pot.bindN Neutral.readI32 fun _ =>
    Pot.bindN Neutral.readI32 fun _ => Pot.bindN (Neutral.whenD (Neutral.nextN _)) fun _ =>
    Pot.bindN Neutral.readI32 fun _ => Pot.ite
      (pot_nextN_onBuffer (by decide) _ fun _ => Pot.pure (Nat.le_refl _))
      (Pot.pure (Nat.le_refl _))

/-! #### the member loop and the top level -/

/-- final state of a decoder result -/
def st : DRes α → DState
  | .ok _ s => s
  | .fail s => s
  | .panic s => s

theorem membersLoop_alloc (version : Int) (group : Bytes) (n : Nat) (s : DState) (acc : List Req) :
    (st (membersLoop version group n s acc).2).alloc ≤ s.alloc + 100 * s.buf.length + 32767 := by
  induction n generalizing s acc with
  | zero => simp only [membersLoop, st]; omega
  | succ n ih =>
    unfold membersLoop
    split
    · rename_i m s1 e1
      have h1 := (pot_decodeMetadataMember version).ok e1
      have h2 := ih { s1 with alloc := s1.alloc + reqCost * (ownerReqs group m).length } (acc ++ ownerReqs group m)
      dsimp only at h1 h2 ⊢
      rw [ownerReqs_length] at h2 ⊢
      simp only [reqCost] at h2 ⊢
      omega
    · rename_i s1 e1
      have h1 := (pot_decodeMetadataMember version).fail e1
      simp only [st]
      omega
    · rename_i s1 e1; exact absurd e1 (NoPanic.decodeMetadataMember version _ _)

theorem decodeAndSendGroupMetadata_alloc (version : Int) (group : Bytes) (s : DState) :
    (decodeAndSendGroupMetadata version group s).alloc ≤ s.alloc + 100 * s.buf.length + 32767 + 160 := by
  have hC : 2 ≤ 100 := by decide
  unfold decodeAndSendGroupMetadata
  split
  · rename_i s1 e1; exact absurd e1 (NoPanic.decodeMetadataHeader _ _ _)
  · rename_i s1 e1
    have := (Neutral.decodeMetadataHeader hC _ 0).fail e1
    dsimp only; omega
  · rename_i pt s1 e1
    have h1 := (Neutral.decodeMetadataHeader hC _ 0).ok e1
    split
    · dsimp only; omega
    · split
      · rename_i s2 e2; exact absurd e2 (NoPanic.readI32 _ _)
      · rename_i s2 e2
        have := (Neutral.readI32 (C := 100) 0).fail e2
        dsimp only; omega
      · rename_i mc s2 e2
        have h2 := (Neutral.readI32 (C := 100) 0).ok e2
        split
        · simp only [reqCost]; omega
        · have h3 := membersLoop_alloc version group (min mc.toNat (s2.buf.length + 1)) s2 []
          split
          · rename_i reqs s3 e3; rw [e3] at h3; simp only [st] at h3; dsimp only; omega
          · rename_i reqs s3 e3; rw [e3] at h3; simp only [st] at h3; dsimp only; omega
          · rename_i reqs u s3 e3; rw [e3] at h3; simp only [st] at h3; dsimp only; omega

theorem decodeGroupMetadata_alloc (accept : Accept) (keyRest value : Bytes) :
    (decodeGroupMetadata accept keyRest value).alloc
      ≤ 100 * (keyRest.length + value.length) + 32767 + 160 := by
  have hC : 2 ≤ 100 := by decide
  unfold decodeGroupMetadata
  split
  · rename_i s1 e1; exact absurd e1 (NoPanic.readString _ _)
  · rename_i s1 e1
    have := (Neutral.readString hC 0).fail e1
    dsimp only at this ⊢; omega
  · rename_i group s1 e1
    have h1 := (Neutral.readString hC 0).ok e1
    dsimp only at h1
    split
    · dsimp only; omega
    · split
      · simp only [reqCost]; omega
      · split
        · rename_i s2 e2; exact absurd e2 (NoPanic.readI16 _ _)
        · rename_i s2 e2
          have := (Neutral.readI16 (C := 100) 0).fail e2
          dsimp only at this ⊢; omega
        · rename_i ver s2 e2
          have h2 := (Neutral.readI16 (C := 100) 0).ok e2
          dsimp only at h2
          split
          · have := decodeAndSendGroupMetadata_alloc ver group s2
            omega
          · dsimp only; omega

theorem decodeKeyAndOffset_alloc (accept : Accept) (order : Int) (keyRest value : Bytes) :
    (decodeKeyAndOffset accept order keyRest value).alloc
      ≤ 100 * (keyRest.length + value.length) + 32767 + 160 := by
  have hC : 2 ≤ 100 := by decide
  unfold decodeKeyAndOffset
  split
  · rename_i s1 e1; exact absurd e1 (NoPanic.decodeOffsetKeyV0 _ _)
  · rename_i s1 e1
    have := (Neutral.decodeOffsetKeyV0 hC 0).fail e1
    dsimp only at this ⊢; omega
  · rename_i key s1 e1
    have h1 := (Neutral.decodeOffsetKeyV0 hC 0).ok e1
    dsimp only at h1
    split
    · dsimp only; omega
    · split
      · dsimp only; omega
      · split
        · rename_i s2 e2; exact absurd e2 (NoPanic.readI16 _ _)
        · rename_i s2 e2
          have := (Neutral.readI16 (C := 100) 0).fail e2
          dsimp only at this ⊢; omega
        · rename_i ver s2 e2
          have h2 := (Neutral.readI16 (C := 100) 0).ok e2
          dsimp only at h2 ⊢
          split
          · dsimp only; omega
          · rename_i d hd
            have hd' : Neutral 100 d := by
              split at hd
              · cases hd; exact Neutral.decodeOffsetValueV0 hC
              · split at hd
                · cases hd; exact Neutral.decodeOffsetValueV3 hC
                · cases hd
            have hnp : NoPanic d := by
              split at hd
              · cases hd; exact NoPanic.decodeOffsetValueV0
              · split at hd
                · cases hd; exact NoPanic.decodeOffsetValueV3
                · cases hd
            split
            · rename_i s3 e3; exact absurd e3 (hnp _ _)
            · rename_i s3 e3
              have := (hd' 0).fail e3
              dsimp only; omega
            · rename_i o ts s3 e3
              have := (hd' 0).ok e3
              simp only [reqCost]; omega

theorem process_alloc_bounded (accept : Accept) (order : Int) (k v : Bytes) :
    (processMessage accept order k v).alloc ≤ allocA * (k.length + v.length) + allocB := by
  simp only [allocA, allocB]
  unfold processMessage
  split
  · rename_i s1 e1; exact absurd e1 (NoPanic.readI16 _ _)
  · rename_i s1 e1
    have := (Neutral.readI16 (C := 100) 0).fail e1
    dsimp only at this ⊢; omega
  · rename_i kv s1 e1
    obtain ⟨_, hb, ha⟩ := readI16_ok e1
    have hl : k.length = 2 + s1.buf.length := by
      have : k = encI16 kv ++ s1.buf := hb
      rw [this, List.length_append, encI16_length]
    split
    · have := decodeKeyAndOffset_alloc accept order s1.buf v; omega
    · split
      · have := decodeGroupMetadata_alloc accept s1.buf v; omega
      · dsimp only at ha ⊢; omega

/-! ### 3. decode → encode for offset commits -/

theorem readString_ok_inv {s s' : DState} {b : Bytes} (h : readString s = .ok b s') :
    ∃ o, strOK o ∧ strVal o = b ∧ s.buf = encString o ++ s'.buf := by
  rw [readString_eq] at h
  obtain ⟨len, s1, e1, h⟩ := bind_ok_inv h
  obtain ⟨hr, hb, ha⟩ := readI16_ok e1
  unfold InRange at hr
  simp only [Nat.reduceMul, Nat.reduceSub, Int.reducePow] at hr
  by_cases hm1 : len = -1
  · rw [if_pos hm1] at h
    obtain ⟨rfl, rfl⟩ := pure_ok_inv h
    exact ⟨none, trivial, rfl, by rw [hb, hm1]; rfl⟩
  · rw [if_neg hm1] at h
    by_cases hneg : len < 0
    · rw [if_pos hneg] at h; cases h
    · rw [if_neg hneg] at h
      obtain ⟨_, s2, e2, h⟩ := bind_ok_inv h
      cases e2
      obtain ⟨avail, s3, e3, h⟩ := bind_ok_inv h
      cases e3
      by_cases hav : s1.buf.length < len.toNat
      · rw [if_pos hav] at h
        obtain ⟨_, s4, e4, h⟩ := bind_ok_inv h
        cases h
      · rw [if_neg hav] at h
        obtain ⟨bs, s4, e4, h⟩ := bind_ok_inv h
        unfold nextN at e4
        cases e4
        obtain ⟨_, s5, e5, h⟩ := bind_ok_inv h
        cases e5
        obtain ⟨rfl, rfl⟩ := pure_ok_inv h
        have hl : (List.take len.toNat s1.buf).length = len.toNat := by
          rw [List.length_take]; omega
        refine ⟨some (List.take len.toNat s1.buf), ?_, rfl, ?_⟩
        · simp only [strOK, hl]; omega
        · have hc : ((List.take len.toNat s1.buf).length : Int) = len := by rw [hl]; omega
          simp only [encString, hc, List.append_assoc, List.take_append_drop]
          exact hb

theorem decodeOffsetKeyV0_ok_inv {s s' : DState} {key : OffsetKey} (h : decodeOffsetKeyV0 s = .ok key s') :
    ∃ g t, strOK g ∧ strOK t ∧ InRange 4 key.partition ∧ key.group = strVal g ∧ key.topic = strVal t ∧
      s.buf = encString g ++ encString t ++ encI32 key.partition ++ s'.buf := by
  unfold decodeOffsetKeyV0 at h
  obtain ⟨gb, s1, e1, h⟩ := bind_ok_inv h
  obtain ⟨tb, s2, e2, h⟩ := bind_ok_inv h
  obtain ⟨p, s3, e3, h⟩ := bind_ok_inv h
  obtain ⟨rfl, rfl⟩ := pure_ok_inv h
  obtain ⟨g, hg, rfl, hb1⟩ := readString_ok_inv e1
  obtain ⟨t, ht, rfl, hb2⟩ := readString_ok_inv e2
  obtain ⟨hp, hb3, _⟩ := readI32_ok e3
  exact ⟨g, t, hg, ht, hp, rfl, rfl, by rw [hb1, hb2, hb3]; simp only [List.append_assoc]⟩

theorem decodeOffsetValueV0_ok_inv {s s' : DState} {o ts : Int} (h : decodeOffsetValueV0 s = .ok (o, ts) s') :
    ∃ md, strOK md ∧ InRange 8 o ∧ InRange 8 ts ∧
      s.buf = encI64 o ++ encString md ++ encI64 ts ++ s'.buf := by
  unfold decodeOffsetValueV0 at h
  obtain ⟨o1, s1, e1, h⟩ := bind_ok_inv h
  obtain ⟨mb, s2, e2, h⟩ := bind_ok_inv h
  obtain ⟨ts1, s3, e3, h⟩ := bind_ok_inv h
  obtain ⟨hx, rfl⟩ := pure_ok_inv h
  cases hx
  obtain ⟨ho, hb1, _⟩ := readI64_ok e1
  obtain ⟨md, hm, _, hb2⟩ := readString_ok_inv e2
  obtain ⟨hts, hb3, _⟩ := readI64_ok e3
  exact ⟨md, hm, ho, hts, by rw [hb1, hb2, hb3]; simp only [List.append_assoc]⟩

theorem decodeOffsetValueV3_ok_inv {s s' : DState} {o ts : Int} (h : decodeOffsetValueV3 s = .ok (o, ts) s') :
    ∃ le md, InRange 4 le ∧ strOK md ∧ InRange 8 o ∧ InRange 8 ts ∧
      s.buf = encI64 o ++ encI32 le ++ encString md ++ encI64 ts ++ s'.buf := by
  unfold decodeOffsetValueV3 at h
  obtain ⟨o1, s1, e1, h⟩ := bind_ok_inv h
  obtain ⟨le, s2, e2, h⟩ := bind_ok_inv h
  obtain ⟨mb, s3, e3, h⟩ := bind_ok_inv h
  obtain ⟨ts1, s4, e4, h⟩ := bind_ok_inv h
  obtain ⟨hx, rfl⟩ := pure_ok_inv h
  cases hx
  obtain ⟨ho, hb1, _⟩ := readI64_ok e1
  obtain ⟨hle, hb2, _⟩ := readI32_ok e2
  obtain ⟨md, hm, _, hb3⟩ := readString_ok_inv e3
  obtain ⟨hts, hb4, _⟩ := readI64_ok e4
  exact ⟨le, md, hle, hm, ho, hts, by rw [hb1, hb2, hb3, hb4]; simp only [List.append_assoc]⟩

theorem malformed_commit_skipped (accept : Accept) (order : Int) (k v : Bytes) (kv : Int)
    (krest : Bytes) (hk : k = encI16 kv ++ krest) (hkv : kv = 0 ∨ kv = 1)
    (hreq : (processMessage accept order k v).reqs ≠ []) :
    ∃ (m : OffsetCommit) (rest₁ rest₂ : Bytes), m.WF ∧ k = m.encKey ++ rest₁ ∧ v = m.encValue ++ rest₂ ∧
      (processMessage accept order k v).reqs =
        [.offset (strVal m.group) (strVal m.topic) m.partition m.offset m.timestamp order] := by
  have hpm : processMessage accept order k v = decodeKeyAndOffset accept order krest v := by
    rw [hk]
    simp only [processMessage, readI16_enc kv krest 0 (inRange2_of_01 hkv), hkv, if_true]
  rw [hpm] at hreq ⊢
  unfold decodeKeyAndOffset at hreq ⊢
  cases e1 : decodeOffsetKeyV0 ⟨krest, 0⟩ with
  | panic s1 => rw [e1] at hreq; exact absurd rfl hreq
  | fail s1 => rw [e1] at hreq; exact absurd rfl hreq
  | ok key s1 =>
    rw [e1] at hreq
    dsimp only at hreq ⊢
    obtain ⟨g, t, hg, ht, hp, hkg, hkt, hb1⟩ := decodeOffsetKeyV0_ok_inv e1
    dsimp only at hb1
    have hkeq : ∀ (vv o le : Int) (md : Option Bytes) (ts : Int),
        k = (OffsetCommit.mk kv g t key.partition vv o le md ts).encKey ++ s1.buf := by
      intro vv o le md ts
      rw [hk, hb1]
      simp only [OffsetCommit.encKey, List.append_assoc]
    by_cases hacc : (!accept key.group) = true
    · rw [if_pos hacc] at hreq; exact absurd rfl hreq
    rw [if_neg hacc] at hreq ⊢
    by_cases hv0 : v.length = 0
    · rw [if_pos hv0] at hreq; exact absurd rfl hreq
    rw [if_neg hv0] at hreq ⊢
    cases e2 : readI16 ⟨v, s1.alloc⟩ with
    | panic s2 => rw [e2] at hreq; exact absurd rfl hreq
    | fail s2 => rw [e2] at hreq; exact absurd rfl hreq
    | ok ver s2 =>
      rw [e2] at hreq
      dsimp only at hreq ⊢
      obtain ⟨_, hb2, _⟩ := readI16_ok e2
      dsimp only at hb2
      by_cases h01 : ver = 0 ∨ ver = 1
      · rw [if_pos h01] at hreq ⊢
        dsimp only at hreq ⊢
        cases e3 : decodeOffsetValueV0 s2 with
        | panic s3 => rw [e3] at hreq; exact absurd rfl hreq
        | fail s3 => rw [e3] at hreq; exact absurd rfl hreq
        | ok ots s3 =>
          obtain ⟨o, ts⟩ := ots
          dsimp only
          obtain ⟨md, hm, ho, hts, hb3⟩ := decodeOffsetValueV0_ok_inv e3
          have hv013 : ver = 0 ∨ ver = 1 ∨ ver = 3 := by omega
          have h0 : InRange 4 0 := by unfold InRange; decide
          refine ⟨⟨kv, g, t, key.partition, ver, o, 0, md, ts⟩, s1.buf, s3.buf,
            ⟨hkv, hv013, hg, ht, hm, hp, ho, h0, hts⟩, hkeq _ _ _ _ _, ?_, ?_⟩
          · have h3 : ¬ ver = 3 := by omega
            rw [hb2, hb3]
            simp only [OffsetCommit.encValue, if_neg h3, List.append_assoc, List.nil_append]
          · dsimp only
            rw [hkg, hkt]
      · rw [if_neg h01] at hreq ⊢
        by_cases h3 : ver = 3
        · rw [if_pos h3] at hreq ⊢
          dsimp only at hreq ⊢
          cases e3 : decodeOffsetValueV3 s2 with
          | panic s3 => rw [e3] at hreq; exact absurd rfl hreq
          | fail s3 => rw [e3] at hreq; exact absurd rfl hreq
          | ok ots s3 =>
            obtain ⟨o, ts⟩ := ots
            dsimp only
            obtain ⟨le, md, hle, hm, ho, hts, hb3⟩ := decodeOffsetValueV3_ok_inv e3
            have hv013 : ver = 0 ∨ ver = 1 ∨ ver = 3 := by omega
            refine ⟨⟨kv, g, t, key.partition, ver, o, le, md, ts⟩, s1.buf, s3.buf,
              ⟨hkv, hv013, hg, ht, hm, hp, ho, hle, hts⟩, hkeq _ _ _ _ _, ?_, ?_⟩
            · rw [hb2, hb3]
              simp only [OffsetCommit.encValue, if_pos h3, List.append_assoc]
            · dsimp only
              rw [hkg, hkt]
        · rw [if_neg h3] at hreq
          exact absurd rfl hreq

end Burrow.Proofs.DecodeSafe
