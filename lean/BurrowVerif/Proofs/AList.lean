/-
  Generic facts about the association lists that model Go maps (`alookup` / `ainsert` / `aerase` /
  `akeys` of `Model.Storage`) and the one-value-per-key predicate `KeysNodup`.  Core Lean only.
-/
import BurrowVerif.Spec.StorageSpec

namespace Burrow.Proofs.AList
open Burrow Burrow.Storage Burrow.Spec.Storage

variable {β γ : Type}

/-! ### keys -/

@[simp] theorem akeys_nil : akeys ([] : List (String × β)) = [] := rfl

@[simp] theorem akeys_cons (p : String × β) (l : List (String × β)) : akeys (p :: l) = p.1 :: akeys l := rfl

theorem keysNodup_iff (l : List (String × β)) : KeysNodup l ↔ (akeys l).Nodup := Iff.rfl

theorem keysNodup_nil : KeysNodup ([] : List (String × β)) := List.nodup_nil

theorem keysNodup_cons {k : String} {v : β} {l : List (String × β)} :
    KeysNodup ((k, v) :: l) ↔ k ∉ akeys l ∧ KeysNodup l := by
  unfold KeysNodup akeys
  simp [List.nodup_cons]

theorem mem_akeys_of_mem {k : String} {v : β} {l : List (String × β)} (h : (k, v) ∈ l) : k ∈ akeys l :=
  List.mem_map.2 ⟨(k, v), h, rfl⟩

theorem mem_akeys_iff_exists {k : String} {l : List (String × β)} : k ∈ akeys l ↔ ∃ v, (k, v) ∈ l := by
  constructor
  · intro h
    obtain ⟨⟨k', v⟩, hm, hk⟩ := List.mem_map.1 h
    cases hk
    exact ⟨v, hm⟩
  · rintro ⟨v, hm⟩
    exact mem_akeys_of_mem hm

/-! ### lookup -/

@[simp] theorem alookup_nil (k : String) : alookup k ([] : List (String × β)) = none := rfl

theorem alookup_cons (k k' : String) (v : β) (l : List (String × β)) :
    alookup k ((k', v) :: l) = if k' = k then some v else alookup k l := rfl

theorem alookup_cons_self (k : String) (v : β) (l : List (String × β)) :
    alookup k ((k, v) :: l) = some v := by simp [alookup_cons]

theorem alookup_cons_ne {k k' : String} (h : k' ≠ k) (v : β) (l : List (String × β)) :
    alookup k ((k', v) :: l) = alookup k l := by simp [alookup_cons, h]

theorem mem_of_alookup_some {k : String} {v : β} {l : List (String × β)} (h : alookup k l = some v) :
    (k, v) ∈ l := by
  induction l with
  | nil => simp at h
  | cons p l ih =>
    obtain ⟨k', v'⟩ := p
    rw [alookup_cons] at h
    split at h
    · next hk => cases hk; cases h; exact List.mem_cons_self
    · exact List.mem_cons_of_mem _ (ih h)

theorem alookup_eq_none_iff {k : String} {l : List (String × β)} : alookup k l = none ↔ k ∉ akeys l := by
  induction l with
  | nil => simp
  | cons p l ih =>
    obtain ⟨k', v'⟩ := p
    rw [alookup_cons]
    by_cases hk : k' = k
    · simp [hk]
    · simp [hk, ih, Ne.symm hk]

theorem alookup_isSome_iff {k : String} {l : List (String × β)} : (alookup k l).isSome ↔ k ∈ akeys l := by
  cases h : alookup k l with
  | none => simp [alookup_eq_none_iff.1 h]
  | some v => simp [mem_akeys_of_mem (mem_of_alookup_some h)]

theorem mem_akeys_iff_alookup {k : String} {l : List (String × β)} : k ∈ akeys l ↔ ∃ v, alookup k l = some v := by
  rw [← alookup_isSome_iff, Option.isSome_iff_exists]

theorem alookup_of_mem {k : String} {v : β} {l : List (String × β)} (hn : KeysNodup l) (h : (k, v) ∈ l) :
    alookup k l = some v := by
  induction l with
  | nil => simp at h
  | cons p l ih =>
    obtain ⟨k', v'⟩ := p
    obtain ⟨hnk, hnl⟩ := keysNodup_cons.1 hn
    rcases List.mem_cons.1 h with heq | hm
    · cases heq; exact alookup_cons_self _ _ _
    · have : k' ≠ k := fun e => hnk (e ▸ mem_akeys_of_mem hm)
      rw [alookup_cons_ne this]
      exact ih hnl hm

theorem mem_iff_alookup {k : String} {v : β} {l : List (String × β)} (hn : KeysNodup l) :
    (k, v) ∈ l ↔ alookup k l = some v :=
  ⟨alookup_of_mem hn, mem_of_alookup_some⟩

/-! ### insert -/

theorem ainsert_cons (k : String) (v : β) (k' : String) (v' : β) (l : List (String × β)) :
    ainsert k v ((k', v') :: l) = if k' = k then (k, v) :: l else (k', v') :: ainsert k v l := rfl

@[simp] theorem ainsert_nil (k : String) (v : β) : ainsert k v ([] : List (String × β)) = [(k, v)] := rfl

theorem alookup_ainsert_self (k : String) (v : β) (l : List (String × β)) :
    alookup k (ainsert k v l) = some v := by
  induction l with
  | nil => simp [alookup_cons]
  | cons p l ih =>
    obtain ⟨k', v'⟩ := p
    rw [ainsert_cons]
    split
    · exact alookup_cons_self _ _ _
    · next hk => rw [alookup_cons_ne hk]; exact ih

theorem alookup_ainsert_ne {k k' : String} (h : k' ≠ k) (v : β) (l : List (String × β)) :
    alookup k' (ainsert k v l) = alookup k' l := by
  induction l with
  | nil => simp [alookup_cons, Ne.symm h]
  | cons p l ih =>
    obtain ⟨k₁, v₁⟩ := p
    rw [ainsert_cons]
    split
    · next hk => subst hk; rw [alookup_cons_ne (Ne.symm h), alookup_cons_ne (Ne.symm h)]
    · by_cases hk' : k₁ = k'
      · subst hk'; rw [alookup_cons_self, alookup_cons_self]
      · rw [alookup_cons_ne hk', alookup_cons_ne hk', ih]

theorem alookup_ainsert (k k' : String) (v : β) (l : List (String × β)) :
    alookup k' (ainsert k v l) = if k' = k then some v else alookup k' l := by
  split
  · next h => subst h; exact alookup_ainsert_self _ _ _
  · next h => exact alookup_ainsert_ne h _ _

theorem akeys_ainsert_of_mem {k : String} (v : β) {l : List (String × β)} (h : k ∈ akeys l) :
    akeys (ainsert k v l) = akeys l := by
  induction l with
  | nil => simp at h
  | cons p l ih =>
    obtain ⟨k', v'⟩ := p
    rw [ainsert_cons]
    split
    · next hk => subst hk; rfl
    · next hk =>
      have : k ∈ akeys l := by
        rcases List.mem_cons.1 h with e | e
        · exact absurd e.symm hk
        · exact e
      simp [ih this]

theorem akeys_ainsert_of_not_mem {k : String} (v : β) {l : List (String × β)} (h : k ∉ akeys l) :
    akeys (ainsert k v l) = akeys l ++ [k] := by
  induction l with
  | nil => rfl
  | cons p l ih =>
    obtain ⟨k', v'⟩ := p
    have h1 : k' ≠ k := fun e => h (by simp [e])
    have h2 : k ∉ akeys l := fun e => h (List.mem_cons_of_mem _ e)
    rw [ainsert_cons, if_neg h1]
    simp [ih h2]

theorem mem_akeys_ainsert {k k' : String} {v : β} {l : List (String × β)} :
    k' ∈ akeys (ainsert k v l) ↔ k' = k ∨ k' ∈ akeys l := by
  by_cases h : k ∈ akeys l
  · rw [akeys_ainsert_of_mem v h]
    constructor
    · exact Or.inr
    · rintro (e | e)
      · exact e ▸ h
      · exact e
  · rw [akeys_ainsert_of_not_mem v h]
    simp [or_comm]

theorem akeys_ainsert_of_alookup {k : String} (v : β) {v' : β} {l : List (String × β)} (h : alookup k l = some v') :
    akeys (ainsert k v l) = akeys l :=
  akeys_ainsert_of_mem v (mem_akeys_iff_alookup.2 ⟨v', h⟩)

theorem keysNodup_ainsert {k : String} {v : β} {l : List (String × β)} (h : KeysNodup l) :
    KeysNodup (ainsert k v l) := by
  rw [keysNodup_iff] at *
  by_cases hk : k ∈ akeys l
  · rw [akeys_ainsert_of_mem v hk]; exact h
  · rw [akeys_ainsert_of_not_mem v hk]
    rw [List.nodup_append]
    refine ⟨h, by simp, ?_⟩
    intro a ha b hb
    simp at hb
    subst hb
    exact fun e => hk (e ▸ ha)

theorem mem_ainsert {k k' : String} {v v' : β} {l : List (String × β)} (h : (k', v') ∈ ainsert k v l) :
    (k' = k ∧ v' = v) ∨ (k', v') ∈ l := by
  induction l with
  | nil => simp at h; exact Or.inl h
  | cons p l ih =>
    obtain ⟨k₁, v₁⟩ := p
    rw [ainsert_cons] at h
    split at h
    · rcases List.mem_cons.1 h with e | e
      · cases e; exact Or.inl ⟨rfl, rfl⟩
      · exact Or.inr (List.mem_cons_of_mem _ e)
    · rcases List.mem_cons.1 h with e | e
      · cases e; exact Or.inr List.mem_cons_self
      · rcases ih e with h1 | h2
        · exact Or.inl h1
        · exact Or.inr (List.mem_cons_of_mem _ h2)

/-- under one-value-per-key the inserted key carries exactly the inserted value -/
theorem eq_of_mem_ainsert_self {k : String} {v v' : β} {l : List (String × β)} (hn : KeysNodup l)
    (h : (k, v') ∈ ainsert k v l) : v' = v := by
  have := alookup_of_mem (keysNodup_ainsert hn) h
  rw [alookup_ainsert_self] at this
  exact (Option.some.inj this).symm

theorem mem_ainsert_ne {k k' : String} {v v' : β} {l : List (String × β)} (hk : k' ≠ k) :
    (k', v') ∈ ainsert k v l ↔ (k', v') ∈ l := by
  induction l with
  | nil => simp [hk]
  | cons p l ih =>
    obtain ⟨k₁, v₁⟩ := p
    rw [ainsert_cons]
    split
    · next e => subst e; simp [hk]
    · simp [ih]

theorem ainsert_of_alookup {k : String} {v : β} {l : List (String × β)} (h : alookup k l = some v) :
    ainsert k v l = l := by
  induction l with
  | nil => simp at h
  | cons p l ih =>
    obtain ⟨k', v'⟩ := p
    rw [alookup_cons] at h
    rw [ainsert_cons]
    split
    · next hk => subst hk; simp at h; rw [h]
    · next hk => rw [if_neg hk] at h; rw [ih h]

/-! ### erase -/

@[simp] theorem aerase_nil (k : String) : aerase k ([] : List (String × β)) = [] := rfl

theorem aerase_cons (k k' : String) (v' : β) (l : List (String × β)) :
    aerase k ((k', v') :: l) = if k' = k then l else (k', v') :: aerase k l := rfl

theorem aerase_of_alookup_none {k : String} {l : List (String × β)} (h : alookup k l = none) :
    aerase k l = l := by
  induction l with
  | nil => rfl
  | cons p l ih =>
    obtain ⟨k', v'⟩ := p
    rw [alookup_cons] at h
    rw [aerase_cons]
    split
    · next hk => simp [hk] at h
    · next hk => rw [if_neg hk] at h; rw [ih h]

theorem alookup_aerase_ne {k k' : String} (h : k' ≠ k) (l : List (String × β)) :
    alookup k' (aerase k l) = alookup k' l := by
  induction l with
  | nil => rfl
  | cons p l ih =>
    obtain ⟨k₁, v₁⟩ := p
    rw [aerase_cons]
    split
    · next hk => subst hk; rw [alookup_cons_ne (Ne.symm h)]
    · by_cases hk' : k₁ = k'
      · subst hk'; rw [alookup_cons_self, alookup_cons_self]
      · rw [alookup_cons_ne hk', alookup_cons_ne hk', ih]

theorem mem_of_mem_aerase {k : String} {p : String × β} {l : List (String × β)} (h : p ∈ aerase k l) : p ∈ l := by
  induction l with
  | nil => simp at h
  | cons q l ih =>
    obtain ⟨k₁, v₁⟩ := q
    rw [aerase_cons] at h
    split at h
    · exact List.mem_cons_of_mem _ h
    · rcases List.mem_cons.1 h with e | e
      · exact e ▸ List.mem_cons_self
      · exact List.mem_cons_of_mem _ (ih e)

theorem mem_aerase_ne {k k' : String} {v' : β} {l : List (String × β)} (hk : k' ≠ k) :
    (k', v') ∈ aerase k l ↔ (k', v') ∈ l := by
  induction l with
  | nil => simp
  | cons p l ih =>
    obtain ⟨k₁, v₁⟩ := p
    rw [aerase_cons]
    split
    · next e => subst e; simp [hk]
    · simp [ih]

theorem mem_akeys_of_mem_akeys_aerase {k k' : String} {l : List (String × β)} (h : k' ∈ akeys (aerase k l)) :
    k' ∈ akeys l := by
  obtain ⟨v, hv⟩ := mem_akeys_iff_exists.1 h
  exact mem_akeys_of_mem (mem_of_mem_aerase hv)

theorem mem_akeys_aerase_ne {k k' : String} {l : List (String × β)} (hk : k' ≠ k) :
    k' ∈ akeys (aerase k l) ↔ k' ∈ akeys l := by
  simp only [mem_akeys_iff_exists, mem_aerase_ne hk]

theorem akeys_aerase (k : String) (l : List (String × β)) : akeys (aerase k l) = (akeys l).erase k := by
  induction l with
  | nil => rfl
  | cons p l ih =>
    obtain ⟨k₁, v₁⟩ := p
    rw [aerase_cons]
    split
    · next e => subst e; simp
    · next e => simp [ih, e]

theorem keysNodup_aerase {k : String} {l : List (String × β)} (h : KeysNodup l) : KeysNodup (aerase k l) := by
  rw [keysNodup_iff] at *
  rw [akeys_aerase]
  exact h.erase _

theorem not_mem_akeys_aerase {k : String} {l : List (String × β)} (h : KeysNodup l) : k ∉ akeys (aerase k l) := by
  rw [akeys_aerase]
  exact fun hm => (List.Nodup.mem_erase_iff h).1 hm |>.1 rfl

theorem alookup_aerase_self {k : String} {l : List (String × β)} (h : KeysNodup l) :
    alookup k (aerase k l) = none :=
  alookup_eq_none_iff.2 (not_mem_akeys_aerase h)

theorem alookup_aerase {k k' : String} {l : List (String × β)} (h : KeysNodup l) :
    alookup k' (aerase k l) = if k' = k then none else alookup k' l := by
  split
  · next e => subst e; exact alookup_aerase_self h
  · next e => exact alookup_aerase_ne e l

/-- after erasing `k` from a one-value-per-key list, no remaining entry has key `k` -/
theorem ne_of_mem_aerase {k k' : String} {v : β} {l : List (String × β)} (h : KeysNodup l)
    (hm : (k', v) ∈ aerase k l) : k' ≠ k :=
  fun e => not_mem_akeys_aerase h (e ▸ mem_akeys_of_mem hm)

/-! ### mapping the values -/

/-- `List.map` with a key-preserving function, in the form the model writes it -/
def mapVal (f : String → β → γ) (l : List (String × β)) : List (String × γ) :=
  l.map fun p => (p.1, f p.1 p.2)

theorem mapVal_cons (f : String → β → γ) (k : String) (v : β) (l : List (String × β)) :
    mapVal f ((k, v) :: l) = (k, f k v) :: mapVal f l := rfl

@[simp] theorem akeys_mapVal (f : String → β → γ) (l : List (String × β)) : akeys (mapVal f l) = akeys l := by
  unfold akeys mapVal
  rw [List.map_map]
  rfl

theorem keysNodup_mapVal {f : String → β → γ} {l : List (String × β)} (h : KeysNodup l) : KeysNodup (mapVal f l) := by
  rw [keysNodup_iff] at *
  rw [akeys_mapVal]; exact h

theorem alookup_mapVal (f : String → β → γ) (k : String) (l : List (String × β)) :
    alookup k (mapVal f l) = (alookup k l).map (f k) := by
  induction l with
  | nil => rfl
  | cons p l ih =>
    obtain ⟨k', v'⟩ := p
    rw [mapVal_cons, alookup_cons, alookup_cons]
    split
    · next e => subst e; rfl
    · exact ih

theorem mem_mapVal {f : String → β → γ} {k : String} {w : γ} {l : List (String × β)} :
    (k, w) ∈ mapVal f l ↔ ∃ v, (k, v) ∈ l ∧ w = f k v := by
  unfold mapVal
  rw [List.mem_map]
  constructor
  · rintro ⟨⟨k', v⟩, hm, he⟩
    cases he
    exact ⟨v, hm, rfl⟩
  · rintro ⟨v, hm, rfl⟩
    exact ⟨(k, v), hm, rfl⟩

theorem aerase_mapVal (f : String → β → γ) (k : String) (l : List (String × β)) :
    aerase k (mapVal f l) = mapVal f (aerase k l) := by
  induction l with
  | nil => rfl
  | cons p l ih =>
    obtain ⟨k', v'⟩ := p
    rw [mapVal_cons, aerase_cons, aerase_cons]
    split
    · rfl
    · rw [mapVal_cons, ih]

theorem mapVal_id_of_forall {f : String → β → β} {l : List (String × β)}
    (h : ∀ k v, (k, v) ∈ l → f k v = v) : mapVal f l = l := by
  induction l with
  | nil => rfl
  | cons p l ih =>
    obtain ⟨k', v'⟩ := p
    rw [mapVal_cons, h k' v' List.mem_cons_self, ih fun k v hm => h k v (List.mem_cons_of_mem _ hm)]

/-- any `List.map` that keeps the keys is a `mapVal` (the model writes `fun (k, v) => (k, …)`) -/
theorem map_eq_mapVal {f : String × β → String × γ} (hf : ∀ p, (f p).1 = p.1) (l : List (String × β)) :
    l.map f = mapVal (fun k v => (f (k, v)).2) l := by
  unfold mapVal
  apply List.map_congr_left
  rintro ⟨k, v⟩ _
  exact Prod.ext (hf (k, v)) rfl

theorem akeys_map_of_fst {f : String × β → String × γ} (hf : ∀ p, (f p).1 = p.1) (l : List (String × β)) :
    akeys (l.map f) = akeys l := by
  rw [map_eq_mapVal hf, akeys_mapVal]

theorem keysNodup_map_of_fst {f : String × β → String × γ} (hf : ∀ p, (f p).1 = p.1) {l : List (String × β)}
    (h : KeysNodup l) : KeysNodup (l.map f) := by
  rw [map_eq_mapVal hf]; exact keysNodup_mapVal h

theorem map_eq_self_of_forall {α : Type} {f : α → α} {l : List α} (h : ∀ p ∈ l, f p = p) : l.map f = l := by
  induction l with
  | nil => rfl
  | cons a l ih =>
    rw [List.map_cons, h a List.mem_cons_self, ih fun p hp => h p (List.mem_cons_of_mem _ hp)]

end Burrow.Proofs.AList
