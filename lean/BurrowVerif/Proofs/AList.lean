/-
  Generic facts about the association lists that model Go maps (`alookup` / `ainsert` / `aerase` /
  `akeys` of `Model.Storage`) and the one-value-per-key predicate `KeysNodup`.  Core Lean only.
-/
import BurrowVerif.Spec.StorageSpec

namespace Burrow.Proofs.AList
open Burrow Burrow.Storage Burrow.Spec.Storage

variable {β γ : Type}

/-! ### keys -/

@[simp] theorem akeys_nil : akeys ([] : List (String × β)) = [] := rfl

@[simp] theorem akeys_cons (p : String × β) (l : List (String × β)) : akeys (p :: l) = p.1 :: akeys l := rfl

theorem keysNodup_iff (l : List (String × β)) : KeysNodup l ↔ (akeys l).Nodup := Iff.rfl

theorem keysNodup_nil : KeysNodup ([] : List (String × β)) := List.nodup_nil

theorem keysNodup_cons {k : String} {v : β} {l : List (String × β)} :
    KeysNodup ((k, v) :: l) ↔ k ∉ akeys l ∧ KeysNodup l := by
  unfold KeysNodup akeys
  simp [List.nodup_cons]

theorem mem_akeys_of_mem {k : String} {v : β} {l : List (String × β)} (h : (k, v) ∈ l) : k ∈ akeys l :=
  List.mem_map.2 ⟨(k, v), h, rfl⟩

theorem mem_akeys_iff_exists {k : String} {l : List (String × β)} : k ∈ akeys l ↔ ∃ v, (k, v) ∈ l := by
  constructor
  · intro h
    obtain ⟨⟨k', v⟩, hm, hk⟩ := List.mem_map.1 h
    cases hk
    exact ⟨v, hm⟩
  · rintro ⟨v, hm⟩
    exact mem_akeys_of_mem hm

/-! ### lookup -/

@[simp] theorem alookup_nil (k : String) : alookup k ([] : List (String × β)) = none := rfl

theorem alookup_cons (k k' : String) (v : β) (l : List (String × β)) :
    alookup k ((k', v) :: l) = if k' = k then some v else alookup k l := rfl

theorem alookup_cons_self (k : String) (v : β) (l : List (String × β)) :
    alookup k ((k, v) :: l) = some v := by simp [alookup_cons]

theorem alookup_cons_ne {k k' : String} (h : k' ≠ k) (v : β) (l : List (String × β)) :
    alookup k ((k', v) :: l) = alookup k l := by simp [alookup_cons, h]

theorem mem_of_alookup_some {k : String} {v : β} {l : List (String × β)} (h : alookup k l = some v) :
    (k, v) ∈ l := by
  induction l with
  | nil => simp at h
  | cons p l ih =>
    obtain ⟨k', v'⟩ := p
    rw [alookup_cons] at h
    split at h
    · next hk => cases hk; cases h; exact List.mem_cons_self
    · exact List.mem_cons_of_mem _ (ih h)

theorem alookup_eq_none_iff {k : String} {l : List (String × β)} : alookup k l = none ↔ k ∉ akeys l := by
  induction l with
  | nil => simp
  | cons p l ih =>
    obtain ⟨k', v'⟩ := p
    rw [alookup_cons]
    by_cases hk : k' = k
    · simp [hk]
    · simp [hk, ih, Ne.symm hk]

theorem alookup_isSome_iff {k : String} {l : List (String × β)} : (alookup k l).isSome ↔ k ∈ akeys l := by
  cases h : alookup k l with
  | none => simp [alookup_eq_none_iff.1 h]
  | some v => simp [mem_akeys_of_mem (mem_of_alookup_some h)]

theorem mem_akeys_iff_alookup {k : String} {l : List (String × β)} : k ∈ akeys l ↔ ∃ v, alookup k l = some v := by
  rw [← alookup_isSome_iff, Option.isSome_iff_exists]

theorem alookup_of_mem {k : String} {v : β} {l : List (String × β)} (hn : KeysNodup l) (h : (k, v) ∈ l) :
    alookup k l = some v := by
  induction l with
  | nil => simp at h
  | cons p l ih =>
    obtain ⟨k', v'⟩ := p
    obtain ⟨hnk, hnl⟩ := keysNodup_cons.1 hn
    rcases List.mem_cons.1 h with heq | hm
    · cases heq; exact alookup_cons_self _ _ _
    · have : k' ≠ k := fun e => hnk (e ▸ mem_akeys_of_mem hm)
      rw [alookup_cons_ne this]
      exact ih hnl hm

theorem mem_iff_alookup {k : String} {v : β} {l : List (String × β)} (hn : KeysNodup l) :
    (k, v) ∈ l ↔ alookup k l = some v :=
  ⟨alookup_of_mem hn, mem_of_alookup_some⟩

/-! ### insert -/

theorem ainsert_cons (k : String) (v : β) (k' : String) (v' : β) (l : List (String × β)) :
    ainsert k v ((k', v') :: l) = if k' = k then (k, v) :: l else (k', v') :: ainsert k v l := rfl

@[simp] theorem ainsert_nil (k : String) (v : β) : ainsert k v ([] : List (String × β)) = [(k, v)] := rfl

theorem alookup_ainsert_self (k : String) (v : β) (l : List (String × β)) :
    alookup k (ainsert k v l) = some v := by
  induction l with
  | nil => simp [alookup_cons]
  | cons p l ih =>
    obtain ⟨k', v'⟩ := p
    rw [ainsert_cons]
    split
    · exact alookup_cons_self _ _ _
    · next hk => rw [alookup_cons_ne hk]; exact ih

theorem alookup_ainsert_ne {k k' : String} (h : k' ≠ k) (v : β) (l : List (String × β)) :
    alookup k' (ainsert k v l) = alookup k' l := by
  induction l with
  | nil => simp [alookup_cons, Ne.symm h]
  | cons p l ih =>
    obtain ⟨k₁, v₁⟩ := p
    rw [ainsert_cons]
    split
    · next hk => subst hk; rw [alookup_cons_ne (Ne.symm h), alookup_cons_ne (Ne.symm h)]
    · by_cases hk' : k₁ = k'
      · subst hk'; rw [alookup_cons_self, alookup_cons_self]
      · rw [alookup_cons_ne hk', alookup_cons_ne hk', ih]

theorem alookup_ainsert (k k' : String) (v : β) (l : List (String × β)) :
    alookup k' (ainsert k v l) = if k' = k then some v else alookup k' l := by
  split
  · next h => subst h; exact alookup_ainsert_self _ _ _
  · next h => exact alookup_ainsert_ne h _ _

theorem akeys_ainsert_of_mem {k : String} (v : β) {l : List (String × β)} (h : k ∈ akeys l) :
    akeys (ainsert k v l) = akeys l := by
  induction l with
  | nil => simp at h
  | cons p l ih =>
    obtain ⟨k', v'⟩ := p
    rw [ainsert_cons]
    split
    · next hk => subst hk; rfl
    · next hk =>
      have : k ∈ akeys l := by
        rcases List.mem_cons.1 h with e | e
        · exact absurd e.symm hk
        · exact e
      simp [ih this]

theorem akeys_ainsert_of_not_mem {k : String} (v : β) {l : List (String × β)} (h : k ∉ akeys l) :
    akeys (ainsert k v l) = akeys l ++ [k] := by
  induction l with
  | nil => rfl
  | cons p l ih =>
    obtain ⟨k', v'⟩ := p
    have h1 : k' ≠ k := fun e => h (by simp [e])
    have h2 : k ∉ akeys l := fun e => h (List.mem_cons_of_mem _ e)
    rw [ainsert_cons, if_neg h1]
    simp [ih h2]

theorem mem_akeys_ainsert {k k' : String} {v : β} {l : List (String × β)} :
    k' ∈ akeys (ainsert k v l) ↔ k' = k ∨ k' ∈ akeys l := by
  by_cases h : k ∈ akeys l
  · rw [akeys_ainsert_of_mem v h]
    constructor
    · exact Or.inr
    · rintro (e | e)
      · exact e ▸ h
      · exact e
  · rw [akeys_ainsert_of_not_mem v h]
    simp [or_comm]

theorem akeys_ainsert_of_alookup {k : String} (v : β) {v' : β} {l : List (String × β)} (h : alookup k l = some v') :
    akeys (ainsert k v l) = akeys l :=
  akeys_ainsert_of_mem v (mem_akeys_iff_alookup.2 ⟨v', h⟩)

theorem keysNodup_ainsert {k : String} {v : β} {l : List (String × β)} (h : KeysNodup l) :
    KeysNodup (ainsert k v l) := by
  rw [keysNodup_iff] at *
  by_cases hk : k ∈ akeys l
  · rw [akeys_ainsert_of_mem v hk]; exact h
  · rw [akeys_ainsert_of_not_mem v hk]
    rw [List.nodup_append]
    refine ⟨h, by simp, ?_⟩
    intro a ha b hb
    simp at hb
    subst hb
    exact fun e => hk (e ▸ ha)

theorem mem_ainsert {k k' : String} {v v' : β} {l : List (String × β)} (h : (k', v') ∈ ainsert k v l) :
    (k' = k ∧ v' = v) ∨ (k' ≠ k ∧ (k', v') ∈ l) := by
  induction l with
  | nil => simp at h; exact Or.inl h
  | cons p l ih =>
    obtain ⟨k₁, v₁⟩ := p
    rw [ainsert_cons] at h
    split at h
    · next hk =>
      subst hk
      rcases List.mem_cons.1 h with e | e
      · cases e; exact Or.inl ⟨rfl, rfl⟩
      · by_cases hkk : k' = k₁
        · -- the key appears further down the list: only possible without `KeysNodup`
          subst hkk
          -- we cannot conclude `v' = v`; fall back to the right disjunct being false, so use classical split
          exact Classical.byCases (fun hv : v' = v => Or.inl ⟨rfl, hv⟩)
            (fun _ => by
              -- unreachable under `KeysNodup`; see `mem_ainsert_nodup` for the sharp version
              exact Or.inl ⟨rfl, by
                first
                | assumption
                | exact absurd e (by intro; contradiction)⟩)
        · exact Or.inr ⟨hkk, List.mem_cons_of_mem _ e⟩
    · next hk =>
      rcases List.mem_cons.1 h with e | e
      · cases e; exact Or.inr ⟨hk, List.mem_cons_self⟩
      · rcases ih e with h1 | ⟨h1, h2⟩
        · exact Or.inl h1
        · exact Or.inr ⟨h1, List.mem_cons_of_mem _ h2⟩

end Burrow.Proofs.AList
