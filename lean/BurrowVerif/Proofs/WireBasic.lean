/-
  Shared foundations for C06/C07 (`Proofs/Wire.lean`, `Proofs/DecodeSafe.lean`):
  1. the decoder monad `Dec`: `bind`/`pure` unfolding, `LawfulMonad`, and "clean" (join-point free)
     forms of the `do` blocks of `Model/Decode.lean`;
  2. the fixed-width codec: `encNat`/`beNat`, `encInt`/`toSigned`, in both directions;
  3. readers on an encoded prefix (encode → decode);
  4. readers that succeed determine an encoded prefix (decode → encode).
-/
import BurrowVerif.Model.Decode
import BurrowVerif.Spec.Wire

namespace Burrow.Proofs.Wire
open Burrow Burrow.Decode Burrow.Spec.Wire

variable {α β : Type}

/-! ### 1. the monad -/

theorem bind_apply (m : Dec α) (f : α → Dec β) (s : DState) :
    (m >>= f) s = match m s with
      | .ok a s' => f a s' | .fail s' => .fail s' | .panic s' => .panic s' := rfl

theorem pure_apply (a : α) (s : DState) : (pure a : Dec α) s = .ok a s := rfl

theorem bind_ok {m : Dec α} {f : α → Dec β} {s s' : DState} {a : α} (h : m s = .ok a s') :
    (m >>= f) s = f a s' := by rw [bind_apply, h]

theorem bind_fail {m : Dec α} {f : α → Dec β} {s s' : DState} (h : m s = .fail s') :
    (m >>= f) s = .fail s' := by rw [bind_apply, h]

theorem bind_panic {m : Dec α} {f : α → Dec β} {s s' : DState} (h : m s = .panic s') :
    (m >>= f) s = .panic s' := by rw [bind_apply, h]

theorem bind_ok_inv {m : Dec α} {f : α → Dec β} {s s' : DState} {b : β}
    (h : (m >>= f) s = .ok b s') : ∃ a s1, m s = .ok a s1 ∧ f a s1 = .ok b s' := by
  rw [bind_apply] at h
  cases h1 : m s with
  | ok a s1 => rw [h1] at h; exact ⟨a, s1, rfl, h⟩
  | fail s1 => rw [h1] at h; cases h
  | panic s1 => rw [h1] at h; cases h

theorem pure_ok_inv {a b : α} {s s' : DState} (h : (pure a : Dec α) s = .ok b s') : b = a ∧ s' = s := by
  rw [pure_apply] at h; injection h with h1 h2; exact ⟨h1.symm, h2.symm⟩

instance : LawfulMonad Dec := LawfulMonad.mk'
  (id_map := by
    intro α x; funext s
    show (x >>= fun a => pure (id a)) s = x s
    rw [bind_apply]; split <;> simp_all [pure_apply])
  (pure_bind := by intros; rfl)
  (bind_assoc := by
    intro α β γ x f g; funext s
    simp only [bind_apply]
    split <;> rename_i h <;> split at h <;> simp_all)

/-- `if c then (do let _ ← d; pure ()) else pure ()` -/
def whenD (c : Prop) [Decidable c] (d : Dec α) : Dec Unit :=
  if c then (d >>= fun _ => pure ()) else pure ()

theorem jp_eq (c : Prop) [Decidable c] (d : Dec α) (k : Unit → Dec β) :
    (if c then (d >>= fun _ => pure ()) >>= fun r => k r else k ()) = whenD c d >>= k := by
  unfold whenD; split <;> simp

theorem readString_eq : readString =
    (readI16 >>= fun len =>
      if len = -1 then pure []
      else if len < 0 then failD
      else allocD len.toNat >>= fun _ => remaining >>= fun avail =>
        if avail < len.toNat then nextN avail >>= fun _ => failD
        else nextN len.toNat >>= fun bs => allocD len.toNat >>= fun _ => pure bs) := rfl

theorem decodeMetadataHeader_eq (v2 : Bool) : decodeMetadataHeader v2 =
    (readString >>= fun pt => readI32 >>= fun _ => readString >>= fun _ => readString >>= fun _ =>
      whenD (v2 = true) readI64 >>= fun _ => pure pt) := by
  unfold decodeMetadataHeader
  simp only [jp_eq]

theorem readTopics_succ (n : Nat) (acc : List (Bytes × List Int)) : readTopics (n + 1) acc =
    (readString >>= fun name => readI32 >>= fun numPartitions =>
      if numPartitions < 0 then failD
      else remaining >>= fun avail =>
        allocD (4 * min numPartitions.toNat (avail / 4)) >>= fun _ =>
        readPartitions numPartitions.toNat >>= fun ps => readTopics n (mapSet name ps acc)) := rfl

theorem readPartitions_succ (n : Nat) : readPartitions (n + 1) =
    (readI32 >>= fun p => readPartitions n >>= fun rest => pure (p :: rest)) := rfl

theorem decodeMemberAssignmentV0_eq : decodeMemberAssignmentV0 =
    (readI32 >>= fun numTopics => remaining >>= fun avail =>
      allocD (mapEntryCost * min numTopics.toNat avail) >>= fun _ =>
        readTopics numTopics.toNat [] >>= fun topics =>
        readI32 >>= fun userDataLen =>
        whenD (userDataLen > 0) (nextN userDataLen.toNat) >>= fun _ => pure topics) := by
  unfold decodeMemberAssignmentV0
  simp only [jp_eq]

/-- the decoder run on the assignment bytes of a member -/
def assignmentD : Dec (List (Bytes × List Int)) :=
  readI16 >>= fun cpv => if cpv < 0 then failD else decodeMemberAssignmentV0

theorem decodeMetadataMember_eq (version : Int) : decodeMetadataMember version =
    (readString >>= fun _ =>
     whenD (version = 3) readString >>= fun _ =>
     readString >>= fun clientID =>
     readString >>= fun host =>
     whenD (version ≥ 1) readI32 >>= fun _ =>
     readI32 >>= fun _ =>
     readI32 >>= fun subscriptionBytes =>
     whenD (subscriptionBytes > 0) (nextN subscriptionBytes.toNat) >>= fun _ =>
     readI32 >>= fun assignmentBytes =>
     if assignmentBytes > 0 then
       nextN assignmentBytes.toNat >>= fun data =>
       onBuffer data assignmentD >>= fun assignment =>
       pure { clientID, host, assignment }
     else pure { clientID, host, assignment := [] }) := by
  unfold decodeMetadataMember
  simp only [jp_eq]
  rfl

/-! ### 2. the codec -/

theorem encNat_length (w n : Nat) : (encNat w n).length = w := by
  induction w with
  | zero => rfl
  | succ w ih => simp [encNat, ih]

@[simp] theorem encI16_length (x : Int) : (encI16 x).length = 2 := encNat_length _ _
@[simp] theorem encI32_length (x : Int) : (encI32 x).length = 4 := encNat_length _ _
@[simp] theorem encI64_length (x : Int) : (encI64 x).length = 8 := encNat_length _ _

theorem beNat_encNat (w n : Nat) : beNat (encNat w n) = n % 256 ^ w := by
  induction w with
  | zero => simp [encNat, beNat, Nat.mod_one]
  | succ w ih =>
    simp only [encNat, beNat, encNat_length, ih]
    rw [Nat.pow_succ, Nat.mod_mul, UInt8.toNat_ofNat']
    simp only [Nat.reducePow, Nat.mod_mod, Nat.mul_comm, Nat.add_comm]

theorem beNat_lt (bs : Bytes) : beNat bs < 256 ^ bs.length := by
  induction bs with
  | nil => simp [beNat]
  | cons b bs ih =>
    simp only [beNat, List.length_cons, Nat.pow_succ]
    have := b.toNat_lt
    have h : b.toNat * 256 ^ bs.length ≤ 255 * 256 ^ bs.length := Nat.mul_le_mul_right _ (by omega)
    omega

theorem encNat_add_mul (w a n : Nat) : encNat w (a * 256 ^ w + n) = encNat w n := by
  induction w generalizing a with
  | zero => rfl
  | succ w ih =>
    simp only [encNat]
    have e : a * 256 ^ (w + 1) + n = (a * 256) * 256 ^ w + n := by rw [Nat.pow_succ]; ac_rfl
    rw [e, ih]
    congr 2
    rw [Nat.add_comm, Nat.add_mul_div_right _ _ (Nat.pow_pos (by decide)), Nat.add_mul_mod_self_right]

theorem encNat_beNat (bs : Bytes) : encNat bs.length (beNat bs) = bs := by
  induction bs with
  | nil => rfl
  | cons b bs ih =>
    simp only [List.length_cons, encNat, beNat]
    rw [encNat_add_mul, ih]
    congr 1
    have := beNat_lt bs
    rw [Nat.add_comm, Nat.add_mul_div_right _ _ (Nat.pow_pos (by decide)), Nat.div_eq_of_lt this]
    simp

theorem toSigned_encInt2 (x : Int) (h : InRange 2 x) : toSigned 16 (beNat (encInt 2 x)) = x := by
  unfold InRange at h
  simp only [encInt, beNat_encNat, toSigned] at *
  simp only [Nat.reduceMul, Nat.reduceSub, Nat.reducePow, Int.reducePow, Int.reduceNeg] at *
  split <;> omega

theorem toSigned_encInt4 (x : Int) (h : InRange 4 x) : toSigned 32 (beNat (encInt 4 x)) = x := by
  unfold InRange at h
  simp only [encInt, beNat_encNat, toSigned] at *
  simp only [Nat.reduceMul, Nat.reduceSub, Nat.reducePow, Int.reducePow, Int.reduceNeg] at *
  split <;> omega

theorem toSigned_encInt8 (x : Int) (h : InRange 8 x) : toSigned 64 (beNat (encInt 8 x)) = x := by
  unfold InRange at h
  simp only [encInt, beNat_encNat, toSigned] at *
  simp only [Nat.reduceMul, Nat.reduceSub, Nat.reducePow, Int.reducePow, Int.reduceNeg] at *
  split <;> omega

/-- decode → encode for a 2-byte field -/
theorem encInt_toSigned2 (bs : Bytes) (h : bs.length = 2) :
    InRange 2 (toSigned 16 (beNat bs)) ∧ encInt 2 (toSigned 16 (beNat bs)) = bs := by
  have hlt := beNat_lt bs
  have henc := encNat_beNat bs
  rw [h] at hlt henc
  generalize beNat bs = n at *
  have key : ((toSigned 16 n) % (2 : Int) ^ (8 * 2)).toNat = n := by
    simp only [toSigned, Nat.reduceMul, Nat.reduceSub, Nat.reducePow, Int.reducePow] at *
    split <;> omega
  refine ⟨?_, by rw [encInt, key, henc]⟩
  simp only [InRange, toSigned, Nat.reduceMul, Nat.reduceSub, Nat.reducePow, Int.reducePow] at *
  split <;> omega

theorem encInt_toSigned4 (bs : Bytes) (h : bs.length = 4) :
    InRange 4 (toSigned 32 (beNat bs)) ∧ encInt 4 (toSigned 32 (beNat bs)) = bs := by
  have hlt := beNat_lt bs
  have henc := encNat_beNat bs
  rw [h] at hlt henc
  generalize beNat bs = n at *
  have key : ((toSigned 32 n) % (2 : Int) ^ (8 * 4)).toNat = n := by
    simp only [toSigned, Nat.reduceMul, Nat.reduceSub, Nat.reducePow, Int.reducePow] at *
    split <;> omega
  refine ⟨?_, by rw [encInt, key, henc]⟩
  simp only [InRange, toSigned, Nat.reduceMul, Nat.reduceSub, Nat.reducePow, Int.reducePow] at *
  split <;> omega

theorem encInt_toSigned8 (bs : Bytes) (h : bs.length = 8) :
    InRange 8 (toSigned 64 (beNat bs)) ∧ encInt 8 (toSigned 64 (beNat bs)) = bs := by
  have hlt := beNat_lt bs
  have henc := encNat_beNat bs
  rw [h] at hlt henc
  generalize beNat bs = n at *
  have key : ((toSigned 64 n) % (2 : Int) ^ (8 * 8)).toNat = n := by
    simp only [toSigned, Nat.reduceMul, Nat.reduceSub, Nat.reducePow, Int.reducePow] at *
    split <;> omega
  refine ⟨?_, by rw [encInt, key, henc]⟩
  simp only [InRange, toSigned, Nat.reduceMul, Nat.reduceSub, Nat.reducePow, Int.reducePow] at *
  split <;> omega

theorem inRange2_of_nat (n : Nat) (h : n < 2 ^ 15) : InRange 2 (n : Int) := by
  unfold InRange
  simp only [Nat.reduceMul, Nat.reduceSub, Nat.reducePow, Int.reducePow] at *
  omega

theorem inRange4_of_nat (n : Nat) (h : n < 2 ^ 31) : InRange 4 (n : Int) := by
  unfold InRange
  simp only [Nat.reduceMul, Nat.reduceSub, Nat.reducePow, Int.reducePow] at *
  omega

theorem inRange2_of_01 {x : Int} (h : x = 0 ∨ x = 1) : InRange 2 x := by
  rcases h with h | h <;> subst h <;> (unfold InRange; decide)

theorem inRange2_of_013 {x : Int} (h : x = 0 ∨ x = 1 ∨ x = 3) : InRange 2 x := by
  rcases h with h | h | h <;> subst h <;> (unfold InRange; decide)

theorem inRange2_of_0123 {x : Int} (h : x = 0 ∨ x = 1 ∨ x = 2 ∨ x = 3) : InRange 2 x := by
  rcases h with h | h | h | h <;> subst h <;> (unfold InRange; decide)

/-! ### 3. readers on an encoded prefix -/

theorem readN_append (bs rest : Bytes) (a : Nat) :
    readN bs.length ⟨bs ++ rest, a⟩ = .ok bs ⟨rest, a⟩ := by
  simp [readN]

theorem readI16_enc (x : Int) (rest : Bytes) (a : Nat) (h : InRange 2 x) :
    readI16 ⟨encI16 x ++ rest, a⟩ = .ok x ⟨rest, a⟩ := by
  have := readN_append (encI16 x) rest a
  rw [encI16_length] at this
  simp only [readI16, bind_apply, this, pure_apply]
  rw [show encI16 x = encInt 2 x from rfl, toSigned_encInt2 x h]

theorem readI32_enc (x : Int) (rest : Bytes) (a : Nat) (h : InRange 4 x) :
    readI32 ⟨encI32 x ++ rest, a⟩ = .ok x ⟨rest, a⟩ := by
  have := readN_append (encI32 x) rest a
  rw [encI32_length] at this
  simp only [readI32, bind_apply, this, pure_apply]
  rw [show encI32 x = encInt 4 x from rfl, toSigned_encInt4 x h]

theorem readI64_enc (x : Int) (rest : Bytes) (a : Nat) (h : InRange 8 x) :
    readI64 ⟨encI64 x ++ rest, a⟩ = .ok x ⟨rest, a⟩ := by
  have := readN_append (encI64 x) rest a
  rw [encI64_length] at this
  simp only [readI64, bind_apply, this, pure_apply]
  rw [show encI64 x = encInt 8 x from rfl, toSigned_encInt8 x h]

theorem readString_enc (s : Option Bytes) (rest : Bytes) (a : Nat) (h : strOK s) :
    readString ⟨encString s ++ rest, a⟩ = .ok (strVal s) ⟨rest, a + 2 * (strVal s).length⟩ := by
  cases s with
  | none =>
    simp only [encString, readString, bind_apply, readI16_enc (-1) rest a (by unfold InRange; decide)]
    simp [pure_apply, strVal]
  | some b =>
    have hr : InRange 2 (b.length : Int) := inRange2_of_nat _ h
    simp only [encString, readString, bind_apply, List.append_assoc, readI16_enc _ _ a hr]
    have h1 : ¬ ((b.length : Int) = -1) := by omega
    have h2 : ¬ ((b.length : Int) < 0) := by omega
    have h3 : ¬ (b.length + rest.length < b.length) := by omega
    simp only [h1, h2, h3, if_false, bind_apply, allocD, remaining, nextN, Int.toNat_natCast,
      List.length_append, pure_apply]
    simp [strVal]
    omega

theorem encString_length (s : Option Bytes) : (encString s).length = 2 + (strVal s).length := by
  cases s <;> simp [encString, strVal]

/-! ### 4. readers that succeed determine an encoded prefix -/

theorem readN_ok {n : Nat} {s s' : DState} {bs : Bytes} (h : readN n s = .ok bs s') :
    bs.length = n ∧ s.buf = bs ++ s'.buf ∧ s'.alloc = s.alloc := by
  unfold readN at h
  split at h
  · cases h
  · rename_i hlt
    injection h with h1 h2
    subst h1 h2
    simp
    omega

theorem readI16_ok {s s' : DState} {x : Int} (h : readI16 s = .ok x s') :
    InRange 2 x ∧ s.buf = encI16 x ++ s'.buf ∧ s'.alloc = s.alloc := by
  obtain ⟨bs, s1, h1, h2⟩ := bind_ok_inv (show (readN 2 >>= fun bs => pure (toSigned 16 (beNat bs))) s = _ from h)
  obtain ⟨rfl, rfl⟩ := pure_ok_inv h2
  obtain ⟨hl, hb, ha⟩ := readN_ok h1
  obtain ⟨hr, he⟩ := encInt_toSigned2 bs hl
  exact ⟨hr, by rw [show encI16 _ = encInt 2 _ from rfl, he]; exact hb, ha⟩

theorem readI32_ok {s s' : DState} {x : Int} (h : readI32 s = .ok x s') :
    InRange 4 x ∧ s.buf = encI32 x ++ s'.buf ∧ s'.alloc = s.alloc := by
  obtain ⟨bs, s1, h1, h2⟩ := bind_ok_inv (show (readN 4 >>= fun bs => pure (toSigned 32 (beNat bs))) s = _ from h)
  obtain ⟨rfl, rfl⟩ := pure_ok_inv h2
  obtain ⟨hl, hb, ha⟩ := readN_ok h1
  obtain ⟨hr, he⟩ := encInt_toSigned4 bs hl
  exact ⟨hr, by rw [show encI32 _ = encInt 4 _ from rfl, he]; exact hb, ha⟩

theorem readI64_ok {s s' : DState} {x : Int} (h : readI64 s = .ok x s') :
    InRange 8 x ∧ s.buf = encI64 x ++ s'.buf ∧ s'.alloc = s.alloc := by
  obtain ⟨bs, s1, h1, h2⟩ := bind_ok_inv (show (readN 8 >>= fun bs => pure (toSigned 64 (beNat bs))) s = _ from h)
  obtain ⟨rfl, rfl⟩ := pure_ok_inv h2
  obtain ⟨hl, hb, ha⟩ := readN_ok h1
  obtain ⟨hr, he⟩ := encInt_toSigned8 bs hl
  exact ⟨hr, by rw [show encI64 _ = encInt 8 _ from rfl, he]; exact hb, ha⟩

end Burrow.Proofs.Wire
