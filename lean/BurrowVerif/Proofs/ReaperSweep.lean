/-
  The groups reaper end to end: `Cluster.reap`'s delete-group requests applied by storage
  (`Storage.deleteGroup`).  Core Lean only.
-/
import BurrowVerif.Proofs.StorageDelete
import BurrowVerif.Proofs.Cluster
import BurrowVerif.Model.Reaper

namespace Burrow.Proofs.ReaperSweep
open Burrow Burrow.Storage Burrow.Spec.Storage Burrow.Proofs.StorageDelete

open Burrow.Reaper (sweep)

theorem wf_sweep (s : Store) (c : String) (ds : List String) (h : WF s) : WF (sweep s c ds) := by
  induction ds generalizing s with
  | nil => exact h
  | cons d ds ih => exact ih _ (wf_deleteGroup s _ h)

/-- after the sweep the cluster lists exactly the groups it listed before that were not named -/
theorem groups_after_sweep (s : Store) (h : WF s) (c : String) (ds : List String) (g : String) :
    g ∈ groupsOf (sweep s c ds) c ↔ g ∈ groupsOf s c ∧ g ∉ ds := by
  induction ds generalizing s with
  | nil => simp [sweep]
  | cons d ds ih =>
    simp only [sweep]
    rw [ih _ (wf_deleteGroup s _ h)]
    by_cases hgd : g = d
    · subst hgd
      have hr : g ∉ groupsOf (deleteGroup s { cluster := c, group := g }).1 c :=
        (deleteGroup_removes s h { cluster := c, group := g } rfl 0 "").1
      constructor
      · intro hh; exact absurd hh.1 hr
      · intro hh; exact absurd (List.mem_cons_self) hh.2
    · have hf : g ∈ groupsOf (deleteGroup s { cluster := c, group := d }).1 c ↔ g ∈ groupsOf s c :=
        (deleteGroup_frame s { cluster := c, group := d } rfl 0 c g "" (fun hh => hgd hh.2)).2.1
      rw [hf]
      simp [hgd]

/-- … and everything that was not named — other groups of the cluster, every other cluster — is
    reported exactly as before, at every clock value -/
theorem sweep_frame (s : Store) (c : String) (ds : List String) (now : Int) (c' g : String)
    (hne : ¬ (c' = c ∧ g ∈ ds)) :
    detail (sweep s c ds) now c' g = detail s now c' g ∧
    fetchTopicList (sweep s c ds) c' = fetchTopicList s c' ∧
    fetchClusterList (sweep s c ds) = fetchClusterList s := by
  induction ds generalizing s with
  | nil => simp [sweep]
  | cons d ds ih =>
    simp only [sweep]
    have hne' : ¬ (c' = c ∧ g ∈ ds) := fun ⟨h1, h2⟩ => hne ⟨h1, List.mem_cons_of_mem _ h2⟩
    have hd : ¬ (c' = c ∧ g = d) := fun ⟨h1, h2⟩ => hne ⟨h1, by simp [h2]⟩
    obtain ⟨i1, i2, i3⟩ := ih (deleteGroup s { cluster := c, group := d }).1 hne'
    have hf := deleteGroup_frame s { cluster := c, group := d } rfl now c' g "" hd
    exact ⟨i1.trans hf.1, i2.trans hf.2.2.2.1, i3.trans hf.2.2.2.2.2⟩

end Burrow.Proofs.ReaperSweep
