/-
  The refresh of the notifier's group records keeps the record of every group that is still listed.
-/
import BurrowVerif.Model.Notifier

namespace Burrow.Notifier

theorem lookupG_filter {p : (String × String) × GroupRec → Bool} {k : String × String}
    (hp : ∀ v, p (k, v) = true) : ∀ (l : NState), lookupG k (l.filter p) = lookupG k l := by
  intro l
  induction l with
  | nil => rfl
  | cons kv rest ih =>
    obtain ⟨k', v'⟩ := kv
    by_cases hk : k' = k
    · subst hk; simp [List.filter_cons, hp, lookupG]
    · by_cases hf : p (k', v') = true
      · simp [List.filter_cons, hf, lookupG, hk, ih]
      · simp [List.filter_cons, hf, lookupG, hk, ih]

theorem lookupG_append_other {k k' : String × String} (v : GroupRec) (hk : k' ≠ k) :
    ∀ (l : NState), lookupG k (l ++ [(k', v)]) = lookupG k l := by
  intro l
  induction l with
  | nil => simp [lookupG, hk]
  | cons kv rest ih =>
    obtain ⟨k2, v2⟩ := kv
    by_cases h2 : k2 = k
    · simp [lookupG, h2]
    · simp [lookupG, h2, ih]

/-- adding fresh records for the groups of one cluster does not touch an existing record -/
theorem lookupG_addFresh {k : String × String} {r : GroupRec} (c : String) :
    ∀ (gs : List String) (a : NState), lookupG k a = some r →
      lookupG k (gs.foldl (fun a g =>
        match lookupG (c, g) a with
        | some _ => a
        | none => a ++ [((c, g), GroupRec.fresh)]) a) = some r := by
  intro gs
  induction gs with
  | nil => intro a h; exact h
  | cons g rest ih =>
    intro a h
    simp only [List.foldl_cons]
    apply ih
    cases hl : lookupG (c, g) a with
    | some _ => exact h
    | none =>
      have hne : (c, g) ≠ k := by
        intro e; rw [e, h] at hl; cases hl
      simp only
      rw [lookupG_append_other _ hne]; exact h

/-- **a refresh keeps the record of every group that is still listed**: if the group's cluster is
    listed (once) and — when storage answered that cluster's consumer-list request — the group is in
    the answer, its record is exactly what it was -/
theorem refresh_keeps_listed (listing : List (String × List String)) (answered : String → Bool) (s : NState)
    (k : String × String) (r : GroupRec)
    (hl : listing.any (·.1 == k.1) = true)
    (hin : ∀ cg ∈ listing, cg.1 = k.1 → answered k.1 = true → k.2 ∈ cg.2)
    (hr : lookupG k s = some r) :
    lookupG k (refresh listing answered s) = some r := by
  unfold refresh
  have h1 : lookupG k (s.filter fun kv => listing.any (·.1 == kv.1.1)) = some r := by
    rw [lookupG_filter (k := k) (fun _ => hl)]; exact hr
  generalize (s.filter fun kv => listing.any (·.1 == kv.1.1)) = s1 at h1
  clear hl hr
  induction listing generalizing s1 with
  | nil => exact h1
  | cons cg rest ih =>
    simp only [List.foldl_cons]
    apply ih (fun cg' hcg' => hin cg' (List.mem_cons_of_mem _ hcg'))
    by_cases ha : answered cg.1 = true
    · simp only [ha, if_true]
      apply lookupG_addFresh
      rw [lookupG_filter (k := k)]
      · exact h1
      · intro v
        by_cases hc : cg.1 = k.1
        · have := hin cg (by simp) hc (hc ▸ ha)
          simp [hc, this]
        · have : (k.1 != cg.1) = true := by simpa using fun e => hc e.symm
          simp [this]
    · simp only [ha]; exact h1

end Burrow.Notifier
