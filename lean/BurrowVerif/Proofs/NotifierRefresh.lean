/-
  The refresh of the notifier's group records keeps the record of every group that is still listed.
-/
import BurrowVerif.Model.Notifier

namespace Burrow.Notifier

theorem lookupG_filter {p : (String × String) × GroupRec → Bool} {k : String × String}
    (hp : ∀ v, p (k, v) = true) : ∀ (l : NState), lookupG k (l.filter p) = lookupG k l := by
  intro l
  induction l with
  | nil => rfl
  | cons kv rest ih =>
    obtain ⟨k', v'⟩ := kv
    by_cases hk : k' = k
    · subst hk; simp [List.filter_cons, hp, lookupG]
    · by_cases hf : p (k', v') = true
      · simp [List.filter_cons, hf, lookupG, hk, ih]
      · simp [List.filter_cons, hf, lookupG, hk, ih]

theorem lookupG_append_other {k k' : String × String} (v : GroupRec) (hk : k' ≠ k) :
    ∀ (l : NState), lookupG k (l ++ [(k', v)]) = lookupG k l := by
  intro l
  induction l with
  | nil => simp [lookupG, hk]
  | cons kv rest ih =>
    obtain ⟨k2, v2⟩ := kv
    by_cases h2 : k2 = k
    · simp [lookupG, h2]
    · simp [lookupG, h2, ih]

/-- adding fresh records for the groups of one cluster does not touch an existing record -/
theorem lookupG_addFresh {k : String × String} {r : GroupRec} (c : String) :
    ∀ (gs : List String) (a : NState), lookupG k a = some r →
      lookupG k (gs.foldl (fun a g =>
        match lookupG (c, g) a with
        | some _ => a
        | none => a ++ [((c, g), GroupRec.fresh)]) a) = some r := by
  intro gs
  induction gs with
  | nil => intro a h; exact h
  | cons g rest ih =>
    intro a h
    simp only [List.foldl_cons]
    apply ih
    cases hl : lookupG (c, g) a with
    | some _ => exact h
    | none =>
      have hne : (c, g) ≠ k := by
        intro e; rw [e, h] at hl; cases hl
      simp only
      rw [lookupG_append_other _ hne]; exact h

/-- **a refresh keeps the record of every group that is still listed**: if the group's cluster is
    listed (once) and — when storage answered that cluster's consumer-list request — the group is in
    the answer, its record is exactly what it was -/
theorem refresh_keeps_listed (listing : List (String × List String)) (answered : String → Bool) (s : NState)
    (k : String × String) (r : GroupRec)
    (hl : listing.any (·.1 == k.1) = true)
    (hin : ∀ cg ∈ listing, cg.1 = k.1 → answered k.1 = true → k.2 ∈ cg.2)
    (hr : lookupG k s = some r) :
    lookupG k (refresh listing answered s) = some r := by
  unfold refresh
  have h1 : lookupG k (s.filter fun kv => listing.any (·.1 == kv.1.1)) = some r := by
    rw [lookupG_filter (k := k) (fun _ => hl)]; exact hr
  generalize (s.filter fun kv => listing.any (·.1 == kv.1.1)) = s1 at h1
  clear hl hr
  induction listing generalizing s1 with
  | nil => exact h1
  | cons cg rest ih =>
    simp only [List.foldl_cons]
    apply ih (fun cg' hcg' => hin cg' (List.mem_cons_of_mem _ hcg'))
    by_cases ha : answered cg.1 = true
    · simp only [ha, if_true]
      apply lookupG_addFresh
      rw [lookupG_filter (k := k)]
      · exact h1
      · intro v
        by_cases hc : cg.1 = k.1
        · have := hin cg (by simp) hc (hc ▸ ha)
          simp [hc, this]
        · have : (k.1 != cg.1) = true := by simpa using fun e => hc e.symm
          simp [this]
    · simp only [ha]; exact h1

end Burrow.Notifier

namespace Burrow.Notifier

/-- adding fresh records for the groups of a cluster creates a record for each of them -/
theorem lookupG_addFresh_mem (c : String) : ∀ (gs : List String) (a : NState) (g : String),
    (g ∈ gs ∨ (lookupG (c, g) a).isSome) →
    (lookupG (c, g) (gs.foldl (fun a g' =>
        match lookupG (c, g') a with
        | some _ => a
        | none => a ++ [((c, g'), GroupRec.fresh)]) a)).isSome := by
  intro gs
  induction gs with
  | nil => intro a g h; rcases h with h | h; simp at h; simpa using h
  | cons g0 rest ih =>
    intro a g h
    simp only [List.foldl_cons]
    apply ih
    by_cases hg : g = g0
    · subst hg
      right
      cases hl : lookupG (c, g) a with
      | some _ => simp [hl]
      | none =>
        simp only
        have : ∀ (l : NState), lookupG (c, g) (l ++ [((c, g), GroupRec.fresh)]) = some GroupRec.fresh ∨
            (lookupG (c, g) (l ++ [((c, g), GroupRec.fresh)])).isSome := by
          intro l
          induction l with
          | nil => left; simp [lookupG]
          | cons kv r ihl =>
            obtain ⟨k2, v2⟩ := kv
            by_cases h2 : k2 = (c, g)
            · right; simp [lookupG, h2]
            · rcases ihl with h' | h'
              · left; simp [lookupG, h2, h']
              · right; simp [lookupG, h2, h']
        rcases this a with h' | h'
        · simp [h']
        · exact h'
    · rcases h with h | h
      · left
        simp only [List.mem_cons] at h
        rcases h with h | h
        · exact absurd h hg
        · exact h
      · right
        cases hl : lookupG (c, g0) a with
        | some _ => simpa [hl] using h
        | none =>
          simp only
          rw [lookupG_append_other _ (by intro e; cases e; exact hg rfl)]
          exact h

end Burrow.Notifier

namespace Burrow.Notifier

/-- one cluster's part of the refresh -/
def refreshStep (answered : String → Bool) (acc : NState) (cg : String × List String) : NState :=
  if answered cg.1 then
    let kept := acc.filter fun kv => kv.1.1 != cg.1 || cg.2.contains kv.1.2
    cg.2.foldl (fun a g =>
      match lookupG (cg.1, g) a with
      | some _ => a
      | none => a ++ [((cg.1, g), GroupRec.fresh)]) kept
  else acc

theorem refresh_eq_foldl (listing : List (String × List String)) (answered : String → Bool) (s : NState) :
    refresh listing answered s =
      listing.foldl (refreshStep answered) (s.filter fun kv => listing.any (·.1 == kv.1.1)) := rfl

/-- the other clusters' parts leave a record alone -/
theorem refreshStep_other (answered : String → Bool) (c g : String) (cg : String × List String) (hne : cg.1 ≠ c)
    (a : NState) (h : (lookupG (c, g) a).isSome) : (lookupG (c, g) (refreshStep answered a cg)).isSome := by
  unfold refreshStep
  by_cases ha : answered cg.1 = true
  · simp only [ha, if_true]
    obtain ⟨r, hr⟩ := Option.isSome_iff_exists.mp h
    have : lookupG (c, g) (a.filter fun kv => kv.1.1 != cg.1 || cg.2.contains kv.1.2) = some r := by
      rw [lookupG_filter (k := (c, g))]
      · exact hr
      · intro v
        have : (c != cg.1) = true := by simpa using fun e => hne e.symm
        simp [this]
    rw [lookupG_addFresh cg.1 cg.2 _ this]; rfl
  · simp only [ha]; exact h

theorem foldl_refreshStep_other (answered : String → Bool) (c g : String) :
    ∀ (rest : List (String × List String)) (a : NState), (∀ cg ∈ rest, cg.1 ≠ c) →
      (lookupG (c, g) a).isSome → (lookupG (c, g) (rest.foldl (refreshStep answered) a)).isSome := by
  intro rest
  induction rest with
  | nil => intro a _ h; exact h
  | cons cg rest ih =>
    intro a hne h
    simp only [List.foldl_cons]
    exact ih _ (fun cg' h' => hne cg' (List.mem_cons_of_mem _ h'))
      (refreshStep_other answered c g cg (hne cg (by simp)) a h)

/-- **a refresh whose consumer-list request for a cluster was answered has a record for every group in
    the answer** (cluster names in storage's listing are distinct: they are the keys of a map) -/
theorem refresh_adds_listed (listing : List (String × List String)) (answered : String → Bool) (s : NState)
    (c g : String) (gs : List String)
    (hnd : (listing.map (·.1)).Nodup) (hc : (c, gs) ∈ listing) (ha : answered c = true) (hg : g ∈ gs) :
    (lookupG (c, g) (refresh listing answered s)).isSome := by
  rw [refresh_eq_foldl]
  generalize (s.filter fun kv => listing.any (·.1 == kv.1.1)) = s1
  induction listing generalizing s1 with
  | nil => cases hc
  | cons cg rest ih =>
    simp only [List.foldl_cons]
    simp only [List.map_cons, List.nodup_cons] at hnd
    rcases List.mem_cons.mp hc with hc | hc
    · subst hc
      apply foldl_refreshStep_other
      · intro cg' hcg' e
        exact hnd.1 (List.mem_map.mpr ⟨cg', hcg', e⟩)
      · unfold refreshStep
        simp only [ha, if_true]
        exact lookupG_addFresh_mem c gs _ g (Or.inl hg)
    · exact ih hnd.2 hc _

end Burrow.Notifier

namespace Burrow.Notifier

theorem lookupG_filter_none {p : (String × String) × GroupRec → Bool} {k : String × String} :
    ∀ (l : NState), lookupG k l = none → lookupG k (l.filter p) = none := by
  intro l
  induction l with
  | nil => intro _; rfl
  | cons kv rest ih =>
    obtain ⟨k', v'⟩ := kv
    intro h
    by_cases hk : k' = k
    · simp [lookupG, hk] at h
    · have hr : lookupG k rest = none := by simpa [lookupG, hk] using h
      by_cases hf : p (k', v') = true
      · simp [List.filter_cons, hf, lookupG, hk, ih hr]
      · simp [List.filter_cons, hf, ih hr]

theorem lookupG_filter_out {p : (String × String) × GroupRec → Bool} {k : String × String}
    (hp : ∀ v, p (k, v) = false) : ∀ (l : NState), lookupG k (l.filter p) = none := by
  intro l
  induction l with
  | nil => rfl
  | cons kv rest ih =>
    obtain ⟨k', v'⟩ := kv
    by_cases hk : k' = k
    · subst hk; simp [List.filter_cons, hp, ih]
    · by_cases hf : p (k', v') = true
      · simp [List.filter_cons, hf, lookupG, hk, ih]
      · simp [List.filter_cons, hf, ih]

theorem lookupG_addFresh_none {k : String × String} (c : String) :
    ∀ (gs : List String) (a : NState), (∀ g ∈ gs, (c, g) ≠ k) → lookupG k a = none →
      lookupG k (gs.foldl (fun a g =>
        match lookupG (c, g) a with
        | some _ => a
        | none => a ++ [((c, g), GroupRec.fresh)]) a) = none := by
  intro gs
  induction gs with
  | nil => intro a _ h; exact h
  | cons g rest ih =>
    intro a hne h
    simp only [List.foldl_cons]
    apply ih _ (fun g' hg' => hne g' (List.mem_cons_of_mem _ hg'))
    cases hl : lookupG (c, g) a with
    | some _ => exact h
    | none =>
      simp only
      rw [lookupG_append_other _ (hne g (by simp))]; exact h

theorem refreshStep_none (answered : String → Bool) (k : String × String) (cg : String × List String)
    (hk : cg.1 = k.1 → k.2 ∉ cg.2) (a : NState) (h : lookupG k a = none) :
    lookupG k (refreshStep answered a cg) = none := by
  unfold refreshStep
  by_cases ha : answered cg.1 = true
  · simp only [ha, if_true]
    apply lookupG_addFresh_none
    · intro g hg e
      subst e
      exact hk rfl hg
    · exact lookupG_filter_none _ h
  · simp only [ha]; exact h

theorem foldl_refreshStep_none (answered : String → Bool) (k : String × String) :
    ∀ (rest : List (String × List String)) (a : NState), (∀ cg ∈ rest, cg.1 = k.1 → k.2 ∉ cg.2) →
      lookupG k a = none → lookupG k (rest.foldl (refreshStep answered) a) = none := by
  intro rest
  induction rest with
  | nil => intro a _ h; exact h
  | cons cg rest ih =>
    intro a hk h
    simp only [List.foldl_cons]
    exact ih _ (fun cg' h' => hk cg' (List.mem_cons_of_mem _ h'))
      (refreshStep_none answered k cg (hk cg (by simp)) a h)

/-- **a refresh drops the record of every group of a cluster that storage no longer lists** -/
theorem refresh_drops_unlisted_cluster (listing : List (String × List String)) (answered : String → Bool)
    (s : NState) (k : String × String) (hc : ∀ cg ∈ listing, cg.1 ≠ k.1) :
    lookupG k (refresh listing answered s) = none := by
  rw [refresh_eq_foldl]
  apply foldl_refreshStep_none
  · intro cg hcg e; exact absurd e (hc cg hcg)
  · apply lookupG_filter_out
    intro v
    simp only [List.any_eq_false, beq_iff_eq]
    intro cg hcg; exact hc cg hcg

/-- **… and, when the cluster's consumer-list request was answered, of every group that is not in the
    answer** (that is how a deleted or expired group stops being evaluated) -/
theorem refresh_drops_unlisted_group (listing : List (String × List String)) (answered : String → Bool)
    (s : NState) (k : String × String) (gs : List String)
    (hnd : (listing.map (·.1)).Nodup) (hc : (k.1, gs) ∈ listing) (ha : answered k.1 = true) (hg : k.2 ∉ gs) :
    lookupG k (refresh listing answered s) = none := by
  rw [refresh_eq_foldl]
  generalize (s.filter fun kv => listing.any (·.1 == kv.1.1)) = s1
  induction listing generalizing s1 with
  | nil => cases hc
  | cons cg rest ih =>
    simp only [List.foldl_cons]
    simp only [List.map_cons, List.nodup_cons] at hnd
    rcases List.mem_cons.mp hc with hc | hc
    · subst hc
      apply foldl_refreshStep_none
      · intro cg' hcg' e
        exact absurd (List.mem_map.mpr ⟨cg', hcg', e⟩) hnd.1
      · unfold refreshStep
        simp only [ha, if_true]
        apply lookupG_addFresh_none
        · intro g hg' e
          have : g = k.2 := by rw [← e]
          exact hg (this ▸ hg')
        · apply lookupG_filter_out
          intro v
          simp [hg]
    · exact ih hnd.2 hc _

end Burrow.Notifier
