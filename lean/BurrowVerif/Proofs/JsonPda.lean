/-
  Lemmas about the JSON recogniser (Model/Json.lean) used for the JSON clause of C20:
  safe characters inside a string leave the automaton where it is; a complete JSON text run from a
  value position inside any context returns to that context ("stack extension").
-/
import BurrowVerif.Model.Json

namespace Burrow.Json

theorem run_append (p : PDA) (a b : List Char) : run p (a ++ b) = run (run p a) b := by
  simp [run, List.foldl_append]

theorem run_cons (p : PDA) (c : Char) (cs : List Char) : run p (c :: cs) = run (step p c) cs := rfl

theorem step_str_safe (k : Bool) (stack : List Ctx) (c : Char) (h : safeChar c = true) :
    step { st := .str k, stack } c = { st := .str k, stack } := by
  simp only [safeChar, Bool.and_eq_true, bne_iff_ne, ne_eq, decide_eq_true_eq] at h
  obtain ⟨⟨h1, h2⟩, h3⟩ := h
  have e1 : (c == '"') = false := by simpa using h1
  have e2 : (c == '\\') = false := by simpa using h2
  have e3 : ¬ c.toNat < 0x20 := by omega
  simp [step, e1, e2, e3]

/-- **inside a string, safe characters change nothing** -/
theorem run_str_safe (k : Bool) (stack : List Ctx) : ∀ (cs : List Char), safeChars cs = true →
    run { st := .str k, stack } cs = { st := .str k, stack } := by
  intro cs
  induction cs with
  | nil => intro _; rfl
  | cons c rest ih =>
    intro h
    simp only [safeChars, List.all_cons, Bool.and_eq_true] at h
    rw [run_cons, step_str_safe k stack c h.1]
    exact ih h.2

end Burrow.Json

namespace Burrow.Json

theorem afterValue_ext (st : St) (stack σ : List Ctx) (c : Char)
    (h : (afterValue ⟨st, stack⟩ c).st ≠ .fail) :
    afterValue ⟨st, stack ++ σ⟩ c =
      ⟨(afterValue ⟨st, stack⟩ c).st, (afterValue ⟨st, stack⟩ c).stack ++ σ⟩ := by
  unfold afterValue at h ⊢
  by_cases hw : isWs c = true
  · simp [hw]
  · simp only [hw] at h ⊢
    by_cases h1 : (c == ',') = true
    · simp only [h1, if_true] at h ⊢
      cases stack with
      | nil => simp at h
      | cons x rest => cases x <;> simp
    · simp only [h1] at h ⊢
      by_cases h2 : (c == ']') = true
      · simp only [h2, if_true] at h ⊢
        cases stack with
        | nil => simp at h
        | cons x rest => cases x <;> simp_all
      · simp only [h2] at h ⊢
        by_cases h3 : (c == '}') = true
        · simp only [h3, if_true] at h ⊢
          cases stack with
          | nil => simp at h
          | cons x rest => cases x <;> simp_all
        · simp [h3] at h

theorem startValue_ext (st : St) (stack σ : List Ctx) (c : Char) :
    startValue ⟨st, stack ++ σ⟩ c =
      ⟨(startValue ⟨st, stack⟩ c).st, (startValue ⟨st, stack⟩ c).stack ++ σ⟩ := by
  unfold startValue
  repeat' split
  all_goals simp_all

end Burrow.Json

namespace Burrow.Json

/-- one step in an extended context: as long as the step does not fail, the bottom of the stack
    is never looked at -/
theorem step_ext (st : St) (stack σ : List Ctx) (c : Char) (h : (step ⟨st, stack⟩ c).st ≠ .fail) :
    step ⟨st, stack ++ σ⟩ c = ⟨(step ⟨st, stack⟩ c).st, (step ⟨st, stack⟩ c).stack ++ σ⟩ := by
  cases st with
  | fail => simp [step] at h
  | value =>
    simp only [step] at h ⊢
    by_cases hw : isWs c = true
    · simp [hw]
    · simp only [hw]; exact startValue_ext _ _ _ _
  | arrFirst =>
    simp only [step] at h ⊢
    by_cases hw : isWs c = true
    · simp [hw]
    · simp only [hw] at h ⊢
      by_cases h1 : (c == ']') = true
      · simp only [h1, if_true] at h ⊢
        cases stack with
        | nil => simp at h
        | cons x rest => cases x <;> simp_all
      · simp only [h1]; exact startValue_ext _ _ _ _
  | objFirst =>
    simp only [step] at h ⊢
    by_cases hw : isWs c = true
    · simp [hw]
    · simp only [hw] at h ⊢
      by_cases h1 : (c == '}') = true
      · simp only [h1, if_true] at h ⊢
        cases stack with
        | nil => simp at h
        | cons x rest => cases x <;> simp_all
      · simp only [h1] at h ⊢
        (repeat' split) <;> simp_all
  | key => simp only [step]; (repeat' split) <;> simp_all
  | colon => simp only [step]; (repeat' split) <;> simp_all
  | after => exact afterValue_ext _ _ _ _ h
  | str k => simp only [step]; (repeat' split) <;> simp_all
  | esc k => simp only [step]; (repeat' split) <;> simp_all
  | uni k n => simp only [step]; (repeat' split) <;> simp_all
  | minus => simp only [step]; (repeat' split) <;> simp_all
  | zero =>
    simp only [step] at h ⊢
    by_cases h1 : (c == '.') = true
    · simp [h1]
    · simp only [h1] at h ⊢
      by_cases h2 : (c == 'e' || c == 'E') = true
      · simp [h2]
      · simp only [h2] at h ⊢; exact afterValue_ext _ _ _ _ h
  | int =>
    simp only [step] at h ⊢
    by_cases h0 : isDigit c = true
    · simp [h0]
    · simp only [h0] at h ⊢
      by_cases h1 : (c == '.') = true
      · simp [h1]
      · simp only [h1] at h ⊢
        by_cases h2 : (c == 'e' || c == 'E') = true
        · simp [h2]
        · simp only [h2] at h ⊢; exact afterValue_ext _ _ _ _ h
  | fracStart => simp only [step]; (repeat' split) <;> simp_all
  | frac =>
    simp only [step] at h ⊢
    by_cases h0 : isDigit c = true
    · simp [h0]
    · simp only [h0] at h ⊢
      by_cases h2 : (c == 'e' || c == 'E') = true
      · simp [h2]
      · simp only [h2] at h ⊢; exact afterValue_ext _ _ _ _ h
  | expStart => simp only [step]; (repeat' split) <;> simp_all
  | expSign => simp only [step]; (repeat' split) <;> simp_all
  | exp =>
    simp only [step] at h ⊢
    by_cases h0 : isDigit c = true
    · simp [h0]
    · simp only [h0] at h ⊢; exact afterValue_ext _ _ _ _ h
  | lit rest =>
    simp only [step] at h ⊢
    cases rest with
    | nil => exact afterValue_ext _ _ _ _ h
    | cons x more =>
      cases more with
      | nil => simp only; (repeat' split) <;> simp_all
      | cons y ys => simp only; (repeat' split) <;> simp_all

theorem step_fail (stack : List Ctx) (c : Char) : (step ⟨.fail, stack⟩ c) = ⟨.fail, stack⟩ := by simp [step]

theorem run_fail (stack : List Ctx) : ∀ cs, run ⟨.fail, stack⟩ cs = ⟨.fail, stack⟩ := by
  intro cs
  induction cs with
  | nil => rfl
  | cons c rest ih => rw [run_cons, step_fail]; exact ih

/-- **stack extension**: a run that ends without having failed proceeds identically inside any
    enclosing context -/
theorem run_ext : ∀ (cs : List Char) (st : St) (stack σ : List Ctx), (run ⟨st, stack⟩ cs).st ≠ .fail →
    run ⟨st, stack ++ σ⟩ cs = ⟨(run ⟨st, stack⟩ cs).st, (run ⟨st, stack⟩ cs).stack ++ σ⟩ := by
  intro cs
  induction cs with
  | nil => intro st stack σ _; rfl
  | cons c rest ih =>
    intro st stack σ h
    rw [run_cons] at h ⊢
    have hs : (step ⟨st, stack⟩ c).st ≠ .fail := by
      intro hf
      have : step ⟨st, stack⟩ c = ⟨.fail, (step ⟨st, stack⟩ c).stack⟩ := by
        cases hstep : step ⟨st, stack⟩ c with
        | mk st' stack' => simp [hstep] at hf; simp [hf]
      rw [this, run_fail] at h
      exact h rfl
    rw [step_ext st stack σ c hs, run_cons]
    exact ih _ _ σ h

/-- a complete JSON text whose run from an empty context ends in `after` (an object, array, string or
    literal) takes a value position inside ANY context to the `after` state of that context -/
theorem run_value_in_context (cs : List Char) (σ : List Ctx)
    (h : run {} cs = ⟨.after, []⟩) : run ⟨.value, σ⟩ cs = ⟨.after, σ⟩ := by
  have := run_ext cs .value [] σ (by rw [show (⟨.value, []⟩ : PDA) = {} from rfl, h]; simp)
  rw [show (⟨.value, []⟩ : PDA) = {} from rfl, h] at this
  simpa using this

/-! ### numbers -/

/-- the four states in which a number may end -/
def numState (st : St) : Prop := st = .zero ∨ st = .int ∨ st = .frac ∨ st = .exp

theorem afterValue_st_indep (st st' : St) (σ : List Ctx) (c : Char) :
    afterValue ⟨st, σ⟩ c = afterValue ⟨st', σ⟩ c := by
  unfold afterValue
  (repeat' split) <;> simp_all

theorem step_numEnd {st : St} {σ : List Ctx} {c : Char} (hst : numState st) (hc : isNumEnd c = true) :
    step ⟨st, σ⟩ c = afterValue ⟨.after, σ⟩ c := by
  simp only [isNumEnd, Bool.not_eq_eq_eq_not, Bool.not_true, Bool.or_eq_false_iff] at hc
  obtain ⟨⟨⟨h1, h2⟩, h3⟩, h4⟩ := hc
  rcases hst with rfl | rfl | rfl | rfl
  · simp only [step, h2, h3, h4]; simp; exact afterValue_st_indep _ _ _ _
  · simp only [step, h1, h2, h3, h4]; simp; exact afterValue_st_indep _ _ _ _
  · simp only [step, h1, h3, h4]; simp; exact afterValue_st_indep _ _ _ _
  · simp only [step, h1]; simp; exact afterValue_st_indep _ _ _ _

theorem step_value_digit (σ : List Ctx) (d : Nat) (hd : d < 10) :
    step ⟨.value, σ⟩ d.digitChar = ⟨if d = 0 then .zero else .int, σ⟩ :=
  match d, hd with
  | 0, _ => rfl | 1, _ => rfl | 2, _ => rfl | 3, _ => rfl | 4, _ => rfl
  | 5, _ => rfl | 6, _ => rfl | 7, _ => rfl | 8, _ => rfl | 9, _ => rfl
  | n + 10, h => by omega

theorem step_minus_digit (σ : List Ctx) (d : Nat) (hd : d < 10) :
    step ⟨.minus, σ⟩ d.digitChar = ⟨if d = 0 then .zero else .int, σ⟩ :=
  match d, hd with
  | 0, _ => rfl | 1, _ => rfl | 2, _ => rfl | 3, _ => rfl | 4, _ => rfl
  | 5, _ => rfl | 6, _ => rfl | 7, _ => rfl | 8, _ => rfl | 9, _ => rfl
  | n + 10, h => by omega

theorem step_int_digit (σ : List Ctx) (d : Nat) (hd : d < 10) :
    step ⟨.int, σ⟩ d.digitChar = ⟨.int, σ⟩ :=
  match d, hd with
  | 0, _ => rfl | 1, _ => rfl | 2, _ => rfl | 3, _ => rfl | 4, _ => rfl
  | 5, _ => rfl | 6, _ => rfl | 7, _ => rfl | 8, _ => rfl | 9, _ => rfl
  | n + 10, h => by omega

/-- the decimal digits of a natural number, read where a number may start, are a JSON integer
    (no leading zero) -/
theorem run_digits (s0 : St) (σ : List Ctx)
    (hstart : ∀ d, d < 10 → step ⟨s0, σ⟩ d.digitChar = ⟨if d = 0 then .zero else .int, σ⟩) (n : Nat) :
    run ⟨s0, σ⟩ (Nat.toDigits 10 n) = ⟨if n = 0 then .zero else .int, σ⟩ := by
  induction n using Nat.strongRecOn with
  | _ n ih =>
    rw [Nat.toDigits_eq_if (by decide)]
    split
    · rename_i hlt
      rw [run_cons, hstart n hlt]; rfl
    · rename_i hge
      have hq : n / 10 < n := by omega
      have hq0 : n / 10 ≠ 0 := by omega
      rw [run_append, ih (n / 10) hq, if_neg hq0, run_cons, step_int_digit σ (n % 10) (by omega), if_neg (by omega)]
      rfl

theorem run_nat_value (σ : List Ctx) (n : Nat) :
    ∃ st, numState st ∧ run ⟨.value, σ⟩ (toString n).toList = ⟨st, σ⟩ := by
  refine ⟨if n = 0 then .zero else .int, ?_, ?_⟩
  · unfold numState; split <;> simp
  · simp only [Nat.toString_eq_repr, Nat.toList_repr]
    exact run_digits .value σ (step_value_digit σ) n

theorem run_int_value (σ : List Ctx) (i : Int) :
    ∃ st, numState st ∧ run ⟨.value, σ⟩ (toString i).toList = ⟨st, σ⟩ := by
  rw [Int.toString_eq_repr, Int.repr_eq_if]
  split
  · simpa using run_nat_value σ i.toNat
  · refine ⟨if (-i).toNat = 0 then .zero else .int, ?_, ?_⟩
    · unfold numState; split <;> simp
    · simp only [String.toList_append, Nat.toList_repr]
      rw [show "-".toList = ['-'] from by decide, List.singleton_append, run_cons]
      rw [show step ⟨.value, σ⟩ '-' = ⟨.minus, σ⟩ from rfl]
      exact run_digits .minus σ (step_minus_digit σ) _

theorem isDigit_safe (c : Char) (h : c.isDigit = true) : safeChar c = true := by
  simp only [Char.isDigit, Bool.and_eq_true, decide_eq_true_eq] at h
  obtain ⟨h1, h2⟩ := h
  have h1' : 48 ≤ c.toNat := UInt32.le_iff_toNat_le.mp h1
  have h2' : c.toNat ≤ 57 := UInt32.le_iff_toNat_le.mp h2
  have e1 : c ≠ '"' := by intro e; subst e; revert h1'; decide
  have e2 : c ≠ '\\' := by intro e; subst e; revert h2'; decide
  simp only [safeChar, Bool.and_eq_true, bne_iff_ne, ne_eq, decide_eq_true_eq]
  exact ⟨⟨e1, e2⟩, by omega⟩

theorem nat_safe (n : Nat) : safeChars (toString n).toList = true := by
  simp only [Nat.toString_eq_repr, Nat.toList_repr, safeChars, List.all_eq_true]
  intro c hc
  exact isDigit_safe c (Nat.isDigit_of_mem_toDigits (by decide) (by decide) hc)

theorem int_safe (i : Int) : safeChars (toString i).toList = true := by
  rw [Int.toString_eq_repr, Int.repr_eq_if]
  split
  · simpa using nat_safe i.toNat
  · simp only [String.toList_append, safeChars, List.all_append, Bool.and_eq_true]
    exact ⟨by decide, by simpa [safeChars] using nat_safe (-i).toNat⟩

end Burrow.Json
