/-
  Proofs about the consumer module's partition consumers (`Model/Consume.lean`).  Core Lean only.
-/
import BurrowVerif.Model.Consume

namespace Burrow.Proofs.Consume
open Burrow Burrow.Decode Burrow.Consume

/-- everything one message makes the loop forward -/
def forwarded (accept : Accept) (reported : Option Bytes) (m : Msg) : List Req :=
  (reported.map fun g => Req.offset g m.topic m.partition (m.offset + 1) 0 m.offset).toList ++
    (processMessage accept m.offset m.key m.value).reqs

/-- a live consumer (no end offset) hands EVERY message to the decoder, in order, and never ends -/
theorem live_consume (accept : Accept) (reported : Option Bytes) (msgs : List (Option Msg)) :
    consume accept reported none msgs =
      ((msgs.filterMap id).flatMap (forwarded accept reported), false) := by
  induction msgs with
  | nil => rfl
  | cons x rest ih =>
    cases x with
    | none => simpa [consume] using ih
    | some m => simp [consume, handle, ih, forwarded]

/-- messages below the end offset do not end a backfill consumer -/
theorem consume_append_below (accept : Accept) (reported : Option Bytes) (e : Int)
    (pre rest : List (Option Msg)) (h : ∀ m, some m ∈ pre → m.offset < e) :
    consume accept reported (some e) (pre ++ rest) =
      (((pre.filterMap id).flatMap (forwarded accept reported)) ++ (consume accept reported (some e) rest).1,
       (consume accept reported (some e) rest).2) := by
  induction pre with
  | nil => simp
  | cons x xs ih =>
    have ih' := ih (fun m hm => h m (List.mem_cons_of_mem _ hm))
    cases x with
    | none => simpa [consume] using ih'
    | some m =>
      have hm : ¬ (m.offset ≥ e) := by have := h m (List.mem_cons_self); omega
      simp [consume, handle, hm, ih', forwarded]

/-- A backfill consumer with end offset `e` handles every message below `e`, then the first message at
    or beyond `e` — completely — and ends there: nothing after it is looked at. -/
theorem backfill_consume (accept : Accept) (reported : Option Bytes) (e : Int)
    (pre post : List (Option Msg)) (m : Msg) (h : ∀ x, some x ∈ pre → x.offset < e) (hm : m.offset ≥ e) :
    consume accept reported (some e) (pre ++ some m :: post) =
      (((pre.filterMap id).flatMap (forwarded accept reported)) ++ forwarded accept reported m, true) := by
  rw [consume_append_below accept reported e pre _ h]
  simp [consume, handle, hm, forwarded]

/-- as long as no message reaches the end offset the backfill consumer keeps going -/
theorem backfill_not_ended (accept : Accept) (reported : Option Bytes) (e : Int)
    (msgs : List (Option Msg)) (h : ∀ x, some x ∈ msgs → x.offset < e) :
    consume accept reported (some e) msgs = ((msgs.filterMap id).flatMap (forwarded accept reported), false) := by
  have := consume_append_below accept reported e msgs [] h
  simpa [consume] using this

/-- the live consumers of a start whose `ConsumePartition` calls all succeed: one per partition, in order -/
theorem startLive_all (c : Cfg) (start : Int) (ps : List Int) (h : ∀ p ∈ ps, c.failConsume ≠ (1, p)) :
    startLive c start ps =
      (ps.map fun p => { inst := 1, partition := p, startFrom := start, stopAt := none, running := true, closed := false },
       true) := by
  induction ps with
  | nil => rfl
  | cons p ps ih =>
    have hp := h p (List.mem_cons_self)
    have ih' := ih (fun q hq => h q (List.mem_cons_of_mem _ hq))
    simp [startLive, hp, ih']

end Burrow.Proofs.Consume
