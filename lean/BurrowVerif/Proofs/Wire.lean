/-
  C07 — decode after encode: the model of the Go decoder (`Model/Decode.lean`), run on the encoding of
  a well-formed message (`Spec/Wire.lean`), yields exactly the promised storage requests.

  `Runs d buf x buf'` says: from any allocation count, `d` on `buf` succeeds with `x` and leaves
  `buf'`.  It is closed under `bind`, which lets the round trips be composed field by field.
-/
import BurrowVerif.Proofs.WireBasic

namespace Burrow.Proofs.Wire
open Burrow Burrow.Decode Burrow.Spec.Wire

variable {α β : Type}

/-! ### `Runs` -/

def Runs (d : Dec α) (buf : Bytes) (x : α) (buf' : Bytes) : Prop :=
  ∀ a, ∃ a', d ⟨buf, a⟩ = .ok x ⟨buf', a'⟩

theorem Runs.pure (x : α) (b : Bytes) : Runs (pure x) b x b := fun a => ⟨a, rfl⟩

theorem Runs.bind {m : Dec α} {f : α → Dec β} {b b' b'' : Bytes} {x : α} {y : β}
    (h1 : Runs m b x b') (h2 : Runs (f x) b' y b'') : Runs (m >>= f) b y b'' := by
  intro a
  obtain ⟨a1, e1⟩ := h1 a
  obtain ⟨a2, e2⟩ := h2 a1
  exact ⟨a2, by rw [bind_ok e1]; exact e2⟩

theorem Runs.whenD_true {c : Prop} [Decidable c] {d : Dec α} {b b' : Bytes} {x : α} (hc : c)
    (h : Runs d b x b') : Runs (whenD c d) b () b' := by
  unfold whenD; rw [if_pos hc]; exact h.bind (Runs.pure _ _)

theorem Runs.whenD_false {c : Prop} [Decidable c] {d : Dec α} {b : Bytes} (hc : ¬ c) :
    Runs (whenD c d) b () b := by
  unfold whenD; rw [if_neg hc]; exact Runs.pure _ _

theorem Runs.onBuffer {d : Dec α} {data b' : Bytes} {x : α} (h : Runs d data x b') (b : Bytes) :
    Runs (onBuffer data d) b x b := by
  intro a
  obtain ⟨a1, e1⟩ := h a
  exact ⟨a1, by simp only [Decode.onBuffer, e1]⟩

theorem readI16_runs (x : Int) (rest : Bytes) (h : InRange 2 x) : Runs readI16 (encI16 x ++ rest) x rest :=
  fun a => ⟨a, readI16_enc x rest a h⟩
theorem readI32_runs (x : Int) (rest : Bytes) (h : InRange 4 x) : Runs readI32 (encI32 x ++ rest) x rest :=
  fun a => ⟨a, readI32_enc x rest a h⟩
theorem readI64_runs (x : Int) (rest : Bytes) (h : InRange 8 x) : Runs readI64 (encI64 x ++ rest) x rest :=
  fun a => ⟨a, readI64_enc x rest a h⟩
theorem readString_runs (s : Option Bytes) (rest : Bytes) (h : strOK s) :
    Runs readString (encString s ++ rest) (strVal s) rest :=
  fun a => ⟨_, readString_enc s rest a h⟩
theorem nextN_runs (bs rest : Bytes) : Runs (nextN bs.length) (bs ++ rest) bs rest :=
  fun a => ⟨a, by simp [nextN]⟩
theorem remaining_runs (b : Bytes) : Runs remaining b b.length b := fun a => ⟨a, rfl⟩
theorem allocD_runs (n : Nat) (b : Bytes) : Runs (allocD n) b () b := fun a => ⟨a + n, rfl⟩

/-! ### offset commits -/

theorem decodeOffsetKeyV0_runs (g t : Option Bytes) (p : Int) (rest : Bytes)
    (hg : strOK g) (ht : strOK t) (hp : InRange 4 p) :
    Runs decodeOffsetKeyV0 (encString g ++ (encString t ++ (encI32 p ++ rest)))
      { group := strVal g, topic := strVal t, partition := p } rest := by
  unfold decodeOffsetKeyV0
  exact (readString_runs g _ hg).bind <| (readString_runs t _ ht).bind <|
    (readI32_runs p _ hp).bind <| Runs.pure _ _

theorem decodeOffsetValueV0_runs (o ts : Int) (md : Option Bytes) (rest : Bytes)
    (ho : InRange 8 o) (hm : strOK md) (hts : InRange 8 ts) :
    Runs decodeOffsetValueV0 (encI64 o ++ (encString md ++ (encI64 ts ++ rest))) (o, ts) rest := by
  unfold decodeOffsetValueV0
  exact (readI64_runs o _ ho).bind <| (readString_runs md _ hm).bind <|
    (readI64_runs ts _ hts).bind <| Runs.pure _ _

theorem decodeOffsetValueV3_runs (o le ts : Int) (md : Option Bytes) (rest : Bytes)
    (ho : InRange 8 o) (hle : InRange 4 le) (hm : strOK md) (hts : InRange 8 ts) :
    Runs decodeOffsetValueV3 (encI64 o ++ (encI32 le ++ (encString md ++ (encI64 ts ++ rest))))
      (o, ts) rest := by
  unfold decodeOffsetValueV3
  exact (readI64_runs o _ ho).bind <| (readI32_runs le _ hle).bind <| (readString_runs md _ hm).bind <|
    (readI64_runs ts _ hts).bind <| Runs.pure _ _

theorem encValue_length_ne (m : OffsetCommit) (rest : Bytes) : (m.encValue ++ rest).length ≠ 0 := by
  simp only [OffsetCommit.encValue, List.length_append, encI16_length]
  omega

/-- the key half of an offset commit: after the key version has been read -/
theorem decodeKeyAndOffset_key (m : OffsetCommit) (hwf : m.WF) (rest₁ : Bytes) (a : Nat) :
    ∃ a', decodeOffsetKeyV0 ⟨encString m.group ++ (encString m.topic ++ (encI32 m.partition ++ rest₁)), a⟩
      = .ok { group := strVal m.group, topic := strVal m.topic, partition := m.partition } ⟨rest₁, a'⟩ := by
  obtain ⟨_, _, hg, ht, _, hp, _⟩ := hwf
  exact decodeOffsetKeyV0_runs _ _ _ _ hg ht hp a

theorem offset_commit_roundtrip (m : OffsetCommit) (hwf : m.WF) (accept : Accept)
    (hacc : accept (strVal m.group) = true) (order : Int) (rest₁ rest₂ : Bytes) :
    (processMessage accept order (m.encKey ++ rest₁) (m.encValue ++ rest₂)).reqs
        = [.offset (strVal m.group) (strVal m.topic) m.partition m.offset m.timestamp order] ∧
      (processMessage accept order (m.encKey ++ rest₁) (m.encValue ++ rest₂)).panicked = false := by
  obtain ⟨ak, ek⟩ := decodeKeyAndOffset_key m hwf rest₁ 0
  have hne := encValue_length_ne m rest₂
  obtain ⟨hkv, hvv, hg, ht, hm, hp, ho, hle, hts⟩ := hwf
  have e1 := readI16_enc m.keyVersion
    (encString m.group ++ (encString m.topic ++ (encI32 m.partition ++ rest₁))) 0 (inRange2_of_01 hkv)
  simp only [processMessage, OffsetCommit.encKey, List.append_assoc, e1, hkv, if_true,
    decodeKeyAndOffset, ek, hacc, Bool.not_true, Bool.false_eq_true, if_false, hne]
  have e2 : ∀ r, readI16 ⟨encI16 m.valueVersion ++ r, ak⟩ = .ok m.valueVersion ⟨r, ak⟩ :=
    fun r => readI16_enc _ _ _ (inRange2_of_013 hvv)
  simp only [OffsetCommit.encValue, List.append_assoc, e2]
  rcases hvv with hv | hv | hv
  · obtain ⟨av, ev⟩ := decodeOffsetValueV0_runs m.offset m.timestamp m.metadata rest₂ ho hm hts ak
    simp [hv, ev]
  · obtain ⟨av, ev⟩ := decodeOffsetValueV0_runs m.offset m.timestamp m.metadata rest₂ ho hm hts ak
    simp [hv, ev]
  · obtain ⟨av, ev⟩ := decodeOffsetValueV3_runs m.offset m.leaderEpoch m.timestamp m.metadata rest₂ ho hle hm hts ak
    simp [hv, ev]

theorem offset_tombstone_nothing (m : OffsetCommit) (hwf : m.WF) (accept : Accept) (order : Int)
    (rest₁ : Bytes) :
    (processMessage accept order (m.encKey ++ rest₁) []).reqs = [] := by
  obtain ⟨ak, ek⟩ := decodeKeyAndOffset_key m hwf rest₁ 0
  obtain ⟨hkv, _⟩ := hwf
  have e1 := readI16_enc m.keyVersion
    (encString m.group ++ (encString m.topic ++ (encI32 m.partition ++ rest₁))) 0 (inRange2_of_01 hkv)
  simp only [processMessage, OffsetCommit.encKey, List.append_assoc, e1, hkv, if_true,
    decodeKeyAndOffset, ek]
  cases accept (strVal m.group) <;> simp

/-! ### group metadata: header -/

theorem Runs.whenD_opt {c : Prop} [Decidable c] {d : Dec α} {enc rest : Bytes} {x : α}
    (h : Runs d (enc ++ rest) x rest) : Runs (whenD c d) ((if c then enc else []) ++ rest) () rest := by
  by_cases hc : c
  · rw [if_pos hc]; exact Runs.whenD_true hc h
  · rw [if_neg hc]; exact Runs.whenD_false hc

theorem Runs.whenD_nextN (bs rest : Bytes) :
    Runs (whenD ((bs.length : Int) > 0) (nextN (bs.length : Int).toNat)) (bs ++ rest) () rest := by
  rw [Int.toNat_natCast]
  cases bs with
  | nil => exact Runs.whenD_false (by simp)
  | cons b bs => exact Runs.whenD_true (by simp only [List.length_cons]; omega) (nextN_runs _ _)

theorem decodeMetadataHeader_runs (m : GroupMetadata) (hwf : m.WF) (rest : Bytes) :
    Runs (decodeMetadataHeader (decide (m.version = 2 ∨ m.version = 3)))
      (encString m.protocolType ++ (encI32 m.generation ++ (encString m.protocol ++ (encString m.leader ++
        ((if m.version ≥ 2 then encI64 m.stateTimestamp else []) ++ rest)))))
      (strVal m.protocolType) rest := by
  obtain ⟨hv, hg, hpt, hp, hl, hgen, hst, _, _⟩ := hwf
  rw [decodeMetadataHeader_eq]
  refine (readString_runs _ _ hpt).bind <| (readI32_runs _ _ hgen).bind <| (readString_runs _ _ hp).bind <|
    (readString_runs _ _ hl).bind <| Runs.bind (x := ()) ?_ (Runs.pure _ _)
  by_cases h2 : m.version ≥ 2
  · rw [if_pos h2]
    exact Runs.whenD_true (by simp only [decide_eq_true_eq]; omega) (readI64_runs _ _ hst)
  · rw [if_neg h2]
    exact Runs.whenD_false (by simp only [decide_eq_true_eq]; omega)

/-! ### group metadata: member assignment -/

def encTopic (tp : Option Bytes × List Int) : Bytes :=
  encString tp.1 ++ encI32 tp.2.length ++ tp.2.flatMap encI32

def decTopic (tp : Option Bytes × List Int) : Bytes × List Int := (strVal tp.1, tp.2)

theorem assignment_enc_eq (a : Assignment) : a.enc =
    encI16 a.version ++ (encI32 a.topics.length ++ (a.topics.flatMap encTopic ++
      (match a.userData with | none => encI32 (-1) | some d => encBytes d))) := by
  have : a.enc = encI16 a.version ++ encI32 a.topics.length ++ a.topics.flatMap encTopic ++
      (match a.userData with | none => encI32 (-1) | some d => encBytes d) := rfl
  rw [this]
  simp only [List.append_assoc]

theorem flatMap_encI32_length (ps : List Int) : (ps.flatMap encI32).length = 4 * ps.length := by
  induction ps with
  | nil => rfl
  | cons p ps ih => simp only [List.flatMap_cons, List.length_append, encI32_length, ih, List.length_cons]; omega

theorem topics_length_le (ts : List (Option Bytes × List Int)) : ts.length ≤ (ts.flatMap encTopic).length := by
  induction ts with
  | nil => simp
  | cons tp ts ih =>
    simp only [List.flatMap_cons, List.length_append, encTopic, encI32_length, List.length_cons]; omega

theorem mapSet_append (name : Bytes) (ps : List Int) (acc : List (Bytes × List Int))
    (h : name ∉ acc.map Prod.fst) : mapSet name ps acc = acc ++ [(name, ps)] := by
  induction acc with
  | nil => rfl
  | cons x acc ih =>
    obtain ⟨n, q⟩ := x
    simp only [List.map_cons, List.mem_cons, not_or] at h
    simp only [mapSet, List.cons_append]
    rw [if_neg (fun e => h.1 e.symm), ih h.2]

theorem readPartitions_runs (ps : List Int) (h : ∀ p ∈ ps, InRange 4 p) (rest : Bytes) :
    Runs (readPartitions ps.length) (ps.flatMap encI32 ++ rest) ps rest := by
  induction ps with
  | nil => exact Runs.pure _ _
  | cons p ps ih =>
    simp only [List.length_cons, List.flatMap_cons, List.append_assoc, readPartitions_succ]
    exact (readI32_runs p _ (h p List.mem_cons_self)).bind <|
      (ih fun q hq => h q (List.mem_cons_of_mem _ hq)).bind <| Runs.pure _ _

theorem readTopics_runs (ts : List (Option Bytes × List Int)) (acc : List (Bytes × List Int))
    (hwf : ∀ tp ∈ ts, strOK tp.1 ∧ tp.2.length < 2 ^ 31 ∧ ∀ p ∈ tp.2, InRange 4 p)
    (hfresh : ∀ tp ∈ ts, strVal tp.1 ∉ acc.map Prod.fst)
    (hnd : (ts.map fun tp => strVal tp.1).Nodup) (rest : Bytes) :
    Runs (readTopics ts.length acc) (ts.flatMap encTopic ++ rest) (acc ++ ts.map decTopic) rest := by
  induction ts generalizing acc with
  | nil =>
    simp only [List.map_nil, List.append_nil, List.flatMap_nil, List.nil_append, List.length_nil]
    exact Runs.pure acc rest
  | cons tp ts ih =>
    obtain ⟨hs, hl, hps⟩ := hwf tp List.mem_cons_self
    simp only [List.length_cons, List.flatMap_cons, encTopic, List.append_assoc, readTopics_succ]
    refine (readString_runs _ _ hs).bind <| (readI32_runs _ _ (inRange4_of_nat _ hl)).bind ?_
    rw [if_neg (by omega), Int.toNat_natCast]
    refine (remaining_runs _).bind <| (allocD_runs _ _).bind <| (readPartitions_runs _ hps _).bind ?_
    rw [mapSet_append _ _ _ (hfresh tp List.mem_cons_self)]
    rw [List.map_cons, List.nodup_cons] at hnd
    have := ih (acc ++ [(strVal tp.1, tp.2)]) (fun q hq => hwf q (List.mem_cons_of_mem _ hq))
      (by
        intro q hq
        simp only [List.map_append, List.map_cons, List.map_nil, List.mem_append, List.mem_singleton, not_or]
        refine ⟨hfresh q (List.mem_cons_of_mem _ hq), fun e => hnd.1 ?_⟩
        rw [← e]
        exact List.mem_map.mpr ⟨q, hq, rfl⟩)
      hnd.2
    simpa [decTopic] using this

theorem decodeMemberAssignmentV0_runs (a : Assignment) (hwf : a.WF) (rest : Bytes) :
    Runs decodeMemberAssignmentV0
      (encI32 a.topics.length ++ (a.topics.flatMap encTopic ++
        ((match a.userData with | none => encI32 (-1) | some d => encBytes d) ++ rest)))
      (a.topics.map decTopic) rest := by
  obtain ⟨_, _, hlen, htp, hnd, hud, _⟩ := hwf
  rw [decodeMemberAssignmentV0_eq]
  refine (readI32_runs _ _ (inRange4_of_nat _ hlen)).bind <| (remaining_runs _).bind <|
    (allocD_runs _ _).bind ?_
  rw [Int.toNat_natCast]
  refine (readTopics_runs a.topics [] htp (fun _ _ => by simp) hnd _).bind ?_
  rw [List.nil_append]
  cases hu : a.userData with
  | none =>
    refine (readI32_runs (-1) _ (by unfold InRange; decide)).bind <|
      Runs.bind (x := ()) (Runs.whenD_false (by decide)) (Runs.pure _ _)
  | some d =>
    rw [hu] at hud
    simp only [encBytes, List.append_assoc]
    exact (readI32_runs _ _ (inRange4_of_nat _ hud)).bind <|
      Runs.bind (x := ()) (Runs.whenD_nextN d rest) (Runs.pure _ _)

theorem assignmentD_runs (a : Assignment) (hwf : a.WF) (rest : Bytes) :
    Runs assignmentD (a.enc ++ rest) (a.topics.map decTopic) rest := by
  have hv : InRange 2 a.version := by
    obtain ⟨h0, h1, _⟩ := hwf
    unfold InRange
    simp only [Nat.reduceMul, Nat.reduceSub, Int.reducePow] at *
    omega
  have hn : ¬ a.version < 0 := by have := hwf.1; omega
  rw [assignment_enc_eq, assignmentD]
  simp only [List.append_assoc]
  refine (readI16_runs _ _ hv).bind ?_
  rw [if_neg hn]
  exact decodeMemberAssignmentV0_runs a hwf rest

/-! ### group metadata: members -/

def decMember (mm : MemberMsg) : Member :=
  { clientID := strVal mm.clientID, host := strVal mm.clientHost,
    assignment := match mm.assignment with | none => [] | some a => a.topics.map decTopic }

theorem assignment_enc_length_pos (a : Assignment) : 0 < a.enc.length := by
  rw [assignment_enc_eq]; simp only [List.length_append, encI16_length]; omega

theorem decodeMetadataMember_runs (version : Int) (mm : MemberMsg) (hwf : mm.WF) (rest : Bytes) :
    Runs (decodeMetadataMember version) (mm.enc version ++ rest) (decMember mm) rest := by
  obtain ⟨hmid, hgi, hcid, hch, hrt, hst, hsub, hasg⟩ := hwf
  rw [decodeMetadataMember_eq]
  simp only [MemberMsg.enc, encBytes, List.append_assoc]
  refine (readString_runs _ _ hmid).bind <|
    Runs.bind (x := ()) (Runs.whenD_opt (readString_runs _ _ hgi)) <|
    (readString_runs _ _ hcid).bind <| (readString_runs _ _ hch).bind <|
    Runs.bind (x := ()) (Runs.whenD_opt (readI32_runs _ _ hrt)) <|
    (readI32_runs _ _ hst).bind <| (readI32_runs _ _ (inRange4_of_nat _ hsub)).bind <|
    Runs.bind (x := ()) (Runs.whenD_nextN _ _) ?_
  unfold decMember
  cases hA : mm.assignment with
  | none =>
    refine (readI32_runs 0 _ (by unfold InRange; decide)).bind ?_
    rw [if_neg (by decide)]
    exact Runs.pure _ _
  | some a =>
    rw [hA] at hasg
    have hpos := assignment_enc_length_pos a
    simp only [List.append_assoc]
    refine (readI32_runs _ _ (inRange4_of_nat _ hasg.2.2.2.2.2.2)).bind ?_
    rw [if_pos (by omega), Int.toNat_natCast]
    refine (nextN_runs _ _).bind <| Runs.bind ?_ (Runs.pure _ _)
    have := assignmentD_runs a hasg []
    rw [List.append_nil] at this
    exact this.onBuffer rest

theorem ownerReqs_decMember (group : Bytes) (mm : MemberMsg) :
    ownerReqs group (decMember mm) = mm.owners group := by
  unfold ownerReqs decMember MemberMsg.owners
  cases mm.assignment with
  | none => rfl
  | some a =>
    simp only [List.flatMap_map]
    rfl

theorem member_enc_length_pos (version : Int) (mm : MemberMsg) : 0 < (mm.enc version).length := by
  simp only [MemberMsg.enc, List.length_append, encString_length]; omega

theorem members_length_le (version : Int) (ms : List MemberMsg) :
    ms.length ≤ (ms.flatMap (MemberMsg.enc version)).length := by
  induction ms with
  | nil => simp
  | cons mm ms ih =>
    have := member_enc_length_pos version mm
    simp only [List.flatMap_cons, List.length_append, List.length_cons]; omega

theorem membersLoop_enc (version : Int) (group : Bytes) (ms : List MemberMsg) (hwf : ∀ mm ∈ ms, mm.WF)
    (rest : Bytes) (a : Nat) (acc : List Req) :
    ∃ a', membersLoop version group ms.length ⟨ms.flatMap (MemberMsg.enc version) ++ rest, a⟩ acc
      = (acc ++ ms.flatMap (MemberMsg.owners group), .ok () ⟨rest, a'⟩) := by
  induction ms generalizing a acc with
  | nil => exact ⟨a, by simp [membersLoop]⟩
  | cons mm ms ih =>
    obtain ⟨a1, e1⟩ := decodeMetadataMember_runs version mm (hwf mm List.mem_cons_self)
      (ms.flatMap (MemberMsg.enc version) ++ rest) a
    simp only [List.length_cons, List.flatMap_cons, List.append_assoc, membersLoop, e1,
      ownerReqs_decMember]
    rw [← List.append_assoc]
    exact ih (fun q hq => hwf q (List.mem_cons_of_mem _ hq)) _ _

/-! ### group metadata: top level -/

theorem strVal_some (b : Bytes) : strVal (some b) = b := rfl

theorem processMessage_metadata_key (accept : Accept) (order : Int) (keyRest value : Bytes) :
    processMessage accept order (encI16 2 ++ keyRest) value = decodeGroupMetadata accept keyRest value := by
  simp [processMessage, readI16_enc 2 keyRest 0 (by unfold InRange; decide)]

theorem metadata_encValue_ne (m : GroupMetadata) (rest : Bytes) : (m.encValue ++ rest).length ≠ 0 := by
  simp only [GroupMetadata.encValue, List.length_append, encI16_length]
  omega

/-- bytes of a group-metadata value after the version field -/
def encBody (m : GroupMetadata) (rest : Bytes) : Bytes :=
  encString m.protocolType ++ (encI32 m.generation ++ (encString m.protocol ++ (encString m.leader ++
    ((if m.version ≥ 2 then encI64 m.stateTimestamp else []) ++
      (encI32 m.members.length ++ (m.members.flatMap (MemberMsg.enc m.version) ++ rest))))))

theorem encValue_append (m : GroupMetadata) (rest : Bytes) :
    m.encValue ++ rest = encI16 m.version ++ encBody m rest := by
  simp only [GroupMetadata.encValue, encBody, List.append_assoc]

/-- key and value version of a well-formed, accepted group-metadata message -/
theorem processMessage_metadata (m : GroupMetadata) (hwf : m.WF) (accept : Accept)
    (hacc : accept (strVal m.group) = true) (order : Int) (rest₁ rest₂ : Bytes) :
    ∃ a, processMessage accept order (m.encKey ++ rest₁) (m.encValue ++ rest₂)
      = decodeAndSendGroupMetadata m.version (strVal m.group) ⟨encBody m rest₂, a⟩ := by
  have hne := metadata_encValue_ne m rest₂
  obtain ⟨hv, hg, _⟩ := hwf
  refine ⟨0 + 2 * (strVal m.group).length, ?_⟩
  rw [GroupMetadata.encKey, List.append_assoc, processMessage_metadata_key]
  simp only [decodeGroupMetadata, readString_enc _ _ _ hg, hacc, Bool.not_true, Bool.false_eq_true,
    if_false, hne]
  rw [encValue_append, readI16_enc _ _ _ (inRange2_of_0123 hv)]
  simp only [hv, if_true]

theorem metadata_roundtrip (m : GroupMetadata) (hwf : m.WF) (accept : Accept)
    (hacc : accept (strVal m.group) = true) (order : Int) (rest₁ rest₂ : Bytes)
    (hpt : m.protocolType = some consumerBytes) (hne : m.members ≠ []) :
    (processMessage accept order (m.encKey ++ rest₁) (m.encValue ++ rest₂)).reqs
        = m.members.flatMap (MemberMsg.owners (strVal m.group)) ∧
      (processMessage accept order (m.encKey ++ rest₁) (m.encValue ++ rest₂)).panicked = false := by
  obtain ⟨a, e⟩ := processMessage_metadata m hwf accept hacc order rest₁ rest₂
  rw [e]
  obtain ⟨a1, e1⟩ := decodeMetadataHeader_runs m hwf
    (encI32 m.members.length ++ (m.members.flatMap (MemberMsg.enc m.version) ++ rest₂)) a
  have hlen : m.members.length < 2 ^ 31 := hwf.2.2.2.2.2.2.2.1
  have hmem : ∀ mm ∈ m.members, mm.WF := hwf.2.2.2.2.2.2.2.2
  have hpos : 0 < m.members.length := List.length_pos_iff.mpr hne
  have hc0 : ¬ ((m.members.length : Int) = 0) := by omega
  have hmin : min m.members.length
      ((m.members.flatMap (MemberMsg.enc m.version) ++ rest₂).length + 1) = m.members.length := by
    have := members_length_le m.version m.members
    rw [List.length_append]; omega
  obtain ⟨a2, e2⟩ := membersLoop_enc m.version (strVal m.group) m.members hmem rest₂ a1 []
  have hsv : strVal m.protocolType = consumerBytes := by rw [hpt, strVal_some]
  simp only [decodeAndSendGroupMetadata, encBody, e1]
  simp only [hsv, ne_eq, not_true_eq_false, if_false, readI32_enc _ _ _ (inRange4_of_nat _ hlen), hc0,
    Int.toNat_natCast, hmin]
  rw [e2]
  simp

theorem empty_members_clear (m : GroupMetadata) (hwf : m.WF) (accept : Accept)
    (hacc : accept (strVal m.group) = true) (order : Int) (rest₁ rest₂ : Bytes)
    (hpt : m.protocolType = some consumerBytes) (hnil : m.members = []) :
    (processMessage accept order (m.encKey ++ rest₁) (m.encValue ++ rest₂)).reqs
      = [.clear (strVal m.group)] := by
  obtain ⟨a, e⟩ := processMessage_metadata m hwf accept hacc order rest₁ rest₂
  rw [e]
  obtain ⟨a1, e1⟩ := decodeMetadataHeader_runs m hwf
    (encI32 m.members.length ++ (m.members.flatMap (MemberMsg.enc m.version) ++ rest₂)) a
  have hsv : strVal m.protocolType = consumerBytes := by rw [hpt, strVal_some]
  simp only [decodeAndSendGroupMetadata, encBody, e1]
  simp only [hsv, ne_eq, not_true_eq_false, if_false]
  have h0 : InRange 4 0 := by unfold InRange; decide
  rw [hnil]
  simp only [List.length_nil, Int.natCast_zero, readI32_enc 0 _ _ h0, if_true]

theorem metadata_tombstone_deletes (group : Option Bytes) (hg : strOK group) (accept : Accept)
    (hacc : accept (strVal group) = true) (order : Int) (rest₁ : Bytes) :
    (processMessage accept order (encI16 2 ++ encString group ++ rest₁) []).reqs
      = [.deleteGroup (strVal group)] := by
  rw [List.append_assoc, processMessage_metadata_key]
  simp [decodeGroupMetadata, readString_enc _ _ _ hg, hacc]

theorem other_protocol_nothing (m : GroupMetadata) (hwf : m.WF) (accept : Accept) (order : Int)
    (rest₁ rest₂ : Bytes) (hpt : strVal m.protocolType ≠ consumerBytes) :
    (processMessage accept order (m.encKey ++ rest₁) (m.encValue ++ rest₂)).reqs = [] := by
  cases hacc : accept (strVal m.group) with
  | false =>
    rw [GroupMetadata.encKey, List.append_assoc, processMessage_metadata_key]
    simp [decodeGroupMetadata, readString_enc _ _ _ hwf.2.1, hacc]
  | true =>
    obtain ⟨a, e⟩ := processMessage_metadata m hwf accept hacc order rest₁ rest₂
    rw [e]
    obtain ⟨a1, e1⟩ := decodeMetadataHeader_runs m hwf
      (encI32 m.members.length ++ (m.members.flatMap (MemberMsg.enc m.version) ++ rest₂)) a
    simp only [decodeAndSendGroupMetadata, encBody, e1, ne_eq, hpt, not_false_eq_true, if_true]

end Burrow.Proofs.Wire
