/-
  A JSON well-formedness recogniser (RFC 8259 / Go's `json.Valid`) as a pushdown automaton over
  characters: one `step` per character, an explicit stack of open containers.  Core Lean only.

  Used (a) by the driver to judge the model's rendering of the HTTP and Slack templates, validated
  differentially against `json.Valid` on the real rendering, and (b) by `Props/C20.lean`: the
  automaton's state after a prefix is what the substitution lemmas talk about.
-/
namespace Burrow.Json

inductive Ctx where
  | arr | obj
  deriving DecidableEq, Repr, Inhabited

inductive St where
  /-- a value must start here (after `:`, after `,` in an array, at top level) -/
  | value
  /-- just after `[`: a value or `]` -/
  | arrFirst
  /-- just after `{`: a key or `}` -/
  | objFirst
  /-- after `,` in an object: a key -/
  | key
  /-- after a key: `:` -/
  | colon
  /-- a value is complete: `,`, a closing bracket matching the stack, or the end -/
  | after
  /-- inside a string (`isKey`: it is an object key) -/
  | str (isKey : Bool)
  | esc (isKey : Bool)
  /-- inside `\uXXXX`, `n` hex digits still to come -/
  | uni (isKey : Bool) (n : Nat)
  /-- number states -/
  | minus | zero | int | fracStart | frac | expStart | expSign | exp
  /-- inside `true` / `false` / `null`: the characters still expected -/
  | lit (rest : List Char)
  | fail
  deriving DecidableEq, Repr, Inhabited

structure PDA where
  st    : St := .value
  stack : List Ctx := []
  deriving DecidableEq, Repr, Inhabited

def isWs (c : Char) : Bool := c == ' ' || c == '\t' || c == '\n' || c == '\r'
def isDigit (c : Char) : Bool := '0' ≤ c && c ≤ '9'
def isDigit19 (c : Char) : Bool := '1' ≤ c && c ≤ '9'
def isHex (c : Char) : Bool := isDigit c || ('a' ≤ c && c ≤ 'f') || ('A' ≤ c && c ≤ 'F')

/-- the state after a complete string -/
def afterStr (isKey : Bool) : St := if isKey then .colon else .after

/-- a character where a value may start -/
def startValue (p : PDA) (c : Char) : PDA :=
  if c == '"' then { p with st := .str false }
  else if c == '{' then { st := .objFirst, stack := .obj :: p.stack }
  else if c == '[' then { st := .arrFirst, stack := .arr :: p.stack }
  else if c == '-' then { p with st := .minus }
  else if c == '0' then { p with st := .zero }
  else if isDigit19 c then { p with st := .int }
  else if c == 't' then { p with st := .lit ['r', 'u', 'e'] }
  else if c == 'f' then { p with st := .lit ['a', 'l', 's', 'e'] }
  else if c == 'n' then { p with st := .lit ['u', 'l', 'l'] }
  else { p with st := .fail }

/-- a character after a complete value -/
def afterValue (p : PDA) (c : Char) : PDA :=
  if isWs c then { p with st := .after }
  else if c == ',' then
    (match p.stack with
     | .arr :: _ => { p with st := .value }
     | .obj :: _ => { p with st := .key }
     | [] => { p with st := .fail })
  else if c == ']' then
    (match p.stack with
     | .arr :: rest => { st := .after, stack := rest }
     | _ => { p with st := .fail })
  else if c == '}' then
    (match p.stack with
     | .obj :: rest => { st := .after, stack := rest }
     | _ => { p with st := .fail })
  else { p with st := .fail }

def step (p : PDA) (c : Char) : PDA :=
  match p.st with
  | .fail => p
  | .value => if isWs c then p else startValue p c
  | .arrFirst =>
    if isWs c then p
    else if c == ']' then
      (match p.stack with
       | .arr :: rest => { st := .after, stack := rest }
       | _ => { p with st := .fail })
    else startValue p c
  | .objFirst =>
    if isWs c then p
    else if c == '}' then
      (match p.stack with
       | .obj :: rest => { st := .after, stack := rest }
       | _ => { p with st := .fail })
    else if c == '"' then { p with st := .str true }
    else { p with st := .fail }
  | .key =>
    if isWs c then p
    else if c == '"' then { p with st := .str true }
    else { p with st := .fail }
  | .colon =>
    if isWs c then p
    else if c == ':' then { p with st := .value }
    else { p with st := .fail }
  | .after => afterValue p c
  | .str k =>
    if c == '"' then { p with st := afterStr k }
    else if c == '\\' then { p with st := .esc k }
    else if c.toNat < 0x20 then { p with st := .fail }
    else p
  | .esc k =>
    if c == '"' || c == '\\' || c == '/' || c == 'b' || c == 'f' || c == 'n' || c == 'r' || c == 't' then { p with st := .str k }
    else if c == 'u' then { p with st := .uni k 4 }
    else { p with st := .fail }
  | .uni k n =>
    if isHex c then (if n ≤ 1 then { p with st := .str k } else { p with st := .uni k (n - 1) })
    else { p with st := .fail }
  | .minus =>
    if c == '0' then { p with st := .zero }
    else if isDigit19 c then { p with st := .int }
    else { p with st := .fail }
  | .zero =>
    if c == '.' then { p with st := .fracStart }
    else if c == 'e' || c == 'E' then { p with st := .expStart }
    else afterValue p c
  | .int =>
    if isDigit c then p
    else if c == '.' then { p with st := .fracStart }
    else if c == 'e' || c == 'E' then { p with st := .expStart }
    else afterValue p c
  | .fracStart => if isDigit c then { p with st := .frac } else { p with st := .fail }
  | .frac =>
    if isDigit c then p
    else if c == 'e' || c == 'E' then { p with st := .expStart }
    else afterValue p c
  | .expStart =>
    if c == '+' || c == '-' then { p with st := .expSign }
    else if isDigit c then { p with st := .exp }
    else { p with st := .fail }
  | .expSign => if isDigit c then { p with st := .exp } else { p with st := .fail }
  | .exp => if isDigit c then p else afterValue p c
  | .lit rest =>
    match rest with
    | [] => afterValue p c
    | [x] => if c == x then { p with st := .after } else { p with st := .fail }
    | x :: more => if c == x then { p with st := .lit more } else { p with st := .fail }

def run (p : PDA) (cs : List Char) : PDA := cs.foldl step p

/-- accepting configurations: a complete top-level value (numbers end at the end of input) -/
def accepting (p : PDA) : Bool :=
  p.stack.isEmpty &&
  match p.st with
  | .after | .zero | .int | .frac | .exp => true
  | _ => false

def validChars (cs : List Char) : Bool := accepting (run {} cs)

def valid (s : String) : Bool := validChars s.toList

/-- a character that can stand inside a JSON string as it is -/
def safeChar (c : Char) : Bool := c != '"' && c != '\\' && decide (c.toNat ≥ 0x20)

def safeChars (cs : List Char) : Bool := cs.all safeChar

/-- a character that cannot continue a number -/
def isNumEnd (c : Char) : Bool := !(isDigit c || c == '.' || c == 'e' || c == 'E')

end Burrow.Json
