/-
  Model of core/internal/storage/inmemory.go — the twelve request handlers, run sequentially.
  Same branches in the same order as the Go code; Go maps are association lists (insertion order
  kept, every observer sorts or is order-insensitive); run-time panics are explicit outcomes.
-/
import BurrowVerif.Model.Basic
import BurrowVerif.Model.Ring
import BurrowVerif.Model.Eval

namespace Burrow.Storage
open Burrow

/-! ### association lists (Go maps) -/

def alookup {β : Type} (k : String) : List (String × β) → Option β
  | [] => none
  | (k', v) :: rest => if k' = k then some v else alookup k rest

def ainsert {β : Type} (k : String) (v : β) : List (String × β) → List (String × β)
  | [] => [(k, v)]
  | (k', v') :: rest => if k' = k then (k, v) :: rest else (k', v') :: ainsert k v rest

def aerase {β : Type} (k : String) : List (String × β) → List (String × β)
  | [] => []
  | (k', v') :: rest => if k' = k then rest else (k', v') :: aerase k rest

def akeys {β : Type} (l : List (String × β)) : List String := l.map (·.1)

/-! ### state -/

structure BrokerOffset where
  offset : Int
  ts     : Int
  deriving Repr, DecidableEq, Inhabited

/-- `consumerPartition`; `ring = none` is Go's `offsets == nil` -/
structure CPartition where
  ring     : Option (Ring Commit)
  owner    : String
  clientID : String
  deriving Repr, DecidableEq, Inhabited

structure Group where
  topics     : List (String × List CPartition)
  lastCommit : Int
  deriving Repr, DecidableEq, Inhabited

structure Cluster where
  broker   : List (String × List (Ring BrokerOffset))
  consumer : List (String × Group)
  deriving Repr, DecidableEq, Inhabited

structure Config where
  intervals   : Nat
  expireGroup : Int
  minDistance : Int
  allowSet    : Bool     -- a group allowlist is configured
  denySet     : Bool     -- a group denylist is configured
  deriving Repr, DecidableEq, Inhabited

structure Store where
  cfg      : Config
  clusters : List (String × Cluster)
  deriving Repr, DecidableEq, Inhabited

def Store.init (cfg : Config) (clusters : List String) : Store :=
  { cfg, clusters := clusters.foldl (fun acc c => ainsert c { broker := [], consumer := [] } acc) [] }

/-- a storage request (the fields of `protocol.StorageRequest` the handlers read) -/
structure Request where
  cluster : String := ""
  group   : String := ""
  topic   : String := ""
  partition : Int := 0
  topicPartitionCount : Int := 0
  offset  : Int := 0
  order   : Int := 0
  ts      : Int := 0
  owner   : String := ""
  clientID : String := ""
  /-- oracle bits: does the configured allowlist / denylist regexp match `group`? -/
  allowMatch : Bool := true
  denyMatch  : Bool := false
  deriving Repr, DecidableEq, Inhabited

/-- inmemory.go:370 `acceptConsumerGroup` -/
def accept (cfg : Config) (r : Request) : Bool :=
  if cfg.allowSet && !r.allowMatch then false
  else if cfg.denySet && r.denyMatch then false
  else true

/-! ### broker side -/

/-- grow `l` with fresh rings up to length `count` (inmemory.go:290-295) -/
def growBroker (intervals : Nat) (l : List (Ring BrokerOffset)) (count : Nat) : List (Ring BrokerOffset) :=
  l ++ List.replicate (count - l.length) (Ring.new intervals)

inductive Outcome where
  | ok | panic
  deriving Repr, DecidableEq, Inhabited

/-- inmemory.go:274 `addBrokerOffset` -/
def addBrokerOffset (s : Store) (r : Request) : Store × Outcome :=
  match alookup r.cluster s.clusters with
  | none => (s, .ok)
  | some cm =>
    -- `make([]*ring.Ring, 0, count)` panics on a negative capacity
    let existing := alookup r.topic cm.broker
    if existing.isNone ∧ r.topicPartitionCount < 0 then (s, .panic) else
    let topicList := existing.getD []
    let topicList := if r.topicPartitionCount ≥ topicList.length
                     then growBroker s.cfg.intervals topicList r.topicPartitionCount.toNat else topicList
    if r.partition < 0 ∨ r.partition ≥ topicList.length then
      -- index out of range; a freshly made (empty) slice is already in the map
      let cm' := if existing.isNone then { cm with broker := ainsert r.topic [] cm.broker } else cm
      ({ s with clusters := ainsert r.cluster cm' s.clusters }, .panic)
    else
      let p := r.partition.toNat
      match topicList[p]? with
      | none => (s, .panic)
      | some ring =>
        if ring.len = 0 then (s, .panic) else     -- ring.New(0) is nil: nil dereference
        let ring := (ring.advance 1).set 0 (some { offset := r.offset, ts := r.ts })
        let cm' := { cm with broker := ainsert r.topic (topicList.set p ring) cm.broker }
        ({ s with clusters := ainsert r.cluster cm' s.clusters }, .ok)

/-- inmemory.go:317 `getBrokerOffset`: (offset, partition count); count 0 = "skip" -/
def getBrokerOffset (cm : Cluster) (topic : String) (partition : Int) : Int × Nat :=
  match alookup topic cm.broker with
  | none => (0, 0)
  | some l =>
    if partition < 0 then (0, 0)
    else if partition ≥ l.length then (0, 0)
    else match l[partition.toNat]? with
      | none => (0, 0)
      | some ring =>
        match ring.get 0 with
        | none => (0, 0)
        | some b => (b.offset, l.length)

/-! ### the consumer offset ring (C02) -/

inductive Dest where
  /-- only `extendDest` set -/
  | append
  /-- only `insertDest` set: overwrite the slot `slot` steps after the pointer -/
  | replace (slot : Nat)
  /-- both set: insert at `slot`, shifting everything from there up to the newest one step forward -/
  | shift (slot : Nat)
  deriving Repr, DecidableEq, Inhabited

def Dest.slot : Dest → Nat
  | .append => 0
  | .replace s => s
  | .shift s => s

/-- the search loop of `findConsumerOffsetDestination` (inmemory.go:465-489); `destSlot` is `k` steps
    before the ring pointer.  Outer `none`: fuel exhausted (proved unreachable with fuel = len). -/
def searchDest (r : Ring Commit) (order : Int) : Nat → Nat → Option (Option Dest)
  | 0, _ => none
  | fuel + 1, k =>
    let prevSlot := r.back (k + 1)
    match r.get prevSlot with
    | none => some (some (.replace prevSlot))
    | some pv =>
      if prevSlot = 0 then some (some (.replace prevSlot))
      else if pv.order < order then some (some (.shift (r.back k)))
      else if pv.order = order then some none
      else searchDest r order fuel (k + 1)

/-- inmemory.go:449 `findConsumerOffsetDestination`; inner `none` = drop the commit -/
def findDest (r : Ring Commit) (order : Int) : Option (Option Dest) :=
  match r.get (r.back 1) with
  | none => some (some .append)
  | some newest =>
    let dropFull : Bool := match r.get 0 with
      | some oldest => decide (oldest.order ≥ order)
      | none => false
    if dropFull then some none
    else if newest.order ≥ order then searchDest r order r.len 0
    else some (some .append)

/-- inmemory.go:502 `mergeFrequentCommitIntoPrevious`: (destination, possibly rewritten timestamp) -/
def mergeDest (r : Ring Commit) (minDistance : Int) (d : Dest) (order ts : Int) : Dest × Int :=
  let prevSlot := (d.slot + r.back 1) % r.len
  match r.get prevSlot with
  | none => (d, ts)
  | some pv =>
    if pv.order < order ∧ ts - pv.ts < minDistance * 1000 then (.replace prevSlot, pv.ts) else (d, ts)

/-- the shift loop of `storeConsumerOffset` (inmemory.go:521-531): `copyTo` is `j` steps after the
    pointer … walking backwards until it reaches `insertDest`.  Structural in the step count. -/
def shiftLoop (r : Ring Commit) (insertDest : Nat) : Nat → Nat → Ring Commit
  | 0, _ => r
  | fuel + 1, copyTo =>
    if copyTo % r.len = insertDest % r.len then r
    else
      let copyFrom := (copyTo + r.back 1) % r.len
      let r := (r.set copyTo (r.get copyFrom)).set copyFrom none
      shiftLoop r insertDest fuel copyFrom

/-- inmemory.go:520 `storeConsumerOffset` -/
def storeCommit (r : Ring Commit) (d : Dest) (c : Commit) : Ring Commit :=
  match d with
  | .append => (r.set 0 (some c)).advance 1
  | .replace s => r.set s (some c)
  | .shift s => ((shiftLoop r s r.len 0).set s (some c)).advance 1

/-- which of the placement cases fired (coverage report only) -/
inductive Placement where
  | append | appendMerged | insertBlank | replaceOldest | shift | insertMerged | dropFull | dropDup
  deriving Repr, DecidableEq, Inhabited

/-- go: `uint64(brokerOffset - request.Offset)` under the guard `brokerOffset > request.Offset` -/
def lagAt (broker offset : Int) : Nat :=
  if broker > offset then toU64 (wrap64 (broker - offset)) else 0

/-- the ring part of `addConsumerOffset` (inmemory.go:425-444).  Returns the new ring, whether the
    commit was an append (⇒ `lastCommit` is updated) and the placement case; `none` = Go would loop
    forever / cannot happen (fuel). -/
def placeCommit (r : Ring Commit) (minDistance : Int) (broker : Int) (offset order ts : Int) :
    Option (Ring Commit × Bool × Placement) :=
  match findDest r order with
  | none => none
  | some none =>
    let dropFull : Bool := match r.get 0 with
      | some o => decide (o.order ≥ order)
      | none => false
    some (r, false, if dropFull then .dropFull else .dropDup)
  | some (some d) =>
    let isAppend := d = .append
    let lag : Option Nat := if isAppend then some (lagAt broker offset) else none
    let (d', ts') := mergeDest r minDistance d order ts
    let c : Commit := { offset, order, ts := ts', lag }
    let placement : Placement :=
      if d' ≠ d then (if isAppend then .appendMerged else .insertMerged)
      else match d with
        | .append => .append
        | .shift _ => .shift
        | .replace s => if (r.get s).isSome then .replaceOldest else .insertBlank
    some (storeCommit r d' c, isAppend, placement)

/-! ### consumer side -/

def emptyPartition : CPartition := { ring := none, owner := "", clientID := "" }

/-- inmemory.go:345 `getConsumerPartition`: returns the updated partition list of the topic, or
    `none` if the Go code would index out of range. -/
def getConsumerPartition (intervals : Nat) (parts : List CPartition) (partition : Nat) (partitionCount : Nat) :
    Option (List CPartition) :=
  let parts := if partition ≥ parts.length
               then parts ++ List.replicate (partitionCount - parts.length) emptyPartition else parts
  match parts[partition]? with
  | none => none
  | some cp =>
    let cp := if cp.ring.isNone then { cp with ring := some (Ring.new intervals) } else cp
    some (parts.set partition cp)

def newGroup : Group := { topics := [], lastCommit := 0 }

/-- inmemory.go:380 `addConsumerOffset`; `now` is `time.Now().Unix()` -/
def addConsumerOffset (s : Store) (now : Int) (r : Request) : Store × Outcome × Option Placement :=
  match alookup r.cluster s.clusters with
  | none => (s, .ok, none)
  | some cm =>
    if r.ts < (now - s.cfg.expireGroup) * 1000 then (s, .ok, none)
    else if !accept s.cfg r then (s, .ok, none)
    else
      let (brokerOffset, partitionCount) := getBrokerOffset cm r.topic r.partition
      if partitionCount = 0 then (s, .ok, none)
      else
        -- get or create the group (under consumerLock)
        let g := (alookup r.group cm.consumer).getD newGroup
        let parts := (alookup r.topic g.topics).getD []
        match getConsumerPartition s.cfg.intervals parts r.partition.toNat partitionCount with
        | none =>
          let cm' := { cm with consumer := ainsert r.group g cm.consumer }
          ({ s with clusters := ainsert r.cluster cm' s.clusters }, .panic, none)
        | some parts =>
          match parts[r.partition.toNat]? with
          | none => (s, .panic, none)
          | some cp =>
            match cp.ring with
            | none => (s, .panic, none)
            | some ring =>
              if ring.len = 0 then (s, .panic, none) else
              match placeCommit ring s.cfg.minDistance brokerOffset r.offset r.order r.ts with
              | none => (s, .panic, none)
              | some (ring', isAppend, placement) =>
                let parts := parts.set r.partition.toNat { cp with ring := some ring' }
                let g := { topics := ainsert r.topic parts g.topics,
                           lastCommit := if isAppend then r.ts else g.lastCommit }
                let cm' := { cm with consumer := ainsert r.group g cm.consumer }
                ({ s with clusters := ainsert r.cluster cm' s.clusters }, .ok, some placement)

/-- inmemory.go:552 `addConsumerOwner` -/
def addConsumerOwner (s : Store) (r : Request) : Store × Outcome :=
  match alookup r.cluster s.clusters with
  | none => (s, .ok)
  | some cm =>
    if !accept s.cfg r then (s, .ok)
    else
      -- the group is created *before* the broker lookup (inmemory.go:566-575)
      let g := (alookup r.group cm.consumer).getD newGroup
      let cm := { cm with consumer := ainsert r.group g cm.consumer }
      let s := { s with clusters := ainsert r.cluster cm s.clusters }
      let (_, partitionCount) := getBrokerOffset cm r.topic r.partition
      if partitionCount = 0 then (s, .ok)
      else
        let parts := (alookup r.topic g.topics).getD []
        match getConsumerPartition s.cfg.intervals parts r.partition.toNat partitionCount with
        | none => (s, .panic)
        | some parts =>
          match parts[r.partition.toNat]? with
          | none => (s, .ok)   -- "no partition" (cannot happen after getConsumerPartition)
          | some cp =>
            let parts := parts.set r.partition.toNat { cp with owner := r.owner, clientID := r.clientID }
            let g := { g with topics := ainsert r.topic parts g.topics }
            let cm' := { cm with consumer := ainsert r.group g cm.consumer }
            ({ s with clusters := ainsert r.cluster cm' s.clusters }, .ok)

/-- inmemory.go:602 `clearConsumerOwners` -/
def clearConsumerOwners (s : Store) (r : Request) : Store × Outcome :=
  match alookup r.cluster s.clusters with
  | none => (s, .ok)
  | some cm =>
    if !accept s.cfg r then (s, .ok)
    else match alookup r.group cm.consumer with
      | none => (s, .ok)
      | some g =>
        let g := { g with topics := g.topics.map fun (t, parts) =>
                     (t, parts.map fun cp => { cp with owner := "", clientID := "" }) }
        let cm' := { cm with consumer := ainsert r.group g cm.consumer }
        ({ s with clusters := ainsert r.cluster cm' s.clusters }, .ok)

/-- inmemory.go:639 `deleteTopic` -/
def deleteTopic (s : Store) (r : Request) : Store × Outcome :=
  match alookup r.cluster s.clusters with
  | none => (s, .ok)
  | some cm =>
    let consumer := cm.consumer.map fun (gname, g) => (gname, { g with topics := aerase r.topic g.topics })
    let cm' := { broker := aerase r.topic cm.broker, consumer }
    ({ s with clusters := ainsert r.cluster cm' s.clusters }, .ok)

/-- which metrics deletion `deleteGroup` requests from the HTTP server (inmemory.go:684-689) -/
inductive MetricsDelete where
  | consumer (cluster group : String)
  | consumerTopic (cluster group topic : String)
  deriving Repr, DecidableEq, Inhabited

/-- inmemory.go:662 `deleteGroup` -/
def deleteGroup (s : Store) (r : Request) : Store × Outcome × Option MetricsDelete :=
  match alookup r.cluster s.clusters with
  | none => (s, .ok, none)
  | some cm =>
    match alookup r.group cm.consumer with
    | some g =>
      if r.topic ≠ "" then
        let topics := aerase r.topic g.topics
        if topics.length = 0 then
          let cm' := { cm with consumer := aerase r.group cm.consumer }
          ({ s with clusters := ainsert r.cluster cm' s.clusters }, .ok, some (.consumer r.cluster r.group))
        else
          let cm' := { cm with consumer := ainsert r.group { g with topics } cm.consumer }
          ({ s with clusters := ainsert r.cluster cm' s.clusters }, .ok, some (.consumerTopic r.cluster r.group r.topic))
      else
        let cm' := { cm with consumer := aerase r.group cm.consumer }
        ({ s with clusters := ainsert r.cluster cm' s.clusters }, .ok, some (.consumer r.cluster r.group))
    | none => (s, .ok, some (.consumer r.cluster r.group))

/-! ### fetches -/

def fetchClusterList (s : Store) : List String := akeys s.clusters

def fetchTopicList (s : Store) (cluster : String) : Option (List String) :=
  (alookup cluster s.clusters).map fun cm => akeys cm.broker

def fetchConsumerList (s : Store) (cluster : String) : Option (List String) :=
  (alookup cluster s.clusters).map fun cm => akeys cm.consumer

/-- inmemory.go:746 `fetchTopic`: partitions without a value are skipped (positions shift) -/
def fetchTopic (s : Store) (cluster topic : String) : Option (List Int) :=
  match alookup cluster s.clusters with
  | none => none
  | some cm =>
    match alookup topic cm.broker with
    | none => none
    | some l => some (l.filterMap fun ring => (ring.get 0).map (·.offset))

/-- what the property asks of the topic view: one entry per partition, `none` where the partition
    has no offset yet (no leader) -/
def topicOffsetsByPartition (s : Store) (cluster topic : String) : Option (List (Option Int)) :=
  match alookup cluster s.clusters with
  | none => none
  | some cm => (alookup topic cm.broker).map fun l => l.map fun ring => (ring.get 0).map (·.offset)

/-- a partition without an offset precedes one that has an offset: `fetchTopic`'s positions are shifted -/
def positionsShifted : List (Option Int) → Bool
  | [] => false
  | none :: rest => rest.any Option.isSome || positionsShifted rest
  | some _ :: rest => positionsShifted rest

abbrev ConsumerTopics := List (String × List Eval.Partition)

/-- inmemory.go:775 `getConsumerTopicList` (before the lag pass: no broker offsets, lag 0) -/
def getConsumerTopicList (g : Group) : ConsumerTopics :=
  g.topics.map fun (t, parts) =>
    (t, parts.map fun cp =>
      { offsets := match cp.ring with
                   | some r => r.readout
                   | none => [],
        brokerOffsets := [], owner := cp.owner, clientID := cp.clientID, currentLag := 0 })

/-- the per-partition lag pass of `fetchConsumer` (inmemory.go:858-889, after the repair of D7: a
    consumer partition beyond the broker topic's partitions is skipped, and no lag is computed
    without a broker offset); `none` = a panic, which remains only for a ring of size 0 -/
def lagPass (topicMap : List (Ring BrokerOffset)) (p : Nat) (part : Eval.Partition) : Option Eval.Partition :=
  match topicMap[p]? with
  | none => some part                             -- `if p >= len(topicMap) { continue }`
  | some bring =>
    if bring.len = 0 then none else
    let bos := bring.readoutNext.map (·.offset)
    if part.offsets.length > 0 then
      match bos.getLast? with
      | none => some { part with brokerOffsets := bos }   -- `&& len(partition.BrokerOffsets) > 0`
      | some b =>
        match part.offsets.getLast?.join with
        | none => some { part with brokerOffsets := bos }
        | some last =>
          let cur := if b < last.offset then 0 else toU64 (wrap64 (b - last.offset))
          some { part with brokerOffsets := bos, currentLag := cur }
    else some { part with brokerOffsets := bos }

def lagPassTopic (topicMap : List (Ring BrokerOffset)) : Nat → List Eval.Partition → Option (List Eval.Partition)
  | _, [] => some []
  | p, part :: rest => do
    let a ← lagPass topicMap p part
    let b ← lagPassTopic topicMap (p + 1) rest
    pure (a :: b)

def lagPassAll (cm : Cluster) : ConsumerTopics → Option ConsumerTopics
  | [] => some []
  | (t, parts) :: rest => do
    let parts' ← match alookup t cm.broker with
      | none => some parts
      | some topicMap => lagPassTopic topicMap 0 parts
    let rest' ← lagPassAll cm rest
    pure ((t, parts') :: rest')

inductive FetchResult where
  | notFound
  | found (topics : ConsumerTopics)
  | panic
  deriving Repr, DecidableEq, Inhabited

/-- inmemory.go:816 `fetchConsumer`; `now` is `time.Now().Unix()` -/
def fetchConsumer (s : Store) (now : Int) (cluster group : String) : Store × FetchResult :=
  match alookup cluster s.clusters with
  | none => (s, .notFound)
  | some cm =>
    match alookup group cm.consumer with
    | none => (s, .notFound)
    | some g =>
      if (now - s.cfg.expireGroup) * 1000 > g.lastCommit then
        let cm' := { cm with consumer := aerase group cm.consumer }
        ({ s with clusters := ainsert cluster cm' s.clusters }, .notFound)
      else
        match lagPassAll cm (getConsumerTopicList g) with
        | none => (s, .panic)
        | some topics => (s, .found topics)

/-- inmemory.go:889 `fetchConsumersForTopicList` -/
def fetchConsumersForTopic (s : Store) (cluster topic : String) : Option (List String) :=
  (alookup cluster s.clusters).map fun cm =>
    (cm.consumer.filter fun (_, g) => (alookup topic g.topics).isSome).map (·.1)

/-! ### verification-only op: move every stored commit time back by `d` ms (≡ the clock advanced) -/

def shiftTimes (s : Store) (d : Int) : Store :=
  { s with clusters := s.clusters.map fun (cn, cm) =>
      (cn, { cm with consumer := cm.consumer.map fun (gn, g) =>
        (gn, { lastCommit := g.lastCommit - d,
               topics := g.topics.map fun (t, parts) =>
                 (t, parts.map fun cp =>
                   { cp with ring := cp.ring.map fun r =>
                       { r with slots := r.slots.map fun o => o.map fun c => { c with ts := c.ts - d } } }) }) }) }

end Burrow.Storage
