/-
  Model of the group-level aggregation, core/internal/evaluator/caching.go:203-259
  (evaluateConsumerStatus fold) and :142-166 (problems-only copy in getConsumerStatus).
-/
import BurrowVerif.Model.Eval

namespace Burrow.Group
open Burrow Burrow.Eval

/-- `protocol.PartitionStatus` -/
structure PStat where
  topic     : String
  partition : Nat
  owner     : String
  clientID  : String
  st        : PartStatus
  deriving Repr, DecidableEq, Inhabited

/-- `protocol.ConsumerGroupStatus` (cluster/group names are added by the caller) -/
structure GroupStatus where
  status          : Status
  /-- numerator/denominator of the float32 division; `(0, 0)` = the literal 0 for a group without partitions -/
  complete        : Nat × Nat
  partitions      : List PStat
  totalPartitions : Nat
  maxlag          : Option PStat
  totalLag        : Nat
  deriving Repr, DecidableEq, Inhabited

/-- `partitionStatus.Complete == 1.0` on the (numerator, denominator) representation -/
def isComplete (c : Nat × Nat) : Bool := c.1 == c.2 && c.2 != 0

/-- the status cap of caching.go:234-241 -/
def capStatus (acc new : Status) : Status :=
  if new > acc then (if new > .err then .err else new) else acc

/-- Maxlag update of caching.go:243-245 -/
def updMaxlag (acc : Option PStat) (p : PStat) : Option PStat :=
  match acc with
  | none => some p
  | some m => if p.st.currentLag > m.st.currentLag then some p else some m

/-- the fold over all partition statuses, in iteration order -/
def aggregate (ps : List PStat) : GroupStatus :=
  let status := ps.foldl (fun acc p => capStatus acc p.st.status) .ok
  let maxlag := ps.foldl updMaxlag none
  let completeCount := (ps.filter fun p => isComplete p.st.complete).length
  { status,
    complete := if ps.length > 0 then (completeCount, ps.length) else (0, 0),
    partitions := ps,
    totalPartitions := ps.length,
    maxlag,
    totalLag := wrapU64 ((ps.map fun p => p.st.currentLag).foldl (· + ·) 0) }

/-- evaluate the partitions of one topic, numbering them by slice index -/
def evalTopic (meets : Nat → Nat → Bool) (now : Int) (allowed : Nat) (topic : String) :
    Nat → List Partition → Option (List PStat)
  | _, [] => some []
  | i, p :: rest => do
    let st ← evaluatePartition p meets now allowed
    let more ← evalTopic meets now allowed topic (i + 1) rest
    pure ({ topic, partition := i, owner := p.owner, clientID := p.clientID, st } :: more)

def evalTopics (meets : Nat → Nat → Bool) (now : Int) (allowed : Nat) :
    List (String × List Partition) → Option (List PStat)
  | [] => some []
  | (t, parts) :: rest => do
    let a ← evalTopic meets now allowed t 0 parts
    let b ← evalTopics meets now allowed rest
    pure (a ++ b)

/-- caching.go:203-259 on a storage reply; `none` = a Go panic inside a partition evaluation -/
def evaluateGroup (meets : Nat → Nat → Bool) (now : Int) (allowed : Nat)
    (topics : List (String × List Partition)) : Option GroupStatus :=
  (evalTopics meets now allowed topics).map aggregate

/-- caching.go:142-166: the problems-only view -/
def filterView (g : GroupStatus) : GroupStatus :=
  { g with partitions := g.partitions.filter fun p => p.st.status > .ok }

end Burrow.Group
