/-
  Model of the notifier coordinator's incident bookkeeping and gating,
  core/internal/notifier/coordinator.go:415-459 (checkAndSendResponseToModules) and :534-568
  (notifyModule).  Time is an integer (milliseconds); Go's zero `time.Time` is `none`; event ids
  come from the environment (`uuid.NewRandom()`), one fresh value per evaluation.
-/
import BurrowVerif.Model.Basic

namespace Burrow.Notifier
open Burrow

/-- per-module settings read from viper at notification time -/
structure ModuleCfg where
  name         : String
  threshold    : Int
  sendInterval : Int      -- seconds
  sendOnce     : Bool
  sendClose    : Bool
  deriving Repr, DecidableEq, Inhabited

/-- notifier `consumerGroup` record (LastEval belongs to C15) -/
structure GroupRec where
  id         : Option Nat
  start      : Option Int
  lastNotify : List (String × Int)       -- absent = zero time
  deriving Repr, DecidableEq, Inhabited

def GroupRec.fresh : GroupRec := { id := none, start := none, lastNotify := [] }

def lookupT (m : String) : List (String × Int) → Option Int
  | [] => none
  | (k, v) :: rest => if k = m then some v else lookupT m rest

def setT (m : String) (t : Int) : List (String × Int) → List (String × Int)
  | [] => [(m, t)]
  | (k, v) :: rest => if k = m then (m, t) :: rest else (k, v) :: setT m t rest

def eraseT (m : String) : List (String × Int) → List (String × Int)
  | [] => []
  | (k, v) :: rest => if k = m then eraseT m rest else (k, v) :: eraseT m rest

/-- one call of `Module.Notify(status, eventID, startTime, stateGood)` -/
structure Notification where
  module : String
  status : Status
  id     : Option Nat
  start  : Option Int
  close  : Bool
  deriving Repr, DecidableEq, Inhabited

/-- coordinator.go:534 `notifyModule`; `start`/`id` are the values passed by the caller -/
def notifyModule (cfg : ModuleCfg) (g : GroupRec) (status : Status) (now : Int)
    (start : Option Int) (id : Option Nat) : GroupRec × Option Notification :=
  if start.isSome ∧ status = .ok ∧ cfg.sendClose then
    ({ g with lastNotify := eraseT cfg.name g.lastNotify },
     some { module := cfg.name, status, id, start, close := true })
  else if (status.toNat : Int) < cfg.threshold then (g, none)
  else if (lookupT cfg.name g.lastNotify).isSome ∧ cfg.sendOnce then (g, none)
  else
    let due : Bool := match lookupT cfg.name g.lastNotify with
      | none => true                                   -- Sub(zero time) saturates: always due
      | some t => decide (now - t > cfg.sendInterval * 1000)
    if due then
      ({ g with lastNotify := setT cfg.name now g.lastNotify },
       some { module := cfg.name, status, id, start, close := false })
    else (g, none)

/-- one evaluation result arriving for a group -/
structure Ev where
  status  : Status
  now     : Int
  /-- does module `m` pass this group (allowlist, denylist, AcceptConsumerGroup)? oracle bits -/
  acc     : String → Bool
  /-- the UUID the environment would hand out at this evaluation -/
  freshId : Nat

/-- the module loop of `checkAndSendResponseToModules` -/
def modulesLoop (status : Status) (now : Int) (acc : String → Bool) (start : Option Int) (id : Option Nat) :
    List ModuleCfg → GroupRec → GroupRec × List Notification
  | [], g => (g, [])
  | cfg :: rest, g =>
    if acc cfg.name then
      let (g', n) := notifyModule cfg g status now start id
      let (g'', ns) := modulesLoop status now acc start id rest g'
      (g'', n.toList ++ ns)
    else modulesLoop status now acc start id rest g

/-- coordinator.go:415 `checkAndSendResponseToModules` on the group's record (with the repair: a new
    incident starts with a clean per-module notification history) -/
def stepG (cfgs : List ModuleCfg) (g : GroupRec) (e : Ev) : GroupRec × List Notification :=
  let g := if g.start.isNone ∧ e.status > .ok
           then { id := some e.freshId, start := some e.now, lastNotify := [] } else g
  let (g, ns) := modulesLoop e.status e.now e.acc g.start g.id cfgs g
  let g := if e.status = .ok then { g with id := none, start := none } else g
  (g, ns)

/-- a whole evaluation history of one group, from a given record: notifications per evaluation -/
def runG (cfgs : List ModuleCfg) : GroupRec → List Ev → List (List Notification)
  | _, [] => []
  | g, e :: es => let (g', ns) := stepG cfgs g e; ns :: runG cfgs g' es

/-! ### several groups and clusters -/

abbrev NState := List ((String × String) × GroupRec)

def lookupG (k : String × String) : NState → Option GroupRec
  | [] => none
  | (k', v) :: rest => if k' = k then some v else lookupG k rest

def setG (k : String × String) (v : GroupRec) : NState → NState
  | [] => [(k, v)]
  | (k', v') :: rest => if k' = k then (k, v) :: rest else (k', v') :: setG k v rest

def eraseG (k : String × String) : NState → NState
  | [] => []
  | (k', v') :: rest => if k' = k then eraseG k rest else (k', v') :: eraseG k rest

/-- an evaluation result for `(cluster, group)`; a group without a record (just deleted) is skipped -/
def step (cfgs : List ModuleCfg) (s : NState) (k : String × String) (e : Ev) : NState × List Notification :=
  match lookupG k s with
  | none => (s, [])
  | some g => let (g', ns) := stepG cfgs g e; (setG k g' s, ns)

/-- coordinator.go:402 `responseLoop`: what the evaluator's answer amounts to.  A nil answer (the group
    no longer exists) and NOTFOUND are dropped; every other status is an evaluation and is handed to
    `checkAndSendResponseToModules` (`step`). -/
inductive Answer where
  | skipped
  | evaluated (s : Status)
  | bad
  deriving Repr, DecidableEq

def resultOf (text : String) : Answer :=
  if text == "nil" then .skipped else
  match text.toNat?.bind Status.ofNat? with
  | none => .bad
  | some .notFound => .skipped
  | some s => .evaluated s

/-- the loop over a sequence of answers for group `k` (`none` = nil): the evaluations it hands on -/
def delivered : List (Option Status) → List Status
  | [] => []
  | none :: rest => delivered rest
  | some .notFound :: rest => delivered rest
  | some s :: rest => s :: delivered rest

/-- verification-only op: move every stored instant back by `d` ms (≡ the clock advanced by `d`) -/
def shiftTimes (d : Int) (s : NState) : NState :=
  s.map fun (k, g) => (k, { g with start := g.start.map (· - d), lastNotify := g.lastNotify.map fun (m, t) => (m, t - d) })

/-- one refresh of the group records from storage's listings (`processClusterList` +
    `processConsumerList`).  `listing`: the clusters storage lists, each with its groups.
    `answered c`: storage took the consumer-list request for cluster `c` — a request that is not taken
    within a second is given up (`TimeoutSendStorageRequest`), and then that cluster's records stay as
    they are.  Clusters that are no longer listed disappear with their groups; in an answered cluster
    unlisted groups go and new groups get a fresh record; every other record is kept as it is. -/
def refresh (listing : List (String × List String)) (answered : String → Bool) (s : NState) : NState :=
  let s1 := s.filter fun kv => listing.any (·.1 == kv.1.1)
  listing.foldl (fun acc cg =>
    if answered cg.1 then
      let kept := acc.filter fun kv => kv.1.1 != cg.1 || cg.2.contains kv.1.2
      cg.2.foldl (fun a g =>
        match lookupG (cg.1, g) a with
        | some _ => a
        | none => a ++ [((cg.1, g), GroupRec.fresh)]) kept
    else acc) s1


/-! ### the configuration phase (coordinator.go `Configure`): which settings a module ends up with -/

/-- one `[notifier.<name>]` table: what the operator wrote (`none` = key absent) -/
structure ModSpec where
  name         : String
  threshold    : Option Int
  interval     : Option Int
  sendInterval : Option Int
  sendOnce     : Option Bool
  sendClose    : Option Bool
  allow        : Option String
  deny         : Option String
  deriving Repr, DecidableEq, Inhabited

def ModSpec.intervalEff (m : ModSpec) : Int := m.interval.getD 60

/-- what `notifyModule` reads for the module after `Configure`: threshold 2 and interval 60 unless set,
    send-interval = the module's interval unless set, send-once / send-close off unless set -/
def ModSpec.cfg (m : ModSpec) : ModuleCfg :=
  { name := m.name, threshold := m.threshold.getD 2, sendInterval := m.sendInterval.getD m.intervalEff,
    sendOnce := m.sendOnce.getD false, sendClose := m.sendClose.getD false }

/-- the lists the module is constructed with: its own, nothing else -/
def ModSpec.lists (m : ModSpec) : Option String × Option String := (m.allow, m.deny)

/-- the pace of the evaluation requests: the shortest module interval (ten years without modules) -/
def minIntervalOf : List ModSpec → Int
  | [] => 310536000
  | m :: ms => ms.foldl (fun acc m' => min acc m'.intervalEff) m.intervalEff

end Burrow.Notifier
