/-
  Burrow's own validation logic (core/internal/helpers/validation.go, helpers/sarama.go parseKafkaVersion),
  modelled on characters.  What the Go standard library decides (net.SplitHostPort, strconv.Atoi,
  net.ParseIP, sarama.ParseKafkaVersion) is a parameter (`AddrFacts`, `saramaParses`) computed by the
  harness with direct library calls — NOT through Burrow's helpers, so that a change to the helpers
  shows as a disagreement.  Core Lean only.
-/
namespace Burrow.Validate

def isAlnum (c : Char) : Bool := ('a' ≤ c && c ≤ 'z') || ('A' ≤ c && c ≤ 'Z') || ('0' ≤ c && c ≤ '9')

/-- `[a-zA-Z0-9]|[a-zA-Z0-9][a-zA-Z0-9\-]{0,61}[a-zA-Z0-9]` -/
def labelOk (l : List Char) : Bool :=
  1 ≤ l.length && l.length ≤ 63 &&
  (match l.head?, l.getLast? with
   | some a, some z => isAlnum a && isAlnum z
   | _, _ => false) &&
  l.all fun c => isAlnum c || c == '-'

def splitOnChar (sep : Char) : List Char → List Char → List (List Char)
  | [], cur => [cur.reverse]
  | c :: cs, cur => if c == sep then cur.reverse :: splitOnChar sep cs [] else splitOnChar sep cs (c :: cur)

/-- `ValidateHostname`: dotted labels, or the Docker Swarm form `label_label`, or an IP address -/
def validHostname (h : String) (ipOk : Bool) : Bool :=
  (splitOnChar '.' h.toList []).all labelOk ||
  (match splitOnChar '_' h.toList [] with
   | [a, b] => labelOk a && labelOk b
   | _ => false) ||
  ipOk

/-- what the standard library says about one `host:port` string -/
structure AddrFacts where
  splitOk    : Bool      -- net.SplitHostPort succeeds
  host       : String    -- … with this host
  portOk     : Bool      -- strconv.Atoi(port) succeeds
  ipOk       : Bool      -- net.ParseIP(host) != nil
  allNumeric : Bool      -- every "."-separated part of host passes strconv.Atoi
  deriving Repr, Inhabited

/-- `ValidateHostPort` -/
def validHostPort (allowBlank : Bool) (a : AddrFacts) : Bool :=
  a.splitOk && a.portOk &&
  ((allowBlank && a.host.isEmpty) ||
   ((!(a.host.toList.contains ':') || a.ipOk) &&
    (if a.allNumeric then a.ipOk else validHostname a.host a.ipOk)))

/-- `ValidateHostList` -/
def validHostList (l : List AddrFacts) : Bool := l.all (validHostPort false)

def isNodeFirst (c : Char) : Bool := isAlnum c || c == '_' || c == '-'
def isNodeRest (c : Char) : Bool := isNodeFirst c || c == '.'

/-- `^[a-zA-Z0-9_\-][a-zA-Z0-9_\-.]*$` -/
def nodeOk : List Char → Bool
  | [] => false
  | c :: rest => isNodeFirst c && rest.all isNodeRest

/-- `ValidateZookeeperPath` -/
def validZkPath (p : String) : Bool :=
  match splitOnChar '/' p.toList [] with
  | [] => false
  | [_] => false
  | first :: rest =>
    first.isEmpty && (rest == [[]] || rest.all nodeOk)

/-- `legacyKafkaVersionFallback` (helpers/sarama.go) -/
def legacyKafkaVersions : List String :=
  ["", "0.8.0", "0.8.1", "0.8.2", "0.8", "0.9.0", "0.9", "0.10.0", "0.10", "0.10.1", "0.10.2", "0.11.0", "0.11"]

/-- `parseKafkaVersion` does not panic -/
def kafkaVersionOk (saramaParses : Bool) (v : String) : Bool := saramaParses || legacyKafkaVersions.contains v

end Burrow.Validate
