/-
  An abstract interpreter that reads a template as JSON with typed holes (the JSON clause of C20).

  `flow σ t τ a` runs the JSON automaton (Model/Json.lean) over the template's text; at an action it
  looks at the type the checker gives the pipeline and at where the automaton stands:

    * inside a string, anything that prints JSON-safe characters (strings of the data, status names,
      numbers, booleans, formatted times) leaves the automaton where it is;
    * where a value is expected, a number-typed pipeline leaves it "after a number", a boolean or a
      `… | jsonencoder` of the partitions leaves it after a complete value;
    * anything else is refused.

  `if` needs both branches to end in the same place; `range` needs its body (and its `else`) to come
  back to where they started.  `Proofs/TmplJson.lean` proves that whatever `exec` renders for a
  template accepted here is accepted by the automaton, for every value of the data type whose
  strings are JSON-safe.  Core Lean only.
-/
import BurrowVerif.Model.Tmpl
import BurrowVerif.Model.Json

namespace Burrow.Tmpl
open Burrow.Json

def safeStr (s : String) : Bool := safeChars s.toList

/-- the float32 with these bits is neither an infinity nor a NaN -/
def finite32 (bits : Nat) : Bool := (bits / 2^23) % 256 != 255

/-- executable form of the assumptions on Go's renderers (`EnvOk` in Proofs/TmplJson.lean), for the
    renderings a run actually observed: a formatted time is JSON-safe, `%v` of a finite float32 is
    JSON-safe and a JSON number, `json.Marshal` output is a complete JSON text -/
def isNumSt : St → Bool
  | .zero | .int | .frac | .exp => true
  | _ => false

def timeRenderingOk (s : String) : Bool := safeStr s

def floatRenderingOk (bits : Nat) (s : String) : Bool :=
  !finite32 bits || (safeStr s && (let p := run {} s.toList; isNumSt p.st && p.stack.isEmpty))

def partsRenderingOk (s : String) : Bool := run {} s.toList == ⟨.after, []⟩

/-- where the automaton may be: in one configuration, or just after the last character of a number
    (one of the four accepting number states) inside `stack` -/
inductive Abs where
  | pda (p : PDA)
  | afterNum (stack : List Ctx)
  deriving DecidableEq, Repr, Inhabited

/-! ### which pipelines keep JSON-unsafe text out -/

def argSafe : Arg → Bool
  | .str s => safeStr s
  | .unsupported _ => false
  | _ => true

def cmdSafe : Cmd → Bool
  | .field _ _ args => args.all argSafe
  | .dot => true
  | .call fn args => fn != "jsonencoder" && args.all argSafe
  | .lit a => argSafe a
  | .unsupported _ => false

def pipeSafe (p : Pipe) : Bool := p.all cmdSafe

def isJsonEnc : Cmd → Bool
  | .call fn args => fn == "jsonencoder" && args.isEmpty
  | _ => false

/-- what a hole prints -/
inductive HoleTy where
  /-- JSON-safe characters (a string of the data, a status name, a formatted time) -/
  | safe
  | float | bool | nat | int
  /-- `json.Marshal` of the partitions -/
  | json
  deriving DecidableEq, Repr, Inhabited

def holeOfTy : Ty → Option HoleTy
  | .str | .status => some .safe
  | .float => some .float
  | .bool => some .bool
  | .uint => some .nat
  | .int _ => some .int
  | _ => none

def holeOfEnc : Ty → Option HoleTy
  | .slice _ => some .json
  | .uint => some .nat
  | .int _ => some .int
  | _ => none

def holeTy (σ : Schema) (τ : Ty) (p : Pipe) : Option HoleTy :=
  if pipeSafe p then
    match tyPipe σ τ none p with
    | some t => holeOfTy t
    | none => none
  else
    match p.getLast? with
    | some c =>
      if isJsonEnc c && pipeSafe p.dropLast then
        match tyPipe σ τ none p.dropLast with
        | some t => holeOfEnc t
        | none => none
      else none
    | none => none

def holeAbs (h : HoleTy) (a : Abs) : Option Abs :=
  match a with
  | .pda ⟨.str k, stack⟩ => if h = .json then none else some (.pda ⟨.str k, stack⟩)
  | .pda ⟨.value, stack⟩ =>
    (match h with
     | .safe => none
     | .float | .nat | .int => some (.afterNum stack)
     | .bool | .json => some (.pda ⟨.after, stack⟩))
  | _ => none

/-! ### text -/

def textAbs (a : Abs) (cs : List Char) : Option Abs :=
  match a, cs with
  | a, [] => some a
  | .pda p, cs => some (.pda (run p cs))
  | .afterNum stack, c :: rest =>
    if isNumEnd c then some (.pda (run (afterValue ⟨.after, stack⟩ c) rest)) else none

/-! ### the flow -/

def flow (σ : Schema) : T → Ty → Abs → Option Abs
  | .done, _, a => some a
  | .text s rest, τ, a =>
    (match textAbs a s.toList with
     | some a' => flow σ rest τ a'
     | none => none)
  | .action p rest, τ, a =>
    (match holeTy σ τ p with
     | some h =>
       (match holeAbs h a with
        | some a' => flow σ rest τ a'
        | none => none)
     | none => none)
  | .ite _ thn els rest, τ, a =>
    (match flow σ thn τ a, flow σ els τ a with
     | some a1, some a2 => if a1 = a2 then flow σ rest τ a1 else none
     | _, _ => none)
  | .range p body els rest, τ, a =>
    if pipeSafe p then
      (match tyPipe σ τ none p with
       | some (.slice e) =>
         (match flow σ body e a, flow σ els τ a with
          | some a1, some a2 => if a1 = a ∧ a2 = a then flow σ rest τ a else none
          | _, _ => none)
       | _ => none)
    else none
  | .unsupported _ _, _, _ => none

/-- the template, read from the start of a JSON text, ends with a complete top-level value -/
def jsonOk (σ : Schema) (t : T) (τ : Ty) : Bool :=
  match flow σ t τ (.pda {}) with
  | some (.pda p) => accepting p
  | some (.afterNum stack) => stack.isEmpty
  | none => false

end Burrow.Tmpl
