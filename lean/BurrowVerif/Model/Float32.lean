/-
  Exact emulation of the two float32 operations the evaluator performs on completeness:
  `float32(a) / float32(b)` for small naturals and `>=` against a float32 threshold.
  Integer arithmetic only; round to nearest, ties to even.  Used by the driver (the proofs treat the
  comparison as an abstract predicate `meets`).
-/
namespace Burrow.F32

/-- number of binary digits of `n` -/
def bitLen (n : Nat) : Nat := if n = 0 then 0 else Nat.log2 n + 1

/-- IEEE-754 binary32 bit pattern of `float32(a) / float32(b)` for `0 < b`, `a, b < 2^24`.
    `(0, 0)` encodes "no division performed, Go zero value 0.0". -/
def divBits (a b : Nat) : Nat :=
  if a = 0 ∨ b = 0 then 0
  else
    let n := a * 2^48 / b
    let sticky := decide (a * 2^48 % b ≠ 0)
    let d := bitLen n - 24
    let q := n / 2^d
    let r := n % 2^d
    let half := 2^(d - 1)
    let up : Bool := r > half || (r == half && (sticky || q % 2 == 1))
    let q1 := if up then q + 1 else q
    let (q2, d2) := if q1 = 2^24 then (2^23, d + 1) else (q1, d)
    -- value = q2 * 2^(d2-48), q2 ∈ [2^23, 2^24): exponent E = 23 + d2 - 48
    let biased := 127 + 23 + d2 - 48
    biased * 2^23 + (q2 - 2^23)

/-- `x >= y` on float32 bit patterns (neither NaN). -/
def geBits (x y : Nat) : Bool :=
  let sx := x / 2^31; let sy := y / 2^31
  let mx := x % 2^31; let my := y % 2^31
  if mx = 0 ∧ my = 0 then true            -- ±0 ≥ ±0
  else if sx = 0 ∧ sy = 0 then mx ≥ my
  else if sx = 0 ∧ sy = 1 then true
  else if sx = 1 ∧ sy = 0 then false
  else mx ≤ my

/-- the completeness gate `status.Complete >= minimumComplete` -/
def meets (minBits : Nat) (a b : Nat) : Bool := geBits (divBits a b) minBits

end Burrow.F32
