/-
  Model of the caching evaluator's request path, core/internal/evaluator/caching.go:117-201
  (getConsumerStatus, key construction / parsing) on top of goswarm.Simple as configured by Burrow
  (GoodExpiryDuration = BadExpiryDuration = expire-cache seconds, no stale durations), semantics read
  from goswarm v1.10.0 simple.go / timedValue.go.  Names are character lists because the code looks
  inside them (the cache key).  Time is milliseconds; Go's zero `time.Time` is `none`.
-/
import BurrowVerif.Model.Basic

namespace Burrow.EvalCache

abbrev Name := List Char

/-! ### the cache key (with the repair: length-prefixed, hence unambiguous) -/

def natDigits (n : Nat) : List Char := (toString n).toList

/-- `strconv.Itoa(len(cluster)) + " " + cluster + group` — byte length in Go; the model's names are
    hex text (ASCII) so characters = bytes -/
def mkKey (cluster group : Name) : Name := natDigits cluster.length ++ [' '] ++ cluster ++ group

def digitsToNat? (ds : List Char) : Option Nat :=
  if ds.isEmpty then none else
  ds.foldl (fun acc c => acc.bind fun a => if c.isDigit then some (a * 10 + (c.toNat - '0'.toNat)) else none) (some 0)

/-- `strings.SplitN(key, " ", 2)`, `strconv.Atoi`, bounds check, slice -/
def parseKey (key : Name) : Option (Name × Name) :=
  let pre := key.takeWhile (· ≠ ' ')
  let rest := (key.dropWhile (· ≠ ' ')).drop 1
  if pre.length = key.length then none            -- no space at all
  else match digitsToNat? pre with
    | none => none
    | some n => if n ≤ rest.length then some (rest.take n, rest.drop n) else none

/-! ### cache -/

variable {R : Type}

/-- a goswarm `TimedValue`: `value = none` is a lookup error (Burrow: NOTFOUND) -/
structure Entry (R : Type) where
  value    : Option R
  expiry   : Option Int
  /-- ghost: when the lookup that produced this entry ran -/
  lookedAt : Int

structure Cfg where
  expire : Int           -- seconds (≥ 0: goswarm rejects negative durations)

abbrev Cache (R : Type) := List (Name × Entry R)

def clookup (k : Name) : Cache R → Option (Entry R)
  | [] => none
  | (k', e) :: rest => if k' = k then some e else clookup k rest

def cstore (k : Name) (e : Entry R) : Cache R → Cache R
  | [] => [(k, e)]
  | (k', e') :: rest => if k' = k then (k, e) :: rest else (k', e') :: cstore k e rest

/-- `TimedValue.IsExpiredAt` -/
def isExpired (e : Entry R) (now : Int) : Bool :=
  match e.value, e.expiry with
  | some _, none => false
  | some _, some x => decide (now > x)
  | none, none => true
  | none, some x => decide (now > x)

/-- `newTimedValue` with Burrow's durations -/
def newEntry (cfg : Cfg) (v : Option R) (now : Int) : Entry R :=
  -- expire-cache = 0 is handed to goswarm as one nanosecond (a zero duration would mean "never expires"): in the
  -- model's milliseconds the entry expires as soon as the clock has moved
  { value := v, expiry := some (now + cfg.expire * 1000), lookedAt := now }

/-- goswarm `update`: run the lookup, store per goswarm's rules, return the entry to answer with -/
def update (cfg : Cfg) (c : Cache R) (k : Name) (now : Int) (v : Option R) : Cache R × Entry R :=
  match v with
  | some r => let e := newEntry cfg (some r) now; (cstore k e c, e)
  | none =>
    match clookup k c with
    | none => let e := newEntry cfg none now; (cstore k e c, e)
    | some old =>
      match old.value with
      | none => let e := newEntry cfg none now; (cstore k e c, e)
      | some _ =>
        -- an error replaces a good value only if the good value has expired
        if isExpired old now then (let e := newEntry cfg none now; (cstore k e c, e)) else (c, old)

/-- what goswarm `Query` does with the cached entry -/
inductive Path where
  | miss        -- nothing cached or expired: synchronous lookup
  | stale       -- cached error, not expired: answer it, refresh in the background
  | hit
  deriving Repr, DecidableEq

def path (c : Cache R) (k : Name) (now : Int) : Path :=
  match clookup k c with
  | none => .miss
  | some e => if isExpired e now then .miss
              else match e.value with
                | none => .stale        -- bad values are stale at once (no BadStaleDuration)
                | some _ => .hit

/-- goswarm `Query` + the background refresh it may start, run to completion.  `look` is the
    evaluation of the parsed key against storage *now* (`none` = NOTFOUND / bad key). -/
def query (cfg : Cfg) (c : Cache R) (k : Name) (now : Int) (look : Name → Option R) : Cache R × Option R :=
  match path c k now with
  | .miss => let (c', e) := update cfg c k now (look k); (c', e.value)
  | .hit => (c, (clookup k c).bind (·.value))
  | .stale => ((update cfg c k now (look k)).1, none)

/-- the reply of `getConsumerStatus`: always names the request's cluster and group -/
structure Reply (R : Type) where
  cluster : Name
  group   : Name
  result  : Option R      -- `none` = StatusNotFound

/-- caching.go:117 `getConsumerStatus`; `eval cluster group` evaluates storage for the *parsed* names;
    `view` is the problems-only filter (identity for ShowAll) -/
def getConsumerStatus (cfg : Cfg) (c : Cache R) (now : Int) (cluster group : Name)
    (eval : Name → Name → Option R) (view : R → R) : Cache R × Reply R :=
  let look (k : Name) : Option R := (parseKey k).bind fun (cl, gr) => eval cl gr
  let (c', r) := query cfg c (mkKey cluster group) now look
  (c', { cluster, group, result := r.map view })

/-- verification-only op: every expiry moves back by `d` ms (≡ the clock advanced by `d`) -/
def age (d : Int) (c : Cache R) : Cache R :=
  c.map fun (k, e) => (k, { e with expiry := e.expiry.map (· - d), lookedAt := e.lookedAt - d })

end Burrow.EvalCache
