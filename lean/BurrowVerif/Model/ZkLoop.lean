/-
  Model of the notifier coordinator's evaluation gate (core/internal/notifier/coordinator.go:298-391)
  together with the zookeeper coordinator's session handling (core/internal/zookeeper/coordinator.go:141-160):
  `manageEvalLoop` as a program counter, the `doEvaluations` flag, the request loops that read it, the
  environment (lock results, session expiry, reconnection) as events at ANY point, and a ghost bit
  for whether this session still owns the lock node.  Plus the pacing rule of `sendEvaluatorRequests`.
  Core Lean only.
-/
namespace Burrow.ZkLoop

inductive Pc where
  | sleeping | locking | locked | flagSet | waiting | woken | waitConn | unlocking | crashed
  deriving DecidableEq, Repr, Inhabited

inductive Ev where
  | wake                    -- the 100 ms sleep is over: note ZookeeperExpirations, call lock.Lock()
  | lockOk | lockFail       -- the environment's answer
  | setFlag                 -- doEvaluations = true; go sendEvaluatorRequests()
  | enterWait               -- holding the condition's lock: Wait() unless the expiration count has changed
  | expire                  -- zookeeper coordinator: ZookeeperConnected = false; ZookeeperExpirations++; Broadcast()
  | clearFlag               -- doEvaluations = false
  | reconnect               -- zookeeper coordinator: ZookeeperConnected = true
  | otherSession            -- any other session event (Disconnected, Connecting, HasSession, …): ignored by mainLoop
  | seeConnected            -- the polling loop finds ZookeeperConnected
  | unlockOk | unlockFail
  | sweep                   -- a request loop reads the flag (true) and sends the evaluations that are due
  | loopExit                -- a request loop reads the flag (false) and ends
  deriving DecidableEq, Repr, Inhabited

structure St where
  pc        : Pc := .sleeping
  flag      : Bool := false
  connected : Bool := true
  /-- `ZookeeperExpirations` differs from the value the manager noted before `Lock()` -/
  pending   : Bool := false
  loops     : Nat := 0
  /-- ghost: this session owns the lock node (a session expiry removes the ephemeral node) -/
  owns      : Bool := false
  /-- ghost: how far the resume protocol has come since the flag was last cleared:
      1 connection seen back, 2 old lock released, 3 lock acquired again -/
  stage     : Nat := 3
  /-- ghost: number of sweeps performed while the lock was not owned, not counting the instants in
      which the manager is on its way to clearing the flag: between an expiry waking it and its
      clearing the flag (`woken`), and between an expiry that struck after `Lock()` returned and the
      manager's look at the expiration count (`flagSet` with `pending`) -/
  badSweeps : Nat := 0
  deriving DecidableEq, Repr, Inhabited

/-- one event; `none` when the event is not enabled in the state -/
def step (s : St) : Ev → Option St
  | .wake => if s.pc = .sleeping then some { s with pc := .locking, pending := false } else none
  | .lockOk => if s.pc = .locking then some { s with pc := .locked, owns := true, stage := if s.stage = 2 then 3 else s.stage } else none
  | .lockFail => if s.pc = .locking then some { s with pc := .sleeping } else none
  | .setFlag => if s.pc = .locked then some { s with pc := .flagSet, flag := true, loops := s.loops + 1 } else none
  | .enterWait =>
    -- the repaired protocol: an expiry counted since `wake` is not waited for again
    if s.pc = .flagSet then some { s with pc := if s.pending then .woken else .waiting } else none
  | .expire =>
    -- a broadcast wakes the manager only if it is waiting; otherwise only the count remembers it
    some { s with connected := false, owns := false, pending := true, pc := if s.pc = .waiting then .woken else s.pc }
  | .clearFlag => if s.pc = .woken then some { s with pc := .waitConn, flag := false, stage := 0 } else none
  | .reconnect => some { s with connected := true }
  | .otherSession => some s
  | .seeConnected =>
    if s.pc = .waitConn ∧ s.connected = true then some { s with pc := .unlocking, stage := if s.stage = 0 then 1 else s.stage } else none
  | .unlockOk => if s.pc = .unlocking then some { s with pc := .sleeping, owns := false, stage := if s.stage = 1 then 2 else s.stage } else none
  | .unlockFail => if s.pc = .unlocking then some { s with pc := .crashed } else none
  | .sweep =>
    if s.loops > 0 ∧ s.flag = true then
      some { s with badSweeps := if s.owns || s.pc == .woken || (s.pending && s.pc == .flagSet) then s.badSweeps else s.badSweeps + 1 }
    else none
  | .loopExit => if s.loops > 0 ∧ s.flag = false then some { s with loops := s.loops - 1 } else none

/-- the protocol BEFORE the repair (D12): `Wait()` unconditionally — an expiry broadcast between `Lock()`
    returning and `Wait()` beginning is lost -/
def stepOld (s : St) : Ev → Option St
  | .enterWait => if s.pc = .flagSet then some { s with pc := .waiting } else none
  | e => step s e

def runOld : St → List Ev → Option St
  | s, [] => some s
  | s, e :: es => match stepOld s e with
    | some s' => runOld s' es
    | none => none

def run : St → List Ev → Option St
  | s, [] => some s
  | s, e :: es => match step s e with
    | some s' => run s' es
    | none => none

/-- the expiry strikes between `Lock()` returning and the manager reaching `Wait()` -/
def earlyExpiry (s : St) (e : Ev) : Bool := e == .expire && (s.pc == .locked || s.pc == .flagSet)

/-- no event of the run is an early expiry -/
def noEarlyExpiry : St → List Ev → Bool
  | _, [] => true
  | s, e :: es => !earlyExpiry s e && (match step s e with | some s' => noEarlyExpiry s' es | none => true)

/-! ### pacing (sendEvaluatorRequests) -/

/-- one sweep over one group at clock `now`: evaluate iff `LastEval.Before(now − minInterval)` -/
def sweepGroup (minInterval : Int) (lastEval now : Int) : Int × Bool :=
  if lastEval < now - minInterval then (now, true) else (lastEval, false)

/-- the times at which a group is evaluated by a sequence of sweeps (of any number of loops) -/
def evalTimes (minInterval : Int) : Int → List Int → List Int
  | _, [] => []
  | lastEval, now :: rest =>
    let (le, ev) := sweepGroup minInterval lastEval now
    if ev then now :: evalTimes minInterval le rest else evalTimes minInterval le rest

end Burrow.ZkLoop
