/-
  Model of core/internal/evaluator/caching.go:272-438 — the per-partition lag rules.
  Written to follow the Go control flow: same predicates, same order, same loop direction.
  `none` results stand for a Go run-time panic (index out of range / nil dereference).
-/
import BurrowVerif.Model.Basic

namespace Burrow.Eval

/-- Rule 1 — caching.go:356 `isLagAlwaysNotZero`. -/
def isLagAlwaysNotZero : List Commit → Nat → Bool
  | [], _ => true
  | c :: cs, allowed =>
    match c.lag with
    | some l => if l ≤ allowed then false else isLagAlwaysNotZero cs allowed
    | none => isLagAlwaysNotZero cs allowed

/-- loop body of `checkIfOffsetsRewind`: `prev` is `offsets[i-1].Offset`, the list is `offsets[i:]`. -/
def rewindFrom (prev : Int) : List Commit → Nat → Option Nat
  | [], _ => none
  | c :: cs, i => if c.offset < prev then some i else rewindFrom c.offset cs (i + 1)

/-- Rule 2 — caching.go:368 `checkIfOffsetsRewind`; `none` is Go's `-1`. -/
def checkIfOffsetsRewind : List Commit → Option Nat
  | [] => none
  | c :: cs => rewindFrom c.offset cs 1

/-- Rule 2 part 2 — caching.go:381 `checkIfRewindRecovered`. -/
def checkIfRewindRecovered (w : List Commit) (resetIndex : Nat) : Option Bool :=
  match w[resetIndex - 1]? with
  | none => none
  | some prev => some ((w.drop resetIndex).any fun c => c.offset ≥ prev.offset)

/-- Rule 3 — caching.go:394 `checkIfOffsetsStopped`; `none` on an empty window (Go: index panic). -/
def checkIfOffsetsStopped (w : List Commit) (timeNow : Int) : Option Bool :=
  match w.head?, w.getLast? with
  | some first, some last => some ((timeNow * 1000 - last.ts) > (last.ts - first.ts))
  | _, _ => none

/-- loop body of `checkIfOffsetsStalled`. -/
def stalledFrom (prev : Int) : List Commit → Bool
  | [] => true
  | c :: cs => if c.offset ≠ prev then false else stalledFrom c.offset cs

/-- Rule 4 — caching.go:403 `checkIfOffsetsStalled`. -/
def checkIfOffsetsStalled : List Commit → Bool
  | [] => true
  | c :: cs => stalledFrom c.offset cs

/-- loop body of `checkIfLagNotDecreasing` with the `lastLag` variable. -/
def lagNotDecreasingFrom (lastLag : Option Nat) : List Commit → Bool
  | [] => true
  | c :: cs =>
    match c.lag with
    | none => lagNotDecreasingFrom lastLag cs
    | some l =>
      match lastLag with
      | some ll => if l < ll then false else lagNotDecreasingFrom (some l) cs
      | none => lagNotDecreasingFrom (some l) cs

/-- Rule 5 — caching.go:413 `checkIfLagNotDecreasing`. -/
def checkIfLagNotDecreasing (w : List Commit) : Bool := lagNotDecreasingFrom none w

/-- caching.go:430 `checkIfRecentLagZero`; `none` on an empty window. -/
def checkIfRecentLagZero (w : List Commit) (brokerOffsets : List Int) : Option Bool :=
  match w.getLast? with
  | none => none
  | some last => some (brokerOffsets.any fun b => b ≤ last.offset)

/-- caching.go:315 `calculatePartitionStatus`.  `none` = the Go code would panic (only on an empty
    window with `currentLag > allowedLag`). -/
def calculate (w : List Commit) (brokerOffsets : List Int) (currentLag : Nat) (timeNow : Int)
    (allowedLag : Nat) : Option Status :=
  if currentLag > allowedLag then
    match checkIfOffsetsStopped w timeNow, checkIfRecentLagZero w brokerOffsets with
    | some stopped, some recentZero =>
      if stopped && !recentZero then some .stop
      else
        let rewound : Bool :=
          match checkIfOffsetsRewind w with
          | some idx =>
            -- Go: `rewindIndex > 0 && !checkIfRewindRecovered(offsets, rewindIndex)`; idx ≥ 1 always
            (match checkIfRewindRecovered w idx with
             | some r => !r
             | none => false)
          | none => false
        if rewound then some .rewind
        else if isLagAlwaysNotZero w allowedLag then
          if checkIfOffsetsStalled w then some .stall
          else if checkIfLagNotDecreasing w then some .warn
          else some .ok
        else some .ok
    | _, _ => none
  else some .ok

/-! ### `evaluatePartitionStatus` (caching.go:272-313) -/

/-- `protocol.ConsumerPartition` as delivered by storage. -/
structure Partition where
  offsets       : List (Option Commit)
  brokerOffsets : List Int
  owner         : String
  clientID      : String
  currentLag    : Nat
  deriving Repr, DecidableEq, Inhabited

/-- `protocol.PartitionStatus` minus the naming fields added by the caller.
    `complete` is carried as the exact pair (numerator, denominator) handed to the float32 division;
    `(0, 0)` is Go's zero value `0.0` (no division performed), `(n, n)` is the literal `1.0`. -/
structure PartStatus where
  status     : Status
  currentLag : Nat
  start      : Option Commit
  «end»      : Option Commit
  complete   : Nat × Nat
  deriving Repr, DecidableEq, Inhabited

/-- index of the first non-nil entry (caching.go:284-290); with the repair the default for an
    all-nil window is `len` (empty suffix), not `len-1` (which kept one nil entry). -/
def firstNonNil (offs : List (Option Commit)) : Nat :=
  match offs.findIdx? Option.isSome with
  | some i => i
  | none => offs.length

/-- Result of `evaluatePartitionStatus`.  `meets` is the outcome of the float32 comparison
    `status.Complete >= minimumComplete`, a parameter (exact float32 emulation in the driver).
    `none` = Go would panic (nil dereference inside `calculatePartitionStatus`). -/
def evaluatePartition (p : Partition) (meets : Nat → Nat → Bool) (timeNow : Int) (allowedLag : Nat) :
    Option PartStatus :=
  if p.offsets.length = 0 then
    some { status := .ok, currentLag := p.currentLag, start := none, «end» := none, complete := (0, 0) }
  else
    let first := firstNonNil p.offsets
    let offs := p.offsets.drop first
    let complete : Nat × Nat := (offs.length, p.offsets.length)
    if offs.length = 0 then
      some { status := .ok, currentLag := p.currentLag, start := none, «end» := none, complete := complete }
    else
      let start := offs.head?.join
      let «end» := offs.getLast?.join
      if meets complete.1 complete.2 then
        -- the Go code dereferences every entry of `offs`; a nil entry there is a panic unless
        -- `currentLag ≤ allowedLag` short-circuits before any dereference
        if p.currentLag > allowedLag then
          match offs.mapM id with
          | none => none
          | some w =>
            match calculate w p.brokerOffsets p.currentLag timeNow allowedLag with
            | none => none
            | some st => some { status := st, currentLag := p.currentLag, start, «end», complete }
        else
          some { status := .ok, currentLag := p.currentLag, start, «end», complete }
      else
        some { status := .ok, currentLag := p.currentLag, start, «end», complete }

end Burrow.Eval
