/-
  Model of the Kafka cluster module's refresh cycle, core/internal/cluster/kafka_cluster.go:156-302
  (maybeUpdateMetadataAndDeleteTopics, generateOffsetRequests, getOffsets).  Everything the module
  asks of Kafka is a parameter (`Env`): what the calls answer in *this* cycle, faults included.
-/
import BurrowVerif.Model.Basic

namespace Burrow.Cluster
open Burrow

/-- what the Kafka client and the brokers answer during one cycle -/
structure Env where
  /-- `client.Topics()`; `none` = error -/
  topics        : Option (List String)
  /-- `client.Partitions(topic)`; `none` = error -/
  partitions    : String → Option (List Int)
  /-- `client.Leader(topic, p)` during the metadata refresh: broker id, `none` = error/no leader -/
  leaderRefresh : String → Int → Option Nat
  /-- `client.Leader(topic, p)` while the offset requests are built -/
  leaderRequest : String → Int → Option Nat
  /-- `broker.GetAvailableOffsets(request)`: `none` = the call failed; per block `none` = an error
      code, `some o` = `Offsets[0]` -/
  answer        : Nat → List (String × Int) → Option (List (String × Int × Option Int))

/-- snapshot entry: topic, partitions that had a leader at the refresh, total partition count
    (`cap` of the slice: leaderless partitions included) -/
abbrev Snapshot := List (String × List Int × Nat)

structure CState where
  fetchMetadata : Bool
  snapshot      : Option Snapshot        -- `none` = Go `nil` map (no refresh completed yet)

def CState.init : CState := { fetchMetadata := true, snapshot := none }

/-- Go map assignment `topicPartitions[topic] = …` -/
def snapSet (t : String) (v : List Int × Nat) : Snapshot → Snapshot
  | [] => [(t, v)]
  | (t', v') :: rest => if t' = t then (t, v) :: rest else (t', v') :: snapSet t v rest

def snapCount (snap : Option Snapshot) (t : String) : Nat :=
  match snap with
  | none => 0
  | some l => match l.find? (·.1 == t) with
    | some e => e.2.2
    | none => 0

/-- the topic loop of the refresh (kafka_cluster.go:170-191); `none` = a Partitions call failed -/
def readTopics (env : Env) : List String → Snapshot → Option Snapshot
  | [], acc => some acc
  | t :: ts, acc =>
    match env.partitions t with
    | none => none
    | some ps =>
      readTopics env ts (snapSet t (ps.filter (fun p => (env.leaderRefresh t p).isSome), ps.length) acc)

/-- kafka_cluster.go:156 `maybeUpdateMetadataAndDeleteTopics`: new state, whether metadata was
    re-read, topics reported deleted -/
def maybeUpdate (s : CState) (env : Env) : CState × Bool × List String :=
  if s.fetchMetadata then
    match env.topics with
    | none => ({ s with fetchMetadata := false }, true, [])
    | some ts =>
      match readTopics env ts [] with
      | none => ({ s with fetchMetadata := false }, true, [])
      | some snap =>
        let deletes := match s.snapshot with
          | none => []
          | some old => (old.map (·.1)).filter fun t => !(snap.any (·.1 == t))
        ({ fetchMetadata := false, snapshot := some snap }, true, deletes)
  else (s, false, [])

/-- add a block to the request bucket of broker `b` -/
def addBlock (b : Nat) (tp : String × Int) : List (Nat × List (String × Int)) → List (Nat × List (String × Int))
  | [] => [(b, [tp])]
  | (b', l) :: rest => if b' = b then (b, l ++ [tp]) :: rest else (b', l) :: addBlock b tp rest

/-- kafka_cluster.go:212 `generateOffsetRequests` over one topic's led partitions -/
def genTopic (env : Env) (t : String) :
    List Int → List (Nat × List (String × Int)) × Bool → List (Nat × List (String × Int)) × Bool
  | [], acc => acc
  | p :: ps, (reqs, unknownLeader) =>
    match env.leaderRequest t p with
    | none => genTopic env t ps (reqs, true)
    | some b => genTopic env t ps (addBlock b (t, p) reqs, unknownLeader)

def genAll (env : Env) :
    Snapshot → List (Nat × List (String × Int)) × Bool → List (Nat × List (String × Int)) × Bool
  | [], acc => acc
  | (t, ps, _) :: rest, acc => genAll env rest (genTopic env t ps acc)

/-- a `StorageSetBrokerOffset` request: topic, partition, offset, topic partition count -/
abbrev Update := String × Int × Int × Nat

/-- the response loop of `getBrokerOffsets` (kafka_cluster.go:262-288): updates and "some block had an error" -/
def handleResponse (snap : Option Snapshot) : List (String × Int × Option Int) → List Update × Bool
  | [] => ([], false)
  | (t, p, r) :: rest =>
    let (ups, err) := handleResponse snap rest
    match r with
    | none => (ups, true)
    | some o => ((t, p, o, snapCount snap t) :: ups, err)

def callBrokers (env : Env) (snap : Option Snapshot) :
    List (Nat × List (String × Int)) → List Update × Bool
  | [] => ([], false)
  | (b, reqs) :: rest =>
    let (ups, err) := callBrokers env snap rest
    match env.answer b reqs with
    | none => (ups, err)
    | some resp => let (u, e) := handleResponse snap resp; (u ++ ups, e || err)

structure CycleOut where
  refreshed : Bool
  deletes   : List String
  asked     : List (Nat × List (String × Int))
  updates   : List Update
  deriving Repr, DecidableEq, Inhabited

/-- kafka_cluster.go:241 `getOffsets`: one refresh cycle -/
def cycle (s : CState) (env : Env) : CState × CycleOut :=
  let (s1, refreshed, deletes) := maybeUpdate s env
  let (asked, unknownLeader) := genAll env (s1.snapshot.getD []) ([], false)
  let (updates, blockError) := callBrokers env s1.snapshot asked
  ({ s1 with fetchMetadata := s1.fetchMetadata || unknownLeader || blockError },
   { refreshed, deletes, asked, updates })

/-- consecutive cycles; `tick i` = the metadata ticker fired before cycle `i` -/
def runCycles : CState → List (Bool × Env) → List CycleOut
  | _, [] => []
  | s, (tick, env) :: rest =>
    let s := if tick then { s with fetchMetadata := true } else s
    let (s', out) := cycle s env
    out :: runCycles s' rest


/-! ### The module's main loop (kafka_cluster.go:137) and the groups reaper (kafka_cluster.go:304) -/

/-- kafka_cluster.go:304 `reapNonExistingGroups`.  `kafkaGroups` = `client.ListConsumerGroups()`
    (`none` = error), `storageGroups` = storage's answer to `StorageFetchConsumers` (`none` = a nil
    reply: unknown cluster).  Result: whether storage was asked at all, and the groups a
    `StorageSetDeleteGroup` request is sent for, in the order of storage's listing. -/
def reapIgnoring (ignore : String) (kafkaGroups storageGroups : Option (List String)) : Bool × List String :=
  match kafkaGroups with
  | none => (false, [])
  | some kg =>
    match storageGroups with
    | none => (true, [])
    | some sg => (true, sg.filter fun g => g != ignore && !kg.contains g)

/-- … with the group the module spares: its own progress group `burrow-<name>` -/
def reap (name : String) (kafkaGroups storageGroups : Option (List String)) : Bool × List String :=
  reapIgnoring ("burrow-" ++ name) kafkaGroups storageGroups

/-- what the main loop's `select` can receive (the quit channel ends the run and is not an event) -/
inductive Tick where
  | offset (env : Env)
  | metadata
  | reaper (kafkaGroups storageGroups : Option (List String))

inductive LoopOut where
  | cycled (o : CycleOut)
  | flagged
  | reaped (asked : Bool) (deletes : List String)

/-- one iteration of `mainLoop` -/
def loopStep (name : String) (s : CState) : Tick → CState × LoopOut
  | .offset env => let (s', o) := cycle s env; (s', .cycled o)
  | .metadata => ({ s with fetchMetadata := true }, .flagged)
  | .reaper kg sg => let (a, d) := reap name kg sg; (s, .reaped a d)

def runLoop (name : String) : CState → List Tick → List LoopOut
  | _, [] => []
  | s, t :: ts => let (s', o) := loopStep name s t; o :: runLoop name s' ts

/-- the module's state after a tick sequence -/
def loopState (name : String) : CState → List Tick → CState
  | s, [] => s
  | s, t :: ts => loopState name (loopStep name s t).1 ts

/-- the refresh cycles a tick sequence amounts to: each offset tick, with "a metadata tick arrived
    since the previous offset tick" as its flag -/
def cyclesOf : Bool → List Tick → List (Bool × Env)
  | _, [] => []
  | flag, .offset env :: ts => (flag, env) :: cyclesOf false ts
  | _, .metadata :: ts => cyclesOf true ts
  | flag, .reaper _ _ :: ts => cyclesOf flag ts

def cycleOuts : List LoopOut → List CycleOut
  | [] => []
  | .cycled o :: rest => o :: cycleOuts rest
  | _ :: rest => cycleOuts rest


/-- kafka_cluster.go:58 `Configure`: the offset, topic and groups-reaper refresh intervals — as set, else
    10 s, 60 s, and 0 (reaper off) -/
def settings (offsetRefresh topicRefresh reaperRefresh : Option Int) : Int × Int × Int :=
  (offsetRefresh.getD 10, topicRefresh.getD 60, reaperRefresh.getD 0)

/-- kafka_cluster.go:86 `Start` followed by `n` offset ticks (no metadata tick yet): the first fetch happens
    inside `Start`, with the metadata flag set -/
def startThenTicks (name : String) (envs : List Env) : List LoopOut :=
  runLoop name CState.init (envs.map Tick.offset)

/-! ### The sarama shim (helpers.BurrowSaramaClient / BurrowSaramaBroker)

  `Env` above is what the module is ANSWERED through `helpers.SaramaClient`.  In production that
  interface is implemented by a shim over `sarama.Client`; the model identifies the two, which is right
  exactly when the shim hands every answer through unchanged.  The shim's source is regenerated as facts
  (F12) and checked by `Shim.transparent`. -/
namespace Shim

/-- a method that is nothing but `return <wrapped>.<Method>(<its own parameters>)` -/
def passThrough (wrapped method args : String) (body : List String) : Bool :=
  body == ["return " ++ wrapped ++ "." ++ method ++ "(" ++ args ++ ")"]

def lookup (facts : List (String × List String)) (k : String) : List String :=
  match facts.find? (·.1 == k) with
  | some e => e.2
  | none => ["<missing>"]

/-- `Leader`: the client's answer, the broker wrapped iff there is one, the error as it came -/
def leaderBody : List String :=
  ["assign broker, err := c.Client.Leader(topic, partitionID)", "decl var shimBroker *BurrowSaramaBroker",
   "if broker != nil", "assign shimBroker = &BurrowSaramaBroker{broker}", "return shimBroker, err"]

def groupsBody : List String :=
  ["assign admin, err := sarama.NewClusterAdminFromClient(c.Client)", "if err != nil", "return nil, err",
   "return admin.ListConsumerGroups()"]

/-- the shim adds nothing, drops nothing and remembers nothing between calls -/
def transparent (facts : List (String × List String)) : Bool :=
  passThrough "c.Client" "Topics" "" (lookup facts "BurrowSaramaClient.Topics") &&
  passThrough "c.Client" "Partitions" "topic" (lookup facts "BurrowSaramaClient.Partitions") &&
  passThrough "c.Client" "WritablePartitions" "topic" (lookup facts "BurrowSaramaClient.WritablePartitions") &&
  passThrough "c.Client" "RefreshMetadata" "topics..." (lookup facts "BurrowSaramaClient.RefreshMetadata") &&
  passThrough "c.Client" "GetOffset" "topic, partitionID, timestamp" (lookup facts "BurrowSaramaClient.GetOffset") &&
  passThrough "c.Client" "Close" "" (lookup facts "BurrowSaramaClient.Close") &&
  passThrough "b.broker" "ID" "" (lookup facts "BurrowSaramaBroker.ID") &&
  passThrough "b.broker" "Close" "" (lookup facts "BurrowSaramaBroker.Close") &&
  passThrough "b.broker" "GetAvailableOffsets" "request" (lookup facts "BurrowSaramaBroker.GetAvailableOffsets") &&
  lookup facts "BurrowSaramaClient.Leader" == leaderBody &&
  lookup facts "BurrowSaramaClient.ListConsumerGroups" == groupsBody &&
  lookup facts "BurrowSaramaClient.NewConsumerFromClient" == ["return sarama.NewConsumerFromClient(c.Client)"] &&
  -- no state of its own: a cache between calls is state an old answer can be served from
  lookup facts "type BurrowSaramaClient" == ["Client sarama.Client"] &&
  lookup facts "type BurrowSaramaBroker" == ["broker *sarama.Broker"]

end Shim

end Burrow.Cluster
