/-
  `container/ring` as used by Burrow's storage: a fixed-size circular list addressed through a
  pointer.  A Go `*ring.Ring` is "a slot index"; the model addresses a slot as "`i` steps after the
  pointer" — `slots[(ptr + i) % n]` — so `r.Next()` is `i + 1`, `r.Prev()` is `i + n - 1`, and Go's
  pointer comparison with the ring pointer is `i % n = 0`.  The pointer arithmetic is kept, not
  normalised away (DESIGN §3).
-/
namespace Burrow

structure Ring (α : Type) where
  slots : List (Option α)
  ptr   : Nat
  deriving Repr, DecidableEq, Inhabited

namespace Ring
variable {α : Type}

/-- `ring.New(n)` -/
def new (n : Nat) : Ring α := ⟨List.replicate n none, 0⟩

/-- `r.Len()` -/
def len (r : Ring α) : Nat := r.slots.length

/-- `r.Move(i).Value` (`none` = Go `nil`) -/
def get (r : Ring α) (i : Nat) : Option α := (r.slots[(r.ptr + i) % r.len]?).join

/-- `r.Move(i).Value = v` -/
def set (r : Ring α) (i : Nat) (v : Option α) : Ring α :=
  { r with slots := r.slots.set ((r.ptr + i) % r.len) v }

/-- `r = r.Move(k)` -/
def advance (r : Ring α) (k : Nat) : Ring α := { r with ptr := (r.ptr + k) % r.len }

/-- the slot `k` steps *before* the pointer, as a forward distance -/
def back (r : Ring α) (k : Nat) : Nat := (r.len - k % r.len) % r.len

/-- values from the pointer onwards, one full turn (`getConsumerTopicList`, inmemory.go:789-806) -/
def readout (r : Ring α) : List (Option α) := (List.range r.len).map r.get

/-- values from the slot after the pointer, one full turn, non-nil only
    (`topicMap[p].Next().Do(...)`, inmemory.go:861-866) -/
def readoutNext (r : Ring α) : List α := (List.range r.len).filterMap fun i => r.get (i + 1)

end Ring
end Burrow
