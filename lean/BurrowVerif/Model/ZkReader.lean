/-
  Model of the Zookeeper offsets reader (consumer/kafka_zk_client.go): what it forwards to storage.

  The reader keeps one-shot watches on the group list, on every accepted group's topic list, on every
  topic's partition list and on every offset node; whenever one fires it re-reads what changed and
  forwards, for each partition it (re)reads, one offset update (if the node's text is a decimal
  integer) and one owner update.  A group rejected by the module's lists gets no watches at all.
  Here: the tree is the list of its offset nodes; an op changes one node; the forwarded requests are
  computed from the node (after `Start`) or from the whole tree (at `Start`, and again after a session
  expiry, when every watch is re-made).  `acc` (the verdict of the two regular expressions on the
  group name) and `parsed` (`strconv.ParseInt` of the node's text) are inputs.  Core Lean only.
-/
namespace Burrow.ZkReader

structure Entry where
  group     : String
  topic     : String
  partition : Nat
  parsed    : Option Int
  owner     : String
  zxid      : Int
  /-- the group passes the module's allowlist and denylist -/
  acc       : Bool
  deriving DecidableEq, Repr, Inhabited

inductive Fw where
  | offset (group topic : String) (partition : Nat) (offset order timestamp : Int)
  | owner (group topic : String) (partition : Nat) (owner : String)
  deriving DecidableEq, Repr, Inhabited

def Fw.group : Fw → String
  | .offset g _ _ _ _ _ => g
  | .owner g _ _ _ => g

/-- what (re)reading one offset node forwards -/
def forwardOne (e : Entry) : List Fw :=
  if e.acc then
    match e.parsed with
    | some v => [.offset e.group e.topic e.partition v e.zxid (e.zxid * 1000), .owner e.group e.topic e.partition e.owner]
    | none => []
  else []

abbrev Tree := List Entry

def sameNode (a b : Entry) : Bool := a.group == b.group && a.topic == b.topic && a.partition == b.partition

def upsert (e : Entry) (t : Tree) : Tree := e :: t.filter fun x => !sameNode x e

/-- walking the whole tree (Start, or the re-initialisation after a session expiry) -/
def walk (t : Tree) : List Fw := t.flatMap forwardOne

structure St where
  tree    : Tree := []
  started : Bool := false
  deriving Repr, Inhabited

inductive Op where
  | set (e : Entry)
  | start
  | expire
  deriving Repr, Inhabited

def step (s : St) : Op → St × List Fw
  | .set e => ({ s with tree := upsert e s.tree }, if s.started then forwardOne e else [])
  | .start => ({ s with started := true }, walk s.tree)
  | .expire => (s, if s.started then walk s.tree else [])

end Burrow.ZkReader
