/-
  The groups reaper end to end: the cluster module's `reapNonExistingGroups` (Model/Cluster.lean: `reap`)
  talking to the storage module (Model/Storage.lean) over the storage channel.
-/
import BurrowVerif.Model.Storage
import BurrowVerif.Model.Cluster

namespace Burrow.Reaper
open Burrow Burrow.Storage

/-- storage executing the reaper's delete-group requests, in order -/
def sweep (s : Store) (cluster : String) : List String → Store
  | [] => s
  | g :: gs => sweep (deleteGroup s { cluster, group := g }).1 cluster gs

/-- one sweep of a cluster's reaper against storage `s`, sparing the group `ignore`: Kafka's listing
    (or its failure) is the parameter, storage's listing is what `s` answers to `StorageFetchConsumers` -/
def runIgnoring (s : Store) (cluster ignore : String) (kafkaGroups : Option (List String)) : Store :=
  sweep s cluster (Cluster.reapIgnoring ignore kafkaGroups (fetchConsumerList s cluster)).2

/-- the reaper of the cluster module named `name` -/
def run (s : Store) (name : String) (kafkaGroups : Option (List String)) : Store :=
  runIgnoring s name ("burrow-" ++ name) kafkaGroups

end Burrow.Reaper
