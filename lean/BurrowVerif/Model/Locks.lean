/-
  Lock skeletons: the events a handler path performs on locks and shared locations, the locks held at
  each point, and the (decidable) discipline that the generated skeleton of the storage handlers is
  checked against.  The handler paths themselves are GENERATED from inmemory.go
  (`Generated/StorageLocks.lean`).  Core Lean only.
-/
namespace Burrow.Locks

inductive Mode where
  | r | w
  deriving DecidableEq, Repr, Inhabited

inductive Ev where
  | acq (lock : String) (mode : Mode)
  | rel (lock : String)
  | acc (loc : String) (write : Bool)
  deriving DecidableEq, Repr, Inhabited

abbrev Held := List (String × Mode)

/-- the locks held after one more event -/
def stepHeld (h : Held) : Ev → Held
  | .acq l m => (l, m) :: h
  | .rel l => h.filter fun e => e.1 != l
  | .acc _ _ => h

/-- the locks held after a prefix of a path -/
def heldAfter (p : List Ev) : Held := p.foldl stepHeld []

structure Access where
  loc    : String
  write  : Bool
  held   : Held
  /-- the handler runs on the worker chosen by hash(cluster+group) -/
  hashed : Bool
  deriving DecidableEq, Repr, Inhabited

/-- every access of a path with the locks held when it happens -/
def accessesFrom (hashed : Bool) : Held → List Ev → List Access
  | _, [] => []
  | h, .acc loc w :: rest => { loc, write := w, held := h, hashed } :: accessesFrom hashed h rest
  | h, e :: rest => accessesFrom hashed (stepHeld h e) rest

def dedupA : List Access → List Access
  | [] => []
  | a :: as => a :: (dedupA as).filter (· != a)

/-- state that belongs to one consumer group (reached through the group object) -/
def perGroup (loc : String) : Bool := loc == "topics" || loc == "lastCommit"

def conflicting (a b : Access) : Bool := a.loc == b.loc && (a.write || b.write)

/-- both hold a common lock and at least one holds it for writing -/
def commonLock (a b : Access) : Bool :=
  a.held.any fun x => b.held.any fun y => x.1 == y.1 && (x.2 == .w || y.2 == .w)

/-- two conflicting accesses from different workers cannot be simultaneous: a common lock excludes
    them, or both concern the same group's state from handlers that the router serialises on that
    group's worker -/
def excluded (a b : Access) : Bool := commonLock a b || (perGroup a.loc && a.hashed && b.hashed)

abbrev Handlers := List (String × String × String × List (List Ev))

def handlerAccesses (h : String × String × String × List (List Ev)) : List Access :=
  dedupA (h.2.2.2.flatMap fun p => accessesFrom (h.2.2.1 == "hashed") [] p)

def allAccesses (hs : Handlers) : List Access := dedupA (hs.flatMap handlerAccesses)

/-- **the lock discipline**: every pair of conflicting accesses is excluded -/
def disciplined (hs : Handlers) : Bool :=
  let as := allAccesses hs
  as.all fun a => as.all fun b => !conflicting a b || excluded a b

/-- a path never acquires a lock it holds, never releases one it does not hold, and ends holding none -/
def balancedFrom : Held → List Ev → Bool
  | h, [] => h.isEmpty
  | h, .acq l m :: rest => !(h.any fun e => e.1 == l) && balancedFrom ((l, m) :: h) rest
  | h, .rel l :: rest => (h.any fun e => e.1 == l) && balancedFrom (h.filter fun e => e.1 != l) rest
  | h, .acc _ _ :: rest => balancedFrom h rest

def allBalanced (hs : Handlers) : Bool := hs.all fun h => h.2.2.2.all (balancedFrom [])

/-- rank of a lock in the acquisition order: consumer map, then group; the broker lock is never nested -/
def rank (l : String) : Nat := if l == "cmap" then 1 else if l == "group" then 2 else 3

/-- nested acquisitions go strictly up in rank, and the broker lock is only taken with nothing held -/
def orderedFrom : Held → List Ev → Bool
  | _, [] => true
  | h, .acq l m :: rest =>
    (h.all fun e => rank e.1 < rank l) && (l != "broker" || h.isEmpty) && orderedFrom ((l, m) :: h) rest
  | h, e :: rest => orderedFrom (stepHeld h e) rest

def allOrdered (hs : Handlers) : Bool := hs.all fun h => h.2.2.2.all (orderedFrom [])

/-! ### the worker router (mainLoop) -/

structure Req where
  hashed  : Bool
  key     : String      -- cluster ++ group
  id      : Nat
  deriving DecidableEq, Repr, Inhabited

/-- `mainLoop`: a hashed request goes to worker `hash key % n`, any other to a worker of the
    environment's choosing; each worker's channel is FIFO, so a worker's queue is the subsequence of
    the arrivals assigned to it -/
def assign (n : Nat) (hash : String → Nat) (pick : Nat → Nat) (r : Req) : Nat :=
  if r.hashed then hash r.key % n else pick r.id % n

def queueOf (n : Nat) (hash : String → Nat) (pick : Nat → Nat) (arrivals : List Req) (w : Nat) : List Req :=
  arrivals.filter fun r => assign n hash pick r == w

end Burrow.Locks
